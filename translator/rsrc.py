"""Small helpers for reading Rust source text (no parsing of control flow)."""
import re


class TranslatorError(Exception):
    def __init__(self, section, msg):
        super().__init__(f"[{section}] {msg}")
        self.section = section
        self.msg = msg


def strip_comments(src: str) -> str:
    """Remove // line comments and /* */ comments outside string literals."""
    out = []
    i = 0
    n = len(src)
    while i < n:
        c = src[i]
        if c == '"':
            j = i + 1
            while j < n and src[j] != '"':
                if src[j] == '\\':
                    j += 1
                j += 1
            out.append(src[i:j + 1])
            i = j + 1
        elif c == 'r' and re.match(r'r#*"', src[i:]):
            m = re.match(r'r(#*)"', src[i:])
            hashes = m.group(1)
            end = src.find('"' + hashes, i + len(m.group(0)))
            out.append(src[i:end + 1 + len(hashes)])
            i = end + 1 + len(hashes)
        elif c == "'" and re.match(r"'(\\.|[^\\'])'", src[i:]):
            m = re.match(r"'(\\.|[^\\'])'", src[i:])
            out.append(m.group(0))
            i += len(m.group(0))
        elif src.startswith('//', i):
            j = src.find('\n', i)
            if j < 0:
                j = n
            i = j
        elif src.startswith('/*', i):
            j = src.find('*/', i)
            i = j + 2
        else:
            out.append(c)
            i += 1
    return ''.join(out)


def norm_ws(s: str) -> str:
    return re.sub(r'\s+', ' ', s).strip()


def cut_tests(src: str) -> str:
    """Drop the #[cfg(test)] module at the end of a file."""
    i = src.find('#[cfg(test)]\nmod tests')
    if i < 0:
        i = src.find('#[cfg(test)]\r\nmod tests')
    return src if i < 0 else src[:i]


def fn_body(src: str, name: str, section: str) -> str:
    """Text of the body (between the outer braces) of `fn name`."""
    m = re.search(r'\bfn\s+' + re.escape(name) + r'\s*(<[^>]*>)?\s*\(', src)
    if not m:
        raise TranslatorError(section, f"fn {name} not found")
    i = src.find('{', m.end())
    # skip over the signature: find the first '{' at paren depth 0
    depth = 0
    j = m.end() - 1
    while j < len(src):
        ch = src[j]
        if ch == '(':
            depth += 1
        elif ch == ')':
            depth -= 1
        elif ch == '{' and depth == 0:
            break
        j += 1
    i = j
    return balanced(src, i, section)[1:-1]


def balanced(src: str, i: int, section: str) -> str:
    """Return src[i..] up to the brace matching src[i] == '{' (string aware)."""
    assert src[i] == '{'
    depth = 0
    j = i
    n = len(src)
    while j < n:
        c = src[j]
        if c == '"':
            j += 1
            while j < n and src[j] != '"':
                if src[j] == '\\':
                    j += 1
                j += 1
        elif c == "'" and re.match(r"'(\\.|[^\\'])'", src[j:]):
            j += len(re.match(r"'(\\.|[^\\'])'", src[j:]).group(0)) - 1
        elif c == '{':
            depth += 1
        elif c == '}':
            depth -= 1
            if depth == 0:
                return src[i:j + 1]
        j += 1
    raise TranslatorError(section, "unbalanced braces")


_ESC = {'n': '\n', 't': '\t', 'r': '\r', '0': '\0', '\\': '\\', '"': '"', "'": "'"}


def unescape(lit: str) -> bytes:
    """Decode the inside of a Rust "..." literal to bytes."""
    out = bytearray()
    i = 0
    while i < len(lit):
        c = lit[i]
        if c == '\\':
            d = lit[i + 1]
            if d in _ESC:
                out += _ESC[d].encode()
                i += 2
            elif d == 'x':
                out.append(int(lit[i + 2:i + 4], 16))
                i += 4
            elif d == 'u':
                j = lit.index('}', i)
                out += chr(int(lit[i + 3:j], 16)).encode('utf-8')
                i = j + 1
            elif d == '\n':
                i += 2
                while i < len(lit) and lit[i] in ' \t\n\r':
                    i += 1
            else:
                raise ValueError("bad escape " + lit[i:i + 2])
        else:
            out += c.encode('utf-8')
            i += 1
    return bytes(out)


STR = r'"((?:[^"\\]|\\.)*)"'


# ---- Gallina rendering ----
def g_bytes(b) -> str:
    if isinstance(b, str):
        b = b.encode('utf-8')
    return '[' + ';'.join(str(x) for x in b) + ']'


def g_comment(b) -> str:
    if isinstance(b, bytes):
        b = b.decode('utf-8', 'replace')
    b = b.replace('*)', '* )').replace('(*', '( *').replace('"', "''")
    return '(* ' + b + ' *)'


def g_list(items) -> str:
    items = list(items)
    if not items:
        return '[]'
    return '[ ' + ';\n    '.join(items) + ' ]'
