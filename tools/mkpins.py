#!/usr/bin/env python3
"""Extract the statements of the property theorems of coq/theories/Props/<id>.v into
checks/pins/<id>.json.  Run by hand when a statement is (deliberately) changed; the
checks compare the compiled theorems against these pins (Check name : statement)."""
import json, os, re, sys
HERE = os.path.dirname(os.path.dirname(os.path.abspath(__file__)))
sys.path.insert(0, HERE)
from checks.common import strip_coq_comments

for pid in sys.argv[1:]:
    src = strip_coq_comments(open(os.path.join(HERE, 'coq', 'theories', 'Props', pid + '.v')).read())
    imports = ' '.join(re.findall(r'^(?:From\s+\S+\s+)?Require\s+Import[^.]*(?:\.[A-Za-z][^.]*)*\.\s*$', src, flags=re.M | re.S)) or ''
    imports = '\n'.join(m.group(0).strip() for m in re.finditer(r'From VL Require Import[\s\S]*?\.\s*\n', src))
    thms = {}
    for m in re.finditer(r'^(Theorem)\s+(\w+)\s*:\s*([\s\S]*?)\.\s*\nProof\.', src, flags=re.M):
        thms[m.group(2)] = re.sub(r'\s+', ' ', m.group(3)).strip()
    lemmas = re.findall(r'^(?:Lemma|Example|Definition)\s+(C\d\d_\w+)', src, flags=re.M)
    json.dump({'imports': imports, 'theorems': thms, 'others': lemmas}, open(os.path.join(HERE, 'checks', 'pins', pid + '.json'), 'w'), indent=1)
    print(pid, len(thms), 'theorems pinned;', len(lemmas), 'witness/example lemmas')
