#!/usr/bin/env python3
"""Snapshot the reviewed SQL text / constants of Gen/GenCache.v into Proofs/CachePins.v (run by hand after review)."""
import os, re
HERE = os.path.dirname(os.path.dirname(os.path.abspath(__file__)))
g = open(os.path.join(HERE, 'coq/theories/Gen/GenCache.v')).read()
def body(name):
    m = re.search(r'Definition ' + name + r' : [^\n]*:=\n(.*?)\.\n(?:\n|\Z)', g, flags=re.S)
    return m.group(1)
out = '''(* Pins: the SQL text, constants and transaction brackets that Model/CacheDb.v was
   written against (snapshot made by tools/mkcachepins.py after review).  The
   left-hand sides are regenerated from /repo/src on every run, so any edit of an
   SQL string, of MIGRATIONS, of a time constant or of the transaction structure
   breaks one of these proofs even if no generated input exercises it. *)
From Coq Require Import ZArith.
From VL Require Import Lib.Bytes Lib.Reg Gen.GenCache.

Lemma pin_fetch_timeout : fetch_timeout_ms = 30000%Z.
Proof. reflexivity. Qed.
Lemma pin_refresh_interval : default_refresh_interval_ms = 86400000%Z.
Proof. reflexivity. Qed.
Lemma pin_stagger : fetch_stagger_delay_ms = 10%Z.
Proof. reflexivity. Qed.

Lemma pin_migrations : migrations =
''' + body('migrations') + '''.
Proof. reflexivity. Qed.

Lemma pin_sql : sql_pins =
''' + body('sql_pins') + '''.
Proof. reflexivity. Qed.

Lemma pin_stmt_order : stmt_order =
''' + body('stmt_order') + '''.
Proof. reflexivity. Qed.

Lemma pin_tx_brackets : tx_brackets =
''' + body('tx_brackets') + '''.
Proof. reflexivity. Qed.
'''
open(os.path.join(HERE, 'coq/theories/Proofs/CachePins.v'), 'w').write(out)
print('written')
