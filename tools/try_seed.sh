#!/bin/bash
# usage: try_seed.sh <patch.diff> <property-id>... ; applies a seeded change to /repo, runs the quick checks named,
# prints their VIOLATION / OK lines, and restores /repo and the evidence files
P=$1; shift
git -C /repo apply "$P" || { echo PATCH-DOES-NOT-APPLY; exit 3; }
for id in "$@"; do
  ( cd /verif && timeout 1800 ./vcheck check $id --tier quick > /tmp/try_seed_$id.log 2>&1; echo "[$id] exit=$?"; grep -E "^VIOLATION|^KNOWN-FINDING|OK tier|BROKEN" /tmp/try_seed_$id.log | grep -v KNOWN-FINDING | cut -c1-400 | head -8 )
done
git -C /repo checkout -- .
git -C /verif checkout -- evidence
