#!/usr/bin/env python3
"""Print the markdown table of DESIGN.md section 13.3 from seeded/*/meta.json."""
import glob, json, os
rows = []
for d in sorted(glob.glob('/verif/seeded/*/')):
    m = json.load(open(d + 'meta.json'))
    name = os.path.basename(d.rstrip('/'))
    needs = ' '.join(str(m.get('needs', '')).split())[:260]
    caught = ' '.join(str(m.get('caught_by', '')).split())
    rows.append(f"| `{name}` | {m['property']} | {needs} | {caught} |")
print('| seeded change | property | needs | caught by |\n|---|---|---|---|')
print('\n'.join(rows))
