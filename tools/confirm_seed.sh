#!/bin/bash
# usage: confirm_seed.sh <mutout-dir-name> ; confirms a seeded change in a scratch worktree:
#  with the patch: the existing suite passes and the demo fails; without it: the demo passes.
set -u
ID=$1
SRC=/tmp/mutout/$ID
WT=/tmp/confirm_$ID
export CARGO_TARGET_DIR=/tmp/confirm_target CARGO_NET_OFFLINE=true
git -C /repo worktree remove --force $WT 2>/dev/null
git -C /repo worktree add -f $WT HEAD >/dev/null 2>&1 || exit 3
cd $WT
git apply $SRC/patch.diff || { echo "PATCH-DOES-NOT-APPLY"; exit 3; }
cp $SRC/seeded_demo.rs tests/seeded_demo.rs
cargo test --offline --no-fail-fast > $SRC/confirm_with.log 2>&1
WITH_SUITE=$(grep -E '^test result' $SRC/confirm_with.log | grep -v ' 0 failed' | wc -l)
WITH_DEMO=$(awk '/Running tests\/seeded_demo.rs/{f=1} f&&/^test result/{print; exit}' $SRC/confirm_with.log)
git apply -R $SRC/patch.diff
cargo test --offline --test seeded_demo > $SRC/confirm_without.log 2>&1
WITHOUT_DEMO=$(grep -E '^test result' $SRC/confirm_without.log | head -1)
echo "ID=$ID suites-with-failures(with patch, incl. demo)=$WITH_SUITE"
echo "  demo with patch   : $WITH_DEMO"
echo "  demo without patch: $WITHOUT_DEMO"
cd /; git -C /repo worktree remove --force $WT
