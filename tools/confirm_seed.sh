#!/bin/bash
# usage: confirm_seed.sh <mutout-dir-name> ; confirms a seeded change in a scratch worktree:
#  with the patch: the existing suite (guard off) passes and the demo (guard on) fails; without it: the demo passes.
set -u
ID=$1
SRC=/tmp/mutout/$ID
WT=/tmp/confirm_$ID
export CARGO_TARGET_DIR=/tmp/confirm_target CARGO_NET_OFFLINE=true
git -C /repo worktree remove --force $WT 2>/dev/null
git -C /repo worktree add -f $WT HEAD >/dev/null 2>&1 || exit 3
cd $WT
git apply $SRC/patch.diff || { echo "PATCH-DOES-NOT-APPLY"; exit 3; }
cargo test --offline --no-fail-fast > $SRC/confirm_suite.log 2>&1
SUITE_FAIL=$(grep -E '^test result' $SRC/confirm_suite.log | grep -v ' 0 failed' | wc -l)
SUITE_N=$(grep -E '^test result' $SRC/confirm_suite.log | awk '{s+=$4} END {print s}')
cp $SRC/seeded_demo.rs tests/seeded_demo.rs
cargo test --offline --features verif --test seeded_demo > $SRC/confirm_with.log 2>&1
WITH_DEMO=$(grep -E '^test result' $SRC/confirm_with.log | head -1)
git apply -R $SRC/patch.diff
cargo test --offline --features verif --test seeded_demo > $SRC/confirm_without.log 2>&1
WITHOUT_DEMO=$(grep -E '^test result' $SRC/confirm_without.log | head -1)
echo "ID=$ID existing suite with patch (guard off): $SUITE_N tests passed, suites with failures=$SUITE_FAIL"
echo "  demo with patch   : $WITH_DEMO"
echo "  demo without patch: $WITHOUT_DEMO"
cd /; git -C /repo worktree remove --force $WT
