#!/bin/bash
# run every claimed check's quick command on the current tree (evidence refresh before a commit)
cd /verif
python3 translator/gen.py >/dev/null
for id in $(python3 -c "import json;print(' '.join(c['property_id'] for c in json.load(open('MANIFEST.json'))['checks']))"); do
  ./vcheck check $id --tier quick 2>&1 | grep -E "^\[$id\] OK|VIOLATION|BROKEN" | cut -c1-300
done
python3-vt - <<'PY'
import json,jsonschema
m=json.load(open('/verif/MANIFEST.json'))
jsonschema.validate(m,json.load(open('/root/.vp/MANIFEST.schema.json')))
sch=json.load(open('/root/.vp/EVIDENCE.schema.json'))
for c in m['checks']:
    e=json.load(open(c['evidence_file'])); jsonschema.validate(e,sch)
    cov=e['coverage']
    assert e['level']!='proof' or (cov['discharged']==cov['obligations']>0), (c['property_id'],cov['discharged'],cov['obligations'])
print('manifest and evidence valid')
PY
