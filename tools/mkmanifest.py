#!/usr/bin/env python3
"""Regenerate MANIFEST.json from the table below (run by hand)."""
import json, os, subprocess
HERE = os.path.dirname(os.path.dirname(os.path.abspath(__file__)))
TECH = "Rocq/Coq proof over an executable Gallina model + data regenerated from the source + differential correspondence with the Rust code"
CHECKS = {
 "C16": ("proof",
   "Coq theorems C16_detect_meets_spec / C16_detect_eq_classify: for every byte string the model of detect_parser_type, built on tables regenerated from src/parser/types.rs on every run, equals the declarative classification written from the property text; registry cache-key names proved injective. Model tied to the code by a correspondence stream (model vs detect_parser_type) and a Spec-vs-implementation oracle on generated URIs.",
   "Trusted: Coq kernel; translator (regex extraction of the suffix/directory tables and a pin of contains_dir's body); the hand-written model of the if-chain; harness. Gating of publication on the classification is checked with the backend properties.",
   "DESIGN.md section 8 C16"),
 "C02": ("proof",
   "Coq theorems (Props/C02.v): for every range of the npm / Cargo grammar outside the listed known classes and every well-formed version without build metadata, the model's membership lies between the two admissible readings of the reference semantics (node-semver desugaring with and without the -0 lower bounds; Cargo intervals) and equals node-semver / Cargo's matches_impl exactly on every release version; Go: exact identity modulo v/+incompatible with pseudo-versions accepted, GitHub Actions and PyPI: one relation for both verdicts, Invalid iff a side does not parse - for all strings. The matcher models are tied to the code by exhaustive-lattice and random correspondence streams (model vs Rust, including junk and non-ASCII strings) and a reference-vs-Rust oracle; PEP 440 is an oracle (pep440_rs) cross-checked against python packaging.",
   "Trusted: Coq kernel; hand-written matcher models (correspondence-checked); the reference specs as renderings of node-semver 7.6.2 range.js and semver 1.0.27 eval.rs; the link parse(print c) = view c between printed ranges and Spec.RangeView is evaluated on every case, not proved; format!(u64)/parse round trip of the standard library; pep440_rs.",
   "DESIGN.md section 8 C02, Appendix A"),
 "C08": ("proof",
   "Coq theorems (Props/C08.v): for every finite history of store/tags/mark/claim/release operations on any keys (names are arbitrary byte strings), the row-level model of the SQLite tables refines the abstract per-key map (C08_refines, with the table invariant), every public read is a function of that abstract state, the stored versions are exactly the union of what was stored without duplicates (C08_versions_exact), the tag map is the most recent non-empty one (C08_tags_exact), refresh/missing have their stated characterisations, and operations on other keys never matter (C08_isolated). The SQL text, MIGRATIONS, time constants and transaction brackets the model was written against are regenerated from cache.rs on every run and pinned (Proofs/CachePins.v). The model is tied to the real Cache by replaying random histories (1-3 handles on one file, reopen, virtual clock, hostile names) and comparing every return value and the raw tables after every step; the abstract-map oracle is also evaluated on the implementation's own answers.",
   "Trusted: Coq kernel; SQLite/rusqlite semantics of the statement forms used (DESIGN 3.5, monitored by the row-level comparison); hand-written statement model; translator pins; harness. Real thread/process interleavings are the subject of C09/C11.",
   "DESIGN.md section 8 C08, Appendix B"),
 "C03": ("proof",
   "Coq theorems (Props/C03.v): for every history, get_latest_version on the tables is a_latest of the abstract entry (C03_latest_of_history, via the C08 refinement); the cached 'latest' tag wins; the answer is always a cached tag or a stored string; without a tag it is parsable, not a prerelease when prereleases are ignored, and no stored admissible version is greater in the (proved total) order of semver::Version; it is independent of order/batching/repetition of the stores up to spellings of one version, and of every other key. Tied to the code by the cache history stream (model vs real Cache, raw tables), a latest-oracle evaluated in Coq on every latest read of the implementation, and a stream validating Lib.SemVer / parse_version / the bump calculators against the semver crate.",
   "Trusted: as C08, plus Lib.SemVer as a model of the third-party semver crate (parse, derived Ord with build metadata, Display), correspondence-checked.",
   "DESIGN.md section 8 C03"),
 "C01": ("proof",
   "Coq theorems (Props/C01.v): for every database state (hence, by C08, after every history / fill order), every matcher satisfying the matcher contract and every spec string, the diagnostic computed by the model of compare_version + create_diagnostic is the decision table of Spec/Verdict.v applied to the facts (cached latest, tag resolution, well-known tag, well-formedness, some-inside, latest-inside, anchor below latest); the contract is proved for the npm/pnpm/JSR, Cargo and GitHub Actions matchers; corollaries: Invalid beats NotFound, unresolved well-known tags and uncached packages are silent, a failed read yields nothing, messages quote the spec as written. The text of compare_version / create_diagnostic / generate_diagnostics and the tag list are regenerated and pinned. Tied to the code by a stream that fills a real Cache in random batch orders and runs the real generate_diagnostics (model vs implementation), plus an oracle evaluating the table with the reference range semantics of C02.",
   "Trusted: as C02/C03/C08; ecosystem-level facts of the oracle come from the C02 reference semantics; Go and PyPI matcher contracts are covered by correspondence only. Open finding C01-marked-nonexistent-still-judged.",
   "DESIGN.md section 8 C01"),
 "C09": ("proof",
   "Coq theorem C09_exclusive: for every schedule of statement-level steps of any number of handles (the two statements of a claim may be separated by arbitrary steps of others, handles may die in between, every other write is atomic) started from the empty cache, whenever a claim succeeds while an earlier successful claim on the same key is unreleased, more than T ms separate the two captured times; T is pinned to 30000 from src/config.rs; failed attempts have no side effect; an uninterrupted attempt succeeds iff the key is unknown, free or expired; the boundary is strict (now - since > T); claims on other keys are independent. The scheduler model is tied to the code by running real claimants (one thread and connection per handle on one file) parked between their two statements through the statement-point hook under generated schedules with a virtual clock around the 30 s boundary, comparing every result and the raw tables, and by a trace oracle on the implementation's own results.",
   "Trusted: SQLite executes each autocommit statement atomically and serialises writers; separate connections in one process stand for separate processes; hooks H1/H2.",
   "DESIGN.md section 8 C09"),
 "C11": ("proof",
   "Coq theorems (Props/C11.v): any write method whose calls are [reads; begin; writes/reads; commit] is all-or-nothing under a crash or error at any call boundary, for arbitrary statement effects (C11_bracketed_is_atomic); the call sequences of replace_versions and save_dist_tags - regenerated from cache.rs with their transaction brackets on every run - are of that form; release/mark are single statements and the claim's second statement only runs when the first changed nothing; an interrupted schema creation/migration followed by a complete open reaches the full schema; a stale claim expires strictly after T. Tied to the code by injecting a database error in-process and abort()ing a child process at every numbered statement point (incl. first/second loop iteration) after random histories, then reading the file with a fresh handle: the tables must be the state before or after (and the one the model predicts); a second handle reading at each point must also see before or after.",
   "Trusted: SQLite atomicity/durability under process kill with WAL + synchronous=NORMAL (assumed in the theorems; exercised by abort()); translator extraction of the call sequence; hooks H2. Power loss is outside the stream.",
   "DESIGN.md section 8 C11"),
 "C12": ("proof",
   "Coq theorems (Props/C12.v): for every schema shape a release (or nothing) can have left behind - base tables, + claim column, + both columns, with every recorded version they can carry including newer-than-known - opening reaches the full schema with user_version = max(recorded, 2), is idempotent, recovers from an open interrupted at any statement, and every schema statement is monotone (interleaved opens can only help each other); no schema statement touches a row, so the data component is unchanged. MIGRATIONS is regenerated from cache.rs and pinned. Tied to the code by building legacy files with raw SQL for 8 shapes with random rows, opening them 1-3 times with the real Cache::new, comparing the data and user_version, and replaying random write operations step by step against the model started from the same rows.",
   "Trusted: SQLite semantics of ALTER TABLE ADD COLUMN / CREATE IF NOT EXISTS / PRAGMA user_version; concurrent opens of two processes are covered by the monotonicity and interrupted-open theorems, not scheduled for real.",
   "DESIGN.md section 8 C12"),
}
props = [json.loads(l)['id'] for l in open(os.path.join(HERE, 'properties.jsonl'))]
checks = []
for pid, (cat, text, note, ref) in CHECKS.items():
    checks.append({"property_id": pid, "quick_cmd": f"./vcheck check {pid} --tier quick", "thorough_cmd": f"./vcheck check {pid} --tier thorough",
                   "evidence_file": f"/verif/evidence/{pid}.json", "replay_cmd_template": "cat {path}", "engine": "coq-model",
                   "level_claimed": {"category": cat, "text": text, "design_ref": ref}, "level_note": note, "technique": TECH})
hooks = subprocess.run(['git', '-C', '/repo', 'log', '--format=%h %s'], capture_output=True, text=True).stdout.split('\n')
hook_commits = [l.split()[0] for l in hooks if l.startswith(tuple('0123456789abcdef')) and 'verif hooks' in l]
m = {"version": 1, "setup_cmd": "./vcheck setup",
     "hooks": {"guard": "cargo feature `verif` (cfg(feature = \"verif\"))",
               "enable": "harness/Cargo.toml depends on version-lsp with features=[\"verif\"]; cargo build --offline in /verif/harness",
               "baseline_off_cmd": "cd /repo && cargo test --workspace --no-fail-fast --offline", "source_commits": hook_commits, "add_only": True},
     "engines": [{"name": "coq-model", "path": "/verif/coq", "serves_properties": sorted(CHECKS),
                  "kind_free_text": "Coq 8.16 development (Lib/Gen/Model/Spec/Proofs/Props/Run) + translator + Rust harness + python driver"}],
     "checks": checks,
     "notes": "See DESIGN.md. Properties not yet claimed are listed under not_applicable with the reason 'not claimed yet'; the technique applies to them and they are claimed as their models land.",
     "not_applicable": [{"property_id": p, "reason": "not claimed yet: model and theorems for this property are still being built (the technique applies, see DESIGN.md section 8)"} for p in props if p not in CHECKS]}
json.dump(m, open(os.path.join(HERE, 'MANIFEST.json'), 'w'), indent=1)
print('claimed', sorted(CHECKS))
