#!/usr/bin/env python3
"""keep_seed.py <mutout-id> <seed-name> <property> <caught-by text>: copy a confirmed seeded change into /verif/seeded/."""
import json, os, shutil, sys
mid, name, prop, caught = sys.argv[1:5]
src = f'/tmp/mutout/{mid}'
dst = f'/verif/seeded/{name}'
os.makedirs(dst, exist_ok=True)
shutil.copy(f'{src}/patch.diff', f'{dst}/patch.diff')
shutil.copy(f'{src}/seeded_demo.rs', f'{dst}/seeded_demo.rs')
meta = json.load(open(f'{src}/meta.json'))
meta['property'] = prop
conf = [l.strip() for l in open('/tmp/mutout/confirm.log') if l.strip()]
for i, l in enumerate(conf):
    if l.startswith(f'ID={mid} ') and 'existing suite' in l:
        meta['confirmed_by_me'] = {'cmd': f'tools/confirm_seed.sh {mid} (scratch worktree of /repo HEAD: apply patch, cargo test --offline --no-fail-fast; revert, cargo test --test seeded_demo)',
                                   'result': conf[i:i + 3]}
meta['caught_by'] = caught
json.dump(meta, open(f'{dst}/meta.json', 'w'), indent=1)
print('kept', dst)
