#!/bin/bash
# goal.sh <file.v> <line>: show the proof state just before <line>
f=$1; n=$2
head -n $((n-1)) $f > /tmp/goal_tmp.v
echo "Show. Admitted." >> /tmp/goal_tmp.v
cd /verif/coq && coqc -Q theories VL /tmp/goal_tmp.v 2>&1 | head -${3:-60}
