#!/usr/bin/env python3
"""mkgenpins.py <GenFile> <PinsFile>: snapshot every Definition of coq/theories/Gen/<GenFile>.v into
coq/theories/Proofs/<PinsFile>.v as `Lemma pin_<name> : <name> = <value>. reflexivity.` (run by hand after review)."""
import os, re, sys
HERE = os.path.dirname(os.path.dirname(os.path.abspath(__file__)))
gen, pins = sys.argv[1:3]
g = open(os.path.join(HERE, 'coq/theories/Gen', gen + '.v')).read()
out = f'''(* Pins of Gen/{gen}.v: the data and source text the hand-written model was written against
   (snapshot by tools/mkgenpins.py after review).  The left-hand sides are regenerated from
   /repo/src on every run; any edit of the pinned source breaks one of these proofs. *)
From Coq Require Import ZArith.
From VL Require Import Lib.Bytes Lib.Reg Gen.{gen}.

'''
for m in re.finditer(r'Definition (\w+) : ([^\n]*?) :=\s*(.*?)\.\n(?=\n|\Z|Definition|\(\*)', g, flags=re.S):
    name, ty, body = m.group(1), m.group(2), m.group(3)
    out += f'Lemma pin_{name} : {name} =\n  {body}.\nProof. reflexivity. Qed.\n\n'
open(os.path.join(HERE, 'coq/theories/Proofs', pins + '.v'), 'w').write(out)
print('pinned', len(re.findall(r'Lemma pin_', out)), 'definitions of', gen)
