(* C04 for go.mod: the text-level parser model reports exactly the requirements a file declares, for every
   rendering of the file over printable ASCII and tabs (indentation, separators, trailing blanks and comments). *)
From Coq Require Import ZArith Lia.
From VL Require Import Lib.Bytes Lib.Text Lib.Cst Model.GoMod Spec.GoModFile.

(* ---------- blanks and visible characters against the Unicode white-space tables ---------- *)
Lemma vis_not_ws c t : is_vis c = true -> strip_any ws_seqs (c :: t) = None /\ strip_any ws_seqs_rev (c :: t) = None.
Proof.
  unfold is_vis. intros H. apply andb_true_iff in H as [H1 H2]. apply N.leb_le in H1, H2.
  split; cbn [ws_seqs ws_seqs_rev map rev app strip_any strip_prefix];
    repeat match goal with |- context [?a =? c] => let E := fresh in destruct (N.eqb_spec a c) as [E|E]; [exfalso; lia|] end; reflexivity.
Qed.
Lemma sp_is_ws c t : is_sp c = true -> strip_any ws_seqs (c :: t) = Some t /\ strip_any ws_seqs_rev (c :: t) = Some t.
Proof.
  unfold is_sp. intros H. apply orb_true_iff in H as [H|H]; apply N.eqb_eq in H; subst c; split; reflexivity.
Qed.
Lemma sp_not_vis c : is_sp c = true -> is_vis c = false.
Proof. unfold is_sp, is_vis. intros H. apply orb_true_iff in H as [H|H]; apply N.eqb_eq in H; subst; reflexivity. Qed.

Definition lstrip (s : bytes) : bytes := drop_while is_sp s.
Definition rstrip (s : bytes) : bytes := rev (drop_while is_sp (rev s)).

Lemma text_ok_cons c t : text_ok (c :: t) = true -> (is_sp c = true \/ is_vis c = true) /\ text_ok t = true.
Proof. cbn. intros H. apply andb_true_iff in H as [H1 H2]. apply orb_true_iff in H1. tauto. Qed.
Lemma text_ok_app a b' : text_ok (a ++ b') = text_ok a && text_ok b'.
Proof. unfold text_ok. apply forallb_app. Qed.
Lemma text_ok_rev s : text_ok (rev s) = text_ok s.
Proof.
  induction s as [|c t IH]; [reflexivity|]. cbn [rev]. rewrite text_ok_app, IH. cbn. now rewrite andb_true_r, andb_comm.
Qed.

Lemma strip_loop (ps : list bytes) :
  strip_any ps [] = None ->
  (forall c t, is_vis c = true -> strip_any ps (c :: t) = None) -> (forall c t, is_sp c = true -> strip_any ps (c :: t) = Some t) ->
  forall s fuel, text_ok s = true -> (length s <= fuel)%nat -> trim_start_with ps fuel s = drop_while is_sp s.
Proof.
  intros Hnil Hv Hs. induction s as [|c t IH]; intros fuel Hok Hl.
  - destruct fuel; [reflexivity|]. cbn [trim_start_with]. now rewrite Hnil.
  - apply text_ok_cons in Hok as [[Hc|Hc] Ht].
    + destruct fuel as [|f]; [cbn in Hl; lia|]. cbn [trim_start_with drop_while]. rewrite (Hs c t Hc), Hc. apply IH; [exact Ht|cbn in Hl; lia].
    + assert (is_sp c = false) as Hn by (destruct (is_sp c) eqn:E; [apply sp_not_vis in E; congruence|reflexivity]).
      cbn [drop_while]. rewrite Hn. destruct fuel; [reflexivity|]. cbn [trim_start_with]. now rewrite (Hv c t Hc).
Qed.
Lemma trim_start_fuel_is_with fuel s : trim_start_fuel fuel s = trim_start_with ws_seqs fuel s.
Proof. revert s. induction fuel as [|f IH]; intros s; [reflexivity|]. cbn [trim_start_fuel trim_start_with]. destruct (strip_any ws_seqs s); [apply IH|reflexivity]. Qed.
Lemma trim_start_ascii s : text_ok s = true -> trim_start s = lstrip s.
Proof.
  intros H. unfold trim_start, lstrip. rewrite trim_start_fuel_is_with.
  apply strip_loop; [reflexivity|intros c t Hc; exact (proj1 (vis_not_ws c t Hc))|intros c t Hc; exact (proj1 (sp_is_ws c t Hc))|exact H|lia].
Qed.
Lemma trim_end_ascii s : text_ok s = true -> trim_end s = rstrip s.
Proof.
  intros H. unfold trim_end, rstrip. f_equal.
  apply strip_loop; [reflexivity|intros c t Hc; exact (proj2 (vis_not_ws c t Hc))|intros c t Hc; exact (proj2 (sp_is_ws c t Hc))|now rewrite text_ok_rev|rewrite rev_length; lia].
Qed.
Lemma lstrip_text_ok s : text_ok s = true -> text_ok (lstrip s) = true.
Proof.
  unfold lstrip. induction s as [|c t IH]; [reflexivity|]. intros H. cbn [drop_while]. destruct (is_sp c); [|exact H].
  apply IH. now apply text_ok_cons in H.
Qed.
Lemma trim_ascii s : text_ok s = true -> trim s = rstrip (lstrip s).
Proof. intros H. unfold trim. rewrite (trim_start_ascii s H). apply trim_end_ascii. now apply lstrip_text_ok. Qed.

(* ---------- stripping algebra ---------- *)
Lemma lstrip_sp_app a b' : sp_run a = true -> lstrip (a ++ b') = lstrip b'.
Proof.
  unfold lstrip, sp_run. induction a as [|c t IH]; [reflexivity|]. cbn. intros H. apply andb_true_iff in H as [Hc Ht]. rewrite Hc. now apply IH.
Qed.
Lemma lstrip_vis c t : is_vis c = true -> lstrip (c :: t) = c :: t.
Proof. intros H. unfold lstrip. cbn. destruct (is_sp c) eqn:E; [apply sp_not_vis in E; congruence|reflexivity]. Qed.
Lemma rstrip_app_sp a b' : sp_run b' = true -> rstrip (a ++ b') = rstrip a.
Proof.
  intros H. unfold rstrip. rewrite rev_app_distr. f_equal.
  assert (sp_run (rev b') = true) as Hr by (unfold sp_run in *; rewrite forallb_forall in *; intros x Hx; apply H; now apply in_rev).
  exact (lstrip_sp_app (rev b') (rev a) Hr).
Qed.
Lemma rstrip_snoc_vis a x : is_vis x = true -> rstrip (a ++ [x]) = a ++ [x].
Proof.
  intros H. unfold rstrip. rewrite rev_app_distr. cbn [rev app]. fold (lstrip (x :: rev a)). rewrite (lstrip_vis x _ H).
  cbn [rev]. now rewrite rev_involutive.
Qed.
(* stripping never goes past a visible character *)
Lemma lstrip_shape s : exists a r, s = a ++ r /\ sp_run a = true /\ lstrip s = r /\ (r = [] \/ exists x t, r = x :: t /\ is_sp x = false).
Proof.
  induction s as [|c t IH].
  - exists [], []. repeat split. now left.
  - unfold lstrip in *. cbn [drop_while]. destruct (is_sp c) eqn:E.
    + destruct IH as [a [r [-> [Ha [Hr Hs]]]]]. exists (c :: a), r. repeat split; try assumption. unfold sp_run in *. cbn [forallb]. now rewrite E, Ha.
    + exists [], (c :: t). repeat split. right. eauto.
Qed.
Lemma rstrip_keeps a x b' : is_vis x = true -> exists r, rstrip (a ++ x :: b') = a ++ x :: r /\ exists w, b' = r ++ w /\ sp_run w = true.
Proof.
  intros Hx. unfold rstrip. rewrite rev_app_distr. cbn [rev]. rewrite <- app_assoc. cbn [app].
  destruct (lstrip_shape (rev b')) as [w [r [Hb [Hw [Hl Hs]]]]].
  fold (lstrip (rev b' ++ x :: rev a)). rewrite Hb, <- app_assoc, (lstrip_sp_app w _ Hw).
  destruct r as [|y r'].
  - cbn [app]. rewrite (lstrip_vis x _ Hx). cbn [rev]. rewrite rev_involutive. exists []. split; [reflexivity|].
    exists (rev w). split; [rewrite <- (rev_involutive b'), Hb, app_nil_r; reflexivity|].
    unfold sp_run in *. rewrite forallb_forall in *. intros z Hz. apply Hw. now apply in_rev in Hz.
  - assert (is_sp y = false) as Hy by (destruct Hs as [Hs|[x0 [t0 [Hs Hs']]]]; [discriminate|injection Hs as -> _; exact Hs']).
    change ((y :: r') ++ x :: rev a) with (y :: r' ++ x :: rev a). unfold lstrip at 1. cbn [drop_while]. rewrite Hy.
    cbn [rev]. rewrite rev_app_distr. cbn [rev]. rewrite rev_involutive, <- !app_assoc. cbn [app].
    exists (rev r' ++ [y]). split; [reflexivity|]. exists (rev w). split.
    + rewrite <- (rev_involutive b'), Hb, rev_app_distr. cbn [rev]. reflexivity.
    + unfold sp_run in *. rewrite forallb_forall in *. intros z Hz. apply Hw. now apply in_rev in Hz.
Qed.

(* ---------- lines of the rendered file ---------- *)
Lemma text_ok_no_nl s : text_ok s = true -> forall c, In c s -> c <> 10 /\ c <> 13.
Proof.
  unfold text_ok. rewrite forallb_forall. intros H c Hc. specialize (H c Hc). apply orb_true_iff in H as [H|H].
  - unfold is_sp in H. apply orb_true_iff in H as [H|H]; apply N.eqb_eq in H; subst; split; discriminate.
  - unfold is_vis in H. apply andb_true_iff in H as [H1 H2]. apply N.leb_le in H1, H2. split; lia.
Qed.
Lemma split_inclusive_line l rest : (forall c, In c l -> c <> 10) -> forall acc,
  split_inclusive_aux (l ++ 10 :: rest) acc = (rev acc ++ l ++ [10]) :: split_inclusive_aux rest [].
Proof.
  induction l as [|c t IH]; intros H acc.
  - cbn [app split_inclusive_aux]. rewrite N.eqb_refl. cbn [rev]. reflexivity.
  - cbn [app split_inclusive_aux]. assert (c <> 10) as Hc by (apply H; now left). apply N.eqb_neq in Hc. rewrite Hc.
    rewrite IH by (intros x Hx; apply H; now right). cbn [rev]. now rewrite <- !app_assoc.
Qed.
Lemma chomp_line l : (forall c, In c l -> c <> 10 /\ c <> 13) -> chomp (l ++ [10]) = l.
Proof.
  intros H. unfold chomp. unfold strip_suffix at 1. rewrite rev_app_distr. cbn [rev app strip_prefix]. rewrite N.eqb_refl.
  cbn [strip_prefix]. rewrite rev_involutive.
  unfold strip_suffix. destruct (rev l) as [|d r] eqn:Er; [reflexivity|]. cbn [rev app strip_prefix].
  destruct (13 =? d) eqn:E; [|reflexivity]. apply N.eqb_eq in E. subst d. exfalso.
  assert (In 13 l) as Hin by (apply in_rev; rewrite Er; now left). destruct (H 13 Hin) as [_ Hn]. congruence.
Qed.
Lemma lines_render (ls : list bytes) : (forall l, In l ls -> text_ok l = true) ->
  lines (flat_map (fun l => l ++ [10]) ls) = ls.
Proof.
  unfold lines. induction ls as [|l t IH]; intros H; [reflexivity|].
  cbn [flat_map]. rewrite <- app_assoc. cbn [app].
  rewrite split_inclusive_line by (intros c Hc; exact (proj1 (text_ok_no_nl l (H l (or_introl eq_refl)) c Hc))).
  cbn [rev app map]. rewrite chomp_line by (intros c Hc; exact (text_ok_no_nl l (H l (or_introl eq_refl)) c Hc)).
  f_equal. apply IH. intros x Hx. apply H. now right.
Qed.

(* ---------- the scanners on blanks and visible runs ---------- *)
Lemma span_ws_fuel_run sp : forall fuel rest acc, sp_run sp = true -> (length sp <= fuel)%nat ->
  (rest = [] \/ exists x t, rest = x :: t /\ is_vis x = true) ->
  span_ws_fuel fuel (sp ++ rest) acc = (acc ++ sp, rest).
Proof.
  induction sp as [|c t IH]; intros fuel rest acc Hs Hl Hr.
  - cbn [app]. rewrite app_nil_r. destruct fuel; [reflexivity|]. cbn [span_ws_fuel].
    destruct Hr as [->|[x [r [-> Hx]]]]; [reflexivity|]. now rewrite (proj1 (vis_not_ws x r Hx)).
  - unfold sp_run in Hs. cbn [forallb] in Hs. apply andb_true_iff in Hs as [Hc Ht].
    destruct fuel as [|f]; [cbn in Hl; lia|]. cbn [app span_ws_fuel]. rewrite (proj1 (sp_is_ws c (t ++ rest) Hc)).
    replace (length (c :: t ++ rest) - length (t ++ rest))%nat with 1%nat by (cbn [length]; lia). cbn [firstn].
    rewrite (IH f rest (acc ++ [c]) Ht ltac:(cbn in Hl; lia) Hr). now rewrite <- app_assoc.
Qed.
Lemma span_ws_run sp rest : sp_run sp = true -> (rest = [] \/ exists x t, rest = x :: t /\ is_vis x = true) -> span_ws (sp ++ rest) = (sp, rest).
Proof. intros Hs Hr. unfold span_ws. rewrite (span_ws_fuel_run sp _ rest [] Hs); [reflexivity|rewrite app_length; lia|exact Hr]. Qed.
Lemma span_nonws_run tok rest : vis_run tok = true -> (rest = [] \/ exists x t, rest = x :: t /\ is_sp x = true) -> span_nonws (tok ++ rest) = (tok, rest).
Proof.
  induction tok as [|c t IH]; intros Hv Hr.
  - cbn [app]. destruct Hr as [->|[x [r [-> Hx]]]]; [reflexivity|]. cbn [span_nonws]. now rewrite (proj1 (sp_is_ws x r Hx)).
  - unfold vis_run in Hv. cbn [forallb] in Hv. apply andb_true_iff in Hv as [Hc Ht].
    cbn [app span_nonws]. rewrite (proj1 (vis_not_ws c (t ++ rest) Hc)). now rewrite (IH Ht Hr).
Qed.

Lemma tok_inv s : is_tok s = true -> exists c t, s = c :: t /\ is_vis c = true /\ vis_run s = true.
Proof.
  unfold is_tok. intros H. apply andb_true_iff in H as [Hn Hv]. destruct s as [|c t]; [discriminate|].
  exists c, t. repeat split; [|exact Hv]. unfold vis_run in Hv. cbn in Hv. now apply andb_true_iff in Hv.
Qed.
Lemma nonempty_sp_inv s : nonempty_sp s = true -> exists c t, s = c :: t /\ is_sp c = true /\ sp_run s = true.
Proof.
  unfold nonempty_sp. intros H. apply andb_true_iff in H as [Hn Hv]. destruct s as [|c t]; [discriminate|].
  exists c, t. repeat split; [|exact Hv]. unfold sp_run in Hv. cbn in Hv. now apply andb_true_iff in Hv.
Qed.

(* the remainder after the version token: nothing, or blanks then a comment *)
Definition tail_shape (r : bytes) : Prop :=
  r = [] \/ exists sp c, r = sp ++ [47; 47] ++ c /\ nonempty_sp sp = true.

Lemma version_tail_ok v' r : is_tok v' = true -> tail_shape r -> version_tail (v' ++ r) = Some (blen v').
Proof.
  intros Hv Hr. destruct (tok_inv v' Hv) as [c [t [Hvt [Hc Hvr]]]]. unfold version_tail.
  assert (span_nonws (v' ++ r) = (v', r)) as ->.
  { apply span_nonws_run; [exact Hvr|]. destruct Hr as [->|[sp [cm [-> Hsp]]]]; [now left|right].
    destruct (nonempty_sp_inv sp Hsp) as [x [s' [-> [Hx _]]]]. cbn [app]. eauto. }
  assert (beq v' [] = false) as -> by (subst v'; reflexivity).
  destruct Hr as [->|[sp [cm [-> Hsp]]]]; [reflexivity|].
  destruct (nonempty_sp_inv sp Hsp) as [x [s' [Hsp' [Hx Hrun]]]].
  assert (span_ws (sp ++ [47; 47] ++ cm) = (sp, [47; 47] ++ cm)) as Hspan.
  { apply span_ws_run; [exact Hrun|]. right. exists 47, (47 :: cm). split; reflexivity. }
  rewrite Hsp' in *. cbn [app] in *. rewrite Hspan. cbn [starts_with]. rewrite !N.eqb_refl. reflexivity.
Qed.

Lemma spec_tail_ok m sep v r off : is_tok m = true -> nonempty_sp sep = true -> version_ok v = true -> tail_shape r ->
  spec_tail (m ++ sep ++ v ++ r) off = Some (m, v, off + blen m + blen sep).
Proof.
  intros Hm Hsep Hv Hr. unfold spec_tail.
  destruct (tok_inv m Hm) as [mc [mt [Hmt [Hmc Hmr]]]]. destruct (nonempty_sp_inv sep Hsep) as [sc [st [Hst [Hsc Hsr]]]].
  assert (span_nonws (m ++ sep ++ v ++ r) = (m, sep ++ v ++ r)) as ->.
  { apply span_nonws_run; [exact Hmr|]. right. rewrite Hst. cbn [app]. eauto. }
  assert (beq m [] = false) as -> by (subst m; reflexivity).
  unfold version_ok in Hv. destruct v as [|v0 v']; [discriminate|].
  destruct (N.eq_dec v0 118) as [->|Hne]; [|destruct v0 as [|p]; try discriminate; repeat (destruct p as [p|p|]; try discriminate); congruence].
  apply andb_true_iff in Hv as [Hvt _].
  assert (span_ws (sep ++ (118 :: v') ++ r) = (sep, (118 :: v') ++ r)) as ->.
  { apply span_ws_run; [exact Hsr|]. right. exists 118, (v' ++ r). split; reflexivity. }
  assert (beq sep [] = false) as -> by (subst sep; reflexivity).
  cbn [app]. rewrite (version_tail_ok v' r Hvt Hr).
  f_equal. f_equal. f_equal. unfold firstn_N, blen. rewrite Nat2N.id. now rewrite firstn_app, Nat.sub_diag, firstn_all, app_nil_r.
Qed.

(* ---------- span_ws on ASCII text is the split at the first non-blank ---------- *)
Lemma vis_of_text x t : text_ok (x :: t) = true -> is_sp x = false -> is_vis x = true.
Proof. intros H Hs. apply text_ok_cons in H as [[H|H] _]; [congruence|exact H]. Qed.
Lemma span_ws_text s : text_ok s = true -> exists a, span_ws s = (a, lstrip s) /\ s = a ++ lstrip s /\ sp_run a = true.
Proof.
  intros H. destruct (lstrip_shape s) as [a [r [Hs [Ha [Hl Hr]]]]]. exists a. rewrite Hl. split; [|split; assumption].
  rewrite Hs. apply span_ws_run; [exact Ha|]. destruct Hr as [->|[x [t [-> Hx]]]]; [now left|right].
  exists x, t. split; [reflexivity|]. rewrite Hs, text_ok_app in H. apply andb_true_iff in H as [_ H]. exact (vis_of_text x t H Hx).
Qed.
Lemma lstrip_nil_sp s : lstrip s = [] -> sp_run s = true.
Proof.
  unfold lstrip, sp_run. induction s as [|c t IH]; [reflexivity|]. cbn. destruct (is_sp c); [exact IH|discriminate].
Qed.
Lemma filter_vis_sp s : sp_run s = true -> filter is_vis s = [].
Proof.
  unfold sp_run. induction s as [|c t IH]; [reflexivity|]. cbn. intros H. apply andb_true_iff in H as [Hc Ht].
  rewrite (sp_not_vis c Hc). now apply IH.
Qed.
Lemma strip_prefix_app p s r : strip_prefix p s = Some r -> s = p ++ r.
Proof.
  revert s. induction p as [|x t IH]; intros s H; [now injection H as <-|].
  destruct s as [|y u]; [discriminate|]. cbn in H. destruct (x =? y) eqn:E; [|discriminate]. apply N.eqb_eq in E. subst y.
  cbn. f_equal. now apply IH.
Qed.
Lemma strip_prefix_self p r : strip_prefix p (p ++ r) = Some r.
Proof. induction p as [|x t IH]; [reflexivity|]. cbn. now rewrite N.eqb_refl. Qed.

(* a block opening consists, blanks aside, of the keyword and the parenthesis *)
Lemma block_start_vis s : text_ok s = true -> match_block_start s = true -> filter is_vis s = kw_require ++ [40].
Proof.
  intros Hok H. unfold match_block_start in H.
  destruct (strip_prefix kw_require s) as [rest|] eqn:Ep; [|discriminate]. apply strip_prefix_app in Ep. subst s.
  rewrite text_ok_app in Hok. apply andb_true_iff in Hok as [_ Hrest].
  destruct (span_ws_text rest Hrest) as [a [Hsp [Hr Ha]]]. rewrite Hsp in H.
  destruct (lstrip rest) as [|c r''] eqn:El; [discriminate|].
  destruct (N.eq_dec c 40) as [->|Hne]; [|destruct c as [|p]; try discriminate; repeat (destruct p as [p|p|]; try discriminate); congruence].
  assert (text_ok r'' = true) as Hr''.
  { rewrite Hr, text_ok_app in Hrest. apply andb_true_iff in Hrest as [_ Hx]. now apply text_ok_cons in Hx. }
  destruct (span_ws_text r'' Hr'') as [a2 [Hsp2 [Hr2 Ha2]]]. rewrite Hsp2 in H. apply beq_eq in H.
  rewrite Hr, filter_app, filter_app. cbn [filter]. rewrite (filter_vis_sp a Ha). cbn [app].
  change (is_vis 40) with true. cbv iota. rewrite (filter_vis_sp r'' (lstrip_nil_sp r'' H)). reflexivity.
Qed.
Lemma no_block_start_with_v s : text_ok s = true -> In 118 s -> match_block_start s = false.
Proof.
  intros Hok Hin. destruct (match_block_start s) eqn:E; [|reflexivity]. exfalso.
  pose proof (block_start_vis s Hok E) as Hf.
  assert (In 118 (filter is_vis s)) as Hv by (apply filter_In; split; [exact Hin|reflexivity]).
  rewrite Hf in Hv. cbn in Hv. intuition discriminate.
Qed.

Lemma starts_with_prefix p a w : starts_with p a = true -> starts_with p (a ++ w) = true.
Proof.
  revert a. induction p as [|x t IH]; intros a H; [reflexivity|]. destruct a as [|y u]; [discriminate|].
  cbn in *. destruct (x =? y); [now apply IH|discriminate].
Qed.
Lemma strip_prefix_starts p s r : strip_prefix p s = Some r -> starts_with p s = true.
Proof. intros H. apply strip_prefix_app in H. subst s. apply starts_with_app. Qed.

(* ---------- what trimming does to each rendered line ---------- *)
Lemma sp_text s : sp_run s = true -> text_ok s = true.
Proof. unfold sp_run, text_ok. rewrite !forallb_forall. intros H x Hx. now rewrite (H x Hx). Qed.
Lemma vis_text s : vis_run s = true -> text_ok s = true.
Proof. unfold vis_run, text_ok. rewrite !forallb_forall. intros H x Hx. rewrite (H x Hx). apply orb_true_r. Qed.
Lemma kw_vis : vis_run kw = true. Proof. reflexivity. Qed.
Lemma kw_is : kw = kw_require. Proof. reflexivity. Qed.
Lemma vis_run_last s : s <> [] -> vis_run s = true -> exists i l, s = i ++ [l] /\ is_vis l = true.
Proof.
  intros Hn Hv. destruct (exists_last Hn) as [i [l ->]]. exists i, l. split; [reflexivity|].
  unfold vis_run in Hv. rewrite forallb_app in Hv. apply andb_true_iff in Hv as [_ Hv]. cbn in Hv. now rewrite andb_true_r in Hv.
Qed.
Lemma version_inv v : version_ok v = true -> exists v', v = 118 :: v' /\ is_tok v' = true /\ vis_run v = true.
Proof.
  unfold version_ok. destruct v as [|v0 v']; [discriminate|].
  destruct (N.eq_dec v0 118) as [->|Hne]; [|destruct v0 as [|p]; try discriminate; repeat (destruct p as [p|p|]; try discriminate); congruence].
  intros H. apply andb_true_iff in H as [Ht _]. exists v'. repeat split; [exact Ht|].
  unfold is_tok in Ht. apply andb_true_iff in Ht as [_ Ht]. unfold vis_run in *. cbn. exact Ht.
Qed.
Lemma tail_text t : tail_ok t = true \/ close_tail_ok t = true -> text_ok (render_tail t) = true.
Proof.
  intros H. unfold render_tail. rewrite text_ok_app.
  assert (sp_run (t_sp t) = true /\ match t_comment t with Some c => text_ok c = true | None => True end) as [Hs Hc].
  { destruct H as [H|H]; [unfold tail_ok in H|unfold close_tail_ok in H]; apply andb_true_iff in H as [H1 H2]; (split; [exact H1|]);
      destruct (t_comment t); try exact I; [apply andb_true_iff in H2; tauto|exact H2]. }
  rewrite (sp_text _ Hs). destruct (t_comment t); [|reflexivity]. cbn [andb]. change ([47; 47] ++ b) with (47 :: 47 :: b). cbn. exact Hc.
Qed.

(* the tail after stripping the line's end: nothing, or the blanks and the comment *)
Lemma rstrip_with_tail (A v : bytes) (t : tail) : vis_run v = true -> v <> [] -> tail_ok t = true ->
  exists r, rstrip (A ++ v ++ render_tail t) = A ++ v ++ r /\ tail_shape r.
Proof.
  intros Hv Hn Ht. destruct (vis_run_last v Hn Hv) as [vi [vl [-> Hvl]]].
  unfold tail_ok in Ht. apply andb_true_iff in Ht as [Hsp Hc]. unfold render_tail.
  destruct (t_comment t) as [c|].
  - apply andb_true_iff in Hc as [Hct Hne].
    replace (A ++ (vi ++ [vl]) ++ t_sp t ++ [47; 47] ++ c) with ((A ++ (vi ++ [vl]) ++ t_sp t ++ [47]) ++ 47 :: c) by (rewrite <- !app_assoc; reflexivity).
    destruct (rstrip_keeps (A ++ (vi ++ [vl]) ++ t_sp t ++ [47]) 47 c eq_refl) as [r0 [Hr _]]. rewrite Hr.
    exists (t_sp t ++ [47; 47] ++ r0). split; [rewrite <- !app_assoc; reflexivity|].
    right. exists (t_sp t), r0. split; [reflexivity|]. unfold nonempty_sp. now rewrite Hne, Hsp.
  - rewrite app_nil_r. replace (A ++ (vi ++ [vl]) ++ t_sp t) with (((A ++ vi) ++ [vl]) ++ t_sp t) by (rewrite <- !app_assoc; reflexivity).
    rewrite (rstrip_app_sp _ _ Hsp), (rstrip_snoc_vis _ _ Hvl). exists []. split; [rewrite <- !app_assoc; reflexivity|now left].
Qed.

Lemma trim_require ind sep1 m sep2 v t : line_ok false (LRequire ind sep1 m sep2 v t) = true ->
  exists r, trim (render_line (LRequire ind sep1 m sep2 v t)) = kw ++ sep1 ++ m ++ sep2 ++ v ++ r /\ tail_shape r
            /\ text_ok (kw ++ sep1 ++ m ++ sep2 ++ v ++ r) = true.
Proof.
  cbn [line_ok negb andb]. intros H.
  repeat (apply andb_true_iff in H as [H ?]).
  match goal with Hx : tail_ok t = true |- _ => rename Hx into Ht end.
  match goal with Hx : version_ok v = true |- _ => rename Hx into Hv end.
  match goal with Hx : nonempty_sp sep2 = true |- _ => rename Hx into Hs2 end.
  match goal with Hx : is_tok m = true |- _ => rename Hx into Hm end.
  match goal with Hx : nonempty_sp sep1 = true |- _ => rename Hx into Hs1 end.
  rename H into Hind.
  destruct (version_inv v Hv) as [v' [Hv' [_ Hvr]]]. destruct (tok_inv m Hm) as [mc [mt [_ [_ Hmr]]]].
  destruct (nonempty_sp_inv sep1 Hs1) as [_ [_ [_ [_ Hr1]]]]. destruct (nonempty_sp_inv sep2 Hs2) as [_ [_ [_ [_ Hr2]]]].
  assert (text_ok (render_line (LRequire ind sep1 m sep2 v t)) = true) as Hok.
  { cbn [render_line]. rewrite !text_ok_app, (sp_text _ Hind), (vis_text _ kw_vis), (sp_text _ Hr1), (vis_text _ Hmr), (sp_text _ Hr2), (vis_text _ Hvr), (tail_text t (or_introl Ht)). reflexivity. }
  rewrite (trim_ascii _ Hok). cbn [render_line]. rewrite (lstrip_sp_app ind _ Hind).
  assert (lstrip (kw ++ sep1 ++ m ++ sep2 ++ v ++ render_tail t) = kw ++ sep1 ++ m ++ sep2 ++ v ++ render_tail t) as -> by (apply lstrip_vis; reflexivity).
  replace (kw ++ sep1 ++ m ++ sep2 ++ v ++ render_tail t) with ((kw ++ sep1 ++ m ++ sep2) ++ v ++ render_tail t) by (rewrite <- !app_assoc; reflexivity).
  destruct (rstrip_with_tail (kw ++ sep1 ++ m ++ sep2) v t Hvr ltac:(subst v; discriminate) Ht) as [r [Hr Hshape]].
  rewrite Hr. exists r. split; [rewrite <- !app_assoc; reflexivity|]. split; [exact Hshape|].
  (* the stripped line is still ASCII text: it is a prefix of the line *)
  assert (text_ok ((kw ++ sep1 ++ m ++ sep2) ++ v ++ r) = true) as Hok2.
  { rewrite <- Hr. unfold rstrip. rewrite text_ok_rev.
    assert (forall z, text_ok z = true -> text_ok (drop_while is_sp z) = true) as Hd by (intros z Hz; apply (lstrip_text_ok z Hz)).
    apply Hd. rewrite text_ok_rev. rewrite !text_ok_app, (vis_text _ kw_vis), (sp_text _ Hr1), (vis_text _ Hmr), (sp_text _ Hr2), (vis_text _ Hvr), (tail_text t (or_introl Ht)). reflexivity. }
  rewrite <- !app_assoc in Hok2. exact Hok2.
Qed.

(* ---------- one step of the line loop per line shape ---------- *)
Definition nv2 (p : pkg) : bytes * bytes := (p_name p, p_version p).
Lemma go_loop_cons piece rest num off in_block :
  go_loop (piece :: rest) num off in_block =
  let line := chomp piece in
  let next := off + blen piece in
  let trimmed := trim line in
  if beq trimmed [] || starts_with [47; 47] trimmed then go_loop rest (S num) next in_block
  else if in_block && block_close trimmed then go_loop rest (S num) next false
  else if match_block_start trimmed then go_loop rest (S num) next true
  else
    if in_block then
      match match_require_spec (trim_end line) with
      | Some (m, v, o) =>
          mkPkg m v None (off + o) (off + o + blen v) (N.of_nat num) o None :: go_loop rest (S num) next in_block
      | None => go_loop rest (S num) next in_block
      end
    else
      match match_single_require trimmed with
      | Some (m, v, o) =>
          let vpos := blen line - blen (trim_start line) + o in
          mkPkg m v None (off + vpos) (off + vpos + blen v) (N.of_nat num) vpos None :: go_loop rest (S num) next in_block
      | None => go_loop rest (S num) next in_block
      end.
Proof. reflexivity. Qed.

Lemma in_v_app A v B : version_ok v = true -> In 118 (A ++ v ++ B).
Proof. intros H. destruct (version_inv v H) as [v' [-> _]]. apply in_or_app. right. now left. Qed.
Lemma line_text in_block l : line_ok in_block l = true -> text_ok (render_line l) = true.
Proof.
  destruct l as [ind sep1 m sep2 v t|ind sep tsp|ind m sep v t|ind t|text]; cbn [line_ok render_line]; intros H;
    repeat (apply andb_true_iff in H as [H ?]);
    repeat match goal with
           | Hx : nonempty_sp ?s = true |- _ => let Hy := fresh in destruct (nonempty_sp_inv s Hx) as [_ [_ [_ [_ Hy]]]]; clear Hx
           | Hx : is_tok ?s = true |- _ => let Hy := fresh in destruct (tok_inv s Hx) as [_ [_ [_ [_ Hy]]]]; clear Hx
           | Hx : version_ok ?s = true |- _ => let Hy := fresh in destruct (version_inv s Hx) as [_ [_ [_ Hy]]]; clear Hx
           end;
    rewrite ?text_ok_app;
    repeat match goal with
           | Hx : sp_run ?s = true |- _ => rewrite (sp_text s Hx); clear Hx
           | Hx : vis_run ?s = true |- _ => rewrite (vis_text s Hx); clear Hx
           | Hx : tail_ok ?t = true |- _ => rewrite (tail_text t (or_introl Hx)); clear Hx
           | Hx : close_tail_ok ?t = true |- _ => rewrite (tail_text t (or_intror Hx)); clear Hx
           end; try reflexivity; try assumption.
Qed.
Lemma piece_line in_block l : line_ok in_block l = true ->
  chomp (render_line l ++ [10]) = render_line l /\ blen (render_line l ++ [10]) = line_len l.
Proof.
  intros H. split.
  - apply chomp_line. intros c Hc. exact (text_ok_no_nl _ (line_text in_block l H) c Hc).
  - unfold line_len, blen. rewrite app_length. cbn [length]. lia.
Qed.
Lemma blen_app (a b' : bytes) : blen (a ++ b') = blen a + blen b'.
Proof. unfold blen. rewrite app_length. lia. Qed.

Lemma step_require rest num off ind sep1 m sep2 v t :
  line_ok false (LRequire ind sep1 m sep2 v t) = true ->
  go_loop ((render_line (LRequire ind sep1 m sep2 v t) ++ [10]) :: rest) num off false
  = located_line (LRequire ind sep1 m sep2 v t) num off ++ go_loop rest (S num) (off + line_len (LRequire ind sep1 m sep2 v t)) false.
Proof.
  intros Hok. destruct (piece_line false _ Hok) as [Hch Hlen].
  destruct (trim_require ind sep1 m sep2 v t Hok) as [r [Htrim [Hshape Htext]]].
  pose proof (line_text false _ Hok) as Hlt.
  cbn [line_ok negb andb] in Hok. repeat (apply andb_true_iff in Hok as [Hok ?]).
  match goal with Hx : version_ok v = true |- _ => rename Hx into Hv end.
  match goal with Hx : nonempty_sp sep2 = true |- _ => rename Hx into Hs2 end.
  match goal with Hx : is_tok m = true |- _ => rename Hx into Hm end.
  match goal with Hx : nonempty_sp sep1 = true |- _ => rename Hx into Hs1 end.
  rename Hok into Hind.
  rewrite go_loop_cons. cbv zeta. rewrite Hch, Hlen, Htrim.
  assert (beq (kw ++ sep1 ++ m ++ sep2 ++ v ++ r) [] = false) as -> by reflexivity.
  assert (starts_with [47; 47] (kw ++ sep1 ++ m ++ sep2 ++ v ++ r) = false) as -> by reflexivity.
  cbn [orb andb].
  rewrite (no_block_start_with_v _ Htext) by (replace (kw ++ sep1 ++ m ++ sep2 ++ v ++ r) with ((kw ++ sep1 ++ m ++ sep2) ++ v ++ r) by (rewrite <- !app_assoc; reflexivity); now apply in_v_app).
  unfold match_single_require. rewrite kw_is, strip_prefix_self.
  destruct (tok_inv m Hm) as [mc [mt [Hmt [Hmc _]]]]. destruct (nonempty_sp_inv sep1 Hs1) as [s1c [s1t [Hs1t [_ Hr1]]]].
  assert (span_ws (sep1 ++ m ++ sep2 ++ v ++ r) = (sep1, m ++ sep2 ++ v ++ r)) as ->.
  { apply span_ws_run; [exact Hr1|]. right. rewrite Hmt. cbn [app]. eauto. }
  assert (beq sep1 [] = false) as -> by (rewrite Hs1t; reflexivity).
  rewrite (spec_tail_ok m sep2 v r _ Hm Hs2 Hv Hshape).
  (* the leading blanks the regex did not see *)
  rewrite (trim_start_ascii _ Hlt). cbn [render_line]. rewrite (lstrip_sp_app ind _ Hind).
  assert (lstrip (kw ++ sep1 ++ m ++ sep2 ++ v ++ render_tail t) = kw ++ sep1 ++ m ++ sep2 ++ v ++ render_tail t) as -> by (apply lstrip_vis; reflexivity).
  assert (blen (ind ++ kw ++ sep1 ++ m ++ sep2 ++ v ++ render_tail t) - blen (kw ++ sep1 ++ m ++ sep2 ++ v ++ render_tail t) = blen ind) as -> by (rewrite blen_app; lia).
  cbn [located_line app]. f_equal. change (blen kw) with 7.
  f_equal; lia.
Qed.

Lemma step_open rest num off ind sep tsp :
  line_ok false (LOpen ind sep tsp) = true ->
  go_loop ((render_line (LOpen ind sep tsp) ++ [10]) :: rest) num off false = go_loop rest (S num) (off + line_len (LOpen ind sep tsp)) true.
Proof.
  intros Hl. destruct (piece_line false _ Hl) as [Hch Hlen]. revert Hl.
  cbn [line_ok negb andb]. intros H. apply andb_true_iff in H as [H Ht]. apply andb_true_iff in H as [Hi Hs].
  assert (text_ok (render_line (LOpen ind sep tsp)) = true) as Hok.
  { cbn [render_line]. rewrite !text_ok_app, (sp_text _ Hi), (vis_text _ kw_vis), (sp_text _ Hs), (sp_text _ Ht). reflexivity. }
  assert (trim (render_line (LOpen ind sep tsp)) = kw ++ sep ++ [40]) as Htrim.
  { rewrite (trim_ascii _ Hok). cbn [render_line]. rewrite (lstrip_sp_app ind _ Hi).
    assert (lstrip (kw ++ sep ++ [40] ++ tsp) = kw ++ sep ++ [40] ++ tsp) as -> by (apply lstrip_vis; reflexivity).
    replace (kw ++ sep ++ [40] ++ tsp) with (((kw ++ sep) ++ [40]) ++ tsp) by (rewrite <- !app_assoc; reflexivity).
    rewrite (rstrip_app_sp _ _ Ht), (rstrip_snoc_vis _ 40 eq_refl). now rewrite <- !app_assoc. }
  rewrite go_loop_cons. cbv zeta. rewrite Hch, Hlen, Htrim.
  assert (beq (kw ++ sep ++ [40]) [] = false) as -> by reflexivity.
  assert (starts_with [47; 47] (kw ++ sep ++ [40]) = false) as -> by reflexivity.
  cbn [orb andb].
  assert (match_block_start (kw ++ sep ++ [40]) = true) as ->; [|reflexivity].
  unfold match_block_start. rewrite kw_is, strip_prefix_self.
  assert (span_ws (sep ++ [40]) = (sep, [40])) as -> by (apply span_ws_run; [exact Hs|right; exists 40, []; split; reflexivity]).
  reflexivity.
Qed.

Lemma not_ss m X : is_tok m = true -> starts_with [47; 47] m = false -> (X = [] \/ exists x t, X = x :: t /\ is_sp x = true) ->
  starts_with [47; 47] (m ++ X) = false.
Proof.
  intros Hm Hs HX. destruct (tok_inv m Hm) as [c [t [-> _]]]. destruct t as [|c2 t2].
  - cbn [app starts_with] in *. destruct (47 =? c) eqn:E; [|reflexivity].
    destruct HX as [->|[x [u [-> Hx]]]]; [reflexivity|]. cbn.
    unfold is_sp in Hx. apply orb_true_iff in Hx as [Hx|Hx]; apply N.eqb_eq in Hx; subst x; reflexivity.
  - cbn [app starts_with] in *. exact Hs.
Qed.
Lemma first_not c rest : c <> 41 -> block_close (c :: rest) = false.
Proof.
  intros H. unfold block_close. destruct c as [|p]; [reflexivity|].
  repeat (destruct p as [p|p|]; try reflexivity). congruence.
Qed.

Lemma step_spec rest num off ind m sep v t :
  line_ok true (LSpec ind m sep v t) = true ->
  go_loop ((render_line (LSpec ind m sep v t) ++ [10]) :: rest) num off true
  = located_line (LSpec ind m sep v t) num off ++ go_loop rest (S num) (off + line_len (LSpec ind m sep v t)) true.
Proof.
  intros Hl. destruct (piece_line true _ Hl) as [Hch Hlen]. revert Hl.
  cbn [line_ok andb]. intros H. repeat (apply andb_true_iff in H as [H ?]).
  match goal with Hx : negb (starts_with [41] m) = true |- _ => rename Hx into Hnc end.
  match goal with Hx : negb (starts_with [47; 47] m) = true |- _ => rename Hx into Hnss end.
  match goal with Hx : tail_ok t = true |- _ => rename Hx into Ht end.
  match goal with Hx : version_ok v = true |- _ => rename Hx into Hv end.
  match goal with Hx : nonempty_sp sep = true |- _ => rename Hx into Hs end.
  match goal with Hx : is_tok m = true |- _ => rename Hx into Hm end.
  rename H into Hind.
  destruct (version_inv v Hv) as [v' [Hv' [_ Hvr]]]. destruct (tok_inv m Hm) as [mc [mt [Hmt [Hmc Hmr]]]].
  destruct (nonempty_sp_inv sep Hs) as [sc [st [Hst [Hsc Hsr]]]].
  assert (text_ok (render_line (LSpec ind m sep v t)) = true) as Hok.
  { cbn [render_line]. rewrite !text_ok_app, (sp_text _ Hind), (vis_text _ Hmr), (sp_text _ Hsr), (vis_text _ Hvr), (tail_text t (or_introl Ht)). reflexivity. }
  assert (v <> []) as Hvn by (subst v; discriminate).
  destruct (rstrip_with_tail (m ++ sep) v t Hvr Hvn Ht) as [r [Hr Hshape]].
  assert (trim (render_line (LSpec ind m sep v t)) = m ++ sep ++ v ++ r) as Htrim.
  { rewrite (trim_ascii _ Hok). cbn [render_line]. rewrite (lstrip_sp_app ind _ Hind).
    assert (lstrip (m ++ sep ++ v ++ render_tail t) = m ++ sep ++ v ++ render_tail t) as -> by (rewrite Hmt; apply lstrip_vis; exact Hmc).
    replace (m ++ sep ++ v ++ render_tail t) with ((m ++ sep) ++ v ++ render_tail t) by (rewrite <- !app_assoc; reflexivity).
    rewrite Hr. now rewrite <- !app_assoc. }
  destruct (rstrip_with_tail (ind ++ m ++ sep) v t Hvr Hvn Ht) as [r2 [Hr2 Hshape2]].
  assert (trim_end (render_line (LSpec ind m sep v t)) = ind ++ m ++ sep ++ v ++ r2) as Htrim_end.
  { rewrite (trim_end_ascii _ Hok). cbn [render_line].
    replace (ind ++ m ++ sep ++ v ++ render_tail t) with ((ind ++ m ++ sep) ++ v ++ render_tail t) by (rewrite <- !app_assoc; reflexivity).
    rewrite Hr2. now rewrite <- !app_assoc. }
  assert (text_ok (m ++ sep ++ v ++ r) = true) as Htext.
  { rewrite <- Htrim, (trim_ascii _ Hok). unfold rstrip. rewrite text_ok_rev. apply lstrip_text_ok. rewrite text_ok_rev. now apply lstrip_text_ok. }
  rewrite go_loop_cons. cbv zeta. rewrite Hch, Hlen, Htrim, Htrim_end.
  assert (beq (m ++ sep ++ v ++ r) [] = false) as -> by (rewrite Hmt; reflexivity).
  assert (starts_with [47; 47] (m ++ sep ++ v ++ r) = false) as ->.
  { apply (not_ss m (sep ++ v ++ r) Hm); [now apply negb_true_iff|]. right. rewrite Hst. cbn [app]. eauto. }
  cbn [orb andb].
  assert (block_close (m ++ sep ++ v ++ r) = false) as ->.
  { rewrite Hmt. cbn [app]. apply first_not. intros ->. rewrite Hmt in Hnc. discriminate. }
  rewrite (no_block_start_with_v _ Htext) by (replace (m ++ sep ++ v ++ r) with ((m ++ sep) ++ v ++ r) by (rewrite <- !app_assoc; reflexivity); now apply in_v_app).
  unfold match_require_spec.
  assert (span_ws (ind ++ m ++ sep ++ v ++ r2) = (ind, m ++ sep ++ v ++ r2)) as ->.
  { apply span_ws_run; [exact Hind|]. right. rewrite Hmt. cbn [app]. eauto. }
  rewrite (spec_tail_ok m sep v r2 _ Hm Hs Hv Hshape2). cbn [located_line app]. reflexivity.
Qed.

Lemma step_close rest num off ind t :
  line_ok true (LClose ind t) = true ->
  go_loop ((render_line (LClose ind t) ++ [10]) :: rest) num off true = go_loop rest (S num) (off + line_len (LClose ind t)) false.
Proof.
  intros Hl. destruct (piece_line true _ Hl) as [Hch Hlen]. revert Hl.
  cbn [line_ok andb]. intros H. apply andb_true_iff in H as [Hind Ht].
  assert (text_ok (render_line (LClose ind t)) = true) as Hok.
  { cbn [render_line]. rewrite !text_ok_app, (sp_text _ Hind), (tail_text t (or_intror Ht)). reflexivity. }
  assert (exists r0, trim (render_line (LClose ind t)) = 41 :: r0 /\ text_ok r0 = true /\ (lstrip r0 = [] \/ starts_with [47; 47] (lstrip r0) = true)) as [r0 [Htrim [Hr0 Hcl]]].
  { rewrite (trim_ascii _ Hok). cbn [render_line]. rewrite (lstrip_sp_app ind _ Hind).
    assert (lstrip ([41] ++ render_tail t) = 41 :: render_tail t) as -> by (apply lstrip_vis; reflexivity).
    unfold close_tail_ok in Ht. apply andb_true_iff in Ht as [Hsp Hc]. unfold render_tail. destruct (t_comment t) as [c|].
    - replace (41 :: t_sp t ++ [47; 47] ++ c) with (([41] ++ t_sp t ++ [47]) ++ 47 :: c) by (rewrite <- !app_assoc; reflexivity).
      destruct (rstrip_keeps ([41] ++ t_sp t ++ [47]) 47 c eq_refl) as [r1 [Hr1 [w [Hcw Hw]]]]. rewrite Hr1.
      exists (t_sp t ++ 47 :: 47 :: r1). split; [rewrite <- !app_assoc; reflexivity|]. split.
      + rewrite text_ok_app, (sp_text _ Hsp). cbn. rewrite Hcw, text_ok_app in Hc. now apply andb_true_iff in Hc as [Hc _].
      + right. rewrite (lstrip_sp_app _ _ Hsp), (lstrip_vis 47 _ eq_refl). reflexivity.
    - rewrite app_nil_r. change (41 :: t_sp t) with ([41] ++ t_sp t). rewrite (rstrip_app_sp _ _ Hsp).
      change [41] with ([] ++ [41]). rewrite (rstrip_snoc_vis [] 41 eq_refl). exists []. repeat split. now left. }
  rewrite go_loop_cons. cbv zeta. rewrite Hch, Hlen, Htrim. cbn [beq starts_with orb andb].
  assert (block_close (41 :: r0) = true) as ->; [|reflexivity].
  unfold block_close. rewrite (trim_start_ascii r0 Hr0). destruct Hcl as [->| ->]; [reflexivity|apply orb_true_r].
Qed.

Lemma starts_with_shorter p a w : starts_with p (a ++ w) = false -> starts_with p a = false.
Proof. intros H. destruct (starts_with p a) eqn:E; [|reflexivity]. now rewrite (starts_with_prefix p a w E) in H. Qed.
Lemma first_vis_lstrip s : first_vis s = lstrip s.
Proof. unfold lstrip. induction s as [|c t IH]; [reflexivity|]. cbn. destruct (is_sp c); [exact IH|reflexivity]. Qed.

Lemma step_other rest num off in_block text :
  line_ok in_block (LOther text) = true ->
  go_loop ((render_line (LOther text) ++ [10]) :: rest) num off in_block = go_loop rest (S num) (off + line_len (LOther text)) in_block.
Proof.
  intros Hl. destruct (piece_line in_block _ Hl) as [Hch Hlen]. revert Hl.
  cbn [line_ok render_line] in *. intros H. apply andb_true_iff in H as [Hok H]. rewrite first_vis_lstrip in H.
  rewrite go_loop_cons. cbv zeta. rewrite Hch, Hlen. rewrite (trim_ascii _ Hok).
  destruct (lstrip_shape text) as [a [L [Htx [Ha [HL Hs]]]]]. rewrite HL in *.
  destruct Hs as [->|[x [t' [-> Hx]]]]; [reflexivity|].
  assert (is_vis x = true) as Hvx.
  { apply (vis_of_text x t'); [|exact Hx]. rewrite Htx, text_ok_app in Hok. now apply andb_true_iff in Hok as [_ Hok]. }
  change (x :: t') with ([] ++ x :: t'). destruct (rstrip_keeps [] x t' Hvx) as [r0 [Hr [w [Hw Hsw]]]]. rewrite Hr. cbn [app].
  destruct (beq (x :: r0) [] || starts_with [47; 47] (x :: r0)) eqn:Eskip; [reflexivity|].
  destruct in_block.
  - exfalso. apply orb_true_iff in H as [H|H]; [discriminate|].
    apply orb_false_iff in Eskip as [_ Es]. rewrite Hw in H. change (x :: r0 ++ w) with ((x :: r0) ++ w) in H.
    destruct r0 as [|y' u'].
    + cbn [app starts_with] in H. destruct (47 =? x); [|discriminate]. destruct w as [|w0 w']; [discriminate|].
      destruct (47 =? w0) eqn:E2; [|discriminate]. apply N.eqb_eq in E2. subst w0. unfold sp_run in Hsw. cbn in Hsw. discriminate.
    + cbn [app starts_with] in H, Es. now rewrite H in Es.
  - cbn [andb]. apply negb_true_iff in H. rewrite Hw in H. change (x :: r0 ++ w) with ((x :: r0) ++ w) in H. apply starts_with_shorter in H.
    rewrite kw_is in H.
    assert (strip_prefix kw_require (x :: r0) = None) as Hsp.
    { destruct (strip_prefix kw_require (x :: r0)) eqn:E; [|reflexivity]. apply strip_prefix_starts in E. congruence. }
    unfold match_block_start, match_single_require. rewrite Hsp. reflexivity.
Qed.

(* ---------- the file ---------- *)
Lemma loop_file f : forall num off in_block, file_ok in_block f = true ->
  go_loop (map (fun l => render_line l ++ [10]) f) num off in_block = located f num off.
Proof.
  induction f as [|l t IH]; intros num off in_block H; [reflexivity|].
  cbn [file_ok] in H. apply andb_true_iff in H as [Hl Ht]. cbn [map located].
  destruct l as [ind sep1 m sep2 v tl|ind sep tsp|ind m sep v tl|ind tl|text].
  - destruct in_block; [cbn in Hl; discriminate|]. rewrite (step_require _ _ _ _ _ _ _ _ _ Hl). cbn [next_block] in Ht. now rewrite IH.
  - destruct in_block; [cbn in Hl; discriminate|]. rewrite (step_open _ _ _ _ _ _ Hl). cbn [next_block located_line app] in *. now apply IH.
  - destruct in_block; [|cbn in Hl; discriminate]. rewrite (step_spec _ _ _ _ _ _ _ _ Hl). cbn [next_block] in Ht. now rewrite IH.
  - destruct in_block; [|cbn in Hl; discriminate]. rewrite (step_close _ _ _ _ _ Hl). cbn [next_block located_line app] in *. now apply IH.
  - rewrite (step_other _ _ _ _ _ Hl). cbn [next_block located_line app] in *. now apply IH.
Qed.

Lemma pieces_render f in_block : file_ok in_block f = true ->
  split_inclusive_aux (render f) [] = map (fun l => render_line l ++ [10]) f.
Proof.
  revert in_block. unfold render. induction f as [|l t IH]; intros b H; [reflexivity|].
  cbn [file_ok] in H. apply andb_true_iff in H as [Hl Ht]. cbn [flat_map map]. rewrite <- app_assoc. cbn [app].
  rewrite split_inclusive_line by (intros c Hc; exact (proj1 (text_ok_no_nl _ (line_text b l Hl) c Hc))).
  cbn [rev app]. f_equal. exact (IH _ Ht).
Qed.

(* the whole result, locations included *)
Theorem go_mod_located f : file_ok false f = true -> parse_go_mod (render f) = located f 0 0.
Proof. intros H. unfold parse_go_mod. rewrite (pieces_render f false H). now apply loop_file. Qed.

Lemma located_decl f : forall num off, map nv2 (located f num off) = declared_go_mod f.
Proof.
  induction f as [|l t IH]; intros num off; [reflexivity|]. cbn [located declared_go_mod flat_map]. rewrite map_app, IH.
  destruct l; reflexivity.
Qed.
Theorem go_mod_exact f : file_ok false f = true -> map nv2 (parse_go_mod (render f)) = declared_go_mod f.
Proof. intros H. rewrite (go_mod_located f H). apply located_decl. Qed.

(* ---------- C05 for go.mod: every reported location is the version text, line and column included ---------- *)
Lemma pos_aux_app a : forall s k row col,
  pos_of_aux (a ++ s) (length a + k) row col = let '(r, c) := pos_of_aux a (length a) row col in pos_of_aux s k r c.
Proof.
  induction a as [|x t IH]; intros s k row col; [reflexivity|].
  cbn [app length Nat.add pos_of_aux]. destruct (x =? 10); apply IH.
Qed.
Lemma pos_aux_line l : (forall c, In c l -> c <> 10) -> forall rest k row col, (k <= length l)%nat ->
  pos_of_aux (l ++ rest) k row col = (row, col + N.of_nat k).
Proof.
  induction l as [|x t IH]; intros H rest k row col Hk.
  - assert (k = O) as -> by (cbn in Hk; lia). cbn. rewrite N.add_0_r. now destruct rest.
  - destruct k as [|k']; [cbn; now rewrite N.add_0_r|]. cbn [app pos_of_aux].
    assert (x <> 10) as Hx by (apply H; now left). apply N.eqb_neq in Hx. rewrite Hx.
    rewrite IH; [f_equal; rewrite Nat2N.inj_succ; lia|intros c Hc; apply H; now right|cbn in Hk; lia].
Qed.
Lemma pos_aux_whole_line l : (forall c, In c l -> c <> 10) -> forall row col,
  pos_of_aux (l ++ [10]) (length (l ++ [10])) row col = (row + 1, 0).
Proof.
  induction l as [|x t IH]; intros H row col; [reflexivity|].
  cbn [app length pos_of_aux]. assert (x <> 10) as Hx by (apply H; now left). apply N.eqb_neq in Hx. rewrite Hx.
  apply IH. intros c Hc. apply H. now right.
Qed.

Definition at_line_start (pre : bytes) (num : nat) : Prop := pos_of_aux pre (length pre) 0 0 = (N.of_nat num, 0).

Lemma firstn_skipn_mid (a v b' : bytes) : firstn_N (blen v) (skipn_N (blen a) (a ++ v ++ b')) = v.
Proof.
  unfold firstn_N, skipn_N, blen. rewrite !Nat2N.id, skipn_app, skipn_all, Nat.sub_diag. cbn [app skipn].
  now rewrite firstn_app, Nat.sub_diag, firstn_all, app_nil_r.
Qed.

(* one located requirement inside the text  pre ++ line ++ "\n" ++ post  *)
Lemma located_line_sound pre l post num in_block p :
  line_ok in_block l = true -> at_line_start pre num -> In p (located_line l num (blen pre)) ->
  let content := pre ++ (render_line l ++ [10]) ++ post in
  slice content (p_start p) (p_end p) = Some (p_version p)
  /\ pos_of content (p_start p) = (p_line p, p_col p) /\ p_end p = p_start p + blen (p_version p) /\ p_end p <= blen content.
Proof.
  intros Hl Hpre Hin. cbv zeta.
  pose proof (line_text in_block l Hl) as Htxt.
  assert (forall c, In c (render_line l) -> c <> 10) as Hnl by (intros c Hc; exact (proj1 (text_ok_no_nl _ Htxt c Hc))).
  (* the line is  A ++ v ++ B  with the version at column blen A *)
  assert (exists A v B, render_line l = A ++ v ++ B /\ p = mkPkg (p_name p) v None (blen pre + blen A) (blen pre + blen A + blen v) (N.of_nat num) (blen A) None) as [A [v [B [Hline Hp]]]].
  { destruct l as [ind sep1 m sep2 v tl|ind sep tsp|ind m sep v tl|ind tl|text]; cbn [located_line] in Hin; [|destruct Hin| |destruct Hin|destruct Hin].
    - destruct Hin as [<-|[]]. exists (ind ++ kw ++ sep1 ++ m ++ sep2), v, (render_tail tl). split; [cbn [render_line]; rewrite <- !app_assoc; reflexivity|].
      cbn [p_name]. rewrite !blen_app. change (blen kw) with 7. f_equal; lia.
    - destruct Hin as [<-|[]]. exists (ind ++ m ++ sep), v, (render_tail tl). split; [cbn [render_line]; rewrite <- !app_assoc; reflexivity|].
      cbn [p_name]. rewrite !blen_app. f_equal; lia. }
  rewrite Hp. cbn [p_start p_end p_version p_line p_col].
  set (content := pre ++ (render_line l ++ [10]) ++ post).
  assert (content = (pre ++ A) ++ v ++ (B ++ [10] ++ post)) as Hc by (unfold content; rewrite Hline, <- !app_assoc; reflexivity).
  assert (blen content = blen pre + blen A + blen v + blen (B ++ [10] ++ post)) as Hlen by (rewrite Hc, !blen_app; lia).
  repeat split.
  - unfold slice. assert ((blen pre + blen A <=? blen pre + blen A + blen v) && (blen pre + blen A + blen v <=? blen content) = true) as ->
      by (apply andb_true_iff; split; apply N.leb_le; lia).
    f_equal. replace (blen pre + blen A + blen v - (blen pre + blen A)) with (blen v) by lia.
    rewrite Hc. replace (blen pre + blen A) with (blen (pre ++ A)) by (rewrite blen_app; reflexivity). apply firstn_skipn_mid.
  - unfold pos_of. unfold content. replace (N.to_nat (blen pre + blen A)) with (length pre + length A)%nat by (unfold blen; lia).
    rewrite pos_aux_app. unfold at_line_start in Hpre. rewrite Hpre.
    rewrite Hline, <- !app_assoc. rewrite (pos_aux_line A); [f_equal; unfold blen; lia| |lia].
    intros c Hc'. apply Hnl. rewrite Hline. apply in_or_app. now left.
  - lia.
Qed.

Lemma at_line_start_next pre l num in_block : line_ok in_block l = true -> at_line_start pre num -> at_line_start (pre ++ render_line l ++ [10]) (S num).
Proof.
  intros Hl Hpre. unfold at_line_start in *. rewrite app_length. rewrite pos_aux_app, Hpre.
  pose proof (line_text in_block l Hl) as Htxt.
  rewrite pos_aux_whole_line; [f_equal; lia|]. intros c Hc. exact (proj1 (text_ok_no_nl _ Htxt c Hc)).
Qed.

Theorem go_mod_locations f : file_ok false f = true ->
  forall p, In p (parse_go_mod (render f)) ->
  slice (render f) (p_start p) (p_end p) = Some (p_version p)
  /\ pos_of (render f) (p_start p) = (p_line p, p_col p) /\ p_end p = p_start p + blen (p_version p) /\ p_end p <= blen (render f).
Proof.
  intros H p Hin. rewrite (go_mod_located f H) in Hin.
  (* generalise: a prefix of complete lines before the remaining file *)
  assert (forall rest pre num b, file_ok b rest = true -> at_line_start pre num -> In p (located rest num (blen pre)) ->
            let content := pre ++ render rest in
            slice content (p_start p) (p_end p) = Some (p_version p)
            /\ pos_of content (p_start p) = (p_line p, p_col p) /\ p_end p = p_start p + blen (p_version p) /\ p_end p <= blen content) as G.
  { induction rest as [|l t IH]; intros pre num b Hok Hpre Hp; [destruct Hp|].
    cbn [file_ok] in Hok. apply andb_true_iff in Hok as [Hl Ht]. cbn [located] in Hp. apply in_app_or in Hp as [Hp|Hp].
    - cbv zeta. unfold render. cbn [flat_map]. fold (render t).
      exact (located_line_sound pre l (render t) num b p Hl Hpre Hp).
    - cbv zeta. unfold render. cbn [flat_map]. fold (render t). rewrite app_assoc.
      apply (IH (pre ++ render_line l ++ [10]) (S num) (next_block b l) Ht (at_line_start_next pre l num b Hl Hpre)).
      replace (blen (pre ++ render_line l ++ [10])) with (blen pre + line_len l); [exact Hp|].
      unfold line_len. rewrite !blen_app. change (blen [10]) with 1. lia. }
  exact (G f [] O false H eq_refl Hin).
Qed.
