(* C04 for pyproject.toml: on every tree-sitter-toml tree that denotes a TOML document (plain spellings, literal strings
   included), outside the known class, the walk of pyproject_toml.rs reports exactly the requirements the document
   declares in project.dependencies, project.optional-dependencies.<group> and build-system.requires, as read by the
   PEP 508 oracle. *)
From Coq Require Import ZArith Lia.
From VL Require Import Lib.Bytes Lib.Text Lib.Cst Gen.GenParsers Model.Walks Spec.TomlDoc Proofs.JsonWalkProofs Proofs.TomlWalkProofs.

Section Py.
Variable pep508 : bytes -> pep.
Hypothesis no_panic : forall s, pep508 s <> PepPanic.
Notation preq := (preq pep508).

(* what the walk reads in a table with header h, per entry *)
Definition py_read (h : kpath) (e : tkv) : list (bytes * bytes) :=
  if py_literal_form h (fst e) then array_reqs preq (snd e) else [].

Lemma py_key_pairs content key rest : forall l, tpairs_of (tkids_of content rest) = Some l -> forallb (plain_pyproject content) rest = true ->
  exists pkgs, concat_opt (fun p => if kind_is k_pair p then py_key_scan pep508 content key (n_children p) false else Some []) rest = Some pkgs
  /\ map nv pkgs = flat_map (fun e : tkv => if path_eqb (fst e) [key] then array_reqs preq (snd e) else []) l.
Proof.
  induction rest as [|x t IH]; intros l Hl Hp.
  - cbn in Hl. injection Hl as <-. exists []. split; reflexivity.
  - cbn [forallb] in Hp. apply andb_true_iff in Hp as [Px Pt].
    destruct (tpairs_cons _ _ _ _ Hl) as [[k [v [l' [Dx [Hl' ->]]]]]|[Dx Hl']].
    + destruct (IH l' Hl' Pt) as [p2 [E2 M2]]. destruct (pair_inv _ _ _ _ Dx) as [Kx _].
      destruct (py_pair pep508 no_panic content key x k v Dx Px) as [[p1 [E1 M1]] _].
      cbn [concat_opt]. unfold kind_is at 1. rewrite Kx. change (beq tk_pair k_pair) with true. cbv iota. rewrite E1, E2.
      exists (p1 ++ p2). split; [reflexivity|]. rewrite map_app, M1, M2. reflexivity.
    + destruct (IH l Hl' Pt) as [p2 [E2 M2]]. destruct (tok_node _ _ Dx) as [_ [_ [_ [_ [Kp _]]]]].
      cbn [concat_opt]. unfold kind_is at 1. rewrite Kp, E2. exists p2. split; [reflexivity|exact M2].
Qed.
Lemma py_all_pairs content rest : forall l, tpairs_of (tkids_of content rest) = Some l -> forallb (plain_pyproject content) rest = true ->
  exists pkgs, concat_opt (fun p => if kind_is k_pair p then
                                      concat_opt (fun c => if kind_is k_array c then py_array pep508 content c else Some []) (n_children p)
                                    else Some []) rest = Some pkgs
  /\ map nv pkgs = flat_map (fun e : tkv => array_reqs preq (snd e)) l.
Proof.
  induction rest as [|x t IH]; intros l Hl Hp.
  - cbn in Hl. injection Hl as <-. exists []. split; reflexivity.
  - cbn [forallb] in Hp. apply andb_true_iff in Hp as [Px Pt].
    destruct (tpairs_cons _ _ _ _ Hl) as [[k [v [l' [Dx [Hl' ->]]]]]|[Dx Hl']].
    + destruct (IH l' Hl' Pt) as [p2 [E2 M2]]. destruct (pair_inv _ _ _ _ Dx) as [Kx _].
      destruct (py_pair pep508 no_panic content [] x k v Dx Px) as [_ [p1 [E1 M1]]].
      cbn [concat_opt]. unfold kind_is at 1. rewrite Kx. change (beq tk_pair k_pair) with true. cbv iota. rewrite E1, E2.
      exists (p1 ++ p2). split; [reflexivity|]. rewrite map_app, M1, M2. reflexivity.
    + destruct (IH l Hl' Pt) as [p2 [E2 M2]]. destruct (tok_node _ _ Dx) as [_ [_ [_ [_ [Kp _]]]]].
      cbn [concat_opt]. unfold kind_is at 1. rewrite Kp, E2. exists p2. split; [reflexivity|exact M2].
Qed.

(* the reference tables are the ones the parser is written against (regenerated from the source) *)
Lemma py_tables_documented :
  map (fun r : bytes * bytes => (split_on 46 (fst r), snd r)) pyproject_tables
  = [([w_project], w_dependencies); ([w_build_system], w_requires); ([w_project; w_optional_dependencies], [])].
Proof. reflexivity. Qed.

Lemma hit_false_decl full v : py_path_hit full = false -> py_entry_decl preq full v = [].
Proof.
  unfold py_path_hit, py_entry_decl. intros H. apply orb_false_iff in H as [H1 H2]. rewrite H1.
  destruct full as [|a [|b [|c [|d r]]]]; try reflexivity; now rewrite H2.
Qed.
Lemma literal_decl h k v : py_literal_form h k = true -> py_entry_decl preq (h ++ k) v = array_reqs preq v.
Proof.
  unfold py_literal_form. intros H. apply orb_true_iff in H as [H|H]; [apply orb_true_iff in H as [H|H]|];
  apply andb_true_iff in H as [H1 H2]; apply path_eqb_eq in H1; subst h.
  - apply path_eqb_eq in H2. subst k. reflexivity.
  - apply path_eqb_eq in H2. subst k. reflexivity.
  - destruct k as [|g [|g2 r]]; try discriminate. reflexivity.
Qed.
Lemma entry_agree h (e : tkv) : py_path_hit (h ++ fst e) && negb (py_literal_form h (fst e)) = false ->
  py_entry_decl preq (h ++ fst e) (snd e) = py_read h e.
Proof.
  unfold py_read. intros H. destruct (py_literal_form h (fst e)) eqn:El.
  - now apply literal_decl.
  - cbn [negb] in H. rewrite andb_true_r in H. now apply hit_false_decl.
Qed.

Lemma py_table_spec content t h l :
  denote_tnode content t = TDItem (ITable h l) -> plain_pyproject content t = true ->
  (path_eqb h [w_project; w_optional_dependencies] = true -> forall e, In e l -> exists g, fst e = [g]) ->
  exists pkgs, py_table pep508 content t = Some pkgs /\ map nv pkgs = flat_map (py_read h) l.
Proof.
  intros H Hp Hsingle. destruct (table_inv _ _ _ _ H) as [Hk [lb [kn [rb [rest [Hch [Klb [Dl [Dk [Dr [Hl Hnd]]]]]]]]]]].
  assert (plain_pyproject content kn = true) as Pk by (apply (plain_toml_child _ content t); [exact Hp|rewrite Hch; right; now left]).
  assert (forallb (plain_pyproject content) rest = true) as Pr.
  { apply forallb_forall. intros x Hx. apply (plain_toml_child _ content t); [exact Hp|]. rewrite Hch. right. right. right. exact Hx. }
  destruct (key_node _ _ _ _ Dk Pk) as [text [Ht [Hsp [Hne Hkind]]]].
  unfold py_table, kind_is. rewrite Hk. change (beq tk_table k_table) with true. cbn [negb]. rewrite Hch.
  rewrite Klb. change (beq tk_lb k_lbracket) with true. cbn [negb].
  assert (table_name content t = Some (Some text)) as ->.
  { unfold table_name. rewrite Hch. cbn [find]. unfold kind_is. rewrite Klb.
    change (beq tk_lb k_bare_key || beq tk_lb k_dotted_key) with false. cbv iota.
    assert (beq (n_kind kn) k_bare_key || beq (n_kind kn) k_dotted_key = true) as ->.
    { destruct Hkind as [[K _]|[K _]]; rewrite K; reflexivity. }
    now rewrite Ht. }
  cbn [bind].
  assert (forall F : node -> option (list pkg), (forall c, kind_is k_pair c = false -> F c = Some []) ->
          concat_opt F (n_children t) = concat_opt F rest) as Hskip.
  { intros F HF. rewrite Hch. cbn [concat_opt].
    assert (kind_is k_pair lb = false) as K1 by (unfold kind_is; rewrite Klb; reflexivity).
    assert (kind_is k_pair kn = false) as K2 by (unfold kind_is; destruct Hkind as [[K _]|[K _]]; rewrite K; reflexivity).
    assert (kind_is k_pair rb = false) as K3 by (destruct (tok_node _ _ Dr) as [_ [_ [_ [_ [Kp _]]]]]; exact Kp).
    rewrite (HF _ K1), (HF _ K2), (HF _ K3). destruct (concat_opt F rest); reflexivity. }
  unfold pyproject_tables. cbn [find fst].
  destruct (beq [112;114;111;106;101;99;116] text) eqn:E1.
  { apply beq_eq in E1. subst text. change (split_on 46 [112;114;111;106;101;99;116]) with [w_project] in Hsp. subst h.
    unfold py_key_array. rewrite Hskip by (intros c Kc; now rewrite Kc).
    destruct (py_key_pairs content w_dependencies rest l Hl Pr) as [pkgs [E M]]. exists pkgs. split; [exact E|]. rewrite M.
    apply flat_map_ext. intros e. unfold py_read, py_literal_form. cbn [path_eqb list_eqb].
    change (beq w_project w_project) with true. change (beq w_project w_build_system) with false. cbn [andb orb].
    rewrite !orb_false_r. reflexivity. }
  destruct (beq [98;117;105;108;100;45;115;121;115;116;101;109] text) eqn:E2.
  { apply beq_eq in E2. subst text. change (split_on 46 [98;117;105;108;100;45;115;121;115;116;101;109]) with [w_build_system] in Hsp. subst h.
    unfold py_key_array. rewrite Hskip by (intros c Kc; now rewrite Kc).
    destruct (py_key_pairs content w_requires rest l Hl Pr) as [pkgs [E M]]. exists pkgs. split; [exact E|]. rewrite M.
    apply flat_map_ext. intros e. unfold py_read, py_literal_form. cbn [path_eqb list_eqb].
    change (beq w_build_system w_project) with false. change (beq w_build_system w_build_system) with true. cbn [andb orb].
    rewrite !orb_false_r. reflexivity. }
  destruct (beq [112;114;111;106;101;99;116;46;111;112;116;105;111;110;97;108;45;100;101;112;101;110;100;101;110;99;105;101;115] text) eqn:E3.
  { apply beq_eq in E3. subst text.
    change (split_on 46 [112;114;111;106;101;99;116;46;111;112;116;105;111;110;97;108;45;100;101;112;101;110;100;101;110;99;105;101;115]) with [w_project; w_optional_dependencies] in Hsp. subst h.
    unfold py_all_arrays. rewrite Hskip by (intros c Kc; now rewrite Kc).
    destruct (py_all_pairs content rest l Hl Pr) as [pkgs [E M]]. exists pkgs. split; [exact E|]. rewrite M.
    specialize (Hsingle (path_eqb_refl _)). clear - Hsingle. induction l as [|e tl IH]; [reflexivity|]. cbn [flat_map].
    rewrite IH by (intros e' He'; apply Hsingle; now right). f_equal.
    destruct (Hsingle e (or_introl eq_refl)) as [g Hg]. unfold py_read, py_literal_form. rewrite Hg. reflexivity. }
  exists []. split; [reflexivity|]. cbn [map]. symmetry.
  assert (forall k, py_literal_form h k = false) as Hnl.
  { intros k. unfold py_literal_form.
    assert (forall T, beq T text = false -> path_eqb h (split_on 46 T) = false) as Hne'.
    { intros T ET. destruct (path_eqb h (split_on 46 T)) eqn:EP; [|reflexivity]. apply path_eqb_eq in EP. rewrite Hsp in EP.
      apply split_on_inj in EP. subst T. now rewrite beq_refl in ET. }
    pose proof (Hne' _ E1) as P1. pose proof (Hne' _ E2) as P2. pose proof (Hne' _ E3) as P3.
    change (split_on 46 [112;114;111;106;101;99;116]) with [w_project] in P1.
    change (split_on 46 [98;117;105;108;100;45;115;121;115;116;101;109]) with [w_build_system] in P2.
    change (split_on 46 [112;114;111;106;101;99;116;46;111;112;116;105;111;110;97;108;45;100;101;112;101;110;100;101;110;99;105;101;115]) with [w_project; w_optional_dependencies] in P3.
    rewrite P1, P2, P3. reflexivity. }
  clear - Hnl. induction l as [|e tl IH]; [reflexivity|]. cbn [flat_map]. unfold py_read at 1. rewrite Hnl. cbn [app]. exact IH.
Qed.

Definition py_item_decl (i : titem) : list (bytes * bytes) :=
  match i with
  | IPair k v => py_entry_decl preq k v
  | ITable h l => flat_map (fun e : tkv => py_entry_decl preq (h ++ fst e) (snd e)) l
  | IArrTable _ _ => []
  end.
Definition py_item_known (i : titem) : bool :=
  match i with
  | IPair k _ => py_path_hit k
  | ITable h l => existsb (fun e : tkv => (py_path_hit (h ++ fst e) && negb (py_literal_form h (fst e)))
                                          || (path_eqb h [w_project; w_optional_dependencies] && match fst e with [_] => false | _ => true end)) l
  | IArrTable _ _ => false
  end.
Lemma py_items_walk content ch : forall d, titems_of (tkids_of content ch) = Some d -> forallb (plain_pyproject content) ch = true ->
  existsb py_item_known d = false ->
  exists pkgs, concat_opt (py_table pep508 content) ch = Some pkgs /\ map nv pkgs = flat_map py_item_decl d.
Proof.
  induction ch as [|x t IH]; intros d Hd Hp Hk.
  - cbn in Hd. injection Hd as <-. exists []. split; reflexivity.
  - cbn [forallb] in Hp. apply andb_true_iff in Hp as [Px Pt].
    cbn [tkids_of map titems_of fold_right snd] in Hd. fold (tkids_of content t) in Hd. fold (titems_of (tkids_of content t)) in Hd.
    destruct (denote_tnode content x) eqn:Dx; try discriminate.
    + destruct (titems_of (tkids_of content t)) as [d'|] eqn:Ed; [|discriminate]. injection Hd as <-.
      cbn [existsb] in Hk. apply orb_false_iff in Hk as [Hk1 Hk].
      destruct (IH d' eq_refl Pt Hk) as [p2 [E2 M2]]. exists p2. cbn [concat_opt]. rewrite E2.
      destruct (pair_inv _ _ _ _ Dx) as [Kx _]. unfold py_table at 1, kind_is. rewrite Kx. change (beq tk_pair k_table) with false. cbn [negb].
      split; [reflexivity|]. cbn [flat_map py_item_decl]. cbn [py_item_known] in Hk1. rewrite (hit_false_decl _ v Hk1). exact M2.
    + destruct (titems_of (tkids_of content t)) as [d'|] eqn:Ed; [|discriminate]. injection Hd as <-.
      cbn [existsb] in Hk. apply orb_false_iff in Hk as [Hk1 Hk].
      destruct (IH d' eq_refl Pt Hk) as [p2 [E2 M2]].
      destruct i as [k v|h l|h l].
      * pose proof (tnode_shape content x) as S. rewrite Dx in S. destruct S.
      * cbn [py_item_known] in Hk1.
        assert (forall e, In e l -> (py_path_hit (h ++ fst e) && negb (py_literal_form h (fst e))) = false
                                    /\ (path_eqb h [w_project; w_optional_dependencies] && match fst e with [_] => false | _ => true end) = false) as Hall.
        { intros e He. apply orb_false_iff. destruct (_ || _) eqn:Ee; [|reflexivity].
          assert (existsb (fun e0 : tkv => (py_path_hit (h ++ fst e0) && negb (py_literal_form h (fst e0)))
                            || (path_eqb h [w_project; w_optional_dependencies] && match fst e0 with [_] => false | _ => true end)) l = true) as Hc
            by (apply existsb_exists; exists e; split; assumption).
          congruence. }
        destruct (py_table_spec content x h l Dx Px) as [p1 [E1 M1]].
        { intros Hopt e He. destruct (Hall e He) as [_ H2]. rewrite Hopt in H2. cbn [andb] in H2.
          destruct (fst e) as [|g [|g2 r]]; try discriminate. now exists g. }
        exists (p1 ++ p2). cbn [concat_opt]. rewrite E1, E2. split; [reflexivity|].
        rewrite map_app, M1, M2. cbn [flat_map py_item_decl]. f_equal.
        clear - Hall. induction l as [|e tl IHl]; [reflexivity|]. cbn [flat_map].
        rewrite IHl by (intros e' He'; apply Hall; now right). f_equal. symmetry. apply entry_agree. apply (Hall e). now left.
      * exists p2. cbn [concat_opt]. rewrite E2. pose proof (tnode_shape content x) as S. rewrite Dx in S. cbn [shape_of] in S.
        unfold py_table at 1, kind_is. rewrite S. change (beq tk_table_array k_table) with false. cbn [negb].
        split; [reflexivity|exact M2].
    + destruct (titems_of (tkids_of content t)) as [d'|] eqn:Ed; [|discriminate]. injection Hd as <-.
      destruct (IH d' eq_refl Pt Hk) as [p2 [E2 M2]]. exists p2. cbn [concat_opt]. rewrite E2.
      destruct (tok_node _ _ Dx) as [_ [_ [_ [_ [_ [Kt _]]]]]]. unfold py_table at 1, kind_is. rewrite Kt. cbn [negb].
      split; [reflexivity|exact M2].
Qed.
Theorem pyproject_exact content root d :
  denote_toml content root = Some d -> plain_pyproject content root = true -> pyproject_known d = false ->
  exists pkgs, walk_pyproject pep508 content root = Some pkgs /\ map nv pkgs = declared_pyproject preq d.
Proof.
  unfold denote_toml. intros H Hp Hk. destruct (denote_tnode content root) eqn:Dr; try discriminate. injection H as ->.
  pose proof (tnode_shape content root) as S. rewrite Dr in S. cbn [shape_of] in S.
  destruct root as [kd f sb eb r c m ch]. cbn [n_kind] in S. subst kd. rewrite denote_tnode_eq in Dr. rewrite plain_toml_eq in Hp.
  apply andb_true_iff in Hp as [_ Hp]. destruct m; [discriminate|]. rewrite tstep_document in Dr.
  destruct (titems_of (tkids_of content ch)) as [d'|] eqn:Ed; [|discriminate]. injection Dr as ->.
  unfold walk_pyproject. cbn [n_children]. exact (py_items_walk content ch d Ed Hp Hk).
Qed.
End Py.
