(* C04 for the JSON manifests: on every CST that denotes a JSON value, the walks of package.json and
   deno.json report exactly the dependencies the value declares (outside the known classes). *)
From Coq Require Import ZArith Lia.
From VL Require Import Lib.Bytes Lib.Text Lib.Cst Model.Config Gen.GenParsers Model.Walks Spec.JsonDoc.

(* ---------- unfolding the denotation one level ---------- *)
Definition kids_of (content : bytes) (ch : list node) : list (node * den) := map (fun c => (c, denote_node content c)) ch.
Lemma denote_node_eq content kind f sb eb r c missing ch :
  denote_node content (Node kind f sb eb r c missing ch) =
  let kids := kids_of content ch in
  if missing then DBad
  else if existsb (beq kind) punct || beq kind kq_comment || beq kind kq_string_content || beq kind kq_escape then DTok
  else if beq kind kq_string then
    match slice content sb eb with
    | Some text => match denote_string_text text with Some s => DVal (JStr s) | None => DBad end
    | None => DBad
    end
  else if beq kind kq_number then DVal JFloat
  else if beq kind kq_true then DVal (JBool true)
  else if beq kind kq_false then DVal (JBool false)
  else if beq kind kq_null then DVal JNull
  else if beq kind kq_pair then
    match field_kid kq_key kids, field_kid kq_value kids with
    | Some (kn, DVal (JStr k)), Some (vn, DVal v) => if kind_is kq_string kn then DPair k v else DBad
    | _, _ => DBad
    end
  else if beq kind kq_object then match pairs_of kids with Some l => DVal (JObj l) | None => DBad end
  else if beq kind kq_array then match vals_of kids with Some l => DVal (JArr l) | None => DBad end
  else if beq kind kq_document then match vals_of kids with Some [j] => DDoc j | _ => DBad end
  else DBad.
Proof.
  cbn [denote_node]. unfold kids_of.
  assert ((fix go (l : list node) : list (node * den) :=
             match l with [] => [] | c0 :: t => (c0, denote_node content c0) :: go t end) ch
          = map (fun c0 => (c0, denote_node content c0)) ch) as ->; [|reflexivity].
  induction ch as [|x t IH]; [reflexivity|]. cbn [map]. now rewrite IH.
Qed.
Lemma plain_strings_eq content kind f sb eb r c missing ch :
  plain_strings content (Node kind f sb eb r c missing ch) =
  (if beq kind kq_string then match slice content sb eb with Some t => negb (existsb (N.eqb 92) t) | None => false end else true)
  && forallb (plain_strings content) ch.
Proof.
  cbn [plain_strings]. f_equal.
Qed.

(* kinds are decided by the denotation *)
Ltac kind_cases k :=
  destruct (existsb (beq k) punct || beq k kq_comment || beq k kq_string_content || beq k kq_escape) eqn:Etok;
  [| destruct (beq k kq_string) eqn:Estr;
     [| destruct (beq k kq_number) eqn:Enum;
        [| destruct (beq k kq_true) eqn:Etrue;
           [| destruct (beq k kq_false) eqn:Efalse;
              [| destruct (beq k kq_null) eqn:Enull;
                 [| destruct (beq k kq_pair) eqn:Epair;
                    [| destruct (beq k kq_object) eqn:Eobj;
                       [| destruct (beq k kq_array) eqn:Earr;
                          [| destruct (beq k kq_document) eqn:Edoc ]]]]]]]]].

(* ---------- strings ---------- *)
Lemma unescape_plain fuel s : (length s < fuel)%nat -> existsb (N.eqb 92) s = false ->
  forall r, unescape_fuel fuel s = Some r -> r = s /\ existsb (N.eqb 34) s = false.
Proof.
  revert s. induction fuel as [|f IH]; intros s Hl Hb r H; [lia|].
  destruct s as [|c t]; cbn [unescape_fuel] in H.
  - injection H as <-. now split.
  - cbn [existsb] in Hb. apply orb_false_iff in Hb as [Hc Ht].
    rewrite N.eqb_sym in Hc. rewrite Hc in H.
    destruct ((c =? 34) || (c =? 10)) eqn:E; [discriminate|].
    destruct (unescape_fuel f t) as [r'|] eqn:Er; [|discriminate]. cbn in H. injection H as <-.
    cbn [length] in Hl. destruct (IH t ltac:(lia) Ht r' Er) as [-> Hq]. split; [reflexivity|].
    cbn [existsb]. apply orb_false_iff in E as [E1 _]. rewrite N.eqb_sym, E1. exact Hq.
Qed.

Lemma strip_any_ws_quote t : strip_any ws_seqs (34 :: t) = None.
Proof. reflexivity. Qed.
Lemma strip_any_ws_rev_quote t : strip_any ws_seqs_rev (34 :: t) = None.
Proof. reflexivity. Qed.
Lemma rev_quoted inner : rev (34 :: inner ++ [34]) = 34 :: rev inner ++ [34].
Proof. cbn [rev]. rewrite rev_app_distr. reflexivity. Qed.
Lemma trim_quoted inner : trim (34 :: inner ++ [34]) = 34 :: inner ++ [34].
Proof.
  unfold trim. assert (trim_start (34 :: inner ++ [34]) = 34 :: inner ++ [34]) as ->.
  { unfold trim_start. cbn [length trim_start_fuel]. now rewrite strip_any_ws_quote. }
  unfold trim_end. rewrite rev_quoted. cbn [length trim_start_with]. rewrite strip_any_ws_rev_quote.
  now rewrite rev_quoted, rev_involutive.
Qed.
Lemma drop_while_noquote s rest : existsb (N.eqb 34) s = false -> s <> [] -> drop_while (N.eqb 34) (s ++ rest) = s ++ rest.
Proof.
  destruct s as [|c t]; [congruence|]. intros H _. cbn in *. apply orb_false_iff in H as [H _]. now rewrite H.
Qed.
Lemma strip_dq_quoted inner : existsb (N.eqb 34) inner = false -> strip_dq (34 :: inner ++ [34]) = inner.
Proof.
  intros H. unfold strip_dq. rewrite trim_quoted. unfold trim_start_char, trim_end_char. cbn [drop_while]. rewrite N.eqb_refl.
  destruct inner as [|c t].
  - reflexivity.
  - rewrite (drop_while_noquote (c :: t) [34] H ltac:(discriminate)).
    rewrite rev_app_distr. cbn [rev app drop_while]. rewrite N.eqb_refl.
    assert (existsb (N.eqb 34) (rev (c :: t)) = false) as Hr.
    { destruct (existsb (N.eqb 34) (rev (c :: t))) eqn:E; [|reflexivity].
      apply existsb_exists in E as [x [Hin Hx]]. apply in_rev in Hin.
      assert (existsb (N.eqb 34) (c :: t) = true) as Hc by (apply existsb_exists; eauto). congruence. }
    assert (forall l, existsb (N.eqb 34) l = false -> drop_while (N.eqb 34) l = l) as Hdw.
    { intros [|x l] Hx; [reflexivity|]. cbn in *. apply orb_false_iff in Hx as [Hx _]. now rewrite Hx. }
    change (rev t ++ [c]) with (rev (c :: t)). rewrite (Hdw _ Hr). apply rev_involutive.
Qed.

(* a string node without backslashes: the parser's reading is the denotation *)
Lemma string_value_denote content n s :
  kind_is kq_string n = true -> denote_node content n = DVal (JStr s) -> plain_strings content n = true ->
  string_value content n = Some s.
Proof.
  destruct n as [k f sb eb r c m ch]. unfold kind_is. cbn [n_kind]. intros Hk Hd Hp.
  rewrite denote_node_eq in Hd. rewrite plain_strings_eq, Hk in Hp. cbv zeta in Hd.
  destruct m; [discriminate|].
  assert (existsb (beq k) punct || beq k kq_comment || beq k kq_string_content || beq k kq_escape = false) as Etok.
  { apply beq_eq in Hk. subst k. reflexivity. }
  rewrite Etok, Hk in Hd. unfold string_value, node_text. cbn [n_sb n_eb].
  destruct (slice content sb eb) as [text|]; [|discriminate]. cbn [option_map]. f_equal.
  apply andb_true_iff in Hp as [Hp _]. apply negb_true_iff in Hp.
  destruct (denote_string_text text) as [s'|] eqn:Es; [|discriminate]. injection Hd as <-.
  unfold denote_string_text, string_inner in Es.
  destruct text as [|q rest]; [discriminate|]. destruct (q =? 34) eqn:Eq; [|discriminate]. apply N.eqb_eq in Eq. subst q.
  destruct (rev rest) as [|q' ri] eqn:Er; [discriminate|]. destruct (q' =? 34) eqn:Eq'; [|discriminate]. apply N.eqb_eq in Eq'. subst q'.
  assert (rest = rev ri ++ [34]) as -> by (rewrite <- (rev_involutive rest), Er; reflexivity).
  cbn [existsb] in Hp. apply orb_false_iff in Hp as [_ Hp]. rewrite existsb_app in Hp. apply orb_false_iff in Hp as [Hp _].
  destruct (unescape_plain _ _ (Nat.lt_succ_diag_r _) Hp _ Es) as [-> Hq].
  now apply strip_dq_quoted.
Qed.

(* ---------- children by field ---------- *)
Lemma field_kid_child content f ch : field_kid f (kids_of content ch) = option_map (fun c => (c, denote_node content c)) (find (fun c => beq (n_field c) f) ch).
Proof.
  unfold field_kid, kids_of. induction ch as [|x t IH]; [reflexivity|]. cbn [map find fst]. destruct (beq (n_field x) f); [reflexivity|exact IH].
Qed.

(* a pair node: its key and value children and their denotations *)
Lemma pair_inv content p k v : kind_is kq_pair p = true -> denote_node content p = DPair k v ->
  exists kn vn, child_by_field k_key p = Some kn /\ child_by_field k_value p = Some vn /\ kind_is kq_string kn = true
    /\ denote_node content kn = DVal (JStr k) /\ denote_node content vn = DVal v.
Proof.
  destruct p as [kd f sb eb r c m ch]. unfold kind_is, child_by_field. cbn [n_kind n_children]. intros Hk Hd.
  rewrite denote_node_eq in Hd. cbv zeta in Hd. destruct m; [discriminate|].
  apply beq_eq in Hk. subst kd. change (existsb (beq kq_pair) punct || beq kq_pair kq_comment || beq kq_pair kq_string_content || beq kq_pair kq_escape) with false in Hd.
  change (beq kq_pair kq_string) with false in Hd. change (beq kq_pair kq_number) with false in Hd. change (beq kq_pair kq_true) with false in Hd.
  change (beq kq_pair kq_false) with false in Hd. change (beq kq_pair kq_null) with false in Hd. change (beq kq_pair kq_pair) with true in Hd.
  cbv iota in Hd. rewrite !field_kid_child in Hd.
  change k_key with kq_key. change k_value with kq_value.
  destruct (find (fun c0 => beq (n_field c0) kq_key) ch) as [kn|]; [|discriminate]. cbn [option_map] in Hd.
  destruct (denote_node content kn) as [[]| | | |] eqn:Ekn; try discriminate.
  destruct (find (fun c0 => beq (n_field c0) kq_value) ch) as [vn|]; [|discriminate]. cbn [option_map] in Hd.
  destruct (denote_node content vn) as [jv| | | |] eqn:Evn; try discriminate.
  destruct (kind_is kq_string kn) eqn:Eks; [|discriminate]. injection Hd as <- <-.
  exists kn, vn. repeat split; assumption.
Qed.

(* the kind of a node decides the shape of its value *)
Lemma dval_kind content n v : denote_node content n = DVal v ->
  (kind_is k_object n = true -> exists l, v = JObj l /\ pairs_of (kids_of content (n_children n)) = Some l)
  /\ (kind_is k_object n = false -> forall l, v <> JObj l)
  /\ (kind_is k_string n = true -> exists s, v = JStr s)
  /\ (kind_is k_string n = false -> forall s, v <> JStr s).
Proof.
  destruct n as [k f sb eb r c m ch]. rewrite denote_node_eq. cbv zeta. unfold kind_is. cbn [n_kind n_children]. destruct m; [discriminate|].
  change k_object with kq_object. change k_string with kq_string.
  kind_cases k; try discriminate.
  - destruct (slice content sb eb) as [t|]; [destruct (denote_string_text t)|]; try discriminate. intros [= <-].
    apply beq_eq in Estr. subst k. repeat split; try discriminate; eauto.
  - intros [= <-]. assert (beq k kq_object = false) as -> by (apply beq_eq in Enum; now subst k). repeat split; try discriminate.
  - intros [= <-]. assert (beq k kq_object = false) as -> by (apply beq_eq in Etrue; now subst k). repeat split; try discriminate.
  - intros [= <-]. assert (beq k kq_object = false) as -> by (apply beq_eq in Efalse; now subst k). repeat split; try discriminate.
  - intros [= <-]. assert (beq k kq_object = false) as -> by (apply beq_eq in Enull; now subst k). repeat split; try discriminate.
  - intros H. exfalso. revert H.
    repeat (match goal with |- context [match ?x with _ => _ end] => destruct x end); discriminate.
  - destruct (pairs_of (kids_of content ch)) as [l'|]; [|discriminate]. intros [= <-].
    repeat split; try discriminate; eauto.
  - destruct (vals_of (kids_of content ch)); [|discriminate]. intros [= <-]. repeat split; try discriminate.
  - destruct (vals_of (kids_of content ch)) as [[|? []]|]; discriminate.
Qed.

(* ---------- small facts ---------- *)
Lemma plain_child content n c : plain_strings content n = true -> In c (n_children n) -> plain_strings content c = true.
Proof.
  destruct n as [k f sb eb r cc m ch]. rewrite plain_strings_eq. cbn [n_children]. intros H Hin.
  apply andb_true_iff in H as [_ H]. rewrite forallb_forall in H. now apply H.
Qed.
Lemma child_by_field_in f n c : child_by_field f n = Some c -> In c (n_children n).
Proof. unfold child_by_field. intros H. now apply find_some in H. Qed.

Lemma slice_length s a b' t : slice s a b' = Some t -> blen t = b' - a.
Proof.
  unfold slice. destruct ((a <=? b') && (b' <=? blen s)) eqn:E; [|discriminate]. intros [= <-].
  apply andb_true_iff in E as [E1 E2]. apply N.leb_le in E1, E2.
  unfold blen, firstn_N, skipn_N in *. rewrite firstn_length, skipn_length. lia.
Qed.
(* a string node that has a denotation is at least two bytes long, so its end offset is not 0 *)
Lemma string_node_end content n s : kind_is kq_string n = true -> denote_node content n = DVal (JStr s) -> exists e, pred_N (n_eb n) = Some e /\ e = n_eb n - 1.
Proof.
  destruct n as [k f sb eb r c m ch]. unfold kind_is. cbn [n_kind n_eb]. intros Hk Hd.
  rewrite denote_node_eq in Hd. cbv zeta in Hd. destruct m; [discriminate|].
  apply beq_eq in Hk. subst k.
  change (existsb (beq kq_string) punct || beq kq_string kq_comment || beq kq_string kq_string_content || beq kq_string kq_escape) with false in Hd.
  change (beq kq_string kq_string) with true in Hd. cbv iota in Hd.
  destruct (slice content sb eb) as [text|] eqn:Es; [|discriminate].
  destruct (denote_string_text text) eqn:Et; [|discriminate].
  unfold denote_string_text, string_inner in Et. destruct text as [|q rest]; [discriminate|].
  apply slice_length in Es. unfold blen in Es. cbn [length] in Es.
  unfold pred_N. destruct (eb =? 0) eqn:E0; [apply N.eqb_eq in E0; lia|]. eauto.
Qed.

Lemma string_node_len content n s : kind_is kq_string n = true -> denote_node content n = DVal (JStr s) -> (n_eb n - n_sb n <? 2) = false.
Proof.
  destruct n as [k f sb eb r c m ch]. unfold kind_is. cbn [n_kind n_eb n_sb]. intros Hk Hd.
  rewrite denote_node_eq in Hd. cbv zeta in Hd. destruct m; [discriminate|].
  apply beq_eq in Hk. subst k.
  change (existsb (beq kq_string) punct || beq kq_string kq_comment || beq kq_string kq_string_content || beq kq_string kq_escape) with false in Hd.
  change (beq kq_string kq_string) with true in Hd. cbv iota in Hd.
  destruct (slice content sb eb) as [text|] eqn:Es; [|discriminate].
  destruct (denote_string_text text) eqn:Et; [|discriminate].
  unfold denote_string_text, string_inner in Et. destruct text as [|q rest]; [discriminate|].
  destruct (q =? 34); [|discriminate]. destruct (rev rest) as [|q' ri] eqn:Er; [discriminate|].
  assert (rest <> []) as Hne by (intros ->; discriminate).
  apply slice_length in Es. unfold blen in Es. cbn [length] in Es. destruct rest; [congruence|]. cbn [length] in Es.
  apply N.ltb_ge. lia.
Qed.

Lemma dtok_not_pair content n : denote_node content n = DTok -> kind_is k_pair n = false.
Proof.
  destruct n as [k f sb eb r c m ch]. rewrite denote_node_eq. cbv zeta. unfold kind_is. cbn [n_kind]. destruct m; [discriminate|].
  change k_pair with kq_pair. intros H.
  kind_cases k; try reflexivity; try (exfalso; revert H; repeat (match goal with |- context [match ?x with _ => _ end] => destruct x end); discriminate).
  destruct (beq k kq_pair) eqn:E; [|reflexivity]. apply beq_eq in E. subst k. vm_compute in Etok. discriminate.
Qed.
Lemma dpair_is_pair content n k v : denote_node content n = DPair k v -> kind_is k_pair n = true.
Proof.
  destruct n as [kd f sb eb r c m ch]. rewrite denote_node_eq. cbv zeta. unfold kind_is. cbn [n_kind]. destruct m; [discriminate|].
  change k_pair with kq_pair. intros H.
  kind_cases kd; try reflexivity; exfalso; revert H; repeat (match goal with |- context [match ?x with _ => _ end] => destruct x end); discriminate.
Qed.

(* ---------- find_char ---------- *)
Lemma find_char_aux_shift c s i : find_char_aux c s i = option_map (N.add i) (find_char_aux c s 0).
Proof.
  revert i. induction s as [|x t IH]; intros i; [reflexivity|]. cbn [find_char_aux].
  destruct (x =? c); [cbn; f_equal; lia|]. rewrite (IH (i + 1)), (IH (0 + 1)).
  destruct (find_char_aux c t 0); cbn; [f_equal; lia|reflexivity].
Qed.
Lemma find_char_cons c x t : find_char c (x :: t) = if x =? c then Some 0 else option_map N.succ (find_char c t).
Proof.
  unfold find_char. cbn [find_char_aux]. destruct (x =? c); [reflexivity|].
  rewrite find_char_aux_shift. destruct (find_char_aux c t 0); cbn; [f_equal; lia|reflexivity].
Qed.
Lemma find_char_app_notin c a b' : existsb (N.eqb c) a = false -> find_char c (a ++ b') = option_map (N.add (blen a)) (find_char c b').
Proof.
  induction a as [|x t IH]; intros H.
  - cbn [app]. change (blen []) with 0. destruct (find_char c b') as [n|]; cbn [option_map]; [f_equal; lia|reflexivity].
  - cbn [existsb] in H. apply orb_false_iff in H as [Hx Ht]. cbn [app]. rewrite find_char_cons. rewrite N.eqb_sym, Hx.
    rewrite (IH Ht). unfold blen. cbn [length]. destruct (find_char c b'); cbn; [f_equal; lia|reflexivity].
Qed.
Lemma find_char_split c s i : find_char c s = Some i ->
  s = firstn_N i s ++ c :: skipn_N (i + 1) s /\ existsb (N.eqb c) (firstn_N i s) = false /\ blen (firstn_N i s) = i.
Proof.
  revert i. induction s as [|x t IH]; intros i H; [discriminate|].
  rewrite find_char_cons in H. destruct (x =? c) eqn:E.
  - injection H as <-. apply N.eqb_eq in E. subst x. repeat split.
  - destruct (find_char c t) as [j|] eqn:Ej; [|discriminate]. cbn in H. injection H as <-.
    destruct (IH j eq_refl) as [H1 [H2 H3]]. unfold firstn_N, skipn_N, blen in *.
    rewrite N2Nat.inj_succ. replace (N.to_nat (N.succ j + 1)) with (S (N.to_nat (j + 1))) by lia. cbn [firstn skipn app existsb length].
    repeat split.
    + f_equal. exact H1.
    + rewrite N.eqb_sym, E. exact H2.
    + rewrite Nat2N.inj_succ. lia.
Qed.

(* ---------- aliases ---------- *)
Lemma skipn_N_app_len (a b' : bytes) n : n = blen a -> skipn_N n (a ++ b') = b'.
Proof. intros ->. unfold skipn_N, blen. rewrite Nat2N.id. now rewrite skipn_app, skipn_all, Nat.sub_diag. Qed.

Lemma alias_agrees v : npm_value_known v = false -> forall rest, strip_prefix npm_alias_prefix v = Some rest ->
  parse_npm_alias v = Some (split_alias rest).
Proof.
  intros Hk rest Hs. unfold parse_npm_alias. rewrite Hs.
  unfold npm_value_known in Hk. apply orb_false_iff in Hk as [_ Hk].
  change npm_alias_prefix with p_npm in Hs. rewrite Hs in Hk.
  destruct rest as [|c r]; [reflexivity|].
  destruct (N.eq_dec c 64) as [->|Hc].
  - (* scoped *)
    change (starts_with [64] (64 :: r)) with true. cbv iota.
    destruct (find_char 47 r) as [s|] eqn:Ef; [|discriminate].
    destruct (find_char_split _ _ _ Ef) as [Hr [Hno47 Hlen]].
    unfold split_scoped. rewrite find_char_cons. change (64 =? 47) with false. cbv iota. rewrite Ef. cbn [option_map].
    set (scope := firstn_N s r) in *. set (after := skipn_N (s + 1) r) in *.
    assert (skipn_N (N.succ s + 1) (64 :: r) = after) as ->.
    { unfold skipn_N, after. replace (N.to_nat (N.succ s + 1)) with (S (N.to_nat (s + 1))) by lia. reflexivity. }
    unfold split_alias. rewrite Hr at 1. rewrite (find_char_app_notin 64 scope (47 :: after) Hk).
    rewrite find_char_cons. change (47 =? 64) with false. cbv iota.
    destruct (find_char 64 after) as [a|] eqn:Ea; cbn [option_map]; [|reflexivity].
    f_equal. f_equal.
    + f_equal. lia.
    + rewrite Hr at 1. unfold skipn_N. replace (N.to_nat (blen scope + N.succ a + 1)) with (length scope + S (N.to_nat (a + 1)))%nat by (unfold blen; lia).
      assert (forall (p q : bytes) n, skipn (length p + n) (p ++ q) = skipn n q) as Hskip by (induction p; cbn; auto).
      rewrite Hskip. reflexivity.
  - (* not scoped *)
    assert (starts_with [64] (c :: r) = false) as ->.
    { cbn. apply N.eqb_neq in Hc. rewrite N.eqb_sym. now rewrite Hc. }
    cbv iota. rewrite find_char_cons. apply N.eqb_neq in Hc. rewrite Hc. unfold split_alias.
    destruct (find_char 64 r) as [i|]; cbn [option_map]; [|reflexivity].
    f_equal. f_equal.
    + f_equal. lia.
    + unfold skipn_N. replace (N.to_nat (N.succ i + 1)) with (S (N.to_nat (i + 1))) by lia. reflexivity.
Qed.

(* ---------- the regenerated tables are the documented ones ---------- *)
Lemma fields_are_sections : npm_dependency_fields = npm_sections. Proof. reflexivity. Qed.
Lemma prefixes_are_documented : npm_alias_prefix = p_npm /\ npm_catalog_prefix = p_catalog /\ latest_word = w_latest /\ jsr_prefix = p_jsr /\ deno_imports_key = w_imports.
Proof. repeat split. Qed.

Definition nv (p : pkg) : bytes * bytes := (p_name p, p_version p).

(* ---------- one entry of a dependency object ---------- *)
Lemma npm_entry_exact content c k v :
  denote_node content c = DPair k v -> plain_strings content c = true ->
  match v with JStr s => npm_value_known s = false | _ => True end ->
  exists pkgs, npm_entry content c = Some pkgs /\ map nv pkgs = match v with JStr s => npm_entry_decl k s | _ => [] end.
Proof.
  intros Hd Hp Hk. pose proof (dpair_is_pair _ _ _ _ Hd) as Hpair.
  destruct (pair_inv content c k v Hpair Hd) as [kn [vn [Hck [Hcv [Hks [Hdk Hdv]]]]]].
  unfold npm_entry. rewrite Hpair, Hck, Hcv. cbn [negb].
  pose proof (plain_child _ _ _ Hp (child_by_field_in _ _ _ Hck)) as Hpk.
  pose proof (plain_child _ _ _ Hp (child_by_field_in _ _ _ Hcv)) as Hpv.
  destruct (dval_kind content vn v Hdv) as [_ [_ [Hs1 Hs2]]].
  destruct (kind_is k_string vn) eqn:Evs; cbn [negb].
  - destruct (Hs1 eq_refl) as [s ->].
    rewrite (string_node_len content vn s Evs Hdv).
    rewrite (string_value_denote content kn k Hks Hdk Hpk). cbn [bind].
    rewrite (string_value_denote content vn s Evs Hdv Hpv). cbn [bind].
    unfold npm_entry_decl.
    assert (starts_with npm_catalog_prefix s = true -> nonregistry s = true) as Hcat.
    { intros Hc. unfold nonregistry, nonregistry_prefixes. cbn [existsb]. change npm_catalog_prefix with p_catalog in Hc. now rewrite Hc. }
    destruct (starts_with npm_catalog_prefix s) eqn:Ecat.
    + rewrite (Hcat eq_refl). eexists. split; reflexivity.
    + assert (nonregistry s = false) as ->.
      { unfold npm_value_known in Hk. apply orb_false_iff in Hk as [Hk _]. change npm_catalog_prefix with p_catalog in Ecat. rewrite Ecat in Hk.
        cbn [negb] in Hk. now rewrite andb_true_r in Hk. }
      destruct (string_node_end content vn s Evs Hdv) as [e [He _]].
      unfold quoted_pkg. rewrite He. cbn [bind option_map].
      change p_npm with npm_alias_prefix.
      destruct (strip_prefix npm_alias_prefix s) as [rest|] eqn:Ea.
      * rewrite (alias_agrees s Hk rest Ea). destruct (split_alias rest) as [nm vr]. eexists. split; reflexivity.
      * unfold parse_npm_alias. rewrite Ea. eexists. split; reflexivity.
  - assert (match v with JStr s => npm_entry_decl k s | _ => [] end = []) as ->.
    { destruct v; try reflexivity. exfalso. now apply (Hs2 eq_refl s). }
    eexists. split; reflexivity.
Qed.

(* the children of an object node against its member list *)
Lemma members_walk content (walk1 : node -> option (list pkg)) (decl1 : bytes * json -> list (bytes * bytes)) (ok : bytes * json -> Prop) :
  (forall c k v, denote_node content c = DPair k v -> plain_strings content c = true -> ok (k, v) ->
     exists pkgs, walk1 c = Some pkgs /\ map nv pkgs = decl1 (k, v)) ->
  (forall c, kind_is k_pair c = false -> walk1 c = Some []) ->
  forall ch l, pairs_of (kids_of content ch) = Some l -> forallb (plain_strings content) ch = true -> Forall ok l ->
  exists pkgs, concat_opt walk1 ch = Some pkgs /\ map nv pkgs = flat_map decl1 l.
Proof.
  intros Hpair Hother. induction ch as [|c t IH]; intros l Hl Hp Hok.
  - cbn in Hl. injection Hl as <-. exists []. split; reflexivity.
  - cbn [kids_of map pairs_of fold_right snd] in Hl. cbn [forallb] in Hp. apply andb_true_iff in Hp as [Hpc Hpt].
    fold (kids_of content t) in Hl. fold (pairs_of (kids_of content t)) in Hl.
    destruct (denote_node content c) as [| k v | | |] eqn:Ed; try discriminate.
    + destruct (pairs_of (kids_of content t)) as [l'|] eqn:El; [|discriminate]. injection Hl as <-.
      inversion Hok as [|? ? Hok1 Hok2]; subst.
      destruct (Hpair c k v Ed Hpc Hok1) as [p1 [Hw1 Hm1]].
      destruct (IH l' eq_refl Hpt Hok2) as [p2 [Hw2 Hm2]].
      cbn [concat_opt]. rewrite Hw1, Hw2. eexists. split; [reflexivity|].
      cbn [flat_map]. now rewrite map_app, Hm1, Hm2.
    + destruct (pairs_of (kids_of content t)) as [l'|] eqn:El; [|discriminate]. injection Hl as Hl. subst l'.
      destruct (IH l eq_refl Hpt Hok) as [p2 [Hw2 Hm2]].
      cbn [concat_opt]. rewrite (Hother c (dtok_not_pair _ _ Ed)), Hw2. eexists. split; [reflexivity|exact Hm2].
Qed.

Definition entry_ok (f : bytes -> bool) (m : bytes * json) : Prop := match snd m with JStr s => f s = false | _ => True end.
Lemma any_entry_false f deps : any_entry f (JObj deps) = false -> Forall (entry_ok f) deps.
Proof.
  cbn. intros H. apply Forall_forall. intros m Hin. unfold entry_ok.
  destruct (snd m) eqn:Es; try exact I.
  destruct (f s) eqn:Ef; [|reflexivity]. exfalso.
  assert (existsb (fun m0 => match snd m0 with JStr s0 => f s0 | _ => false end) deps = true) as Ht; [|congruence].
  apply existsb_exists. exists m. split; [exact Hin|]. now rewrite Es.
Qed.

(* ---------- one section of package.json ---------- *)
Lemma npm_section_exact content c k v :
  denote_node content c = DPair k v -> plain_strings content c = true ->
  (existsb (beq k) npm_sections && any_entry npm_value_known v = false) ->
  exists pkgs, npm_section content c = Some pkgs /\
    map nv pkgs = if existsb (beq k) npm_sections then entries_decl npm_entry_decl v else [].
Proof.
  intros Hd Hp Hk. pose proof (dpair_is_pair _ _ _ _ Hd) as Hpair.
  destruct (pair_inv content c k v Hpair Hd) as [kn [vn [Hck [Hcv [Hks [Hdk Hdv]]]]]].
  unfold npm_section. rewrite Hpair, Hck. cbn [negb].
  pose proof (plain_child _ _ _ Hp (child_by_field_in _ _ _ Hck)) as Hpk.
  pose proof (plain_child _ _ _ Hp (child_by_field_in _ _ _ Hcv)) as Hpv.
  rewrite (string_value_denote content kn k Hks Hdk Hpk). cbn [bind]. rewrite fields_are_sections.
  destruct (existsb (beq k) npm_sections) eqn:Esec; cbn [negb]; [|eexists; split; reflexivity].
  rewrite Hcv. destruct (dval_kind content vn v Hdv) as [Ho1 [Ho2 _]].
  destruct (kind_is k_object vn) eqn:Eo.
  - destruct (Ho1 eq_refl) as [deps [-> Hdeps]]. cbn [andb] in Hk.
    destruct vn as [kk ff sb eb rr cc mm ch]. cbn [n_children] in *.
    rewrite plain_strings_eq in Hpv. apply andb_true_iff in Hpv as [_ Hpv].
    apply (members_walk content (npm_entry content) (fun m => match snd m with JStr s => npm_entry_decl (fst m) s | _ => [] end) (entry_ok npm_value_known)); try assumption.
    + intros c0 k0 v0 Hd0 Hp0 Hok0. now apply npm_entry_exact.
    + intros c0 Hc0. unfold npm_entry. now rewrite Hc0.
    + now apply any_entry_false.
  - assert (entries_decl npm_entry_decl v = []) as ->.
    { destruct v; try reflexivity. exfalso. now apply (Ho2 eq_refl l). }
    eexists. split; reflexivity.
Qed.

(* ---------- the document ---------- *)
Lemma ddoc_inv content n j : denote_node content n = DDoc j -> vals_of (kids_of content (n_children n)) = Some [j].
Proof.
  destruct n as [k f sb eb r cc m ch]. rewrite denote_node_eq. cbv zeta. cbn [n_children]. destruct m; [discriminate|]. intros H.
  kind_cases k; try discriminate H;
    try (destruct (vals_of (kids_of content ch)) as [[|j1 [|? ?]]|] eqn:Ev; try discriminate H; [injection H as <-; reflexivity]);
    exfalso; repeat (match goal with H : context [match ?x with _ => _ end] |- _ => destruct x; try discriminate H end).
Qed.
Lemma doc_inv content root j : denote content root = Some j -> plain_doc content root = true ->
  exists c rest, n_children root = c :: rest /\ denote_node content c = DVal j /\ plain_strings content c = true.
Proof.
  unfold denote, plain_doc. intros Hd Hp. apply andb_true_iff in Hp as [Hps Hfirst].
  destruct (denote_node content root) as [| | j'| |] eqn:Er; try discriminate. injection Hd as ->.
  apply ddoc_inv in Er.
  destruct root as [k f sb eb r cc m ch]. cbn [n_children] in *.
  destruct ch as [|c rest]; [discriminate|].
  destruct (denote_node content c) as [j0| | | |] eqn:Ec; try discriminate.
  exists c, rest. split; [reflexivity|]. split.
  - cbn [kids_of map vals_of fold_right snd] in Er. rewrite Ec in Er.
    fold (kids_of content rest) in Er. fold (vals_of (kids_of content rest)) in Er.
    destruct (vals_of (kids_of content rest)) as [[|? ?]|]; try discriminate. now injection Er as ->.
  - rewrite plain_strings_eq in Hps. apply andb_true_iff in Hps as [_ Hps]. cbn [forallb] in Hps. now apply andb_true_iff in Hps as [Hps _].
Qed.

Theorem package_json_exact content root j :
  denote content root = Some j -> plain_doc content root = true -> npm_known j = false ->
  exists pkgs, walk_package_json content root = Some pkgs /\ map nv pkgs = declared_package_json j.
Proof.
  intros Hd Hp Hk. destruct (doc_inv content root j Hd Hp) as [c [rest [Hch [Hdc Hpc]]]].
  unfold walk_package_json. rewrite Hch.
  destruct (dval_kind content c j Hdc) as [Ho1 [Ho2 _]].
  destruct (kind_is k_object c) eqn:Eo.
  - destruct (Ho1 eq_refl) as [l [-> Hl]]. cbn [declared_package_json].
    destruct c as [kk ff sb eb rr cc mm ch]. cbn [n_children] in *.
    rewrite plain_strings_eq in Hpc. apply andb_true_iff in Hpc as [_ Hpc].
    apply (members_walk content (npm_section content)
             (fun m => if existsb (beq (fst m)) npm_sections then entries_decl npm_entry_decl (snd m) else [])
             (fun m => existsb (beq (fst m)) npm_sections && any_entry npm_value_known (snd m) = false)); try assumption.
    + intros c0 k0 v0 Hd0 Hp0 Hok0. now apply npm_section_exact.
    + intros c0 Hc0. unfold npm_section. now rewrite Hc0.
    + unfold npm_known in Hk. apply Forall_forall. intros m Hin.
      destruct (existsb (beq (fst m)) npm_sections && any_entry npm_value_known (snd m)) eqn:E; [|reflexivity]. exfalso.
      assert (existsb (fun m0 => existsb (beq (fst m0)) npm_sections && any_entry npm_value_known (snd m0)) l = true) as Ht; [|congruence].
      apply existsb_exists. eauto.
  - assert (declared_package_json j = []) as ->.
    { destruct j; try reflexivity. exfalso. now apply (Ho2 eq_refl l). }
    eexists. split; reflexivity.
Qed.

(* ---------- deno.json ---------- *)
Lemma firstn_N_all (s : bytes) n : blen s <= n -> firstn_N n s = s.
Proof. intros H. unfold firstn_N, blen in *. apply firstn_all2. lia. Qed.

Lemma jsr_agrees v : jsr_value_known v = false ->
  match parse_jsr_specifier v with Some p => [p] | None => [] end = jsr_entry_decl [] v.
Proof.
  intros Hk. unfold parse_jsr_specifier, jsr_entry_decl, jsr_value_known in *. change jsr_prefix with p_jsr.
  destruct (strip_prefix p_jsr v) as [rest|]; [|reflexivity].
  unfold split_scoped. destruct (find_char 47 rest) as [slash|] eqn:Ef; [|reflexivity].
  set (after := skipn_N (slash + 1) rest) in *.
  assert (find_char 47 after = None) as ->.
  { destruct (find_char 47 after) as [p|] eqn:Ep; [|reflexivity]. exfalso.
    destruct (find_char_split _ _ _ Ep) as [Ha _]. rewrite Ha in Hk. rewrite existsb_app in Hk. cbn in Hk. now rewrite orb_true_r in Hk. }
  destruct (find_char 64 after) as [a|]; [reflexivity|].
  change latest_word with w_latest. f_equal. f_equal.
  symmetry. apply firstn_N_all.
  destruct (find_char_split _ _ _ Ef) as [Hr [_ Hlen]].
  rewrite Hr at 1. unfold blen. rewrite app_length. cbn [length]. fold after. unfold blen in Hlen. lia.
Qed.

Lemma deno_entry_exact content c k v :
  denote_node content c = DPair k v -> plain_strings content c = true ->
  match v with JStr s => jsr_value_known s = false | _ => True end ->
  exists pkgs, deno_entry content c = Some pkgs /\ map nv pkgs = match v with JStr s => jsr_entry_decl k s | _ => [] end.
Proof.
  intros Hd Hp Hk. pose proof (dpair_is_pair _ _ _ _ Hd) as Hpair.
  destruct (pair_inv content c k v Hpair Hd) as [kn [vn [Hck [Hcv [Hks [Hdk Hdv]]]]]].
  unfold deno_entry. rewrite Hpair, Hcv. cbn [negb].
  pose proof (plain_child _ _ _ Hp (child_by_field_in _ _ _ Hcv)) as Hpv.
  destruct (dval_kind content vn v Hdv) as [_ [_ [Hs1 Hs2]]].
  destruct (kind_is k_string vn) eqn:Evs; cbn [negb].
  - destruct (Hs1 eq_refl) as [s ->].
    rewrite (string_value_denote content vn s Evs Hdv Hpv). cbn [bind].
    assert (jsr_entry_decl k s = jsr_entry_decl [] s) as -> by reflexivity.
    rewrite <- (jsr_agrees s Hk).
    destruct (parse_jsr_specifier s) as [[nm vr]|]; [|eexists; split; reflexivity].
    destruct (string_node_end content vn s Evs Hdv) as [e [He _]].
    unfold quoted_pkg. rewrite He. cbn [bind option_map]. eexists. split; reflexivity.
  - assert (match v with JStr s => jsr_entry_decl k s | _ => [] end = []) as ->.
    { destruct v; try reflexivity. exfalso. now apply (Hs2 eq_refl s). }
    eexists. split; reflexivity.
Qed.

Lemma deno_section_exact content c k v :
  denote_node content c = DPair k v -> plain_strings content c = true ->
  (beq k w_imports && any_entry jsr_value_known v = false) ->
  exists pkgs, deno_section content c = Some pkgs /\ map nv pkgs = if beq k w_imports then entries_decl jsr_entry_decl v else [].
Proof.
  intros Hd Hp Hk. pose proof (dpair_is_pair _ _ _ _ Hd) as Hpair.
  destruct (pair_inv content c k v Hpair Hd) as [kn [vn [Hck [Hcv [Hks [Hdk Hdv]]]]]].
  unfold deno_section. rewrite Hpair, Hck. cbn [negb].
  pose proof (plain_child _ _ _ Hp (child_by_field_in _ _ _ Hck)) as Hpk.
  pose proof (plain_child _ _ _ Hp (child_by_field_in _ _ _ Hcv)) as Hpv.
  rewrite (string_value_denote content kn k Hks Hdk Hpk). cbn [bind]. change deno_imports_key with w_imports.
  destruct (beq k w_imports) eqn:Esec; cbn [negb]; [|eexists; split; reflexivity].
  rewrite Hcv. destruct (dval_kind content vn v Hdv) as [Ho1 [Ho2 _]].
  destruct (kind_is k_object vn) eqn:Eo.
  - destruct (Ho1 eq_refl) as [deps [-> Hdeps]]. cbn [andb] in Hk.
    destruct vn as [kk ff sb eb rr cc mm ch]. cbn [n_children] in *.
    rewrite plain_strings_eq in Hpv. apply andb_true_iff in Hpv as [_ Hpv].
    apply (members_walk content (deno_entry content) (fun m => match snd m with JStr s => jsr_entry_decl (fst m) s | _ => [] end) (entry_ok jsr_value_known)); try assumption.
    + intros c0 k0 v0 Hd0 Hp0 Hok0. now apply deno_entry_exact.
    + intros c0 Hc0. unfold deno_entry. now rewrite Hc0.
    + now apply any_entry_false.
  - assert (entries_decl jsr_entry_decl v = []) as ->.
    { destruct v; try reflexivity. exfalso. now apply (Ho2 eq_refl l). }
    eexists. split; reflexivity.
Qed.

Theorem deno_json_exact content root j :
  denote content root = Some j -> plain_doc content root = true -> deno_known j = false ->
  exists pkgs, walk_deno_json content root = Some pkgs /\ map nv pkgs = declared_deno_json j.
Proof.
  intros Hd Hp Hk. destruct (doc_inv content root j Hd Hp) as [c [rest [Hch [Hdc Hpc]]]].
  unfold walk_deno_json. rewrite Hch.
  destruct (dval_kind content c j Hdc) as [Ho1 [Ho2 _]].
  destruct (kind_is k_object c) eqn:Eo.
  - destruct (Ho1 eq_refl) as [l [-> Hl]]. cbn [declared_deno_json].
    destruct c as [kk ff sb eb rr cc mm ch]. cbn [n_children] in *.
    rewrite plain_strings_eq in Hpc. apply andb_true_iff in Hpc as [_ Hpc].
    apply (members_walk content (deno_section content)
             (fun m => if beq (fst m) w_imports then entries_decl jsr_entry_decl (snd m) else [])
             (fun m => beq (fst m) w_imports && any_entry jsr_value_known (snd m) = false)); try assumption.
    + intros c0 k0 v0 Hd0 Hp0 Hok0. now apply deno_section_exact.
    + intros c0 Hc0. unfold deno_section. now rewrite Hc0.
    + unfold deno_known in Hk. apply Forall_forall. intros m Hin.
      destruct (beq (fst m) w_imports && any_entry jsr_value_known (snd m)) eqn:E; [|reflexivity]. exfalso.
      assert (existsb (fun m0 => beq (fst m0) w_imports && any_entry jsr_value_known (snd m0)) l = true) as Ht; [|congruence].
      apply existsb_exists. eauto.
  - assert (declared_deno_json j = []) as ->.
    { destruct j; try reflexivity. exfalso. now apply (Ho2 eq_refl l). }
    eexists. split; reflexivity.
Qed.

(* the reported range of every entry is the inside of the value's string token *)
Theorem json_entry_range content c k v pkgs :
  denote_node content c = DPair k v -> plain_strings content c = true ->
  (npm_entry content c = Some pkgs \/ deno_entry content c = Some pkgs) ->
  forall p, In p pkgs -> exists vn, child_by_field k_value c = Some vn /\
    p_start p = n_sb vn + 1 /\ p_end p + 1 = n_eb vn /\ p_line p = n_row vn /\ p_col p = n_col vn + 1 /\ p_start p <= p_end p.
Proof.
  intros Hd Hp Hw p Hin. pose proof (dpair_is_pair _ _ _ _ Hd) as Hpair.
  destruct (pair_inv content c k v Hpair Hd) as [kn [vn [Hck [Hcv [Hks [Hdk Hdv]]]]]].
  exists vn. split; [exact Hcv|].
  assert (forall nm vr, quoted_pkg nm vr vn = Some p -> kind_is k_string vn = true ->
          p_start p = n_sb vn + 1 /\ p_end p + 1 = n_eb vn /\ p_line p = n_row vn /\ p_col p = n_col vn + 1 /\ p_start p <= p_end p) as Hq.
  { intros nm vr Hqp Hvs. destruct (dval_kind content vn v Hdv) as [_ [_ [Hs1 _]]]. destruct (Hs1 Hvs) as [s ->].
    unfold quoted_pkg, pred_N in Hqp. destruct (n_eb vn =? 0) eqn:E0; [discriminate|]. cbn in Hqp. injection Hqp as <-. cbn.
    apply N.eqb_neq in E0.
    (* the token is at least two bytes long *)
    destruct vn as [kk ff sb eb rr cc mm ch]. cbn [n_sb n_eb n_row n_col] in *.
    rewrite denote_node_eq in Hdv. cbv zeta in Hdv. destruct mm; [discriminate|]. unfold kind_is in Hvs. cbn [n_kind] in Hvs.
    apply beq_eq in Hvs. subst kk.
    change (existsb (beq k_string) punct || beq k_string kq_comment || beq k_string kq_string_content || beq k_string kq_escape) with false in Hdv.
    change (beq k_string kq_string) with true in Hdv. cbv iota in Hdv.
    destruct (slice content sb eb) as [text|] eqn:Es; [|discriminate].
    destruct (denote_string_text text) eqn:Et; [|discriminate].
    unfold denote_string_text, string_inner in Et. destruct text as [|q rest]; [discriminate|].
    destruct (q =? 34); [|discriminate]. destruct (rev rest) as [|q' ri] eqn:Er; [discriminate|].
    assert (rest <> []) as Hne by (intros ->; discriminate).
    apply slice_length in Es. unfold blen in Es. cbn [length] in Es. destruct rest; [congruence|]. cbn [length] in Es.
    repeat split; lia. }
  destruct Hw as [Hw|Hw].
  - unfold npm_entry in Hw. rewrite Hpair, Hck, Hcv in Hw. cbn [negb] in Hw.
    destruct (kind_is k_string vn) eqn:Evs; cbn [negb] in Hw; [|injection Hw as <-; destruct Hin].
    destruct (n_eb vn - n_sb vn <? 2); [injection Hw as <-; destruct Hin|].
    destruct (string_value content kn); [|discriminate]. cbn [bind] in Hw.
    destruct (string_value content vn) as [raw|]; [|discriminate]. cbn [bind] in Hw.
    destruct (starts_with npm_catalog_prefix raw); [injection Hw as <-; destruct Hin|].
    destruct (match parse_npm_alias raw with Some nv0 => nv0 | None => (b, raw) end) as [nm vr].
    destruct (quoted_pkg nm vr vn) as [q|] eqn:Eq; [|discriminate]. cbn in Hw. injection Hw as <-.
    destruct Hin as [<-|[]]. now apply (Hq nm vr).
  - unfold deno_entry in Hw. rewrite Hpair, Hcv in Hw. cbn [negb] in Hw.
    destruct (kind_is k_string vn) eqn:Evs; cbn [negb] in Hw; [|injection Hw as <-; destruct Hin].
    destruct (string_value content vn) as [raw|]; [|discriminate]. cbn [bind] in Hw.
    destruct (parse_jsr_specifier raw) as [[nm vr]|]; [|injection Hw as <-; destruct Hin].
    destruct (quoted_pkg nm vr vn) as [q|] eqn:Eq; [|discriminate]. cbn in Hw. injection Hw as <-.
    destruct Hin as [<-|[]]. now apply (Hq nm vr).
Qed.

(* ---------- C05, structural part: any document, any tree tree-sitter can produce ---------- *)
From VL Require Import Proofs.CstProofs.

Theorem package_json_structural content root pkgs :
  wf_cst content root = true -> string_nodes_ok content root = true ->
  walk_package_json content root = Some pkgs -> forall p, In p pkgs -> structural_ok content p.
Proof.
  intros Hwf Hs Hw p Hin. unfold walk_package_json in Hw.
  destruct (n_children root) as [|doc rest] eqn:Hch; [injection Hw as <-; destruct Hin|].
  destruct (kind_is k_object doc); [|injection Hw as <-; destruct Hin].
  assert (in_tree doc root) as Tdoc by (apply in_tree_kid; rewrite Hch; now left).
  destruct (concat_opt_in _ _ _ _ Hw Hin) as [c1 [r1 [Hc1 [Hf1 Hp1]]]].
  assert (in_tree c1 root) as T1 by (eapply in_tree_trans; [apply in_tree_kid; exact Hc1|exact Tdoc]).
  unfold npm_section in Hf1. destruct (kind_is k_pair c1); cbn [negb] in Hf1; [|injection Hf1 as <-; destruct Hp1].
  destruct (child_by_field k_key c1) as [kn|]; [|injection Hf1 as <-; destruct Hp1].
  destruct (string_value content kn) as [key|]; [|discriminate]. cbn [bind] in Hf1.
  destruct (existsb (beq key) npm_dependency_fields); cbn [negb] in Hf1; [|injection Hf1 as <-; destruct Hp1].
  destruct (child_by_field k_value c1) as [vn1|] eqn:Hv1; [|injection Hf1 as <-; destruct Hp1].
  destruct (kind_is k_object vn1); [|injection Hf1 as <-; destruct Hp1].
  assert (in_tree vn1 root) as Tv1 by (eapply in_tree_trans; [apply in_tree_kid; exact (child_by_field_in _ _ _ Hv1)|exact T1]).
  destruct (concat_opt_in _ _ _ _ Hf1 Hp1) as [c2 [r2 [Hc2 [Hf2 Hp2]]]].
  assert (in_tree c2 root) as T2 by (eapply in_tree_trans; [apply in_tree_kid; exact Hc2|exact Tv1]).
  unfold npm_entry in Hf2. destruct (kind_is k_pair c2); cbn [negb] in Hf2; [|injection Hf2 as <-; destruct Hp2].
  destruct (child_by_field k_key c2) as [kn2|]; [|injection Hf2 as <-; destruct Hp2].
  destruct (child_by_field k_value c2) as [vn2|] eqn:Hv2; [|injection Hf2 as <-; destruct Hp2].
  destruct (kind_is k_string vn2) eqn:Eks; cbn [negb] in Hf2; [|injection Hf2 as <-; destruct Hp2].
  destruct (n_eb vn2 - n_sb vn2 <? 2); [injection Hf2 as <-; destruct Hp2|].
  destruct (string_value content kn2) as [kname|]; [|discriminate]. cbn [bind] in Hf2.
  destruct (string_value content vn2) as [raw|]; [|discriminate]. cbn [bind] in Hf2.
  destruct (starts_with npm_catalog_prefix raw); [injection Hf2 as <-; destruct Hp2|].
  destruct (match parse_npm_alias raw with Some nv0 => nv0 | None => (kname, raw) end) as [nm vr].
  destruct (quoted_pkg nm vr vn2) as [q|] eqn:Eq; [|discriminate]. cbn in Hf2. injection Hf2 as <-.
  destruct Hp2 as [<-|[]].
  assert (in_tree vn2 root) as Tv2 by (eapply in_tree_trans; [apply in_tree_kid; exact (child_by_field_in _ _ _ Hv2)|exact T2]).
  eapply quoted_pkg_structural; eassumption.
Qed.

Theorem deno_json_structural content root pkgs :
  wf_cst content root = true -> string_nodes_ok content root = true ->
  walk_deno_json content root = Some pkgs -> forall p, In p pkgs -> structural_ok content p.
Proof.
  intros Hwf Hs Hw p Hin. unfold walk_deno_json in Hw.
  destruct (n_children root) as [|doc rest] eqn:Hch; [injection Hw as <-; destruct Hin|].
  destruct (kind_is k_object doc); [|injection Hw as <-; destruct Hin].
  assert (in_tree doc root) as Tdoc by (apply in_tree_kid; rewrite Hch; now left).
  destruct (concat_opt_in _ _ _ _ Hw Hin) as [c1 [r1 [Hc1 [Hf1 Hp1]]]].
  assert (in_tree c1 root) as T1 by (eapply in_tree_trans; [apply in_tree_kid; exact Hc1|exact Tdoc]).
  unfold deno_section in Hf1. destruct (kind_is k_pair c1); cbn [negb] in Hf1; [|injection Hf1 as <-; destruct Hp1].
  destruct (child_by_field k_key c1) as [kn|]; [|injection Hf1 as <-; destruct Hp1].
  destruct (string_value content kn) as [key|]; [|discriminate]. cbn [bind] in Hf1.
  destruct (beq key deno_imports_key); cbn [negb] in Hf1; [|injection Hf1 as <-; destruct Hp1].
  destruct (child_by_field k_value c1) as [vn1|] eqn:Hv1; [|injection Hf1 as <-; destruct Hp1].
  destruct (kind_is k_object vn1); [|injection Hf1 as <-; destruct Hp1].
  assert (in_tree vn1 root) as Tv1 by (eapply in_tree_trans; [apply in_tree_kid; exact (child_by_field_in _ _ _ Hv1)|exact T1]).
  destruct (concat_opt_in _ _ _ _ Hf1 Hp1) as [c2 [r2 [Hc2 [Hf2 Hp2]]]].
  assert (in_tree c2 root) as T2 by (eapply in_tree_trans; [apply in_tree_kid; exact Hc2|exact Tv1]).
  unfold deno_entry in Hf2. destruct (kind_is k_pair c2); cbn [negb] in Hf2; [|injection Hf2 as <-; destruct Hp2].
  destruct (child_by_field k_value c2) as [vn2|] eqn:Hv2; [|injection Hf2 as <-; destruct Hp2].
  destruct (kind_is k_string vn2) eqn:Eks; cbn [negb] in Hf2; [|injection Hf2 as <-; destruct Hp2].
  destruct (string_value content vn2) as [raw|]; [|discriminate]. cbn [bind] in Hf2.
  destruct (parse_jsr_specifier raw) as [[nm vr]|]; [|injection Hf2 as <-; destruct Hp2].
  destruct (quoted_pkg nm vr vn2) as [q|] eqn:Eq; [|discriminate]. cbn in Hf2. injection Hf2 as <-.
  destruct Hp2 as [<-|[]].
  assert (in_tree vn2 root) as Tv2 by (eapply in_tree_trans; [apply in_tree_kid; exact (child_by_field_in _ _ _ Hv2)|exact T2]).
  eapply quoted_pkg_structural; eassumption.
Qed.
