From VL Require Import Lib.Bytes Model.SemverUtil Model.PypiMatcher.

Section Pypi.
  Variable specs_ok : bytes -> bool.
  Variable ver_ok : bytes -> bool.
  Variable contains : bytes -> bytes -> bool.
  Variable ver_le : bytes -> bytes -> bool.

  Theorem pypi_exists_spec S vs :
    version_exists specs_ok ver_ok contains S vs = true <->
    (S = [] /\ vs <> []) \/
    (S <> [] /\ specs_ok S = true /\ exists v, In v vs /\ ver_ok v = true /\ contains S v = true).
  Proof.
    unfold version_exists. destruct S as [|c S].
    - destruct vs; split; intro H; try discriminate.
      + destruct H as [[_ H] | [H _]]; congruence.
      + left; split; [reflexivity | discriminate].
      + reflexivity.
    - destruct (specs_ok (c :: S)).
      + rewrite existsb_exists. split.
        * intros [v [Hin Hb]]. apply andb_true_iff in Hb as [H1 H2]. right. split; [discriminate|]. split; [reflexivity|]. eauto.
        * intros [[H _] | [_ [_ [v [Hin [H1 H2]]]]]]; [discriminate|]. exists v. split; [exact Hin|]. rewrite H1, H2. reflexivity.
      + split; [discriminate|]. intros [[H _] | [_ [H _]]]; discriminate.
  Qed.

  Theorem pypi_same_relation S L :
    S <> [] ->
    (compare_to_latest specs_ok ver_ok contains ver_le S L = Latest <->
     version_exists specs_ok ver_ok contains S [L] = true).
  Proof.
    intro Hne. unfold compare_to_latest, version_exists. destruct S as [|c S]; [contradiction|].
    cbn [existsb]. rewrite orb_false_r.
    destruct (ver_ok L); cbn [negb andb].
    - destruct (specs_ok (c :: S)); cbn [negb].
      + destruct (contains (c :: S) L); [tauto|].
        destruct (ver_ok _); [destruct (ver_le _ L)|]; split; discriminate.
      + split; discriminate.
    - destruct (specs_ok (c :: S)); split; discriminate.
  Qed.

  Theorem pypi_compare_invalid S L :
    compare_to_latest specs_ok ver_ok contains ver_le S L = Invalid <->
    S <> [] /\ (ver_ok L = false \/ specs_ok S = false).
  Proof.
    unfold compare_to_latest. destruct S as [|c S].
    - split; [discriminate | intros [H _]; contradiction].
    - destruct (ver_ok L); cbn [negb].
      + destruct (specs_ok (c :: S)); cbn [negb].
        * destruct (contains (c :: S) L); [split; [discriminate | intros [_ [H|H]]; discriminate]|].
          destruct (ver_ok _); [destruct (ver_le _ L)|]; split; try discriminate; intros [_ [H|H]]; discriminate.
        * split; [intros _; split; [discriminate | right; reflexivity] | reflexivity].
      + split; [intros _; split; [discriminate | left; reflexivity] | reflexivity].
  Qed.
End Pypi.
