From VL Require Import Lib.Bytes Model.DataDir.

Definition plain (p : bytes) : Prop := p <> [] /\ ends_with [47] p = false.

Lemma join_plain base rel c r : plain base -> rel = c :: r -> c <> 47 -> path_join base rel = base ++ 47 :: rel.
Proof.
  intros [Hne He] -> Hc. unfold path_join.
  destruct c as [|p]; [destruct base; [contradiction | rewrite He; reflexivity]|].
  destruct (N.eqb_spec (N.pos p) 47) as [E|E]; [contradiction|].
  assert (Hm : match N.pos p with 47 => true | _ => false end = false).
  { destruct p as [p|p|]; try reflexivity; repeat (destruct p as [p|p|]; try reflexivity). exfalso. apply E. reflexivity. }
  destruct base as [|b base]; [contradiction|].
  destruct p as [p|p|]; try (rewrite He; reflexivity);
    repeat (destruct p as [p|p|]; try (rewrite He; reflexivity)). discriminate Hm.
Qed.

(* the documented three-way rule *)
Theorem data_dir_rule :
  (forall x home, plain x -> data_dir_with_env (Some x) home = x ++ 47 :: s_version_lsp) /\
  (forall h, plain h -> data_dir_with_env None (Some h) = h ++ 47 :: s_local_share ++ 47 :: s_version_lsp) /\
  data_dir_with_env None None = [46; 47] ++ s_version_lsp.
Proof.
  split; [|split].
  - intros x home Hx. unfold data_dir_with_env. eapply join_plain; [exact Hx | reflexivity | discriminate].
  - intros h Hh. unfold data_dir_with_env.
    rewrite (join_plain h s_local_share 46 _ Hh eq_refl) by discriminate.
    assert (Hp : plain (h ++ 47 :: s_local_share)).
    { split; [destruct h; discriminate|]. unfold ends_with. rewrite rev_app_distr. reflexivity. }
    rewrite (join_plain _ s_version_lsp 118 _ Hp eq_refl) by discriminate.
    rewrite <- app_assoc. reflexivity.
  - reflexivity.
Qed.

Theorem db_path_rule xdg home : plain (data_dir_with_env xdg home) ->
  db_path xdg home = data_dir_with_env xdg home ++ 47 :: s_versions_db.
Proof. intro H. unfold db_path. eapply join_plain; [exact H | reflexivity | discriminate]. Qed.
