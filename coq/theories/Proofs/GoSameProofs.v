(* C02 for go.mod: "latest is inside" and "some version is inside" are the same relation.  For a requirement that is not
   a pseudo-version, compare_go_versions says Latest exactly when the cached latest is the version version_exists
   would accept (identity modulo the 'v' prefix and '+incompatible') - provided the text is a version at all.
   The step from "equal as parsed versions" to "equal texts" is ParseShow.parse_injective. *)
From Coq Require Import Arith Bool ZArith Lia.
From VL Require Import Lib.Bytes Lib.SemVer Model.SemverUtil Model.GoMatcher Spec.GoGha
  Proofs.SemVerOrder Proofs.GoGhaProofs Proofs.GoOrderProofs Proofs.ParseShow.

Lemma v_eq_eq a b : v_eq a b = true -> a = b.
Proof.
  unfold v_eq. intros H. repeat (apply andb_true_iff in H as [H ?]).
  destruct a, b; cbn in *. repeat match goal with E : (_ =? _) = true |- _ => apply N.eqb_eq in E | E : beq _ _ = true |- _ => apply beq_eq in E end.
  congruence.
Qed.
Lemma vcmp_eq a b : vcmp a b = Eq -> a = b.
Proof. intros H. apply v_eq_eq. now apply vcmp_eq_iff. Qed.
Lemma vcmp_refl a : vcmp a a = Eq.
Proof. apply vcmp_eq_iff. unfold v_eq. now rewrite !N.eqb_refl, !beq_refl. Qed.

(* what parse_go_version does with a text that is_pseudo_version rejects: it is handed to the SemVer parser whole *)
Lemma parse_go_regular s : is_pseudo_version s = false ->
  parse_go_version s = match parse (normalize_go_version s) with Some v => Some (v, None) | None => None end.
Proof.
  unfold is_pseudo_version, parse_go_version. set (n := normalize_go_version s).
  destruct (split_once 45 n) as [[base rest]|] eqn:Es; [|reflexivity].
  apply go_split_once in Es as [_ En]. change (base ++ [45] ++ rest) with (base ++ 45 :: rest). rewrite <- En.
  destruct (split_char 45 rest) as [|ts [|x l]]; try reflexivity.
  intros H. apply orb_false_iff in H as [H _]. now rewrite H.
Qed.

Theorem go_latest_iff_same s l :
  is_pseudo_version s = false ->
  (GoMatcher.compare_to_latest s l = Latest <->
   parse (normalize_go_version s) <> None /\ GoMatcher.version_exists s [l] = true).
Proof.
  intros Hs. unfold GoMatcher.compare_to_latest, GoMatcher.version_exists. rewrite Hs, (parse_go_regular s Hs).
  cbn [existsb]. rewrite orb_false_r.
  destruct (parse (normalize_go_version s)) as [sv|] eqn:Ps.
  2:{ split; [discriminate|intros [H _]; contradiction]. }
  destruct (beq (normalize_go_version l) (normalize_go_version s)) eqn:Eb.
  - apply beq_eq in Eb.
    assert (is_pseudo_version l = false) as Hl by (unfold is_pseudo_version in *; now rewrite Eb).
    rewrite (parse_go_regular l Hl), Eb, Ps, vcmp_refl. split; [intros _; split; [discriminate|reflexivity]|reflexivity].
  - split; [|intros [_ H]; discriminate]. intros H. exfalso.
    destruct (parse_go_version l) as [[lv lt]|] eqn:Pl; [|discriminate].
    destruct (vcmp sv lv) eqn:Ec; try discriminate. apply vcmp_eq in Ec. subst lv.
    destruct lt as [ts|]; [discriminate|].
    (* the latest was read as a regular version with the same value: its text is the same text *)
    assert (parse (normalize_go_version l) = Some sv) as Pl'.
    { unfold parse_go_version in Pl. set (n := normalize_go_version l) in *.
      destruct (split_once 45 n) as [[base rest]|] eqn:Es.
      - apply go_split_once in Es as [_ En]. change (base ++ [45] ++ rest) with (base ++ 45 :: rest) in Pl. rewrite <- En in Pl.
        destruct (split_char 45 rest) as [|ts [|x r]].
        + destruct (parse n); [injection Pl as ->; reflexivity|discriminate].
        + destruct (parse n); [injection Pl as ->; reflexivity|discriminate].
        + destruct ((blen ts =? 14) && forallb is_digit ts).
          * destruct (parse base); [injection Pl as _ Pl|]; discriminate.
          * destruct (parse n); [injection Pl as ->; reflexivity|discriminate].
      - destruct (parse n); [injection Pl as ->; reflexivity|discriminate]. }
    rewrite (parse_injective _ _ _ Pl' Ps), beq_refl in Eb. discriminate.
Qed.
