(* Facts about concrete syntax trees: what [wf_cst] gives for every node of the tree, and how results
   of a walk trace back to the children they came from. *)
From Coq Require Import ZArith Lia.
From VL Require Import Lib.Bytes Lib.Text Lib.Cst Model.Walks.

(* m occurs in the tree n *)
Fixpoint in_tree (m n : node) {struct n} : Prop :=
  m = n \/ (let 'Node _ _ _ _ _ _ _ ch := n in
            (fix any (l : list node) : Prop := match l with [] => False | c :: t => in_tree m c \/ any t end) ch).
Lemma in_tree_refl n : in_tree n n.
Proof. destruct n. now left. Qed.
Lemma in_tree_child m c n : In c (n_children n) -> in_tree m c -> in_tree m n.
Proof.
  destruct n as [k f sb eb r cc mm ch]. cbn [n_children]. intros Hin Hm. right.
  induction ch as [|x t IH]; [destruct Hin|]. destruct Hin as [->|Hin]; [now left|right; now apply IH].
Qed.

Definition node_ok (content : bytes) (n : node) : Prop :=
  n_sb n <= n_eb n /\ n_eb n <= blen content /\ pos_of content (n_sb n) = (n_row n, n_col n).

Lemma wf_node_ok content lo hi n : wf_node content lo hi n = true -> hi <= blen content -> node_ok content n /\ lo <= n_sb n /\ n_eb n <= hi.
Proof.
  destruct n as [k f sb eb r c m ch]. cbn [wf_node]. intros H Hhi.
  repeat (apply andb_true_iff in H as [H ?]).
  unfold node_ok. cbn [n_sb n_eb n_row n_col].
  match goal with Hp : (let '(_, _) := pos_of content sb in _) = true |- _ => destruct (pos_of content sb) as [r0 c0]; apply andb_true_iff in Hp as [Hr Hc]; apply N.eqb_eq in Hr, Hc; subst end.
  repeat match goal with Hx : (_ <=? _) = true |- _ => apply N.leb_le in Hx end.
  repeat split; lia.
Qed.

Section NodeInd.
  Variable P : node -> Prop.
  Hypothesis H : forall k f sb eb r c m ch, Forall P ch -> P (Node k f sb eb r c m ch).
  Fixpoint node_ind' (n : node) : P n :=
    match n with
    | Node k f sb eb r c m ch =>
        H k f sb eb r c m ch ((fix go (l : list node) : Forall P l :=
                                 match l with [] => Forall_nil P | x :: t => Forall_cons x (node_ind' x) (go t) end) ch)
    end.
End NodeInd.

Lemma in_tree_trans a b' : forall c, in_tree a b' -> in_tree b' c -> in_tree a c.
Proof.
  induction c as [k f sb eb r cc mm ch IHch] using node_ind'. intros Hab Hbc.
  destruct Hbc as [->|Hbc]; [exact Hab|]. right.
  induction ch as [|x t IHt]; [destruct Hbc|]. inversion IHch as [|? ? Hpx Hpt]; subst.
  destruct Hbc as [Hbc|Hbc]; [left; now apply Hpx|right; now apply IHt].
Qed.
Lemma in_tree_kid c n : In c (n_children n) -> in_tree c n.
Proof. intros H. apply (in_tree_child c c n H (in_tree_refl c)). Qed.

Lemma wf_in_tree content m : forall n lo hi, wf_node content lo hi n = true -> hi <= blen content -> in_tree m n -> node_ok content m.
Proof.
  induction n as [k f sb eb r c mm ch IHch] using node_ind'. intros lo hi Hwf Hhi Hin.
  destruct Hin as [->|Hin].
  - exact (proj1 (wf_node_ok _ _ _ _ Hwf Hhi)).
  - pose proof (wf_node_ok _ _ _ _ Hwf Hhi) as [_ [_ Heb]]. cbn [n_eb] in Heb.
    cbn [wf_node] in Hwf. apply andb_true_iff in Hwf as [_ Hch].
    revert Hch Hin. generalize sb at 1. induction ch as [|x t IHt]; intros lo' Hch Hin; [destruct Hin|].
    apply andb_true_iff in Hch as [Hx Ht]. inversion IHch as [|? ? Hpx Hpt]; subst. destruct Hin as [Hin|Hin].
    + apply (Hpx lo' eb Hx ltac:(lia) Hin).
    + apply (IHt Hpt (n_eb x) Ht Hin).
Qed.
Lemma wf_cst_in content root m : wf_cst content root = true -> in_tree m root -> node_ok content m.
Proof. intros H. apply (wf_in_tree content m root 0 (blen content) H). lia. Qed.

(* positions *)
Lemma pos_of_aux_step s : forall off row col r c x,
  pos_of_aux s off row col = (r, c) -> nth_error s off = Some x -> x <> 10 -> pos_of_aux s (S off) row col = (r, c + 1).
Proof.
  induction s as [|y t IH]; intros off row col r c x Hp Hn Hx.
  - destruct off; discriminate.
  - destruct off as [|k].
    + cbn in Hn. injection Hn as ->. cbn in Hp. injection Hp as <- <-. cbn.
      apply N.eqb_neq in Hx. rewrite Hx. destruct t; reflexivity.
    + cbn [nth_error] in Hn. cbn [pos_of_aux] in Hp |- *. destruct (y =? 10); eapply IH; eassumption.
Qed.
Lemma pos_of_succ s off r c x : pos_of s off = (r, c) -> nth_error s (N.to_nat off) = Some x -> x <> 10 -> pos_of s (off + 1) = (r, c + 1).
Proof.
  unfold pos_of. intros Hp Hn Hx. replace (N.to_nat (off + 1)) with (S (N.to_nat off)) by lia. eapply pos_of_aux_step; eassumption.
Qed.

(* where the results of a walk over children come from *)
Lemma concat_opt_in {A B} (f : A -> option (list B)) l r x :
  concat_opt f l = Some r -> In x r -> exists a ra, In a l /\ f a = Some ra /\ In x ra.
Proof.
  revert r. induction l as [|a t IH]; intros r H Hin.
  - injection H as <-. destruct Hin.
  - cbn [concat_opt] in H. destruct (f a) as [ra|] eqn:Ea; [|discriminate]. destruct (concat_opt f t) as [rt|] eqn:Et; [|discriminate].
    injection H as <-. apply in_app_or in Hin as [Hin|Hin].
    + exists a, ra. repeat split; [now left|assumption|assumption].
    + destruct (IH rt eq_refl Hin) as [a' [ra' [H1 [H2 H3]]]]. exists a', ra'. repeat split; [now right|assumption|assumption].
Qed.

(* the structural part of C05 for one reported dependency *)
Definition structural_ok (content : bytes) (p : pkg) : Prop :=
  p_start p <= p_end p /\ p_end p <= blen content /\ pos_of content (p_start p) = (p_line p, p_col p).

Lemma string_nodes_ok_in content m : forall n, string_nodes_ok content n = true -> in_tree m n -> kind_is k_string m = true ->
  n_sb m + 2 <= n_eb m /\ exists x, nth_error content (N.to_nat (n_sb m)) = Some x /\ x <> 10.
Proof.
  induction n as [k f sb eb r c mm ch IHch] using node_ind'. intros Hok Hin Hk.
  cbn [string_nodes_ok] in Hok. apply andb_true_iff in Hok as [Hself Hch].
  destruct Hin as [->|Hin].
  - unfold kind_is in Hk. cbn [n_kind n_sb n_eb] in *. change k_string with [115;116;114;105;110;103] in Hk. rewrite Hk in Hself.
    apply andb_true_iff in Hself as [H1 H2]. apply N.leb_le in H1. split; [exact H1|].
    destruct (nth_error content (N.to_nat sb)) as [x|]; [|discriminate]. exists x. split; [reflexivity|].
    apply negb_true_iff, N.eqb_neq in H2. exact H2.
  - clear Hself. induction ch as [|x t IHt]; [destruct Hin|].
    apply andb_true_iff in Hch as [Hx Ht]. inversion IHch as [|? ? Hpx Hpt]; subst.
    destruct Hin as [Hin|Hin]; [now apply Hpx|now apply IHt].
Qed.

(* a dependency reported inside the quotes of a string token is structurally sound *)
Lemma quoted_pkg_structural content root name version vn p :
  wf_cst content root = true -> string_nodes_ok content root = true -> in_tree vn root -> kind_is k_string vn = true ->
  quoted_pkg name version vn = Some p -> structural_ok content p.
Proof.
  intros Hwf Hs Hin Hk Hq.
  destruct (wf_cst_in content root vn Hwf Hin) as [H1 [H2 H3]].
  destruct (string_nodes_ok_in content vn root Hs Hin Hk) as [H4 [x [Hx Hx10]]].
  unfold quoted_pkg, pred_N in Hq. destruct (n_eb vn =? 0) eqn:E0; [apply N.eqb_eq in E0; lia|].
  cbn in Hq. injection Hq as <-. unfold structural_ok. cbn.
  repeat split; try lia. eapply pos_of_succ; eassumption.
Qed.

(* ---------- the diagnostic range ---------- *)
From VL Require Import Model.DiagRange.
Lemma pos_of_aux_bound s : forall off row col r c, pos_of_aux s off row col = (r, c) -> r <= row + N.of_nat off /\ c <= col + N.of_nat off.
Proof.
  induction s as [|y t IH]; intros off row col r c H.
  - destruct off; cbn in H; injection H as <- <-; lia.
  - destruct off as [|k]; cbn [pos_of_aux] in H; [injection H as <- <-; lia|].
    destruct (y =? 10); apply IH in H; lia.
Qed.
Lemma diag_range_ok content p :
  structural_ok content p -> blen content < 4294967296 ->
  diag_range p = Some (p_line p, p_col p, p_line p, p_col p + (p_end p - p_start p))
  /\ p_col p <= p_col p + (p_end p - p_start p).
Proof.
  intros [H1 [H2 H3]] Hb. unfold diag_range.
  destruct (p_col p + p_end p <? p_start p) eqn:E; [apply N.ltb_lt in E; lia|].
  unfold pos_of in H3. apply pos_of_aux_bound in H3. rewrite N2Nat.id in H3.
  replace (p_col p + p_end p - p_start p) with (p_col p + (p_end p - p_start p)) by lia.
  unfold u32. rewrite !N.mod_small by lia. split; [reflexivity|lia].
Qed.
