(* C01 for go.mod: where a pseudo-version stands against a release.

   compare_go_versions does not hand a pseudo-version vX.Y.Z-<timestamp>-<commit> to the SemVer
   parser; it parses the base vX.Y.Z, keeps the timestamp aside and decides with its own table.
   The theorem below shows that against a release (no prerelease tag, no build metadata) this
   table is SemVer precedence of the full version text, whenever that text is a SemVer version at
   all: the pseudo-version is a prerelease of its base, so it is below the release with the same
   numbers.  (Before the repair fa880b6 the table said "newer" there.) *)
From Coq Require Import Arith Bool.
From VL Require Import Lib.Bytes Lib.SemVer Model.SemverUtil Model.GoMatcher.

(* ---------- split_once ---------- *)
Lemma go_split_once_aux c s acc :
  match split_once_aux c s acc with
  | None => True
  | Some (p, r) => exists p', p = rev acc ++ p' /\ existsb (N.eqb c) p' = false /\ s = p' ++ c :: r
  end.
Proof.
  revert acc. induction s as [|x t IH]; intros acc; cbn [split_once_aux]; [exact I|].
  destruct (x =? c) eqn:E.
  - apply N.eqb_eq in E. subst x. exists []. rewrite app_nil_r. repeat split.
  - specialize (IH (x :: acc)). destruct (split_once_aux c t (x :: acc)) as [[p r]|]; [|exact I].
    destruct IH as [p' [-> [Hn ->]]]. exists (x :: p'). cbn [rev existsb app]. rewrite <- app_assoc. cbn [app].
    repeat split. rewrite N.eqb_sym, E. exact Hn.
Qed.
Lemma go_split_once c s p r : split_once c s = Some (p, r) -> existsb (N.eqb c) p = false /\ s = p ++ c :: r.
Proof.
  unfold split_once. intros H. pose proof (go_split_once_aux c s []) as A. rewrite H in A.
  destruct A as [p' [-> [Hn ->]]]. cbn [rev app]. split; [exact Hn|reflexivity].
Qed.

(* ---------- the numeric identifiers of a version text followed by more text ---------- *)
Lemma num_loop_suffix s : forall v l x r, num_loop s v l = Some (x, r) -> exists d, s = d ++ r.
Proof.
  induction s as [|a s IH]; intros v l x r H; cbn [num_loop] in H.
  - destruct (Nat.eqb l 0); [discriminate|]. injection H as <- <-. exists []. reflexivity.
  - destruct (is_digit a).
    + destruct ((v =? 0) && negb (Nat.eqb l 0)); [discriminate|].
      destruct (v * 10 + (a - 48) <=? u64_max); [|discriminate].
      apply IH in H as [d ->]. exists (a :: d). reflexivity.
    + destruct (Nat.eqb l 0); [discriminate|]. injection H as <- <-. exists []. reflexivity.
Qed.
Lemma num_loop_app s t : forall v l x c r, num_loop s v l = Some (x, c :: r) -> num_loop (s ++ t) v l = Some (x, c :: r ++ t).
Proof.
  induction s as [|a s IH]; intros v l x c r H; cbn [num_loop app] in *.
  - destruct (Nat.eqb l 0); discriminate.
  - destruct (is_digit a).
    + destruct ((v =? 0) && negb (Nat.eqb l 0)); [discriminate|].
      destruct (v * 10 + (a - 48) <=? u64_max); [|discriminate]. now apply IH.
    + destruct (Nat.eqb l 0); [discriminate|]. injection H as <- <- <-. reflexivity.
Qed.
Lemma num_loop_end s c t : is_digit c = false -> forall v l x, num_loop s v l = Some (x, []) -> num_loop (s ++ c :: t) v l = Some (x, c :: t).
Proof.
  intros Hc. induction s as [|a s IH]; intros v l x H; cbn [num_loop app] in *.
  - rewrite Hc. destruct (Nat.eqb l 0); [discriminate|]. injection H as <-. reflexivity.
  - destruct (is_digit a).
    + destruct ((v =? 0) && negb (Nat.eqb l 0)); [discriminate|].
      destruct (v * 10 + (a - 48) <=? u64_max); [|discriminate]. now apply IH.
    + destruct (Nat.eqb l 0); discriminate.
Qed.

(* ---------- what follows the third number ---------- *)
Definition parse_tail (ma mi pa : N) (t5 : bytes) : option version :=
  match t5 with
  | [] => Some (ver_new ma mi pa)
  | _ =>
    let pre_res :=
      match t5 with
      | 45 :: t6 =>
          match identifier true t6 with
          | None => None
          | Some ([], _) => None
          | Some (p, t7) => Some (p, t7)
          end
      | _ => Some ([], t5)
      end in
    match pre_res with None => None | Some (p, t7) =>
    let build_res :=
      match t7 with
      | 43 :: t8 =>
          match identifier false t8 with
          | None => None
          | Some ([], _) => None
          | Some (b, t9) => Some (b, t9)
          end
      | _ => Some ([], t7)
      end in
    match build_res with None => None | Some (b, t9) =>
    match t9 with
    | [] => Some (mkV ma mi pa p b)
    | _ => None
    end end end
  end.

Lemma parse_eq text : parse text =
  match text with
  | [] => None
  | _ =>
  match numeric_identifier text with None => None | Some (ma, t1) =>
  match dot t1 with None => None | Some t2 =>
  match numeric_identifier t2 with None => None | Some (mi, t3) =>
  match dot t3 with None => None | Some t4 =>
  match numeric_identifier t4 with None => None | Some (pa, t5) => parse_tail ma mi pa t5
  end end end end end end.
Proof. reflexivity. Qed.

Lemma not45 {A} (c : N) (x y : A) : c <> 45 -> match c with 45 => x | _ => y end = y.
Proof.
  intros H. destruct c as [|p]; [reflexivity|].
  repeat (destruct p as [p|p|]; try reflexivity). exfalso. apply H. reflexivity.
Qed.
Lemma not43 {A} (c : N) (x y : A) : c <> 43 -> match c with 43 => x | _ => y end = y.
Proof.
  intros H. destruct c as [|p]; [reflexivity|].
  repeat (destruct p as [p|p|]; try reflexivity). exfalso. apply H. reflexivity.
Qed.

(* a tail that does not begin with '-' carries no prerelease tag, and is either empty or build metadata *)
Lemma parse_tail_no_dash ma mi pa c r v :
  c <> 45 -> parse_tail ma mi pa (c :: r) = Some v -> pre v = [] /\ build v <> [].
Proof.
  intros Hc H. unfold parse_tail in H. cbv beta iota zeta in H.
  match type of H with (match ?X with Some _ => _ | None => _ end = _) => assert (E : X = Some ([], c :: r)) end.
  { destruct c as [|p]; [reflexivity|].
    repeat (destruct p as [p|p|]; try reflexivity). exfalso. apply Hc. reflexivity. }
  rewrite E in H. clear E. cbv beta iota in H.
  destruct (N.eq_dec c 43) as [->|H43].
  - cbv beta iota in H. destruct (identifier false r) as [[b t9]|]; [|discriminate]. destruct b as [|b0 b]; [discriminate|].
    destruct t9; [|discriminate]. injection H as <-. split; [reflexivity|discriminate].
  - match type of H with (match ?X with Some _ => _ | None => _ end = _) => assert (E : X = Some (@nil N, c :: r)) end.
    { destruct c as [|p]; [reflexivity|].
      repeat (destruct p as [p|p|]; try reflexivity). exfalso. apply H43. reflexivity. }
    rewrite E in H. discriminate.
Qed.

Lemma parse_tail_dash ma mi pa rest v :
  parse_tail ma mi pa (45 :: rest) = Some v ->
  major v = ma /\ minor v = mi /\ patch v = pa /\ pre v <> [].
Proof.
  unfold parse_tail. cbv zeta.
  destruct (identifier true rest) as [[p t7]|]; [|discriminate]. destruct p as [|p0 p]; [discriminate|].
  match goal with |- context [match ?bb with None => None | Some _ => _ end] => destruct bb as [[b t9]|] end; [|discriminate].
  destruct t9; [|discriminate]. intros [= <-]. repeat split. discriminate.
Qed.

(* ---------- a release text followed by "-..." ---------- *)
Lemma dot_inv t t' : dot t = Some t' -> t = 46 :: t'.
Proof. destruct t as [|c t0]; [discriminate|]. cbn. destruct c as [|p]; [discriminate|]. repeat (destruct p as [p|p|]; try discriminate). now intros [= ->]. Qed.

Lemma parse_pre_extension base rest b f :
  existsb (N.eqb 45) base = false -> parse base = Some b -> build b = [] ->
  parse (base ++ 45 :: rest) = Some f ->
  pre b = [] /\ major f = major b /\ minor f = minor b /\ patch f = patch b /\ pre f <> [].
Proof.
  intros Hno Hb Hbuild Hf. rewrite parse_eq in Hb, Hf.
  destruct base as [|c0 base0]; [discriminate|].
  change ((c0 :: base0) ++ 45 :: rest) with (c0 :: (base0 ++ 45 :: rest)) in Hf. cbv beta iota in Hb, Hf.
  change (c0 :: (base0 ++ 45 :: rest)) with ((c0 :: base0) ++ 45 :: rest) in Hf.
  set (s := c0 :: base0) in *. unfold numeric_identifier in *.
  destruct (num_loop s 0 0) as [[ma t1]|] eqn:N1; [|discriminate].
  destruct (dot t1) as [t2|] eqn:D1; [|discriminate]. apply dot_inv in D1. subst t1.
  destruct (num_loop t2 0 0) as [[mi t3]|] eqn:N2; [|discriminate].
  destruct (dot t3) as [t4|] eqn:D2; [|discriminate]. apply dot_inv in D2. subst t3.
  destruct (num_loop t4 0 0) as [[pa t5]|] eqn:N3; [|discriminate].
  rewrite (num_loop_app _ (45 :: rest) _ _ _ _ _ N1) in Hf. cbn [dot] in Hf.
  rewrite (num_loop_app _ (45 :: rest) _ _ _ _ _ N2) in Hf. cbn [dot] in Hf.
  destruct t5 as [|c t5'].
  - rewrite (num_loop_end _ 45 rest eq_refl _ _ _ N3) in Hf.
    cbn [parse_tail] in Hb. injection Hb as <-. cbn [pre major minor patch ver_new].
    apply parse_tail_dash in Hf as (-> & -> & -> & Hp). repeat split; exact Hp.
  - exfalso.
    destruct (num_loop_suffix _ _ _ _ _ N1) as [d1 E1]. destruct (num_loop_suffix _ _ _ _ _ N2) as [d2 E2].
    destruct (num_loop_suffix _ _ _ _ _ N3) as [d3 E3].
    assert (Hc : c <> 45).
    { intros ->. rewrite E1, E2, E3 in Hno. rewrite !existsb_app in Hno. cbn [existsb] in Hno. rewrite !existsb_app in Hno. cbn [existsb] in Hno.
      rewrite !existsb_app in Hno. cbn [existsb] in Hno. rewrite N.eqb_refl in Hno. rewrite !orb_true_r in Hno. discriminate. }
    destruct (parse_tail_no_dash _ _ _ _ _ _ Hc Hb) as [_ Hbb]. contradiction.
Qed.

(* ---------- the theorem ---------- *)
Definition go_release (v : version) : Prop := pre v = [] /\ build v = [].

Lemma prec_release_numbers a b :
  pre a = [] -> pre b = [] -> prec a b = then_cmp (N.compare (major a) (major b)) (then_cmp (N.compare (minor a) (minor b)) (N.compare (patch a) (patch b))).
Proof. intros Ha Hb. unfold prec, cmp_pre. rewrite Ha, Hb. destruct (major a ?= major b), (minor a ?= minor b), (patch a ?= patch b); reflexivity. Qed.

Lemma prec_pre_vs_release f l :
  pre f <> [] -> pre l = [] ->
  prec f l = match then_cmp (N.compare (major f) (major l)) (then_cmp (N.compare (minor f) (minor l)) (N.compare (patch f) (patch l))) with
             | Eq => Lt | c => c end.
Proof.
  intros Hf Hl. unfold prec, cmp_pre. rewrite Hl. destruct (pre f) as [|p0 p]; [contradiction|].
  destruct (major f ?= major l), (minor f ?= minor l), (patch f ?= patch l); reflexivity.
Qed.

Theorem go_pseudo_vs_release cur latest cv ts lv f :
  parse_go_version cur = Some (cv, Some ts) -> build cv = [] ->
  parse_go_version latest = Some (lv, None) -> go_release lv ->
  parse (normalize_go_version cur) = Some f ->
  GoMatcher.compare_to_latest cur latest = of_cmp (vcmp f lv).
Proof.
  intros Hc Hcb Hl [Hlp Hlb] Hf. unfold GoMatcher.compare_to_latest. rewrite Hc, Hl.
  unfold parse_go_version in Hc.
  destruct (split_once 45 (normalize_go_version cur)) as [[base rest]|] eqn:Es.
  2:{ destruct (parse (normalize_go_version cur)); [injection Hc as _ Hc|]; discriminate. }
  apply go_split_once in Es as [Hno En]. rewrite En in Hf.
  assert (Hb : parse base = Some cv).
  { destruct (split_char 45 rest) as [|x [|y l]].
    - destruct (parse (base ++ [45] ++ rest)); [injection Hc as _ Hc|]; discriminate.
    - destruct (parse (base ++ [45] ++ rest)); [injection Hc as _ Hc|]; discriminate.
    - destruct ((blen x =? 14) && forallb is_digit x).
      + destruct (parse base); [injection Hc as -> _; reflexivity|discriminate].
      + destruct (parse (base ++ [45] ++ rest)); [injection Hc as _ Hc|]; discriminate. }
  destruct (parse_pre_extension base rest cv f Hno Hb Hcb Hf) as (Hcp & Ema & Emi & Epa & Hfp).
  unfold vcmp. rewrite (prec_pre_vs_release f lv Hfp Hlp), (prec_release_numbers cv lv Hcp Hlp).
  rewrite Ema, Emi, Epa, Hcb, Hlb.
  change (cmp_build [] []) with Eq.
  destruct (major cv ?= major lv), (minor cv ?= minor lv), (patch cv ?= patch lv); reflexivity.
Qed.
