From VL Require Import Lib.Bytes Lib.Reg Gen.GenDetect Model.Detect Spec.UriClass.

(* ---------- the executable spec realises the declarative one ---------- *)

Lemma sepb_Sep c : sepb c = true <-> Sep c.
Proof.
  unfold sepb, Sep. rewrite orb_true_iff, !N.eqb_eq. tauto.
Qed.

Lemma occurs_spec p s bd :
  occurs_at_boundary p s bd = true <->
  (bd = true /\ starts_with p s = true) \/
  (exists a q b, s = a ++ q :: p ++ b /\ sepb q = true).
Proof.
  revert bd; induction s as [|c s IH]; intros bd; cbn [occurs_at_boundary].
  - rewrite orb_false_r, andb_true_iff. split.
    + intros H; left; exact H.
    + intros [H | [a [q [b [H _]]]]]; [exact H | destruct a; discriminate].
  - rewrite orb_true_iff, andb_true_iff, IH. split.
    + intros [H | [[Hc Hs] | [a [q [b [Hs Hq]]]]]].
      * left; exact H.
      * right. apply starts_with_spec in Hs as [t ->]. exists [], c, t. split; [reflexivity | exact Hc].
      * right. exists (c :: a), q, b. split; [cbn; rewrite Hs; reflexivity | exact Hq].
    + intros [H | [a [q [b [Hs Hq]]]]].
      * left; exact H.
      * right. destruct a as [|x a]; cbn in Hs; inversion Hs; subst.
        -- left. split; [exact Hq | apply starts_with_app].
        -- right. exists a, q, b. split; [reflexivity | exact Hq].
Qed.

Lemma occurs_true_spec p s :
  occurs_at_boundary p s true = true <->
  exists a b, s = a ++ p ++ b /\ (a = [] \/ exists a' q, a = a' ++ [q] /\ Sep q).
Proof.
  rewrite occurs_spec. split.
  - intros [[_ H] | [a [q [b [Hs Hq]]]]].
    + apply starts_with_spec in H as [t ->]. exists [], t. split; [reflexivity | left; reflexivity].
    + exists (a ++ [q]), b. split.
      * rewrite <- app_assoc. exact Hs.
      * right. exists a, q. split; [reflexivity | apply sepb_Sep; exact Hq].
  - intros [a [b [Hs [-> | [a' [q [-> Hq]]]]]]].
    + left. split; [reflexivity|]. rewrite Hs. cbn [app]. apply starts_with_app.
    + right. exists a', q, b. split; [rewrite Hs, <- app_assoc; reflexivity | apply sepb_Sep; exact Hq].
Qed.

Lemma under_github_dir_b uri :
  existsb (fun p => occurs_at_boundary p uri true) dir_patterns = true <-> under_github_dir uri.
Proof.
  rewrite existsb_exists. unfold under_github_dir. split.
  - intros [p [Hin Hocc]]. apply occurs_true_spec in Hocc as [a [b [Hs Ha]]].
    unfold dir_patterns in Hin. cbn in Hin.
    destruct Hin as [<- | [<- | [<- | [<- | []]]]].
    + exists a, b, slash, s_workflows. repeat split; try (left; reflexivity); try exact Ha.
      rewrite Hs. reflexivity.
    + exists a, b, slash, s_actions. repeat split; try (left; reflexivity); try exact Ha.
      * right; reflexivity.
      * rewrite Hs. reflexivity.
    + exists a, b, backslash, s_workflows. repeat split; try exact Ha.
      * right; reflexivity.
      * left; reflexivity.
      * rewrite Hs. reflexivity.
    + exists a, b, backslash, s_actions. repeat split; try exact Ha.
      * right; reflexivity.
      * right; reflexivity.
      * rewrite Hs. reflexivity.
  - intros [a [b [c [sub [Hc [Hsub [Hs Ha]]]]]]].
    exists (s_dot_github ++ c :: sub ++ [c]). split.
    + unfold dir_patterns. destruct Hc as [-> | ->], Hsub as [-> | ->]; cbn; tauto.
    + apply occurs_true_spec. exists a, b. split; [| exact Ha].
      rewrite Hs. destruct Hc as [-> | ->], Hsub as [-> | ->]; reflexivity.
Qed.

Lemma is_yaml_b uri : ends_with s_yml uri || ends_with s_yaml uri = true <-> is_yaml uri.
Proof.
  unfold is_yaml. rewrite orb_true_iff, !ends_with_spec. tauto.
Qed.

Lemma is_workflow_b_spec uri : is_workflow_b uri = true <-> is_workflow uri.
Proof.
  unfold is_workflow_b, is_workflow. rewrite andb_true_iff, under_github_dir_b, is_yaml_b. tauto.
Qed.

Lemma names_b uri name : ends_with (slash :: name) uri = true <-> names uri name.
Proof. unfold names. rewrite ends_with_spec. tauto. Qed.

Lemma by_name_some tbl uri r :
  by_name tbl uri = Some r -> exists name, In (name, r) tbl /\ names uri name.
Proof.
  induction tbl as [|[n r'] t IH]; cbn [by_name]; [discriminate|].
  destruct (ends_with (slash :: n) uri) eqn:E.
  - intros [= <-]. exists n. split; [left; reflexivity | apply names_b; exact E].
  - intros H. destruct (IH H) as [name [Hin Hn]]. exists name. split; [right; exact Hin | exact Hn].
Qed.

Lemma by_name_none tbl uri :
  by_name tbl uri = None -> forall name reg, In (name, reg) tbl -> ~ names uri name.
Proof.
  induction tbl as [|[n r'] t IH]; cbn [by_name]; intros H name reg Hin; [destruct Hin|].
  destruct (ends_with (slash :: n) uri) eqn:E; [discriminate|].
  destruct Hin as [[= -> ->] | Hin].
  - intro Hn. apply names_b in Hn. congruence.
  - eapply IH; eauto.
Qed.

(* a URI cannot name two files of different ecosystems *)
Lemma names_functional uri n1 r1 n2 r2 :
  In (n1, r1) file_table -> In (n2, r2) file_table ->
  names uri n1 -> names uri n2 -> r1 = r2.
Proof.
  intros H1 H2 [d1 E1] [d2 E2].
  assert (Hrev : rev n1 ++ slash :: rev d1 = rev n2 ++ slash :: rev d2).
  { rewrite E1 in E2. apply (f_equal (@rev N)) in E2.
    rewrite !rev_app_distr in E2. cbn [rev] in E2. rewrite <- !app_assoc in E2. exact E2. }
  cbn in H1, H2.
  repeat match goal with
  | H : _ \/ _ |- _ => destruct H as [H | H]
  | H : False |- _ => destruct H
  | H : (_, _) = (_, _) |- _ => inversion H; clear H; subst
  end; try reflexivity; cbn in Hrev; discriminate.
Qed.

Theorem classify_classified uri : classified uri (classify uri).
Proof.
  unfold classified, classify.
  destruct (is_workflow_b uri) eqn:W.
  - left. split; [apply is_workflow_b_spec; exact W | reflexivity].
  - right. split.
    + intro H. apply is_workflow_b_spec in H. congruence.
    + destruct (by_name file_table uri) as [r|] eqn:B.
      * left. apply by_name_some in B as [name [Hin Hn]]. exists name, r. auto.
      * right. split; [apply by_name_none; exact B | reflexivity].
Qed.

Theorem classified_functional uri r : classified uri r -> r = classify uri.
Proof.
  intros H. pose proof (classify_classified uri) as H0.
  unfold classified in *.
  destruct H as [[W ->] | [NW H]], H0 as [[W0 E0] | [NW0 H0]]; try contradiction.
  - symmetry; exact E0.
  - destruct H as [[n [rg [Hin [Hn ->]]]] | [Hnone ->]],
             H0 as [[n0 [rg0 [Hin0 [Hn0 E0]]]] | [Hnone0 E0]]; rewrite E0.
    + f_equal. eapply names_functional; eauto.
    + exfalso. eapply Hnone0; eauto.
    + exfalso. eapply Hnone; eauto.
    + reflexivity.
Qed.

(* ---------- the model (tables from the code) equals the executable spec ---------- *)

Lemma is_sep_sepb c : is_sep c = sepb c.
Proof. reflexivity. Qed.

Lemma contains_dir_aux_occurs d s bd : contains_dir_aux d s bd = occurs_at_boundary d s bd.
Proof.
  revert bd; induction s as [|c s IH]; intros bd; cbn; [reflexivity|].
  rewrite IH. reflexivity.
Qed.

Lemma gha_dirs_are_the_documented_ones f :
  existsb f gha_dirs = existsb f dir_patterns.
Proof.
  (* same four patterns, listed in a different order *)
  change gha_dirs with
    [ s_dot_github ++ slash :: s_workflows ++ [slash];
      s_dot_github ++ backslash :: s_workflows ++ [backslash];
      s_dot_github ++ slash :: s_actions ++ [slash];
      s_dot_github ++ backslash :: s_actions ++ [backslash] ].
  unfold dir_patterns. cbn [flat_map map app existsb].
  destruct (f _), (f _), (f _), (f _); reflexivity.
Qed.

Lemma yaml_suffixes_documented : yaml_suffixes = [s_yml; s_yaml].
Proof. reflexivity. Qed.

Lemma suffix_table_documented :
  detect_suffix_table = map (fun p => (slash :: fst p, snd p)) file_table.
Proof. reflexivity. Qed.

Lemma first_suffix_by_name tbl uri :
  first_suffix (map (fun p => (slash :: fst p, snd p)) tbl) uri = by_name tbl uri.
Proof.
  induction tbl as [|[n r] t IH]; cbn; [reflexivity|]. rewrite IH. reflexivity.
Qed.

Theorem detect_eq_classify uri : detect uri = classify uri.
Proof.
  unfold detect, classify, is_github_actions_workflow, is_workflow_b.
  rewrite yaml_suffixes_documented. cbn [existsb]. rewrite orb_false_r.
  rewrite gha_dirs_are_the_documented_ones.
  assert (E : forall l, existsb (contains_dir uri) l =
                        existsb (fun p => occurs_at_boundary p uri true) l).
  { induction l as [|d l IH]; cbn [existsb]; [reflexivity|].
    rewrite IH. unfold contains_dir. rewrite contains_dir_aux_occurs. reflexivity. }
  rewrite E.
  rewrite suffix_table_documented, first_suffix_by_name.
  reflexivity.
Qed.

Theorem detect_meets_spec uri r : classified uri r <-> detect uri = r.
Proof.
  rewrite detect_eq_classify. split.
  - intro H. symmetry. apply classified_functional. exact H.
  - intros <-. apply classify_classified.
Qed.

(* registry names used as cache keys: the two tables are inverse to each other *)
Theorem from_str_as_str r : from_str (as_str r) = Some r.
Proof. destruct r; reflexivity. Qed.

Theorem as_str_injective r1 r2 : as_str r1 = as_str r2 -> r1 = r2.
Proof.
  intro H. pose proof (from_str_as_str r1) as H1. rewrite H in H1.
  rewrite from_str_as_str in H1. congruence.
Qed.

Theorem from_str_some s r : from_str s = Some r -> s = as_str r.
Proof.
  unfold from_str. destruct (find _ from_str_table) as [[s' r']|] eqn:F; [|discriminate].
  intros [= <-]. apply find_some in F as [Hin Hb]. cbn [fst] in Hb. apply beq_eq in Hb. subst s'.
  cbn in Hin.
  repeat match goal with
  | H : _ \/ _ |- _ => destruct H as [H | H]
  | H : False |- _ => destruct H
  | H : (_, _) = (_, _) |- _ => inversion H; clear H; subst
  end; reflexivity.
Qed.
