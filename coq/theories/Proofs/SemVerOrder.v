(* Facts about SemVer precedence used by the range theorems. *)
From VL Require Import Lib.Bytes Lib.SemVer Spec.Ranges.

Lemma bcmp_refl a : bcmp a a = Eq.
Proof. induction a as [|x a IH]; cbn; [reflexivity|]. rewrite N.compare_refl. exact IH. Qed.

Lemma bcmp_eq a b : bcmp a b = Eq -> a = b.
Proof.
  revert b; induction a as [|x a IH]; intros [|y b]; cbn; intro H; try reflexivity; try discriminate.
  destruct (N.compare_spec x y) as [E|L|G]; try discriminate. subst. f_equal. apply IH. exact H.
Qed.

Lemma then_cmp_eq c d : then_cmp c d = Eq <-> c = Eq /\ d = Eq.
Proof. destruct c; cbn; split; intros H; try tauto; try discriminate; destruct H; discriminate. Qed.

(* ---- split_char has a left inverse, hence is injective ---- *)
Fixpoint join (c : N) (l : list bytes) : bytes :=
  match l with
  | [] => []
  | [p] => p
  | p :: rest => p ++ c :: join c rest
  end.

Lemma split_char_aux_nonnil c s acc : split_char_aux c s acc <> [].
Proof.
  revert acc; induction s as [|x s IH]; intros acc; cbn; [discriminate|].
  destruct (N.eqb x c); [discriminate | apply IH].
Qed.

Lemma join_split_aux c s acc : join c (split_char_aux c s acc) = rev acc ++ s.
Proof.
  revert acc; induction s as [|x s IH]; intros acc; cbn [split_char_aux].
  - cbn. rewrite app_nil_r. reflexivity.
  - destruct (N.eqb x c) eqn:E.
    + apply N.eqb_eq in E. subst x.
      pose proof (split_char_aux_nonnil c s []) as Hn.
      specialize (IH []). cbn [rev app] in IH.
      destruct (split_char_aux c s []) as [|p rest]; [contradiction|].
      cbn [join]. cbn [join] in IH. rewrite IH. reflexivity.
    + rewrite IH. cbn [rev]. rewrite <- app_assoc. reflexivity.
Qed.

Lemma join_split c s : join c (split_char c s) = s.
Proof. unfold split_char. rewrite join_split_aux. reflexivity. Qed.

Lemma split_char_inj c a b : split_char c a = split_char c b -> a = b.
Proof. intro H. rewrite <- (join_split c a), <- (join_split c b), H. reflexivity. Qed.

(* ---- cmp_pre ---- *)
Lemma cmp_pre_segs_refl l : cmp_pre_segs l l = Eq.
Proof.
  induction l as [|x l IH]; cbn; [reflexivity|].
  destruct (all_digits x); rewrite ?N.compare_refl, ?bcmp_refl; cbn; exact IH.
Qed.

Lemma cmp_pre_refl a : cmp_pre a a = Eq.
Proof. destruct a; cbn [cmp_pre]; [reflexivity | apply cmp_pre_segs_refl]. Qed.

Lemma cmp_pre_segs_eq a b : cmp_pre_segs a b = Eq -> a = b.
Proof.
  revert b; induction a as [|x a IH]; intros [|y b]; cbn; intro H; try reflexivity; try discriminate.
  destruct (all_digits x), (all_digits y); try discriminate.
  - apply then_cmp_eq in H as [H1 H2]. apply then_cmp_eq in H1 as [_ H1].
    apply bcmp_eq in H1. subst. f_equal. apply IH; exact H2.
  - apply then_cmp_eq in H as [H1 H2]. apply bcmp_eq in H1. subst. f_equal. apply IH; exact H2.
Qed.

Lemma cmp_pre_eq a b : cmp_pre a b = Eq -> a = b.
Proof.
  destruct a as [|x a], b as [|y b]; cbn [cmp_pre]; intro H; try reflexivity; try discriminate.
  apply cmp_pre_segs_eq in H. apply split_char_inj in H. exact H.
Qed.

Lemma cmp_pre_eq_iff a b : cmp_pre a b = Eq <-> a = b.
Proof. split; [apply cmp_pre_eq | intros ->; apply cmp_pre_refl]. Qed.

(* a well-formed non-empty prerelease is never below "0" *)
Lemma split_first c s : exists p rest, split_char c s = p :: rest.
Proof.
  unfold split_char. pose proof (split_char_aux_nonnil c s []) as H.
  destruct (split_char_aux c s []) as [|p rest]; [contradiction | eauto].
Qed.

Lemma bcmp_digit_0 d : is_digit d = true -> bcmp [d] [48] <> Lt.
Proof.
  unfold is_digit. intros H. cbn. apply andb_true_iff in H as [H1 _]. apply N.leb_le in H1.
  destruct (N.compare_spec d 48); try discriminate. lia.
Qed.

Lemma pre_not_below_0 p : p <> [] -> wf_idents p = true -> cmp_pre p [48] <> Lt.
Proof.
  intros Hne Hwf. destruct p as [|c p]; [contradiction|].
  cbn [cmp_pre]. unfold wf_idents in Hwf.
  destruct (split_first 46 (c :: p)) as [s [rest Hs]]. rewrite Hs in *.
  change (split_char 46 [48]) with [[48]].
  cbn [forallb] in Hwf. apply andb_true_iff in Hwf as [Hseg _].
  unfold wf_seg in Hseg. destruct s as [|d s]; [discriminate|].
  cbn [cmp_pre_segs]. change (all_digits [48]) with true.
  destruct (all_digits (d :: s)) eqn:Hd; [|discriminate].
  destruct s as [|d2 s].
  - (* one digit *)
    cbn in Hd. apply andb_true_iff in Hd as [Hd _].
    change (blen [d]) with 1. change (blen [48]) with 1. cbn [N.compare Pos.compare Pos.compare_cont then_cmp].
    pose proof (bcmp_digit_0 d Hd) as Hb.
    destruct (bcmp [d] [48]) eqn:Eb; cbn [then_cmp]; try discriminate; [| contradiction].
    destruct rest; discriminate.
  - (* more than one digit: longer numeric identifier *)
    unfold blen. cbn [length].
    assert (N.compare (N.of_nat (S (S (length s)))) (N.of_nat 1) = Gt) as ->.
    { apply N.compare_gt_iff. lia. }
    cbn. discriminate.
Qed.
