(* C04 for GitHub Actions workflows and composite actions: on every tree-sitter-yaml tree that denotes a YAML value,
   inside the documented shape (gha_regular) and outside the known classes (gha_known), what the walk of
   github_actions.rs reports is exactly the uses: entries of jobs.<id>.steps[*] / runs.steps[*]. *)
From Coq Require Import ZArith Lia.
From VL Require Import Lib.Bytes Lib.Text Lib.Cst Gen.GenParsers Model.Walks Spec.YamlDoc Proofs.JsonWalkProofs Proofs.CstProofs Proofs.YamlWalkProofs.

(* ---------- a walk as a function of the value ---------- *)
Section ValueWalk.
Variable content : bytes.
Variable fv : yval -> list (bytes * bytes).
Variable fp : bool -> bytes -> yval -> list (bytes * bytes).
Hypothesis fv_str : forall s, fv (YStr s) = [].
Hypothesis fv_null : fv YNull = [].
Hypothesis fv_seq : forall fl l, fv (YSeq fl l) = flat_map fv l.
Hypothesis fv_map : forall fl l, fv (YMap fl l) = flat_map (fun e : bytes * yval => fp fl (fst e) (snd e)) l.
Definition pair_flow (n : node) : bool := match classify (n_kind n) with KPair fl => fl | _ => false end.
Definition Dn (n : node) : list (bytes * bytes) :=
  match denote_ynode content n with
  | YDTok | YDBad => []
  | YDVal v | YDDoc v => fv v
  | YDPair k v => fp (pair_flow n) k v
  end.
Lemma D_toks l : Forall (ytok content) l -> flat_map Dn l = [].
Proof. induction 1 as [|x t Hx _ IH]; [reflexivity|]. cbn [flat_map]. unfold Dn at 1. unfold ytok in Hx. now rewrite Hx, IH. Qed.
Lemma D_neutrals l : Forall (neutral content) l -> flat_map Dn l = [].
Proof. induction 1 as [|x t [Hx _] _ IH]; [reflexivity|]. cbn [flat_map]. unfold Dn at 1. unfold ytok in Hx. now rewrite Hx, IH. Qed.
Lemma D_vals ch : forall l, yvals_of (ykids_of content ch) = Some l -> flat_map Dn ch = flat_map fv l.
Proof.
  induction ch as [|x t IH]; intros l H.
  - cbn in H. injection H as <-. reflexivity.
  - cbn [ykids_of map yvals_of fold_right snd] in H. fold (ykids_of content t) in H. fold (yvals_of (ykids_of content t)) in H.
    destruct (denote_ynode content x) eqn:Dx; try discriminate; destruct (yvals_of (ykids_of content t)) as [l'|] eqn:El; try discriminate; injection H as <-.
    + cbn [flat_map]. unfold Dn at 1. rewrite Dx. now rewrite (IH l').
    + cbn [flat_map]. unfold Dn at 1. rewrite Dx. cbn [app]. now apply IH.
Qed.
Lemma D_docs ch : forall l, ydocs_of (ykids_of content ch) = Some l -> flat_map Dn ch = flat_map fv l.
Proof.
  induction ch as [|x t IH]; intros l H.
  - cbn in H. injection H as <-. reflexivity.
  - cbn [ykids_of map ydocs_of fold_right snd] in H. fold (ykids_of content t) in H. fold (ydocs_of (ykids_of content t)) in H.
    destruct (denote_ynode content x) eqn:Dx; try discriminate; destruct (ydocs_of (ykids_of content t)) as [l'|] eqn:El; try discriminate; injection H as <-.
    + cbn [flat_map]. unfold Dn at 1. rewrite Dx. now rewrite (IH l').
    + cbn [flat_map]. unfold Dn at 1. rewrite Dx. cbn [app]. now apply IH.
Qed.
Lemma D_pairs (fl : bool) ch : forall l, ypairs_of (ykids_of content ch) = Some l ->
  pairs_kind (if fl then yk_flow_pair else yk_block_mapping_pair) (ykids_of content ch) = true ->
  flat_map Dn ch = flat_map (fun e : bytes * yval => fp fl (fst e) (snd e)) l.
Proof.
  induction ch as [|x t IH]; intros l H Hk.
  - cbn in H. injection H as <-. reflexivity.
  - cbn [ykids_of map pairs_kind forallb fst snd] in Hk. fold (ykids_of content t) in Hk. apply andb_true_iff in Hk as [Hkx Hkt].
    destruct (ypairs_cons _ _ _ _ H) as [[k [v [l' [Dx [Hl' ->]]]]]|[Dx Hl']].
    + cbn [flat_map fst snd]. unfold Dn at 1. rewrite Dx. rewrite Dx in Hkx. unfold kind_is in Hkx. apply beq_eq in Hkx.
      assert (pair_flow x = fl) as -> by (unfold pair_flow; rewrite Hkx; destruct fl; reflexivity). now rewrite (IH l' Hl' Hkt).
    + cbn [flat_map]. unfold Dn at 1. rewrite Dx. cbn [app]. now apply IH.
Qed.
Definition good (n : node) : Prop := denote_ynode content n <> YDBad.
Lemma good_toks l : Forall (ytok content) l -> Forall good l.
Proof. induction 1 as [|x t Hx _ IH]; constructor; [unfold good; unfold ytok in Hx; rewrite Hx; discriminate|exact IH]. Qed.
Lemma good_neutrals l : Forall (neutral content) l -> Forall good l.
Proof. induction 1 as [|x t [Hx _] _ IH]; constructor; [unfold good; unfold ytok in Hx; rewrite Hx; discriminate|exact IH]. Qed.
Lemma good_vals ch : forall l, yvals_of (ykids_of content ch) = Some l -> Forall good ch.
Proof.
  induction ch as [|x t IH]; intros l H; [constructor|].
  cbn [ykids_of map yvals_of fold_right snd] in H. fold (ykids_of content t) in H. fold (yvals_of (ykids_of content t)) in H.
  destruct (denote_ynode content x) eqn:Dx; try discriminate; destruct (yvals_of (ykids_of content t)) as [l'|] eqn:El; try discriminate;
  (constructor; [unfold good; rewrite Dx; discriminate|now apply (IH l')]).
Qed.
Lemma good_docs ch : forall l, ydocs_of (ykids_of content ch) = Some l -> Forall good ch.
Proof.
  induction ch as [|x t IH]; intros l H; [constructor|].
  cbn [ykids_of map ydocs_of fold_right snd] in H. fold (ykids_of content t) in H. fold (ydocs_of (ykids_of content t)) in H.
  destruct (denote_ynode content x) eqn:Dx; try discriminate; destruct (ydocs_of (ykids_of content t)) as [l'|] eqn:El; try discriminate;
  (constructor; [unfold good; rewrite Dx; discriminate|now apply (IH l')]).
Qed.
Lemma good_pairs ch : forall l, ypairs_of (ykids_of content ch) = Some l -> Forall good ch.
Proof.
  induction ch as [|x t IH]; intros l H; [constructor|].
  destruct (ypairs_cons _ _ _ _ H) as [[k [v [l' [Dx [Hl' ->]]]]]|[Dx Hl']];
  (constructor; [unfold good; rewrite Dx; discriminate|eapply IH; eassumption]).
Qed.
(* the children of a node that is not a pair add up to what the node denotes; the children of a pair to its value *)
Lemma kids_sum n : good n ->
  Forall good (n_children n)
  /\ flat_map Dn (n_children n) = match denote_ynode content n with YDPair _ v => fv v | _ => Dn n end.
Proof.
  intros Hg. unfold good in Hg. pose proof (yden_class content n) as Y.
  destruct (denote_ynode content n) as [v|k v|v| |] eqn:Dn0; try congruence.
  - (* a value *)
    unfold Dn at 2. rewrite Dn0. destruct n as [kd f sb eb r c m ch]. cbn [n_kind n_children] in *. rewrite denote_ynode_eq in Dn0.
    destruct m; [discriminate|]. rewrite ystep_class in Dn0. revert Y Dn0. destruct (classify kd) eqn:Ec; intros Y Dn0; cbv beta iota in Y; try contradiction.
    + destruct (slice content sb eb) as [t|]; [|discriminate]. destruct (plain_scalar_ok t); [|discriminate]. cbn [andb] in Dn0.
      destruct (all_ytok (ykids_of content ch)) eqn:Ea; [|discriminate]. injection Dn0 as <-. apply all_ytok_forall in Ea.
      split; [now apply good_toks|]. now rewrite (D_toks _ Ea), fv_str.
    + destruct (slice content sb eb) as [t|]; [|discriminate]. destruct (dq_scalar_inner t); [|discriminate].
      destruct (all_ytok (ykids_of content ch)) eqn:Ea; [|discriminate]. injection Dn0 as <-. apply all_ytok_forall in Ea.
      split; [now apply good_toks|]. now rewrite (D_toks _ Ea), fv_str.
    + destruct (slice content sb eb) as [t|]; [|discriminate]. destruct (sq_scalar_inner t); [|discriminate].
      destruct (all_ytok (ykids_of content ch)) eqn:Ea; [|discriminate]. injection Dn0 as <-. apply all_ytok_forall in Ea.
      split; [now apply good_toks|]. now rewrite (D_toks _ Ea), fv_str.
    + destruct (wrapped sb eb (ykids_of content ch)) as [v'|] eqn:Ew; [|discriminate]. injection Dn0 as ->.
      destruct (wrapped_inv _ _ _ _ _ Ew) as [pre [c0 [post [-> [Hp [Hq [Dc _]]]]]]]. split.
      * apply Forall_app. split; [now apply good_toks|]. constructor; [unfold good; rewrite Dc; discriminate|now apply good_toks].
      * rewrite flat_map_app. cbn [flat_map]. rewrite (D_toks _ Hp), (D_toks _ Hq), app_nil_r. cbn [app]. unfold Dn. now rewrite Dc.
    + destruct (ypairs_of (ykids_of content ch)) as [l|] eqn:El; [|discriminate].
      destruct (ykeys_nodup (map fst l) && pairs_kind (if fl then yk_flow_pair else yk_block_mapping_pair) (ykids_of content ch)) eqn:E; [|discriminate].
      injection Dn0 as <-. apply andb_true_iff in E as [_ E]. split; [now apply (good_pairs ch l)|]. now rewrite (D_pairs fl ch l El E), fv_map.
    + destruct (yvals_of (ykids_of content ch)) as [l|] eqn:El; [|discriminate]. injection Dn0 as <-.
      split; [now apply (good_vals ch l)|]. now rewrite (D_vals ch l El), fv_seq.
    + destruct (yvals_of (ykids_of content ch)) as [[|v1 [|v2 l]]|] eqn:El; try discriminate; injection Dn0 as <-.
      * split; [now apply (good_vals ch [])|]. now rewrite (D_vals ch [] El), fv_null.
      * split; [now apply (good_vals ch [v1])|]. rewrite (D_vals ch [v1] El). cbn [flat_map]. now rewrite app_nil_r.
  - (* a pair *)
    destruct (ypair_inv _ _ _ _ Dn0) as [kn [cn [rest [Hch [Fk [Wk [Dk [Nc Hv]]]]]]]]. rewrite Hch.
    assert (Dn kn = []) as Ekn by (unfold Dn; now rewrite Dk, fv_str).
    assert (Dn cn = []) as Ecn by (unfold Dn; destruct Nc as [Nc _]; unfold ytok in Nc; now rewrite Nc).
    assert (good kn) as Gk by (unfold good; rewrite Dk; discriminate).
    assert (good cn) as Gc by (unfold good; destruct Nc as [Nc _]; unfold ytok in Nc; rewrite Nc; discriminate).
    cbn [flat_map]. rewrite Ekn, Ecn. cbn [app].
    destruct Hv as [[-> Hr]|[pre [vn [post [-> [Hp [Hq [Dv _]]]]]]]].
    + split; [constructor; [exact Gk|constructor; [exact Gc|now apply good_neutrals]]|]. now rewrite (D_neutrals _ Hr), fv_null.
    + split.
      * constructor; [exact Gk|]. constructor; [exact Gc|]. apply Forall_app. split; [now apply good_neutrals|].
        constructor; [unfold good; rewrite Dv; discriminate|now apply good_neutrals].
      * rewrite flat_map_app. cbn [flat_map]. rewrite (D_neutrals _ Hp), (D_neutrals _ Hq), app_nil_r. cbn [app]. unfold Dn. now rewrite Dv.
  - (* a document / stream *)
    unfold Dn at 2. rewrite Dn0. destruct n as [kd f sb eb r c m ch]. cbn [n_kind n_children] in *. rewrite denote_ynode_eq in Dn0.
    destruct m; [discriminate|]. rewrite ystep_class in Dn0. destruct Y as [Ec|Ec]; rewrite Ec in Dn0.
    + destruct (yvals_of (ykids_of content ch)) as [[|v1 [|v2 l]]|] eqn:El; try discriminate. injection Dn0 as <-.
      split; [now apply (good_vals ch [v1])|]. rewrite (D_vals ch [v1] El). cbn [flat_map]. now rewrite app_nil_r.
    + destruct (ydocs_of (ykids_of content ch)) as [[|v1 [|v2 l]]|] eqn:El; try discriminate. injection Dn0 as <-.
      split; [now apply (good_docs ch [v1])|]. rewrite (D_docs ch [v1] El). cbn [flat_map]. now rewrite app_nil_r.
  - (* a token *)
    destruct (ytok_node content n Dn0) as [_ Hnil]. rewrite Hnil. split; [constructor|]. unfold Dn. now rewrite Dn0.
Qed.
End ValueWalk.

(* ---------- a property of values holds for every node of a tree whose root has it ---------- *)
Section ValuePred.
Variable content : bytes.
Variable pv : yval -> Prop.
Variable pp : bool -> bytes -> yval -> Prop.
Hypothesis pv_str : forall s, pv (YStr s).
Hypothesis pv_null : pv YNull.
Hypothesis pv_seq_inv : forall fl l, pv (YSeq fl l) -> Forall pv l.
Hypothesis pv_map_inv : forall fl l, pv (YMap fl l) -> Forall (fun e : bytes * yval => pp fl (fst e) (snd e)) l.
Hypothesis pp_val : forall fl k v, pp fl k v -> pv v.
Definition Pn (n : node) : Prop :=
  match denote_ynode content n with
  | YDTok => True
  | YDVal v | YDDoc v => pv v
  | YDPair k v => pp (pair_flow n) k v
  | YDBad => False
  end.
Lemma P_toks l : Forall (ytok content) l -> Forall Pn l.
Proof. induction 1 as [|x t Hx _ IH]; constructor; [unfold Pn; unfold ytok in Hx; now rewrite Hx|exact IH]. Qed.
Lemma P_neutrals l : Forall (neutral content) l -> Forall Pn l.
Proof. induction 1 as [|x t [Hx _] _ IH]; constructor; [unfold Pn; unfold ytok in Hx; now rewrite Hx|exact IH]. Qed.
Lemma P_vals ch : forall l, yvals_of (ykids_of content ch) = Some l -> Forall pv l -> Forall Pn ch.
Proof.
  induction ch as [|x t IH]; intros l H Hq; [constructor|].
  cbn [ykids_of map yvals_of fold_right snd] in H. fold (ykids_of content t) in H. fold (yvals_of (ykids_of content t)) in H.
  destruct (denote_ynode content x) eqn:Dx; try discriminate; destruct (yvals_of (ykids_of content t)) as [l'|] eqn:El; try discriminate; injection H as <-.
  - inversion Hq; subst. constructor; [unfold Pn; now rewrite Dx|now apply (IH l')].
  - constructor; [unfold Pn; now rewrite Dx|now apply (IH l')].
Qed.
Lemma P_docs ch : forall l, ydocs_of (ykids_of content ch) = Some l -> Forall pv l -> Forall Pn ch.
Proof.
  induction ch as [|x t IH]; intros l H Hq; [constructor|].
  cbn [ykids_of map ydocs_of fold_right snd] in H. fold (ykids_of content t) in H. fold (ydocs_of (ykids_of content t)) in H.
  destruct (denote_ynode content x) eqn:Dx; try discriminate; destruct (ydocs_of (ykids_of content t)) as [l'|] eqn:El; try discriminate; injection H as <-.
  - inversion Hq; subst. constructor; [unfold Pn; now rewrite Dx|now apply (IH l')].
  - constructor; [unfold Pn; now rewrite Dx|now apply (IH l')].
Qed.
Lemma P_pairs (fl : bool) ch : forall l, ypairs_of (ykids_of content ch) = Some l ->
  pairs_kind (if fl then yk_flow_pair else yk_block_mapping_pair) (ykids_of content ch) = true ->
  Forall (fun e : bytes * yval => pp fl (fst e) (snd e)) l -> Forall Pn ch.
Proof.
  induction ch as [|x t IH]; intros l H Hk Hq; [constructor|].
  cbn [ykids_of map pairs_kind forallb fst snd] in Hk. fold (ykids_of content t) in Hk. apply andb_true_iff in Hk as [Hkx Hkt].
  destruct (ypairs_cons _ _ _ _ H) as [[k [v [l' [Dx [Hl' ->]]]]]|[Dx Hl']].
  - inversion Hq; subst. constructor; [|now apply (IH l')]. unfold Pn. rewrite Dx. rewrite Dx in Hkx. unfold kind_is in Hkx. apply beq_eq in Hkx.
    assert (pair_flow x = fl) as -> by (unfold pair_flow; rewrite Hkx; destruct fl; reflexivity). assumption.
  - constructor; [unfold Pn; now rewrite Dx|now apply (IH l)].
Qed.
Lemma kids_forall n : Pn n -> Forall Pn (n_children n).
Proof.
  intros Hp. unfold Pn in Hp. pose proof (yden_class content n) as Y.
  destruct (denote_ynode content n) as [v|k v|v| |] eqn:Dn0; try contradiction.
  - destruct n as [kd f sb eb r c m ch]. cbn [n_kind n_children] in *. rewrite denote_ynode_eq in Dn0.
    destruct m; [discriminate|]. rewrite ystep_class in Dn0. revert Y Dn0. destruct (classify kd) eqn:Ec; intros Y Dn0; cbv beta iota in Y; try contradiction.
    + destruct (slice content sb eb) as [t|]; [|discriminate]. destruct (plain_scalar_ok t); [|discriminate]. cbn [andb] in Dn0.
      destruct (all_ytok (ykids_of content ch)) eqn:Ea; [|discriminate]. apply P_toks. now apply all_ytok_forall.
    + destruct (slice content sb eb) as [t|]; [|discriminate]. destruct (dq_scalar_inner t); [|discriminate].
      destruct (all_ytok (ykids_of content ch)) eqn:Ea; [|discriminate]. apply P_toks. now apply all_ytok_forall.
    + destruct (slice content sb eb) as [t|]; [|discriminate]. destruct (sq_scalar_inner t); [|discriminate].
      destruct (all_ytok (ykids_of content ch)) eqn:Ea; [|discriminate]. apply P_toks. now apply all_ytok_forall.
    + destruct (wrapped sb eb (ykids_of content ch)) as [v'|] eqn:Ew; [|discriminate]. injection Dn0 as ->.
      destruct (wrapped_inv _ _ _ _ _ Ew) as [pre [c0 [post [-> [Hpre [Hq [Dc _]]]]]]].
      apply Forall_app. split; [now apply P_toks|]. constructor; [unfold Pn; now rewrite Dc|now apply P_toks].
    + destruct (ypairs_of (ykids_of content ch)) as [l|] eqn:El; [|discriminate].
      destruct (ykeys_nodup (map fst l) && pairs_kind (if fl then yk_flow_pair else yk_block_mapping_pair) (ykids_of content ch)) eqn:E; [|discriminate].
      injection Dn0 as <-. apply andb_true_iff in E as [_ E]. apply (P_pairs fl ch l El E). now apply pv_map_inv.
    + destruct (yvals_of (ykids_of content ch)) as [l|] eqn:El; [|discriminate]. injection Dn0 as <-.
      apply (P_vals ch l El). now apply (pv_seq_inv fl).
    + destruct (yvals_of (ykids_of content ch)) as [[|v1 [|v2 l]]|] eqn:El; try discriminate; injection Dn0 as <-.
      * apply (P_vals ch [] El). constructor.
      * apply (P_vals ch [v1] El). constructor; [exact Hp|constructor].
  - destruct (ypair_inv _ _ _ _ Dn0) as [kn [cn [rest [Hch [Fk [Wk [Dk [Nc Hv]]]]]]]]. rewrite Hch.
    constructor; [unfold Pn; rewrite Dk; apply pv_str|]. constructor; [unfold Pn; destruct Nc as [Nc _]; unfold ytok in Nc; now rewrite Nc|].
    destruct Hv as [[-> Hr]|[pre [vn [post [-> [Hpre [Hq [Dv _]]]]]]]].
    + now apply P_neutrals.
    + apply Forall_app. split; [now apply P_neutrals|]. constructor; [unfold Pn; rewrite Dv; now apply (pp_val _ _ _ Hp)|now apply P_neutrals].
  - destruct n as [kd f sb eb r c m ch]. cbn [n_kind n_children] in *. rewrite denote_ynode_eq in Dn0.
    destruct m; [discriminate|]. rewrite ystep_class in Dn0. destruct Y as [Ec|Ec]; rewrite Ec in Dn0.
    + destruct (yvals_of (ykids_of content ch)) as [[|v1 [|v2 l]]|] eqn:El; try discriminate. injection Dn0 as <-.
      apply (P_vals ch [v1] El). constructor; [exact Hp|constructor].
    + destruct (ydocs_of (ykids_of content ch)) as [[|v1 [|v2 l]]|] eqn:El; try discriminate. injection Dn0 as <-.
      apply (P_docs ch [v1] El). constructor; [exact Hp|constructor].
  - destruct (ytok_node content n Dn0) as [_ Hnil]. rewrite Hnil. constructor.
Qed.
Lemma P_good n : Pn n -> good content n.
Proof. unfold Pn, good. destruct (denote_ynode content n); try discriminate. contradiction. Qed.
End ValuePred.

(* ---------- what the two walks compute, as functions of the value ---------- *)
Definition uses_of (v : yval) : list (bytes * bytes) := match v with YStr s => uses_decl s | _ => [] end.
Fixpoint all_uses (v : yval) : list (bytes * bytes) :=
  match v with
  | YMap fl l => (fix go (l : list (bytes * yval)) : list (bytes * bytes) :=
                    match l with [] => [] | (k, x) :: t => ((if negb fl && beq k w_uses then uses_of x else []) ++ all_uses x) ++ go t end) l
  | YSeq _ l => (fix go (l : list yval) : list (bytes * bytes) := match l with [] => [] | x :: t => all_uses x ++ go t end) l
  | _ => []
  end.
Definition uses_pair (fl : bool) (k : bytes) (v : yval) : list (bytes * bytes) :=
  (if negb fl && beq k w_uses then uses_of v else []) ++ all_uses v.
Lemma all_uses_map fl l : all_uses (YMap fl l) = flat_map (fun e : bytes * yval => uses_pair fl (fst e) (snd e)) l.
Proof. cbn [all_uses]. induction l as [|[k x] t IH]; [reflexivity|]. cbn [flat_map fst snd]. rewrite <- IH. reflexivity. Qed.
Lemma all_uses_seq fl l : all_uses (YSeq fl l) = flat_map all_uses l.
Proof. cbn [all_uses]. induction l as [|x t IH]; [reflexivity|]. cbn [flat_map]. now rewrite <- IH. Qed.
Fixpoint all_steps (v : yval) : list (bytes * bytes) :=
  match v with
  | YMap fl l => (fix go (l : list (bytes * yval)) : list (bytes * bytes) :=
                    match l with [] => [] | (k, x) :: t => (if negb fl && beq k w_steps then all_uses x else all_steps x) ++ go t end) l
  | YSeq _ l => (fix go (l : list yval) : list (bytes * bytes) := match l with [] => [] | x :: t => all_steps x ++ go t end) l
  | _ => []
  end.
Definition steps_pair (fl : bool) (k : bytes) (v : yval) : list (bytes * bytes) :=
  if negb fl && beq k w_steps then all_uses v else all_steps v.
Lemma all_steps_map fl l : all_steps (YMap fl l) = flat_map (fun e : bytes * yval => steps_pair fl (fst e) (snd e)) l.
Proof. cbn [all_steps]. induction l as [|[k x] t IH]; [reflexivity|]. cbn [flat_map fst snd]. rewrite <- IH. reflexivity. Qed.
Lemma all_steps_seq fl l : all_steps (YSeq fl l) = flat_map all_steps l.
Proof. cbn [all_steps]. induction l as [|x t IH]; [reflexivity|]. cbn [flat_map]. now rewrite <- IH. Qed.
(* where the walk would misread: a uses key (of a block mapping) whose value is not a scalar, or a local / docker ref with an @ *)
Definition uses_value_fine (v : yval) : bool := match v with YStr s => negb (uses_known s) | YNull => true | _ => false end.
Fixpoint uses_fine (v : yval) : bool :=
  match v with
  | YMap fl l => (fix go (l : list (bytes * yval)) : bool :=
                    match l with [] => true | (k, x) :: t => (fl || negb (beq k w_uses) || uses_value_fine x) && uses_fine x && go t end) l
  | YSeq _ l => (fix go (l : list yval) : bool := match l with [] => true | x :: t => uses_fine x && go t end) l
  | _ => true
  end.
Definition uses_pair_fine (fl : bool) (k : bytes) (v : yval) : Prop := (fl || negb (beq k w_uses) || uses_value_fine v) = true /\ uses_fine v = true.
Lemma uses_fine_map fl l : uses_fine (YMap fl l) = true -> Forall (fun e : bytes * yval => uses_pair_fine fl (fst e) (snd e)) l.
Proof.
  cbn [uses_fine]. induction l as [|[k x] t IH]; intros H; [constructor|]. apply andb_true_iff in H as [H H3]. apply andb_true_iff in H as [H1 H2].
  constructor; [split; assumption|now apply IH].
Qed.
Lemma uses_fine_seq fl l : uses_fine (YSeq fl l) = true -> Forall (fun x => uses_fine x = true) l.
Proof. cbn [uses_fine]. induction l as [|x t IH]; intros H; [constructor|]. apply andb_true_iff in H as [H1 H2]. constructor; [exact H1|now apply IH]. Qed.
Fixpoint steps_fine (v : yval) : bool :=
  match v with
  | YMap fl l => (fix go (l : list (bytes * yval)) : bool :=
                    match l with [] => true | (k, x) :: t => (if negb fl && beq k w_steps then uses_fine x else true) && steps_fine x && go t end) l
  | YSeq _ l => (fix go (l : list yval) : bool := match l with [] => true | x :: t => steps_fine x && go t end) l
  | _ => true
  end.
Definition steps_pair_fine (fl : bool) (k : bytes) (v : yval) : Prop :=
  (if negb fl && beq k w_steps then uses_fine v else true) = true /\ steps_fine v = true.
Lemma steps_fine_map fl l : steps_fine (YMap fl l) = true -> Forall (fun e : bytes * yval => steps_pair_fine fl (fst e) (snd e)) l.
Proof.
  cbn [steps_fine]. induction l as [|[k x] t IH]; intros H; [constructor|]. apply andb_true_iff in H as [H H3]. apply andb_true_iff in H as [H1 H2].
  constructor; [split; assumption|now apply IH].
Qed.
Lemma steps_fine_seq fl l : steps_fine (YSeq fl l) = true -> Forall (fun x => steps_fine x = true) l.
Proof. cbn [steps_fine]. induction l as [|x t IH]; intros H; [constructor|]. apply andb_true_iff in H as [H1 H2]. constructor; [exact H1|now apply IH]. Qed.

(* ---------- induction on values ---------- *)
Section YvalInd.
  Variable P : yval -> Prop.
  Hypothesis Hstr : forall s, P (YStr s).
  Hypothesis Hnull : P YNull.
  Hypothesis Hmap : forall fl l, Forall (fun e : bytes * yval => P (snd e)) l -> P (YMap fl l).
  Hypothesis Hseq : forall fl l, Forall P l -> P (YSeq fl l).
  Fixpoint yval_ind' (v : yval) : P v :=
    match v with
    | YStr s => Hstr s
    | YNull => Hnull
    | YMap fl l => Hmap fl l ((fix go (l : list (bytes * yval)) : Forall (fun e : bytes * yval => P (snd e)) l :=
                                 match l with [] => Forall_nil _ | (k, x) :: t => Forall_cons (k, x) (yval_ind' x) (go t) end) l)
    | YSeq fl l => Hseq fl l ((fix go (l : list yval) : Forall P l :=
                                 match l with [] => Forall_nil _ | x :: t => Forall_cons x (yval_ind' x) (go t) end) l)
    end.
End YvalInd.
(* a value that does not mention a key is silent for the function that looks for it *)
Lemma no_uses v : mentions w_uses v = false -> all_uses v = [] /\ uses_fine v = true.
Proof.
  induction v as [s| |fl l IH|fl l IH] using yval_ind'; try (intros _; split; reflexivity).
  - rewrite mentions_map, all_uses_map. intros H. cbn [uses_fine]. induction l as [|[k x] t IHt]; [split; reflexivity|].
    cbn [existsb fst snd] in H. apply orb_false_iff in H as [H1 H2]. apply orb_false_iff in H1 as [Hk Hx]. inversion IH as [|? ? Hpx Hpt]; subst.
    cbn [snd] in Hpx. destruct (Hpx Hx) as [A B]. destruct (IHt Hpt H2) as [C D]. cbn [flat_map fst snd]. unfold uses_pair at 1. rewrite Hk, andb_false_r, A, C. cbn [app].
    split; [reflexivity|]. rewrite B, D. cbn [negb]. now rewrite orb_true_r.
  - rewrite mentions_seq, all_uses_seq. intros H. cbn [uses_fine]. induction l as [|x t IHt]; [split; reflexivity|].
    cbn [existsb] in H. apply orb_false_iff in H as [Hx H2]. inversion IH as [|? ? Hpx Hpt]; subst. destruct (Hpx Hx) as [A B]. destruct (IHt Hpt H2) as [C D].
    cbn [flat_map]. rewrite A, C. split; [reflexivity|]. now rewrite B, D.
Qed.
Lemma no_steps v : mentions w_steps v = false -> all_steps v = [] /\ steps_fine v = true.
Proof.
  induction v as [s| |fl l IH|fl l IH] using yval_ind'; try (intros _; split; reflexivity).
  - rewrite mentions_map, all_steps_map. intros H. cbn [steps_fine]. induction l as [|[k x] t IHt]; [split; reflexivity|].
    cbn [existsb fst snd] in H. apply orb_false_iff in H as [H1 H2]. apply orb_false_iff in H1 as [Hk Hx]. inversion IH as [|? ? Hpx Hpt]; subst.
    cbn [snd] in Hpx. destruct (Hpx Hx) as [A B]. destruct (IHt Hpt H2) as [C D]. cbn [flat_map fst snd]. unfold steps_pair at 1. rewrite Hk, andb_false_r, A, C.
    split; [reflexivity|]. now rewrite B, D.
  - rewrite mentions_seq, all_steps_seq. intros H. cbn [steps_fine]. induction l as [|x t IHt]; [split; reflexivity|].
    cbn [existsb] in H. apply orb_false_iff in H as [Hx H2]. inversion IH as [|? ? Hpx Hpt]; subst. destruct (Hpx Hx) as [A B]. destruct (IHt Hpt H2) as [C D].
    cbn [flat_map]. rewrite A, C. split; [reflexivity|]. now rewrite B, D.
Qed.

(* ---------- on documents of the documented shape the value-level walk is the reference reading ---------- *)
Lemma uses_fine_map_eq fl l : uses_fine (YMap fl l) = forallb (fun e : bytes * yval => (fl || negb (beq (fst e) w_uses) || uses_value_fine (snd e)) && uses_fine (snd e)) l.
Proof. cbn [uses_fine]. induction l as [|[k x] t IH]; [reflexivity|]. cbn [forallb fst snd]. now rewrite <- IH. Qed.
Lemma uses_fine_seq_eq fl l : uses_fine (YSeq fl l) = forallb uses_fine l.
Proof. cbn [uses_fine]. induction l as [|x t IH]; [reflexivity|]. cbn [forallb]. now rewrite <- IH. Qed.
Lemma steps_fine_map_eq fl l : steps_fine (YMap fl l) = forallb (fun e : bytes * yval => (if negb fl && beq (fst e) w_steps then uses_fine (snd e) else true) && steps_fine (snd e)) l.
Proof. cbn [steps_fine]. induction l as [|[k x] t IH]; [reflexivity|]. cbn [forallb fst snd]. now rewrite <- IH. Qed.
Lemma steps_fine_seq_eq fl l : steps_fine (YSeq fl l) = forallb steps_fine l.
Proof. cbn [steps_fine]. induction l as [|x t IH]; [reflexivity|]. cbn [forallb]. now rewrite <- IH. Qed.
Lemma step_lemma st : step_regular st = true -> step_known st = false -> all_uses st = step_uses st /\ uses_fine st = true.
Proof.
  destruct st as [s| |fl sm|fl l]; cbn [step_regular step_known step_uses].
  - intros _ _. split; reflexivity.
  - intros _ _. split; reflexivity.
  - intros Hr Hk. apply orb_false_iff in Hk as [-> Hk]. rewrite all_uses_map, uses_fine_map_eq.
    induction sm as [|[k x] t IH]; [split; reflexivity|].
    cbn [forallb existsb fst snd] in Hr, Hk. apply andb_true_iff in Hr as [Hr Hrt]. apply orb_false_iff in Hk as [Hk Hkt].
    repeat (apply andb_true_iff in Hr as [Hr ?]). repeat match goal with H : negb _ = true |- _ => apply negb_true_iff in H end.
    destruct (IH Hrt Hkt) as [A B]. match goal with H : mentions w_uses x = false |- _ => destruct (no_uses x H) as [C D] end.
    cbn [flat_map forallb fst snd]. unfold uses_pair at 1. rewrite C, A, D, B, app_nil_r. cbn [negb andb orb]. rewrite andb_true_r.
    destruct (beq k w_uses) eqn:Eu; cbn [negb orb andb] in *.
    + destruct x as [s| |? ?|? ?]; try discriminate; cbn [uses_of uses_value_fine]; [|split; reflexivity].
      rewrite Hk. split; reflexivity.
    + split; reflexivity.
  - intros Hr _. apply andb_true_iff in Hr as [_ Hr]. apply negb_true_iff in Hr. exact (no_uses _ Hr).
Qed.
Lemma steps_lemma x : steps_regular x = true -> match x with YSeq fl' steps => fl' || existsb step_known steps | _ => false end = false ->
  all_uses x = steps_uses x /\ uses_fine x = true.
Proof.
  destruct x as [s| |fl sm|fl l]; cbn [steps_regular steps_uses].
  - intros _ _. split; reflexivity.
  - intros _ _. split; reflexivity.
  - intros Hr _. apply andb_true_iff in Hr as [_ Hr]. apply negb_true_iff in Hr. exact (no_uses _ Hr).
  - intros Hr Hk. apply orb_false_iff in Hk as [-> Hk]. rewrite all_uses_seq, uses_fine_seq_eq.
    induction l as [|st t IH]; [split; reflexivity|].
    cbn [forallb existsb] in Hr, Hk. apply andb_true_iff in Hr as [Hr Hrt]. apply orb_false_iff in Hk as [Hk Hkt].
    destruct (step_lemma st Hr Hk) as [A B]. destruct (IH Hrt Hkt) as [C D]. cbn [flat_map forallb]. rewrite A, C, B, D. split; reflexivity.
Qed.
Lemma steps_regular_no_steps x : steps_regular x = true -> mentions w_steps x = false.
Proof.
  destruct x as [s| |fl sm|fl l]; cbn [steps_regular]; try reflexivity.
  - intros H. apply andb_true_iff in H as [H _]. now apply negb_true_iff in H.
  - intros H. rewrite mentions_seq. induction l as [|st t IH]; [reflexivity|]. cbn [forallb existsb] in *. apply andb_true_iff in H as [Hs Ht]. rewrite (IH Ht), orb_false_r.
    destruct st as [s| |fl2 sm|fl2 l2]; cbn [step_regular] in Hs; try reflexivity.
    + rewrite mentions_map. clear -Hs. induction sm as [|[k x] t2 IH2]; [reflexivity|]. cbn [forallb existsb fst snd] in *. apply andb_true_iff in Hs as [H Ht2].
      repeat (apply andb_true_iff in H as [H ?]). repeat match goal with Hn : negb _ = true |- _ => apply negb_true_iff in Hn end.
      rewrite (IH2 Ht2), orb_false_r. match goal with H1 : beq k w_steps = false, H2 : mentions w_steps x = false |- _ => now rewrite H1, H2 end.
    + apply andb_true_iff in Hs as [Hs _]. now apply negb_true_iff in Hs.
Qed.
Lemma job_lemma v : job_regular v = true -> job_known v = false -> all_steps v = job_uses v /\ steps_fine v = true.
Proof.
  destruct v as [s| |fl jm|fl l]; cbn [job_regular job_known job_uses].
  - intros _ _. split; reflexivity.
  - intros _ _. split; reflexivity.
  - intros Hr Hk. apply orb_false_iff in Hk as [-> Hk]. rewrite all_steps_map, steps_fine_map_eq.
    induction jm as [|[k x] t IH]; [split; reflexivity|].
    cbn [forallb existsb fst snd] in Hr, Hk. apply andb_true_iff in Hr as [Hr Hrt]. apply orb_false_iff in Hk as [Hk Hkt].
    destruct (IH Hrt Hkt) as [A B]. cbn [flat_map forallb fst snd]. rewrite A, B. unfold steps_pair at 1. cbn [negb andb].
    destruct (beq k w_steps) eqn:Es; cbn [andb] in *.
    + destruct (steps_lemma x Hr Hk) as [C D]. destruct (no_steps x (steps_regular_no_steps x Hr)) as [_ F]. rewrite C, D, F. split; reflexivity.
    + apply negb_true_iff in Hr. destruct (no_steps x Hr) as [C D]. rewrite C, D. split; reflexivity.
  - intros Hr _. apply negb_true_iff in Hr. exact (no_steps _ Hr).
Qed.
Lemma jobs_lemma jobs : forallb (fun j : bytes * yval => negb (beq (fst j) w_steps) && job_regular (snd j)) jobs = true ->
  existsb (fun j : bytes * yval => job_known (snd j)) jobs = false ->
  flat_map (fun e : bytes * yval => steps_pair false (fst e) (snd e)) jobs = flat_map (fun j : bytes * yval => job_uses (snd j)) jobs
  /\ forallb (fun e : bytes * yval => (if negb false && beq (fst e) w_steps then uses_fine (snd e) else true) && steps_fine (snd e)) jobs = true.
Proof.
  induction jobs as [|[jn j] tj IHj]; intros Hr Hk1; [split; reflexivity|].
  cbn [forallb existsb fst snd] in Hr, Hk1. apply andb_true_iff in Hr as [Hr Hrt]. apply orb_false_iff in Hk1 as [Hkj Hkt].
  apply andb_true_iff in Hr as [Hn Hj]. apply negb_true_iff in Hn. destruct (IHj Hrt Hkt) as [A B]. destruct (job_lemma j Hj Hkj) as [C D].
  cbn [flat_map forallb fst snd]. rewrite A, B. unfold steps_pair at 1. cbn [negb andb]. rewrite Hn, C, D. split; reflexivity.
Qed.
Lemma gha_value_level v : gha_regular v = true -> gha_known v = false -> all_steps v = declared_gha v /\ steps_fine v = true.
Proof.
  destruct v as [s| |fl top|fl l]; cbn [gha_regular gha_known declared_gha].
  - intros _ _. split; reflexivity.
  - intros _ _. split; reflexivity.
  - intros Hr Hk. apply orb_false_iff in Hk as [-> Hk]. rewrite all_steps_map, steps_fine_map_eq.
    induction top as [|[k x] t IH]; [split; reflexivity|].
    cbn [forallb existsb fst snd] in Hr, Hk. apply andb_true_iff in Hr as [Hr Hrt]. apply orb_false_iff in Hk as [Hk Hkt].
    destruct (IH Hrt Hkt) as [A B]. cbn [flat_map forallb fst snd]. rewrite A, B. unfold steps_pair at 1. cbn [negb andb].
    apply orb_false_iff in Hk as [Hk1 Hk2].
    destruct (beq k w_jobs) eqn:Ej.
    + apply beq_eq in Ej. subst k. change (beq w_jobs w_steps) with false. cbv iota. cbn [andb] in Hk1.
      destruct x as [s| |fl2 jobs|fl2 l2].
      * split; reflexivity.
      * split; reflexivity.
      * apply orb_false_iff in Hk1 as [-> Hk1]. rewrite all_steps_map, steps_fine_map_eq.
        destruct (jobs_lemma jobs Hr Hk1) as [-> ->]. split; reflexivity.
      * apply negb_true_iff in Hr. destruct (no_steps _ Hr) as [C D]. rewrite C, D. split; reflexivity.
    + destruct (beq k w_runs) eqn:Er.
      * apply beq_eq in Er. subst k. change (beq w_runs w_steps) with false. cbv iota. cbn [andb] in Hk2.
        destruct (job_lemma x Hr Hk2) as [C D]. rewrite C, D. split; reflexivity.
      * apply andb_true_iff in Hr as [Hn Hm]. apply negb_true_iff in Hn, Hm. rewrite Hn. destruct (no_steps x Hm) as [C D]. rewrite C, D. split; reflexivity.
  - intros Hr _. apply negb_true_iff in Hr. exact (no_steps _ Hr).
Qed.

(* ---------- one uses: value ---------- *)
Lemma ysplit_on_nonempty c s : ysplit_on c s <> [].
Proof. destruct s as [|x t]; cbn; [discriminate|]. destruct (x =? c); [discriminate|]. destruct (ysplit_on c t); discriminate. Qed.
Lemma split_char_aux_eq c s : forall acc, split_char_aux c s acc = match ysplit_on c s with h :: r => (rev acc ++ h) :: r | [] => [] end.
Proof.
  induction s as [|x t IH]; intros acc.
  - cbn. now rewrite app_nil_r.
  - cbn [split_char_aux ysplit_on]. pose proof (ysplit_on_nonempty c t) as Hne. destruct (x =? c) eqn:E.
    + rewrite (IH []). cbn [rev app]. rewrite app_nil_r. destruct (ysplit_on c t) eqn:Ey; [congruence|reflexivity].
    + rewrite (IH (x :: acc)). cbn [rev]. destruct (ysplit_on c t) as [|h r]; [congruence|]. now rewrite <- app_assoc.
Qed.
Lemma split_char_eq c s : split_char c s = ysplit_on c s.
Proof. unfold split_char. rewrite split_char_aux_eq. cbn [rev app]. pose proof (ysplit_on_nonempty c s). destruct (ysplit_on c s); [congruence|reflexivity]. Qed.
Definition nh (p : pkg) : bytes * bytes := (p_name p, match p_hash p with Some h => h | None => p_version p end).
Lemma has_byte_find c s : has_byte c s = false -> find_char c s = None.
Proof.
  unfold has_byte, find_char. generalize 0 as i. induction s as [|x t IH]; intros i H; [reflexivity|].
  cbn [existsb] in H. apply orb_false_iff in H as [H1 H2]. cbn [find_char_aux]. rewrite N.eqb_sym, H1. now apply IH.
Qed.
Lemma parse_uses_spec content s vn pk : uses_known s = false -> parse_uses_value content s vn = Some pk -> map nh pk = uses_decl s.
Proof.
  unfold uses_known, parse_uses_value, uses_decl. intros Hk H.
  destruct (starts_with p_local s || starts_with p_docker s) eqn:El.
  - cbn [andb] in Hk. rewrite (has_byte_find _ _ Hk) in H. injection H as <-. reflexivity.
  - destruct (find_char 64 s) as [at_|]; [|injection H as <-; reflexivity].
    rewrite split_char_eq in H. destruct (ysplit_on 47 (firstn_N at_ s)) as [|owner [|repo rest]]; try (injection H as <-; reflexivity).
    destruct (is_hash40 (skipn_N (at_ + 1) s)).
    + destruct (line_comment content (n_sb vn)) as [ci|]; [|discriminate]. cbn [bind] in H. injection H as <-. reflexivity.
    + injection H as <-. reflexivity.
Qed.

(* ---------- gha_in_steps: every uses: below a node ---------- *)
Definition uses_here (content : bytes) (n : node) : option (list pkg) :=
  if kind_is k_block_mapping_pair n then
    match child_by_field k_key n with
    | Some kn => bind (node_plain_text content kn) (fun key =>
          if beq key gha_uses_key then
            match child_by_field k_value n with
            | Some vn => bind (node_plain_text content vn) (fun value => parse_uses_value content value vn)
            | None => Some []
            end
          else Some [])
    | None => Some []
    end
  else Some [].
Lemma gha_in_steps_eq content n : gha_in_steps content n =
  match uses_here content n, concat_opt (gha_in_steps content) (n_children n) with Some a, Some b => Some (a ++ b) | _, _ => None end.
Proof.
  destruct n as [k f sb eb r c m ch].
  assert ((fix go (l : list node) : option (list pkg) :=
             match l with
             | [] => Some []
             | c0 :: t => match gha_in_steps content c0, go t with Some a, Some b => Some (a ++ b) | _, _ => None end
             end) ch = concat_opt (gha_in_steps content) ch) as Hgo.
  { induction ch as [|x t IH]; [reflexivity|]. cbn [concat_opt]. now rewrite IH. }
  cbn [gha_in_steps n_children]. rewrite Hgo. reflexivity.
Qed.
Lemma concat_sum {A B} (W : A -> option (list pkg)) (f : pkg -> B) (D : A -> list B) l :
  Forall (fun c => forall pc, W c = Some pc -> map f pc = D c) l ->
  forall pk, concat_opt W l = Some pk -> map f pk = flat_map D l.
Proof.
  induction 1 as [|x t Hx _ IH]; intros pk H.
  - cbn in H. injection H as <-. reflexivity.
  - cbn [concat_opt] in H. destruct (W x) as [a|] eqn:Ea; [|discriminate]. destruct (concat_opt W t) as [b|] eqn:Eb; [|discriminate].
    injection H as <-. rewrite map_app, (Hx a eq_refl), (IH b eq_refl). reflexivity.
Qed.
Definition Du (content : bytes) := Dn content all_uses uses_pair.
Definition Pu (content : bytes) := Pn content (fun v => uses_fine v = true) uses_pair_fine.
Lemma uses_kids_sum content n : good content n ->
  Forall (good content) (n_children n) /\ flat_map (Du content) (n_children n) = match denote_ynode content n with YDPair _ v => all_uses v | _ => Du content n end.
Proof. apply kids_sum; [reflexivity|reflexivity|exact all_uses_seq|exact all_uses_map]. Qed.
Lemma uses_kids_forall content n : Pu content n -> Forall (Pu content) (n_children n).
Proof.
  apply kids_forall; try reflexivity.
  - exact uses_fine_seq.
  - exact uses_fine_map.
  - intros fl k v [_ H]. exact H.
Qed.
Theorem in_steps_all content : forall n, Pu content n -> forall pk, gha_in_steps content n = Some pk -> map nh pk = Du content n.
Proof.
  induction n as [kd f sb eb r c m ch IHch] using node_ind'. intros Hp pk H.
  set (n := Node kd f sb eb r c m ch) in *.
  pose proof (P_good content _ _ n Hp) as Hg. destruct (uses_kids_sum content n Hg) as [_ Hsum].
  pose proof (uses_kids_forall content n Hp) as Hkids. change (n_children n) with ch in *.
  rewrite gha_in_steps_eq in H. change (n_children n) with ch in H.
  destruct (uses_here content n) as [a|] eqn:Eh; [|discriminate]. destruct (concat_opt (gha_in_steps content) ch) as [b|] eqn:Eb; [|discriminate].
  injection H as <-. rewrite map_app.
  assert (map nh b = flat_map (Du content) ch) as ->.
  { apply (concat_sum (gha_in_steps content) nh (Du content) ch); [|exact Eb].
    rewrite Forall_forall in IHch, Hkids |- *. intros x Hx pc Hpc. apply IHch; [exact Hx|now apply Hkids|exact Hpc]. }
  rewrite Hsum. unfold Pu, Pn in Hp. unfold Du, Dn. pose proof (yden_class content n) as Y.
  destruct (denote_ynode content n) as [v|k v|v| |] eqn:Dn0; try contradiction.
  - assert (kind_is k_block_mapping_pair n = false) as Hk by (apply not_pair_class; intros fl E; rewrite E in Y; exact Y).
    unfold uses_here in Eh. rewrite Hk in Eh. injection Eh as <-. reflexivity.
  - destruct Y as [fl Hc]. unfold pair_flow in *. rewrite Hc in *. unfold uses_pair. f_equal.
    unfold uses_here in Eh. destruct (kind_tests n) as [T _]. rewrite T, Hc in Eh. destruct fl; [injection Eh as <-; reflexivity|]. cbn [negb andb].
    destruct (pair_fields _ _ _ _ Dn0) as [kn [Ck [Wk [Dk Hval]]]]. destruct (wrap_scalar _ _ _ Wk Dk) as [tk [Tk Rk]].
    assert (node_plain_text content kn = Some k) as Hname by (unfold node_plain_text; rewrite Tk; cbn [option_map]; now rewrite (reading_name _ _ Rk)).
    rewrite Ck, Hname in Eh. cbn [bind] in Eh. change gha_uses_key with w_uses in Eh.
    destruct (beq k w_uses) eqn:Eu; [|injection Eh as <-; reflexivity].
    destruct Hp as [Hfine _]. rewrite Eu in Hfine. cbn [orb negb] in Hfine.
    destruct Hval as [[-> Cv]|[vn [Cv [Wv Dv]]]].
    + rewrite Cv in Eh. injection Eh as <-. reflexivity.
    + rewrite Cv in Eh. destruct v as [s| |fl2 l2|fl2 l2]; try discriminate.
      * destruct (wrap_scalar _ _ _ Wv Dv) as [tv [Tv Rv]]. unfold node_plain_text in Eh. rewrite Tv in Eh. cbn [option_map bind] in Eh.
        rewrite (reading_name _ _ Rv) in Eh. cbn [uses_value_fine] in Hfine. apply negb_true_iff in Hfine. cbn [uses_of].
        exact (parse_uses_spec content s vn a Hfine Eh).
      * exfalso. exact (wrapper_not_null _ _ Wv Dv).
  - assert (kind_is k_block_mapping_pair n = false) as Hk by (apply not_pair_class; intros fl E; destruct Y as [Y|Y]; rewrite E in Y; discriminate).
    unfold uses_here in Eh. rewrite Hk in Eh. injection Eh as <-. reflexivity.
  - assert (kind_is k_block_mapping_pair n = false) as Hk by (apply not_pair_class; intros fl E; rewrite E in Y; discriminate).
    unfold uses_here in Eh. rewrite Hk in Eh. injection Eh as <-. reflexivity.
Qed.

(* ---------- walk_gha: every steps: section of the document ---------- *)
Lemma walk_gha_eq content n : walk_gha content n =
  if kind_is k_block_mapping_pair n then
    match child_by_field k_key n with
    | Some kn => bind (node_plain_text content kn) (fun key =>
          if beq key gha_steps_key then
            match child_by_field k_value n with Some v => gha_in_steps content v | None => concat_opt (walk_gha content) (n_children n) end
          else concat_opt (walk_gha content) (n_children n))
    | None => concat_opt (walk_gha content) (n_children n)
    end
  else concat_opt (walk_gha content) (n_children n).
Proof.
  destruct n as [k f sb eb r c m ch].
  assert ((fix go (l : list node) : option (list pkg) :=
             match l with
             | [] => Some []
             | c0 :: t => match walk_gha content c0, go t with Some a, Some b => Some (a ++ b) | _, _ => None end
             end) ch = concat_opt (walk_gha content) ch) as Hgo.
  { induction ch as [|x t IH]; [reflexivity|]. cbn [concat_opt]. now rewrite IH. }
  cbn [walk_gha n_children]. rewrite Hgo. reflexivity.
Qed.
Definition Ds (content : bytes) := Dn content all_steps steps_pair.
Definition Ps (content : bytes) := Pn content (fun v => steps_fine v = true) steps_pair_fine.
Lemma steps_kids_sum content n : good content n ->
  Forall (good content) (n_children n) /\ flat_map (Ds content) (n_children n) = match denote_ynode content n with YDPair _ v => all_steps v | _ => Ds content n end.
Proof. apply kids_sum; [reflexivity|reflexivity|exact all_steps_seq|exact all_steps_map]. Qed.
Lemma steps_kids_forall content n : Ps content n -> Forall (Ps content) (n_children n).
Proof.
  apply kids_forall; try reflexivity.
  - exact steps_fine_seq.
  - exact steps_fine_map.
  - intros fl k v [_ H]. exact H.
Qed.
Theorem walk_gha_all content : forall n, Ps content n -> forall pk, walk_gha content n = Some pk -> map nh pk = Ds content n.
Proof.
  induction n as [kd f sb eb r c m ch IHch] using node_ind'. intros Hp pk H.
  set (n := Node kd f sb eb r c m ch) in *.
  pose proof (P_good content _ _ n Hp) as Hg. destruct (steps_kids_sum content n Hg) as [_ Hsum].
  pose proof (steps_kids_forall content n Hp) as Hkids. change (n_children n) with ch in *.
  assert (forall b, concat_opt (walk_gha content) ch = Some b -> map nh b = flat_map (Ds content) ch) as Hrec.
  { intros b Eb. apply (concat_sum (walk_gha content) nh (Ds content) ch); [|exact Eb].
    rewrite Forall_forall in IHch, Hkids |- *. intros x Hx pc Hpc. apply IHch; [exact Hx|now apply Hkids|exact Hpc]. }
  rewrite walk_gha_eq in H. change (n_children n) with ch in H.
  unfold Ps, Pn in Hp. pose proof (yden_class content n) as Y. unfold Ds at 1, Dn.
  destruct (denote_ynode content n) as [v|k v|v| |] eqn:Dn0; try contradiction.
  - assert (kind_is k_block_mapping_pair n = false) as Hk by (apply not_pair_class; intros fl E; rewrite E in Y; exact Y).
    rewrite Hk in H. rewrite (Hrec pk H), Hsum. unfold Ds, Dn. now rewrite Dn0.
  - destruct Y as [fl Hc]. unfold pair_flow in *. rewrite Hc in *. unfold steps_pair.
    destruct (kind_tests n) as [T _]. rewrite T, Hc in H. destruct fl.
    + cbn [negb andb]. now rewrite (Hrec pk H), Hsum.
    + cbn [negb andb].
      destruct (pair_fields _ _ _ _ Dn0) as [kn [Ck [Wk [Dk Hval]]]]. destruct (wrap_scalar _ _ _ Wk Dk) as [tk [Tk Rk]].
      assert (node_plain_text content kn = Some k) as Hname by (unfold node_plain_text; rewrite Tk; cbn [option_map]; now rewrite (reading_name _ _ Rk)).
      rewrite Ck, Hname in H. cbn [bind] in H. change gha_steps_key with w_steps in H.
      destruct (beq k w_steps) eqn:Es; [|now rewrite (Hrec pk H), Hsum].
      destruct Hp as [Hfine _]. cbn [negb andb] in Hfine.
      destruct Hval as [[-> Cv]|[vn [Cv [Wv Dv]]]].
      * rewrite Cv in H. now rewrite (Hrec pk H), Hsum.
      * rewrite Cv in H. rewrite Es in Hfine. assert (Pu content vn) as Hpu by (unfold Pu, Pn; rewrite Dv; exact Hfine).
        rewrite (in_steps_all content vn Hpu pk H). unfold Du, Dn. now rewrite Dv.
  - assert (kind_is k_block_mapping_pair n = false) as Hk by (apply not_pair_class; intros fl E; destruct Y as [Y|Y]; rewrite E in Y; discriminate).
    rewrite Hk in H. rewrite (Hrec pk H), Hsum. unfold Ds, Dn. now rewrite Dn0.
  - assert (kind_is k_block_mapping_pair n = false) as Hk by (apply not_pair_class; intros fl E; rewrite E in Y; discriminate).
    rewrite Hk in H. rewrite (Hrec pk H), Hsum. unfold Ds, Dn. now rewrite Dn0.
Qed.
Theorem gha_exact content root v :
  denote_yaml content root = Some v -> gha_regular v = true -> gha_known v = false ->
  forall pkgs, walk_gha content root = Some pkgs -> map nh pkgs = declared_gha v.
Proof.
  unfold denote_yaml. intros H Hr Hk pkgs Hw. destruct (denote_ynode content root) eqn:Dr; try discriminate. injection H as ->.
  destruct (gha_value_level v Hr Hk) as [Hdecl Hfine].
  assert (Ps content root) as Hp by (unfold Ps, Pn; rewrite Dr; exact Hfine).
  rewrite (walk_gha_all content root Hp pkgs Hw). unfold Ds, Dn. rewrite Dr. exact Hdecl.
Qed.
