(* C13 (and the gating parts of C14 / C16 / C18) on the backend event machine. *)
From Coq Require Import ZArith Lia.
From VL Require Import Lib.Bytes Model.Backend.

Lemma last_pub_app u a b acc : last_pub u (a ++ b) acc = last_pub u b (last_pub u a acc).
Proof.
  revert acc; induction a as [|o a IH]; intro acc; cbn [app last_pub]; [reflexivity|].
  destruct o; apply IH.
Qed.

Lemma doc_rev_set u t (l : list (uri * rev)) u' :
  option_map snd (find (fun d => fst d =? u') (set_doc u t l)) =
  if u =? u' then Some t else option_map snd (find (fun d => fst d =? u') l).
Proof.
  unfold set_doc. cbn [find fst]. destruct (u =? u') eqn:E; [reflexivity|].
  induction l as [|[a b] l IH]; cbn [filter find fst]; [reflexivity|].
  destruct (a =? u) eqn:Ea; cbn [negb].
  - apply N.eqb_eq in Ea. subst a. rewrite E. exact IH.
  - cbn [find fst]. destruct (a =? u'); [reflexivity | exact IH].
Qed.

Lemma doc_rev_remove u (l : list (uri * rev)) u' :
  option_map snd (find (fun d => fst d =? u') (filter (fun d => negb (fst d =? u)) l)) =
  if u =? u' then None else option_map snd (find (fun d => fst d =? u') l).
Proof.
  induction l as [|[a b] l IH]; cbn [filter find fst]; [destruct (u =? u'); reflexivity|].
  destruct (a =? u) eqn:Ea; cbn [negb].
  - apply N.eqb_eq in Ea. subst a. rewrite IH. destruct (u =? u'); reflexivity.
  - cbn [find fst]. destruct (a =? u') eqn:Ea'.
    + apply N.eqb_eq in Ea'. subst a. rewrite N.eqb_sym in Ea. rewrite Ea. reflexivity.
    + exact IH.
Qed.

(* ---------- C13, first half: the last publication is computed from the latest text ---------- *)
(* invariant: every open, supported and enabled document has a last publication, and it was
   computed from the document's current revision *)
Definition Current (c : bconfig) (s : bstate) (lastp : uri -> option publication) : Prop :=
  forall u t, doc_rev s u = Some t -> c_supported c u = true -> c_enabled c u = true ->
  exists p, lastp u = Some p /\ pb_rev p = t.

Lemma step_current c s e lastp :
  c_has_store c = true -> Current c s lastp ->
  let '(s', outs) := step c s e in Current c s' (fun u => last_pub u outs (lastp u)).
Proof.
  intros Hst Hc. destruct e as [u t | u t | u | p r | u]; cbn [step].
  - (* open *)
    unfold on_text.
    assert (Hgen : forall s' outs, docs s' = set_doc u t (docs s) ->
              (c_supported c u = true -> c_enabled c u = true -> outs = [OutPublish (mkPub u t (cver s))]) ->
              (forall o, In o outs -> match o with OutPublish p => pb_uri p = u | _ => True end) ->
              Current c s' (fun u0 => last_pub u0 outs (lastp u0))).
    { intros s' outs Hd Ho Hu u' t' Hr Hs He. unfold doc_rev in Hr. rewrite Hd, doc_rev_set in Hr.
      destruct (u =? u') eqn:E.
      - apply N.eqb_eq in E. subst u'. inversion Hr; subst t'. rewrite (Ho Hs He). cbn. rewrite N.eqb_refl. eauto.
      - destruct (Hc u' t' Hr Hs He) as [p [Hp Hrev]]. exists p. split; [|exact Hrev].
        assert (Hsame : forall l acc, (forall o, In o l -> match o with OutPublish q => pb_uri q = u | _ => True end) ->
                          last_pub u' l acc = acc).
        { induction l as [|o l IHl]; intros acc Hl; cbn [last_pub]; [reflexivity|].
          destruct o as [q| |b]; try (apply IHl; intros o' Ho'; apply Hl; right; exact Ho').
          rewrite IHl by (intros o' Ho'; apply Hl; right; exact Ho').
          specialize (Hl (OutPublish q) (or_introl eq_refl)). cbn in Hl. rewrite Hl, E. reflexivity. }
        rewrite Hsame by exact Hu. exact Hp. }
    destruct (negb (c_supported c u) || negb (c_enabled c u)) eqn:Eg.
    + apply Hgen; [reflexivity | | intros o []].
      intros Hs He. rewrite Hs, He in Eg. discriminate.
    + rewrite Hst. cbn [negb].
      destruct (pkg_of c t) as [p|]; [destruct (mem p (cached s) || mem p (marked s) || mem p (map fst (fetching s)))|];
        (apply Hgen; [reflexivity | intros _ _; reflexivity | intros o [<- | []]; reflexivity]).
  - (* change: same handler *)
    unfold on_text.
    assert (Hgen : forall s' outs, docs s' = set_doc u t (docs s) ->
              (c_supported c u = true -> c_enabled c u = true -> outs = [OutPublish (mkPub u t (cver s))]) ->
              (forall o, In o outs -> match o with OutPublish p => pb_uri p = u | _ => True end) ->
              Current c s' (fun u0 => last_pub u0 outs (lastp u0))).
    { intros s' outs Hd Ho Hu u' t' Hr Hs He. unfold doc_rev in Hr. rewrite Hd, doc_rev_set in Hr.
      destruct (u =? u') eqn:E.
      - apply N.eqb_eq in E. subst u'. inversion Hr; subst t'. rewrite (Ho Hs He). cbn. rewrite N.eqb_refl. eauto.
      - destruct (Hc u' t' Hr Hs He) as [p [Hp Hrev]]. exists p. split; [|exact Hrev].
        assert (Hsame : forall l acc, (forall o, In o l -> match o with OutPublish q => pb_uri q = u | _ => True end) ->
                          last_pub u' l acc = acc).
        { induction l as [|o l IHl]; intros acc Hl; cbn [last_pub]; [reflexivity|].
          destruct o as [q| |b]; try (apply IHl; intros o' Ho'; apply Hl; right; exact Ho').
          rewrite IHl by (intros o' Ho'; apply Hl; right; exact Ho').
          specialize (Hl (OutPublish q) (or_introl eq_refl)). cbn in Hl. rewrite Hl, E. reflexivity. }
        rewrite Hsame by exact Hu. exact Hp. }
    destruct (negb (c_supported c u) || negb (c_enabled c u)) eqn:Eg.
    + apply Hgen; [reflexivity | | intros o []].
      intros Hs He. rewrite Hs, He in Eg. discriminate.
    + rewrite Hst. cbn [negb].
      destruct (pkg_of c t) as [p|]; [destruct (mem p (cached s) || mem p (marked s) || mem p (map fst (fetching s)))|];
        (apply Hgen; [reflexivity | intros _ _; reflexivity | intros o [<- | []]; reflexivity]).
  - (* close *)
    intros u' t' Hr Hs He. unfold doc_rev in Hr. cbn [docs] in Hr. rewrite doc_rev_remove in Hr.
    destruct (u =? u'); [discriminate|]. cbn [last_pub]. apply Hc; assumption.
  - (* reply *)
    destruct (find (fun f => fst f =? p) (fetching s)) as [[p' u0]|] eqn:Ef.
    + destruct r.
      * (* versions stored: re-publication from the current text of u0 *)
        intros u' t' Hr Hs He. unfold doc_rev in *. cbn [docs] in Hr.
        destruct (option_map snd (find (fun d => fst d =? u0) (docs s))) as [t0|] eqn:E0.
        -- cbn [last_pub pb_uri]. destruct (u0 =? u') eqn:E.
           ++ apply N.eqb_eq in E. subst u'. rewrite E0 in Hr. inversion Hr; subst t'. eexists. split; reflexivity.
           ++ apply Hc; assumption.
        -- cbn [last_pub]. apply Hc; assumption.
      * intros u' t' Hr Hs He. cbn [last_pub]. apply Hc; assumption.
      * intros u' t' Hr Hs He. cbn [last_pub]. apply Hc; assumption.
    + intros u' t' Hr Hs He. cbn [last_pub]. apply Hc; assumption.
  - (* code action: no publication *)
    destruct (negb (c_supported c u) || negb (c_enabled c u) || negb (c_has_store c));
      intros u' t' Hr Hs He; cbn [last_pub]; apply Hc; assumption.
Qed.

Theorem last_publication_is_current c evs :
  c_has_store c = true ->
  forall s lastp, Current c s lastp ->
  let '(s', outs) := run c s evs in Current c s' (fun u => last_pub u outs (lastp u)).
Proof.
  intro Hst. induction evs as [|e evs IH]; intros s lastp Hc; cbn [run].
  - exact Hc.
  - pose proof (step_current c s e lastp Hst Hc) as H1. destruct (step c s e) as [s1 o1].
    specialize (IH s1 (fun u => last_pub u o1 (lastp u)) H1). destruct (run c s1 evs) as [s2 o2].
    intros u t Hr Hs He. destruct (IH u t Hr Hs He) as [p [Hp Hrev]]. exists p. split; [|exact Hrev].
    rewrite last_pub_app. exact Hp.
Qed.

Corollary last_publication_is_current_from_start c cached0 evs :
  c_has_store c = true ->
  let '(s', outs) := run c (init_state cached0) evs in
  forall u t, doc_rev s' u = Some t -> c_supported c u = true -> c_enabled c u = true ->
  exists p, last_pub u outs None = Some p /\ pb_rev p = t.
Proof.
  intro Hst.
  pose proof (last_publication_is_current c evs Hst (init_state cached0) (fun _ => None)) as H.
  destruct (run c (init_state cached0) evs) as [s' outs]. apply H.
  intros u t Hr. discriminate.
Qed.

(* ---------- C13, second half: convergence for one document ---------- *)
Definition only_uri (u : uri) (e : bevent) : bool :=
  match e with EvOpen u' _ | EvChange u' _ | EvClose u' | EvAction u' => u' =? u | EvReply _ _ => true end.

Definition Converged (u : uri) (s : bstate) (lastp : option publication) : Prop :=
  (forall f, In f (fetching s) -> snd f = u) /\
  (forall t, doc_rev s u = Some t -> exists p, lastp = Some p /\ pb_rev p = t /\ pb_cver p = cver s).

Lemma step_converged c s e u lastp :
  c_has_store c = true -> c_supported c u = true -> c_enabled c u = true -> only_uri u e = true ->
  Converged u s lastp ->
  let '(s', outs) := step c s e in Converged u s' (last_pub u outs lastp).
Proof.
  intros Hst Hs He Ho [Hf Hc].
  destruct e as [u' t | u' t | u' | p r | u']; cbn [only_uri] in Ho; try (apply N.eqb_eq in Ho; subst u'); cbn [step].
  - unfold on_text. rewrite Hs, He, Hst. cbn [negb orb].
    assert (Hdoc : forall fl, doc_rev (mkB (set_doc u t (docs s)) (cached s) (marked s) fl (cver s)) u = Some t).
    { intro fl. unfold doc_rev. cbn [docs]. rewrite doc_rev_set, N.eqb_refl. reflexivity. }
    destruct (pkg_of c t) as [p|]; [destruct (mem p (cached s) || mem p (marked s) || mem p (map fst (fetching s)))|];
      (split; [cbn [fetching]; try exact Hf; try (intros f [<- | Hin]; [reflexivity | apply Hf; exact Hin])
              | intros t' Hr; rewrite Hdoc in Hr; inversion Hr; subst t'; cbn [last_pub pb_uri]; rewrite N.eqb_refl;
                eexists; repeat split ]).
  - unfold on_text. rewrite Hs, He, Hst. cbn [negb orb].
    assert (Hdoc : forall fl, doc_rev (mkB (set_doc u t (docs s)) (cached s) (marked s) fl (cver s)) u = Some t).
    { intro fl. unfold doc_rev. cbn [docs]. rewrite doc_rev_set, N.eqb_refl. reflexivity. }
    destruct (pkg_of c t) as [p|]; [destruct (mem p (cached s) || mem p (marked s) || mem p (map fst (fetching s)))|];
      (split; [cbn [fetching]; try exact Hf; try (intros f [<- | Hin]; [reflexivity | apply Hf; exact Hin])
              | intros t' Hr; rewrite Hdoc in Hr; inversion Hr; subst t'; cbn [last_pub pb_uri]; rewrite N.eqb_refl;
                eexists; repeat split ]).
  - split; [exact Hf|]. intros t' Hr. unfold doc_rev in Hr. cbn [docs] in Hr. rewrite doc_rev_remove, N.eqb_refl in Hr. discriminate.
  - destruct (find (fun f => fst f =? p) (fetching s)) as [[p' u0]|] eqn:Ef.
    + assert (Hu0 : u0 = u) by (apply find_some in Ef as [Hin _]; apply (Hf _ Hin)). subst u0.
      assert (Hrest : forall f, In f (filter (fun f => negb (fst f =? p)) (fetching s)) -> snd f = u)
        by (intros f Hin; apply filter_In in Hin as [Hin _]; apply Hf; exact Hin).
      destruct r.
      * split; [exact Hrest|]. intros t' Hr. unfold doc_rev in *. cbn [docs] in *. rewrite Hr. cbn [last_pub pb_uri].
        rewrite N.eqb_refl. eexists. repeat split.
      * split; [exact Hrest|]. intros t' Hr. cbn [last_pub]. apply Hc. exact Hr.
      * split; [exact Hrest|]. intros t' Hr. cbn [last_pub]. apply Hc. exact Hr.
    + split; [exact Hf|]. intros t' Hr. cbn [last_pub]. apply Hc. exact Hr.
  - rewrite Hs, He, Hst. cbn [negb orb]. split; [exact Hf|]. intros t' Hr. cbn [last_pub]. apply Hc. exact Hr.
Qed.

(* for every sequence of edits of one document and replies in any order, the last publication is computed
   from the current text and the current cache content - in particular once no fetch is pending *)
Theorem single_document_converges c u evs :
  c_has_store c = true -> c_supported c u = true -> c_enabled c u = true ->
  forallb (only_uri u) evs = true ->
  forall s lastp, Converged u s lastp ->
  let '(s', outs) := run c s evs in Converged u s' (last_pub u outs lastp).
Proof.
  intros Hst Hs He. induction evs as [|e evs IH]; intros Hall s lastp Hc; cbn [run]; [exact Hc|].
  cbn [forallb] in Hall. apply andb_true_iff in Hall as [Ho Hall].
  pose proof (step_converged c s e u lastp Hst Hs He Ho Hc) as H1. destruct (step c s e) as [s1 o1].
  specialize (IH Hall s1 (last_pub u o1 lastp) H1). destruct (run c s1 evs) as [s2 o2].
  rewrite last_pub_app. exact IH.
Qed.

(* ---------- gating (C14, C16, C18) ---------- *)
Theorem unsupported_or_disabled_is_silent c s e u :
  (c_supported c u = false \/ c_enabled c u = false) ->
  match e with EvOpen u' _ | EvChange u' _ | EvAction u' => u' = u | _ => False end ->
  forall o, In o (snd (step c s e)) -> o = OutActions false.
Proof.
  intros Hd He o Ho.
  assert (Hg : negb (c_supported c u) || negb (c_enabled c u) = true) by (destruct Hd as [-> | ->]; [reflexivity | apply orb_true_r]).
  destruct e as [u' t | u' t | u' | p r | u']; try contradiction; subst u'; cbn [step] in Ho.
  - unfold on_text in Ho. rewrite Hg in Ho. destruct Ho.
  - unfold on_text in Ho. rewrite Hg in Ho. destruct Ho.
  - rewrite Hg in Ho. cbn [orb snd] in Ho. destruct Ho as [<- | []]. reflexivity.
Qed.

Definition quiet_output (o : output) : Prop :=
  match o with OutPublish _ => False | OutWarnNoCache => True | OutActions b => b = false end.

Lemma no_store_step c s e :
  c_has_store c = false -> fetching s = [] ->
  fetching (fst (step c s e)) = [] /\ forall o, In o (snd (step c s e)) -> quiet_output o.
Proof.
  intros Hst Hf. destruct e as [u t | u t | u | p r | u]; cbn [step].
  - unfold on_text. destruct (negb (c_supported c u) || negb (c_enabled c u)); cbn [fst snd fetching];
      [split; [exact Hf | intros o []]|]. rewrite Hst. cbn [negb fst snd fetching]. split; [exact Hf|].
    intros o [<- | []]. exact I.
  - unfold on_text. destruct (negb (c_supported c u) || negb (c_enabled c u)); cbn [fst snd fetching];
      [split; [exact Hf | intros o []]|]. rewrite Hst. cbn [negb fst snd fetching]. split; [exact Hf|].
    intros o [<- | []]. exact I.
  - cbn [fst snd fetching]. split; [exact Hf | intros o []].
  - rewrite Hf. cbn [find fst snd]. split; [exact Hf | intros o []].
  - rewrite Hst. rewrite !orb_true_r. cbn [fst snd]. split; [exact Hf|]. intros o [<- | []]. reflexivity.
Qed.

(* without a store: every open / change of a supported, enabled document yields exactly the
   warning, nothing is ever published, no code action is offered and no fetch is started *)
Theorem no_store_is_quiet c cached0 evs :
  c_has_store c = false ->
  let '(s', outs) := run c (init_state cached0) evs in
  fetching s' = [] /\ forall o, In o outs -> quiet_output o.
Proof.
  intro Hst.
  assert (Hgen : forall evs s, fetching s = [] ->
            let '(s', outs) := run c s evs in fetching s' = [] /\ forall o, In o outs -> quiet_output o).
  { induction evs0 as [|e evs0 IH]; intros s Hf; cbn [run]; [split; [exact Hf | intros o []]|].
    destruct (no_store_step c s e Hst Hf) as [Hf1 Ho1]. destruct (step c s e) as [s1 o1]. cbn [fst snd] in *.
    specialize (IH s1 Hf1). destruct (run c s1 evs0) as [s2 o2]. destruct IH as [Hf2 Ho2].
    split; [exact Hf2|]. intros o Ho. apply in_app_or in Ho as [Ho | Ho]; auto. }
  apply Hgen. reflexivity.
Qed.

Theorem no_store_warns_once c s u t :
  c_has_store c = false -> c_supported c u = true -> c_enabled c u = true ->
  snd (step c s (EvOpen u t)) = [OutWarnNoCache] /\ snd (step c s (EvChange u t)) = [OutWarnNoCache].
Proof. intros Hst Hs He. cbn [step]. unfold on_text. rewrite Hs, He, Hst. split; reflexivity. Qed.
