(* C11 / C12 proofs. *)
From Coq Require Import ZArith Lia.
From VL Require Import Lib.Bytes Model.CacheDb Model.CacheTx Gen.GenCache Proofs.CachePins.

Section Atomic.
  Variable D : Type.
  Variable effect : nat -> D -> D.

  (* inside an open transaction nothing is committed until the final commit *)
  Lemma inside_committed l d w i n :
    inside_only l = true ->
    committed (exec D effect (firstn n l) (mkTx d (Some w)) i) = d \/
    (length l <= n)%nat.
  Proof.
    revert w i n. induction l as [|t l IH]; intros w i n H; [discriminate|].
    destruct n as [|n]; [left; reflexivity|].
    destruct t; cbn [inside_only] in H; try discriminate.
    - destruct l; [|discriminate]. right. cbn. lia.
    - cbn [firstn exec working committed]. destruct (IH (effect i w) (S i) n H) as [A | B]; [left; exact A | right; cbn; lia].
    - cbn [firstn exec]. destruct (IH w i n H) as [A | B]; [left; exact A | right; cbn; lia].
  Qed.

  (* crash or error at any point of a well-bracketed method: all or nothing *)
  Theorem crash_atomic l d n :
    well_bracketed l = true ->
    after_crash_at D effect l n d = d \/ after_crash_at D effect l n d = after_complete D effect l d.
  Proof.
    unfold after_crash_at, after_complete. revert n. induction l as [|t l IH]; intros n H; [discriminate|].
    destruct n as [|n]; [left; reflexivity|].
    destruct t; cbn [well_bracketed] in H; try discriminate.
    - cbn [firstn exec committed].
      destruct (inside_committed l d d 0 n H) as [A | B]; [left; exact A|].
      right. rewrite firstn_all2 by exact B. reflexivity.
    - cbn [firstn exec]. apply IH. exact H.
  Qed.
End Atomic.

(* the write methods of cache.rs, as regenerated from the source, are well bracketed *)
Definition toks_of (fn : bytes) : list tok :=
  match find (fun p => beq (fst p) fn) stmt_order with
  | Some p => flat_map (fun n => match tok_of n with Some t => [t] | None => [] end) (snd p)
  | None => []
  end.
Definition fn_replace_versions : bytes := [114;101;112;108;97;99;101;95;118;101;114;115;105;111;110;115].
Definition fn_save_dist_tags : bytes := [115;97;118;101;95;100;105;115;116;95;116;97;103;115].
Definition fn_try_start_fetch : bytes := [116;114;121;95;115;116;97;114;116;95;102;101;116;99;104].
Definition fn_finish_fetch : bytes := [102;105;110;105;115;104;95;102;101;116;99;104].
Definition fn_mark_not_found : bytes := [109;97;114;107;95;110;111;116;95;102;111;117;110;100].

Lemma replace_versions_bracketed : well_bracketed (toks_of fn_replace_versions) = true.
Proof. reflexivity. Qed.
Lemma save_dist_tags_bracketed : well_bracketed (toks_of fn_save_dist_tags) = true.
Proof. reflexivity. Qed.
Lemma single_statement_methods :
  toks_of fn_finish_fetch = [TWriteAuto] /\ toks_of fn_mark_not_found = [TWriteAuto] /\
  toks_of fn_try_start_fetch = [TWriteAuto; TWriteAuto].
Proof. repeat split. Qed.

Theorem replace_versions_atomic D effect d n :
  let l := toks_of fn_replace_versions in
  after_crash_at D effect l n d = d \/ after_crash_at D effect l n d = after_complete D effect l d.
Proof. apply crash_atomic. exact replace_versions_bracketed. Qed.
Theorem save_dist_tags_atomic D effect d n :
  let l := toks_of fn_save_dist_tags in
  after_crash_at D effect l n d = d \/ after_crash_at D effect l n d = after_complete D effect l d.
Proof. apply crash_atomic. exact save_dist_tags_bracketed. Qed.

(* a single autocommit statement is atomic *)
Theorem single_statement_atomic D effect d n :
  after_crash_at D effect [TWriteAuto] n d = d \/
  after_crash_at D effect [TWriteAuto] n d = after_complete D effect [TWriteAuto] d.
Proof. destruct n as [|[|n]]; cbn; auto. Qed.

(* the claim: a crash between its two statements leaves the state of the first statement, and the
   second statement only runs when the first changed nothing *)
Theorem claim_crash_between T k now d :
  snd (try_start_fetch_stmt1 T k now d) = false -> fst (try_start_fetch_stmt1 T k now d) = d.
Proof.
  unfold try_start_fetch_stmt1. destruct (find_pkg d k) as [p|]; [|reflexivity].
  destruct (match p_fetching p with None => true | Some s => (s <? now - T)%Z end); [discriminate | reflexivity].
Qed.

(* ---------- schema ---------- *)
Lemma run_creates s : run_schema (repeat SCreate 6) s = mkSchema true (has_fetching s) (has_notfound s) (user_version s).
Proof. reflexivity. Qed.

(* every shape a release (or nothing) has left behind opens to the full schema, with the version
   max(recorded, number of migrations) *)
Theorem open_reaches_full s :
  legal_shape s = true ->
  full (open_db s) = true /\ user_version (open_db s) = N.max (user_version s) n_migrations.
Proof.
  destruct s as [t f nf uv]. unfold legal_shape, open_db, full. cbn [has_tables has_fetching has_notfound user_version].
  rewrite run_creates. cbn [user_version has_fetching has_notfound has_tables].
  unfold migration_stmts, n_migrations.
  intro H.
  destruct (N.leb_spec 1 uv), (N.leb_spec 2 uv), (N.ltb_spec uv 1), (N.ltb_spec uv 2); try lia;
    destruct t, f, nf; cbn in H; try discriminate;
    cbn [app run_schema fold_left schema_step has_tables has_fetching has_notfound user_version andb];
    (split; [reflexivity | lia]).
Qed.

Theorem open_idempotent s : legal_shape s = true -> open_db (open_db s) = open_db s.
Proof.
  intro H. destruct (open_reaches_full s H) as [Hf Hv].
  destruct (open_db s) as [t f nf uv] eqn:E. unfold full in Hf. cbn in Hf, Hv.
  destruct t, f, nf; try discriminate. unfold open_db. rewrite run_creates. cbn [user_version has_fetching has_notfound].
  unfold migration_stmts, n_migrations in *.
  assert (uv <? 1 = false) as -> by (apply N.ltb_ge; lia).
  assert (uv <? 2 = false) as -> by (apply N.ltb_ge; lia). reflexivity.
Qed.

(* every statement an open can issue is monotone on the schema and keeps a full schema full *)
Lemma schema_step_monotone st s :
  (has_tables s = true -> has_tables (schema_step st s) = true) /\
  (has_fetching s = true -> has_fetching (schema_step st s) = true) /\
  (has_notfound s = true -> has_notfound (schema_step st s) = true).
Proof. destruct st as [|[|c]|n]; cbn; auto. Qed.

(* a crash at any point of an open, followed by a complete open, reaches the full schema:
   every prefix of the statements leaves a shape from which opening works *)
Theorem open_crash_then_reopen s n :
  legal_shape s = true ->
  let stmts := open_stmts (user_version s) in
  full (open_db (run_schema (firstn n stmts) s)) = true.
Proof.
  intro H. cbn zeta.
  destruct s as [t f nf uv]. unfold legal_shape in H. cbn [has_tables has_fetching has_notfound user_version] in *.
  unfold open_stmts, migration_stmts, n_migrations.
  destruct (N.leb_spec 1 uv), (N.leb_spec 2 uv), (N.ltb_spec uv 1), (N.ltb_spec uv 2); try lia;
    destruct t, f, nf; cbn in H; try discriminate;
    do 10 (destruct n as [|n]; [try (assert (uv = 0) by lia; subst uv); try (assert (uv = 1) by lia; subst uv);
                                unfold open_db, full, migration_stmts, n_migrations; rewrite ?run_creates;
                                cbn [firstn repeat app run_schema fold_left schema_step has_tables has_fetching has_notfound user_version];
                                repeat match goal with |- context [?a <? ?b] => destruct (N.ltb_spec a b); try lia end;
                                reflexivity|]);
    (try (assert (uv = 0) by lia; subst uv); try (assert (uv = 1) by lia; subst uv);
     unfold open_db, full, migration_stmts, n_migrations; rewrite ?run_creates;
     cbn [firstn repeat app run_schema fold_left schema_step has_tables has_fetching has_notfound user_version];
     repeat match goal with |- context [?a <? ?b] => destruct (N.ltb_spec a b); try lia end;
     reflexivity).
Qed.

(* the migrations of the source are the two ALTERs the schema model has *)
Lemma migrations_are_modelled : N.of_nat (length migrations) = n_migrations.
Proof. reflexivity. Qed.
