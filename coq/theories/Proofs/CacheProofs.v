(* C08 / C03: the row-level cache model refines the abstract per-key map. *)
From Coq Require Import ZArith Lia.
From VL Require Import Lib.Bytes Lib.SemVer Model.SemverUtil Model.CacheDb Spec.AbsCache.

Lemma key_eqb_eq a b : key_eqb a b = true <-> a = b.
Proof.
  destruct a as [a1 a2], b as [b1 b2]. unfold key_eqb. cbn [fst snd].
  rewrite andb_true_iff, !beq_eq. split; [intros [-> ->]; reflexivity | intros [= -> ->]; auto].
Qed.
Lemma key_eqb_refl a : key_eqb a a = true.
Proof. apply key_eqb_eq. reflexivity. Qed.
Lemma key_eqb_neq a b : key_eqb a b = false <-> a <> b.
Proof.
  split; intro H.
  - intro E. apply key_eqb_eq in E. congruence.
  - destruct (key_eqb a b) eqn:E; [apply key_eqb_eq in E; contradiction | reflexivity].
Qed.
Lemma key_eqb_sym a b : key_eqb a b = key_eqb b a.
Proof.
  destruct (key_eqb a b) eqn:E.
  - apply key_eqb_eq in E. subst. symmetry. apply key_eqb_refl.
  - symmetry. apply key_eqb_neq. apply key_eqb_neq in E. congruence.
Qed.

(* ---------- invariant ---------- *)
Definition Inv (d : db) : Prop :=
  NoDup (map p_key (pkgs d)) /\ NoDup (map p_id (pkgs d)) /\
  (forall p, In p (pkgs d) -> p_id p < next_id d) /\
  (forall r, In r (vers d) -> fst r < next_id d) /\
  (forall r, In r (tags d) -> fst r < next_id d).

Lemma Inv_empty : Inv empty_db.
Proof. repeat split; cbn; try constructor; intros p []. Qed.

Lemma NoDup_app_snoc {A} (l : list A) (x : A) : NoDup l -> ~ In x l -> NoDup (l ++ [x]).
Proof.
  intros Hnd Hx. induction Hnd as [|y l Hy Hnd IH]; cbn.
  - constructor; [intros [] | constructor].
  - constructor.
    + intro Hin. apply in_app_or in Hin as [Hin | [<- | []]]; [contradiction | apply Hx; left; reflexivity].
    + apply IH. intro H. apply Hx. right. exact H.
Qed.

(* ---------- find / update on the packages table ---------- *)
Definition find_in (l : list pkg) (k : key) : option pkg := find (fun p => key_eqb (p_key p) k) l.

Lemma find_in_some l k p : find_in l k = Some p -> In p l /\ p_key p = k.
Proof. intro H. apply find_some in H as [H1 H2]. apply key_eqb_eq in H2. auto. Qed.

Lemma find_in_none l k : find_in l k = None -> forall p, In p l -> p_key p <> k.
Proof.
  intros H p Hp E. eapply find_none in H; [|exact Hp]. cbn in H. apply key_eqb_neq in H. contradiction.
Qed.

Lemma find_in_app l1 l2 k :
  find_in (l1 ++ l2) k = match find_in l1 k with Some p => Some p | None => find_in l2 k end.
Proof. unfold find_in. induction l1 as [|a l1 IH]; cbn; [reflexivity|]. destruct (key_eqb (p_key a) k); auto. Qed.

Lemma find_in_upd_same l k f :
  (forall p, p_key (f p) = p_key p) ->
  find_in (upd_pkgs k f l) k = option_map f (find_in l k).
Proof.
  intro Hf. unfold find_in, upd_pkgs. induction l as [|a l IH]; cbn; [reflexivity|].
  destruct (key_eqb (p_key a) k) eqn:E.
  - rewrite Hf, E. reflexivity.
  - rewrite E. exact IH.
Qed.

Lemma find_in_upd_other l k k' f :
  (forall p, p_key (f p) = p_key p) -> k <> k' ->
  find_in (upd_pkgs k f l) k' = find_in l k'.
Proof.
  intros Hf Hne. unfold find_in, upd_pkgs. induction l as [|a l IH]; cbn; [reflexivity|].
  destruct (key_eqb (p_key a) k) eqn:E.
  - rewrite Hf. apply key_eqb_eq in E.
    assert (key_eqb (p_key a) k' = false) as -> by (apply key_eqb_neq; congruence). exact IH.
  - destruct (key_eqb (p_key a) k'); [reflexivity | exact IH].
Qed.

Lemma upd_pkgs_keys l k f : (forall p, p_key (f p) = p_key p) -> map p_key (upd_pkgs k f l) = map p_key l.
Proof.
  intro Hf. unfold upd_pkgs. induction l as [|a l IH]; cbn; [reflexivity|].
  destruct (key_eqb (p_key a) k); rewrite ?Hf, IH; reflexivity.
Qed.
Lemma upd_pkgs_ids l k f : (forall p, p_id (f p) = p_id p) -> map p_id (upd_pkgs k f l) = map p_id l.
Proof.
  intro Hf. unfold upd_pkgs. induction l as [|a l IH]; cbn; [reflexivity|].
  destruct (key_eqb (p_key a) k); rewrite ?Hf, IH; reflexivity.
Qed.
Lemma upd_pkgs_in l k f q : In q (upd_pkgs k f l) -> exists p, In p l /\ (q = p \/ q = f p).
Proof.
  unfold upd_pkgs. intro H. apply in_map_iff in H as [p [Hq Hp]]. exists p. split; [exact Hp|].
  destruct (key_eqb (p_key p) k); auto.
Qed.

(* two rows with the same id are the same row *)
Lemma same_id_same_row l p q : NoDup (map p_id l) -> In p l -> In q l -> p_id p = p_id q -> p = q.
Proof.
  induction l as [|a l IH]; intros Hnd Hp Hq E; [destruct Hp|].
  cbn in Hnd. inversion Hnd as [|x xs Hnotin Hnd']; subst.
  destruct Hp as [<- | Hp], Hq as [<- | Hq]; try reflexivity.
  - exfalso. apply Hnotin. rewrite E. apply in_map. exact Hq.
  - exfalso. apply Hnotin. rewrite <- E. apply in_map. exact Hp.
  - apply IH; assumption.
Qed.

(* ---------- versions table ---------- *)
Lemma vers_exists_iff d id v :
  existsb (fun r => (fst r =? id) && beq (snd r) v) (vers d) = existsb (beq v) (vers_of d id).
Proof.
  unfold vers_of. induction (vers d) as [|[i w] l IH]; cbn; [reflexivity|].
  destruct (i =? id) eqn:E; cbn.
  - rewrite IH. f_equal. destruct (beq w v) eqn:B.
    + apply beq_eq in B. subst. symmetry. apply beq_refl.
    + symmetry. apply beq_neq. apply beq_neq in B. congruence.
  - exact IH.
Qed.

Lemma vers_of_insert_same d id v :
  vers_of (insert_version id v d) id =
  if existsb (beq v) (vers_of d id) then vers_of d id else vers_of d id ++ [v].
Proof.
  unfold insert_version. rewrite vers_exists_iff.
  destruct (existsb (beq v) (vers_of d id)); [reflexivity|].
  unfold vers_of. cbn [vers]. rewrite filter_app, map_app. cbn. rewrite N.eqb_refl. reflexivity.
Qed.

Lemma vers_of_insert_other d id id' v : id <> id' -> vers_of (insert_version id v d) id' = vers_of d id'.
Proof.
  intro Hne. unfold insert_version. destruct (existsb _ (vers d)); [reflexivity|].
  unfold vers_of. cbn [vers]. rewrite filter_app, map_app. cbn.
  assert (id =? id' = false) as -> by (apply N.eqb_neq; exact Hne). rewrite app_nil_r. reflexivity.
Qed.

Lemma insert_version_frame d id v :
  pkgs (insert_version id v d) = pkgs d /\ tags (insert_version id v d) = tags d /\
  next_id (insert_version id v d) = next_id d.
Proof. unfold insert_version. destruct (existsb _ _); auto. Qed.

Lemma fold_insert_frame vs d id :
  pkgs (fold_left (fun acc v => insert_version id v acc) vs d) = pkgs d /\
  tags (fold_left (fun acc v => insert_version id v acc) vs d) = tags d /\
  next_id (fold_left (fun acc v => insert_version id v acc) vs d) = next_id d.
Proof.
  revert d; induction vs as [|v vs IH]; intro d; cbn [fold_left]; [auto|].
  destruct (IH (insert_version id v d)) as [A [B C]]. destruct (insert_version_frame d id v) as [A' [B' C']].
  rewrite A, B, C, A', B', C'. auto.
Qed.

Lemma fold_insert_same vs d id :
  vers_of (fold_left (fun acc v => insert_version id v acc) vs d) id = add_new (vers_of d id) vs.
Proof.
  revert d; induction vs as [|v vs IH]; intro d; cbn [fold_left add_new]; [reflexivity|].
  rewrite IH, vers_of_insert_same. destruct (existsb (beq v) (vers_of d id)); reflexivity.
Qed.

Lemma fold_insert_other vs d id id' :
  id <> id' -> vers_of (fold_left (fun acc v => insert_version id v acc) vs d) id' = vers_of d id'.
Proof.
  intro Hne. revert d; induction vs as [|v vs IH]; intro d; cbn [fold_left]; [reflexivity|].
  rewrite IH. apply vers_of_insert_other. exact Hne.
Qed.

Lemma tags_of_frame_vers d d' id : tags d' = tags d -> tags_of d' id = tags_of d id.
Proof. unfold tags_of. intros ->. reflexivity. Qed.
Lemma vers_of_frame_tags d d' id : vers d' = vers d -> vers_of d' id = vers_of d id.
Proof. unfold vers_of. intros ->. reflexivity. Qed.

(* ---------- fresh ids have no rows ---------- *)
Lemma vers_of_fresh d id : (forall r, In r (vers d) -> fst r < id) -> vers_of d id = [].
Proof.
  intro H. unfold vers_of. induction (vers d) as [|r l IH]; cbn; [reflexivity|].
  assert (fst r =? id = false) as -> by (apply N.eqb_neq; specialize (H r (or_introl eq_refl)); lia).
  apply IH. intros r' Hr'. apply H. right. exact Hr'.
Qed.
Lemma tags_of_fresh d id : (forall r, In r (tags d) -> fst r < id) -> tags_of d id = [].
Proof.
  intro H. unfold tags_of. induction (tags d) as [|r l IH]; cbn; [reflexivity|].
  assert (fst r =? id = false) as -> by (apply N.eqb_neq; specialize (H r (or_introl eq_refl)); lia).
  apply IH. intros r' Hr'. apply H. right. exact Hr'.
Qed.

(* rows of different keys have different ids *)
Lemma ids_differ d p q k k' :
  Inv d -> find_pkg d k = Some p -> find_pkg d k' = Some q -> k <> k' -> p_id p <> p_id q.
Proof.
  intros [_ [Hid _]] Hp Hq Hne E.
  apply find_in_some in Hp as [Hp1 Hp2]. apply find_in_some in Hq as [Hq1 Hq2].
  assert (p = q) by (eapply same_id_same_row; eauto). congruence.
Qed.

(* ---------- abs under the basic table updates ---------- *)
Notation set_pkgs d l n := (mkDb l (vers d) (tags d) n) (only parsing).

Lemma abs_upd_same d k f n p :
  (forall q, p_key (f q) = p_key q) -> (forall q, p_id (f q) = p_id q) ->
  find_pkg d k = Some p ->
  abs (set_pkgs d (upd_pkgs k f (pkgs d)) n) k =
  Some (mkA (vers_of d (p_id p)) (tags_of d (p_id p)) (p_notfound (f p)) (p_updated (f p)) (p_fetching (f p))).
Proof.
  intros Hk Hi Hp. unfold abs, find_pkg. cbn [pkgs].
  change (find (fun p0 => key_eqb (p_key p0) k) (upd_pkgs k f (pkgs d))) with (find_in (upd_pkgs k f (pkgs d)) k).
  rewrite find_in_upd_same by exact Hk. unfold find_pkg in Hp. unfold find_in. rewrite Hp. cbn [option_map].
  rewrite Hi. reflexivity.
Qed.

Lemma abs_upd_other d k k' f n :
  (forall q, p_key (f q) = p_key q) -> k <> k' ->
  abs (set_pkgs d (upd_pkgs k f (pkgs d)) n) k' = abs d k'.
Proof.
  intros Hk Hne. unfold abs, find_pkg. cbn [pkgs].
  change (find (fun p0 => key_eqb (p_key p0) k') (upd_pkgs k f (pkgs d))) with (find_in (upd_pkgs k f (pkgs d)) k').
  rewrite find_in_upd_other by assumption. reflexivity.
Qed.

Lemma Inv_upd d k f n :
  (forall q, p_key (f q) = p_key q) -> (forall q, p_id (f q) = p_id q) -> next_id d <= n ->
  Inv d -> Inv (set_pkgs d (upd_pkgs k f (pkgs d)) n).
Proof.
  intros Hk Hi Hn [H1 [H2 [H3 [H4 H5]]]]. unfold Inv. cbn [pkgs vers tags next_id].
  rewrite upd_pkgs_keys, upd_pkgs_ids by assumption. repeat split; try assumption.
  - intros q Hq. apply upd_pkgs_in in Hq as [p [Hp [-> | ->]]]; [|rewrite Hi]; specialize (H3 p Hp); lia.
  - intros r Hr. specialize (H4 r Hr). lia.
  - intros r Hr. specialize (H5 r Hr). lia.
Qed.

Lemma abs_append_new d k now f nf k' :
  Inv d -> find_pkg d k = None ->
  abs (set_pkgs d (pkgs d ++ [mkPkg (next_id d) k now f nf]) (next_id d + 1)) k' =
  if key_eqb k k' then Some (mkA [] [] nf now f) else abs d k'.
Proof.
  intros [H1 [H2 [H3 [H4 H5]]]] Hnone. unfold abs, find_pkg. cbn [pkgs].
  change (find (fun p => key_eqb (p_key p) k') (pkgs d ++ [mkPkg (next_id d) k now f nf]))
    with (find_in (pkgs d ++ [mkPkg (next_id d) k now f nf]) k').
  rewrite find_in_app. unfold find_in at 2. cbn [find p_key].
  destruct (key_eqb k k') eqn:E.
  - apply key_eqb_eq in E. subst k'. unfold find_pkg in Hnone. unfold find_in. rewrite Hnone.
    cbn [p_id p_notfound p_updated p_fetching].
    unfold vers_of, tags_of. cbn [vers tags].
    change (map snd (filter (fun r => fst r =? next_id d) (vers d))) with (vers_of d (next_id d)).
    change (map snd (filter (fun r => fst r =? next_id d) (tags d))) with (tags_of d (next_id d)).
    rewrite vers_of_fresh, tags_of_fresh by assumption. reflexivity.
  - unfold find_in. destruct (find (fun p => key_eqb (p_key p) k') (pkgs d)); reflexivity.
Qed.

Lemma Inv_append_new d k now f nf :
  Inv d -> find_pkg d k = None ->
  Inv (set_pkgs d (pkgs d ++ [mkPkg (next_id d) k now f nf]) (next_id d + 1)).
Proof.
  intros [H1 [H2 [H3 [H4 H5]]]] Hnone. unfold Inv. cbn [pkgs vers tags next_id].
  rewrite !map_app. cbn [map p_key p_id]. repeat split.
  - apply NoDup_app_snoc; [exact H1|]. intro Hin. apply in_map_iff in Hin as [p [Hk Hp]].
    eapply find_in_none in Hnone; [|exact Hp]. contradiction.
  - apply NoDup_app_snoc; [exact H2|]. intro Hin. apply in_map_iff in Hin as [p [Hi Hp]].
    specialize (H3 p Hp). lia.
  - intros p Hp. apply in_app_or in Hp as [Hp | [<- | []]]; [specialize (H3 p Hp); lia | cbn; lia].
  - intros r Hr. specialize (H4 r Hr). lia.
  - intros r Hr. specialize (H5 r Hr). lia.
Qed.

(* ---------- each operation refines its abstract counterpart ---------- *)
Lemma db_eta d : d = mkDb (pkgs d) (vers d) (tags d) (next_id d).
Proof. destruct d; reflexivity. Qed.

Lemma abs_frame d d' :
  pkgs d' = pkgs d -> vers d' = vers d -> tags d' = tags d -> forall k, abs d' k = abs d k.
Proof.
  intros Hp Hv Ht k. unfold abs, find_pkg, vers_of, tags_of. rewrite Hp, Hv, Ht. reflexivity.
Qed.

Lemma Inv_bump d n : next_id d <= n -> Inv d -> Inv (mkDb (pkgs d) (vers d) (tags d) n).
Proof.
  intros Hn [H1 [H2 [H3 [H4 H5]]]]. unfold Inv. cbn. repeat split; try assumption.
  - intros p Hp. specialize (H3 p Hp). lia.
  - intros r Hr. specialize (H4 r Hr). lia.
  - intros r Hr. specialize (H5 r Hr). lia.
Qed.

(* --- store versions --- *)
Lemma store_refines T k vs now d :
  Inv d ->
  Inv (replace_versions k vs now d) /\
  forall k', abs (replace_versions k vs now d) k' = a_step T (OStore k vs now) (abs d) k'.
Proof.
  intro HI. unfold replace_versions, upsert_pkg.
  destruct (find_pkg d k) as [p|] eqn:Hf.
  - (* existing row: touch it, then insert the new versions *)
    set (f := fun q => mkPkg (p_id q) (p_key q) now (p_fetching q) (p_notfound q)).
    set (d1 := mkDb (upd_pkgs k f (pkgs d)) (vers d) (tags d) (next_id d + 1)).
    assert (HI1 : Inv d1) by (apply (Inv_upd d k f (next_id d + 1)); auto; lia).
    assert (Hf1 : find_pkg d1 k = Some (f p)).
    { unfold find_pkg, d1. cbn [pkgs].
      change (find (fun p0 => key_eqb (p_key p0) k) (upd_pkgs k f (pkgs d))) with (find_in (upd_pkgs k f (pkgs d)) k).
      rewrite find_in_upd_same by reflexivity. unfold find_pkg in Hf. unfold find_in. rewrite Hf. reflexivity. }
    rewrite Hf1. cbn [p_id f].
    destruct (fold_insert_frame vs d1 (p_id p)) as [Fp [Ft Fn]].
    split.
    + destruct HI1 as [H1 [H2 [H3 [H4 H5]]]]. unfold Inv. rewrite Fp, Ft, Fn. repeat split; try assumption.
      intros r Hr.
      assert (Hgen : forall vs0 d0, (forall r0, In r0 (vers d0) -> fst r0 < next_id d1) ->
                 forall r0, In r0 (vers (fold_left (fun acc v => insert_version (p_id p) v acc) vs0 d0)) -> fst r0 < next_id d1).
      { induction vs0 as [|v vs0 IHv]; intros d0 Hd0 r0 Hr0; cbn [fold_left] in Hr0; [apply Hd0; exact Hr0|].
        apply (IHv (insert_version (p_id p) v d0)); [|exact Hr0].
        intros r1 Hr1. unfold insert_version in Hr1. destruct (existsb _ (vers d0)); [apply Hd0; exact Hr1|].
        cbn [vers] in Hr1. apply in_app_or in Hr1 as [Hr1 | [<- | []]]; [apply Hd0; exact Hr1|].
        cbn [fst]. apply find_in_some in Hf as [Hin _]. 
        assert (In (f p) (pkgs d1)).
        { unfold d1. cbn [pkgs]. unfold upd_pkgs. apply in_map_iff. exists p. split; [|exact Hin].
          apply find_some in Hf1 as [_ Hk]. unfold find_pkg in *.
          destruct (key_eqb (p_key p) k) eqn:E; [reflexivity|].
          cbn in Hk. rewrite E in Hk. discriminate. }
        specialize (H3 (f p) H). exact H3. }
      apply (Hgen vs d1 H4 r Hr).
    + intro k'. unfold abs at 1. unfold find_pkg. rewrite Fp.
      change (find (fun p0 => key_eqb (p_key p0) k') (pkgs d1)) with (find_pkg d1 k').
      cbn [a_step]. destruct (key_eqb k k') eqn:E.
      * apply key_eqb_eq in E. subst k'. rewrite Hf1. cbn [p_id f p_notfound p_updated p_fetching].
        rewrite fold_insert_same.
        unfold abs. rewrite Hf. cbn [a_versions a_tags a_nonexistent a_claim]. f_equal. f_equal.
        unfold tags_of. rewrite Ft. reflexivity.
      * apply key_eqb_neq in E.
        assert (Hother : find_pkg d1 k' = find_pkg d k').
        { unfold find_pkg, d1. cbn [pkgs]. apply (find_in_upd_other (pkgs d) k k' f); [reflexivity | exact E]. }
        rewrite Hother. unfold abs. destruct (find_pkg d k') as [q|] eqn:Hq; [|reflexivity].
        assert (Hid : p_id p <> p_id q) by (apply (ids_differ d p q k k' HI Hf Hq E)).
        rewrite fold_insert_other by exact Hid. unfold tags_of. rewrite Ft. reflexivity.
  - (* new row *)
    set (d1 := mkDb (pkgs d ++ [mkPkg (next_id d) k now None false]) (vers d) (tags d) (next_id d + 1)).
    assert (HI1 : Inv d1) by (apply (Inv_append_new d k now None false HI Hf)).
    assert (Hf1 : find_pkg d1 k = Some (mkPkg (next_id d) k now None false)).
    { unfold find_pkg, d1. cbn [pkgs].
      change (find (fun p0 => key_eqb (p_key p0) k) (pkgs d ++ [mkPkg (next_id d) k now None false]))
        with (find_in (pkgs d ++ [mkPkg (next_id d) k now None false]) k).
      rewrite find_in_app. unfold find_pkg in Hf. unfold find_in at 1. rewrite Hf.
      unfold find_in. cbn. rewrite key_eqb_refl. reflexivity. }
    rewrite Hf1. cbn [p_id].
    destruct (fold_insert_frame vs d1 (next_id d)) as [Fp [Ft Fn]].
    split.
    + destruct HI1 as [H1 [H2 [H3 [H4 H5]]]]. unfold Inv. rewrite Fp, Ft, Fn. repeat split; try assumption.
      intros r Hr.
      assert (Hgen : forall vs0 d0, (forall r0, In r0 (vers d0) -> fst r0 < next_id d1) ->
                 forall r0, In r0 (vers (fold_left (fun acc v => insert_version (next_id d) v acc) vs0 d0)) -> fst r0 < next_id d1).
      { induction vs0 as [|v vs0 IHv]; intros d0 Hd0 r0 Hr0; cbn [fold_left] in Hr0; [apply Hd0; exact Hr0|].
        apply (IHv (insert_version (next_id d) v d0)); [|exact Hr0].
        intros r1 Hr1. unfold insert_version in Hr1. destruct (existsb _ (vers d0)); [apply Hd0; exact Hr1|].
        cbn [vers] in Hr1. apply in_app_or in Hr1 as [Hr1 | [<- | []]]; [apply Hd0; exact Hr1|].
        cbn [fst]. unfold d1. cbn [next_id]. lia. }
      apply (Hgen vs d1 H4 r Hr).
    + intro k'. unfold abs at 1. unfold find_pkg. rewrite Fp.
      change (find (fun p0 => key_eqb (p_key p0) k') (pkgs d1)) with (find_pkg d1 k').
      pose proof (abs_append_new d k now None false k' HI Hf) as Happ.
      fold d1 in Happ.
      cbn [a_step]. destruct (key_eqb k k') eqn:E.
      * apply key_eqb_eq in E. subst k'. rewrite Hf1. cbn [p_id p_notfound p_updated p_fetching].
        rewrite fold_insert_same.
        destruct HI as [_ [_ [_ [H4 H5]]]].
        assert (vers_of d1 (next_id d) = []) as -> by (apply vers_of_fresh; exact H4).
        unfold tags_of. rewrite Ft. change (map snd (filter (fun r => fst r =? next_id d) (tags d1))) with (tags_of d1 (next_id d)).
        assert (tags_of d1 (next_id d) = []) as -> by (apply tags_of_fresh; exact H5).
        unfold abs. rewrite Hf. reflexivity.
      * unfold abs in Happ. unfold abs. 
        destruct (find_pkg d1 k') as [q|] eqn:Hq.
        -- assert (Hid : next_id d <> p_id q).
           { intro Eid. apply key_eqb_neq in E. apply find_in_some in Hq as [Hin Hk].
             unfold d1 in Hin. cbn [pkgs] in Hin. apply in_app_or in Hin as [Hin | [<- | []]].
             - destruct HI as [_ [_ [H3 _]]]. specialize (H3 q Hin). lia.
             - cbn in Hk. congruence. }
           rewrite fold_insert_other by exact Hid. unfold tags_of. rewrite Ft. exact Happ.
        -- exact Happ.
Qed.

(* --- store tags --- *)
Lemma tags_of_delete_same d id : tags_of (delete_tags id d) id = [].
Proof.
  unfold tags_of, delete_tags. cbn [tags]. induction (tags d) as [|r l IH]; cbn; [reflexivity|].
  destruct (fst r =? id) eqn:E; cbn; [exact IH | rewrite E; exact IH].
Qed.
Lemma tags_of_delete_other d id id' : id <> id' -> tags_of (delete_tags id d) id' = tags_of d id'.
Proof.
  intro Hne. unfold tags_of, delete_tags. cbn [tags]. induction (tags d) as [|r l IH]; cbn; [reflexivity|].
  destruct (fst r =? id) eqn:E; cbn.
  - apply N.eqb_eq in E. assert (fst r =? id' = false) as -> by (apply N.eqb_neq; congruence). exact IH.
  - destruct (fst r =? id'); cbn; rewrite IH; reflexivity.
Qed.
Lemma fold_tag_frame m d id :
  pkgs (fold_left (fun acc t => insert_tag id t acc) m d) = pkgs d /\
  vers (fold_left (fun acc t => insert_tag id t acc) m d) = vers d /\
  next_id (fold_left (fun acc t => insert_tag id t acc) m d) = next_id d.
Proof. revert d; induction m as [|t m IH]; intro d; cbn [fold_left]; [auto|]. apply (IH (insert_tag id t d)). Qed.
Lemma fold_tag_same m d id :
  tags_of (fold_left (fun acc t => insert_tag id t acc) m d) id = tags_of d id ++ m.
Proof.
  revert d; induction m as [|t m IH]; intro d; cbn [fold_left]; [rewrite app_nil_r; reflexivity|].
  rewrite IH. unfold tags_of, insert_tag. cbn [tags]. rewrite filter_app, map_app. cbn. rewrite N.eqb_refl.
  cbn. rewrite <- app_assoc. reflexivity.
Qed.
Lemma fold_tag_other m d id id' :
  id <> id' -> tags_of (fold_left (fun acc t => insert_tag id t acc) m d) id' = tags_of d id'.
Proof.
  intro Hne. revert d; induction m as [|t m IH]; intro d; cbn [fold_left]; [reflexivity|].
  rewrite IH. unfold tags_of, insert_tag. cbn [tags]. rewrite filter_app, map_app. cbn.
  assert (id =? id' = false) as -> by (apply N.eqb_neq; exact Hne). rewrite app_nil_r. reflexivity.
Qed.
Lemma fold_tag_bound m d id n :
  id < n -> (forall r, In r (tags d) -> fst r < n) ->
  forall r, In r (tags (fold_left (fun acc t => insert_tag id t acc) m d)) -> fst r < n.
Proof.
  intros Hid. revert d; induction m as [|t m IH]; intros d Hd r Hr; cbn [fold_left] in Hr; [apply Hd; exact Hr|].
  apply (IH (insert_tag id t d)); [|exact Hr]. intros r1 Hr1. unfold insert_tag in Hr1. cbn [tags] in Hr1.
  apply in_app_or in Hr1 as [Hr1 | [<- | []]]; [apply Hd; exact Hr1 | exact Hid].
Qed.

(* the common second half of save_dist_tags once the row p exists in d1 *)
Lemma tags_second_half d1 p k m :
  Inv d1 -> find_pkg d1 k = Some p ->
  let d2 := fold_left (fun acc t => insert_tag (p_id p) t acc) m (delete_tags (p_id p) d1) in
  Inv d2 /\
  forall k', abs d2 k' =
    if key_eqb k k' then Some (mkA (vers_of d1 (p_id p)) m (p_notfound p) (p_updated p) (p_fetching p))
    else abs d1 k'.
Proof.
  intros HI1 Hf1 d2.
  destruct (fold_tag_frame m (delete_tags (p_id p) d1) (p_id p)) as [Fp [Fv Fn]].
  assert (Hpin : In p (pkgs d1)) by (apply find_in_some in Hf1 as [H _]; exact H).
  split.
  - destruct HI1 as [H1 [H2 [H3 [H4 H5]]]]. unfold Inv. subst d2. rewrite Fp, Fv, Fn. cbn [delete_tags pkgs vers next_id].
    repeat split; try assumption.
    apply fold_tag_bound; [apply H3; exact Hpin|].
    intros r Hr. cbn [delete_tags tags] in Hr. apply filter_In in Hr as [Hr _]. apply H5. exact Hr.
  - intro k'. unfold abs at 1. unfold find_pkg. subst d2. rewrite Fp. cbn [delete_tags pkgs].
    change (find (fun p0 => key_eqb (p_key p0) k') (pkgs d1)) with (find_pkg d1 k').
    destruct (key_eqb k k') eqn:E.
    + apply key_eqb_eq in E. subst k'. rewrite Hf1. rewrite fold_tag_same, tags_of_delete_same. cbn [app].
      unfold vers_of. rewrite Fv. reflexivity.
    + apply key_eqb_neq in E. unfold abs. destruct (find_pkg d1 k') as [q|] eqn:Hq; [|reflexivity].
      assert (Hid : p_id p <> p_id q) by (apply (ids_differ d1 p q k k' HI1 Hf1 Hq E)).
      rewrite fold_tag_other, tags_of_delete_other by exact Hid. unfold vers_of. rewrite Fv. reflexivity.
Qed.

Lemma tags_refines T k m now d :
  Inv d ->
  Inv (save_dist_tags k m now d) /\
  forall k', abs (save_dist_tags k m now d) k' = a_step T (OTags k m now) (abs d) k'.
Proof.
  intro HI. unfold save_dist_tags. destruct m as [|t0 m0]; [split; [exact HI | reflexivity]|].
  set (m := t0 :: m0). unfold upsert_pkg.
  destruct (find_pkg d k) as [p|] eqn:Hf.
  - set (d1 := mkDb (pkgs d) (vers d) (tags d) (next_id d + 1)).
    assert (HI1 : Inv d1) by (apply Inv_bump; [lia | exact HI]).
    assert (Hf1 : find_pkg d1 k = Some p) by exact Hf.
    rewrite Hf1. destruct (tags_second_half d1 p k m HI1 Hf1) as [HI2 Habs].
    split; [exact HI2|]. intro k'. rewrite Habs. unfold m. cbn [a_step]. destruct (key_eqb k k') eqn:E.
    + apply key_eqb_eq in E. subst k'. unfold abs. rewrite Hf. reflexivity.
    + reflexivity.
  - set (pn := mkPkg (next_id d) k now None false).
    set (d1 := mkDb (pkgs d ++ [pn]) (vers d) (tags d) (next_id d + 1)).
    assert (HI1 : Inv d1) by (apply (Inv_append_new d k now None false HI Hf)).
    assert (Hf1 : find_pkg d1 k = Some pn).
    { unfold find_pkg, d1. cbn [pkgs].
      change (find (fun p0 => key_eqb (p_key p0) k) (pkgs d ++ [pn])) with (find_in (pkgs d ++ [pn]) k).
      rewrite find_in_app. unfold find_pkg in Hf. unfold find_in at 1. rewrite Hf.
      unfold find_in. cbn. rewrite key_eqb_refl. reflexivity. }
    rewrite Hf1. destruct (tags_second_half d1 pn k m HI1 Hf1) as [HI2 Habs].
    split; [exact HI2|]. intro k'. rewrite Habs. unfold m. cbn [a_step].
    pose proof (abs_append_new d k now None false k' HI Hf) as Happ. fold pn in Happ. fold d1 in Happ.
    destruct (key_eqb k k') eqn:E.
    + apply key_eqb_eq in E. subst k'. unfold abs at 1. rewrite Hf. cbn [pn p_id p_notfound p_updated p_fetching].
      destruct HI as [_ [_ [_ [H4 _]]]].
      assert (vers_of d1 (next_id d) = []) as -> by (apply vers_of_fresh; exact H4). reflexivity.
    + exact Happ.
Qed.

(* --- mark, release --- *)
Lemma mark_refines T k d :
  Inv d -> Inv (mark_not_found k d) /\ forall k', abs (mark_not_found k d) k' = a_step T (OMark k) (abs d) k'.
Proof.
  intro HI. unfold mark_not_found.
  set (f := fun q => mkPkg (p_id q) (p_key q) (p_updated q) (p_fetching q) true).
  split; [apply (Inv_upd d k f (next_id d)); auto; lia|].
  intro k'. cbn [a_step]. destruct (key_eqb k k') eqn:E.
  - apply key_eqb_eq in E. subst k'. unfold abs at 2. destruct (find_pkg d k) as [p|] eqn:Hf.
    + rewrite (abs_upd_same d k f (next_id d) p); auto.
    + unfold abs, find_pkg. cbn [pkgs].
      change (find (fun p0 => key_eqb (p_key p0) k) (upd_pkgs k f (pkgs d))) with (find_in (upd_pkgs k f (pkgs d)) k).
      rewrite find_in_upd_same by reflexivity. unfold find_pkg in Hf. unfold find_in. rewrite Hf. reflexivity.
  - apply key_eqb_neq in E. apply (abs_upd_other d k k' f (next_id d)); auto.
Qed.

Lemma release_refines T k d :
  Inv d -> Inv (finish_fetch k d) /\ forall k', abs (finish_fetch k d) k' = a_step T (ORelease k) (abs d) k'.
Proof.
  intro HI. unfold finish_fetch.
  set (f := fun q => mkPkg (p_id q) (p_key q) (p_updated q) None (p_notfound q)).
  split; [apply (Inv_upd d k f (next_id d)); auto; lia|].
  intro k'. cbn [a_step]. destruct (key_eqb k k') eqn:E.
  - apply key_eqb_eq in E. subst k'. unfold abs at 2. destruct (find_pkg d k) as [p|] eqn:Hf.
    + rewrite (abs_upd_same d k f (next_id d) p); auto.
    + unfold abs, find_pkg. cbn [pkgs].
      change (find (fun p0 => key_eqb (p_key p0) k) (upd_pkgs k f (pkgs d))) with (find_in (upd_pkgs k f (pkgs d)) k).
      rewrite find_in_upd_same by reflexivity. unfold find_pkg in Hf. unfold find_in. rewrite Hf. reflexivity.
  - apply key_eqb_neq in E. apply (abs_upd_other d k k' f (next_id d)); auto.
Qed.

(* --- claim --- *)
Lemma claim_refines T k now d :
  Inv d ->
  Inv (fst (try_start_fetch T k now d)) /\
  (forall k', abs (fst (try_start_fetch T k now d)) k' = a_step T (OClaim k now) (abs d) k') /\
  snd (try_start_fetch T k now d) = a_claim_ok T k now (abs d).
Proof.
  intro HI. unfold try_start_fetch, try_start_fetch_stmt1, a_claim_ok.
  destruct (find_pkg d k) as [p|] eqn:Hf.
  - assert (Habs : abs d k = Some (mkA (vers_of d (p_id p)) (tags_of d (p_id p)) (p_notfound p) (p_updated p) (p_fetching p)))
      by (unfold abs; rewrite Hf; reflexivity).
    rewrite Habs. cbn [a_claim].
    destruct (match p_fetching p with None => true | Some s => (s <? now - T)%Z end) eqn:Efree.
    + cbn [fst snd].
      set (f := fun q => mkPkg (p_id q) (p_key q) (p_updated q) (Some now) (p_notfound q)).
      split; [apply (Inv_upd d k f (next_id d)); auto; lia|]. split; [|reflexivity].
      intro k'. cbn [a_step]. destruct (key_eqb k k') eqn:E.
      * apply key_eqb_eq in E. subst k'. rewrite (abs_upd_same d k f (next_id d) p); auto.
        rewrite Habs. cbn [a_claim a_versions a_tags a_nonexistent a_updated]. rewrite Efree. reflexivity.
      * apply key_eqb_neq in E. apply (abs_upd_other d k k' f (next_id d)); auto.
    + unfold try_start_fetch_stmt2. rewrite Hf. cbn [fst snd].
      split; [apply Inv_bump; [lia | exact HI]|]. split; [|reflexivity].
      intro k'. rewrite (abs_frame d (mkDb (pkgs d) (vers d) (tags d) (next_id d + 1))) by reflexivity.
      cbn [a_step]. destruct (key_eqb k k') eqn:E; [|reflexivity].
      apply key_eqb_eq in E. subst k'. rewrite Habs. cbn [a_claim]. rewrite Efree. reflexivity.
  - assert (Habs : abs d k = None) by (unfold abs; rewrite Hf; reflexivity).
    rewrite Habs. unfold try_start_fetch_stmt2. rewrite Hf. cbn [fst snd].
    split; [apply (Inv_append_new d k now (Some now) false HI Hf)|]. split; [|reflexivity].
    intro k'. pose proof (abs_append_new d k now (Some now) false k' HI Hf) as Happ.
    rewrite Happ. cbn [a_step]. destruct (key_eqb k k') eqn:E; [|reflexivity].
    apply key_eqb_eq in E. subst k'. rewrite Habs. reflexivity.
Qed.

(* ---------- the refinement theorem ---------- *)
Lemma step_refines T o d :
  Inv d -> Inv (c_step T o d) /\ forall k', abs (c_step T o d) k' = a_step T o (abs d) k'.
Proof.
  intro HI. destruct o as [k vs now | k m now | k | k now | k]; cbn [c_step].
  - apply store_refines; exact HI.
  - apply tags_refines; exact HI.
  - apply mark_refines; exact HI.
  - destruct (claim_refines T k now d HI) as [A [B _]]. auto.
  - apply release_refines; exact HI.
Qed.

Lemma a_step_ext T o st st' : (forall k, st k = st' k) -> forall k, a_step T o st k = a_step T o st' k.
Proof.
  intros H k. destruct o as [k0 vs now | k0 m now | k0 | k0 now | k0]; cbn [a_step].
  - destruct (key_eqb k0 k); rewrite ?H; reflexivity.
  - destruct m; [apply H|]. destruct (key_eqb k0 k); rewrite ?H; reflexivity.
  - destruct (key_eqb k0 k); rewrite ?H; reflexivity.
  - destruct (key_eqb k0 k); rewrite ?H; reflexivity.
  - destruct (key_eqb k0 k); rewrite ?H; reflexivity.
Qed.

Theorem cache_refines T ops :
  forall d st, Inv d -> (forall k, abs d k = st k) ->
  Inv (fold_left (fun d o => c_step T o d) ops d) /\
  forall k, abs (fold_left (fun d o => c_step T o d) ops d) k =
            fold_left (fun st o => a_step T o st) ops st k.
Proof.
  induction ops as [|o ops IH]; intros d st HI Hst; cbn [fold_left]; [auto|].
  destruct (step_refines T o d HI) as [HI' Hstep].
  apply IH; [exact HI'|]. intro k. rewrite Hstep. apply a_step_ext. exact Hst.
Qed.

Theorem cache_refines_run T ops :
  Inv (c_run T ops) /\ forall k, abs (c_run T ops) k = a_run T ops k.
Proof. apply cache_refines; [apply Inv_empty | reflexivity]. Qed.

(* ---------- reads are functions of the abstract state ---------- *)
Definition a_versions_of (e : option aentry) : list bytes := match e with Some x => a_versions x | None => [] end.
Definition a_tag_of (t : bytes) (e : option aentry) : option bytes :=
  match e with Some x => option_map snd (find (fun y => beq (fst y) t) (a_tags x)) | None => None end.
Definition a_missing (e : option aentry) : bool :=
  match e with
  | Some x => match a_versions x with [] => negb (a_nonexistent x) | _ => false end
  | None => true
  end.
Definition a_latest (ign : bool) (e : option aentry) : option bytes :=
  match a_tag_of tag_latest e with
  | Some v => Some v
  | None => option_map fst (max_by_parsed (candidates ign (a_versions_of e)))
  end.

Lemma get_versions_abs k d : get_versions k d = a_versions_of (abs d k).
Proof. unfold get_versions, abs. destruct (find_pkg d k); reflexivity. Qed.

Lemma get_dist_tag_abs k t d : get_dist_tag k t d = a_tag_of t (abs d k).
Proof. unfold get_dist_tag, abs. destruct (find_pkg d k); reflexivity. Qed.

Lemma get_latest_abs ign k d : get_latest_version ign k d = a_latest ign (abs d k).
Proof. unfold get_latest_version, a_latest. rewrite get_dist_tag_abs, get_versions_abs. reflexivity. Qed.

Lemma version_exists_abs k v d : version_exists k v d = existsb (beq v) (a_versions_of (abs d k)).
Proof. unfold version_exists. rewrite get_versions_abs. reflexivity. Qed.

Lemma is_cached_abs d k : is_cached d k = negb (a_missing (abs d k)).
Proof.
  unfold is_cached, abs, a_missing. destruct (find_pkg d k) as [p|]; [|reflexivity].
  cbn [a_versions a_nonexistent]. destruct (vers_of d (p_id p)); cbn; [rewrite negb_involutive|]; reflexivity.
Qed.

Lemma filter_missing_abs reg names d :
  filter_packages_not_in_cache reg names d = filter (fun n => a_missing (abs d (reg, n))) names.
Proof.
  unfold filter_packages_not_in_cache. apply filter_ext. intro n. rewrite is_cached_abs, negb_involutive. reflexivity.
Qed.

Lemma refresh_abs known interval now d k :
  Inv d ->
  (In k (get_packages_needing_refresh known interval now d) <->
   exists e, abs d k = Some e /\ (a_updated e < now - interval)%Z /\ a_nonexistent e = false /\ known (fst k) = true).
Proof.
  intros [H1 _]. unfold get_packages_needing_refresh. rewrite in_map_iff. split.
  - intros [p [Hk Hp]]. apply filter_In in Hp as [Hin Hc]. apply andb_true_iff in Hc as [Hn Hkn].
    unfold needs_refresh in Hn. apply andb_true_iff in Hn as [Hu Hnf]. apply Z.ltb_lt in Hu. apply negb_true_iff in Hnf.
    assert (Hf : find_pkg d k = Some p).
    { subst k. unfold find_pkg. clear -H1 Hin. induction (pkgs d) as [|a l IH]; [destruct Hin|].
      cbn in H1. inversion H1 as [|x xs Hnot Hnd]; subst. cbn [find].
      destruct Hin as [-> | Hin]; [rewrite key_eqb_refl; reflexivity|].
      destruct (key_eqb (p_key a) (p_key p)) eqn:E.
      - apply key_eqb_eq in E. exfalso. apply Hnot. rewrite E. apply in_map. exact Hin.
      - apply IH; assumption. }
    eexists. unfold abs. rewrite Hf. split; [reflexivity|]. cbn. subst k. auto.
  - intros [e [Ha [Hu [Hnf Hkn]]]]. unfold abs in Ha. destruct (find_pkg d k) as [p|] eqn:Hf; [|discriminate].
    inversion Ha; subst e; clear Ha. cbn in Hu, Hnf. apply find_in_some in Hf as [Hin Hk].
    exists p. split; [exact Hk|]. apply filter_In. split; [exact Hin|].
    unfold needs_refresh. rewrite Hk, Hkn, Hnf. cbn [negb]. rewrite !andb_true_r. apply Z.ltb_lt. exact Hu.
Qed.

(* ---------- isolation: operations on other keys do not matter ---------- *)
Definition op_key (o : op) : key :=
  match o with OStore k _ _ | OTags k _ _ | OMark k | OClaim k _ | ORelease k => k end.

Lemma a_step_other T o st k : op_key o <> k -> a_step T o st k = st k.
Proof.
  intro Hne. apply key_eqb_neq in Hne.
  destruct o as [k0 vs now | k0 m now | k0 | k0 now | k0]; cbn [a_step op_key] in *; rewrite ?Hne; try reflexivity.
  destruct m; reflexivity.
Qed.

Theorem a_run_isolated T ops st k :
  fold_left (fun s o => a_step T o s) ops st k =
  fold_left (fun s o => a_step T o s) (filter (fun o => key_eqb (op_key o) k) ops) st k.
Proof.
  revert st. induction ops as [|o ops IH]; intro st; cbn [fold_left filter]; [reflexivity|].
  destruct (key_eqb (op_key o) k) eqn:E; cbn [fold_left].
  - apply IH.
  - rewrite IH. apply key_eqb_neq in E.
    (* skipping o does not change the k-component, and later steps on k only read it *)
    assert (Hext : forall l s s', s k = s' k ->
              fold_left (fun s0 o0 => a_step T o0 s0) (filter (fun o0 => key_eqb (op_key o0) k) l) s k =
              fold_left (fun s0 o0 => a_step T o0 s0) (filter (fun o0 => key_eqb (op_key o0) k) l) s' k).
    { induction l as [|o1 l IHl]; intros s s' Hs; cbn [filter fold_left]; [exact Hs|].
      destruct (key_eqb (op_key o1) k) eqn:E1; cbn [fold_left]; [|apply IHl; exact Hs].
      apply IHl. apply key_eqb_eq in E1.
      destruct o1 as [k0 vs now | k0 m now | k0 | k0 now | k0]; cbn [op_key] in E1; subst k0; cbn [a_step];
        rewrite ?key_eqb_refl, ?Hs; try reflexivity.
      all: try (destruct m; [exact Hs | rewrite key_eqb_refl, Hs; reflexivity]). }
    apply Hext. apply a_step_other. exact E.
Qed.

(* ---------- exactly the union of what was stored, without duplicates ---------- *)
Lemma add_new_in old vs v : In v (add_new old vs) <-> In v old \/ In v vs.
Proof.
  revert old; induction vs as [|w vs IH]; intro old; cbn [add_new]; [cbn; tauto|].
  destruct (existsb (beq w) old) eqn:E.
  - rewrite IH. cbn [In]. split; [tauto|]. intros [H | [<- | H]]; auto.
    left. apply existsb_exists in E as [x [Hx Hb]]. apply beq_eq in Hb. subst. exact Hx.
  - rewrite IH, in_app_iff. cbn [In]. tauto.
Qed.

Lemma add_new_nodup old vs : NoDup old -> NoDup (add_new old vs).
Proof.
  revert old; induction vs as [|w vs IH]; intros old H; cbn [add_new]; [exact H|].
  destruct (existsb (beq w) old) eqn:E; [apply IH; exact H|].
  apply IH. apply NoDup_app_snoc; [exact H|]. intro Hin.
  assert (existsb (beq w) old = true) by (apply existsb_exists; exists w; split; [exact Hin | apply beq_refl]). congruence.
Qed.

Definition stored_in (k : key) (v : bytes) (ops : list op) : Prop :=
  exists vs now, In (OStore k vs now) ops /\ In v vs.

Theorem versions_exact T ops k :
  NoDup (a_versions_of (a_run T ops k)) /\
  forall v, In v (a_versions_of (a_run T ops k)) <-> stored_in k v ops.
Proof.
  unfold a_run.
  assert (Hgen : forall ops st,
            NoDup (a_versions_of (st k)) ->
            NoDup (a_versions_of (fold_left (fun s o => a_step T o s) ops st k)) /\
            forall v, In v (a_versions_of (fold_left (fun s o => a_step T o s) ops st k)) <->
                      In v (a_versions_of (st k)) \/ stored_in k v ops).
  { induction ops0 as [|o ops0 IH]; intros st Hnd; cbn [fold_left].
    - split; [exact Hnd|]. intro v. unfold stored_in. split; [auto|]. intros [H | [vs [now [[] _]]]]; exact H.
    - assert (Hstep : NoDup (a_versions_of (a_step T o st k)) /\
                      forall v, In v (a_versions_of (a_step T o st k)) <->
                                In v (a_versions_of (st k)) \/ (exists vs now, o = OStore k vs now /\ In v vs)).
      { destruct o as [k0 vs now | k0 m now | k0 | k0 now | k0]; cbn [a_step].
        - destruct (key_eqb k0 k) eqn:E.
          + apply key_eqb_eq in E. subst k0. destruct (st k) as [e|]; cbn [a_versions_of a_versions] in *.
            * split; [apply add_new_nodup; exact Hnd|]. intro v. rewrite add_new_in. split.
              -- intros [H|H]; [auto | right; eauto].
              -- intros [H | [vs' [now' [[= <- <-] H]]]]; auto.
            * split; [apply add_new_nodup; constructor|]. intro v. rewrite add_new_in. cbn [In]. split.
              -- intros [[] | H]. right; eauto.
              -- intros [[] | [vs' [now' [[= <- <-] H]]]]; auto.
          + split; [exact Hnd|]. intro v. split; [auto|]. intros [H | [vs' [now' [[= -> _ _] _]]]]; [exact H|].
            rewrite key_eqb_refl in E. discriminate.
        - assert (Hsame : a_versions_of (match m with [] => st k | _ :: _ =>
                     if key_eqb k0 k then Some match st k with
                       | Some e => mkA (a_versions e) m (a_nonexistent e) (a_updated e) (a_claim e)
                       | None => mkA [] m false now None end else st k end) = a_versions_of (st k)).
          { destruct m; [reflexivity|]. destruct (key_eqb k0 k); [|reflexivity]. destruct (st k); reflexivity. }
          rewrite Hsame. split; [exact Hnd|]. intro v. split; [auto|]. intros [H | [vs' [now' [Hd _]]]]; [exact H | discriminate].
        - assert (Hsame : a_versions_of (if key_eqb k0 k then option_map (fun e => mkA (a_versions e) (a_tags e) true (a_updated e) (a_claim e)) (st k) else st k) = a_versions_of (st k)).
          { destruct (key_eqb k0 k); [|reflexivity]. destruct (st k); reflexivity. }
          rewrite Hsame. split; [exact Hnd|]. intro v. split; [auto|]. intros [H | [vs' [now' [Hd _]]]]; [exact H | discriminate].
        - assert (Hsame : a_versions_of (if key_eqb k0 k then Some match st k with
                     | Some e => if match a_claim e with Some s => (s <? now - T)%Z | None => true end
                                 then mkA (a_versions e) (a_tags e) (a_nonexistent e) (a_updated e) (Some now) else e
                     | None => mkA [] [] false now (Some now) end else st k) = a_versions_of (st k)).
          { destruct (key_eqb k0 k); [|reflexivity]. destruct (st k) as [e|]; [|reflexivity].
            cbn. destruct (match a_claim e with Some s => (s <? now - T)%Z | None => true end); reflexivity. }
          rewrite Hsame. split; [exact Hnd|]. intro v. split; [auto|]. intros [H | [vs' [now' [Hd _]]]]; [exact H | discriminate].
        - assert (Hsame : a_versions_of (if key_eqb k0 k then option_map (fun e => mkA (a_versions e) (a_tags e) (a_nonexistent e) (a_updated e) None) (st k) else st k) = a_versions_of (st k)).
          { destruct (key_eqb k0 k); [|reflexivity]. destruct (st k); reflexivity. }
          rewrite Hsame. split; [exact Hnd|]. intro v. split; [auto|]. intros [H | [vs' [now' [Hd _]]]]; [exact H | discriminate]. }
      destruct Hstep as [Hnd' Hin']. destruct (IH (a_step T o st) Hnd') as [A B]. split; [exact A|].
      intro v. rewrite B, Hin'. unfold stored_in. split.
      + intros [[H | [vs [now [-> Hv]]]] | [vs [now [Hi Hv]]]]; auto.
        * right. exists vs, now. split; [left; reflexivity | exact Hv].
        * right. exists vs, now. split; [right; exact Hi | exact Hv].
      + intros [H | [vs [now [[Ho | Hi] Hv]]]]; auto.
        * left. right. exists vs, now. auto.
        * right. exists vs, now. auto. }
  destruct (Hgen ops a_empty) as [A B]; [constructor|]. split; [exact A|].
  intro v. rewrite B. cbn. tauto.
Qed.

(* ---------- the tag map is the most recent non-empty one ---------- *)
Definition a_tags_of (e : option aentry) : list (bytes * bytes) := match e with Some x => a_tags x | None => [] end.
Definition last_tags (k : key) (ops : list op) : list (bytes * bytes) :=
  fold_left (fun acc o => match o with
                          | OTags k' (t :: m) _ => if key_eqb k' k then t :: m else acc
                          | _ => acc
                          end) ops [].

Theorem tags_exact T ops k : a_tags_of (a_run T ops k) = last_tags k ops.
Proof.
  unfold a_run, last_tags.
  assert (Hgen : forall ops0 st acc, a_tags_of (st k) = acc ->
            a_tags_of (fold_left (fun s o => a_step T o s) ops0 st k) =
            fold_left (fun acc o => match o with
                          | OTags k' (t :: m) _ => if key_eqb k' k then t :: m else acc
                          | _ => acc
                          end) ops0 acc).
  { induction ops0 as [|o ops0 IH]; intros st acc Hacc; cbn [fold_left]; [exact Hacc|].
    apply IH. destruct o as [k0 vs now | k0 m now | k0 | k0 now | k0]; cbn [a_step].
    - destruct (key_eqb k0 k); [|exact Hacc]. destruct (st k); exact Hacc.
    - destruct m as [|t m]; [exact Hacc|]. destruct (key_eqb k0 k); [|exact Hacc]. destruct (st k); reflexivity.
    - destruct (key_eqb k0 k); [|exact Hacc]. destruct (st k); exact Hacc.
    - destruct (key_eqb k0 k); [|exact Hacc]. destruct (st k) as [e|]; [|exact Hacc].
      cbn. destruct (match a_claim e with Some s => (s <? now - T)%Z | None => true end); exact Hacc.
    - destruct (key_eqb k0 k); [|exact Hacc]. destruct (st k); exact Hacc. }
  apply Hgen. reflexivity.
Qed.
