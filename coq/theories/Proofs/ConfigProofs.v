(* C14: documented options, defaults, unknown keys, malformed answers. *)
From Coq Require Import ZArith Lia.
From VL Require Import Lib.Bytes Lib.Reg Gen.GenConfig Model.Config Proofs.ConfigPins.

Definition k_cache : bytes := [99;97;99;104;101].
Definition k_refresh : bytes := [114;101;102;114;101;115;104;73;110;116;101;114;118;97;108].
Definition k_registries : bytes := [114;101;103;105;115;116;114;105;101;115].
Definition k_ignore : bytes := [105;103;110;111;114;101;80;114;101;114;101;108;101;97;115;101].
Definition k_enabled : bytes := [101;110;97;98;108;101;100].
Definition reg_keys : list bytes := map fst fields_RegistriesConfig.

(* null and the empty object mean all defaults; the defaults are the documented ones *)
Theorem null_is_defaults : on_config_answer (Some JNull) = CfgSet default_config.
Proof. reflexivity. Qed.
Theorem empty_object_is_defaults : dec_config (JObj []) = Some default_config.
Proof. reflexivity. Qed.
Theorem documented_defaults :
  cf_refresh_interval default_config = 86400000%Z /\ cf_ignore_prerelease default_config = true /\
  forall r, is_registry_enabled default_config r = true.
Proof. split; [reflexivity|]. split; [reflexivity|]. intro r. destruct r; reflexivity. Qed.

(* a failed request and a malformed answer leave the previous settings in force; only the latter is reported *)
Theorem failed_request_keeps_settings : on_config_answer None = CfgKeep.
Proof. reflexivity. Qed.
Theorem malformed_answer_keeps_settings j : j <> JNull -> dec_config j = None -> on_config_answer (Some j) = CfgKeepAndReport.
Proof. intros Hn Hd. unfold on_config_answer. destruct j; try contradiction; rewrite Hd; reflexivity. Qed.
Theorem scalars_are_malformed :
  forall b z s, dec_config (JBool b) = None /\ dec_config (JInt z) = None /\ dec_config JFloat = None /\ dec_config (JStr s) = None.
Proof. intros. repeat split. Qed.

(* ignorePrerelease: the value in the answer, or the default *)
Theorem ignore_prerelease_decoded l c :
  dec_config (JObj l) = Some c ->
  cf_ignore_prerelease c = match lookup k_ignore l with Some (JBool b) => b | _ => true end.
Proof.
  unfold dec_config. change (nth_key fields_LspConfig 2) with k_ignore.
  change (policy_of fields_LspConfig k_ignore) with 1. 
  destruct (match lookup (nth_key fields_LspConfig 0) l with Some x => dec_cache x | None => _ end) as [cv|]; [|discriminate].
  destruct (match lookup (nth_key fields_LspConfig 1) l with Some x => dec_registries x | None => _ end) as [rv|]; [|discriminate].
  destruct (lookup k_ignore l) as [v|]; cbn [missing].
  - destruct v; cbn [dec_bool]; try discriminate. intros [= <-]. reflexivity.
  - intros [= <-]. reflexivity.
Qed.

(* cache.refreshInterval: the value in the answer, or the default *)
Theorem refresh_interval_decoded l c :
  dec_config (JObj l) = Some c ->
  cf_refresh_interval c =
  match lookup k_cache l with
  | Some (JObj lc) => match lookup k_refresh lc with Some (JInt z) => z | _ => 86400000%Z end
  | Some (JArr [JInt z]) => z
  | _ => 86400000%Z
  end.
Proof.
  unfold dec_config. change (nth_key fields_LspConfig 0) with k_cache.
  change (policy_of fields_LspConfig k_cache) with 1.
  destruct (lookup k_cache l) as [v|]; cbn [missing].
  - unfold dec_cache, dec_single. change (nth_key fields_CacheConfig 0) with k_refresh.
    change (policy_of fields_CacheConfig k_refresh) with 1.
    destruct v as [| b | z | | s | la | lc]; try discriminate.
    + destruct la as [|v0 [|v1 la]]; cbn [missing]; try discriminate.
      * destruct (match lookup (nth_key fields_LspConfig 1) l with Some x => dec_registries x | None => _ end); [|discriminate].
        destruct (match lookup (nth_key fields_LspConfig 2) l with Some x => dec_bool x | None => _ end); [|discriminate].
        intros [= <-]. reflexivity.
      * destruct v0; cbn [dec_i64]; try discriminate. destruct (i64_ok z); [|discriminate].
        destruct (match lookup (nth_key fields_LspConfig 1) l with Some x => dec_registries x | None => _ end); [|discriminate].
        destruct (match lookup (nth_key fields_LspConfig 2) l with Some x => dec_bool x | None => _ end); [|discriminate].
        intros [= <-]. reflexivity.
    + destruct (lookup k_refresh lc) as [vz|]; cbn [missing].
      * destruct vz; cbn [dec_i64]; try discriminate. destruct (i64_ok z); [|discriminate].
        destruct (match lookup (nth_key fields_LspConfig 1) l with Some x => dec_registries x | None => _ end); [|discriminate].
        destruct (match lookup (nth_key fields_LspConfig 2) l with Some x => dec_bool x | None => _ end); [|discriminate].
        intros [= <-]. reflexivity.
      * destruct (match lookup (nth_key fields_LspConfig 1) l with Some x => dec_registries x | None => _ end); [|discriminate].
        destruct (match lookup (nth_key fields_LspConfig 2) l with Some x => dec_bool x | None => _ end); [|discriminate].
        intros [= <-]. reflexivity.
  - destruct (match lookup (nth_key fields_LspConfig 1) l with Some x => dec_registries x | None => _ end); [|discriminate].
    destruct (match lookup (nth_key fields_LspConfig 2) l with Some x => dec_bool x | None => _ end); [|discriminate].
    intros [= <-]. reflexivity.
Qed.

(* registries.<key>.enabled for an object-shaped answer: the value given, else true *)
Definition enabled_in (lr : list (bytes * json)) (k : bytes) : bool :=
  match lookup k lr with
  | Some (JObj le) => match lookup k_enabled le with Some (JBool b) => b | _ => true end
  | Some (JArr [JBool b]) => b
  | _ => true
  end.

Lemma dec_registry_value v b : dec_registry v = Some b ->
  b = match v with
      | JObj le => match lookup k_enabled le with Some (JBool b') => b' | _ => true end
      | JArr [JBool b'] => b'
      | _ => true
      end.
Proof.
  unfold dec_registry, dec_single. change (nth_key fields_RegistryConfig 0) with k_enabled.
  change (policy_of fields_RegistryConfig k_enabled) with 1.
  destruct v as [| b0 | z | | s | la | le]; try discriminate.
  - destruct la as [|v0 [|v1 la]]; cbn [missing]; try discriminate.
    + intros [= <-]. reflexivity.
    + destruct v0; cbn [dec_bool]; try discriminate. intros [= <-]. reflexivity.
  - destruct (lookup k_enabled le) as [vb|]; cbn [missing].
    + destruct vb; cbn [dec_bool]; try discriminate. intros [= <-]. reflexivity.
    + intros [= <-]. reflexivity.
Qed.

Theorem enabled_decoded lr rs :
  dec_registries (JObj lr) = Some rs -> rs = map (fun k => (k, enabled_in lr k)) reg_keys.
Proof.
  unfold dec_registries, reg_keys.
  generalize (map fst fields_RegistriesConfig) as keys.
  intro keys. revert rs. induction keys as [|k keys IH]; intros rs H; cbn [map all_some_l] in *.
  - inversion H. reflexivity.
  - destruct (lookup k lr) as [v|] eqn:El.
    + destruct (dec_registry v) as [b|] eqn:Ed; cbn [option_map] in H; [|discriminate].
      destruct (all_some_l _) as [rest|] eqn:Er; cbn [option_map] in H; [|discriminate].
      inversion H; subst rs. f_equal; [|apply IH; reflexivity].
      unfold enabled_in. rewrite El. f_equal. apply dec_registry_value in Ed. exact Ed.
    + assert (Hp : missing (policy_of fields_RegistriesConfig k) cfg_default_enabled cfg_default_enabled = Some true \/
                   missing (policy_of fields_RegistriesConfig k) cfg_default_enabled cfg_default_enabled = None).
      { unfold missing. destruct (policy_of fields_RegistriesConfig k) as [|[[p|p|]|[p|p|]|]]; try (left; reflexivity); try (right; reflexivity). }
      destruct Hp as [Hp | Hp]; rewrite Hp in H; cbn [option_map] in H; [|discriminate].
      destruct (all_some_l _) as [rest|] eqn:Er; cbn [option_map] in H; [|discriminate].
      inversion H; subst rs. f_equal; [|apply IH; reflexivity].
      unfold enabled_in. rewrite El. reflexivity.
Qed.

(* unknown keys are ignored: adding a key no struct knows changes nothing (top level) *)
Lemma lookup_cons_other k k' v l : beq k' k = false -> lookup k ((k', v) :: l) = lookup k l.
Proof. intro H. unfold lookup. cbn [find fst]. rewrite H. reflexivity. Qed.

Theorem unknown_key_ignored k v l :
  beq k k_cache = false -> beq k k_registries = false -> beq k k_ignore = false ->
  dec_config (JObj ((k, v) :: l)) = dec_config (JObj l).
Proof.
  intros H1 H2 H3. unfold dec_config.
  change (nth_key fields_LspConfig 0) with k_cache. change (nth_key fields_LspConfig 1) with k_registries.
  change (nth_key fields_LspConfig 2) with k_ignore.
  rewrite !lookup_cons_other by assumption. reflexivity.
Qed.

(* each registry type is gated by its own documented key *)
Theorem enabled_keys_documented :
  enabled_key = [ (Npm, [110;112;109]); (CratesIo, [99;114;97;116;101;115]); (GoProxy, [103;111;80;114;111;120;121]);
                  (GitHubActions, [103;105;116;104;117;98]); (PnpmCatalog, [112;110;112;109;67;97;116;97;108;111;103]);
                  (Jsr, [106;115;114]); (PyPI, [112;121;112;105]) ].
Proof. reflexivity. Qed.
