(* C02: the model's range semantics against the reference semantics. *)
From VL Require Import Lib.Bytes Lib.SemVer Model.SemverUtil Model.NpmMatcher Model.CratesMatcher
  Spec.Ranges Spec.NodeSemver Spec.CargoReq Spec.RangeView Spec.Known Proofs.SemVerOrder.

(* ---------- tuple comparison as propositions ---------- *)
Definition T_lt (x : version) (M m p : N) : Prop :=
  major x < M \/ (major x = M /\ (minor x < m \/ (minor x = m /\ patch x < p))).
Definition T_eq (x : version) (M m p : N) : Prop := major x = M /\ minor x = m /\ patch x = p.
Definition T_gt (x : version) (M m p : N) : Prop :=
  M < major x \/ (major x = M /\ (m < minor x \/ (minor x = m /\ p < patch x))).

Definition tcmp (x : version) (M m p : N) : comparison :=
  then_cmp (N.compare (major x) M) (then_cmp (N.compare (minor x) m) (N.compare (patch x) p)).

Lemma prec_tcmp x M m p pr bd :
  prec x (mkV M m p pr bd) = then_cmp (tcmp x M m p) (cmp_pre (pre x) pr).
Proof.
  unfold prec, tcmp. cbn [major minor patch pre].
  destruct (N.compare (major x) M), (N.compare (minor x) m), (N.compare (patch x) p); reflexivity.
Qed.

Lemma tcmp_lt x M m p : tcmp x M m p = Lt <-> T_lt x M m p.
Proof.
  unfold tcmp, T_lt.
  destruct (N.compare_spec (major x) M), (N.compare_spec (minor x) m), (N.compare_spec (patch x) p);
    cbn [then_cmp]; split; intro HH; try discriminate; try reflexivity; try lia.
Qed.
Lemma tcmp_eq x M m p : tcmp x M m p = Eq <-> T_eq x M m p.
Proof.
  unfold tcmp, T_eq.
  destruct (N.compare_spec (major x) M), (N.compare_spec (minor x) m), (N.compare_spec (patch x) p);
    cbn [then_cmp]; split; intro HH; try discriminate; try reflexivity; try lia.
Qed.
Lemma tcmp_gt x M m p : tcmp x M m p = Gt <-> T_gt x M m p.
Proof.
  unfold tcmp, T_gt.
  destruct (N.compare_spec (major x) M), (N.compare_spec (minor x) m), (N.compare_spec (patch x) p);
    cbn [then_cmp]; split; intro HH; try discriminate; try reflexivity; try lia.
Qed.

Lemma T_trichotomy x M m p : T_lt x M m p \/ T_eq x M m p \/ T_gt x M m p.
Proof. unfold T_lt, T_eq, T_gt. lia. Qed.

(* ---------- precedence tests as propositions ---------- *)
Definition Q_ge (x : version) (pr : bytes) : Prop := cmp_pre (pre x) pr <> Lt.
Definition Q_gt (x : version) (pr : bytes) : Prop := cmp_pre (pre x) pr = Gt.
Definition Q_le (x : version) (pr : bytes) : Prop := cmp_pre (pre x) pr <> Gt.
Definition Q_lt (x : version) (pr : bytes) : Prop := cmp_pre (pre x) pr = Lt.
Definition Q_eq (x : version) (pr : bytes) : Prop := cmp_pre (pre x) pr = Eq.

Ltac prec_cases x M m p :=
  let Ht := fresh "Ht" in
  destruct (tcmp x M m p) eqn:Ht;
  [apply tcmp_eq in Ht | apply tcmp_lt in Ht | apply tcmp_gt in Ht].

Lemma p_ge_spec x M m p pr bd :
  p_ge (mkV M m p pr bd) x = true <-> T_gt x M m p \/ (T_eq x M m p /\ Q_ge x pr).
Proof.
  unfold p_ge, Q_ge. rewrite prec_tcmp.
  pose proof (T_trichotomy x M m p) as Tri.
  prec_cases x M m p; cbn [then_cmp].
  - destruct (cmp_pre (pre x) pr); split; intro H; try discriminate; try reflexivity;
      unfold T_lt, T_eq, T_gt in *; try (right; split; [lia | discriminate]); try lia.
    + destruct H as [H | [_ H]]; [lia | congruence].
  - split; intro H; [discriminate | unfold T_lt, T_eq, T_gt in *; lia].
  - split; intro H; [left; exact Ht | reflexivity].
Qed.

Lemma p_gt_spec x M m p pr bd :
  p_gt (mkV M m p pr bd) x = true <-> T_gt x M m p \/ (T_eq x M m p /\ Q_gt x pr).
Proof.
  unfold p_gt, Q_gt. rewrite prec_tcmp.
  prec_cases x M m p; cbn [then_cmp].
  - destruct (cmp_pre (pre x) pr); split; intro H; try discriminate; try reflexivity;
      unfold T_lt, T_eq, T_gt in *; try (right; split; [lia | reflexivity]);
      try (destruct H as [H | [_ H]]; [lia | discriminate]).
  - split; intro H; [discriminate | unfold T_lt, T_eq, T_gt in *; lia].
  - split; intro H; [left; exact Ht | reflexivity].
Qed.

Lemma p_le_spec x M m p pr bd :
  p_le (mkV M m p pr bd) x = true <-> T_lt x M m p \/ (T_eq x M m p /\ Q_le x pr).
Proof.
  unfold p_le, Q_le. rewrite prec_tcmp.
  prec_cases x M m p; cbn [then_cmp].
  - destruct (cmp_pre (pre x) pr); split; intro H; try discriminate; try reflexivity;
      unfold T_lt, T_eq, T_gt in *; try (right; split; [lia | discriminate]).
    + destruct H as [H | [_ H]]; [lia | congruence].
  - split; intro H; [left; exact Ht | reflexivity].
  - split; intro H; [discriminate | unfold T_lt, T_eq, T_gt in *; lia].
Qed.

Lemma p_lt_spec x M m p pr bd :
  p_lt (mkV M m p pr bd) x = true <-> T_lt x M m p \/ (T_eq x M m p /\ Q_lt x pr).
Proof.
  unfold p_lt, Q_lt. rewrite prec_tcmp.
  prec_cases x M m p; cbn [then_cmp].
  - destruct (cmp_pre (pre x) pr); split; intro H; try discriminate; try reflexivity;
      unfold T_lt, T_eq, T_gt in *; try (right; split; [lia | reflexivity]);
      try (destruct H as [H | [_ H]]; [lia | discriminate]).
  - split; intro H; [left; exact Ht | reflexivity].
  - split; intro H; [discriminate | unfold T_lt, T_eq, T_gt in *; lia].
Qed.

Lemma p_eq_spec x M m p pr bd :
  p_eq (mkV M m p pr bd) x = true <-> T_eq x M m p /\ Q_eq x pr.
Proof.
  unfold p_eq, Q_eq. rewrite prec_tcmp.
  prec_cases x M m p; cbn [then_cmp].
  - destruct (cmp_pre (pre x) pr); split; intro H; try discriminate; try reflexivity;
      try (split; [exact Ht | reflexivity]); destruct H; discriminate.
  - split; intro H; [discriminate | unfold T_lt, T_eq, T_gt in *; lia].
  - split; intro H; [discriminate | unfold T_lt, T_eq, T_gt in *; lia].
Qed.

(* against the bound M.m.p-0 the prerelease of x never matters (x well formed) *)
Lemma Q_vs_0 x : wf_version x = true -> cmp_pre (pre x) [48] <> Lt.
Proof.
  intro Hwf. unfold wf_version in Hwf. apply andb_true_iff in Hwf as [Hp _].
  destruct (pre x) as [|c p] eqn:E; [cbn; discriminate|].
  apply pre_not_below_0; [discriminate | exact Hp].
Qed.

Lemma below0_spec x M m p : wf_version x = true -> below0 M m p x = true <-> T_lt x M m p.
Proof.
  intro Hwf. unfold below0. rewrite p_lt_spec. unfold Q_lt.
  pose proof (Q_vs_0 x Hwf). unfold T_lt, T_eq. intuition lia.
Qed.

Lemma ge0_spec x M m p : wf_version x = true -> p_ge (zlo true M m p) x = true <-> ~ T_lt x M m p.
Proof.
  intro Hwf. unfold zlo. rewrite p_ge_spec. unfold Q_ge.
  pose proof (Q_vs_0 x Hwf) as HQ. split.
  - intros [Hg | [He _]]; unfold T_lt, T_eq, T_gt in *; lia.
  - intro Hn. destruct (T_trichotomy x M m p) as [Hl | [He | Hg]].
    + contradiction.
    + right. split; [exact He | exact HQ].
    + left. exact Hg.
Qed.

Lemma Q_ge_nil x : Q_ge x [] <-> pre x = [].
Proof.
  unfold Q_ge. destruct (pre x); cbn; split; intro H; try reflexivity; try discriminate; congruence.
Qed.

(* ---------- the derived Ord without build metadata is precedence ---------- *)
Lemma cmp_build_nil : cmp_build [] [] = Eq.
Proof. reflexivity. Qed.

Lemma vcmp_prec x v : build x = [] -> build v = [] -> vcmp x v = prec x v.
Proof.
  intros Hx Hv. unfold vcmp. rewrite Hx, Hv, cmp_build_nil. destruct (prec x v); reflexivity.
Qed.

Lemma v_ge_p x v : build x = [] -> build v = [] -> v_ge x v = p_ge v x.
Proof. intros. unfold v_ge, p_ge. rewrite vcmp_prec by assumption. reflexivity. Qed.
Lemma v_gt_p x v : build x = [] -> build v = [] -> v_gt x v = p_gt v x.
Proof. intros. unfold v_gt, p_gt. rewrite vcmp_prec by assumption. reflexivity. Qed.
Lemma v_le_p x v : build x = [] -> build v = [] -> v_le x v = p_le v x.
Proof. intros. unfold v_le, p_le. rewrite vcmp_prec by assumption. reflexivity. Qed.
Lemma v_lt_p x v : build x = [] -> build v = [] -> v_lt x v = p_lt v x.
Proof. intros. unfold v_lt, p_lt. rewrite vcmp_prec by assumption. reflexivity. Qed.

Lemma v_eq_p x M m p pr : build x = [] -> v_eq x (mkV M m p pr []) = p_eq (mkV M m p pr []) x.
Proof.
  intros Hx. apply eq_true_iff_eq. rewrite p_eq_spec. unfold v_eq, T_eq, Q_eq. cbn [major minor patch pre build].
  rewrite Hx. rewrite !andb_true_iff, !N.eqb_eq, !beq_eq, cmp_pre_eq_iff. tauto.
Qed.

(* ---------- the model's comparators as propositions ---------- *)
Ltac boolp :=
  repeat match goal with
  | H : _ && _ = true |- _ => apply andb_true_iff in H; destruct H
  | H : _ || _ = true |- _ => apply orb_true_iff in H
  | H : negb _ = true |- _ => apply negb_true_iff in H
  | H : (_ =? _) = true |- _ => apply N.eqb_eq in H
  | H : (_ =? _) = false |- _ => apply N.eqb_neq in H
  | |- _ && _ = true => apply andb_true_iff; split
  | |- (_ =? _) = true => apply N.eqb_eq
  | |- negb _ = true => apply negb_true_iff
  | |- (_ =? _) = false => apply N.eqb_neq
  end.

Section Comparators.
  Variable x : version.
  Hypothesis Hwf : wf_version x = true.
  Hypothesis Hbx : build x = [].

  Lemma caret_sat_spec M m p pr :
    caret_sat (mkV M m p pr []) x = true <->
    (T_gt x M m p \/ (T_eq x M m p /\ Q_ge x pr)) /\
    (if M =? 0 then (if m =? 0 then major x = 0 /\ minor x = 0 /\ patch x = p
                     else major x = 0 /\ minor x = m)
     else major x = M).
  Proof.
    unfold caret_sat. cbn [major minor patch].
    rewrite v_lt_p by (assumption || reflexivity).
    assert (Hge : p_lt (mkV M m p pr []) x = negb (p_ge (mkV M m p pr []) x)).
    { unfold p_lt, p_ge. destruct (prec x _); reflexivity. }
    rewrite Hge. rewrite <- p_ge_spec with (bd := []).
    destruct (p_ge (mkV M m p pr []) x); cbn [negb].
    - destruct (M =? 0), (m =? 0); rewrite ?andb_true_iff, ?N.eqb_eq; tauto.
    - split; [discriminate | intros [H _]; discriminate].
  Qed.

  Lemma ge0_spec' M m p : p_ge (mkV M m p [48] []) x = true <-> ~ T_lt x M m p.
  Proof. apply (ge0_spec x M m p Hwf). Qed.
  Lemma below0_spec' M m p : below0 M m p x = true <-> T_lt x M m p.
  Proof. apply below0_spec; exact Hwf. Qed.

  Lemma tilde_sat_spec M m p pr :
    v_ge x (mkV M m p pr []) && (major x =? M) && (minor x =? m) = true <->
    (T_gt x M m p \/ (T_eq x M m p /\ Q_ge x pr)) /\ major x = M /\ minor x = m.
  Proof.
    rewrite v_ge_p by (assumption || reflexivity).
    rewrite !andb_true_iff, !N.eqb_eq, p_ge_spec. tauto.
  Qed.

  Ltac norm :=
    cbn [range_sat node_comp xrange_sat c_op c_operand negb] in *;
    unfold zlo, ver_new in *;
    cbn [major minor patch pre build] in *;
    repeat match goal with
    | H : context [v_ge x ?v] |- _ => rewrite (v_ge_p x v) in H by (assumption || reflexivity)
    | H : context [v_gt x ?v] |- _ => rewrite (v_gt_p x v) in H by (assumption || reflexivity)
    | H : context [v_le x ?v] |- _ => rewrite (v_le_p x v) in H by (assumption || reflexivity)
    | H : context [v_lt x ?v] |- _ => rewrite (v_lt_p x v) in H by (assumption || reflexivity)
    | H : context [v_eq x (mkV ?a ?b ?c ?d [])] |- _ => rewrite (v_eq_p x a b c d) in H by assumption
    | |- context [v_ge x ?v] => rewrite (v_ge_p x v) by (assumption || reflexivity)
    | |- context [v_gt x ?v] => rewrite (v_gt_p x v) by (assumption || reflexivity)
    | |- context [v_le x ?v] => rewrite (v_le_p x v) by (assumption || reflexivity)
    | |- context [v_lt x ?v] => rewrite (v_lt_p x v) by (assumption || reflexivity)
    | |- context [v_eq x (mkV ?a ?b ?c ?d [])] => rewrite (v_eq_p x a b c d) by assumption
    end;
    rewrite ?andb_true_iff, ?caret_sat_spec, ?ge0_spec', ?below0_spec', ?p_ge_spec, ?p_gt_spec,
            ?p_le_spec, ?p_lt_spec, ?p_eq_spec, ?N.eqb_eq, ?Q_ge_nil in *.

  Ltac fin := unfold T_lt, T_eq, T_gt in *; intuition (try lia; try congruence).

  Lemma npm_comp_sandwich c r :
    npm_known_comp c = 0 -> npm_view c = Some r ->
    (node_comp false c x = true -> range_sat r x = true) /\
    (range_sat r x = true -> node_comp true c x = true).
  Proof.
    destruct c as [op sp v p]. unfold npm_known_comp, npm_view. cbn [c_op c_space c_v c_operand].
    intros Hk Hv.
    destruct op, sp; cbn [is_op_none negb andb] in Hk, Hv; try discriminate;
    destruct p as [fl | M fl | M m fl | M m q pr bd]; try destruct fl; try destruct v;
    cbn [partial_build blen length N.of_nat N.eqb negb padded option_map] in Hk, Hv;
    try discriminate.
    all: try (destruct bd as [|b0 bd]; [| cbn in Hk; discriminate]).
    all: try (destruct (M =? 0) eqn:EM; try discriminate).
    all: try (destruct (m =? 0) eqn:Em; cbn [andb] in Hk; try discriminate).
    all: inversion Hv; subst r; clear Hv Hk.
    all: split; intro H.
    all: cbn [node_comp xrange_sat c_op c_operand] in *.
    all: try rewrite EM in *; try rewrite Em in *; cbn [negb andb] in *.
    all: try (destruct pr).
    all: norm.
    all: try (apply N.eqb_eq in EM); try (apply N.eqb_neq in EM); try (apply N.eqb_eq in Em); try (apply N.eqb_neq in Em).
    all: subst; try rewrite N.eqb_refl in *; cbn [negb] in *.
    all: repeat match goal with
         | |- context [if ?b then _ else _] => destruct b eqn:?
         | H0 : context [if ?b then _ else _] |- _ => destruct b eqn:?
         end.
    all: repeat match goal with
         | H0 : (_ =? _) = true |- _ => apply N.eqb_eq in H0
         | H0 : (_ =? _) = false |- _ => apply N.eqb_neq in H0
         end.
    all: fin.
  Qed.

  (* z only matters for prerelease versions *)
  Lemma node_comp_release c : pre x = [] -> node_comp true c x = node_comp false c x.
  Proof.
    intro Hp.
    assert (E : forall M m p, p_ge (mkV M m p [48] []) x = p_ge (mkV M m p [] []) x).
    { intros M m p. apply eq_true_iff_eq. rewrite ge0_spec', p_ge_spec, Q_ge_nil.
      pose proof (T_trichotomy x M m p). unfold T_lt, T_eq, T_gt in *. intuition lia. }
    destruct c as [op sp v p]. destruct op, p as [fl | M fl | M m fl | M m q pr bd];
      cbn [node_comp xrange_sat c_op c_operand]; unfold zlo; rewrite ?E; try reflexivity.
    destruct pr; destruct (M =? 0); rewrite ?E; reflexivity.
  Qed.

  Lemma hyphen_release a b : pre x = [] -> hyphen_sat true a b x = hyphen_sat false a b x.
  Proof.
    intro Hp.
    assert (E : forall M m p, p_ge (mkV M m p [48] []) x = p_ge (mkV M m p [] []) x).
    { intros M m p. apply eq_true_iff_eq. rewrite ge0_spec', p_ge_spec, Q_ge_nil.
      pose proof (T_trichotomy x M m p). unfold T_lt, T_eq, T_gt in *. intuition lia. }
    unfold hyphen_sat. destruct a as [fl | M fl | M m fl | M m q pr bd]; unfold zlo; rewrite ?E; try reflexivity.
    all: destruct pr; rewrite ?E; reflexivity.
  Qed.

  Lemma npm_hyphen_sandwich f t vf vt :
    npm_known_alt (NHyphen f t) = 0 -> padded f = Some vf -> padded t = Some vt ->
    (hyphen_sat false f t x = true -> range_sat (RHyphen vf vt) x = true) /\
    (range_sat (RHyphen vf vt) x = true -> hyphen_sat true f t x = true).
  Proof.
    unfold npm_known_alt. intros Hk Hf Ht.
    destruct (negb (blen (partial_build f) =? 0) || negb (blen (partial_build t) =? 0)) eqn:Eb; [discriminate|].
    apply orb_false_iff in Eb as [Ebf Ebt]. apply negb_false_iff in Ebf, Ebt. apply N.eqb_eq in Ebf, Ebt.
    destruct (is_xspelled f || is_xspelled t) eqn:Ex; [discriminate|].
    destruct (is_partial t) eqn:Ept; [discriminate|].
    destruct t as [fl | M fl | M m fl | M m q pr bd]; try destruct fl; cbn in Ht, Ept, Ex; try discriminate;
      try (rewrite orb_true_r in Ex; discriminate).
    destruct bd; [|cbn in Ebt; discriminate].
    destruct f as [fl | M' fl | M' m' fl | M' m' q' pr' bd']; try destruct fl; cbn in Hf, Ex; try discriminate.
    all: try (destruct bd'; [|cbn in Ebf; discriminate]).
    all: inversion Hf; inversion Ht; subst vf vt; clear Hf Ht.
    all: unfold hyphen_sat; split; intro H.
    all: try (destruct pr').
    all: norm.
    all: fin.
  Qed.
End Comparators.

(* ---------- Cargo: the interval reading, by translation to the npm case ---------- *)
Definition flavor_x (p : partial) : partial :=
  match p with
  | P1 M XStar => P1 M Xx
  | P2 M m XStar => P2 M m Xx
  | _ => p
  end.
Definition to_npm (c : comp) : comp :=
  let c' := as_caret c in mkComp (c_op c') false (c_v c') (flavor_x (c_operand c')).

Lemma to_npm_known c : crates_known_comp c = 0 -> npm_known_comp (to_npm c) = 0.
Proof.
  destruct c as [op sp v p]. unfold crates_known_comp, npm_known_comp, to_npm, as_caret.
  cbn [c_op c_space c_v c_operand].
  destruct op; destruct p as [fl | M fl | M m fl | M m q pr bd]; try destruct fl; try destruct v;
    cbn [c_op c_space c_v c_operand flavor_x partial_build blen length N.of_nat N.eqb negb];
    intro H; try discriminate; try reflexivity; try exact H.
  all: destruct bd; cbn in *; try discriminate; try reflexivity; try exact H.
Qed.

Lemma to_npm_view c : crates_known_comp c = 0 -> crates_view c = npm_view (to_npm c).
Proof.
  destruct c as [op sp v p]. unfold crates_known_comp, crates_view, npm_view, to_npm, as_caret.
  cbn [c_op c_space c_v c_operand].
  destruct op; destruct p as [fl | M fl | M m fl | M m q pr bd]; try destruct fl; try destruct v;
    cbn [c_op c_space c_v c_operand flavor_x partial_build blen length N.of_nat N.eqb negb is_op_none andb padded option_map];
    intro H; try discriminate; try reflexivity.
Qed.

Lemma to_npm_sem z c x : node_comp z (to_npm c) x = cargo_comp_r2 z c x.
Proof.
  destruct c as [op sp v p]. unfold cargo_comp_r2, to_npm, as_caret. cbn [c_op c_space c_v c_operand].
  destruct op; destruct p as [fl | M fl | M m fl | M m q pr bd]; try destruct fl; reflexivity.
Qed.

Lemma crates_comp_sandwich x c r :
  wf_version x = true -> build x = [] ->
  crates_known_comp c = 0 -> crates_view c = Some r ->
  (cargo_comp_r2 false c x = true -> range_sat r x = true) /\
  (range_sat r x = true -> cargo_comp_r2 true c x = true).
Proof.
  intros Hwf Hbx Hk Hv. rewrite <- !to_npm_sem.
  apply npm_comp_sandwich; try assumption.
  - apply to_npm_known; exact Hk.
  - rewrite <- to_npm_view; assumption.
Qed.

(* matches_impl of the semver crate and the interval reading agree on release versions *)
Section CargoRelease.
  Variable x : version.
  Hypothesis Hwf : wf_version x = true.
  Hypothesis Hp : pre x = [].

  Ltac bspec :=
    repeat match goal with
    | |- context [?a =? ?b] => destruct (N.eqb_spec a b)
    | |- context [?a <? ?b] => destruct (N.ltb_spec a b)
    | |- context [?a <=? ?b] => destruct (N.leb_spec a b)
    end.

  Lemma Qs_nil : (Q_ge x [] <-> True) /\ (Q_gt x [] <-> False) /\ (Q_le x [] <-> True) /\
                 (Q_lt x [] <-> False) /\ (Q_eq x [] <-> True).
  Proof. unfold Q_ge, Q_gt, Q_le, Q_lt, Q_eq. rewrite Hp. cbn. repeat split; intros; try discriminate; try tauto. Qed.
  Lemma Qs_cons c pr : (Q_ge x (c :: pr) <-> True) /\ (Q_gt x (c :: pr) <-> True) /\ (Q_le x (c :: pr) <-> False) /\
                 (Q_lt x (c :: pr) <-> False) /\ (Q_eq x (c :: pr) <-> False).
  Proof. unfold Q_ge, Q_gt, Q_le, Q_lt, Q_eq. rewrite Hp. cbn. repeat split; intros; try discriminate; try tauto; try congruence. Qed.

  Lemma cargo_r1_r2_release c :
    (forall fl, c_operand c <> PAny fl) ->
    cargo_comp c x = cargo_comp_r2 false c x.
  Proof.
    intro Hany. apply eq_true_iff_eq.
    destruct Qs_nil as [N1 [N2 [N3 [N4 N5]]]].
    destruct c as [op sp v p]. cbn [c_operand] in Hany.
    unfold cargo_comp, cargo_comp_r2, as_caret. cbn [c_op c_space c_v c_operand].
    destruct p as [fl | M fl | M m fl | M m q pr bd]; [exfalso; eapply Hany; reflexivity | | |].
    all: destruct op; try destruct fl; cbn [c_major is_full c_op c_operand node_comp xrange_sat].
    all: unfold zlo; try (destruct pr as [|pc pr]; [| destruct (Qs_cons pc pr) as [C1 [C2 [C3 [C4 C5]]]]]).
    all: unfold matches_exact, matches_greater, matches_less, matches_tilde, matches_caret,
           pre_ge, pre_gt, pre_lt, c_minor, c_patch, c_pre; rewrite ?Hp; cbn [cmp_pre beq].
    all: bspec; cbn [negb andb orb]; cbv iota.
    all: rewrite ?andb_true_iff, ?orb_true_iff, ?(ge0_spec' x Hwf), ?(below0_spec' x Hwf), ?p_ge_spec, ?p_gt_spec,
            ?p_le_spec, ?p_lt_spec, ?p_eq_spec.
    all: rewrite ?N1, ?N2, ?N3, ?N4, ?N5, ?C1, ?C2, ?C3, ?C4, ?C5.
    all: unfold T_lt, T_eq, T_gt.
    all: try (split; intro HH; try discriminate; try reflexivity; try lia).
    all: try (intuition (try lia; try discriminate; try congruence)).
  Qed.
End CargoRelease.

(* ---------- lifting to conjunctions, alternatives and whole ranges ---------- *)
Lemma fold_known_zero {A} (f : A -> N) l :
  fold_right (fun a acc => let k := f a in if k =? 0 then acc else k) 0 l = 0 ->
  forall a, In a l -> f a = 0.
Proof.
  induction l as [|b l IH]; cbn; intros H a Ha; [destruct Ha|].
  destruct (f b =? 0) eqn:E.
  - destruct Ha as [<- | Ha]; [apply N.eqb_eq; exact E | apply IH; assumption].
  - apply N.eqb_neq in E. congruence.
Qed.

Lemma all_some_map {A B} (f : A -> option B) l rs :
  all_some (map f l) = Some rs -> Forall2 (fun a r => f a = Some r) l rs.
Proof.
  revert rs; induction l as [|a l IH]; cbn; intros rs H.
  - inversion H. constructor.
  - destruct (f a) eqn:E; [|discriminate].
    destruct (all_some (map f l)) eqn:E2; [|discriminate]. cbn in H. inversion H; subst.
    constructor; [exact E | apply IH; reflexivity].
Qed.

Section Lift.
  Variable x : version.
  Hypothesis Hwf : wf_version x = true.
  Hypothesis Hbx : build x = [].

  Lemma npm_and_sandwich cs rs :
    (forall c, In c cs -> npm_known_comp c = 0) ->
    Forall2 (fun c r => npm_view c = Some r) cs rs ->
    (forallb (fun c => node_comp false c x) cs = true -> forallb (fun r => range_sat r x) rs = true) /\
    (forallb (fun r => range_sat r x) rs = true -> forallb (fun c => node_comp true c x) cs = true).
  Proof.
    intros Hk HF. induction HF as [|c r cs rs Hv HF IH]; cbn [forallb]; [tauto|].
    destruct (npm_comp_sandwich x Hwf Hbx c r (Hk c (or_introl eq_refl)) Hv) as [S1 S2].
    destruct IH as [I1 I2]; [intros c' Hc'; apply Hk; right; exact Hc'|].
    rewrite !andb_true_iff. tauto.
  Qed.

  Lemma npm_alt_sandwich a s :
    npm_known_alt a = 0 -> npm_alt_view a = Some s ->
    (nalt_sat false a x = true -> spec_sat s x = true) /\
    (spec_sat s x = true -> nalt_sat true a x = true).
  Proof.
    intros Hk Hv. destruct a as [f t | cs].
    - cbn [npm_alt_view] in Hv. destruct (padded f) as [vf|] eqn:Ef; [|discriminate].
      destruct (padded t) as [vt|] eqn:Et; [|discriminate]. inversion Hv; subst s.
      cbn [nalt_sat spec_sat]. apply npm_hyphen_sandwich; assumption.
    - assert (Hk' : forall c, In c cs -> npm_known_comp c = 0).
      { apply fold_known_zero. exact Hk. }
      cbn [nalt_sat].
      assert (Hgen : forall rs, all_some (map npm_view cs) = Some rs ->
                (forallb (fun c => node_comp false c x) cs = true -> forallb (fun r => range_sat r x) rs = true) /\
                (forallb (fun r => range_sat r x) rs = true -> forallb (fun c => node_comp true c x) cs = true)).
      { intros rs Hrs. apply npm_and_sandwich; [exact Hk' | apply all_some_map; exact Hrs]. }
      destruct cs as [|c [|c2 cs]].
      + cbn in Hv. inversion Hv; subst s. cbn. tauto.
      + cbn [npm_alt_view] in Hv. destruct (npm_view c) as [r|] eqn:Er; [|discriminate].
        inversion Hv; subst s. cbn [spec_sat forallb]. rewrite !andb_true_r.
        apply npm_comp_sandwich; try assumption. apply Hk'. left; reflexivity.
      + cbn [npm_alt_view] in Hv.
        destruct (all_some (map npm_view (c :: c2 :: cs))) as [rs|] eqn:Ers; [|discriminate].
        inversion Hv; subst s. cbn [spec_sat]. apply Hgen. reflexivity.
  Qed.

  Theorem npm_sandwich r s :
    npm_known r = 0 -> npm_range_view r = Some s ->
    (node_sat false r x = true -> spec_sat s x = true) /\
    (spec_sat s x = true -> node_sat true r x = true).
  Proof.
    intros Hk Hv.
    assert (Hk' : forall a, In a r -> npm_known_alt a = 0) by (apply fold_known_zero; exact Hk).
    assert (Hgen : forall r0 ss, (forall a, In a r0 -> npm_known_alt a = 0) ->
              Forall2 (fun a s' => npm_alt_view a = Some s') r0 ss ->
              (existsb (fun a => nalt_sat false a x) r0 = true -> existsb (fun s' => spec_sat s' x) ss = true) /\
              (existsb (fun s' => spec_sat s' x) ss = true -> existsb (fun a => nalt_sat true a x) r0 = true)).
    { intros r0 ss Hk0 HF. induction HF as [|a s' r' ss' Hva HF IH]; cbn [existsb]; [tauto|].
      destruct (npm_alt_sandwich a s' (Hk0 a (or_introl eq_refl)) Hva) as [S1 S2].
      destruct IH as [I1 I2]; [intros a' Ha'; apply Hk0; right; exact Ha'|].
      rewrite !orb_true_iff. tauto. }
    unfold node_sat. destruct r as [|a [|a2 r']].
    - cbn in Hv. inversion Hv; subst s. cbn. tauto.
    - cbn [npm_range_view] in Hv. cbn [existsb]. rewrite !orb_false_r.
      apply npm_alt_sandwich; [apply Hk'; left; reflexivity | exact Hv].
    - cbn [npm_range_view] in Hv.
      destruct (all_some (map npm_alt_view (a :: a2 :: r'))) as [ss|] eqn:Ess; [|discriminate].
      inversion Hv; subst s.
      assert (HS : forall l, (fix sat (l0 : list vspec) := match l0 with [] => false | s' :: t => spec_sat s' x || sat t end) l
                             = existsb (fun s' => spec_sat s' x) l).
      { induction l as [|s0 l IHl]; cbn; [reflexivity | rewrite IHl; reflexivity]. }
      cbn [spec_sat]. apply Hgen; [exact Hk' | apply all_some_map; exact Ess].
  Qed.

  Lemma nalt_release a : pre x = [] -> nalt_sat true a x = nalt_sat false a x.
  Proof.
    intro Hp. destruct a as [f t | cs]; cbn [nalt_sat].
    - apply hyphen_release; assumption.
    - induction cs as [|c cs IHc]; cbn [forallb]; [reflexivity|].
      rewrite (node_comp_release x Hwf c Hp), IHc. reflexivity.
  Qed.

  Lemma node_sat_release r : pre x = [] -> node_sat true r x = node_sat false r x.
  Proof.
    intro Hp. unfold node_sat. induction r as [|a r IH]; cbn [existsb]; [reflexivity|].
    rewrite (nalt_release a Hp), IH. reflexivity.
  Qed.

  (* on release versions the two readings coincide and the model is exact *)
  Theorem npm_release_exact r s z :
    npm_known r = 0 -> npm_range_view r = Some s -> pre x = [] ->
    spec_sat s x = node_sat z r x.
  Proof.
    intros Hk Hv Hp.
    pose proof (node_sat_release r Hp) as E.
    destruct (npm_sandwich r s Hk Hv) as [S1 S2].
    assert (Hm : spec_sat s x = node_sat false r x).
    { apply eq_true_iff_eq. split; [intro H; rewrite <- E; apply S2; exact H | exact S1]. }
    destruct z; [rewrite E|]; exact Hm.
  Qed.
End Lift.

(* ---------- Cargo requirements (comma-separated conjunctions) ---------- *)
Section CargoLift.
  Variable x : version.
  Hypothesis Hwf : wf_version x = true.
  Hypothesis Hbx : build x = [].

  Theorem crates_sandwich r rs :
    crates_known r = 0 -> crates_req_view r = Some rs ->
    (cargo_sat_r2 false r x = true -> cspec_sat rs x = true) /\
    (cspec_sat rs x = true -> cargo_sat_r2 true r x = true).
  Proof.
    intros Hk Hv.
    assert (Hk' : forall c, In c r -> crates_known_comp c = 0) by (apply fold_known_zero; exact Hk).
    unfold crates_req_view in Hv. apply all_some_map in Hv.
    unfold cargo_sat_r2, cspec_sat.
    induction Hv as [|c r0 cs rs0 Hc HF IH]; cbn [forallb]; [tauto|].
    destruct (crates_comp_sandwich x c r0 Hwf Hbx (Hk' c (or_introl eq_refl)) Hc) as [S1 S2].
    destruct IH as [I1 I2].
    - unfold crates_known in Hk. cbn [fold_right] in Hk.
      destruct (crates_known_comp c =? 0) eqn:E; [exact Hk|].
      apply N.eqb_neq in E. rewrite Hk in E. contradiction.
    - intros c' Hc'. apply Hk'. right. exact Hc'.
    - rewrite !andb_true_iff. tauto.
  Qed.

  Lemma cargo_any_known c fl :
    crates_known_comp c = 0 -> c_operand c = PAny fl -> forall z, cargo_comp c x = true /\ cargo_comp_r2 z c x = true.
  Proof.
    destruct c as [op sp v p]. cbn [c_operand]. intros Hk -> z.
    unfold crates_known_comp in Hk. cbn [c_op c_v c_operand partial_build blen length N.of_nat N.eqb negb] in Hk.
    destruct op, fl; try destruct v; try discriminate; split; reflexivity.
  Qed.

  (* on release versions the model is exactly Cargo's own matching (matches_impl) *)
  Theorem crates_release_exact r rs :
    crates_known r = 0 -> crates_req_view r = Some rs -> pre x = [] ->
    cspec_sat rs x = cargo_sat r x.
  Proof.
    intros Hk Hv Hp.
    assert (Hk' : forall c, In c r -> crates_known_comp c = 0) by (apply fold_known_zero; exact Hk).
    assert (E1 : forall c, In c r -> cargo_comp c x = cargo_comp_r2 false c x).
    { intros c Hc. destruct (c_operand c) as [fl| | |] eqn:Eo.
      - destruct (cargo_any_known c fl (Hk' c Hc) Eo false) as [A B]. congruence.
      - apply cargo_r1_r2_release; try assumption. intros fl0. rewrite Eo. discriminate.
      - apply cargo_r1_r2_release; try assumption. intros fl0. rewrite Eo. discriminate.
      - apply cargo_r1_r2_release; try assumption. intros fl0. rewrite Eo. discriminate. }
    assert (E2 : forall c, cargo_comp_r2 true c x = cargo_comp_r2 false c x).
    { intro c. unfold cargo_comp_r2. apply node_comp_release; assumption. }
    destruct (crates_sandwich r rs Hk Hv) as [S1 S2].
    assert (Ef : cargo_sat r x = cargo_sat_r2 false r x).
    { unfold cargo_sat, cargo_sat_r2. clear -E1. induction r as [|c r IH]; cbn [forallb]; [reflexivity|].
      rewrite (E1 c (or_introl eq_refl)), IH; [reflexivity|]. intros c' Hc'. apply E1. right. exact Hc'. }
    assert (Et : cargo_sat_r2 true r x = cargo_sat_r2 false r x).
    { unfold cargo_sat_r2. clear -E2. induction r as [|c r IH]; cbn [forallb]; [reflexivity|]. rewrite E2, IH. reflexivity. }
    rewrite Ef. apply eq_true_iff_eq. split; [intro H; rewrite <- Et; apply S2; exact H | exact S1].
  Qed.
End CargoLift.

(* ---------- compare_to_latest and version_exists use one relation ---------- *)
Lemma npm_exists_single cur latest s l :
  spec_parse cur = Some s -> parse latest = Some l ->
  NpmMatcher.version_exists cur [latest] = spec_sat s l.
Proof. intros Hs Hl. unfold NpmMatcher.version_exists. rewrite Hs. cbn [existsb]. rewrite Hl, orb_false_r. reflexivity. Qed.

Lemma npm_compare_latest cur latest s l :
  spec_parse cur = Some s -> parse latest = Some l ->
  (NpmMatcher.compare_to_latest cur latest = Latest <->
   NpmMatcher.version_exists cur [latest] = true \/ spec_base s = None).
Proof.
  intros Hs Hl. rewrite (npm_exists_single cur latest s l Hs Hl).
  unfold NpmMatcher.compare_to_latest. rewrite Hs, Hl.
  destruct (spec_sat s l); [tauto|].
  destruct (spec_base s) as [b|]; [|tauto].
  destruct (v_lt b l); split; intro H; try discriminate; destruct H; discriminate.
Qed.

Lemma npm_compare_invalid cur latest :
  NpmMatcher.compare_to_latest cur latest = Invalid <-> spec_parse cur = None \/ parse latest = None.
Proof.
  unfold NpmMatcher.compare_to_latest.
  destruct (spec_parse cur) as [s|]; [|tauto].
  destruct (parse latest) as [l|]; [|tauto].
  destruct (spec_sat s l); [split; [discriminate | intros [H|H]; discriminate]|].
  destruct (spec_base s) as [b|]; [destruct (v_lt b l)|]; split; try discriminate; intros [H|H]; discriminate.
Qed.

Lemma npm_compare_order cur latest s l :
  spec_parse cur = Some s -> parse latest = Some l ->
  (NpmMatcher.compare_to_latest cur latest = Outdated -> exists b, spec_base s = Some b /\ v_lt b l = true) /\
  (NpmMatcher.compare_to_latest cur latest = Newer -> exists b, spec_base s = Some b /\ v_lt b l = false).
Proof.
  intros Hs Hl. unfold NpmMatcher.compare_to_latest. rewrite Hs, Hl.
  destruct (spec_sat s l); [split; discriminate|].
  destruct (spec_base s) as [b|]; [|split; discriminate].
  destruct (v_lt b l) eqn:E; split; intro H; try discriminate; exists b; split; auto.
Qed.

Lemma crates_exists_single cur latest s l :
  cspec_parse cur = Some s -> parse latest = Some l ->
  CratesMatcher.version_exists cur [latest] = cspec_sat s l.
Proof. intros Hs Hl. unfold CratesMatcher.version_exists. rewrite Hs. cbn [existsb]. rewrite Hl, orb_false_r. reflexivity. Qed.

Lemma crates_compare_latest cur latest s l :
  cspec_parse cur = Some s -> parse latest = Some l ->
  (CratesMatcher.compare_to_latest cur latest = Latest <->
   CratesMatcher.version_exists cur [latest] = true \/ cspec_base s = None).
Proof.
  intros Hs Hl. rewrite (crates_exists_single cur latest s l Hs Hl).
  unfold CratesMatcher.compare_to_latest. rewrite Hs, Hl.
  destruct (cspec_sat s l); [tauto|].
  destruct (cspec_base s) as [b|]; [|tauto].
  destruct (v_lt b l); split; intro H; try discriminate; destruct H; discriminate.
Qed.

Lemma crates_compare_invalid cur latest :
  CratesMatcher.compare_to_latest cur latest = Invalid <-> cspec_parse cur = None \/ parse latest = None.
Proof.
  unfold CratesMatcher.compare_to_latest.
  destruct (cspec_parse cur) as [s|]; [|tauto].
  destruct (parse latest) as [l|]; [|tauto].
  destruct (cspec_sat s l); [split; [discriminate | intros [H|H]; discriminate]|].
  destruct (cspec_base s) as [b|]; [destruct (v_lt b l)|]; split; try discriminate; intros [H|H]; discriminate.
Qed.

(* an unparsable spec never "exists" *)
Lemma npm_invalid_not_exists cur vs : spec_parse cur = None -> NpmMatcher.version_exists cur vs = false.
Proof. intro H. unfold NpmMatcher.version_exists. rewrite H. reflexivity. Qed.
Lemma crates_invalid_not_exists cur vs : cspec_parse cur = None -> CratesMatcher.version_exists cur vs = false.
Proof. intro H. unfold CratesMatcher.version_exists. rewrite H. reflexivity. Qed.
