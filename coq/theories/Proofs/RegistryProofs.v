(* C15: the adapters' decoding equals the reference reading of a well-formed reply (up to order),
   statuses are classified as the property prescribes, names round-trip through the registries' encodings. *)
From Coq Require Import ZArith Lia Permutation.
From VL Require Import Lib.Bytes Lib.Reg Lib.SemVer Model.Config Gen.GenRegistry Model.Registry Spec.RegistryReply.

(* ---------- sorting is a permutation ---------- *)
Lemma insert_by_perm {K} (le : K -> K -> bool) x l : Permutation (insert_by le x l) (x :: l).
Proof.
  induction l as [|y t IH]; cbn [insert_by]; [reflexivity|].
  destruct (le (fst x) (fst y)); [reflexivity|].
  rewrite IH. apply perm_swap.
Qed.
Lemma sort_by_key_perm {K} (le : K -> K -> bool) l : Permutation (sort_by_key le l) l.
Proof.
  induction l as [|x t IH]; cbn; [reflexivity|].
  unfold sort_by_key in *. rewrite insert_by_perm. now constructor.
Qed.
Lemma sorted_names_perm {K} (le : K -> K -> bool) l : Permutation (sorted_names le l) (map snd l).
Proof. unfold sorted_names. apply Permutation_map, sort_by_key_perm. Qed.

(* ---------- objects with distinct member names ---------- *)
Lemma existsb_beq_false k l : existsb (beq k) l = false -> ~ In k l.
Proof.
  intros H Hin. assert (existsb (beq k) l = true) as E; [|congruence].
  apply existsb_exists. exists k. split; [assumption|apply beq_refl].
Qed.
Lemma distinct_cons k t : distinct (k :: t) = true -> ~ In k t /\ distinct t = true.
Proof.
  cbn. intros H. apply andb_true_iff in H as [H1 H2]. split; [|assumption].
  apply existsb_beq_false. now destruct (existsb (beq k) t).
Qed.
Lemma count_key_notin k l : ~ In k (map fst l) -> count_key k l = O.
Proof.
  unfold count_key. induction l as [|[k' v] t IH]; cbn; [reflexivity|].
  intros H. destruct (beq k' k) eqn:E.
  - apply beq_eq in E. subst. exfalso. apply H. now left.
  - apply IH. intros Hin. apply H. now right.
Qed.
Lemma distinct_count k l : distinct (map fst l) = true -> (count_key k l <= 1)%nat.
Proof.
  induction l as [|[k' v] t IH]; cbn [map fst]; intros H; [cbn; lia|].
  apply distinct_cons in H as [Hn Hd].
  unfold count_key in *. cbn [filter fst]. destruct (beq k' k) eqn:E.
  - apply beq_eq in E. subst. cbn [length].
    pose proof (count_key_notin k t Hn) as Hc. unfold count_key in Hc. rewrite Hc. lia.
  - now apply IH.
Qed.
Lemma struct_ok_obj tbl l : distinct (map fst l) = true -> struct_ok tbl (JObj l) = true.
Proof.
  intros H. cbn. apply forallb_forall. intros f _. apply Nat.leb_le. now apply distinct_count.
Qed.
Lemma members_obj j l : members j = Some l -> j = JObj l /\ distinct (map fst l) = true.
Proof.
  destruct j; cbn; try discriminate. destruct (distinct (map fst l0)) eqn:E; [|discriminate].
  intros [= <-]. now split.
Qed.
Lemma is_obj_inv j : is_obj j = true -> exists l, j = JObj l /\ distinct (map fst l) = true.
Proof.
  unfold is_obj. destruct (members j) as [l|] eqn:E; [|discriminate]. intros _.
  exists l. now apply members_obj.
Qed.

Lemma map_insert_fresh {A} k (v : A) m : ~ In k (map fst m) -> map_insert k v m = m ++ [(k, v)].
Proof.
  induction m as [|[k' v'] t IH]; cbn; [reflexivity|]. intros H.
  destruct (beq k k') eqn:E.
  - apply beq_eq in E. subst. exfalso. apply H. now left.
  - f_equal. apply IH. intros Hin. apply H. now right.
Qed.

Lemma dec_map_fold {A} (dec : json -> option A) (f : json -> A) rest : forall pre,
  distinct (map fst pre ++ map fst rest) = true ->
  (forall p, In p rest -> dec (snd p) = Some (f (snd p))) ->
  fold_left (fun acc p => match acc, dec (snd p) with
                          | Some m, Some v => Some (map_insert (fst p) v m)
                          | _, _ => None
                          end) rest (Some (map (fun p => (fst p, f (snd p))) pre))
  = Some (map (fun p => (fst p, f (snd p))) (pre ++ rest)).
Proof.
  induction rest as [|[k v] t IH]; intros pre Hd Hdec; cbn [fold_left].
  - now rewrite app_nil_r.
  - rewrite (Hdec (k, v)) by now left. cbn [fst snd].
    assert (~ In k (map fst pre)) as Hk.
    { clear -Hd. induction pre as [|[k' v'] pre IH]; cbn; [tauto|].
      cbn [map fst app] in Hd. apply distinct_cons in Hd as [Hn Hd]. intros [->|Hin].
      - apply Hn. apply in_or_app. right. now left.
      - now apply IH. }
    rewrite map_insert_fresh.
    2:{ rewrite map_map. cbn [fst]. exact Hk. }
    replace (map (fun p => (fst p, f (snd p))) pre ++ [(k, f v)]) with (map (fun p : bytes * json => (fst p, f (snd p))) (pre ++ [(k, v)]))
      by now rewrite map_app.
    rewrite IH.
    + now rewrite <- app_assoc.
    + rewrite map_app. cbn [map fst]. rewrite <- app_assoc. exact Hd.
    + intros p Hp. apply Hdec. now right.
Qed.
Lemma dec_map_distinct {A} (dec : json -> option A) (f : json -> A) l :
  distinct (map fst l) = true -> (forall p, In p l -> dec (snd p) = Some (f (snd p))) ->
  dec_map dec (JObj l) = Some (map (fun p => (fst p, f (snd p))) l).
Proof. intros Hd Hdec. unfold dec_map. apply (dec_map_fold dec f l [] Hd Hdec). Qed.

Lemma all_some_map {A B} (dec : A -> option B) (f : A -> B) l :
  (forall x, In x l -> dec x = Some (f x)) -> all_some_l (map dec l) = Some (map f l).
Proof.
  induction l as [|x t IH]; cbn; intros H; [reflexivity|].
  rewrite (H x) by now left. rewrite IH; [reflexivity|]. intros y Hy. apply H. now right.
Qed.

(* an optional string-map member decodes to the reference reading *)
Lemma str_map_field tbl i k l :
  nth_key tbl i = k -> policy_idx tbl i = 2 -> str_map_member k (JObj l) = true ->
  dec_field tbl i (dec_map dec_string) [] (JObj l) = Some (str_map_of k (JObj l)).
Proof.
  intros Hk Hp Hw. unfold dec_field, raw_field, str_map_member, str_map_of, member in *. rewrite Hk.
  destruct (lookup k l) as [m|]; [|now rewrite Hp].
  destruct (members m) as [lm|] eqn:Em; [|discriminate].
  apply members_obj in Em as [-> Hd].
  apply dec_map_distinct; [exact Hd|]. intros p Hp'.
  rewrite forallb_forall in Hw. specialize (Hw p Hp'). now destruct (snd p).
Qed.

(* ---------- npm ---------- *)
Section Exact.
Variable ts : bytes -> option Z.

Theorem npm_exact j : wf_npm j = true ->
  exists vs, decode ts ANpm (BJson j) = Some (vs, tags_npm j) /\ Permutation vs (adv_npm j).
Proof.
  unfold wf_npm. intros H.
  apply andb_true_iff in H as [H Htime]. apply andb_true_iff in H as [H Htags]. apply andb_true_iff in H as [Hobj Hv].
  apply is_obj_inv in Hobj as [l [-> Hd]].
  destruct (member s_versions (JObj l)) as [v|] eqn:Ev; [|discriminate].
  apply is_obj_inv in Hv as [lv [-> Hdv]].
  cbn [decode]. unfold dec_npm. rewrite (struct_ok_obj _ l Hd).
  assert (dec_field fields_NpmPackageResponse 0 (dec_map dec_any) [] (JObj l) = Some (map (fun p => (fst p, tt)) lv)) as ->.
  { unfold dec_field, raw_field. change (nth_key fields_NpmPackageResponse 0) with s_versions.
    unfold member in Ev. rewrite Ev. now apply (dec_map_distinct dec_any (fun _ => tt)). }
  rewrite (str_map_field fields_NpmPackageResponse 1 s_dist_tags l eq_refl eq_refl Htags).
  rewrite (str_map_field fields_NpmPackageResponse 2 s_time l eq_refl eq_refl Htime).
  eexists. split; [reflexivity|].
  rewrite sorted_names_perm, !map_map. cbn [fst snd].
  unfold adv_npm. rewrite Ev. reflexivity.
Qed.

(* ---------- crates.io ---------- *)
Lemma crate_version_dec v : wf_crate_version v = true ->
  dec_crate_version v = Some (match member s_num v with Some n => str_of n | None => [] end,
                              yanked_true v,
                              match member s_created_at v with Some n => str_of n | None => [] end).
Proof.
  unfold wf_crate_version. intros H.
  apply andb_true_iff in H as [H Hc]. apply andb_true_iff in H as [H Hy]. apply andb_true_iff in H as [Hobj Hn].
  apply is_obj_inv in Hobj as [l [-> Hd]].
  unfold dec_crate_version. rewrite (struct_ok_obj _ l Hd).
  unfold dec_field, raw_field, yanked_true, member in *.
  change (nth_key fields_CrateVersion 0) with s_num. change (nth_key fields_CrateVersion 1) with s_yanked.
  change (nth_key fields_CrateVersion 2) with s_created_at.
  destruct (lookup s_num l) as [[]|]; try discriminate.
  destruct (lookup s_yanked l) as [[]|]; try discriminate.
  destruct (lookup s_created_at l) as [[]|]; try discriminate.
  cbn. now destruct b.
Qed.

Theorem crates_exact j : wf_crates j = true ->
  exists vs, decode ts ACrates (BJson j) = Some (vs, []) /\ Permutation vs (adv_crates j).
Proof.
  unfold wf_crates. intros H. apply andb_true_iff in H as [Hobj Hv].
  apply is_obj_inv in Hobj as [l [-> Hd]].
  destruct (member s_versions (JObj l)) as [[| | | | |lv|]|] eqn:Ev; try discriminate.
  cbn [decode]. unfold dec_crates. rewrite (struct_ok_obj _ l Hd).
  unfold dec_field, raw_field. change (nth_key fields_CratesIoResponse 0) with s_versions.
  unfold member in Ev. rewrite Ev. unfold dec_vec.
  rewrite (all_some_map dec_crate_version _ lv (fun v Hin => crate_version_dec v (proj1 (forallb_forall _ _) Hv v Hin))).
  eexists. split; [reflexivity|].
  rewrite sorted_names_perm, map_map. cbn [fst snd].
  unfold adv_crates, member. rewrite Ev.
  clear. induction lv as [|v t IH]; cbn [map filter fst snd]; [reflexivity|].
  destruct (yanked_true v); cbn [negb map fst snd]; [exact IH|]. apply perm_skip. exact IH.
Qed.

(* ---------- GitHub releases (one page) ---------- *)
Lemma opt_str_dec tbl i k l :
  nth_key tbl i = k -> policy_idx tbl i = 3 -> opt_str_member k (JObj l) = true ->
  exists o, dec_field tbl i dec_opt_string None (JObj l) = Some o.
Proof.
  intros Hk Hp Hw. unfold dec_field, raw_field, opt_str_member, member in *. rewrite Hk.
  destruct (lookup k l) as [[]|]; try discriminate; cbn; rewrite ?Hp; eauto.
Qed.

Lemma release_dec r : wf_release r = true ->
  exists p, dec_release r = Some (match member s_tag_name r with Some n => str_of n | None => [] end, p).
Proof.
  unfold wf_release. intros H. apply andb_true_iff in H as [H Hp]. apply andb_true_iff in H as [Hobj Hn].
  apply is_obj_inv in Hobj as [l [-> Hd]].
  unfold dec_release. rewrite (struct_ok_obj _ l Hd).
  destruct (opt_str_dec fields_Release 1 s_published_at l eq_refl eq_refl Hp) as [o Ho]. rewrite Ho.
  unfold dec_field, raw_field, member in *. change (nth_key fields_Release 0) with s_tag_name.
  destruct (lookup s_tag_name l) as [[]|]; try discriminate. cbn. eauto.
Qed.

Lemma all_some_names {A} (dec : json -> option (bytes * A)) (name : json -> bytes) l :
  (forall x, In x l -> exists p, dec x = Some (name x, p)) ->
  exists rs, all_some_l (map dec l) = Some rs /\ map fst rs = map name l.
Proof.
  induction l as [|x t IH]; cbn; intros H; [now exists []|].
  destruct (H x (or_introl eq_refl)) as [p Hp]. rewrite Hp.
  destruct IH as [rs [E1 E2]]; [intros y Hy; apply H; now right|].
  rewrite E1. cbn. eexists. split; [reflexivity|]. cbn. now rewrite E2.
Qed.

Theorem github_page_exact j : wf_github_page j = true ->
  exists vs, decode ts AGitHub (BJson j) = Some (vs, []) /\ Permutation vs (adv_github_page j).
Proof.
  destruct j as [| | | | |l|]; try discriminate. cbn [wf_github_page]. intros H.
  cbn [decode]. unfold dec_github, dec_vec.
  destruct (all_some_names dec_release (fun r => match member s_tag_name r with Some n => str_of n | None => [] end) l) as [rs [E1 E2]].
  { intros x Hx. apply release_dec. rewrite forallb_forall in H. now apply H. }
  rewrite E1. eexists. split; [reflexivity|].
  rewrite sorted_names_perm, map_map. cbn [fst snd].
  change (map (fun x : bytes * option bytes => fst x) rs) with (map fst rs). rewrite E2.
  unfold adv_github_page. reflexivity.
Qed.

(* ---------- JSR ---------- *)
Lemma jsr_meta_dec m : wf_jsr_meta m = true -> exists c, dec_jsr_meta m = Some (c, yanked_true m).
Proof.
  unfold wf_jsr_meta. intros H. apply andb_true_iff in H as [H Hy]. apply andb_true_iff in H as [Hobj Hc].
  apply is_obj_inv in Hobj as [l [-> Hd]].
  unfold dec_jsr_meta. rewrite (struct_ok_obj _ l Hd).
  destruct (opt_str_dec fields_JsrVersionMeta 0 s_createdAt l eq_refl eq_refl Hc) as [o Ho]. rewrite Ho.
  unfold dec_field, raw_field, yanked_true, member in *. change (nth_key fields_JsrVersionMeta 1) with s_yanked.
  destruct (lookup s_yanked l) as [[]|]; try discriminate; cbn; eauto. destruct b; eauto.
Qed.

Theorem jsr_exact j : wf_jsr j = true ->
  exists vs, decode ts AJsr (BJson j) = Some (vs, []) /\ Permutation vs (adv_jsr j).
Proof.
  unfold wf_jsr. intros H. apply andb_true_iff in H as [H Hv]. apply andb_true_iff in H as [Hobj Hl].
  apply is_obj_inv in Hobj as [l [-> Hd]].
  destruct (member s_versions (JObj l)) as [v|] eqn:Ev; [|discriminate].
  destruct (members v) as [lv|] eqn:Em; [|discriminate]. apply members_obj in Em as [-> Hdv].
  cbn [decode]. unfold dec_jsr. rewrite (struct_ok_obj _ l Hd).
  destruct (opt_str_dec fields_JsrMetaResponse 0 s_latest l eq_refl eq_refl Hl) as [o Ho]. rewrite Ho.
  (* choose the decoded meta of each member *)
  set (f := fun m => match dec_jsr_meta m with Some x => x | None => (None, false) end).
  assert (dec_field fields_JsrMetaResponse 1 (dec_map dec_jsr_meta) [] (JObj l) = Some (map (fun p => (fst p, f (snd p))) lv)) as ->.
  { unfold dec_field, raw_field. change (nth_key fields_JsrMetaResponse 1) with s_versions.
    unfold member in Ev. rewrite Ev. apply dec_map_distinct; [exact Hdv|].
    intros p Hp. rewrite forallb_forall in Hv. destruct (jsr_meta_dec (snd p) (Hv p Hp)) as [c Hc].
    unfold f. now rewrite Hc. }
  eexists. split; [reflexivity|].
  rewrite sorted_names_perm, map_map. cbn [fst snd].
  unfold adv_jsr. rewrite Ev.
  rewrite forallb_forall in Hv. clear Ev Hdv. induction lv as [|p t IH]; cbn [map filter fst snd]; [reflexivity|].
  destruct (jsr_meta_dec (snd p) (Hv p (or_introl eq_refl))) as [c Hc].
  assert (snd (f (snd p)) = yanked_true (snd p)) as -> by (unfold f; now rewrite Hc).
  specialize (IH (fun q Hq => Hv q (or_intror Hq))).
  destruct (yanked_true (snd p)); cbn [negb map fst snd]; [exact IH|]. apply perm_skip. exact IH.
Qed.

(* ---------- PyPI ---------- *)
Theorem pypi_exact j : wf_pypi j = true ->
  exists vs, decode ts APypi (BJson j) = Some (vs, tags_pypi j) /\ Permutation vs (adv_pypi j).
Proof.
  unfold wf_pypi. intros H. apply andb_true_iff in H as [H Hr]. apply andb_true_iff in H as [Hobj Hi].
  apply is_obj_inv in Hobj as [l [-> Hd]].
  destruct (member s_info (JObj l)) as [i|] eqn:Ei; [|discriminate].
  apply andb_true_iff in Hi as [Hio Hiv]. apply is_obj_inv in Hio as [li [-> Hdi]].
  destruct (member s_releases (JObj l)) as [r|] eqn:Er; [|discriminate].
  destruct (members r) as [lr|] eqn:Em; [|discriminate]. apply members_obj in Em as [-> Hdr].
  cbn [decode]. unfold dec_pypi. rewrite (struct_ok_obj _ l Hd).
  assert (dec_field fields_PypiResponse 0 dec_pypi_info [] (JObj l)
          = Some (str_of (match member s_version (JObj li) with Some v => v | None => JNull end))) as ->.
  { unfold dec_field at 1, raw_field. change (nth_key fields_PypiResponse 0) with s_info.
    unfold member in Ei. rewrite Ei. unfold dec_pypi_info. rewrite (struct_ok_obj _ li Hdi).
    unfold dec_field, raw_field, member in *. change (nth_key fields_PypiInfo 0) with s_version.
    destruct (lookup s_version li) as [[]|]; try discriminate. reflexivity. }
  assert (dec_field fields_PypiResponse 1 (dec_map (dec_vec dec_pypi_file)) [] (JObj l)
          = Some (map (fun p => (fst p, match snd p with JArr fs => map (fun _ => tt) fs | _ => [] end)) lr)) as ->.
  { unfold dec_field, raw_field. change (nth_key fields_PypiResponse 1) with s_releases.
    unfold member in Er. rewrite Er.
    apply (dec_map_distinct (dec_vec dec_pypi_file) (fun j => match j with JArr fs => map (fun _ => tt) fs | _ => [] end)); [exact Hdr|].
    intros p Hp. rewrite forallb_forall in Hr. specialize (Hr p Hp).
    destruct (snd p) as [| | | | |fs|]; try discriminate. unfold dec_vec. apply all_some_map.
    intros x Hx. rewrite forallb_forall in Hr. specialize (Hr x Hx). apply is_obj_inv in Hr as [lx [-> Hdx]].
    unfold dec_pypi_file. now rewrite (struct_ok_obj _ lx Hdx). }
  unfold tags_pypi. rewrite Ei. unfold member in Hiv |- *.
  destruct (lookup s_version li) as [[]|]; try discriminate.
  eexists. split; [reflexivity|].
  rewrite map_map. cbn [fst]. unfold adv_pypi, member. unfold member in Er. rewrite Er. reflexivity.
Qed.
End Exact.

(* ---------- Go proxy list ---------- *)
Lemma strip_suffix_snoc c l : strip_suffix [c] (l ++ [c]) = Some l.
Proof. unfold strip_suffix. rewrite rev_app_distr. cbn. rewrite N.eqb_refl. now rewrite rev_involutive. Qed.
Lemma strip_suffix_last c l : (forall x, In x l -> x <> c) -> strip_suffix [c] l = None.
Proof.
  intros H. unfold strip_suffix. destruct (rev l) as [|d r] eqn:E; cbn; [reflexivity|].
  destruct (c =? d) eqn:Ec; [|reflexivity]. apply N.eqb_eq in Ec. subst d.
  exfalso. apply (H c); [|reflexivity]. apply in_rev. rewrite E. now left.
Qed.
Lemma strip_suffix_cr l : strip_suffix [13] l = match rev l with c :: r => if c =? 13 then Some (rev r) else None | [] => None end.
Proof.
  unfold strip_suffix. destruct (rev l) as [|d r]; cbn; [reflexivity|].
  rewrite N.eqb_sym. now destruct (d =? 13).
Qed.
Lemma chomp_line acc : chomp (rev (10 :: acc)) = strip_cr (rev acc).
Proof.
  unfold chomp, strip_cr. cbn [rev]. rewrite strip_suffix_snoc, strip_suffix_cr.
  destruct (rev (rev acc)) as [|c r]; [reflexivity|]. now destruct (c =? 13).
Qed.

Lemma go_lines_agree s : forall acc,
  wf_go s = true -> (forall c, In c acc -> c <> 10) ->
  (match acc with c :: _ => c = 13 -> exists t, s = 10 :: t | [] => True end) ->
  filter (fun l => negb (beq l [])) (map chomp (split_inclusive_aux s acc))
  = filter (fun l => negb (beq l [])) (map strip_cr (split_lines_aux s acc)).
Proof.
  induction s as [|c t IH]; intros acc Hwf Hacc Hcr.
  - cbn [split_inclusive_aux split_lines_aux]. destruct acc as [|a acc]; [reflexivity|].
    cbn [map]. f_equal. f_equal.
    unfold chomp. rewrite strip_suffix_last.
    2:{ intros x Hx. apply Hacc. now apply in_rev in Hx. }
    unfold strip_cr. rewrite rev_involutive.
    destruct (a =? 13) eqn:E; [|reflexivity]. apply N.eqb_eq in E. destruct (Hcr E) as [? Habs]. discriminate.
  - cbn [split_inclusive_aux split_lines_aux]. destruct (c =? 10) eqn:E10.
    + apply N.eqb_eq in E10. subst c. cbn [map filter]. rewrite chomp_line.
      assert (wf_go t = true) as Hwt by (cbn in Hwf; exact Hwf).
      rewrite (IH [] Hwt); [reflexivity| intros ? [] | exact I].
    + apply IH.
      * cbn [wf_go] in Hwf. destruct (c =? 13); [|exact Hwf].
        destruct t as [|d t']; [discriminate|]. apply andb_true_iff in Hwf. tauto.
      * intros x [<-|Hx]; [now apply N.eqb_neq|now apply Hacc].
      * intros ->. cbn [wf_go] in Hwf. cbn in Hwf.
        destruct t as [|d t']; [discriminate|]. apply andb_true_iff in Hwf as [Hd _].
        apply N.eqb_eq in Hd. subst d. eauto.
Qed.

Theorem go_exact text : wf_go text = true -> Permutation (dec_go text) (adv_go text).
Proof.
  intros H. unfold dec_go, adv_go, lines.
  rewrite sorted_names_perm, map_map. cbn [snd]. rewrite map_id.
  rewrite (go_lines_agree text [] H); [reflexivity| intros ? [] | exact I].
Qed.

(* ---------- statuses ---------- *)
Definition reg_of (a : adapter) : reg :=
  match a with ANpm => RNpm | ACrates => RCrates | AGo => RGo | AGitHub => RGitHub | AJsr => RJsr | APypi => RPypi end.

Lemma classify_spec a s :
  classify (rules a) s =
  if definitive_not_found (reg_of a) s then 1
  else if (match a with AGitHub => s =? 429 | _ => false end) then 2
  else if success s then 0 else 3.
Proof.
  assert (is_success s = success s) as Hs.
  { unfold is_success, success. destruct (200 <=? s); [|reflexivity]. cbn.
    destruct (N.ltb_spec s 300), (N.leb_spec s 299); try reflexivity; lia. }
  destruct a; cbn [rules reg_of]; unfold definitive_not_found, rules_npm, rules_crates, rules_go, rules_github, rules_jsr, rules_pypi;
    cbn [classify existsb]; rewrite Hs;
    destruct (s =? 404), (s =? 410), (s =? 429), (success s); reflexivity.
Qed.

Lemma definitive_not_success r s : definitive_not_found r s = true -> success s = false.
Proof.
  unfold definitive_not_found, success. intros H. apply orb_true_iff in H as [H|H].
  - apply N.eqb_eq in H. now subst.
  - destruct r; try discriminate. apply N.eqb_eq in H. now subst.
Qed.

Section Outcomes.
Variable ts : bytes -> option Z.

Theorem not_found_iff a r : fetch ts a (Some r) = ONotFound <-> definitive_not_found (reg_of a) (r_status r) = true.
Proof.
  unfold fetch. rewrite classify_spec.
  destruct (definitive_not_found (reg_of a) (r_status r)); [split; reflexivity|].
  split; [|discriminate].
  destruct (match a with AGitHub => r_status r =? 429 | _ => false end); [discriminate|].
  destruct (success (r_status r)); [|discriminate]. destruct (decode ts a (r_body r)) as [[]|]; discriminate.
Qed.

Theorem rate_limited_iff a r : (exists x, fetch ts a (Some r) = ORateLimited x) <-> a = AGitHub /\ r_status r = 429.
Proof.
  unfold fetch. rewrite classify_spec. split.
  - intros [x H]. destruct (definitive_not_found (reg_of a) (r_status r)); [discriminate|].
    destruct a; cbv beta iota in H; try (destruct (success (r_status r)); [destruct (decode ts _ (r_body r)) as [[]|]|]; discriminate).
    destruct (r_status r =? 429) eqn:E; [apply N.eqb_eq in E; tauto|].
    destruct (success (r_status r)); [destruct (decode ts _ (r_body r)) as [[]|]|]; discriminate.
  - intros [-> E]. rewrite E. change (definitive_not_found (reg_of AGitHub) 429) with false. change (429 =? 429) with true. cbv beta iota. eauto.
Qed.

(* every status that is neither 2xx nor a definitive not-found, an undecodable 2xx body, and no reply at all
   are transient failures (rate limiting being one of them) *)
Theorem other_status_transient a r :
  success (r_status r) = false -> definitive_not_found (reg_of a) (r_status r) = false ->
  fetch ts a (Some r) = OTransient \/ exists x, fetch ts a (Some r) = ORateLimited x.
Proof.
  intros Hs Hd. unfold fetch. rewrite classify_spec, Hd, Hs.
  destruct (match a with AGitHub => r_status r =? 429 | _ => false end); eauto.
Qed.
Theorem undecodable_transient a r : success (r_status r) = true -> decode ts a (r_body r) = None -> fetch ts a (Some r) = OTransient.
Proof.
  intros Hs Hd. unfold fetch. rewrite classify_spec, Hs, Hd.
  destruct (definitive_not_found (reg_of a) (r_status r)) eqn:E; [apply definitive_not_success in E; congruence|].
  destruct a; try reflexivity. destruct (r_status r =? 429) eqn:E9; [|reflexivity].
  apply N.eqb_eq in E9. rewrite E9 in Hs. discriminate.
Qed.
Theorem no_reply_transient a : fetch ts a None = OTransient.
Proof. reflexivity. Qed.
Theorem ok_only_success a r vs tags : fetch ts a (Some r) = OOk vs tags -> success (r_status r) = true /\ decode ts a (r_body r) = Some (vs, tags).
Proof.
  unfold fetch. rewrite classify_spec.
  destruct (definitive_not_found (reg_of a) (r_status r)); [discriminate|].
  destruct (match a with AGitHub => r_status r =? 429 | _ => false end); [discriminate|].
  destruct (success (r_status r)); [|discriminate].
  destruct (decode ts a (r_body r)) as [[v t]|]; [|discriminate]. intros [= <- <-]. now split.
Qed.
Theorem success_decodes a r vs tags : success (r_status r) = true -> decode ts a (r_body r) = Some (vs, tags) -> fetch ts a (Some r) = OOk vs tags.
Proof.
  intros Hs Hd. unfold fetch. rewrite classify_spec, Hs, Hd.
  destruct (definitive_not_found (reg_of a) (r_status r)) eqn:E; [apply definitive_not_success in E; congruence|].
  destruct a; try reflexivity. destruct (r_status r =? 429) eqn:E9; [|reflexivity].
  apply N.eqb_eq in E9. rewrite E9 in Hs. discriminate.
Qed.

(* the whole statement for a well-formed reply *)
Definition wf_body (a : adapter) (b : body) : bool :=
  match a, b with
  | ANpm, BJson j => wf_npm j | ACrates, BJson j => wf_crates j | AGitHub, BJson j => wf_github_page j
  | AJsr, BJson j => wf_jsr j | APypi, BJson j => wf_pypi j | AGo, BRaw t => wf_go t
  | _, _ => false
  end.
Definition advertised (a : adapter) (b : body) : list bytes :=
  match a, b with
  | ANpm, BJson j => adv_npm j | ACrates, BJson j => adv_crates j | AGitHub, BJson j => adv_github_page j
  | AJsr, BJson j => adv_jsr j | APypi, BJson j => adv_pypi j | AGo, BRaw t => adv_go t
  | _, _ => []
  end.
Definition declared_tags (a : adapter) (b : body) : list (bytes * bytes) :=
  match a, b with ANpm, BJson j => tags_npm j | APypi, BJson j => tags_pypi j | _, _ => [] end.

Theorem reply_exact a r : success (r_status r) = true -> wf_body a (r_body r) = true ->
  exists vs, fetch ts a (Some r) = OOk vs (declared_tags a (r_body r)) /\ Permutation vs (advertised a (r_body r)).
Proof.
  intros Hs Hw.
  assert (exists vs, decode ts a (r_body r) = Some (vs, declared_tags a (r_body r)) /\ Permutation vs (advertised a (r_body r))) as [vs [Hd Hp]].
  { destruct a, (r_body r) as [j|t]; try discriminate; cbn [wf_body advertised declared_tags] in *.
    - now apply npm_exact.
    - now apply crates_exact.
    - eexists. split; [reflexivity|]. now apply go_exact.
    - now apply github_page_exact.
    - now apply jsr_exact.
    - now apply pypi_exact. }
  exists vs. split; [|exact Hp]. now apply success_decodes.
Qed.
End Outcomes.

(* ---------- names ---------- *)
Lemma pct_roundtrip name : ~ In 37 name -> pct_decode_slash (flat_map (fun c => if c =? 47 then [37; 50; 70] else [c]) name) = name.
Proof.
  induction name as [|c t IH]; intros H; [reflexivity|].
  cbn [flat_map]. assert (~ In 37 t) as Ht by (intros Hin; apply H; now right).
  destruct (c =? 47) eqn:E.
  - apply N.eqb_eq in E. subst c. cbn [app pct_decode_slash]. cbn. now rewrite IH.
  - cbn [app pct_decode_slash]. destruct (c =? 37) eqn:E7; [apply N.eqb_eq in E7; subst c; exfalso; apply H; now left|].
    now rewrite IH.
Qed.
Theorem npm_name_roundtrip name : ~ In 37 name -> pct_decode_slash (encode_npm name) = name.
Proof.
  intros H. unfold encode_npm. destruct name as [|c t]; [reflexivity|].
  assert (pct_decode_slash (c :: t) = c :: t) as Hplain.
  { clear -H. induction (c :: t) as [|x l IH]; [reflexivity|]. cbn [pct_decode_slash].
    destruct (x =? 37) eqn:E; [apply N.eqb_eq in E; subst x; exfalso; apply H; now left|].
    rewrite IH; [reflexivity|]. intros Hin. apply H. now right. }
  destruct (N.eq_dec c 64) as [->|Hne].
  - now apply pct_roundtrip.
  - destruct c as [|p]; [exact Hplain|]. repeat (destruct p as [p|p|]; try exact Hplain). congruence.
Qed.
(* a scoped name is requested as one path segment *)
Theorem npm_scoped_one_segment t : ~ In 47 (encode_npm (64 :: t)).
Proof.
  unfold encode_npm. intros H. apply in_flat_map in H as [c [_ Hc]].
  destruct (c =? 47) eqn:E.
  - cbn in Hc. intuition discriminate.
  - cbn in Hc. destruct Hc as [Hc|[]]. subst c. discriminate.
Qed.

Theorem go_name_roundtrip name : ~ In 33 name -> go_unescape (encode_go name) = Some name.
Proof.
  induction name as [|c t IH]; intros H; [reflexivity|].
  assert (~ In 33 t) as Ht by (intros Hin; apply H; now right).
  assert (c <> 33) as Hc by (intros ->; apply H; now left).
  unfold encode_go in *. cbn [flat_map]. destruct (is_upper c) eqn:Eu.
  - cbn [app go_unescape]. rewrite N.eqb_refl.
    assert (is_lower (to_lower c) = true /\ to_lower c - 32 = c) as [Hl Hs].
    { unfold to_lower. rewrite Eu. unfold is_upper, is_lower in *. apply andb_true_iff in Eu as [E1 E2].
      apply N.leb_le in E1, E2. split; [apply andb_true_iff; split; apply N.leb_le; lia|lia]. }
    rewrite Hl, IH by assumption. cbn. now rewrite Hs.
  - cbn [app go_unescape]. apply N.eqb_neq in Hc. rewrite Hc, Eu, IH by assumption. reflexivity.
Qed.

(* the request line of each adapter *)
Lemma subst1_head pre arg post : ~ (exists a b, pre = a ++ 123 :: 125 :: b) -> (forall x, last pre 0 = x -> x <> 123) ->
  subst1 (pre ++ 123 :: 125 :: post) arg = pre ++ arg ++ post.
Proof.
Abort.

Theorem request_paths name :
  request_path ANpm name = 47 :: encode_npm name
  /\ request_path ACrates name = 47 :: name
  /\ request_path AGo name = 47 :: encode_go name ++ [47; 64; 118; 47; 108; 105; 115; 116]
  /\ request_path AGitHub name = [47; 114; 101; 112; 111; 115; 47] ++ name ++ [47; 114; 101; 108; 101; 97; 115; 101; 115]
  /\ request_path AJsr name = 47 :: name ++ [47; 109; 101; 116; 97; 46; 106; 115; 111; 110]
  /\ request_path APypi name = [47; 112; 121; 112; 105; 47] ++ name ++ [47; 106; 115; 111; 110]
  /\ request_path_tags name = [47; 114; 101; 112; 111; 115; 47] ++ name ++ [47; 116; 97; 103; 115].
Proof.
  unfold request_path, request_path_tags. cbn. rewrite !app_nil_r. repeat split; reflexivity.
Qed.

(* ---------- pagination: one request is made, so later pages are never read ---------- *)
Definition page1 : json := JArr [JObj [(s_tag_name, JStr [118; 50])]].          (* [{"tag_name":"v2"}] *)
Definition page2 : json := JArr [JObj [(s_tag_name, JStr [118; 49])]].          (* [{"tag_name":"v1"}] *)
Theorem github_pagination_refuted :
  exists pages first, pages = first :: page2 :: nil /\ forallb wf_github_page pages = true /\
    forall ts, exists vs, fetch ts AGitHub (Some (mkReply 200 None (BJson first))) = OOk vs [] /\ ~ Permutation vs (adv_github pages).
Proof.
  exists [page1; page2], page1. split; [reflexivity|]. split; [reflexivity|].
  intros ts. eexists. split; [reflexivity|]. cbn. intros H. apply Permutation_length in H. discriminate.
Qed.

(* ---------- fetch_tag_sha: the commit of exactly the named tag ---------- *)
Theorem tag_sha_exact tag r sha : fetch_tag_sha tag (Some r) = SSha sha ->
  success (r_status r) = true /\
  exists j tags, r_body r = BJson j /\ dec_vec dec_tag j = Some tags /\
    exists pre post, tags = pre ++ (tag, sha) :: post /\ forall t, In t pre -> fst t <> tag.
Proof.
  unfold fetch_tag_sha.
  assert (classify rules_github_tags (r_status r) = classify (rules AGitHub) (r_status r)) as -> by reflexivity.
  rewrite classify_spec. cbn [reg_of].
  destruct (definitive_not_found RGitHub (r_status r)); [discriminate|].
  destruct (r_status r =? 429); [discriminate|].
  destruct (success (r_status r)); [|discriminate].
  destruct (r_body r) as [j|]; [|discriminate].
  destruct (dec_vec dec_tag j) as [tags|] eqn:Ed; [|discriminate].
  destruct (find (fun t => beq (fst t) tag) tags) as [[n s]|] eqn:Ef; [|discriminate].
  intros [= <-]. split; [reflexivity|]. exists j, tags. split; [reflexivity|]. split; [exact Ed|].
  clear Ed. induction tags as [|[n' s'] t IH]; [discriminate|].
  cbn [find fst] in Ef. destruct (beq n' tag) eqn:E.
  - apply beq_eq in E. injection Ef as -> ->. subst. exists [], t. split; [reflexivity|]. intros ? [].
  - destruct (IH Ef) as [pre [post [-> Hpre]]]. exists ((n', s') :: pre), post. split; [reflexivity|].
    intros x [<-|Hx]; [cbn; now apply beq_neq|now apply Hpre].
Qed.
Theorem tag_sha_none tag : fetch_tag_sha tag None = STransient.
Proof. reflexivity. Qed.
