(* C04 / C05 for Cargo.toml: on every CST that denotes a TOML document (Spec/TomlDoc.v), written in the plain
   spellings and outside the known classes, the walk of cargo_toml.rs reports exactly the dependencies the
   document declares, each located inside its version string. *)
From Coq Require Import ZArith Lia.
From VL Require Import Lib.Bytes Lib.Text Lib.Cst Gen.GenParsers Model.Walks Spec.TomlDoc Proofs.JsonWalkProofs Proofs.TrimLemmas.

(* ---------- unfolding one level ---------- *)
Definition tkids_of (content : bytes) (ch : list node) : list (node * tden) := map (fun c => (c, denote_tnode content c)) ch.
Lemma denote_tnode_eq content kind f sb eb r c missing ch :
  denote_tnode content (Node kind f sb eb r c missing ch) = denote_tstep content kind sb eb missing (tkids_of content ch).
Proof.
  cbn [denote_tnode]. unfold tkids_of.
  assert ((fix go (l : list node) : list (node * tden) :=
             match l with [] => [] | c0 :: t => (c0, denote_tnode content c0) :: go t end) ch
          = map (fun c0 => (c0, denote_tnode content c0)) ch) as ->; [|reflexivity].
  induction ch as [|x t IH]; [reflexivity|]. cbn [map]. now rewrite IH.
Qed.
Lemma plain_toml_eq lit content kind f sb eb r c missing ch :
  plain_toml_gen lit content (Node kind f sb eb r c missing ch) = plain_here lit content kind sb eb && forallb (plain_toml_gen lit content) ch.
Proof. cbn [plain_toml_gen]. f_equal. Qed.
Lemma plain_toml_child lit content n c : plain_toml_gen lit content n = true -> In c (n_children n) -> plain_toml_gen lit content c = true.
Proof.
  destruct n as [k f sb eb r cc m ch]. rewrite plain_toml_eq. cbn [n_children]. intros H Hin.
  apply andb_true_iff in H as [_ H]. rewrite forallb_forall in H. now apply H.
Qed.

(* ---------- splitting at a byte ---------- *)
Fixpoint join_on (c : N) (l : list bytes) : bytes :=
  match l with
  | [] => []
  | [a] => a
  | a :: t => a ++ c :: join_on c t
  end.
Lemma split_on_nonempty c s : split_on c s <> [].
Proof. destruct s as [|x t]; cbn; [discriminate|]. destruct (x =? c); [discriminate|]. destruct (split_on c t); discriminate. Qed.
Lemma join_on_cons c a l : l <> [] -> join_on c (a :: l) = a ++ c :: join_on c l.
Proof. destruct l; [congruence|reflexivity]. Qed.
Lemma split_on_cons c x t : split_on c (x :: t) =
  if x =? c then [] :: split_on c t else match split_on c t with h :: r => (x :: h) :: r | [] => [[x]] end.
Proof. reflexivity. Qed.
Lemma join_split c s : join_on c (split_on c s) = s.
Proof.
  induction s as [|x t IH]; [reflexivity|]. rewrite split_on_cons.
  pose proof (split_on_nonempty c t) as Hne.
  destruct (x =? c) eqn:E.
  - apply N.eqb_eq in E. subst x. rewrite join_on_cons by exact Hne. rewrite IH. reflexivity.
  - destruct (split_on c t) as [|h r] eqn:Es; [congruence|].
    destruct r as [|h2 r2].
    + cbn [join_on] in *. now rewrite IH.
    + rewrite join_on_cons by discriminate. rewrite join_on_cons in IH by discriminate. cbn [app]. now rewrite IH.
Qed.
Lemma split_on_inj c s s' : split_on c s = split_on c s' -> s = s'.
Proof. intros H. rewrite <- (join_split c s), <- (join_split c s'). now rewrite H. Qed.
Lemma split_once_aux_spec c s acc :
  match split_once_aux c s acc with
  | None => existsb (N.eqb c) s = false
  | Some (p, r) => exists p', p = rev acc ++ p' /\ existsb (N.eqb c) p' = false /\ s = p' ++ c :: r
  end.
Proof.
  revert acc. induction s as [|x t IH]; intros acc; cbn [split_once_aux]; [reflexivity|].
  destruct (x =? c) eqn:E.
  - apply N.eqb_eq in E. subst x. exists []. rewrite app_nil_r. repeat split.
  - specialize (IH (x :: acc)). destruct (split_once_aux c t (x :: acc)) as [[p r]|].
    + destruct IH as [p' [-> [Hn ->]]]. exists (x :: p'). cbn [rev existsb app]. rewrite <- app_assoc. cbn [app].
      repeat split. rewrite N.eqb_sym, E. exact Hn.
    + cbn [existsb]. now rewrite N.eqb_sym, E.
Qed.
Lemma split_on_notin c s : existsb (N.eqb c) s = false -> split_on c s = [s].
Proof.
  induction s as [|x t IH]; [reflexivity|]. cbn [existsb split_on]. intros H. apply orb_false_iff in H as [H1 H2].
  rewrite N.eqb_sym, H1. now rewrite (IH H2).
Qed.
Lemma split_on_app c p r : existsb (N.eqb c) p = false -> split_on c (p ++ c :: r) = p :: split_on c r.
Proof.
  induction p as [|x t IH]; intros H.
  - cbn [app split_on]. now rewrite N.eqb_refl.
  - cbn [existsb] in H. apply orb_false_iff in H as [H1 H2]. cbn [app split_on]. rewrite N.eqb_sym, H1. now rewrite (IH H2).
Qed.
Lemma split_once_split_on c s :
  match split_once c s with
  | None => split_on c s = [s]
  | Some (p, r) => split_on c s = p :: split_on c r /\ existsb (N.eqb c) p = false
  end.
Proof.
  unfold split_once. pose proof (split_once_aux_spec c s []) as H.
  destruct (split_once_aux c s []) as [[p r]|].
  - destruct H as [p' [-> [Hn ->]]]. cbn [rev app]. split; [now apply split_on_app|exact Hn].
  - now apply split_on_notin.
Qed.

(* ---------- keys written plainly ---------- *)
Lemma parse_key_plain t p : plain_key_text t = true -> parse_key_text t = Some p -> p = split_on 46 t /\ existsb (beq []) p = false.
Proof.
  unfold parse_key_text. intros -> H. cbv zeta in H. destruct (existsb (beq []) (split_on 46 t)) eqn:E; [discriminate|].
  injection H as <-. now split.
Qed.

(* ---------- the kind of a node is decided by what it denotes ---------- *)
Lemma existsb_beq_in k L : existsb (beq k) L = true -> In k L.
Proof. intros H. apply existsb_exists in H as [x [Hin Hx]]. apply beq_eq in Hx. now subst. Qed.
Definition tok_kinds : list bytes := toml_punct ++ [tk_comment; tk_escape].
Definition shape_of (kind : bytes) (d : tden) : Prop :=
  match d with
  | TDTok => In kind tok_kinds
  | TDKey _ => kind = tk_bare_key \/ kind = tk_quoted_key \/ kind = tk_dotted_key
  | TDVal (TStr _) => kind = tk_string
  | TDVal TOther => In kind toml_scalars
  | TDVal (TArr _) => kind = tk_array
  | TDVal (TInline _) => kind = tk_inline_table
  | TDPair _ _ => kind = tk_pair
  | TDItem (ITable _ _) => kind = tk_table
  | TDItem (IArrTable _ _) => kind = tk_table_array
  | TDItem (IPair _ _) => False
  | TDDoc _ => kind = tk_document
  | TDBad => True
  end.
Lemma tstep_shape content kind sb eb m kids : shape_of kind (denote_tstep content kind sb eb m kids).
Proof.
  unfold denote_tstep. destruct m; [exact I|].
  destruct (existsb (beq kind) toml_punct || beq kind tk_comment || beq kind tk_escape) eqn:Etok.
  { cbn [shape_of]. unfold tok_kinds. apply in_or_app. apply orb_true_iff in Etok as [Etok|Etok]; [apply orb_true_iff in Etok as [Etok|Etok]|].
    - left. now apply existsb_beq_in.
    - right. left. apply beq_eq in Etok. now subst.
    - right. right. left. apply beq_eq in Etok. now subst. }
  destruct (beq kind tk_bare_key || beq kind tk_quoted_key) eqn:Ekey.
  { destruct (slice content sb eb) as [text|]; [|exact I]. destruct (parse_key_text text) as [[|k [|k2 r]]|]; try exact I.
    cbn [shape_of]. apply orb_true_iff in Ekey as [E|E]; apply beq_eq in E; subst; auto. }
  destruct (beq kind tk_dotted_key) eqn:Edot.
  { destruct (slice content sb eb) as [text|]; [|exact I]. destruct (parse_key_text text) as [[|k [|k2 r]]|]; try exact I.
    cbn [shape_of]. apply beq_eq in Edot. auto. }
  destruct (beq kind tk_string) eqn:Estr.
  { destruct (slice content sb eb) as [text|]; [|exact I]. destruct (denote_toml_string text); [|exact I]. cbn [shape_of]. now apply beq_eq. }
  destruct (existsb (beq kind) toml_scalars) eqn:Esc.
  { cbn [shape_of]. now apply existsb_beq_in. }
  destruct (beq kind tk_array) eqn:Earr.
  { destruct (tvals_of kids); [|exact I]. cbn [shape_of]. now apply beq_eq. }
  destruct (beq kind tk_inline_table) eqn:Einl.
  { destruct (tpairs_of kids) as [l|]; [|exact I]. destruct (nodup_pairs l); [|exact I]. cbn [shape_of]. now apply beq_eq. }
  destruct (beq kind tk_pair) eqn:Epair.
  { destruct kids as [|[n1 [| k | | | | |]] [|[n2 [| | | | | |]] [|[n3 [v| | | | | |]] rest]]]; try exact I.
    destruct (kind_is tk_eq n2 && all_tok rest); [|exact I]. cbn [shape_of]. now apply beq_eq. }
  destruct (beq kind tk_table || beq kind tk_table_array) eqn:Etab.
  { destruct kids as [|[n1 [| | | | | |]] [|[n2 [| h | | | | |]] [|[n3 [| | | | | |]] rest]]]; try exact I.
    destruct (kind_is (if beq kind tk_table then tk_lb else tk_lblb) n1); [|exact I].
    destruct (tpairs_of rest) as [l|]; [|exact I]. destruct (nodup_pairs l); [|exact I].
    destruct (beq kind tk_table) eqn:Et; cbn [shape_of].
    - now apply beq_eq.
    - cbn [orb] in Etab. now apply beq_eq. }
  destruct (beq kind tk_document) eqn:Edoc.
  { destruct (titems_of kids); [|exact I]. cbn [shape_of]. now apply beq_eq. }
  exact I.
Qed.
Lemma tnode_shape content n : shape_of (n_kind n) (denote_tnode content n).
Proof. destruct n as [k f sb eb r c m ch]. rewrite denote_tnode_eq. apply tstep_shape. Qed.

(* ---------- strings written plainly ---------- *)
Lemma quoted_inner_spec q text inner : quoted_inner q text = Some inner -> text = q :: inner ++ [q].
Proof.
  unfold quoted_inner. destruct text as [|x r]; [discriminate|]. destruct (x =? q) eqn:E; [|discriminate]. apply N.eqb_eq in E. subst x.
  destruct (rev r) as [|y ri] eqn:Er; [discriminate|]. destruct (y =? q) eqn:E2; [|discriminate]. apply N.eqb_eq in E2. subst y.
  intros H. injection H as <-. f_equal. rewrite <- (rev_involutive r), Er. reflexivity.
Qed.
Lemma skipn_S_skipn {A} (l : list A) k : skipn (S k) l = skipn 1 (skipn k l).
Proof. revert k. induction l as [|y ys IH]; intros [|k]; try reflexivity. cbn [skipn]. apply IH. Qed.
Lemma slice_inner content sb eb q q' inner :
  slice content sb eb = Some (q :: inner ++ [q']) -> slice content (sb + 1) (eb - 1) = Some inner.
Proof.
  intros Es. pose proof (slice_length _ _ _ _ Es) as Hlen.
  assert (blen (q :: inner ++ [q']) = blen inner + 2) as Hl2.
  { unfold blen. cbn [length]. rewrite app_length. cbn [length]. lia. }
  rewrite Hl2 in Hlen. unfold slice, firstn_N, skipn_N in *.
  destruct ((sb <=? eb) && (eb <=? blen content)) eqn:Eb; [|discriminate].
  apply andb_true_iff in Eb as [E1 E2]. apply N.leb_le in E1, E2.
  assert ((sb + 1 <=? eb - 1) && (eb - 1 <=? blen content) = true) as ->.
  { apply andb_true_iff. split; apply N.leb_le; lia. }
  injection Es as Es. f_equal.
  assert (N.to_nat (eb - 1 - (sb + 1)) = length inner) as Hn by (unfold blen in Hlen; lia).
  assert (skipn (N.to_nat (sb + 1)) content = skipn 1 (skipn (N.to_nat sb) content)) as ->.
  { replace (N.to_nat (sb + 1)) with (S (N.to_nat sb)) by lia. apply skipn_S_skipn. }
  replace (N.to_nat (eb - sb)) with (S (length inner + 1)) in Es by (unfold blen in Hlen; lia).
  destruct (skipn (N.to_nat sb) content) as [|x rest]; [discriminate|]. cbn [firstn] in Es. injection Es as -> Es. cbn [skipn].
  rewrite Hn. apply (f_equal (firstn (length inner))) in Es. rewrite firstn_firstn in Es.
  rewrite Nat.min_l in Es by lia. rewrite Es. rewrite firstn_app, Nat.sub_diag, firstn_all. cbn [firstn]. now rewrite app_nil_r.
Qed.
Lemma tstep_string content sb eb kids : denote_tstep content tk_string sb eb false kids =
  match slice content sb eb with
  | Some text => match denote_toml_string text with Some s => TDVal (TStr s) | None => TDBad end
  | None => TDBad
  end.
Proof. reflexivity. Qed.
Lemma plain_here_string content sb eb : plain_here false content tk_string sb eb =
  match slice content sb eb with
  | Some t => match quoted_inner 34 t with Some inner => no_byte 34 inner && no_byte 92 inner && no_byte 10 inner | None => false end
  | None => false
  end.
Proof. reflexivity. Qed.
Lemma toml_string_vinfo content n s :
  n_kind n = tk_string -> denote_tnode content n = TDVal (TStr s) -> plain_toml content n = true ->
  string_vinfo content n = Some (s, n_sb n + 1, n_eb n - 1, n_row n, n_col n + 1) /\ n_sb n + 2 <= n_eb n
  /\ slice content (n_sb n + 1) (n_eb n - 1) = Some s.
Proof.
  destruct n as [k f sb eb r c m ch]. cbn [n_kind n_sb n_eb n_row n_col]. intros -> Hd Hp.
  rewrite denote_tnode_eq in Hd. rewrite plain_toml_eq in Hp. apply andb_true_iff in Hp as [Hp _].
  destruct m; [discriminate|]. rewrite tstep_string in Hd. rewrite plain_here_string in Hp.
  destruct (slice content sb eb) as [text|] eqn:Es; [|discriminate].
  destruct (quoted_inner 34 text) as [inner|] eqn:Eq; [|discriminate].
  unfold denote_toml_string in Hd. rewrite Eq, Hp in Hd. injection Hd as <-.
  apply quoted_inner_spec in Eq. subst text.
  pose proof (slice_length _ _ _ _ Es) as Hlen.
  assert (blen (34 :: inner ++ [34]) = blen inner + 2) as Hl2.
  { unfold blen. cbn [length]. rewrite app_length. cbn [length]. lia. }
  rewrite Hl2 in Hlen.
  apply andb_true_iff in Hp as [Hp _]. apply andb_true_iff in Hp as [Hq _]. unfold no_byte in Hq. apply negb_true_iff in Hq.
  split; [|split].
  - unfold string_vinfo, node_text. cbn [n_sb n_eb n_row n_col]. rewrite Es. cbn [bind]. unfold pred_N.
    destruct (eb =? 0) eqn:E0; [apply N.eqb_eq in E0; lia|]. cbn [bind]. now rewrite (strip_dq_quoted inner Hq).
  - lia.
  - exact (slice_inner _ _ _ _ _ _ Es).
Qed.

(* ---------- kinds the walk looks at ---------- *)
Definition walk_kinds_false (k : bytes) : Prop :=
  beq k k_bare_key = false /\ beq k k_dotted_key = false /\ beq k k_string = false /\ beq k k_inline_table = false
  /\ beq k k_pair = false /\ beq k k_table = false /\ beq k k_array = false.
Lemma tok_not_walk_kind k : In k tok_kinds -> walk_kinds_false k.
Proof.
  intros H. cbv [tok_kinds toml_punct app] in H.
  repeat (destruct H as [<-|H]; [repeat split; reflexivity|]). destruct H.
Qed.
Lemma scalar_not_walk_kind k : In k toml_scalars -> walk_kinds_false k.
Proof.
  intros H. cbv [toml_scalars] in H.
  repeat (destruct H as [<-|H]; [repeat split; reflexivity|]). destruct H.
Qed.
Lemma tok_node content c : denote_tnode content c = TDTok -> walk_kinds_false (n_kind c).
Proof. intros H. pose proof (tnode_shape content c) as S. rewrite H in S. now apply tok_not_walk_kind. Qed.

(* ---------- pairs ---------- *)
Lemma tstep_pair content sb eb kids : denote_tstep content tk_pair sb eb false kids =
  match kids with
  | (_, TDKey k) :: (en, TDTok) :: (_, TDVal v) :: rest => if kind_is tk_eq en && all_tok rest then TDPair k v else TDBad
  | _ => TDBad
  end.
Proof. reflexivity. Qed.
Lemma all_tok_forall content rest : all_tok (tkids_of content rest) = true -> Forall (fun c => denote_tnode content c = TDTok) rest.
Proof.
  induction rest as [|x t IH]; intros H; [constructor|]. cbn in H. apply andb_true_iff in H as [H1 H2].
  constructor; [|now apply IH]. destruct (denote_tnode content x); try discriminate. reflexivity.
Qed.
Lemma pair_inv content p k v : denote_tnode content p = TDPair k v ->
  n_kind p = tk_pair /\ exists kn en vn rest, n_children p = kn :: en :: vn :: rest
  /\ denote_tnode content kn = TDKey k /\ denote_tnode content en = TDTok /\ n_kind en = tk_eq
  /\ denote_tnode content vn = TDVal v /\ Forall (fun c => denote_tnode content c = TDTok) rest.
Proof.
  intros H. pose proof (tnode_shape content p) as S. rewrite H in S. cbn [shape_of] in S. split; [exact S|].
  destruct p as [kd f sb eb r c m ch]. cbn [n_kind n_children] in *. subst kd. rewrite denote_tnode_eq in H.
  destruct m; [discriminate|]. rewrite tstep_pair in H.
  destruct ch as [|kn ch]; [discriminate|]. cbn [tkids_of map] in H.
  destruct (denote_tnode content kn) eqn:Ek; try discriminate.
  destruct ch as [|en ch]; [discriminate|]. cbn [map] in H.
  destruct (denote_tnode content en) eqn:Ee; try discriminate.
  destruct ch as [|vn rest]; [discriminate|]. cbn [map] in H.
  destruct (denote_tnode content vn) eqn:Ev; try discriminate.
  destruct (kind_is tk_eq en) eqn:Eeq; [|discriminate]. cbn [andb] in H.
  destruct (all_tok (map (fun c0 => (c0, denote_tnode content c0)) rest)) eqn:Eall; [|discriminate].
  injection H as <- <-. exists kn, en, vn, rest. unfold kind_is in Eeq.
  split; [reflexivity|]. split; [exact Ek|]. split; [exact Ee|]. split; [now apply beq_eq|]. split; [exact Ev|].
  now apply all_tok_forall.
Qed.

(* ---------- keys ---------- *)
Lemma tstep_bare content sb eb kids : denote_tstep content tk_bare_key sb eb false kids =
  match slice content sb eb with
  | Some text => match parse_key_text text with Some [k] => TDKey [k] | _ => TDBad end
  | None => TDBad
  end.
Proof. reflexivity. Qed.
Lemma tstep_dotted content sb eb kids : denote_tstep content tk_dotted_key sb eb false kids =
  match slice content sb eb with
  | Some text => match parse_key_text text with Some (a :: b :: r) => TDKey (a :: b :: r) | _ => TDBad end
  | None => TDBad
  end.
Proof. reflexivity. Qed.
Lemma plain_here_bare lit content sb eb : plain_here lit content tk_bare_key sb eb = match slice content sb eb with Some t => plain_key_text t | None => false end.
Proof. reflexivity. Qed.
Lemma plain_here_dotted lit content sb eb : plain_here lit content tk_dotted_key sb eb = match slice content sb eb with Some t => plain_key_text t | None => false end.
Proof. reflexivity. Qed.
Lemma plain_here_quoted lit content sb eb : plain_here lit content tk_quoted_key sb eb = false.
Proof. reflexivity. Qed.
Lemma key_node lit content kn k : denote_tnode content kn = TDKey k -> plain_toml_gen lit content kn = true ->
  exists text, node_text content kn = Some text /\ k = split_on 46 text /\ existsb (beq []) k = false
  /\ ((n_kind kn = tk_bare_key /\ k = [text]) \/ (n_kind kn = tk_dotted_key /\ (2 <= length k)%nat /\ plain_key_text text = true)).
Proof.
  intros H Hp. pose proof (tnode_shape content kn) as S. rewrite H in S. cbn [shape_of] in S.
  destruct kn as [kd f sb eb r c m ch]. cbn [n_kind] in *. rewrite denote_tnode_eq in H. rewrite plain_toml_eq in Hp.
  apply andb_true_iff in Hp as [Hp _]. destruct m; [discriminate|]. unfold node_text. cbn [n_sb n_eb].
  destruct S as [ -> | [ -> | -> ] ].
  - rewrite tstep_bare in H. rewrite plain_here_bare in Hp. destruct (slice content sb eb) as [text|]; [|discriminate].
    destruct (parse_key_text text) as [[|k1 [|k2 r2]]|] eqn:Ek; try discriminate. injection H as <-.
    destruct (parse_key_plain _ _ Hp Ek) as [E1 E2]. exists text. repeat split; try assumption.
    left. split; [reflexivity|]. f_equal. pose proof (join_split 46 text) as J. rewrite <- E1 in J. exact J.
  - rewrite plain_here_quoted in Hp. discriminate.
  - rewrite tstep_dotted in H. rewrite plain_here_dotted in Hp. destruct (slice content sb eb) as [text|]; [|discriminate].
    destruct (parse_key_text text) as [[|k1 [|k2 r2]]|] eqn:Ek; try discriminate. injection H as <-.
    destruct (parse_key_plain _ _ Hp Ek) as [E1 E2]. exists text. repeat split; try assumption.
    right. split; [reflexivity|]. split; [cbn [length]; lia|exact Hp].
Qed.

(* ---------- values are not keys; what a value node looks like to the walk ---------- *)
Lemma val_node_kind content c v : denote_tnode content c = TDVal v ->
  beq (n_kind c) k_bare_key = false /\ beq (n_kind c) k_dotted_key = false /\ beq (n_kind c) k_pair = false /\
  match v with
  | TStr _ => n_kind c = tk_string
  | TInline _ => n_kind c = tk_inline_table
  | _ => beq (n_kind c) k_string = false /\ beq (n_kind c) k_inline_table = false
  end.
Proof.
  intros H. pose proof (tnode_shape content c) as S. rewrite H in S. cbn [shape_of] in S.
  destruct v as [s| |l|l].
  - rewrite S. repeat split.
  - destruct (scalar_not_walk_kind _ S) as [H1 [H2 [H3 [H4 [H5 _]]]]]. repeat split; assumption.
  - rewrite S. repeat split.
  - rewrite S. repeat split.
Qed.

(* the rest of a pair (comments) contributes nothing *)
Lemma scan_version_toks content rest b : Forall (fun c => denote_tnode content c = TDTok) rest -> scan_version_pair content rest b = Some None.
Proof.
  induction 1 as [|x t Hx _ IH]; [reflexivity|]. cbn [scan_version_pair]. destruct (tok_node _ _ Hx) as [H1 [_ [H3 _]]].
  unfold kind_is. rewrite H1, H3. cbn [andb]. exact IH.
Qed.
Definition skip_scan (content : bytes) (c : node) : option (list bool) :=
  if kind_is k_bare_key c then option_map (fun k => [existsb (beq k) cargo_skip_keys]) (node_text content c) else Some [].
Lemma skip_scan_toks content rest : Forall (fun c => denote_tnode content c = TDTok) rest -> concat_opt (skip_scan content) rest = Some [].
Proof.
  induction 1 as [|x t Hx _ IH]; [reflexivity|]. cbn [concat_opt]. unfold skip_scan at 1. destruct (tok_node _ _ Hx) as [H1 _].
  unfold kind_is. rewrite H1, IH. reflexivity.
Qed.

(* what one pair of an inline table contributes to the two passes of extract_version_from_inline_table *)
Definition vi_ok (content : bytes) (vi : vinfo) : Prop :=
  let '(s, st, en, _, _) := vi in slice content st en = Some s /\ st <= en.
Definition is_tstr (v : tval) : bool := match v with TStr _ => true | _ => false end.
Lemma inline_pair content p k v : denote_tnode content p = TDPair k v -> plain_toml content p = true ->
  concat_opt (skip_scan content) (n_children p) = Some (match k with [k1] => [existsb (beq k1) cargo_skip_keys] | _ => [] end)
  /\ exists r, scan_version_pair content (n_children p) false = Some r
     /\ option_map (fun vi : vinfo => fst (fst (fst (fst vi)))) r = (if path_eqb k [w_version] then match v with TStr s => Some s | _ => None end else None)
     /\ (forall vi, r = Some vi -> vi_ok content vi).
Proof.
  intros H Hp. destruct (pair_inv _ _ _ _ H) as [Hk [kn [en [vn [rest [Hch [Dk [De [Ee [Dv Dr]]]]]]]]]].
  rewrite Hch. assert (plain_toml content kn = true) as Pk by (apply (plain_toml_child _ content p); [exact Hp|rewrite Hch; now left]).
  assert (plain_toml content vn = true) as Pv by (apply (plain_toml_child _ content p); [exact Hp|rewrite Hch; right; right; now left]).
  destruct (key_node _ _ _ _ Dk Pk) as [text [Ht [Hsp [Hne Hkind]]]].
  destruct (tok_node _ _ De) as [Eb [_ [Es _]]].
  destruct (val_node_kind _ _ _ Dv) as [Vb [_ [_ Vk]]].
  split.
  - cbn [concat_opt]. rewrite (skip_scan_toks _ _ Dr).
    assert (skip_scan content en = Some []) as -> by (unfold skip_scan, kind_is; now rewrite Eb).
    assert (skip_scan content vn = Some []) as -> by (unfold skip_scan, kind_is; now rewrite Vb).
    destruct Hkind as [[Kb ->]|[Kd [Hl Hplain]]].
    + unfold skip_scan, kind_is. rewrite Kb. cbn. rewrite Ht. reflexivity.
    + unfold skip_scan, kind_is. rewrite Kd. cbn. destruct k as [|a [|b r]]; cbn [length] in Hl; try lia. reflexivity.
  - cbn [scan_version_pair]. unfold kind_is. rewrite Eb, Es, Vb. cbn [andb]. 
    destruct Hkind as [[Kb ->]|[Kd [Hl Hplain]]].
    + rewrite Kb. change (beq tk_bare_key k_bare_key) with true. cbv iota. rewrite Ht. cbn [bind].
      cbn [path_eqb list_eqb]. rewrite andb_true_r. change w_version with k_version.
      destruct v as [s| |l|l].
      * rewrite Vk. change (beq tk_string k_string) with true. cbn [andb].
        destruct (toml_string_vinfo _ _ _ Vk Dv Pv) as [Hvi [Hle Hsl]].
        destruct (beq text k_version).
        -- rewrite Hvi. cbn [option_map]. eexists. split; [reflexivity|]. split; [reflexivity|].
           intros vi E. injection E as <-. cbn. split; [exact Hsl|lia].
        -- repeat rewrite (scan_version_toks _ _ _ Dr). exists None. split; [reflexivity|]. split; [reflexivity|]. intros vi E. discriminate.
      * destruct Vk as [V1 V2]. rewrite V1. cbn [andb]. repeat rewrite (scan_version_toks _ _ _ Dr). exists None. split; [reflexivity|].
        split; [now destruct (beq text k_version)|]. intros vi E. discriminate.
      * destruct Vk as [V1 V2]. rewrite V1. cbn [andb]. repeat rewrite (scan_version_toks _ _ _ Dr). exists None. split; [reflexivity|].
        split; [now destruct (beq text k_version)|]. intros vi E. discriminate.
      * rewrite Vk. change (beq tk_inline_table k_string) with false. cbn [andb]. repeat rewrite (scan_version_toks _ _ _ Dr). exists None. split; [reflexivity|].
        split; [now destruct (beq text k_version)|]. intros vi E. discriminate.
    + rewrite Kd. change (beq tk_dotted_key k_bare_key) with false. change (beq tk_dotted_key k_string) with false. cbn [andb].
      rewrite andb_false_r. repeat rewrite (scan_version_toks _ _ _ Dr). exists None. split; [reflexivity|].
      split; [|intros vi E; discriminate]. destruct k as [|a [|b r]]; cbn [length] in Hl; try lia.
      cbn [option_map path_eqb list_eqb]. now rewrite andb_false_r.
Qed.

(* ---------- inline tables ---------- *)
Lemma tstep_inline content sb eb kids : denote_tstep content tk_inline_table sb eb false kids =
  match tpairs_of kids with
  | Some l => match nodup_pairs l with Some l' => TDVal (TInline l') | None => TDBad end
  | None => TDBad
  end.
Proof. reflexivity. Qed.
Definition vtext (vi : vinfo) : bytes := fst (fst (fst (fst vi))).
Definition first_version (m : list tkv) : option bytes :=
  match find (fun e => path_eqb (fst e) [w_version] && is_tstr (snd e)) m with Some (_, TStr s) => Some s | _ => None end.
Definition skip_flags (m : list tkv) : list bool :=
  flat_map (fun e : tkv => match fst e with [k1] => [existsb (beq k1) cargo_skip_keys] | _ => [] end) m.
Definition pair_skip_scan (content : bytes) (p : node) : option (list bool) :=
  if negb (kind_is k_pair p) then Some [] else concat_opt (skip_scan content) (n_children p).
Lemma tpairs_cons content x t m : tpairs_of (tkids_of content (x :: t)) = Some m ->
  (exists k v m', denote_tnode content x = TDPair k v /\ tpairs_of (tkids_of content t) = Some m' /\ m = (k, v) :: m')
  \/ (denote_tnode content x = TDTok /\ tpairs_of (tkids_of content t) = Some m).
Proof.
  cbn [tkids_of map tpairs_of fold_right snd]. fold (tkids_of content t). fold (tpairs_of (tkids_of content t)).
  destruct (denote_tnode content x) eqn:Ex; try discriminate.
  - destruct (tpairs_of (tkids_of content t)) as [m'|]; [|discriminate]. intros H. injection H as <-. left. exists k, v, m'. repeat split.
  - destruct (tpairs_of (tkids_of content t)) as [m'|]; [|discriminate]. intros H. injection H as <-. right. split; reflexivity.
Qed.
Lemma inline_children content ch : forall m, tpairs_of (tkids_of content ch) = Some m -> forallb (plain_toml content) ch = true ->
  concat_opt (pair_skip_scan content) ch = Some (skip_flags m)
  /\ exists r, inline_version content ch = Some r /\ option_map vtext r = first_version m /\ (forall vi, r = Some vi -> vi_ok content vi).
Proof.
  induction ch as [|x t IH]; intros m Hm Hp.
  - cbn in Hm. injection Hm as <-. split; [reflexivity|]. exists None. repeat split. intros vi E. discriminate.
  - cbn [forallb] in Hp. apply andb_true_iff in Hp as [Px Pt].
    destruct (tpairs_cons _ _ _ _ Hm) as [[k [v [m' [Dx [Hm' ->]]]]]|[Dx Hm']].
    + destruct (IH m' Hm' Pt) as [IH1 [r' [IH2 [IH3 IH4]]]].
      destruct (pair_inv _ _ _ _ Dx) as [Kx _].
      destruct (inline_pair _ _ _ _ Dx Px) as [S1 [r [S2 [S3 S4]]]].
      split.
      * cbn [concat_opt]. rewrite IH1. unfold pair_skip_scan at 1, kind_is. rewrite Kx. change (beq tk_pair k_pair) with true. cbn [negb].
        rewrite S1. unfold skip_flags. cbn [flat_map fst]. reflexivity.
      * cbn [inline_version]. unfold kind_is. rewrite Kx. change (beq tk_pair k_pair) with true. cbv iota. rewrite S2.
        unfold first_version. cbn [find fst snd].
        destruct r as [vi|].
        -- exists (Some vi). split; [reflexivity|]. split; [|exact S4]. cbn [option_map] in S3 |- *.
           destruct (path_eqb k [w_version]); [|discriminate]. destruct v; try discriminate. cbn [is_tstr andb]. exact S3.
        -- exists r'. split; [exact IH2|]. split; [|exact IH4]. rewrite IH3. unfold first_version.
           cbn [option_map] in S3. destruct (path_eqb k [w_version]); [|reflexivity]. destruct v; try discriminate; reflexivity.
    + destruct (IH m Hm' Pt) as [IH1 [r' [IH2 [IH3 IH4]]]]. destruct (tok_node _ _ Dx) as [_ [_ [_ [_ [Kp _]]]]].
      split.
      * cbn [concat_opt]. rewrite IH1. unfold pair_skip_scan at 1, kind_is. rewrite Kp. reflexivity.
      * cbn [inline_version]. unfold kind_is. rewrite Kp. exists r'. repeat split; assumption.
Qed.
Lemma skip_keys_documented : cargo_skip_keys = cargo_nonregistry_keys.
Proof. reflexivity. Qed.
Lemma skip_flags_has_key m : existsb (fun b : bool => b) (skip_flags m) = existsb (fun k => has_key k m) cargo_nonregistry_keys.
Proof.
  rewrite <- skip_keys_documented. unfold cargo_skip_keys. cbn [existsb]. unfold has_key.
  induction m as [|e t IH]; [reflexivity|]. unfold skip_flags in *. cbn [flat_map existsb]. rewrite existsb_app, IH. clear IH.
  destruct e as [[|k1 [|k2 r]] v]; cbn [fst existsb path_eqb list_eqb app].
  - cbn [orb]. reflexivity.
  - rewrite !andb_true_r. unfold cargo_skip_keys. cbn [existsb].
    destruct (beq k1 [112;97;116;104]), (beq k1 [119;111;114;107;115;112;97;99;101]), (beq k1 [114;101;103;105;115;116;114;121]);
    repeat match goal with |- context [existsb ?g t] => destruct (existsb g t) end; reflexivity.
  - rewrite !andb_false_r. cbn [orb]. reflexivity.
Qed.
Lemma inline_table_version_spec content vn m : denote_tnode content vn = TDVal (TInline m) -> plain_toml content vn = true ->
  keys_nodup (map fst m) = true
  /\ exists r, inline_table_version content vn = Some r
     /\ option_map vtext r = (if existsb (fun k => has_key k m) cargo_nonregistry_keys then None else first_version m)
     /\ (forall vi, r = Some vi -> vi_ok content vi).
Proof.
  intros H Hp. destruct (val_node_kind _ _ _ H) as [_ [_ [_ Hk]]].
  destruct vn as [kd f sb eb r c mm ch]. cbn [n_kind] in Hk. subst kd. rewrite denote_tnode_eq in H. rewrite plain_toml_eq in Hp.
  apply andb_true_iff in Hp as [_ Hp]. destruct mm; [discriminate|]. rewrite tstep_inline in H.
  destruct (tpairs_of (tkids_of content ch)) as [l|] eqn:El; [|discriminate]. unfold nodup_pairs in H.
  destruct (keys_nodup (map fst l)) eqn:En; [|discriminate]. injection H as <-. split; [exact En|].
  destruct (inline_children _ _ _ El Hp) as [S1 [r' [S2 [S3 S4]]]].
  unfold inline_table_version, should_skip_inline. cbn [n_children]. change (concat_opt _ ch) with (concat_opt (pair_skip_scan content) ch).
  rewrite S1. cbn [option_map bind]. rewrite skip_flags_has_key.
  destruct (existsb (fun k => has_key k l) cargo_nonregistry_keys).
  - exists None. repeat split. intros vi E. discriminate.
  - exists r'. repeat split; assumption.
Qed.

(* ---------- key paths and lookups ---------- *)
Lemma path_eqb_eq a b : path_eqb a b = true <-> a = b.
Proof.
  unfold path_eqb. revert b. induction a as [|x a IH]; intros [|y b]; cbn [list_eqb]; split; intros H; try reflexivity; try discriminate.
  - apply andb_true_iff in H as [H1 H2]. apply beq_eq in H1. apply IH in H2. now subst.
  - injection H as -> ->. apply andb_true_iff. split; [apply beq_refl|now apply IH].
Qed.
Lemma path_eqb_refl a : path_eqb a a = true. Proof. now apply path_eqb_eq. Qed.
Lemma path_eqb_sym a b : path_eqb a b = path_eqb b a.
Proof.
  destruct (path_eqb a b) eqn:E1, (path_eqb b a) eqn:E2; try reflexivity.
  - apply path_eqb_eq in E1. subst. now rewrite path_eqb_refl in E2.
  - apply path_eqb_eq in E2. subst. now rewrite path_eqb_refl in E1.
Qed.
Lemma find_key_absent (k : kpath) (q : tkv -> bool) (t : list tkv) :
  existsb (path_eqb k) (map fst t) = false -> find (fun e => path_eqb (fst e) k && q e) t = None.
Proof.
  induction t as [|e t IH]; [reflexivity|]. cbn [map existsb find]. intros H. apply orb_false_iff in H as [H1 H2].
  rewrite path_eqb_sym, H1. cbn [andb]. now apply IH.
Qed.
Lemma lookup_none k m : has_key k m = false -> lookup_key k m = None.
Proof.
  unfold has_key, lookup_key. induction m as [|e t IH]; [reflexivity|]. cbn [existsb find]. intros H. apply orb_false_iff in H as [H1 H2].
  rewrite H1. now apply IH.
Qed.
Lemma first_version_lookup m : keys_nodup (map fst m) = true ->
  first_version m = match lookup_key w_version m with Some (TStr s) => Some s | _ => None end.
Proof.
  unfold first_version, lookup_key. induction m as [|e t IH]; [reflexivity|]. cbn [map keys_nodup find]. intros H.
  apply andb_true_iff in H as [H1 H2]. apply negb_true_iff in H1.
  destruct (path_eqb (fst e) [w_version]) eqn:Ek.
  - cbn [andb option_map]. destruct e as [k v]. cbn [fst snd] in *. destruct v as [s| |l|l]; cbn [is_tstr]; try reflexivity;
    apply path_eqb_eq in Ek; subst k;
    rewrite (find_key_absent [w_version] (fun e => is_tstr (snd e)) t H1); reflexivity.
  - cbn [andb]. now apply IH.
Qed.
Lemma lookup_dotted a kk v l : keys_nodup (map fst l) = true -> In ([a; kk], v) l -> lookup_key kk (dotted_members a l) = Some v.
Proof.
  unfold lookup_key. induction l as [|e t IH]; [intros _ []|]. cbn [map keys_nodup]. intros H Hin.
  apply andb_true_iff in H as [H1 H2]. apply negb_true_iff in H1. unfold dotted_members. cbn [flat_map].
  destruct Hin as [->|Hin].
  - cbn [fst snd]. rewrite beq_refl. cbn [app find fst]. rewrite path_eqb_refl. reflexivity.
  - specialize (IH H2 Hin). destruct e as [[|n [|k2 r]] v']; cbn [fst snd app]; try exact IH.
    destruct (beq n a) eqn:En; [|exact IH]. cbn [app find fst].
    destruct (path_eqb (k2 :: r) [kk]) eqn:Ek; [|exact IH].
    exfalso. apply beq_eq in En. apply path_eqb_eq in Ek. subst n. injection Ek as -> ->.
    assert (existsb (path_eqb [a; kk]) (map fst t) = true) as Hc.
    { apply existsb_exists. exists [a; kk]. split; [|apply path_eqb_refl]. apply in_map_iff. exists ([a; kk], v). split; [reflexivity|exact Hin]. }
    cbn [fst] in H1. congruence.
Qed.

(* ---------- one pair of a dependency table ---------- *)
Lemma fold_toks content rest st : Forall (fun c => denote_tnode content c = TDTok) rest -> fold_opt (cargo_pair_step content) rest st = Some st.
Proof.
  induction 1 as [|x t Hx _ IH]; [reflexivity|]. cbn [fold_opt]. destruct (tok_node _ _ Hx) as [H1 [H2 [H3 [H4 _]]]].
  unfold cargo_pair_step, kind_is. rewrite H1, H2, H3, H4. cbn [bind]. exact IH.
Qed.
Definition nv (p : pkg) : bytes * bytes := (p_name p, p_version p).
Definition loc_exact (content : bytes) (q : pkg) : Prop :=
  slice content (p_start q) (p_end q) = Some (p_version q) /\ p_start q <= p_end q.
Lemma cargo_pair_spec content p l k v :
  denote_tnode content p = TDPair k v -> plain_toml content p = true -> In (k, v) l -> keys_nodup (map fst l) = true ->
  entry_known l (k, v) = false -> entry_shape_ok (k, v) = true ->
  exists pkgs, cargo_pair content p = Some pkgs /\ map nv pkgs = dep_entry l (k, v) /\ Forall (loc_exact content) pkgs.
Proof.
  intros H Hp Hin Hnd Hkn Hsh. destruct (pair_inv _ _ _ _ H) as [Hk [kn [en [vn [rest [Hch [Dk [De [Ee [Dv Dr]]]]]]]]]].
  assert (plain_toml content kn = true) as Pk by (apply (plain_toml_child _ content p); [exact Hp|rewrite Hch; now left]).
  assert (plain_toml content vn = true) as Pv by (apply (plain_toml_child _ content p); [exact Hp|rewrite Hch; right; right; now left]).
  destruct (key_node _ _ _ _ Dk Pk) as [text [Ht [Hsp [Hne Hkind]]]].
  destruct (tok_node _ _ De) as [Eb [Ed [Es [Ei _]]]].
  destruct (val_node_kind _ _ _ Dv) as [Vb [Vd [_ Vk]]].
  unfold cargo_pair, kind_is. rewrite Hk. change (beq tk_pair k_pair) with true. cbn [negb]. rewrite Hch. cbn [fold_opt].
  assert (forall st, cargo_pair_step content st en = Some st) as Sen.
  { intros st. unfold cargo_pair_step, kind_is. now rewrite Eb, Ed, Es, Ei. }
  destruct Hkind as [[Kb ->]|[Kd [Hl Hplain]]].
  - (* name = "..." / name = { .. } *)
    assert (forall st, cargo_pair_step content st kn = Some (mkPS (Some text) (ps_ver st) (ps_dotted st) (ps_suffix st))) as Skn.
    { intros st. unfold cargo_pair_step, kind_is. rewrite Kb. change (beq tk_bare_key k_bare_key) with true. cbv iota. now rewrite Ht. }
    rewrite Skn. cbn [bind ps_ver ps_dotted ps_suffix]. rewrite Sen. cbn [bind].
    unfold cargo_pair_step at 1, kind_is. rewrite Vb, Vd.
    destruct v as [s| |lv|m].
    + rewrite Vk. change (beq tk_string k_string) with true. cbv iota. cbn [ps_dotted andb].
      destruct (toml_string_vinfo _ _ _ Vk Dv Pv) as [Hvi [Hle Hsl]]. rewrite Hvi. cbn [bind ps_name ps_dotted ps_suffix].
      rewrite (fold_toks _ _ _ Dr). cbn [bind ps_name ps_ver]. eexists. split; [reflexivity|]. split; [reflexivity|].
      constructor; [|constructor]. unfold loc_exact. cbn. split; [exact Hsl|lia].
    + destruct Vk as [V1 V2]. rewrite V1, V2. cbn [bind]. rewrite (fold_toks _ _ _ Dr). cbn [bind ps_name ps_ver].
      exists []. repeat split. constructor.
    + destruct Vk as [V1 V2]. rewrite V1, V2. cbn [bind]. rewrite (fold_toks _ _ _ Dr). cbn [bind ps_name ps_ver].
      exists []. repeat split. constructor.
    + rewrite Vk. change (beq tk_inline_table k_string) with false. change (beq tk_inline_table k_inline_table) with true. cbv iota.
      destruct (inline_table_version_spec _ _ _ Dv Pv) as [Hnd' [r [Hr [Hr2 Hr3]]]]. rewrite Hr. cbn [bind ps_name ps_dotted ps_suffix].
      rewrite (fold_toks _ _ _ Dr). cbn [bind ps_name ps_ver].
      cbn [entry_known] in Hkn. cbn [dep_entry]. unfold table_dep. rewrite (lookup_none _ _ Hkn).
      rewrite (first_version_lookup _ Hnd') in Hr2.
      destruct r as [[[[[vs st0] en0] ln] cl]|]; cbn [option_map] in Hr2.
      * destruct (existsb (fun k => has_key k m) cargo_nonregistry_keys); [discriminate|].
        destruct (lookup_key w_version m) as [[s| | |]|]; try discriminate. unfold vtext in Hr2. cbn [fst] in Hr2. injection Hr2 as ->.
        eexists. split; [reflexivity|]. split; [reflexivity|]. constructor; [|constructor].
        specialize (Hr3 _ eq_refl). unfold vi_ok in Hr3. unfold loc_exact. cbn. exact Hr3.
      * exists []. split; [reflexivity|]. split; [|constructor].
        destruct (existsb (fun k => has_key k m) cargo_nonregistry_keys); [reflexivity|].
        destruct (lookup_key w_version m) as [[s| | |]|]; try discriminate; reflexivity.
  - (* name.member = ... *)
    destruct k as [|a [|b r]]; cbn [length] in Hl; try lia.
    pose proof (split_once_split_on 46 text) as Hso. destruct (split_once 46 text) as [[pfx sfx]|] eqn:Eso.
    2:{ rewrite Hso in Hsp. discriminate. }
    destruct Hso as [Hso _]. rewrite Hso in Hsp. injection Hsp as -> Hrest.
    assert (trim pfx = pfx /\ trim sfx = sfx) as [Tp Ts].
    { pose proof (split_once_aux_spec 46 text []) as Hsp'. unfold split_once in Eso. rewrite Eso in Hsp'. destruct Hsp' as [p' [Ep [_ Et]]]. cbn [rev app] in Ep. subst p'.
      assert (forallb printable text = true) as Hpr.
      { unfold plain_key_text in Hplain. rewrite forallb_forall in Hplain |- *. intros c0 Hc0. specialize (Hplain c0 Hc0).
        unfold printable. unfold is_bare_char, is_alnum, is_alpha, is_upper, is_lower, is_digit in Hplain.
        repeat match goal with H : _ || _ = true |- _ => apply orb_true_iff in H as [H|H] end;
        repeat match goal with H : _ && _ = true |- _ => apply andb_true_iff in H as [? H] end;
        repeat match goal with H : (_ <=? _) = true |- _ => apply N.leb_le in H | H : (_ =? _) = true |- _ => apply N.eqb_eq in H end;
        apply andb_true_iff; split; apply N.ltb_lt; lia. }
      rewrite Et, forallb_app in Hpr. apply andb_true_iff in Hpr as [H1 H2]. cbn [forallb] in H2. apply andb_true_iff in H2 as [_ H2].
      split; now apply trim_printable. }
    assert (forall st, cargo_pair_step content st kn = Some (mkPS (Some pfx) (ps_ver st) true (Some sfx))) as Skn.
    { intros st. unfold cargo_pair_step, kind_is. rewrite Kd. change (beq tk_dotted_key k_bare_key) with false. change (beq tk_dotted_key k_dotted_key) with true. cbv iota.
      rewrite Ht. cbn [bind]. unfold split_once_dot. now rewrite Eso, Tp, Ts. }
    rewrite Skn. cbn [bind ps_ver]. rewrite Sen. cbn [bind].
    unfold cargo_pair_step at 1, kind_is. rewrite Vb, Vd. cbn [ps_dotted ps_suffix andb opt_eqb].
    destruct v as [s| |lv|m].
    + rewrite Vk. change (beq tk_string k_string) with true. cbv iota.
      destruct (beq sfx k_version) eqn:Esv; cbn [negb].
      * apply beq_eq in Esv. subst sfx. change (split_on 46 k_version) with [w_version] in Hrest. injection Hrest as -> ->.
        destruct (toml_string_vinfo _ _ _ Vk Dv Pv) as [Hvi [Hle Hsl]]. rewrite Hvi. cbn [bind ps_name ps_dotted ps_suffix].
        rewrite (fold_toks _ _ _ Dr). cbn [bind ps_name ps_ver].
        cbn [dep_entry]. rewrite beq_refl. cbn [entry_known] in Hkn. rewrite beq_refl in Hkn.
        apply orb_false_iff in Hkn as [_ Hkn]. cbn [andb existsb] in Hkn. apply orb_false_iff in Hkn as [Hpk Hnr].
        unfold table_dep. change (existsb (fun k => has_key k (dotted_members pfx l)) cargo_nonregistry_keys) with (existsb (fun s0 => has_key s0 (dotted_members pfx l)) cargo_nonregistry_keys).
        rewrite Hnr. rewrite (lookup_dotted _ _ _ _ Hnd Hin). rewrite (lookup_none _ _ Hpk).
        eexists. split; [reflexivity|]. split; [reflexivity|]. constructor; [|constructor]. unfold loc_exact. cbn. split; [exact Hsl|lia].
      * cbn [bind]. rewrite (fold_toks _ _ _ Dr). cbn [bind ps_name ps_ver]. exists []. split; [reflexivity|]. split; [|constructor].
        cbn [dep_entry]. destruct r as [|c r]; [|reflexivity].
        destruct (beq b w_version) eqn:Eb2; [|reflexivity]. exfalso. apply beq_eq in Eb2. subst b.
        change [w_version] with (split_on 46 k_version) in Hrest. apply split_on_inj in Hrest. subst sfx. now rewrite beq_refl in Esv.
    + destruct Vk as [V1 V2]. rewrite V1, V2. cbn [bind]. rewrite (fold_toks _ _ _ Dr). cbn [bind ps_name ps_ver].
      exists []. split; [reflexivity|]. split; [|constructor]. cbn [dep_entry]. destruct r; reflexivity.
    + destruct Vk as [V1 V2]. rewrite V1, V2. cbn [bind]. rewrite (fold_toks _ _ _ Dr). cbn [bind ps_name ps_ver].
      exists []. split; [reflexivity|]. split; [|constructor]. cbn [dep_entry]. destruct r; reflexivity.
    + cbn in Hsh. discriminate.
Qed.

(* ---------- tables ---------- *)
Lemma tstep_table content sb eb kids : denote_tstep content tk_table sb eb false kids =
  match kids with
  | (lb, TDTok) :: (_, TDKey h) :: (_, TDTok) :: rest =>
      if kind_is tk_lb lb then
        match tpairs_of rest with
        | Some l => match nodup_pairs l with Some l' => TDItem (ITable h l') | None => TDBad end
        | None => TDBad
        end
      else TDBad
  | _ => TDBad
  end.
Proof. reflexivity. Qed.
Lemma table_inv content t h l : denote_tnode content t = TDItem (ITable h l) ->
  n_kind t = tk_table /\ exists lb kn rb rest, n_children t = lb :: kn :: rb :: rest /\ n_kind lb = tk_lb
  /\ denote_tnode content lb = TDTok /\ denote_tnode content kn = TDKey h /\ denote_tnode content rb = TDTok
  /\ tpairs_of (tkids_of content rest) = Some l /\ keys_nodup (map fst l) = true.
Proof.
  intros H. pose proof (tnode_shape content t) as S. rewrite H in S. cbn [shape_of] in S. split; [exact S|].
  destruct t as [kd f sb eb r c m ch]. cbn [n_kind n_children] in *. subst kd. rewrite denote_tnode_eq in H.
  destruct m; [discriminate|]. rewrite tstep_table in H.
  destruct ch as [|lb ch]; [discriminate|]. cbn [tkids_of map] in H.
  destruct (denote_tnode content lb) eqn:El; try discriminate.
  destruct ch as [|kn ch]; [discriminate|]. cbn [map] in H.
  destruct (denote_tnode content kn) eqn:Ek; try discriminate.
  destruct ch as [|rb rest]; [discriminate|]. cbn [map] in H.
  destruct (denote_tnode content rb) eqn:Er; try discriminate.
  destruct (kind_is tk_lb lb) eqn:Elb; [|discriminate]. fold (tkids_of content rest) in H.
  destruct (tpairs_of (tkids_of content rest)) as [l0|] eqn:Ep; [|discriminate]. unfold nodup_pairs in H.
  destruct (keys_nodup (map fst l0)) eqn:En; [|discriminate]. injection H as <- <-.
  exists lb, kn, rb, rest. unfold kind_is in Elb. apply beq_eq in Elb.
  split; [reflexivity|]. split; [exact Elb|]. split; [exact El|]. split; [exact Ek|]. split; [exact Er|]. split; [exact Ep|exact En].
Qed.
Lemma table_pairs content L rest : forall l, tpairs_of (tkids_of content rest) = Some l -> forallb (plain_toml content) rest = true ->
  keys_nodup (map fst L) = true -> (forall e, In e l -> In e L /\ entry_known L e = false /\ entry_shape_ok e = true) ->
  exists pkgs, concat_opt (cargo_pair content) rest = Some pkgs /\ map nv pkgs = flat_map (dep_entry L) l /\ Forall (loc_exact content) pkgs.
Proof.
  induction rest as [|x t IH]; intros l Hl Hp Hnd Hall.
  - cbn in Hl. injection Hl as <-. exists []. repeat split. constructor.
  - cbn [forallb] in Hp. apply andb_true_iff in Hp as [Px Pt].
    destruct (tpairs_cons _ _ _ _ Hl) as [[k [v [l' [Dx [Hl' ->]]]]]|[Dx Hl']].
    + destruct (Hall (k, v) (or_introl eq_refl)) as [HinL [Hkn Hsh]].
      destruct (cargo_pair_spec _ _ _ _ _ Dx Px HinL Hnd Hkn Hsh) as [p1 [E1 [M1 F1]]].
      destruct (IH l' Hl' Pt Hnd (fun e He => Hall e (or_intror He))) as [p2 [E2 [M2 F2]]].
      exists (p1 ++ p2). cbn [concat_opt]. rewrite E1, E2. split; [reflexivity|]. split.
      * rewrite map_app, M1, M2. reflexivity.
      * apply Forall_app. now split.
    + destruct (IH l Hl' Pt Hnd Hall) as [p2 [E2 [M2 F2]]]. exists p2. cbn [concat_opt]. rewrite E2.
      destruct (tok_node _ _ Dx) as [_ [_ [_ [_ [Kp _]]]]]. unfold cargo_pair at 1, kind_is. rewrite Kp. cbn [negb].
      split; [reflexivity|]. split; assumption.
Qed.
Lemma tables_documented : cargo_plain_tables = map (split_on 46) cargo_dependency_tables.
Proof. reflexivity. Qed.
Lemma table_name_test text : existsb (beq text) cargo_dependency_tables = existsb (path_eqb (split_on 46 text)) cargo_plain_tables.
Proof.
  rewrite tables_documented. induction cargo_dependency_tables as [|x t IH]; [reflexivity|]. cbn [existsb map]. rewrite IH. f_equal.
  destruct (beq text x) eqn:E1, (path_eqb (split_on 46 text) (split_on 46 x)) eqn:E2; try reflexivity.
  - apply beq_eq in E1. subst. now rewrite path_eqb_refl in E2.
  - apply path_eqb_eq, split_on_inj in E2. subst. now rewrite beq_refl in E1.
Qed.
Lemma cargo_table_spec content t h l :
  denote_tnode content t = TDItem (ITable h l) -> plain_toml content t = true ->
  (existsb (path_eqb h) cargo_plain_tables = true -> forall e, In e l -> entry_known l e = false /\ entry_shape_ok e = true) ->
  exists pkgs, cargo_table content t = Some pkgs
  /\ map nv pkgs = (if existsb (path_eqb h) cargo_plain_tables then table_deps l else []) /\ Forall (loc_exact content) pkgs.
Proof.
  intros H Hp Hok. destruct (table_inv _ _ _ _ H) as [Hk [lb [kn [rb [rest [Hch [Klb [Dl [Dk [Dr [Hl Hnd]]]]]]]]]]].
  assert (plain_toml content kn = true) as Pk by (apply (plain_toml_child _ content t); [exact Hp|rewrite Hch; right; now left]).
  assert (forallb (plain_toml content) rest = true) as Pr.
  { apply forallb_forall. intros x Hx. apply (plain_toml_child _ content t); [exact Hp|]. rewrite Hch. right. right. right. exact Hx. }
  destruct (key_node _ _ _ _ Dk Pk) as [text [Ht [Hsp [Hne Hkind]]]].
  unfold cargo_table, kind_is. rewrite Hk. change (beq tk_table k_table) with true. cbn [negb]. rewrite Hch.
  rewrite Klb. change (beq tk_lb k_lbracket) with true. cbn [negb].
  assert (table_name content t = Some (Some text)) as ->.
  { unfold table_name. rewrite Hch. cbn [find]. unfold kind_is. rewrite Klb.
    change (beq tk_lb k_bare_key || beq tk_lb k_dotted_key) with false. cbv iota.
    assert (beq (n_kind kn) k_bare_key || beq (n_kind kn) k_dotted_key = true) as ->.
    { destruct Hkind as [[K _]|[K _]]; rewrite K; reflexivity. }
    now rewrite Ht. }
  cbn [bind]. rewrite table_name_test, <- Hsp.
  destruct (existsb (path_eqb h) cargo_plain_tables) eqn:Ein.
  - cbn [concat_opt].
    assert (cargo_pair content lb = Some []) as ->.
    { unfold cargo_pair, kind_is. rewrite Klb. reflexivity. }
    assert (cargo_pair content kn = Some []) as ->.
    { unfold cargo_pair, kind_is. destruct Hkind as [[K _]|[K _]]; rewrite K; reflexivity. }
    assert (cargo_pair content rb = Some []) as ->.
    { destruct (tok_node _ _ Dr) as [_ [_ [_ [_ [Kp _]]]]]. unfold cargo_pair, kind_is. now rewrite Kp. }
    destruct (table_pairs content l rest l Hl Pr Hnd) as [pkgs [E [M F]]].
    { intros e He. split; [exact He|]. now apply Hok. }
    exists pkgs. rewrite E. cbn [app]. split; [reflexivity|]. split; [exact M|exact F].
  - exists []. repeat split. constructor.
Qed.

(* ---------- the document ---------- *)
Lemma tstep_document content sb eb kids : denote_tstep content tk_document sb eb false kids =
  match titems_of kids with Some d => TDDoc d | None => TDBad end.
Proof. reflexivity. Qed.
Definition item_decl (i : titem) : list (bytes * bytes) :=
  match i with
  | ITable h l => if is_dep_table h then table_deps l else match dep_subtable h with Some name => table_dep name l | None => [] end
  | _ => []
  end.
Definition item_known (i : titem) : bool :=
  match i with
  | ITable h l =>
      (is_dep_table h && (negb (existsb (path_eqb h) cargo_plain_tables) || existsb (entry_known l) l))
      || match dep_subtable h with Some _ => true | None => false end
      || dotted_section h l
  | IPair k _ => match k with a :: _ :: _ => existsb (beq a) (w_workspace :: w_target :: dep_words) | _ => false end
  | IArrTable _ _ => false
  end.
Definition item_shape_ok (i : titem) : bool :=
  match i with ITable h l => negb (is_dep_table h) || forallb entry_shape_ok l | _ => true end.
Lemma items_walk content ch : forall d, titems_of (tkids_of content ch) = Some d -> forallb (plain_toml content) ch = true ->
  forallb item_shape_ok d = true -> existsb item_known d = false ->
  exists pkgs, concat_opt (cargo_table content) ch = Some pkgs /\ map nv pkgs = flat_map item_decl d /\ Forall (loc_exact content) pkgs.
Proof.
  induction ch as [|x t IH]; intros d Hd Hp Hs Hk.
  - cbn in Hd. injection Hd as <-. exists []. repeat split. constructor.
  - cbn [forallb] in Hp. apply andb_true_iff in Hp as [Px Pt].
    cbn [tkids_of map titems_of fold_right snd] in Hd. fold (tkids_of content t) in Hd. fold (titems_of (tkids_of content t)) in Hd.
    destruct (denote_tnode content x) eqn:Dx; try discriminate.
    + (* a top-level pair *)
      destruct (titems_of (tkids_of content t)) as [d'|] eqn:Ed; [|discriminate]. injection Hd as <-.
      cbn [forallb existsb] in Hs, Hk. apply andb_true_iff in Hs as [_ Hs]. apply orb_false_iff in Hk as [_ Hk].
      destruct (IH d' eq_refl Pt Hs Hk) as [p2 [E2 [M2 F2]]]. exists p2. cbn [concat_opt]. rewrite E2.
      destruct (pair_inv _ _ _ _ Dx) as [Kx _]. unfold cargo_table at 1, kind_is. rewrite Kx. change (beq tk_pair k_table) with false. cbn [negb].
      split; [reflexivity|]. split; [exact M2|exact F2].
    + (* a table or an array-of-tables element *)
      destruct (titems_of (tkids_of content t)) as [d'|] eqn:Ed; [|discriminate]. injection Hd as <-.
      cbn [forallb existsb] in Hs, Hk. apply andb_true_iff in Hs as [Hs1 Hs]. apply orb_false_iff in Hk as [Hk1 Hk].
      destruct (IH d' eq_refl Pt Hs Hk) as [p2 [E2 [M2 F2]]].
      destruct i as [k v|h l|h l].
      * pose proof (tnode_shape content x) as S. rewrite Dx in S. destruct S.
      * cbn [item_known] in Hk1. apply orb_false_iff in Hk1 as [Hk1 _]. apply orb_false_iff in Hk1 as [Hk1 Hsub].
        cbn [item_shape_ok] in Hs1.
        assert (is_dep_table h = existsb (path_eqb h) cargo_plain_tables) as Edep.
        { destruct (is_dep_table h) eqn:E; [|unfold is_dep_table in E; apply orb_false_iff in E as [E _]; now rewrite E].
          cbn [andb] in Hk1. apply orb_false_iff in Hk1 as [Hk1 _]. apply negb_false_iff in Hk1. now rewrite Hk1. }
        destruct (cargo_table_spec content x h l Dx Px) as [p1 [E1 [M1 F1]]].
        { intros Hin e He. rewrite <- Edep in Hin. rewrite Hin in Hk1, Hs1. cbn [andb negb orb] in Hk1, Hs1.
          apply orb_false_iff in Hk1 as [_ Hk1]. split.
          - destruct (entry_known l e) eqn:Ee; [|reflexivity]. assert (existsb (entry_known l) l = true) by (apply existsb_exists; eauto). congruence.
          - rewrite forallb_forall in Hs1. now apply Hs1. }
        exists (p1 ++ p2). cbn [concat_opt]. rewrite E1, E2. split; [reflexivity|]. split.
        -- rewrite map_app, M1, M2. cbn [flat_map item_decl]. f_equal. rewrite <- Edep.
           destruct (is_dep_table h); [reflexivity|]. destruct (dep_subtable h); [discriminate|reflexivity].
        -- apply Forall_app. now split.
      * exists p2. cbn [concat_opt]. rewrite E2. pose proof (tnode_shape content x) as S. rewrite Dx in S. cbn [shape_of] in S.
        unfold cargo_table at 1, kind_is. rewrite S. change (beq tk_table_array k_table) with false. cbn [negb].
        split; [reflexivity|]. split; [exact M2|exact F2].
    + (* a comment *)
      destruct (titems_of (tkids_of content t)) as [d'|] eqn:Ed; [|discriminate]. injection Hd as <-.
      destruct (IH d' eq_refl Pt Hs Hk) as [p2 [E2 [M2 F2]]]. exists p2. cbn [concat_opt]. rewrite E2.
      destruct (tok_node _ _ Dx) as [_ [_ [_ [_ [_ [Kt _]]]]]]. unfold cargo_table at 1, kind_is. rewrite Kt. cbn [negb].
      split; [reflexivity|]. split; [exact M2|exact F2].
Qed.
Theorem cargo_toml_exact content root d :
  denote_toml content root = Some d -> plain_toml content root = true -> cargo_shape_ok d = true -> cargo_known d = false ->
  exists pkgs, walk_cargo_toml content root = Some pkgs /\ map nv pkgs = declared_cargo d /\ Forall (loc_exact content) pkgs.
Proof.
  unfold denote_toml. intros H Hp Hs Hk. destruct (denote_tnode content root) eqn:Dr; try discriminate. injection H as ->.
  pose proof (tnode_shape content root) as S. rewrite Dr in S. cbn [shape_of] in S.
  destruct root as [kd f sb eb r c m ch]. cbn [n_kind] in S. subst kd. rewrite denote_tnode_eq in Dr. rewrite plain_toml_eq in Hp.
  apply andb_true_iff in Hp as [_ Hp]. destruct m; [discriminate|]. rewrite tstep_document in Dr.
  destruct (titems_of (tkids_of content ch)) as [d'|] eqn:Ed; [|discriminate]. injection Dr as ->.
  unfold walk_cargo_toml. cbn [n_children]. exact (items_walk content ch d Ed Hp Hs Hk).
Qed.

(* ---------- C05, structural part for Cargo.toml: any document, any tree tree-sitter can produce ---------- *)
From VL Require Import Proofs.CstProofs.
(* a version with its location was read off a string token of the tree below [root] *)
Definition from_string (content : bytes) (root : node) (vi : vinfo) : Prop :=
  exists vn, in_tree vn root /\ kind_is k_string vn = true /\ string_vinfo content vn = Some vi.
Lemma from_string_up content c n vi : In c (n_children n) -> from_string content c vi -> from_string content n vi.
Proof. intros Hin [vn [H1 [H2 H3]]]. exists vn. split; [eapply in_tree_child; eassumption|now split]. Qed.
Lemma scan_from content cs : forall b vi, scan_version_pair content cs b = Some (Some vi) ->
  exists c, In c cs /\ kind_is k_string c = true /\ string_vinfo content c = Some vi.
Proof.
  induction cs as [|c t IH]; intros b vi H; [discriminate|]. cbn [scan_version_pair] in H.
  destruct (kind_is k_bare_key c).
  - destruct (node_text content c) as [k|]; [|discriminate]. cbn [bind] in H. destruct (IH _ _ H) as [c' [H1 H2]]. exists c'. split; [now right|exact H2].
  - destruct (kind_is k_string c && b) eqn:E.
    + apply andb_true_iff in E as [E _]. destruct (string_vinfo content c) as [v|] eqn:Ev; [|discriminate]. cbn in H. injection H as <-.
      exists c. split; [now left|now split].
    + destruct (IH _ _ H) as [c' [H1 H2]]. exists c'. split; [now right|exact H2].
Qed.
Lemma inline_version_from content tbl ps : (forall p, In p ps -> In p (n_children tbl)) ->
  forall vi, inline_version content ps = Some (Some vi) -> from_string content tbl vi.
Proof.
  induction ps as [|p t IH]; intros Hsub vi H; [discriminate|]. cbn [inline_version] in H.
  assert (forall q, In q t -> In q (n_children tbl)) as Hsub' by (intros q Hq; apply Hsub; now right).
  destruct (kind_is k_pair p); [|now apply IH].
  destruct (scan_version_pair content (n_children p) false) as [[v|]|] eqn:Es; [|now apply IH|discriminate].
  injection H as <-. destruct (scan_from _ _ _ _ Es) as [c [H1 [H2 H3]]].
  apply (from_string_up content p tbl _); [apply Hsub; now left|]. exists c. split; [now apply in_tree_kid|now split].
Qed.
Lemma inline_table_version_from content tbl vi : inline_table_version content tbl = Some (Some vi) -> from_string content tbl vi.
Proof.
  unfold inline_table_version. destruct (should_skip_inline content tbl) as [[|]|]; cbn [bind]; try discriminate.
  apply inline_version_from. auto.
Qed.
Lemma cargo_fold_from content p cs : (forall c, In c cs -> In c (n_children p)) ->
  forall st st', fold_opt (cargo_pair_step content) cs st = Some st' ->
  (forall vi, ps_ver st = Some vi -> from_string content p vi) -> forall vi, ps_ver st' = Some vi -> from_string content p vi.
Proof.
  induction cs as [|c t IH]; intros Hsub st st' H Hinv vi Hv.
  - cbn in H. injection H as <-. now apply Hinv.
  - cbn [fold_opt] in H. destruct (cargo_pair_step content st c) as [s1|] eqn:E1; [|discriminate]. cbn [bind] in H.
    apply (IH (fun q Hq => Hsub q (or_intror Hq)) s1 st' H); [|exact Hv].
    intros v1 Hv1. assert (In c (n_children p)) as Hc by (apply Hsub; now left).
    unfold cargo_pair_step in E1.
    destruct (kind_is k_bare_key c).
    { destruct (node_text content c); [|discriminate]. cbn in E1. injection E1 as <-. cbn in Hv1. now apply Hinv. }
    destruct (kind_is k_dotted_key c).
    { destruct (node_text content c) as [tx|]; [|discriminate]. cbn [bind] in E1. destruct (split_once_dot tx) as [[a b]|]; injection E1 as <-; cbn in Hv1; now apply Hinv. }
    destruct (kind_is k_string c) eqn:Eks.
    { destruct (ps_dotted st && negb (opt_eqb beq (ps_suffix st) (Some k_version))).
      - injection E1 as <-. now apply Hinv.
      - destruct (string_vinfo content c) as [v|] eqn:Ev; [|discriminate]. cbn in E1. injection E1 as <-. cbn in Hv1. injection Hv1 as <-.
        exists c. split; [now apply in_tree_kid|now split]. }
    destruct (kind_is k_inline_table c).
    { destruct (inline_table_version content c) as [v|] eqn:Ev; [|discriminate]. cbn in E1. injection E1 as <-. cbn in Hv1. subst v.
      apply (from_string_up content c p _ Hc). now apply inline_table_version_from. }
    injection E1 as <-. now apply Hinv.
Qed.
Lemma string_vinfo_structural content root name vi :
  wf_cst content root = true -> string_nodes_ok content root = true -> from_string content root vi ->
  let '(v, s, e, l, c) := vi in structural_ok content (mkPkg name v None s e l c None).
Proof.
  intros Hwf Hs [vn [Hin [Hk Hv]]].
  destruct (wf_cst_in content root vn Hwf Hin) as [H1 [H2 H3]].
  destruct (string_nodes_ok_in content vn root Hs Hin Hk) as [H4 [x [Hx Hx10]]].
  unfold string_vinfo in Hv. destruct (node_text content vn) as [t|]; [|discriminate]. cbn [bind] in Hv. unfold pred_N in Hv.
  destruct (n_eb vn =? 0) eqn:E0; [apply N.eqb_eq in E0; lia|]. cbn in Hv. injection Hv as <-. unfold structural_ok. cbn.
  repeat split; try lia. eapply pos_of_succ; eassumption.
Qed.
Theorem cargo_toml_structural content root pkgs :
  wf_cst content root = true -> string_nodes_ok content root = true ->
  walk_cargo_toml content root = Some pkgs -> forall p, In p pkgs -> structural_ok content p.
Proof.
  intros Hwf Hs Hw p Hin. unfold walk_cargo_toml in Hw.
  destruct (concat_opt_in _ _ _ _ Hw Hin) as [t [r1 [Ht [Hf1 Hp1]]]].
  unfold cargo_table in Hf1. destruct (kind_is k_table t); cbn [negb] in Hf1; [|injection Hf1 as <-; destruct Hp1].
  destruct (n_children t) as [|h rest] eqn:Hch; [injection Hf1 as <-; destruct Hp1|].
  destruct (kind_is k_lbracket h); cbn [negb] in Hf1; [|injection Hf1 as <-; destruct Hp1].
  destruct (table_name content t) as [[nm|]|]; cbn [bind] in Hf1; [|injection Hf1 as <-; destruct Hp1|discriminate].
  destruct (existsb (beq nm) cargo_dependency_tables); [|injection Hf1 as <-; destruct Hp1].
  rewrite <- Hch in Hf1. destruct (concat_opt_in _ _ _ _ Hf1 Hp1) as [pr [r2 [Hpr [Hf2 Hp2]]]].
  unfold cargo_pair in Hf2. destruct (kind_is k_pair pr); cbn [negb] in Hf2; [|injection Hf2 as <-; destruct Hp2].
  destruct (fold_opt (cargo_pair_step content) (n_children pr) (mkPS None None false None)) as [st|] eqn:Ef; [|discriminate]. cbn [bind] in Hf2.
  destruct (ps_name st) as [name|]; [|injection Hf2 as <-; destruct Hp2].
  destruct (ps_ver st) as [[[[[v s] e] l] c]|] eqn:Ev; [|injection Hf2 as <-; destruct Hp2].
  injection Hf2 as <-. destruct Hp2 as [<-|[]].
  assert (from_string content pr (v, s, e, l, c)) as Hfs.
  { apply (cargo_fold_from content pr (n_children pr) (fun c0 H => H) _ _ Ef); [|exact Ev]. intros vi Hvi. discriminate. }
  assert (from_string content root (v, s, e, l, c)) as Hroot.
  { apply (from_string_up content t root _ Ht). now apply (from_string_up content pr t _ Hpr). }
  exact (string_vinfo_structural content root name (v, s, e, l, c) Hwf Hs Hroot).
Qed.

(* ================= pyproject.toml ================= *)
Lemma tstep_array content sb eb kids : denote_tstep content tk_array sb eb false kids =
  match tvals_of kids with Some l => TDVal (TArr l) | None => TDBad end.
Proof. reflexivity. Qed.
Lemma tvals_cons content x t l : tvals_of (tkids_of content (x :: t)) = Some l ->
  (exists v l', denote_tnode content x = TDVal v /\ tvals_of (tkids_of content t) = Some l' /\ l = v :: l')
  \/ (denote_tnode content x = TDTok /\ tvals_of (tkids_of content t) = Some l).
Proof.
  cbn [tkids_of map tvals_of fold_right snd]. fold (tkids_of content t). fold (tvals_of (tkids_of content t)).
  destruct (denote_tnode content x) eqn:Ex; try discriminate.
  - destruct (tvals_of (tkids_of content t)) as [l'|]; [|discriminate]. intros H. injection H as <-. left. exists v, l'. repeat split.
  - destruct (tvals_of (tkids_of content t)) as [l'|]; [|discriminate]. intros H. injection H as <-. right. split; reflexivity.
Qed.
Lemma val_node_array content c v : denote_tnode content c = TDVal v ->
  kind_is k_array c = match v with TArr _ => true | _ => false end.
Proof.
  intros H. pose proof (tnode_shape content c) as S. rewrite H in S. cbn [shape_of] in S. unfold kind_is.
  destruct v as [s| |l|l]; try (rewrite S; reflexivity).
  destruct (scalar_not_walk_kind _ S) as [_ [_ [_ [_ [_ [_ H7]]]]]]. exact H7.
Qed.
Lemma trim_squoted inner : trim (39 :: inner ++ [39]) = 39 :: inner ++ [39].
Proof.
  unfold trim. assert (trim_start (39 :: inner ++ [39]) = 39 :: inner ++ [39]) as ->.
  { unfold trim_start. cbn [length trim_start_fuel]. reflexivity. }
  unfold trim_end. assert (rev (39 :: inner ++ [39]) = 39 :: rev inner ++ [39]) as Hr.
  { cbn [rev]. rewrite rev_app_distr. reflexivity. }
  rewrite Hr. cbn [length trim_start_with]. assert (strip_any ws_seqs_rev (39 :: rev inner ++ [39]) = None) as -> by reflexivity.
  rewrite <- Hr. now rewrite rev_involutive.
Qed.
Lemma slice_whole (t : bytes) : slice t 0 (blen t) = Some t.
Proof.
  unfold slice, firstn_N, skipn_N. rewrite N.leb_refl. cbn [N.leb andb]. assert (0 <=? blen t = true) as -> by (apply N.leb_le; lia).
  cbn [andb N.to_nat skipn]. f_equal. rewrite N.sub_0_r. unfold blen. rewrite Nat2N.id. apply firstn_all.
Qed.
Lemma strip_outer_quoted q inner : q = 34 \/ q = 39 -> strip_outer_quotes (q :: inner ++ [q]) = Some inner.
Proof.
  intros Hq. unfold strip_outer_quotes.
  assert ((starts_with [34] (q :: inner ++ [q]) && ends_with [34] (q :: inner ++ [q])) || (starts_with [39] (q :: inner ++ [q]) && ends_with [39] (q :: inner ++ [q])) = true) as ->.
  { unfold ends_with. assert (rev (q :: inner ++ [q]) = q :: rev inner ++ [q]) as -> by (cbn [rev]; rewrite rev_app_distr; reflexivity).
    destruct Hq as [-> | ->]; reflexivity. }
  pose proof (slice_inner (q :: inner ++ [q]) 0 (blen (q :: inner ++ [q])) q q inner (slice_whole _)) as H. exact H.
Qed.

Section PyprojectProofs.
Variable pep508 : bytes -> pep.
Hypothesis no_panic : forall s, pep508 s <> PepPanic.
Definition preq (s : bytes) : option (bytes * bytes) := match pep508 s with PepSpec n sp => Some (n, sp) | _ => None end.

Lemma py_string_dep content c s : n_kind c = tk_string -> denote_tnode content c = TDVal (TStr s) -> plain_pyproject content c = true ->
  exists pkgs, bind (node_text content c) (fun text => bind (strip_outer_quotes (trim text)) (fun dep => py_dep pep508 content dep c)) = Some pkgs
  /\ map nv pkgs = req_of preq (TStr s).
Proof.
  destruct c as [k f sb eb r cc m ch]. cbn [n_kind]. intros -> Hd Hp.
  rewrite denote_tnode_eq in Hd. rewrite plain_toml_eq in Hp. apply andb_true_iff in Hp as [Hp _].
  destruct m; [discriminate|]. rewrite tstep_string in Hd. unfold node_text. cbn [n_sb n_eb].
  assert (plain_here true content tk_string sb eb = match slice content sb eb with
    | Some t => match quoted_inner 34 t with
                | Some inner => no_byte 34 inner && no_byte 92 inner && no_byte 10 inner
                | None => match quoted_inner 39 t with Some inner => no_byte 39 inner && no_byte 10 inner | None => false end
                end
    | None => false end) as Eph by reflexivity.
  rewrite Eph in Hp. clear Eph.
  destruct (slice content sb eb) as [text|] eqn:Es; [|discriminate]. cbn [bind].
  assert (exists q inner, (q = 34 \/ q = 39) /\ text = q :: inner ++ [q] /\ s = inner) as [q [inner [Hq [-> ->]]]].
  { unfold denote_toml_string in Hd. destruct (quoted_inner 34 text) as [inner|] eqn:E34.
    - rewrite Hp in Hd. injection Hd as <-. exists 34, inner. split; [now left|]. split; [now apply quoted_inner_spec|reflexivity].
    - destruct (quoted_inner 39 text) as [inner|] eqn:E39; [|discriminate]. rewrite Hp in Hd. injection Hd as <-.
      exists 39, inner. split; [now right|]. split; [now apply quoted_inner_spec|reflexivity]. }
  assert (trim (q :: inner ++ [q]) = q :: inner ++ [q]) as -> by (destruct Hq as [-> | ->]; [apply trim_quoted|apply trim_squoted]).
  rewrite (strip_outer_quoted q inner Hq). cbn [bind]. unfold py_dep, req_of, preq.
  pose proof (slice_length _ _ _ _ Es) as Hlen.
  assert (blen (q :: inner ++ [q]) = blen inner + 2) as Hl2 by (unfold blen; cbn [length]; rewrite app_length; cbn [length]; lia).
  destruct (pep508 inner) as [| | |name spec] eqn:Ep.
  - exists []. split; reflexivity.
  - exfalso. exact (no_panic inner Ep).
  - exists []. split; reflexivity.
  - unfold node_text. cbn [n_sb n_eb n_row n_col]. rewrite Es. cbn [bind]. unfold pred_N.
    destruct (eb =? 0) eqn:E0; [apply N.eqb_eq in E0; lia|]. cbn [bind].
    match goal with |- context [let '(s0, e0) := ?X in _] => destruct X as [s0 e0] end.
    eexists. split; [reflexivity|]. reflexivity.
Qed.
Lemma py_array_children content ch : forall vs, tvals_of (tkids_of content ch) = Some vs -> forallb (plain_pyproject content) ch = true ->
  exists pkgs, concat_opt (fun c => if negb (kind_is k_string c) then Some [] else
                         bind (node_text content c) (fun text => bind (strip_outer_quotes (trim text)) (fun dep => py_dep pep508 content dep c))) ch = Some pkgs
  /\ map nv pkgs = flat_map (req_of preq) vs.
Proof.
  induction ch as [|x t IH]; intros vs Hv Hp.
  - cbn in Hv. injection Hv as <-. exists []. split; reflexivity.
  - cbn [forallb] in Hp. apply andb_true_iff in Hp as [Px Pt].
    destruct (tvals_cons _ _ _ _ Hv) as [[v [l' [Dx [Hl' ->]]]]|[Dx Hl']].
    + destruct (IH l' Hl' Pt) as [p2 [E2 M2]]. cbn [concat_opt]. rewrite E2.
      destruct (val_node_kind _ _ _ Dx) as [_ [_ [_ Vk]]]. unfold kind_is at 1.
      destruct v as [s| |l|l].
      * rewrite Vk. change (beq tk_string k_string) with true. cbn [negb].
        destruct (py_string_dep _ _ _ Vk Dx Px) as [p1 [E1 M1]]. rewrite E1. exists (p1 ++ p2). split; [reflexivity|].
        rewrite map_app, M1, M2. reflexivity.
      * destruct Vk as [V1 _]. rewrite V1. cbn [negb]. exists p2. split; [reflexivity|exact M2].
      * destruct Vk as [V1 _]. rewrite V1. cbn [negb]. exists p2. split; [reflexivity|exact M2].
      * rewrite Vk. change (beq tk_inline_table k_string) with false. cbn [negb]. exists p2. split; [reflexivity|exact M2].
    + destruct (IH vs Hl' Pt) as [p2 [E2 M2]]. cbn [concat_opt]. rewrite E2. destruct (tok_node _ _ Dx) as [_ [_ [Ks _]]].
      unfold kind_is at 1. rewrite Ks. cbn [negb]. exists p2. split; [reflexivity|exact M2].
Qed.
Lemma py_array_spec content arr vs : denote_tnode content arr = TDVal (TArr vs) -> plain_pyproject content arr = true ->
  exists pkgs, py_array pep508 content arr = Some pkgs /\ map nv pkgs = flat_map (req_of preq) vs.
Proof.
  intros H Hp. pose proof (tnode_shape content arr) as S. rewrite H in S. cbn [shape_of] in S.
  destruct arr as [kd f sb eb r c m ch]. cbn [n_kind] in S. subst kd. rewrite denote_tnode_eq in H. rewrite plain_toml_eq in Hp.
  apply andb_true_iff in Hp as [_ Hp]. destruct m; [discriminate|]. rewrite tstep_array in H.
  destruct (tvals_of (tkids_of content ch)) as [l|] eqn:El; [|discriminate]. injection H as <-.
  unfold py_array. cbn [n_children]. exact (py_array_children content ch l El Hp).
Qed.
Lemma py_scan_toks content key rest b : Forall (fun c => denote_tnode content c = TDTok) rest -> py_key_scan pep508 content key rest b = Some [].
Proof.
  induction 1 as [|x t Hx _ IH]; [reflexivity|]. cbn [py_key_scan]. destruct (tok_node _ _ Hx) as [H1 [_ [_ [_ [_ [_ H7]]]]]].
  unfold kind_is. rewrite H1, H7. cbn [andb]. exact IH.
Qed.
Lemma py_all_toks content rest : Forall (fun c => denote_tnode content c = TDTok) rest ->
  concat_opt (fun c => if kind_is k_array c then py_array pep508 content c else Some []) rest = Some [].
Proof.
  induction 1 as [|x t Hx _ IH]; [reflexivity|]. cbn [concat_opt]. destruct (tok_node _ _ Hx) as [_ [_ [_ [_ [_ [_ H7]]]]]].
  unfold kind_is at 1. rewrite H7, IH. reflexivity.
Qed.
Lemma py_pair content key p k v : denote_tnode content p = TDPair k v -> plain_pyproject content p = true ->
  (exists pkgs, py_key_scan pep508 content key (n_children p) false = Some pkgs
                /\ map nv pkgs = (if path_eqb k [key] then array_reqs preq v else []))
  /\ (exists pkgs, concat_opt (fun c => if kind_is k_array c then py_array pep508 content c else Some []) (n_children p) = Some pkgs
                   /\ map nv pkgs = array_reqs preq v).
Proof.
  intros H Hp. destruct (pair_inv _ _ _ _ H) as [Hk [kn [en [vn [rest [Hch [Dk [De [Ee [Dv Dr]]]]]]]]]].
  rewrite Hch. assert (plain_pyproject content kn = true) as Pk by (apply (plain_toml_child _ content p); [exact Hp|rewrite Hch; now left]).
  assert (plain_pyproject content vn = true) as Pv by (apply (plain_toml_child _ content p); [exact Hp|rewrite Hch; right; right; now left]).
  destruct (key_node _ _ _ _ Dk Pk) as [text [Ht [Hsp [Hne Hkind]]]].
  destruct (tok_node _ _ De) as [Eb [_ [_ [_ [_ [_ Ea]]]]]].
  destruct (val_node_kind _ _ _ Dv) as [Vb _]. pose proof (val_node_array _ _ _ Dv) as Va.
  assert (kind_is k_array kn = false) as Ka by (unfold kind_is; destruct Hkind as [[K _]|[K _]]; rewrite K; reflexivity).
  unfold kind_is in Ka, Va.
  split.
  - cbn [py_key_scan]. unfold kind_is. rewrite Eb, Ea, Vb, Va, Ka. cbn [andb]. repeat rewrite (py_scan_toks _ _ _ _ Dr).
    destruct Hkind as [[Kb ->]|[Kd [Hl Hplain]]].
    + rewrite Kb. change (beq tk_bare_key k_bare_key) with true. cbv iota. rewrite Ht. cbn [bind].
      cbn [path_eqb list_eqb]. rewrite andb_true_r.
      destruct v as [s| |vs|m]; cbn [andb array_reqs]; try (repeat rewrite (py_scan_toks _ _ _ _ Dr); exists []; split; [reflexivity|now destruct (beq text key)]).
      destruct (beq text key); cbn [andb].
      * destruct (py_array_spec _ _ _ Dv Pv) as [p1 [E1 M1]]. rewrite E1. repeat rewrite (py_scan_toks _ _ _ _ Dr). exists (p1 ++ []). split; [reflexivity|].
        rewrite app_nil_r. exact M1.
      * repeat rewrite (py_scan_toks _ _ _ _ Dr). exists []. split; reflexivity.
    + rewrite Kd. change (beq tk_dotted_key k_bare_key) with false. cbv iota. rewrite andb_false_r.
      repeat rewrite (py_scan_toks _ _ _ _ Dr). exists []. split; [reflexivity|].
      destruct k as [|a [|b r]]; cbn [length] in Hl; try lia. cbn [path_eqb list_eqb]. now rewrite andb_false_r.
  - cbn [concat_opt]. fold (kind_is k_array kn) in Ka. fold (kind_is k_array en) in Ea. fold (kind_is k_array vn) in Va. rewrite Ka, Ea, Va. rewrite (py_all_toks _ _ Dr).
    destruct v as [s| |vs|m]; cbn [array_reqs]; try (exists []; split; reflexivity).
    destruct (py_array_spec _ _ _ Dv Pv) as [p1 [E1 M1]]. rewrite E1. exists (p1 ++ []). split; [reflexivity|]. rewrite app_nil_r. exact M1.
Qed.
End PyprojectProofs.
