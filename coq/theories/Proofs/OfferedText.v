(* C07: the version text a bump action offers.  The calculators return Display of a parsed cached version; by
   ParseShow.parse_show that is the cached text with its operator prefix stripped and missing components padded
   (pad (strip_ops v)) - and the cached text itself whenever that text is a full SemVer version.  The padded case is the
   listed finding C07-advertised-version-respelled. *)
From Coq Require Import Arith Bool ZArith Lia.
From VL Require Import Lib.Bytes Lib.SemVer Model.SemverUtil Model.CodeAction Proofs.GoOrderProofs Proofs.ParseShow Proofs.BumpProofs.

Lemma parse_version_show s m : parse_version s = Some m -> show m = pad (strip_ops s).
Proof. unfold parse_version. apply parse_show. Qed.

(* a full SemVer text starts with a digit and has at least two dots *)
Lemma parse_starts_digit s v : parse s = Some v -> exists d t, s = d :: t /\ is_digit d = true.
Proof.
  rewrite parse_eq. destruct s as [|c0 s0]; [discriminate|]. set (s := c0 :: s0).
  destruct (numeric_identifier s) as [[ma t1]|] eqn:N1; [|discriminate]. intros _.
  destruct (numeric_identifier_spec _ _ _ N1) as [ds [E [[Hne _] [Hd _]]]].
  destruct ds as [|d ds']; [contradiction|]. cbn [forallb] in Hd. apply andb_true_iff in Hd as [Hd _].
  exists d, (ds' ++ t1). split; [exact E|exact Hd].
Qed.
Lemma trim_start_char_other c d t : (c =? d) = false -> trim_start_char c (d :: t) = d :: t.
Proof. intros H. unfold trim_start_char. cbn [drop_while]. now rewrite H. Qed.
Lemma trim_start_str_other a b d t : (a =? d) = false -> trim_start_str [a; b] (d :: t) = d :: t.
Proof. intros H. unfold trim_start_str. cbn [length trim_start_str_fuel strip_prefix]. now rewrite H. Qed.
Lemma strip_ops_digit d t : is_digit d = true -> strip_ops (d :: t) = d :: t.
Proof.
  intros Hd. unfold is_digit in Hd. apply andb_true_iff in Hd as [A B]. apply N.leb_le in A, B. unfold strip_ops.
  rewrite (trim_start_str_other 62 61) by (apply N.eqb_neq; lia). rewrite (trim_start_str_other 60 61) by (apply N.eqb_neq; lia).
  repeat (rewrite trim_start_char_other by (apply N.eqb_neq; lia)). reflexivity.
Qed.

Fixpoint count (c : N) (s : bytes) : nat := match s with [] => 0 | x :: t => (if x =? c then 1 else 0) + count c t end.
Lemma count_app c a b : count c (a ++ b) = (count c a + count c b)%nat.
Proof. induction a as [|x t IH]; [reflexivity|]. cbn [app count]. rewrite IH. lia. Qed.
Lemma split_char_aux_length c s : forall acc, length (split_char_aux c s acc) = S (count c s).
Proof.
  induction s as [|x t IH]; intros acc; [reflexivity|]. cbn [split_char_aux count].
  destruct (x =? c); [cbn [length]; now rewrite IH|now rewrite IH].
Qed.
Lemma pad_full s : (2 <= count 46 s)%nat -> pad s = s.
Proof.
  intros H. unfold pad. pose proof (split_char_aux_length 46 s []) as L. fold (split_char 46 s) in L.
  destruct (split_char 46 s) as [|a [|b [|c l]]]; cbn [length] in L; try lia. reflexivity.
Qed.
Lemma parse_two_dots s v : parse s = Some v -> (2 <= count 46 s)%nat.
Proof.
  intros H. rewrite <- (parse_show s v H). unfold show. rewrite !count_app. change (count 46 [46]) with 1%nat. lia.
Qed.
Theorem full_semver_read_as_is s v : parse s = Some v -> pad (strip_ops s) = s /\ parse_version s = Some v.
Proof.
  intros H. destruct (parse_starts_digit s v H) as [d [t [E Hd]]].
  assert (strip_ops s = s) as Es by (rewrite E; now apply strip_ops_digit).
  assert (pad s = s) as Ep by (apply pad_full; now apply (parse_two_dots s v)).
  unfold parse_version. rewrite Es, Ep. now split.
Qed.

(* what a calculator offers *)
Theorem offered_text keep current versions s :
  latest_where keep current versions = Some s ->
  exists v, In v versions /\ s = pad (strip_ops v) /\ (forall m, parse v = Some m -> s = v).
Proof.
  intros H. destruct (latest_where_sound keep current versions s H) as [cur [v [m [_ [Hin [Hp [Hs _]]]]]]].
  exists v. split; [exact Hin|]. rewrite Hs, (parse_version_show v m Hp). split; [reflexivity|].
  intros m' Hm'. exact (proj1 (full_semver_read_as_is v m' Hm')).
Qed.

(* ---------- the edited spec, read again by the same parser, is the target version ---------- *)
Lemma tss_strip a b x r : (a =? x) = false -> trim_start_str [a; b] (a :: b :: x :: r) = x :: r.
Proof.
  intros H. unfold trim_start_str. cbn [length trim_start_str_fuel strip_prefix]. rewrite !N.eqb_refl. cbn [strip_prefix]. now rewrite H.
Qed.
Lemma tss_half a b x r : (b =? x) = false -> trim_start_str [a; b] (a :: x :: r) = a :: x :: r.
Proof.
  intros H. unfold trim_start_str. cbn [length trim_start_str_fuel strip_prefix]. rewrite N.eqb_refl. now rewrite H.
Qed.
Lemma tsc_strip c x r : (c =? x) = false -> trim_start_char c (c :: x :: r) = x :: r.
Proof. intros H. unfold trim_start_char. cbn [drop_while]. now rewrite N.eqb_refl, H. Qed.

Lemma strip_ops_prefixed p d t : In p [[62;61]; [60;61]; [62]; [60]; [61]; [94]; [126]; [118]; []] -> is_digit d = true ->
  strip_ops (p ++ d :: t) = d :: t.
Proof.
  intros Hp Hd. unfold is_digit in Hd. apply andb_true_iff in Hd as [A B]. apply N.leb_le in A, B.
  cbn [In] in Hp. repeat (destruct Hp as [<-|Hp]); try contradiction; cbn [app]; unfold strip_ops;
    repeat (first [ rewrite tss_strip by (apply N.eqb_neq; lia)
                  | rewrite tss_half by (apply N.eqb_neq; lia)
                  | rewrite tsc_strip by (apply N.eqb_neq; lia)
                  | rewrite trim_start_str_other by (apply N.eqb_neq; lia)
                  | rewrite trim_start_char_other by (apply N.eqb_neq; lia) ]); reflexivity.
Qed.

(* a bump action writes [operator prefix ++ Display of the target]; the same lenient parser reads that text as the target *)
Theorem edited_spec_denotes_target prefix m :
  In prefix [[62;61]; [60;61]; [62]; [60]; [61]; [94]; [126]; [118]; []] ->
  (exists s, parse s = Some m) -> parse_version (prefix ++ show m) = Some m.
Proof.
  intros Hp [s Hs]. pose proof (parse_show s m Hs) as E. rewrite E.
  destruct (parse_starts_digit s m Hs) as [d [t [-> Hd]]].
  unfold parse_version. rewrite (strip_ops_prefixed prefix d t Hp Hd).
  rewrite pad_full by (apply (parse_two_dots _ m Hs)). exact Hs.
Qed.
Corollary offered_action_denotes_target keep current versions s :
  latest_where keep current versions = Some s ->
  exists v m, In v versions /\ parse_version v = Some m /\ s = show m /\
              parse_version (extract_version_prefix current ++ s) = Some m.
Proof.
  intros H. destruct (latest_where_sound keep current versions s H) as [cur [v [m [_ [Hin [Hp [Hs _]]]]]]].
  exists v, m. repeat split; try assumption. rewrite Hs.
  apply edited_spec_denotes_target; [apply prefix_is_operator|]. unfold parse_version in Hp. eauto.
Qed.
