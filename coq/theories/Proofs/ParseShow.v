(* semver::Version: Display after from_str gives the text back.  So from_str is injective: two texts that parse to
   the same version are the same text, and a version offered as "Display of a parsed cached version" (C07) is
   the cached text itself whenever that text is a full SemVer version. *)
From Coq Require Import Arith Bool ZArith Lia.
From VL Require Import Lib.Bytes Lib.SemVer Proofs.GoOrderProofs.

(* ---------- decimal numbers ---------- *)
Fixpoint dval (ds : bytes) (v : N) : N := match ds with [] => v | c :: t => dval t (v * 10 + (c - 48)) end.
Lemma dval_app ds c v : dval (ds ++ [c]) v = dval ds v * 10 + (c - 48).
Proof. revert v. induction ds as [|d t IH]; intros v; [reflexivity|]. cbn [app dval]. apply IH. Qed.
Lemma dval_mono ds : forall v, v <= dval ds v.
Proof. induction ds as [|d t IH]; intros v; cbn [dval]; [lia|]. specialize (IH (v * 10 + (d - 48))). lia. Qed.

Lemma num_loop_pos s : forall v l x r, 0 < v -> v <= u64_max -> num_loop s v (S l) = Some (x, r) ->
  exists ds, s = ds ++ r /\ forallb is_digit ds = true /\ x = dval ds v /\ x <= u64_max.
Proof.
  induction s as [|c t IH]; intros v l x r Hv Hm H; cbn [num_loop] in H.
  - cbn [Nat.eqb] in H. injection H as <- <-. exists []. repeat split; assumption.
  - destruct (is_digit c) eqn:Dc.
    + assert ((v =? 0) = false) as Ez by (apply N.eqb_neq; lia). rewrite Ez in H. cbn [andb] in H.
      destruct (v * 10 + (c - 48) <=? u64_max) eqn:Eb; [|discriminate]. apply N.leb_le in Eb.
      assert (0 < v * 10 + (c - 48)) as Hv' by lia. destruct (IH _ _ _ _ Hv' Eb H) as [ds [-> [Hd [-> Hx]]]]. exists (c :: ds). cbn [app forallb dval]. rewrite Dc. repeat split; assumption.
    + cbn [Nat.eqb] in H. injection H as <- <-. exists []. repeat split; assumption.
Qed.
Lemma num_loop_zero s l x r : num_loop s 0 (S l) = Some (x, r) -> x = 0 /\ s = r.
Proof.
  destruct s as [|c t]; cbn [num_loop Nat.eqb]; [intros [= <- <-]; now split|].
  destruct (is_digit c); [cbn; discriminate|]. intros [= <- <-]. now split.
Qed.
Definition canonical (ds : bytes) : Prop := ds <> [] /\ (ds = [48] \/ exists c t, ds = c :: t /\ c <> 48).
Lemma numeric_identifier_spec s x r : numeric_identifier s = Some (x, r) ->
  exists ds, s = ds ++ r /\ canonical ds /\ forallb is_digit ds = true /\ x = dval ds 0 /\ x <= u64_max.
Proof.
  unfold numeric_identifier. destruct s as [|c t]; cbn [num_loop Nat.eqb]; [discriminate|].
  destruct (is_digit c) eqn:Dc; [|discriminate]. cbn [andb negb N.eqb]. rewrite N.mul_0_l, N.add_0_l.
  destruct (c - 48 <=? u64_max) eqn:Eb; [|discriminate]. apply N.leb_le in Eb. intros H.
  destruct (N.eq_dec c 48) as [->|Hc].
  - change (48 - 48) with 0 in H. apply num_loop_zero in H as [-> ->]. exists [48]. cbn. repeat split; try discriminate; try lia. now left.
  - assert (0 < c - 48) as Hp. { unfold is_digit in Dc. apply andb_true_iff in Dc as [D1 _]. apply N.leb_le in D1. lia. }
    destruct (num_loop_pos _ _ _ _ _ Hp Eb H) as [ds [-> [Hd [-> Hx]]]]. exists (c :: ds). cbn [app forallb dval]. rewrite Dc, N.mul_0_l, N.add_0_l.
    repeat split; try assumption; try discriminate. right. now exists c, ds.
Qed.

(* the value of a canonical digit string with n digits is at least 10^(n-1) *)
Lemma dval_lower ds : forall v, forallb is_digit ds = true -> v * 10 ^ N.of_nat (length ds) <= dval ds v.
Proof.
  induction ds as [|d t IH]; intros v Hd; cbn [dval length].
  - cbn. lia.
  - cbn [forallb] in Hd. apply andb_true_iff in Hd as [_ Hd]. specialize (IH (v * 10 + (d - 48)) Hd).
    rewrite Nat2N.inj_succ, N.pow_succ_r'. nia.
Qed.
Lemma canonical_length ds : canonical ds -> forallb is_digit ds = true -> dval ds 0 <= u64_max -> (length ds <= 20)%nat.
Proof.
  intros [Hne [->|[c [t [-> Hc]]]]] Hd Hm; [cbn; lia|].
  cbn [forallb] in Hd. apply andb_true_iff in Hd as [Dc Hd]. cbn [dval] in Hm. rewrite N.mul_0_l, N.add_0_l in Hm.
  assert (1 <= c - 48) as Hp. { unfold is_digit in Dc. apply andb_true_iff in Dc as [D1 _]. apply N.leb_le in D1. lia. }
  pose proof (dval_lower t (c - 48) Hd) as Hl. cbn [length].
  destruct (le_lt_dec (length t) 19) as [Hle|Hgt]; [lia|]. exfalso.
  assert (10 ^ 20 <= 10 ^ N.of_nat (length t)) as Hpow by (apply N.pow_le_mono_r; lia).
  assert (10 ^ 20 <= dval t (c - 48)) by nia. unfold u64_max in Hm. change (10 ^ 20) with 100000000000000000000 in H. lia.
Qed.

Lemma show_fuel_digits ds : canonical ds -> forallb is_digit ds = true ->
  forall f acc, (length ds <= f)%nat -> show_N_fuel f (dval ds 0) acc = ds ++ acc.
Proof.
  induction ds as [|d ds' IH] using rev_ind; intros Hc Hd f acc Hf; [destruct Hc as [Hc _]; contradiction|].
  rewrite forallb_app in Hd. apply andb_true_iff in Hd as [Hd' Hd]. cbn [forallb] in Hd. rewrite andb_true_r in Hd.
  assert (48 <= d /\ d <= 57) as [D1 D2] by (unfold is_digit in Hd; apply andb_true_iff in Hd as [A B]; apply N.leb_le in A, B; now split).
  rewrite app_length in Hf. cbn [length] in Hf. destruct f as [|f]; [lia|].
  rewrite dval_app. cbn [show_N_fuel].
  assert ((dval ds' 0 * 10 + (d - 48)) mod 10 = d - 48) as ->.
  { replace (dval ds' 0 * 10 + (d - 48)) with ((d - 48) + dval ds' 0 * 10) by lia. rewrite N.mod_add by lia. apply N.mod_small. lia. }
  assert ((dval ds' 0 * 10 + (d - 48)) / 10 = dval ds' 0) as ->.
  { replace (dval ds' 0 * 10 + (d - 48)) with ((d - 48) + dval ds' 0 * 10) by lia. rewrite N.div_add by lia. rewrite N.div_small by lia. reflexivity. }
  replace (48 + (d - 48)) with d by lia. rewrite <- app_assoc. cbn [app].
  destruct ds' as [|c0 t0].
  - cbn. reflexivity.
  - set (ds' := c0 :: t0) in *.
    assert (c0 <> 48) as Hn0.
    { destruct Hc as [_ [Hc|[c [t [Hc Hn]]]]].
      - unfold ds' in Hc. destruct t0; discriminate.
      - unfold ds' in Hc. cbn [app] in Hc. intros ->. apply Hn. congruence. }
    assert (canonical ds') as Hc' by (split; [discriminate|right; now exists c0, t0]).
    assert (dval ds' 0 =? 0 = false) as ->.
    { apply N.eqb_neq. unfold ds' in Hd' |- *. cbn [forallb] in Hd'. apply andb_true_iff in Hd' as [Dc Hd'']. cbn [dval]. rewrite N.mul_0_l, N.add_0_l.
      assert (1 <= c0 - 48) by (unfold is_digit in Dc; apply andb_true_iff in Dc as [A _]; apply N.leb_le in A; lia).
      pose proof (dval_mono t0 (c0 - 48)). lia. }
    apply IH; [exact Hc'|exact Hd'|lia].
Qed.
Lemma show_N_digits ds : canonical ds -> forallb is_digit ds = true -> dval ds 0 <= u64_max -> show_N (dval ds 0) = ds.
Proof.
  intros Hc Hd Hm. unfold show_N. rewrite (show_fuel_digits ds Hc Hd 25 []); [apply app_nil_r|].
  pose proof (canonical_length ds Hc Hd Hm). lia.
Qed.
Lemma numeric_identifier_show s x r : numeric_identifier s = Some (x, r) -> s = show_N x ++ r.
Proof.
  intros H. destruct (numeric_identifier_spec _ _ _ H) as [ds [-> [Hc [Hd [-> Hm]]]]]. now rewrite (show_N_digits ds Hc Hd Hm).
Qed.

(* ---------- identifiers ---------- *)
Lemma span_app f s : forall a b, span f s = (a, b) -> s = a ++ b.
Proof.
  induction s as [|c t IH]; intros a b H; cbn [span] in H; [injection H as <- <-; reflexivity|].
  destruct (f c); [|injection H as <- <-; reflexivity].
  destruct (span f t) as [a' b'] eqn:E. injection H as <- <-. cbn [app]. f_equal. now apply IH.
Qed.
Lemma ident_loop_spec fuel is_pre : forall s acc first r rest, (first = true -> acc = []) ->
  ident_loop fuel is_pre s acc first = Some (r, rest) -> acc ++ s = r ++ rest.
Proof.
  induction fuel as [|f IH]; intros s acc first r rest Hf H; [discriminate|]. cbn [ident_loop] in H.
  destruct (span ident_char s) as [seg rest0] eqn:Es. apply span_app in Es. subst s.
  destruct seg as [|c0 seg'].
  - destruct first; [|discriminate]. rewrite (Hf eq_refl) in *. cbn [app] in *.
    destruct rest0 as [|x t]; [injection H as <- <-; reflexivity|].
    destruct (N.eq_dec x 46) as [->|Hx]; [discriminate|].
    cbv beta iota in H. match type of H with (?X = _) => assert (X = Some ([], x :: t)) as E end.
    { destruct x as [|p]; [reflexivity|]. repeat (destruct p as [p|p|]; try reflexivity). exfalso. apply Hx. reflexivity. }
    rewrite E in H. injection H as <- <-. reflexivity.
  - destruct (is_pre && negb (Nat.eqb (length seg') 0) && forallb is_digit (c0 :: seg') && (c0 =? 48)); [discriminate|].
    destruct rest0 as [|x t]; [injection H as <- <-; now rewrite !app_nil_r|].
    destruct (N.eq_dec x 46) as [->|Hx].
    + apply IH in H; [|discriminate]. rewrite <- H. rewrite <- !app_assoc. reflexivity.
    + cbv beta iota in H. match type of H with (?X = _) => assert (X = Some (acc ++ c0 :: seg', x :: t)) as E end.
      { destruct x as [|p]; [reflexivity|]. repeat (destruct p as [p|p|]; try reflexivity). exfalso. apply Hx. reflexivity. }
      rewrite E in H. injection H as <- <-. now rewrite <- app_assoc.
Qed.
Lemma identifier_spec is_pre s r rest : identifier is_pre s = Some (r, rest) -> s = r ++ rest.
Proof. unfold identifier. intros H. apply ident_loop_spec in H; [exact H|reflexivity]. Qed.

(* ---------- the part after the third number ---------- *)
Lemma parse_tail_show ma mi pa t5 v : parse_tail ma mi pa t5 = Some v ->
  major v = ma /\ minor v = mi /\ patch v = pa /\
  (match pre v with [] => [] | p => 45 :: p end) ++ (match build v with [] => [] | b => 43 :: b end) = t5.
Proof.
  destruct t5 as [|c r]; [cbn; intros [= <-]; repeat split|].
  intros H.
  assert (forall p t7 w, (p = [] -> forall x y, t7 = x :: y -> x <> 45) ->
    match (match t7 with
           | 43 :: t8 => match identifier false t8 with None => None | Some ([], _) => None | Some (b, t9) => Some (b, t9) end
           | _ => Some ([], t7)
           end) with
    | None => None
    | Some (b, t9) => match t9 with [] => Some (mkV ma mi pa p b) | _ => None end
    end = Some w ->
    major w = ma /\ minor w = mi /\ patch w = pa /\ pre w = p /\ (match build w with [] => [] | b => 43 :: b end) = t7) as Hbuild.
  { intros p t7 w _ Hw. destruct t7 as [|x y]; [injection Hw as <-; repeat split|].
    destruct (N.eq_dec x 43) as [->|Hx].
    - destruct (identifier false y) as [[b t9]|] eqn:Ei; [|discriminate]. destruct b as [|b0 b]; [discriminate|].
      destruct t9; [|discriminate]. injection Hw as <-. apply identifier_spec in Ei. rewrite app_nil_r in Ei. subst y. repeat split.
    - exfalso. match type of Hw with (match ?X with Some _ => _ | None => _ end = _) => assert (E : X = Some (@nil N, x :: y)) end.
      { destruct x as [|q]; [reflexivity|]. repeat (destruct q as [q|q|]; try reflexivity). exfalso. apply Hx. reflexivity. }
      rewrite E in Hw. discriminate. }
  unfold parse_tail in H. cbv beta iota zeta in H.
  destruct (N.eq_dec c 45) as [->|Hc].
  - cbv beta iota in H. destruct (identifier true r) as [[p t7]|] eqn:Ei; [|discriminate]. destruct p as [|p0 p]; [discriminate|].
    apply identifier_spec in Ei. subst r.
    destruct (Hbuild (p0 :: p) t7 v ltac:(discriminate) H) as (A & B & C & D & E). rewrite D, E. repeat split; assumption.
  - match type of H with (match ?X with Some _ => _ | None => _ end = _) => assert (E : X = Some (@nil N, c :: r)) end.
    { destruct c as [|q]; [reflexivity|]. repeat (destruct q as [q|q|]; try reflexivity). exfalso. apply Hc. reflexivity. }
    rewrite E in H. cbv beta iota in H.
    destruct (Hbuild [] (c :: r) v ltac:(intros _ x y [= <- _]; exact Hc) H) as (A & B & C & D & E'). rewrite D, E'. repeat split; assumption.
Qed.

(* ---------- the theorem ---------- *)
Theorem parse_show s v : parse s = Some v -> show v = s.
Proof.
  rewrite parse_eq. destruct s as [|c0 s0]; [discriminate|]. set (s := c0 :: s0).
  destruct (numeric_identifier s) as [[ma t1]|] eqn:N1; [|discriminate].
  destruct (dot t1) as [t2|] eqn:D1; [|discriminate]. apply dot_inv in D1. subst t1.
  destruct (numeric_identifier t2) as [[mi t3]|] eqn:N2; [|discriminate].
  destruct (dot t3) as [t4|] eqn:D2; [|discriminate]. apply dot_inv in D2. subst t3.
  destruct (numeric_identifier t4) as [[pa t5]|] eqn:N3; [|discriminate].
  intros H. apply parse_tail_show in H as (A & B & C & D).
  unfold show. rewrite A, B, C. rewrite (numeric_identifier_show _ _ _ N1), (numeric_identifier_show _ _ _ N2), (numeric_identifier_show _ _ _ N3).
  rewrite <- D. reflexivity.
Qed.
Corollary parse_injective a b v : parse a = Some v -> parse b = Some v -> a = b.
Proof. intros Ha Hb. now rewrite <- (parse_show a v Ha), <- (parse_show b v Hb). Qed.
