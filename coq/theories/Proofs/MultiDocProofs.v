(* C13 for any number of documents.  The event machine of Model/Backend.v is run with a ghost list recording at which
   cache version each package became cached.  Theorem: along every event sequence in which no document is given a text
   whose uncached dependency another open document also depends on or has in flight ([clean]; its complement is the
   listed finding C13-cross-document-no-republish), every open, supported, enabled document's last publication was
   computed from its latest text and not before its dependency became cached. *)
From Coq Require Import ZArith Lia.
From VL Require Import Lib.Bytes Model.Backend Proofs.BackendProofs.

Definition active (c : bconfig) (u : uri) : bool := c_supported c u && c_enabled c u.
Definition pkg_at (c : bconfig) (s : bstate) (u : uri) : option pkgid :=
  match doc_rev s u with Some t => pkg_of c t | None => None end.

(* the ghost: (p, n) = package p became cached when the cache version became n *)
Definition since_step (s : bstate) (e : bevent) (g : list (pkgid * N)) : list (pkgid * N) :=
  match e with
  | EvReply p RVersions => match find (fun f => fst f =? p) (fetching s) with Some _ => (p, cver s + 1) :: g | None => g end
  | _ => g
  end.
Fixpoint since_run (c : bconfig) (s : bstate) (l : list bevent) (g : list (pkgid * N)) : list (pkgid * N) :=
  match l with
  | [] => g
  | e :: t => since_run c (fst (step c s e)) t (since_step s e g)
  end.

Definition clean (c : bconfig) (s : bstate) (e : bevent) : Prop :=
  match e with
  | EvOpen u t | EvChange u t =>
      match pkg_of c t with
      | None => True
      | Some p => mem p (cached s) = true \/
                  ((forall u', u' <> u -> pkg_at c s u' <> Some p) /\ (forall u', In (p, u') (fetching s) -> u' = u))
      end
  | _ => True
  end.
Fixpoint clean_run (c : bconfig) (s : bstate) (l : list bevent) : Prop :=
  match l with
  | [] => True
  | e :: t => clean c s e /\ clean_run c (fst (step c s e)) t
  end.

(* ---------- a decidable sufficient test for cleanliness (used by the examples and by the run-time oracle) ---------- *)
Definition opt_is (o : option pkgid) (p : pkgid) : bool := match o with Some q => q =? p | None => false end.
Definition clean_b (c : bconfig) (s : bstate) (e : bevent) : bool :=
  match e with
  | EvOpen u t | EvChange u t =>
      match pkg_of c t with
      | None => true
      | Some p => mem p (cached s) ||
                  (forallb (fun d => (fst d =? u) || negb (opt_is (pkg_of c (snd d)) p)) (docs s) &&
                   forallb (fun f => negb (fst f =? p) || (snd f =? u)) (fetching s))
      end
  | _ => true
  end.
Fixpoint clean_run_b (c : bconfig) (s : bstate) (l : list bevent) : bool :=
  match l with
  | [] => true
  | e :: t => clean_b c s e && clean_run_b c (fst (step c s e)) t
  end.
Lemma clean_b_sound c s e : clean_b c s e = true -> clean c s e.
Proof.
  assert (forall u t, clean_b c s (EvOpen u t) = true -> clean c s (EvOpen u t)) as H.
  { intros u t. cbn [clean_b clean]. destruct (pkg_of c t) as [p|]; [|intros _; exact I].
    intros H. apply orb_true_iff in H as [H|H]; [now left|]. right. apply andb_true_iff in H as [H1 H2].
    rewrite forallb_forall in H1, H2. split.
    - intros u' Hne Hp. unfold pkg_at, doc_rev in Hp. destruct (find (fun d => fst d =? u') (docs s)) as [[a b]|] eqn:Ef; [|discriminate].
      apply find_some in Ef as [Hin He]. cbn [fst] in He. apply N.eqb_eq in He. subst a. cbn [option_map snd] in Hp.
      specialize (H1 _ Hin). cbn [fst snd] in H1. rewrite Hp in H1. cbn [opt_is] in H1. rewrite N.eqb_refl in H1. cbn [negb] in H1.
      rewrite orb_false_r in H1. apply N.eqb_eq in H1. contradiction.
    - intros u' Hin. specialize (H2 _ Hin). cbn [fst snd] in H2. rewrite N.eqb_refl in H2. cbn [negb orb] in H2. now apply N.eqb_eq in H2. }
  destruct e; cbn [clean]; try (intros _; exact I); apply H.
Qed.
Lemma clean_run_b_sound c : forall l s, clean_run_b c s l = true -> clean_run c s l.
Proof.
  induction l as [|e l IH]; intros s H; [exact I|]. cbn [clean_run_b] in H. apply andb_true_iff in H as [H1 H2].
  split; [now apply clean_b_sound|now apply IH].
Qed.

Record Inv (c : bconfig) (s : bstate) (g : list (pkgid * N)) (lp : uri -> option publication) : Prop := mkInv {
  inv_ghost : forall p n, In (p, n) g -> mem p (cached s) = true /\ n <= cver s;
  inv_fetch : forall p u, In (p, u) (fetching s) -> mem p (cached s) = false;
  inv_pub : forall u t, doc_rev s u = Some t -> active c u = true ->
            exists P, lp u = Some P /\ pb_rev P = t /\ forall p n, pkg_of c t = Some p -> In (p, n) g -> n <= pb_cver P;
  inv_alone : forall u t p, doc_rev s u = Some t -> active c u = true -> pkg_of c t = Some p -> mem p (cached s) = false ->
              (forall u', u' <> u -> pkg_at c s u' <> Some p) /\ (forall u', In (p, u') (fetching s) -> u' = u) }.

(* ---------- what did_open / did_change does ---------- *)
Lemma on_text_spec c s u t : c_has_store c = true ->
  let '(s', outs) := on_text c s u t in
  docs s' = set_doc u t (docs s) /\ cached s' = cached s /\ cver s' = cver s /\
  (fetching s' = fetching s \/
   exists p, pkg_of c t = Some p /\ mem p (cached s) = false /\ fetching s' = (p, u) :: fetching s) /\
  outs = if active c u then [OutPublish (mkPub u t (cver s))] else [].
Proof.
  intros Hst. unfold on_text, active. destruct (c_supported c u); cbn [negb orb andb]; [|repeat split; now left].
  destruct (c_enabled c u); cbn [negb orb]; [|repeat split; now left]. rewrite Hst. cbn [negb].
  destruct (pkg_of c t) as [p|] eqn:Ep; [|repeat split; now left].
  destruct (mem p (cached s)) eqn:Ec; cbn [orb]; [repeat split; now left|].
  destruct (mem p (marked s) || mem p (map fst (fetching s))); [repeat split; now left|].
  cbn [docs cached cver fetching]. repeat split. right. exists p. now repeat split.
Qed.
Lemma last_pub_other u u' t n acc : u <> u' -> last_pub u' [OutPublish (mkPub u t n)] acc = acc.
Proof. intros H. cbn [last_pub pb_uri]. destruct (u =? u') eqn:E; [apply N.eqb_eq in E; contradiction|reflexivity]. Qed.
Lemma doc_rev_of_docs s s' : docs s' = docs s -> forall u, doc_rev s' u = doc_rev s u.
Proof. intros H u. unfold doc_rev. now rewrite H. Qed.
Lemma pkg_at_of_docs c s s' : docs s' = docs s -> forall u, pkg_at c s' u = pkg_at c s u.
Proof. intros H u. unfold pkg_at. now rewrite (doc_rev_of_docs s s' H). Qed.
Lemma mem_cons x y l : mem x (y :: l) = (x =? y) || mem x l.
Proof. reflexivity. Qed.
Lemma find_fetch_in p (l : list (pkgid * uri)) q u : find (fun f => fst f =? p) l = Some (q, u) -> q = p /\ In (p, u) l.
Proof. intros H. apply find_some in H as [Hin He]. cbn [fst] in He. apply N.eqb_eq in He. subst q. now split. Qed.
Lemma in_filter_fetch p (l : list (pkgid * uri)) q u : In (q, u) (filter (fun f => negb (fst f =? p)) l) -> In (q, u) l /\ q <> p.
Proof. intros H. apply filter_In in H as [Hin Hb]. cbn [fst] in Hb. apply negb_true_iff, N.eqb_neq in Hb. now split. Qed.

(* ---------- one step ---------- *)
Lemma step_inv c s e g lp : c_has_store c = true -> clean c s e -> Inv c s g lp ->
  Inv c (fst (step c s e)) (since_step s e g) (fun u => last_pub u (snd (step c s e)) (lp u)).
Proof.
  intros Hst Hcl [Hg Hf Hp Ha].
  assert (forall u t, clean c s (EvOpen u t) -> Inv c (fst (on_text c s u t)) g (fun u0 => last_pub u0 (snd (on_text c s u t)) (lp u0))) as Htext.
  { intros u t Hcl'. cbn [clean] in Hcl'. pose proof (on_text_spec c s u t Hst) as S. destruct (on_text c s u t) as [s' outs].
    destruct S as (Sd & Sc & Sv & Sf & So). cbn [fst snd].
    assert (forall u', doc_rev s' u' = if u =? u' then Some t else doc_rev s u') as Hdoc.
    { intros u'. unfold doc_rev. rewrite Sd. apply doc_rev_set. }
    assert (forall u', u' <> u -> pkg_at c s' u' = pkg_at c s u') as Hpk.
    { intros u' Hne. unfold pkg_at. rewrite Hdoc. destruct (u =? u') eqn:E; [apply N.eqb_eq in E; congruence|reflexivity]. }
    (* the new claim, if any: its package is uncached, and by cleanliness nobody else holds it *)
    assert (forall q u', In (q, u') (fetching s') -> In (q, u') (fetching s) \/ (u' = u /\ pkg_of c t = Some q /\ mem q (cached s) = false)) as Hfin.
    { intros q u' Hin. destruct Sf as [Sf|[p [Ep [Ec Sf]]]]; rewrite Sf in Hin; [now left|].
      destruct Hin as [Hin|Hin]; [injection Hin as <- <-; right; now repeat split|now left]. }
    split.
    - intros p n Hin. rewrite Sc, Sv. now apply Hg.
    - intros p u' Hin. rewrite Sc. destruct (Hfin p u' Hin) as [Hin'|[_ [_ Hc]]]; [now apply (Hf p u')|exact Hc].
    - intros u' t' Hr Hact. rewrite Hdoc in Hr. destruct (u =? u') eqn:E.
      + apply N.eqb_eq in E. subst u'. injection Hr as <-. rewrite So, Hact. cbn [last_pub pb_uri]. rewrite N.eqb_refl.
        eexists. split; [reflexivity|]. split; [reflexivity|]. intros p n _ Hin. cbn [pb_cver]. now apply (Hg p n).
      + apply N.eqb_neq in E. destruct (Hp u' t' Hr Hact) as [P [HP [Hrev Hle]]]. exists P. split; [|now split].
        rewrite So. destruct (active c u); [rewrite last_pub_other by congruence; exact HP|exact HP].
    - intros u' t' p Hr Hact Ep Hc. rewrite Sc in Hc. rewrite Hdoc in Hr. destruct (u =? u') eqn:E.
      + apply N.eqb_eq in E. subst u'. injection Hr as <-. rewrite Ep in Hcl'. destruct Hcl' as [Hcl'|[C1 C2]]; [congruence|]. split.
        * intros u'' Hne. rewrite (Hpk u'' Hne). now apply C1.
        * intros u'' Hin. destruct (Hfin p u'' Hin) as [Hin'|[-> _]]; [now apply C2|reflexivity].
      + apply N.eqb_neq in E. destruct (Ha u' t' p Hr Hact Ep Hc) as [A1 A2].
        (* u's new package is not p: otherwise cleanliness is contradicted by u' *)
        assert (pkg_of c t <> Some p) as Hnp.
        { intros Et. rewrite Et in Hcl'. destruct Hcl' as [Hcl'|[C1 _]]; [congruence|].
          apply (C1 u'); [congruence|]. unfold pkg_at. now rewrite Hr. }
        split.
        * intros u'' Hne. destruct (N.eq_dec u'' u) as [->|Hne'].
          -- unfold pkg_at. rewrite Hdoc, N.eqb_refl. exact Hnp.
          -- rewrite (Hpk u'' Hne'). now apply A1.
        * intros u'' Hin. destruct (Hfin p u'' Hin) as [Hin'|[_ [Et _]]]; [now apply A2|contradiction]. }
  destruct e as [u t|u t|u|p r|u].
  - exact (Htext u t Hcl).
  - exact (Htext u t Hcl).
  - (* didClose *)
    cbn [step fst snd since_step last_pub].
    set (s' := mkB (filter (fun d => negb (fst d =? u)) (docs s)) (cached s) (marked s) (fetching s) (cver s)).
    assert (forall u', doc_rev s' u' = if u =? u' then None else doc_rev s u') as Hdoc by (intros u'; unfold doc_rev, s'; cbn [docs]; apply doc_rev_remove).
    assert (forall u' t', doc_rev s' u' = Some t' -> doc_rev s u' = Some t' /\ u' <> u) as Hsub.
    { intros u' t' H. rewrite Hdoc in H. destruct (u =? u') eqn:E; [discriminate|]. apply N.eqb_neq in E. split; [exact H|congruence]. }
    split.
    + exact Hg.
    + exact Hf.
    + intros u' t' Hr Hact. destruct (Hsub u' t' Hr) as [Hr' _]. now apply Hp.
    + intros u' t' p Hr Hact Ep Hc. destruct (Hsub u' t' Hr) as [Hr' _]. destruct (Ha u' t' p Hr' Hact Ep Hc) as [A1 A2]. split; [|exact A2].
      intros u'' Hne. unfold pkg_at. rewrite Hdoc. destruct (u =? u''); [discriminate|]. now apply A1.
  - (* a registry reply *)
    cbn [step since_step]. destruct (find (fun f => fst f =? p) (fetching s)) as [[q u0]|] eqn:Efind.
    2:{ cbn [fst snd last_pub]. destruct r; (split; [exact Hg|exact Hf|exact Hp|exact Ha]). }
    apply find_fetch_in in Efind as [-> Hin0]. pose proof (Hf p u0 Hin0) as Hunc.
    destruct r.
    + (* versions arrived: p becomes cached, the claiming document is re-published *)
      set (s' := mkB (docs s) (p :: cached s) (marked s) (filter (fun f => negb (fst f =? p)) (fetching s)) (cver s + 1)).
      cbn [fst snd]. fold s'.
      assert (forall u', doc_rev s' u' = doc_rev s u') as Hdoc by reflexivity.
      split.
      * intros q n [Hin|Hin].
        -- injection Hin as <- <-. unfold s'. cbn [cached cver]. rewrite mem_cons, N.eqb_refl. split; [reflexivity|lia].
        -- destruct (Hg q n Hin) as [G1 G2]. unfold s'. cbn [cached cver]. rewrite mem_cons, G1, orb_true_r. split; [reflexivity|lia].
      * intros q u' Hin. unfold s' in Hin |- *. cbn [fetching cached] in *. apply in_filter_fetch in Hin as [Hin Hne].
        rewrite mem_cons. apply N.eqb_neq in Hne. rewrite Hne. cbn [orb]. now apply (Hf q u').
      * intros u' t' Hr Hact. rewrite Hdoc in Hr. destruct (N.eq_dec u' u0) as [->|Hne].
        -- rewrite Hr. cbn [last_pub pb_uri]. rewrite N.eqb_refl. eexists. split; [reflexivity|]. split; [reflexivity|].
           intros q n _ [Hin|Hin]; cbn [pb_cver]; [injection Hin as _ <-; lia|]. destruct (Hg q n Hin) as [_ G2]. lia.
        -- destruct (Hp u' t' Hr Hact) as [P [HP [Hrev Hle]]]. exists P. split.
           ++ destruct (doc_rev s u0) as [t0|]; [|exact HP]. rewrite last_pub_other by congruence. exact HP.
           ++ split; [exact Hrev|]. intros q n Eq [Hin|Hin]; [|now apply (Hle q n)].
              injection Hin as <- <-. exfalso. destruct (Ha u' t' p Hr Hact Eq Hunc) as [_ A2]. apply Hne. symmetry. now apply A2.
      * intros u' t' q Hr Hact Eq Hc. rewrite Hdoc in Hr. unfold s' in Hc. cbn [cached] in Hc. rewrite mem_cons in Hc. apply orb_false_iff in Hc as [_ Hc].
        destruct (Ha u' t' q Hr Hact Eq Hc) as [A1 A2]. split; [exact A1|].
        intros u'' Hin. unfold s' in Hin. cbn [fetching] in Hin. apply in_filter_fetch in Hin as [Hin _]. now apply A2.
    + (* not found *)
      cbn [fst snd last_pub]. split; [exact Hg| | |].
      * intros q u' Hin. cbn [fetching cached] in *. apply in_filter_fetch in Hin as [Hin _]. now apply (Hf q u').
      * exact Hp.
      * intros u' t' q Hr Hact Eq Hc. destruct (Ha u' t' q Hr Hact Eq Hc) as [A1 A2]. split; [exact A1|].
        intros u'' Hin. cbn [fetching] in Hin. apply in_filter_fetch in Hin as [Hin _]. now apply A2.
    + (* error *)
      cbn [fst snd last_pub]. split; [exact Hg| | |].
      * intros q u' Hin. cbn [fetching cached] in *. apply in_filter_fetch in Hin as [Hin _]. now apply (Hf q u').
      * exact Hp.
      * intros u' t' q Hr Hact Eq Hc. destruct (Ha u' t' q Hr Hact Eq Hc) as [A1 A2]. split; [exact A1|].
        intros u'' Hin. cbn [fetching] in Hin. apply in_filter_fetch in Hin as [Hin _]. now apply A2.
  - (* a code-action request *)
    cbn [step since_step]. destruct (negb (c_supported c u) || negb (c_enabled c u) || negb (c_has_store c)); cbn [fst snd last_pub]; (split; [exact Hg|exact Hf|exact Hp|exact Ha]).
Qed.

(* ---------- every run ---------- *)
Lemma run_step c s e l : run c s (e :: l) = (fst (run c (fst (step c s e)) l), snd (step c s e) ++ snd (run c (fst (step c s e)) l)).
Proof. cbn [run]. destruct (step c s e) as [s1 o1]. cbn [fst snd]. destruct (run c s1 l) as [s2 o2]. reflexivity. Qed.
Lemma run_inv c : c_has_store c = true -> forall l s g lp, clean_run c s l -> Inv c s g lp ->
  Inv c (fst (run c s l)) (since_run c s l g) (fun u => last_pub u (snd (run c s l)) (lp u)).
Proof.
  intros Hst. induction l as [|e l IH]; intros s g lp Hcl Hinv; [exact Hinv|].
  destruct Hcl as [Hc Hcl]. rewrite run_step. cbn [fst snd since_run].
  pose proof (IH _ _ _ Hcl (step_inv c s e g lp Hst Hc Hinv)) as H.
  destruct H as [H1 H2 H3 H4]. split; try assumption.
  intros u t Hr Hact. destruct (H3 u t Hr Hact) as [P [HP HQ]]. exists P. split; [|exact HQ]. now rewrite last_pub_app.
Qed.
Lemma inv_init c cached0 : Inv c (init_state cached0) [] (fun _ => None).
Proof. split; cbn; try contradiction; try discriminate. Qed.

Theorem documents_current c cached0 evs :
  c_has_store c = true -> clean_run c (init_state cached0) evs ->
  forall u t, doc_rev (fst (run c (init_state cached0) evs)) u = Some t -> c_supported c u = true -> c_enabled c u = true ->
  exists P, last_pub u (snd (run c (init_state cached0) evs)) None = Some P /\ pb_rev P = t /\
    forall p n, pkg_of c t = Some p -> In (p, n) (since_run c (init_state cached0) evs []) -> n <= pb_cver P.
Proof.
  intros Hst Hcl u t Hr Hs He.
  destruct (run_inv c Hst evs _ _ _ Hcl (inv_init c cached0)) as [_ _ H3 _].
  apply (H3 u t Hr). unfold active. now rewrite Hs, He.
Qed.
