(* C06: the walks cannot panic on any tree whose nodes can be sliced (what tree-sitter guarantees) - totality of
   the models of the first-party parsers that express panics. *)
From Coq Require Import ZArith Lia.
From VL Require Import Lib.Bytes Lib.Text Lib.Cst Gen.GenParsers Model.Walks Proofs.CstProofs.

Lemma slice_length s a b' t : slice s a b' = Some t -> blen t = b' - a.
Proof.
  unfold slice. destruct ((a <=? b') && (b' <=? blen s)) eqn:E; [|discriminate]. intros [= <-].
  apply andb_true_iff in E as [E1 E2]. apply N.leb_le in E1, E2.
  unfold blen, firstn_N, skipn_N in *. rewrite firstn_length, skipn_length. lia.
Qed.
Lemma tree_forall_eq P k f sb eb r c m ch :
  tree_forall P (Node k f sb eb r c m ch) = P (Node k f sb eb r c m ch) && forallb (tree_forall P) ch.
Proof. cbn [tree_forall]. f_equal. Qed.
Lemma tree_forall_self P n : tree_forall P n = true -> P n = true.
Proof. destruct n. rewrite tree_forall_eq. intros H. now apply andb_true_iff in H. Qed.
Lemma tree_forall_kids P n c : tree_forall P n = true -> In c (n_children n) -> tree_forall P c = true.
Proof.
  destruct n as [k f sb eb r cc m ch]. rewrite tree_forall_eq. cbn [n_children]. intros H Hin.
  apply andb_true_iff in H as [_ H]. rewrite forallb_forall in H. now apply H.
Qed.
Lemma tree_forall_field P n f c : tree_forall P n = true -> child_by_field f n = Some c -> tree_forall P c = true.
Proof. intros H Hc. apply (tree_forall_kids P n c H). unfold child_by_field in Hc. now apply find_some in Hc. Qed.

(* wf_cst gives node_safe everywhere, except for the string-token clause which string_nodes_ok provides *)
Lemma safe_text content n : node_safe content n = true -> exists t, node_text content n = Some t.
Proof.
  unfold node_safe, node_text, slice. intros H. apply andb_true_iff in H as [H _]. rewrite H. eauto.
Qed.
Lemma safe_string_end content n : node_safe content n = true -> kind_is k_string n = true -> exists e, pred_N (n_eb n) = Some e.
Proof.
  unfold node_safe, kind_is, pred_N. intros H Hk. apply andb_true_iff in H as [_ H].
  change k_string with [115;116;114;105;110;103] in Hk. rewrite Hk in H. apply negb_true_iff in H. rewrite H. eauto.
Qed.

Section Safe.
Variable content : bytes.
Notation safe := (tree_forall (node_safe content)).

Lemma sv_total n : safe n = true -> exists s, string_value content n = Some s.
Proof. intros H. destruct (safe_text content n (tree_forall_self _ _ H)) as [t Ht]. unfold string_value. rewrite Ht. cbn. eauto. Qed.
Lemma npt_total n : safe n = true -> exists s, node_plain_text content n = Some s.
Proof. intros H. destruct (safe_text content n (tree_forall_self _ _ H)) as [t Ht]. unfold node_plain_text. rewrite Ht. cbn. eauto. Qed.

Lemma concat_opt_total {A B} (f : A -> option (list B)) l : (forall x, In x l -> exists r, f x = Some r) -> exists r, concat_opt f l = Some r.
Proof.
  induction l as [|x t IH]; intros H; [now exists []|]. cbn [concat_opt].
  destruct (H x (or_introl eq_refl)) as [rx ->]. destruct IH as [rt ->]; [intros y Hy; apply H; now right|]. eauto.
Qed.

(* ---------- package.json ---------- *)
Lemma npm_entry_total p : safe p = true -> exists r, npm_entry content p = Some r.
Proof.
  intros H. unfold npm_entry. destruct (kind_is k_pair p); cbn [negb]; [|eauto].
  destruct (child_by_field k_key p) as [kn|] eqn:Ek; [|eauto]. destruct (child_by_field k_value p) as [vn|] eqn:Ev; [|eauto].
  destruct (kind_is k_string vn) eqn:Es; cbn [negb]; [|eauto].
  destruct (n_eb vn - n_sb vn <? 2) eqn:El; [eauto|].
  destruct (sv_total kn (tree_forall_field _ _ _ _ H Ek)) as [k ->]. destruct (sv_total vn (tree_forall_field _ _ _ _ H Ev)) as [v ->]. cbn [bind].
  destruct (starts_with npm_catalog_prefix v); [eauto|].
  destruct (match parse_npm_alias v with Some nv0 => nv0 | None => (k, v) end) as [nm vr].
  unfold quoted_pkg, pred_N. apply N.ltb_ge in El. destruct (n_eb vn =? 0) eqn:E0; [apply N.eqb_eq in E0; lia|]. cbn. eauto.
Qed.
Lemma npm_section_total p : safe p = true -> exists r, npm_section content p = Some r.
Proof.
  intros H. unfold npm_section. destruct (kind_is k_pair p); cbn [negb]; [|eauto].
  destruct (child_by_field k_key p) as [kn|] eqn:Ek; [|eauto].
  destruct (sv_total kn (tree_forall_field _ _ _ _ H Ek)) as [k ->]. cbn [bind].
  destruct (existsb (beq k) npm_dependency_fields); cbn [negb]; [|eauto].
  destruct (child_by_field k_value p) as [vn|] eqn:Ev; [|eauto]. destruct (kind_is k_object vn); [|eauto].
  apply concat_opt_total. intros x Hx. apply npm_entry_total. eapply tree_forall_kids; [exact (tree_forall_field _ _ _ _ H Ev)|exact Hx].
Qed.
Theorem package_json_total root : safe root = true -> exists r, walk_package_json content root = Some r.
Proof.
  intros H. unfold walk_package_json. destruct (n_children root) as [|doc rest] eqn:Ec; [eauto|].
  destruct (kind_is k_object doc); [|eauto]. apply concat_opt_total. intros x Hx. apply npm_section_total.
  eapply tree_forall_kids; [|exact Hx]. apply (tree_forall_kids _ root doc H). rewrite Ec. now left.
Qed.

(* ---------- deno.json ---------- *)
Lemma deno_entry_total p : safe p = true -> exists r, deno_entry content p = Some r.
Proof.
  intros H. unfold deno_entry. destruct (kind_is k_pair p); cbn [negb]; [|eauto].
  destruct (child_by_field k_value p) as [vn|] eqn:Ev; [|eauto].
  destruct (kind_is k_string vn) eqn:Es; cbn [negb]; [|eauto].
  pose proof (tree_forall_field _ _ _ _ H Ev) as Hv.
  destruct (sv_total vn Hv) as [v ->]. cbn [bind].
  destruct (parse_jsr_specifier v) as [[nm vr]|]; [|eauto].
  unfold quoted_pkg. destruct (safe_string_end content vn (tree_forall_self _ _ Hv) Es) as [e ->]. cbn. eauto.
Qed.
Lemma deno_section_total p : safe p = true -> exists r, deno_section content p = Some r.
Proof.
  intros H. unfold deno_section. destruct (kind_is k_pair p); cbn [negb]; [|eauto].
  destruct (child_by_field k_key p) as [kn|] eqn:Ek; [|eauto].
  destruct (sv_total kn (tree_forall_field _ _ _ _ H Ek)) as [k ->]. cbn [bind].
  destruct (beq k deno_imports_key); cbn [negb]; [|eauto].
  destruct (child_by_field k_value p) as [vn|] eqn:Ev; [|eauto]. destruct (kind_is k_object vn); [|eauto].
  apply concat_opt_total. intros x Hx. apply deno_entry_total. eapply tree_forall_kids; [exact (tree_forall_field _ _ _ _ H Ev)|exact Hx].
Qed.
Theorem deno_json_total root : safe root = true -> exists r, walk_deno_json content root = Some r.
Proof.
  intros H. unfold walk_deno_json. destruct (n_children root) as [|doc rest] eqn:Ec; [eauto|].
  destruct (kind_is k_object doc); [|eauto]. apply concat_opt_total. intros x Hx. apply deno_section_total.
  eapply tree_forall_kids; [|exact Hx]. apply (tree_forall_kids _ root doc H). rewrite Ec. now left.
Qed.

(* ---------- Cargo.toml ---------- *)
Lemma nt_total n : safe n = true -> exists s, node_text content n = Some s.
Proof. intros H. exact (safe_text content n (tree_forall_self _ _ H)). Qed.
Lemma string_vinfo_total n : safe n = true -> kind_is k_string n = true -> exists v, string_vinfo content n = Some v.
Proof.
  intros H Hk. unfold string_vinfo. destruct (nt_total n H) as [t ->]. cbn [bind].
  destruct (safe_string_end content n (tree_forall_self _ _ H) Hk) as [e ->]. cbn. eauto.
Qed.
Lemma should_skip_total tbl : safe tbl = true -> exists b0, should_skip_inline content tbl = Some b0.
Proof.
  intros H. unfold should_skip_inline.
  destruct (concat_opt_total (fun p => if negb (kind_is k_pair p) then Some [] else
                          concat_opt (fun c => if kind_is k_bare_key c then option_map (fun k => [existsb (beq k) cargo_skip_keys]) (node_text content c) else Some [])
                                     (n_children p)) (n_children tbl)) as [r Hr].
  - intros p Hp. destruct (kind_is k_pair p); cbn [negb]; [|eauto]. apply concat_opt_total. intros c Hc.
    destruct (kind_is k_bare_key c); [|eauto].
    destruct (nt_total c (tree_forall_kids _ _ _ (tree_forall_kids _ _ _ H Hp) Hc)) as [t ->]. cbn. eauto.
  - rewrite Hr. cbn. eauto.
Qed.
Lemma scan_version_total cs : forall isv, (forall c, In c cs -> safe c = true) -> exists r, scan_version_pair content cs isv = Some r.
Proof.
  induction cs as [|c t IH]; intros isv H; cbn [scan_version_pair]; [eauto|].
  destruct (kind_is k_bare_key c).
  - destruct (nt_total c (H c (or_introl eq_refl))) as [k ->]. cbn [bind]. apply IH. intros x Hx. apply H. now right.
  - destruct (kind_is k_string c) eqn:Es; cbn [andb].
    + destruct isv; [|apply IH; intros x Hx; apply H; now right].
      destruct (string_vinfo_total c (H c (or_introl eq_refl)) Es) as [v ->]. cbn. eauto.
    + apply IH. intros x Hx. apply H. now right.
Qed.
Lemma inline_version_total ps : (forall p, In p ps -> safe p = true) -> exists r, inline_version content ps = Some r.
Proof.
  induction ps as [|p t IH]; intros H; cbn [inline_version]; [eauto|].
  destruct (kind_is k_pair p); [|apply IH; intros x Hx; apply H; now right].
  destruct (scan_version_total (n_children p) false) as [[v|] ->]; [intros c Hc; exact (tree_forall_kids _ _ _ (H p (or_introl eq_refl)) Hc)|eauto|].
  apply IH. intros x Hx. apply H. now right.
Qed.
Lemma inline_table_total tbl : safe tbl = true -> exists r, inline_table_version content tbl = Some r.
Proof.
  intros H. unfold inline_table_version. destruct (should_skip_total tbl H) as [b0 ->]. cbn [bind].
  destruct b0; [eauto|]. apply inline_version_total. intros p Hp. exact (tree_forall_kids _ _ _ H Hp).
Qed.
Lemma cargo_step_total st c : safe c = true -> exists st', cargo_pair_step content st c = Some st'.
Proof.
  intros H. unfold cargo_pair_step.
  destruct (kind_is k_bare_key c); [destruct (nt_total c H) as [t ->]; cbn; eauto|].
  destruct (kind_is k_dotted_key c); [destruct (nt_total c H) as [t ->]; cbn [bind]; destruct (split_once_dot t) as [[]|]; eauto|].
  destruct (kind_is k_string c) eqn:Es.
  - destruct (ps_dotted st && negb (opt_eqb beq (ps_suffix st) (Some k_version))); [eauto|].
    destruct (string_vinfo_total c H Es) as [v ->]. cbn. eauto.
  - destruct (kind_is k_inline_table c); [|eauto]. destruct (inline_table_total c H) as [v ->]. cbn. eauto.
Qed.
Lemma fold_opt_total {S A} (f : S -> A -> option S) l : (forall s x, In x l -> exists s', f s x = Some s') -> forall s, exists s', fold_opt f l s = Some s'.
Proof.
  induction l as [|x t IH]; intros H s; cbn [fold_opt]; [eauto|].
  destruct (H s x (or_introl eq_refl)) as [s' ->]. cbn [bind]. apply IH. intros s0 y Hy. apply H. now right.
Qed.
Lemma cargo_pair_total p : safe p = true -> exists r, cargo_pair content p = Some r.
Proof.
  intros H. unfold cargo_pair. destruct (kind_is k_pair p); cbn [negb]; [|eauto].
  destruct (fold_opt_total (cargo_pair_step content) (n_children p)) with (s := mkPS None None false None) as [st ->].
  - intros s x Hx. apply cargo_step_total. exact (tree_forall_kids _ _ _ H Hx).
  - cbn [bind]. destruct (ps_name st); [|eauto]. destruct (ps_ver st) as [[[[[v s0] e] l] c]|]; eauto.
Qed.
Lemma table_name_total t : safe t = true -> exists r, table_name content t = Some r.
Proof.
  intros H. unfold table_name. destruct (find _ (n_children t)) as [c|] eqn:Ef; [|eauto].
  apply find_some in Ef as [Hin _]. destruct (nt_total c (tree_forall_kids _ _ _ H Hin)) as [s ->]. cbn. eauto.
Qed.
Lemma cargo_table_total t : safe t = true -> exists r, cargo_table content t = Some r.
Proof.
  intros H. unfold cargo_table. destruct (kind_is k_table t); cbn [negb]; [|eauto].
  destruct (n_children t) as [|h rest] eqn:Ec; [eauto|]. destruct (kind_is k_lbracket h); cbn [negb]; [|eauto].
  destruct (table_name_total t H) as [[name|] ->]; cbn [bind]; [|eauto].
  destruct (existsb (beq name) cargo_dependency_tables); [|eauto].
  apply concat_opt_total. intros x Hx. apply cargo_pair_total. apply (tree_forall_kids _ t x H). rewrite Ec. exact Hx.
Qed.
Theorem cargo_toml_total root : safe root = true -> exists r, walk_cargo_toml content root = Some r.
Proof.
  intros H. unfold walk_cargo_toml. apply concat_opt_total. intros x Hx. apply cargo_table_total. exact (tree_forall_kids _ _ _ H Hx).
Qed.

(* ---------- GitHub Actions workflows ---------- *)
Lemma slice_some s a b' : a <= b' -> b' <= blen s -> exists t, slice s a b' = Some t.
Proof. intros H1 H2. unfold slice. apply N.leb_le in H1, H2. rewrite H1, H2. cbn. eauto. Qed.
Lemma find_char_aux_bound c s : forall i p, find_char_aux c s i = Some p -> i <= p /\ p < i + blen s.
Proof.
  induction s as [|x t IH]; intros i p H; [discriminate|]. cbn [find_char_aux] in H. unfold blen. cbn [length].
  destruct (x =? c); [injection H as <-; lia|]. apply IH in H. unfold blen in H. lia.
Qed.
Lemma find_char_bound c s p : find_char c s = Some p -> p < blen s.
Proof. intros H. apply find_char_aux_bound in H. lia. Qed.
Lemma rfind_char_aux_bound c s : forall i last p, (forall q, last = Some q -> q < i) -> rfind_char_aux c s i last = Some p -> p < i + blen s.
Proof.
  induction s as [|x t IH]; intros i last p Hl H; cbn [rfind_char_aux] in H.
  - subst last. specialize (Hl p eq_refl). unfold blen. cbn. lia.
  - unfold blen. cbn [length]. apply IH in H; [unfold blen in H; lia|].
    intros q Hq. destruct (x =? c); [injection Hq as <-; lia|]. specialize (Hl q Hq). lia.
Qed.
Lemma rfind_char_bound c s p : rfind_char c s = Some p -> p < blen s.
Proof. intros H. apply rfind_char_aux_bound in H; [lia|discriminate]. Qed.

Lemma line_comment_total sb : sb <= blen content -> exists r, line_comment content sb = Some r.
Proof.
  intros Hsb. unfold line_comment.
  destruct (slice_some content 0 sb ltac:(lia) Hsb) as [before Hb]. rewrite Hb. cbn [bind].
  destruct (slice_some content sb (blen content) Hsb ltac:(lia)) as [from Hf]. rewrite Hf. cbn [bind].
  assert (blen before = sb) as Lb.
  { unfold slice in Hb. destruct ((0 <=? sb) && (sb <=? blen content)); [|discriminate]. injection Hb as <-.
    unfold blen, firstn_N, skipn_N. cbn [N.to_nat skipn]. rewrite N.sub_0_r, firstn_length. unfold blen in Hsb. lia. }
  assert (blen from = blen content - sb) as Lf.
  { unfold slice in Hf. destruct ((sb <=? blen content) && (blen content <=? blen content)); [|discriminate]. injection Hf as <-.
    unfold blen, firstn_N, skipn_N. rewrite firstn_length, skipn_length. unfold blen in Hsb. lia. }
  set (ls := match rfind_char 10 before with Some p => p + 1 | None => 0 end).
  set (le := match find_char 10 from with Some p => sb + p | None => blen content end).
  assert (ls <= sb) as H1.
  { unfold ls. destruct (rfind_char 10 before) eqn:E; [apply rfind_char_bound in E; lia|lia]. }
  assert (sb <= le /\ le <= blen content) as [H2 H3].
  { unfold le. destruct (find_char 10 from) eqn:E; [apply find_char_bound in E; lia|lia]. }
  destruct (slice_some content ls le ltac:(lia) H3) as [lt ->]. cbn [bind].
  destruct (find_char 35 lt); [|eauto]. destruct (beq (trim (skipn_N (n + 1) lt)) []); eauto.
Qed.
Lemma parse_uses_total value n : safe n = true -> exists r, parse_uses_value content value n = Some r.
Proof.
  intros H. unfold parse_uses_value. destruct (find_char 64 value); [|eauto].
  destruct (split_char 47 (firstn_N n0 value)) as [|owner [|repo rest]]; eauto.
  destruct (is_hash40 (skipn_N (n0 + 1) value)); [|eauto].
  pose proof (tree_forall_self _ _ H) as Hs. unfold node_safe in Hs. apply andb_true_iff in Hs as [Hs _]. apply andb_true_iff in Hs as [Ha Hb].
  apply N.leb_le in Ha, Hb. destruct (line_comment_total (n_sb n) ltac:(lia)) as [ci ->]. cbn. eauto.
Qed.

Lemma gha_in_steps_total : forall n, safe n = true -> exists r, gha_in_steps content n = Some r.
Proof.
  induction n as [k f sb eb r c m ch IHch] using node_ind'. intros H.
  assert (exists below, (fix go (l : list node) : option (list pkg) :=
                           match l with
                           | [] => Some []
                           | c0 :: t => match gha_in_steps content c0, go t with Some a, Some b0 => Some (a ++ b0) | _, _ => None end
                           end) ch = Some below) as [below Hbelow].
  { assert (forall x, In x ch -> safe x = true) as Hk by (intros x Hx; exact (tree_forall_kids _ _ _ H Hx)).
    clear H. induction ch as [|x t IHt]; [eauto|]. inversion IHch as [|? ? Hpx Hpt]; subst.
    destruct (Hpx (Hk x (or_introl eq_refl))) as [rx ->]. destruct (IHt Hpt) as [rt ->]; [intros y Hy; apply Hk; now right|]. eauto. }
  cbn [gha_in_steps]. rewrite Hbelow.
  set (n := Node k f sb eb r c m ch) in *.
  destruct (kind_is k_block_mapping_pair n); [|eauto].
  destruct (child_by_field k_key n) as [kn|] eqn:Ek; [|eauto].
  destruct (npt_total kn (tree_forall_field _ _ _ _ H Ek)) as [key ->]. cbn [bind].
  destruct (beq key gha_uses_key); [|eauto].
  destruct (child_by_field k_value n) as [vn|] eqn:Ev; [|eauto].
  pose proof (tree_forall_field _ _ _ _ H Ev) as Hv.
  destruct (npt_total vn Hv) as [value ->]. cbn [bind].
  destruct (parse_uses_total value vn Hv) as [r0 ->]. eauto.
Qed.
Theorem workflow_total : forall n, safe n = true -> exists r, walk_gha content n = Some r.
Proof.
  induction n as [k f sb eb r c m ch IHch] using node_ind'. intros H.
  assert (exists rec, (fix go (l : list node) : option (list pkg) :=
                         match l with
                         | [] => Some []
                         | c0 :: t => match walk_gha content c0, go t with Some a, Some b0 => Some (a ++ b0) | _, _ => None end
                         end) ch = Some rec) as [rec Hrec].
  { assert (forall x, In x ch -> safe x = true) as Hk by (intros x Hx; exact (tree_forall_kids _ _ _ H Hx)).
    clear H. induction ch as [|x t IHt]; [eauto|]. inversion IHch as [|? ? Hpx Hpt]; subst.
    destruct (Hpx (Hk x (or_introl eq_refl))) as [rx ->]. destruct (IHt Hpt) as [rt ->]; [intros y Hy; apply Hk; now right|]. eauto. }
  cbn [walk_gha]. rewrite Hrec.
  set (n := Node k f sb eb r c m ch) in *.
  destruct (kind_is k_block_mapping_pair n); [|eauto].
  destruct (child_by_field k_key n) as [kn|] eqn:Ek; [|eauto].
  destruct (npt_total kn (tree_forall_field _ _ _ _ H Ek)) as [key ->]. cbn [bind].
  destruct (beq key gha_steps_key); [|eauto].
  destruct (child_by_field k_value n) as [vn|] eqn:Ev; [|eauto].
  apply gha_in_steps_total. exact (tree_forall_field _ _ _ _ H Ev).
Qed.

(* ---------- pnpm-workspace.yaml, pyproject.toml: additionally no value is a lone quote character ---------- *)
Notation unq := (tree_forall (not_lone_quote content)).
Lemma quoted_slice tr : negb (beq tr [34]) && negb (beq tr [39]) = true ->
  ((starts_with [39] tr && ends_with [39] tr) || (starts_with [34] tr && ends_with [34] tr)) = true ->
  exists v, slice tr 1 (blen tr - 1) = Some v.
Proof.
  intros Hq Hs. apply slice_some; unfold blen.
  - destruct tr as [|a [|b0 t]]; cbn [length]; try lia.
    + cbn in Hs. discriminate.
    + exfalso. apply andb_true_iff in Hq as [H1 H2]. apply negb_true_iff in H1, H2.
      apply orb_true_iff in Hs as [Hs|Hs]; apply andb_true_iff in Hs as [Hs _]; cbn in Hs;
        destruct (N.eqb_spec 39 a), (N.eqb_spec 34 a); subst; try discriminate; cbn in *; congruence.
  - lia.
Qed.
Lemma pnpm_entry_total p : safe p = true -> unq p = true -> exists r, pnpm_entry content p = Some r.
Proof.
  intros H Hu. unfold pnpm_entry. destruct (child_by_field k_key p) as [kn|] eqn:Ek; [|eauto].
  destruct (child_by_field k_value p) as [vn|] eqn:Ev; [|eauto].
  destruct (npt_total kn (tree_forall_field _ _ _ _ H Ek)) as [name ->]. cbn [bind].
  pose proof (tree_forall_field _ _ _ _ H Ev) as Hv. pose proof (tree_forall_self _ _ (tree_forall_field _ _ _ _ Hu Ev)) as Hq.
  destruct (nt_total vn Hv) as [raw Hraw]. rewrite Hraw. cbn [bind]. unfold not_lone_quote in Hq. rewrite Hraw in Hq.
  destruct ((starts_with [39] (trim raw) && ends_with [39] (trim raw)) || (starts_with [34] (trim raw) && ends_with [34] (trim raw))) eqn:Eq.
  - destruct (quoted_slice (trim raw) Hq Eq) as [v ->]. cbn [bind]. destruct (beq v []) eqn:Ee; [eauto|].
    unfold quoted_pkg, pred_N. destruct (n_eb vn =? 0) eqn:E0; [|cbn; eauto]. exfalso.
    apply N.eqb_eq in E0. unfold node_text in Hraw. pose proof (slice_length _ _ _ _ Hraw) as Hl. rewrite E0 in Hl.
    assert (raw = []) as -> by (destruct raw; [reflexivity|unfold blen in Hl; cbn in Hl; lia]). cbn in Eq. discriminate.
  - cbn [bind]. destruct (beq (trim raw) []); eauto.
Qed.
Lemma pnpm_mapping_total : forall n, safe n = true -> unq n = true -> exists r, pnpm_mapping content n = Some r.
Proof.
  induction n as [k f sb eb r c m ch IHch] using node_ind'. intros H Hu. cbn [pnpm_mapping].
  assert (forall x, In x ch -> safe x = true /\ unq x = true) as Hk by (intros x Hx; split; [exact (tree_forall_kids _ _ _ H Hx)|exact (tree_forall_kids _ _ _ Hu Hx)]).
  clear H Hu. induction ch as [|x t IHt]; [eauto|]. inversion IHch as [|? ? Hpx Hpt]; subst.
  destruct (Hk x (or_introl eq_refl)) as [Hsx Hux].
  assert (exists here, (if kind_is k_block_mapping x then pnpm_mapping content x else if kind_is k_block_mapping_pair x then pnpm_entry content x else Some []) = Some here) as [here ->].
  { destruct (kind_is k_block_mapping x); [now apply Hpx|]. destruct (kind_is k_block_mapping_pair x); [now apply pnpm_entry_total|eauto]. }
  destruct (IHt Hpt) as [rt ->]; [intros y Hy; apply Hk; now right|]. eauto.
Qed.
Lemma pnpm_named_total n : safe n = true -> unq n = true -> exists r, pnpm_named content n = Some r.
Proof.
  intros H Hu. unfold pnpm_named. apply concat_opt_total. intros c Hc. destruct (kind_is k_block_mapping c); [|eauto].
  pose proof (tree_forall_kids _ _ _ H Hc) as Hsc. pose proof (tree_forall_kids _ _ _ Hu Hc) as Huc.
  apply concat_opt_total. intros cp Hcp. destruct (kind_is k_block_mapping_pair cp); [|eauto].
  destruct (child_by_field k_value cp) as [v|] eqn:Ev; [|eauto].
  apply pnpm_mapping_total; [exact (tree_forall_field _ _ _ _ (tree_forall_kids _ _ _ Hsc Hcp) Ev)|exact (tree_forall_field _ _ _ _ (tree_forall_kids _ _ _ Huc Hcp) Ev)].
Qed.
Theorem pnpm_total : forall n, safe n = true -> unq n = true -> exists r, walk_pnpm content n = Some r.
Proof.
  induction n as [k f sb eb r c m ch IHch] using node_ind'. intros H Hu.
  assert (exists rec, (fix go (l : list node) : option (list pkg) :=
                         match l with
                         | [] => Some []
                         | c0 :: t => match walk_pnpm content c0, go t with Some a, Some b0 => Some (a ++ b0) | _, _ => None end
                         end) ch = Some rec) as [rec Hrec].
  { assert (forall x, In x ch -> safe x = true /\ unq x = true) as Hk by (intros x Hx; split; [exact (tree_forall_kids _ _ _ H Hx)|exact (tree_forall_kids _ _ _ Hu Hx)]).
    clear H Hu. induction ch as [|x t IHt]; [eauto|]. inversion IHch as [|? ? Hpx Hpt]; subst.
    destruct (Hk x (or_introl eq_refl)) as [Hsx Hux]. destruct (Hpx Hsx Hux) as [rx ->]. destruct (IHt Hpt) as [rt ->]; [intros y Hy; apply Hk; now right|]. eauto. }
  cbn [walk_pnpm]. rewrite Hrec.
  set (n := Node k f sb eb r c m ch) in *.
  destruct (kind_is k_block_mapping_pair n); [|eauto].
  destruct (child_by_field k_key n) as [kn|] eqn:Ek; [|eauto].
  destruct (npt_total kn (tree_forall_field _ _ _ _ H Ek)) as [key ->]. cbn [bind].
  destruct (beq key pnpm_catalog_key).
  - destruct (child_by_field k_value n) as [vn|] eqn:Ev; [|eauto].
    apply pnpm_mapping_total; [exact (tree_forall_field _ _ _ _ H Ev)|exact (tree_forall_field _ _ _ _ Hu Ev)].
  - destruct (beq key pnpm_catalogs_key); [|eauto].
    destruct (child_by_field k_value n) as [vn|] eqn:Ev; [|eauto].
    apply pnpm_named_total; [exact (tree_forall_field _ _ _ _ H Ev)|exact (tree_forall_field _ _ _ _ Hu Ev)].
Qed.

(* ---------- pyproject.toml: also, the PEP 508 reader does not panic ---------- *)
Section Py.
Variable pep508 : bytes -> pep.
Hypothesis pep_no_panic : forall s, pep508 s <> PepPanic.

Lemma py_dep_total dep n : safe n = true -> kind_is k_string n = true -> exists r, py_dep pep508 content dep n = Some r.
Proof.
  intros H Hk. unfold py_dep. destruct (pep508 dep) eqn:Ep; [eauto|exfalso; exact (pep_no_panic dep Ep)|eauto|].
  destruct (nt_total n H) as [t ->]. cbn [bind].
  destruct (safe_string_end content n (tree_forall_self _ _ H) Hk) as [e ->]. cbn [bind].
  match goal with |- context [let '(s0, e0) := ?x in _] => destruct x as [s1 e1] end. eauto.
Qed.
Lemma strip_outer_total tr : negb (beq tr [34]) && negb (beq tr [39]) = true -> exists d, strip_outer_quotes tr = Some d.
Proof.
  intros Hq. unfold strip_outer_quotes.
  destruct ((starts_with [34] tr && ends_with [34] tr) || (starts_with [39] tr && ends_with [39] tr)) eqn:E; [|eauto].
  apply quoted_slice; [exact Hq|]. rewrite orb_comm. exact E.
Qed.
Lemma py_array_total arr : safe arr = true -> unq arr = true -> exists r, py_array pep508 content arr = Some r.
Proof.
  intros H Hu. unfold py_array. apply concat_opt_total. intros c Hc. destruct (kind_is k_string c) eqn:Ek; cbn [negb]; [|eauto].
  pose proof (tree_forall_kids _ _ _ H Hc) as Hsc. pose proof (tree_forall_self _ _ (tree_forall_kids _ _ _ Hu Hc)) as Hq.
  destruct (nt_total c Hsc) as [t Ht]. rewrite Ht. cbn [bind]. unfold not_lone_quote in Hq. rewrite Ht in Hq.
  destruct (strip_outer_total (trim t) Hq) as [d ->]. cbn [bind]. now apply py_dep_total.
Qed.
Lemma py_key_scan_total key cs : forall b0, (forall c, In c cs -> safe c = true /\ unq c = true) -> exists r, py_key_scan pep508 content key cs b0 = Some r.
Proof.
  induction cs as [|c t IH]; intros b0 H; cbn [py_key_scan]; [eauto|].
  destruct (H c (or_introl eq_refl)) as [Hs Hu].
  destruct (kind_is k_bare_key c).
  - destruct (nt_total c Hs) as [k ->]. cbn [bind]. apply IH. intros x Hx. apply H. now right.
  - destruct (kind_is k_array c && b0).
    + destruct (py_array_total c Hs Hu) as [a ->]. destruct (IH b0) as [r ->]; [intros x Hx; apply H; now right|]. eauto.
    + apply IH. intros x Hx. apply H. now right.
Qed.
Lemma py_table_total t : safe t = true -> unq t = true -> exists r, py_table pep508 content t = Some r.
Proof.
  intros H Hu. unfold py_table. destruct (kind_is k_table t); cbn [negb]; [|eauto].
  destruct (n_children t) as [|h rest] eqn:Ec; [eauto|]. destruct (kind_is k_lbracket h); cbn [negb]; [|eauto].
  destruct (table_name_total t H) as [[name|] ->]; cbn [bind]; [|eauto].
  destruct (find (fun r => beq (fst r) name) pyproject_tables) as [[tn [|k0 key]]|]; [| |eauto].
  - unfold py_all_arrays. apply concat_opt_total. intros p Hp. destruct (kind_is k_pair p); [|eauto].
    apply concat_opt_total. intros c Hc. destruct (kind_is k_array c); [|eauto].
    apply py_array_total; [exact (tree_forall_kids _ _ _ (tree_forall_kids _ _ _ H Hp) Hc)|exact (tree_forall_kids _ _ _ (tree_forall_kids _ _ _ Hu Hp) Hc)].
  - unfold py_key_array. apply concat_opt_total. intros p Hp. destruct (kind_is k_pair p); [|eauto].
    apply py_key_scan_total. intros c Hc. split; [exact (tree_forall_kids _ _ _ (tree_forall_kids _ _ _ H Hp) Hc)|exact (tree_forall_kids _ _ _ (tree_forall_kids _ _ _ Hu Hp) Hc)].
Qed.
Theorem pyproject_total root : safe root = true -> unq root = true -> exists r, walk_pyproject pep508 content root = Some r.
Proof.
  intros H Hu. unfold walk_pyproject. apply concat_opt_total. intros x Hx.
  apply py_table_total; [exact (tree_forall_kids _ _ _ H Hx)|exact (tree_forall_kids _ _ _ Hu Hx)].
Qed.
End Py.
End Safe.

(* what tree-sitter guarantees, plus string tokens spanning their delimiters, gives node_safe everywhere *)
Lemma wf_gives_safe content : forall n lo hi, wf_node content lo hi n = true -> hi <= blen content -> string_nodes_ok content n = true ->
  tree_forall (node_safe content) n = true.
Proof.
  induction n as [k f sb eb r c m ch IHch] using node_ind'. intros lo hi Hwf Hhi Hs.
  pose proof (wf_node_ok _ _ _ _ Hwf Hhi) as [[H1 [H2 _]] [_ H3]]. cbn [n_sb n_eb] in *.
  rewrite tree_forall_eq. apply andb_true_iff. split.
  - unfold node_safe. cbn [n_sb n_eb n_kind]. apply andb_true_iff. split; [apply andb_true_iff; split; apply N.leb_le; lia|].
    cbn [string_nodes_ok] in Hs. apply andb_true_iff in Hs as [Hs _].
    destruct (beq k [115;116;114;105;110;103]); [|reflexivity]. apply andb_true_iff in Hs as [Hs _]. apply N.leb_le in Hs.
    apply negb_true_iff. apply N.eqb_neq. lia.
  - cbn [wf_node] in Hwf. apply andb_true_iff in Hwf as [_ Hch].
    cbn [string_nodes_ok] in Hs. apply andb_true_iff in Hs as [_ Hsch].
    revert Hch Hsch. generalize sb at 1. induction ch as [|x t IHt]; intros lo' Hch Hsch; [reflexivity|].
    apply andb_true_iff in Hch as [Hx Ht]. apply andb_true_iff in Hsch as [Hsx Hst]. inversion IHch as [|? ? Hpx Hpt]; subst.
    cbn [forallb]. apply andb_true_iff. split; [apply (Hpx lo' eb Hx ltac:(lia) Hsx)|apply (IHt Hpt (n_eb x) Ht Hst)].
Qed.
Theorem wf_cst_safe content root : wf_cst content root = true -> string_nodes_ok content root = true -> tree_forall (node_safe content) root = true.
Proof. intros H Hs. apply (wf_gives_safe content root 0 (blen content) H); [lia|exact Hs]. Qed.
