(* C03: what "latest" is. *)
From Coq Require Import ZArith Permutation.
From VL Require Import Lib.Bytes Lib.SemVer Model.SemverUtil Model.CacheDb Spec.AbsCache
  Proofs.SemVerOrder Proofs.GoGhaProofs Proofs.OrderProofs Proofs.CacheProofs.

Lemma max_by_in l r : max_by_parsed l = Some r -> In r l.
Proof.
  revert r; induction l as [|x l IH]; intros r H; cbn in H; [discriminate|].
  destruct (max_by_parsed l) as [m|] eqn:E.
  - destruct (vcmp (snd x) (snd m)); inversion H; subst; try (left; reflexivity); right; apply IH; reflexivity.
  - inversion H. left. reflexivity.
Qed.

Lemma max_by_some l : l <> [] -> exists r, max_by_parsed l = Some r.
Proof.
  destruct l as [|x l]; [contradiction|]. intros _. cbn.
  destruct (max_by_parsed l) as [m|]; [destruct (vcmp (snd x) (snd m))|]; eauto.
Qed.

Lemma max_by_upper l r : max_by_parsed l = Some r -> forall x, In x l -> vcmp (snd x) (snd r) <> Gt.
Proof.
  revert r; induction l as [|y l IH]; intros r H x Hx; [destruct Hx|].
  cbn in H. destruct (max_by_parsed l) as [m|] eqn:E.
  - destruct (vcmp (snd y) (snd m)) eqn:C; inversion H; subst r; clear H.
    + destruct Hx as [<- | Hx]; [rewrite C; discriminate | apply (IH m eq_refl x Hx)].
    + destruct Hx as [<- | Hx]; [rewrite C; discriminate | apply (IH m eq_refl x Hx)].
    + destruct Hx as [<- | Hx].
      * rewrite (o_refl vcmp vcmp_order). discriminate.
      * apply (order_le_trans vcmp (snd x) (snd m) (snd y) vcmp_order).
        -- apply (IH m eq_refl x Hx).
        -- intro G. apply (order_gt_lt vcmp _ _ vcmp_order) in G. rewrite (order_gt_lt vcmp _ _ vcmp_order) in C.
           pose proof (o_trans vcmp vcmp_order _ _ _ G C) as T. rewrite (o_refl vcmp vcmp_order) in T. discriminate.
  - inversion H; subst r. destruct Hx as [<- | Hx].
    + rewrite (o_refl vcmp vcmp_order). discriminate.
    + destruct l; [destruct Hx | cbn in E; destruct (max_by_parsed l); [destruct (vcmp _ _)|]; discriminate].
Qed.

(* two maxima of permuted lists denote the same version *)
Lemma max_by_perm l l' r r' :
  Permutation l l' -> max_by_parsed l = Some r -> max_by_parsed l' = Some r' -> snd r = snd r'.
Proof.
  intros P H H'.
  pose proof (max_by_upper l r H r' (Permutation_in _ (Permutation_sym P) (max_by_in l' r' H'))) as A.
  pose proof (max_by_upper l' r' H' r (Permutation_in _ P (max_by_in l r H))) as B.
  destruct (vcmp (snd r) (snd r')) eqn:C.
  - apply (o_eq vcmp vcmp_order). exact C.
  - exfalso. apply A. apply (order_gt_lt vcmp _ _ vcmp_order). exact C.
  - contradiction.
Qed.

Lemma max_by_perm_none l l' : Permutation l l' -> max_by_parsed l = None -> max_by_parsed l' = None.
Proof.
  intros P H. destruct l as [|x l].
  - apply Permutation_nil in P. subst. reflexivity.
  - destruct (max_by_some (x :: l)) as [r Hr]; [discriminate | congruence].
Qed.

(* ---- candidates ---- *)
Definition admissible (ign : bool) (p : version) : Prop := ign = true -> pre p = [].

Lemma candidates_in ign vs v p :
  In (v, p) (candidates ign vs) <-> In v vs /\ parse_version v = Some p /\ admissible ign p.
Proof.
  unfold candidates, admissible. rewrite in_flat_map. split.
  - intros [w [Hw Hin]]. destruct (parse_version w) as [q|] eqn:E; [|destruct Hin].
    destruct ign; cbn [andb] in Hin.
    + destruct (pre q) eqn:Ep; cbn in Hin; [|destruct Hin]. destruct Hin as [[= <- <-] | []]. auto.
    + destruct Hin as [[= <- <-] | []]. split; [exact Hw|]. split; [exact E | discriminate].
  - intros [Hv [Hp Ha]]. exists v. split; [exact Hv|]. rewrite Hp.
    destruct ign; cbn [andb]; [rewrite (Ha eq_refl); cbn|]; left; reflexivity.
Qed.

Lemma candidates_perm ign vs vs' : Permutation vs vs' -> Permutation (candidates ign vs) (candidates ign vs').
Proof.
  intro P. unfold candidates. induction P; cbn [flat_map].
  - constructor.
  - apply Permutation_app_head. exact IHP.
  - rewrite !app_assoc. apply Permutation_app_tail. apply Permutation_app_comm.
  - eapply Permutation_trans; eauto.
Qed.

(* ---- the theorems about a_latest ---- *)
Theorem latest_tag_first ign e v : a_tag_of tag_latest e = Some v -> a_latest ign e = Some v.
Proof. intro H. unfold a_latest. rewrite H. reflexivity. Qed.

Theorem latest_member ign e v :
  a_latest ign e = Some v -> a_tag_of tag_latest e = Some v \/ In v (a_versions_of e).
Proof.
  unfold a_latest. destruct (a_tag_of tag_latest e); [intros [= <-]; left; reflexivity|].
  destruct (max_by_parsed _) as [[w p]|] eqn:E; [|discriminate]. intros [= <-].
  apply max_by_in in E. apply candidates_in in E. right. tauto.
Qed.

Theorem latest_is_max ign e v :
  a_tag_of tag_latest e = None -> a_latest ign e = Some v ->
  exists pv, parse_version v = Some pv /\ admissible ign pv /\
    forall w pw, In w (a_versions_of e) -> parse_version w = Some pw -> admissible ign pw -> vcmp pw pv <> Gt.
Proof.
  unfold a_latest. intros -> H.
  destruct (max_by_parsed _) as [[w p]|] eqn:E; [|discriminate]. inversion H; subst w; clear H.
  pose proof (max_by_in _ _ E) as Hin. apply candidates_in in Hin as [Hv [Hp Ha]].
  exists p. repeat split; try assumption.
  intros w pw Hw Hpw Haw. apply (max_by_upper _ _ E (w, pw)). apply candidates_in. auto.
Qed.

Theorem latest_none_iff ign e :
  a_tag_of tag_latest e = None ->
  (a_latest ign e = None <-> forall w pw, In w (a_versions_of e) -> parse_version w = Some pw -> ~ admissible ign pw).
Proof.
  unfold a_latest. intros ->. split.
  - intros H w pw Hw Hp Ha. destruct (max_by_parsed _) eqn:E; [discriminate|].
    assert (Hin : In (w, pw) (candidates ign (a_versions_of e))) by (apply candidates_in; auto).
    destruct (candidates ign (a_versions_of e)) as [|c l] eqn:Ec; [destruct Hin|].
    destruct (max_by_some (c :: l)) as [r Hr]; [discriminate | congruence].
  - intros H. destruct (max_by_parsed _) as [[w p]|] eqn:E; [|reflexivity].
    apply max_by_in in E. apply candidates_in in E as [Hv [Hp Ha]]. exfalso. eapply H; eauto.
Qed.

Definition same_spelling_class (a b : option bytes) : Prop :=
  match a, b with
  | None, None => True
  | Some x, Some y => x = y \/ (exists p, parse_version x = Some p /\ parse_version y = Some p)
  | _, _ => False
  end.

Theorem latest_perm ign e e' :
  a_tags_of e = a_tags_of e' -> Permutation (a_versions_of e) (a_versions_of e') ->
  same_spelling_class (a_latest ign e) (a_latest ign e').
Proof.
  intros Ht Pv. unfold a_latest.
  assert (Htag : a_tag_of tag_latest e = a_tag_of tag_latest e').
  { unfold a_tag_of. unfold a_tags_of in Ht. destruct e as [x|], e' as [y|]; cbn in *; try rewrite Ht; try reflexivity;
      try (rewrite <- Ht; reflexivity). }
  rewrite <- Htag. destruct (a_tag_of tag_latest e); [left; reflexivity|].
  pose proof (candidates_perm ign _ _ Pv) as Pc.
  destruct (max_by_parsed (candidates ign (a_versions_of e))) as [[w p]|] eqn:E.
  - destruct (max_by_parsed (candidates ign (a_versions_of e'))) as [[w' p']|] eqn:E'.
    + cbn. right. pose proof (max_by_perm _ _ _ _ Pc E E') as Hs. cbn in Hs. subst p'.
      apply max_by_in in E, E'. apply candidates_in in E, E'. exists p. tauto.
    + pose proof (max_by_perm_none _ _ (Permutation_sym Pc) E'). congruence.
  - rewrite (max_by_perm_none _ _ Pc E). exact I.
Qed.

(* ---- lifted to histories of the real tables ---- *)
Theorem latest_of_history T ign ops k :
  get_latest_version ign k (c_run T ops) = a_latest ign (a_run T ops k).
Proof. rewrite get_latest_abs. destruct (cache_refines_run T ops) as [_ H]. rewrite H. reflexivity. Qed.

Theorem latest_order_independent T ign ops ops' k :
  (forall v, stored_in k v ops <-> stored_in k v ops') -> last_tags k ops = last_tags k ops' ->
  same_spelling_class (get_latest_version ign k (c_run T ops)) (get_latest_version ign k (c_run T ops')).
Proof.
  intros Hs Ht. rewrite !latest_of_history. apply latest_perm.
  - rewrite !tags_exact. exact Ht.
  - destruct (versions_exact T ops k) as [N1 I1], (versions_exact T ops' k) as [N2 I2].
    apply NoDup_Permutation; try assumption. intro v. rewrite I1, I2. apply Hs.
Qed.

Theorem latest_isolated T ign ops k :
  get_latest_version ign k (c_run T ops) =
  a_latest ign (a_run T (filter (fun o => key_eqb (op_key o) k) ops) k).
Proof. rewrite latest_of_history. unfold a_run. rewrite a_run_isolated. reflexivity. Qed.
