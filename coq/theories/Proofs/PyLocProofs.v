(* C05 for pyproject.toml, structural part: every location the walk reports is non-inverted and inside the document.
   The spec itself comes from pep508_rs, an oracle of the model, while the range is found by searching the token text for
   the first version operator and the first ';' - so the statement needs two facts about how that library relates a
   requirement text to what it returns ([pep_sane]: a requirement with a specifier has its first operator before any
   ';', and a name no longer than the text when no operator is found).  They are evaluated on the real answers of
   pep508_rs on every requirement string of a run (Run.ManifestOracle.pep_sane_b). *)
From Coq Require Import ZArith Lia.
From VL Require Import Lib.Bytes Lib.Text Lib.Cst Gen.GenParsers Model.Walks Proofs.CstProofs Proofs.TotalProofs Proofs.GhaLocProofs.

Definition inner_of (text : bytes) : bytes := trim_end_char 39 (trim_end_char 34 (trim_start_char 39 (trim_start_char 34 text))).
Definition first_op (inner : bytes) : N := fold_left (fun acc op => min_opt acc (find_str op inner)) pyproject_version_ops (blen inner).
Definition semi_or_end (inner : bytes) : N := match find_char 59 inner with Some p => p | None => blen inner end.
Definition pep_sane_at (text name spec : bytes) : bool :=
  beq spec [] ||
  (let inner := inner_of text in
   if blen inner <=? first_op inner then blen name <=? blen inner else first_op inner <=? semi_or_end inner).
(* a string token as tree-sitter-toml produces it: at least two bytes, the first one a quote character *)
Definition quoted_token (content : bytes) (n : node) : bool :=
  if kind_is k_string n then
    match node_text content n with
    | Some (q :: _ :: _) => (q =? 34) || (q =? 39)
    | _ => false
    end
  else true.

(* ---------- lengths ---------- *)
Lemma drop_while_len f (s : bytes) : (length (drop_while f s) <= length s)%nat.
Proof. induction s as [|x t IH]; cbn [drop_while]; [lia|]. destruct (f x); cbn [length]; lia. Qed.
Lemma trim_start_len c s : blen (trim_start_char c s) <= blen s.
Proof. unfold trim_start_char, blen. pose proof (drop_while_len (N.eqb c) s). lia. Qed.
Lemma trim_end_len c s : blen (trim_end_char c s) <= blen s.
Proof. unfold trim_end_char, blen. rewrite rev_length. pose proof (drop_while_len (N.eqb c) (rev s)). rewrite rev_length in H. lia. Qed.
Lemma trim_start_strict c r : blen (trim_start_char c (c :: r)) + 1 <= blen (c :: r).
Proof.
  unfold trim_start_char. cbn [drop_while]. rewrite N.eqb_refl. pose proof (drop_while_len (N.eqb c) r). unfold blen. cbn [length]. lia.
Qed.
Lemma inner_shorter q r : q = 34 \/ q = 39 -> blen (inner_of (q :: r)) + 1 <= blen (q :: r).
Proof.
  intros Hq. unfold inner_of.
  set (t1 := trim_start_char 34 (q :: r)). set (t2 := trim_start_char 39 t1). set (t3 := trim_end_char 34 t2).
  pose proof (trim_end_len 39 t3) as A. pose proof (trim_end_len 34 t2) as B. fold t3 in B.
  assert (blen t2 + 1 <= blen (q :: r)) as C.
  { unfold t2, t1. destruct Hq as [-> | ->].
    - pose proof (trim_start_len 39 (trim_start_char 34 (34 :: r))) as C. pose proof (trim_start_strict 34 r) as D.
      apply (N.le_trans _ (blen (trim_start_char 34 (34 :: r)) + 1)); [apply N.add_le_mono_r; exact C|exact D].
    - assert (trim_start_char 34 (39 :: r) = 39 :: r) as -> by reflexivity. apply trim_start_strict. }
  apply (N.le_trans _ (blen t2 + 1)); [apply N.add_le_mono_r; apply (N.le_trans _ (blen t3)); assumption|exact C].
Qed.
Lemma semi_le inner : semi_or_end inner <= blen inner.
Proof. unfold semi_or_end. destruct (find_char 59 inner) as [p|] eqn:E; [apply find_char_lt in E; lia|lia]. Qed.

(* ---------- one requirement string ---------- *)
Section Py.
Variable content : bytes.
Variable pep508 : bytes -> pep.
Hypothesis pep_sane : forall text dep name spec,
  strip_outer_quotes (trim text) = Some dep -> pep508 dep = PepSpec name spec -> pep_sane_at text name spec = true.

Definition loc_sound (p : pkg) : Prop := p_start p <= p_end p /\ p_end p <= blen content.

Lemma py_dep_loc dep n text pkgs :
  node_safe content n = true -> quoted_token content n = true -> kind_is k_string n = true ->
  node_text content n = Some text -> strip_outer_quotes (trim text) = Some dep ->
  py_dep pep508 content dep n = Some pkgs -> Forall loc_sound pkgs.
Proof.
  intros Hs Hq Hk Ht Hd H. unfold py_dep in H.
  destruct (pep508 dep) as [| | |name spec] eqn:Ep; try (injection H as <-; constructor); [discriminate|].
  pose proof (pep_sane text dep name spec Hd Ep) as Hsane.
  rewrite Ht in H. cbn [bind] in H. unfold pred_N in H. destruct (n_eb n =? 0) eqn:E0; [discriminate|]. cbn [bind] in H.
  apply N.eqb_neq in E0.
  unfold node_safe in Hs. apply andb_true_iff in Hs as [Hs _]. apply andb_true_iff in Hs as [S1 S2]. apply N.leb_le in S1, S2.
  unfold quoted_token in Hq. rewrite Hk, Ht in Hq. destruct text as [|q [|x r]]; try discriminate.
  assert (q = 34 \/ q = 39) as Hq' by (apply orb_true_iff in Hq as [E|E]; apply N.eqb_eq in E; tauto).
  unfold node_text in Ht. pose proof (slice_length _ _ _ _ Ht) as Hlen.
  assert (2 <= blen (q :: x :: r)) as H2 by (unfold blen; cbn [length]; lia).
  pose proof (inner_shorter q (x :: r) Hq') as Hin. fold (inner_of (q :: x :: r)) in H. set (inner := inner_of (q :: x :: r)) in *.
  unfold pep_sane_at in Hsane. fold inner in Hsane. fold (first_op inner) in H. fold (semi_or_end inner) in H.
  destruct (beq spec []) eqn:Es.
  - injection H as <-. constructor; [|constructor]. unfold loc_sound. cbn [p_start p_end]. lia.
  - cbn [orb] in Hsane. destruct (blen inner <=? first_op inner) eqn:El.
    + apply N.leb_le in Hsane. injection H as <-. constructor; [|constructor]. unfold loc_sound. cbn [p_start p_end]. lia.
    + apply N.leb_le in Hsane. apply N.leb_gt in El. pose proof (semi_le inner) as Hse.
      injection H as <-. constructor; [|constructor]. unfold loc_sound. cbn [p_start p_end]. lia.
Qed.

(* ---------- the walk ---------- *)
Notation safe := (tree_forall (node_safe content)).
Notation quo := (tree_forall (quoted_token content)).

Lemma py_array_loc arr pk : safe arr = true -> quo arr = true -> py_array pep508 content arr = Some pk -> Forall loc_sound pk.
Proof.
  intros H Hu. unfold py_array. apply concat_forall. apply Forall_forall. intros c Hc pc Hpc.
  destruct (kind_is k_string c) eqn:Ek; cbn [negb] in Hpc; [|injection Hpc as <-; constructor].
  pose proof (tree_forall_self _ _ (tree_forall_kids _ _ _ H Hc)) as Hs. pose proof (tree_forall_self _ _ (tree_forall_kids _ _ _ Hu Hc)) as Hq.
  destruct (node_text content c) as [t|] eqn:Et; [|discriminate]. cbn [bind] in Hpc.
  destruct (strip_outer_quotes (trim t)) as [d|] eqn:Ed; [|discriminate]. cbn [bind] in Hpc.
  exact (py_dep_loc d c t pc Hs Hq Ek Et Ed Hpc).
Qed.
Lemma py_key_scan_loc key cs : forall b0 pk, (forall c, In c cs -> safe c = true /\ quo c = true) ->
  py_key_scan pep508 content key cs b0 = Some pk -> Forall loc_sound pk.
Proof.
  induction cs as [|c t IH]; intros b0 pk H Hpk; cbn [py_key_scan] in Hpk; [injection Hpk as <-; constructor|].
  assert (forall x, In x t -> safe x = true /\ quo x = true) as Ht by (intros x Hx; apply H; now right).
  destruct (kind_is k_bare_key c).
  - destruct (node_text content c) as [k|]; [|discriminate]. cbn [bind] in Hpk. exact (IH _ _ Ht Hpk).
  - destruct (kind_is k_array c && b0).
    + destruct (py_array pep508 content c) as [a|] eqn:Ea; [|discriminate]. destruct (py_key_scan pep508 content key t b0) as [b|] eqn:Eb; [|discriminate].
      injection Hpk as <-. destruct (H c (or_introl eq_refl)) as [Hs Hq]. apply Forall_app. split; [exact (py_array_loc c a Hs Hq Ea)|exact (IH _ _ Ht Eb)].
    + exact (IH _ _ Ht Hpk).
Qed.
Lemma py_table_loc t pk : safe t = true -> quo t = true -> py_table pep508 content t = Some pk -> Forall loc_sound pk.
Proof.
  intros H Hu. unfold py_table. destruct (kind_is k_table t); cbn [negb]; [|intros [= <-]; constructor].
  destruct (n_children t) as [|h rest] eqn:Ech; [intros [= <-]; constructor|].
  destruct (kind_is k_lbracket h); cbn [negb]; [|intros [= <-]; constructor].
  destruct (table_name content t) as [nm|]; [|discriminate]. cbn [bind]. destruct nm as [name|]; [|intros [= <-]; constructor].
  destruct (find (fun r => beq (fst r) name) pyproject_tables) as [[tn [|k0 key]]|]; [| |intros [= <-]; constructor].
  - unfold py_all_arrays. apply concat_forall. apply Forall_forall. intros p Hp pc Hpc.
    destruct (kind_is k_pair p); [|injection Hpc as <-; constructor].
    revert pc Hpc. apply concat_forall. apply Forall_forall. intros c Hc pc Hpc.
    destruct (kind_is k_array c); [|injection Hpc as <-; constructor].
    exact (py_array_loc c pc (tree_forall_kids _ _ _ (tree_forall_kids _ _ _ H Hp) Hc) (tree_forall_kids _ _ _ (tree_forall_kids _ _ _ Hu Hp) Hc) Hpc).
  - unfold py_key_array. apply concat_forall. apply Forall_forall. intros p Hp pc Hpc.
    destruct (kind_is k_pair p); [|injection Hpc as <-; constructor].
    apply (py_key_scan_loc (k0 :: key) (n_children p) false pc); [|exact Hpc].
    intros c Hc. split; [exact (tree_forall_kids _ _ _ (tree_forall_kids _ _ _ H Hp) Hc)|exact (tree_forall_kids _ _ _ (tree_forall_kids _ _ _ Hu Hp) Hc)].
Qed.
Theorem pyproject_locations root pkgs : safe root = true -> quo root = true ->
  walk_pyproject pep508 content root = Some pkgs -> Forall loc_sound pkgs.
Proof.
  intros H Hu. unfold walk_pyproject. apply concat_forall. apply Forall_forall. intros x Hx pc Hpc.
  exact (py_table_loc x pc (tree_forall_kids _ _ _ H Hx) (tree_forall_kids _ _ _ Hu Hx) Hpc).
Qed.
End Py.
