(* The derived Ord of semver::Version, as modelled by Lib.SemVer.vcmp, is a total
   order; consequences for "maximum" computations (C03, C07). *)
From VL Require Import Lib.Bytes Lib.SemVer Proofs.SemVerOrder Proofs.GoGhaProofs.

Record is_order {A} (cmp : A -> A -> comparison) : Prop := {
  o_refl : forall x, cmp x x = Eq;
  o_eq : forall x y, cmp x y = Eq -> x = y;
  o_anti : forall x y, cmp x y = CompOpp (cmp y x);
  o_trans : forall x y z, cmp x y = Lt -> cmp y z = Lt -> cmp x z = Lt }.

Lemma N_order : is_order N.compare.
Proof.
  split.
  - apply N.compare_refl.
  - apply N.compare_eq.
  - intros x y. apply N.compare_antisym.
  - intros x y z. rewrite !N.compare_lt_iff. lia.
Qed.

(* lexicographic product *)
Definition pcmp {A B} (ca : A -> A -> comparison) (cb : B -> B -> comparison) (x y : A * B) : comparison :=
  then_cmp (ca (fst x) (fst y)) (cb (snd x) (snd y)).

Lemma pair_order {A B} (ca : A -> A -> comparison) (cb : B -> B -> comparison) :
  is_order ca -> is_order cb -> is_order (pcmp ca cb).
Proof.
  intros [ra ea aa ta] [rb eb ab tb]. unfold pcmp. split.
  - intros [a b]. cbn. rewrite ra. cbn. apply rb.
  - intros [a b] [a' b']. cbn. intro H. apply then_cmp_eq in H as [H1 H2]. f_equal; auto.
  - intros [a b] [a' b']. cbn. rewrite (aa a a'), (ab b b'). destruct (ca a' a), (cb b' b); reflexivity.
  - intros [a b] [a' b'] [a'' b'']. cbn. intros H1 H2.
    destruct (ca a a') eqn:E1; cbn in H1; try discriminate.
    + apply ea in E1. subst a'. destruct (ca a a'') eqn:E2; cbn in *; try discriminate; [eapply tb; eauto | reflexivity].
    + destruct (ca a' a'') eqn:E2; cbn in H2; try discriminate.
      * apply ea in E2. subst a''. rewrite E1. reflexivity.
      * rewrite (ta a a' a'' E1 E2). reflexivity.
Qed.

(* lexicographic order on lists *)
Fixpoint lex {A} (c : A -> A -> comparison) (a b : list A) : comparison :=
  match a, b with
  | [], [] => Eq
  | [], _ :: _ => Lt
  | _ :: _, [] => Gt
  | x :: a', y :: b' => then_cmp (c x y) (lex c a' b')
  end.

Lemma lex_order {A} (c : A -> A -> comparison) : is_order c -> is_order (lex c).
Proof.
  intros [r e a t]. split.
  - induction x as [|x l IH]; cbn; [reflexivity|]. rewrite r. exact IH.
  - induction x as [|x l IH]; intros [|y l']; cbn; intro H; try reflexivity; try discriminate.
    apply then_cmp_eq in H as [H1 H2]. f_equal; auto.
  - induction x as [|x l IH]; intros [|y l']; cbn; try reflexivity.
    rewrite (a x y), (IH l'). destruct (c y x), (lex c l' l); reflexivity.
  - induction x as [|x l IH]; intros [|y l'] [|z l'']; cbn; intros H1 H2; try discriminate; try reflexivity.
    destruct (c x y) eqn:E1; cbn in H1; try discriminate.
    + apply e in E1. subst y. destruct (c x z) eqn:E2; cbn in *; try discriminate; [eapply IH; eauto | reflexivity].
    + destruct (c y z) eqn:E2; cbn in H2; try discriminate.
      * apply e in E2. subst z. rewrite E1. reflexivity.
      * rewrite (t x y z E1 E2). reflexivity.
Qed.

(* an order pulled back along an injective embedding *)
Lemma embed_order {A B} (f : A -> B) (c : B -> B -> comparison) :
  (forall x y, f x = f y -> x = y) -> is_order c -> is_order (fun x y => c (f x) (f y)).
Proof.
  intros Hinj [r e a t]. split; intros.
  - apply r.
  - apply Hinj. apply e. assumption.
  - apply a.
  - eapply t; eauto.
Qed.

Lemma order_ext {A} (c c' : A -> A -> comparison) :
  (forall x y, c x y = c' x y) -> is_order c -> is_order c'.
Proof.
  intros H [r e a t]. split; intros.
  - rewrite <- H. apply r.
  - apply e. rewrite H. assumption.
  - rewrite <- !H. apply a.
  - rewrite <- H in *. eapply t; eauto.
Qed.

Lemma bcmp_is_lex a b : bcmp a b = lex N.compare a b.
Proof.
  revert b; induction a as [|x a IH]; intros [|y b]; cbn; try reflexivity.
  rewrite IH. destruct (N.compare x y); reflexivity.
Qed.
Lemma bcmp_order : is_order bcmp.
Proof. apply (order_ext (lex N.compare)); [intros; symmetry; apply bcmp_is_lex | apply lex_order, N_order]. Qed.

(* ---- prerelease identifiers ---- *)
Definition seg_key (s : bytes) : N * (N * bytes) :=
  if all_digits s then (0, (blen s, s)) else (1, (0, s)).
Definition seg_cmp (x y : bytes) : comparison :=
  pcmp N.compare (pcmp N.compare bcmp) (seg_key x) (seg_key y).

Lemma seg_cmp_order : is_order seg_cmp.
Proof.
  unfold seg_cmp. apply (embed_order seg_key (pcmp N.compare (pcmp N.compare bcmp))).
  - intros x y H. unfold seg_key in H. destruct (all_digits x), (all_digits y); inversion H; reflexivity.
  - apply pair_order; [apply N_order|]. apply pair_order; [apply N_order | apply bcmp_order].
Qed.

Lemma cmp_pre_segs_is_lex a b : cmp_pre_segs a b = lex seg_cmp a b.
Proof.
  revert b; induction a as [|x a IH]; intros [|y b]; cbn [cmp_pre_segs lex]; try reflexivity.
  rewrite IH. unfold seg_cmp, seg_key, pcmp.
  destruct (all_digits x), (all_digits y); cbn [fst snd N.compare then_cmp]; try reflexivity.
  all: try (destruct (N.compare (blen x) (blen y)); cbn; try reflexivity; destruct (bcmp x y); reflexivity).
  all: try (destruct (bcmp x y); reflexivity).
Qed.

Definition pre_key (p : bytes) : N * list bytes :=
  match p with [] => (1, []) | _ => (0, split_char 46 p) end.

Lemma cmp_pre_order : is_order cmp_pre.
Proof.
  apply (order_ext (fun x y => pcmp N.compare (lex seg_cmp) (pre_key x) (pre_key y))).
  - intros x y. unfold pre_key, pcmp. destruct x as [|c x], y as [|d y]; cbn [fst snd cmp_pre]; try reflexivity.
    cbn [N.compare then_cmp]. symmetry. apply cmp_pre_segs_is_lex.
  - apply (embed_order pre_key (pcmp N.compare (lex seg_cmp))).
    + intros x y H. unfold pre_key in H. destruct x as [|c x], y as [|d y]; inversion H; try reflexivity.
      apply split_char_inj in H1. exact H1.
    + apply pair_order; [apply N_order | apply lex_order, seg_cmp_order].
Qed.

(* ---- build metadata ---- *)
Definition bseg_key (s : bytes) : N * (N * (bytes * N)) :=
  if all_digits s then (0, (blen (trim0 s), (trim0 s, blen s))) else (1, (0, (s, 0))).
Definition bseg_cmp (x y : bytes) : comparison :=
  pcmp N.compare (pcmp N.compare (pcmp bcmp N.compare)) (bseg_key x) (bseg_key y).

Lemma bseg_cmp_order : is_order bseg_cmp.
Proof.
  unfold bseg_cmp. apply (embed_order bseg_key (pcmp N.compare (pcmp N.compare (pcmp bcmp N.compare)))).
  - intros x y H. unfold bseg_key in H. destruct (all_digits x), (all_digits y); inversion H; try reflexivity.
    destruct (trim0_zeros x) as [k Hx], (trim0_zeros y) as [k' Hy].
    assert (k = k').
    { unfold blen in H3. apply Nat2N.inj in H3. rewrite Hx, Hy, !app_length, !repeat_length, H2 in H3. lia. }
    subst k'. rewrite Hx, Hy, H2. reflexivity.
  - apply pair_order; [apply N_order|]. apply pair_order; [apply N_order|].
    apply pair_order; [apply bcmp_order | apply N_order].
Qed.

Lemma cmp_build_segs_is_lex a b : cmp_build_segs a b = lex bseg_cmp a b.
Proof.
  revert b; induction a as [|x a IH]; intros [|y b]; cbn [cmp_build_segs lex]; try reflexivity.
  rewrite IH. unfold bseg_cmp, bseg_key, pcmp.
  destruct (all_digits x), (all_digits y); cbn [fst snd N.compare then_cmp]; try reflexivity.
  all: try (destruct (N.compare (blen (trim0 x)) (blen (trim0 y))); cbn; try reflexivity;
            destruct (bcmp (trim0 x) (trim0 y)); cbn; try reflexivity;
            destruct (N.compare (blen x) (blen y)); reflexivity).
  all: try (destruct (bcmp x y); reflexivity).
Qed.

Lemma cmp_build_order : is_order cmp_build.
Proof.
  apply (order_ext (fun x y => lex bseg_cmp (split_char 46 x) (split_char 46 y))).
  - intros x y. unfold cmp_build. symmetry. apply cmp_build_segs_is_lex.
  - apply (embed_order (split_char 46) (lex bseg_cmp)); [intros x y; apply split_char_inj | apply lex_order, bseg_cmp_order].
Qed.

(* ---- versions ---- *)
Definition ver_key (v : version) : N * (N * (N * (bytes * bytes))) :=
  (major v, (minor v, (patch v, (pre v, build v)))).

Theorem vcmp_order : is_order vcmp.
Proof.
  apply (order_ext (fun x y => pcmp N.compare (pcmp N.compare (pcmp N.compare (pcmp cmp_pre cmp_build))) (ver_key x) (ver_key y))).
  - intros x y. unfold vcmp, prec, ver_key, pcmp. cbn [fst snd].
    destruct (N.compare (major x) (major y)), (N.compare (minor x) (minor y)), (N.compare (patch x) (patch y)),
      (cmp_pre (pre x) (pre y)); reflexivity.
  - apply (embed_order ver_key (pcmp N.compare (pcmp N.compare (pcmp N.compare (pcmp cmp_pre cmp_build))))).
    + intros [a b c d e] [a' b' c' d' e'] H. unfold ver_key in H. cbn in H. inversion H. reflexivity.
    + repeat (apply pair_order; [apply N_order|]). apply pair_order; [apply cmp_pre_order | apply cmp_build_order].
Qed.

(* consequences *)
Lemma order_gt_lt {A} (c : A -> A -> comparison) x y : is_order c -> c x y = Gt <-> c y x = Lt.
Proof. intros [_ _ a _]. rewrite (a x y). destruct (c y x); cbn; split; intro H; try discriminate; reflexivity. Qed.

Lemma order_le_trans {A} (c : A -> A -> comparison) x y z :
  is_order c -> c x y <> Gt -> c y z <> Gt -> c x z <> Gt.
Proof.
  intros O H1 H2 H3. pose proof O as [r e a t].
  apply (order_gt_lt c x z O) in H3.
  destruct (c x y) eqn:E1; [| |contradiction].
  - apply e in E1. subst y. apply H2. apply (order_gt_lt c x z O). exact H3.
  - destruct (c y z) eqn:E2; [| |contradiction].
    + apply e in E2. subst z. pose proof (t _ _ _ H3 E1) as H4. rewrite (r y) in H4. discriminate.
    + pose proof (t _ _ _ E1 E2) as H4. pose proof (t _ _ _ H3 H4) as H5. rewrite (r z) in H5. discriminate.
Qed.
