(* C10: every fetch outcome is recorded correctly and always releases its claim. *)
From Coq Require Import ZArith Lia.
From VL Require Import Lib.Bytes Model.CacheDb Model.Refresh Spec.AbsCache Proofs.CacheProofs Proofs.ClaimProofs.

Definition claimed (T : Z) (k : key) (now : Z) (fl : faults) (d : db) : bool :=
  negb (f_claim fl) && a_claim_ok T k now (abs d).

(* the abstract effect of one pipeline on its own key *)
Definition a_fetch_one (T : Z) (k : key) (now : Z) (out : outcome) (fl : faults) (st : astate) : astate :=
  if f_claim fl then st else
  if negb (a_claim_ok T k now st) then a_step T (OClaim k now) st else
  let s1 := a_step T (OClaim k now) st in
  let s2 := match out with
            | OVersions vs tags =>
                if f_store fl then s1
                else let s := a_step T (OStore k vs now) s1 in
                     if f_tags fl then s else a_step T (OTags k tags now) s
            | ONotFound => if f_mark fl then s1 else a_step T (OMark k) s1
            | OTransient => s1
            end in
  if f_release fl then s2 else a_step T (ORelease k) s2.

Lemma claim_ok_after_failed T k now d :
  Inv d -> a_claim_ok T k now (abs d) = false ->
  forall k', abs (fst (try_start_fetch T k now d)) k' = a_step T (OClaim k now) (abs d) k'.
Proof. intros HI _. destruct (claim_refines T k now d HI) as [_ [H _]]. exact H. Qed.

Theorem fetch_one_refines T k now out fl d :
  Inv d ->
  let r := fetch_one T k now out fl d in
  Inv (r_db r) /\
  (forall k', abs (r_db r) k' = a_fetch_one T k now out fl (abs d) k') /\
  r_requested r = claimed T k now fl d /\
  r_success r = (claimed T k now fl d && match out with OVersions _ _ => negb (f_store fl) | _ => false end).
Proof.
  intro HI. unfold fetch_one, a_fetch_one, claimed. destruct (f_claim fl) eqn:Fc; cbn [negb andb].
  - cbn [r_db r_requested r_success]. split; [exact HI|]. split; [reflexivity|]. split; reflexivity.
  - destruct (claim_refines T k now d HI) as [HI1 [Habs1 Hret]].
    destruct (try_start_fetch T k now d) as [d1 can] eqn:Et. cbn [fst snd] in *. subst can.
    destruct (a_claim_ok T k now (abs d)) eqn:Ec; cbn [negb r_db r_requested r_success].
    + (* claimed: the outcome branch, then the release *)
      assert (Hout : exists d2 s, 
                (let '(d2', s') := match out with
                   | OVersions vs tags => if f_store fl then (d1, false)
                       else (match tags with [] => replace_versions k vs now d1
                             | _ => if f_tags fl then replace_versions k vs now d1 else save_dist_tags k tags now (replace_versions k vs now d1) end, true)
                   | ONotFound => (if f_mark fl then d1 else mark_not_found k d1, false)
                   | OTransient => (d1, false) end in (d2', s')) = (d2, s) /\
                Inv d2 /\
                (forall k', abs d2 k' = match out with
                   | OVersions vs tags => if f_store fl then a_step T (OClaim k now) (abs d)
                       else let s0 := a_step T (OStore k vs now) (a_step T (OClaim k now) (abs d)) in
                            if f_tags fl then s0 else a_step T (OTags k tags now) s0
                   | ONotFound => if f_mark fl then a_step T (OClaim k now) (abs d) else a_step T (OMark k) (a_step T (OClaim k now) (abs d))
                   | OTransient => a_step T (OClaim k now) (abs d) end k') /\
                s = match out with OVersions _ _ => negb (f_store fl) | _ => false end).
      { destruct out as [vs tags | | ].
        - destruct (f_store fl) eqn:Fs.
          + exists d1, false. split; [reflexivity|]. split; [exact HI1|]. split; [intro k'; apply Habs1 | reflexivity].
          + destruct (store_refines T k vs now d1 HI1) as [HI2 Habs2].
            assert (Hs2 : forall k', abs (replace_versions k vs now d1) k' = a_step T (OStore k vs now) (a_step T (OClaim k now) (abs d)) k').
            { intro k'. rewrite Habs2. apply a_step_ext. exact Habs1. }
            destruct tags as [|t0 tags].
            * exists (replace_versions k vs now d1), true. split; [reflexivity|]. split; [exact HI2|]. split; [|reflexivity].
              intro k'. rewrite Hs2. destruct (f_tags fl); reflexivity.
            * destruct (f_tags fl) eqn:Ft.
              -- exists (replace_versions k vs now d1), true. split; [reflexivity|]. split; [exact HI2|]. split; [exact Hs2 | reflexivity].
              -- destruct (tags_refines T k (t0 :: tags) now (replace_versions k vs now d1) HI2) as [HI3 Habs3].
                 exists (save_dist_tags k (t0 :: tags) now (replace_versions k vs now d1)), true. split; [reflexivity|]. split; [exact HI3|]. split; [|reflexivity].
                 intro k'. rewrite Habs3. apply a_step_ext. exact Hs2.
        - destruct (f_mark fl) eqn:Fm.
          + exists d1, false. split; [reflexivity|]. split; [exact HI1|]. split; [intro k'; apply Habs1 | reflexivity].
          + destruct (mark_refines T k d1 HI1) as [HI2 Habs2].
            exists (mark_not_found k d1), false. split; [reflexivity|]. split; [exact HI2|]. split; [|reflexivity].
            intro k'. rewrite Habs2. apply a_step_ext. exact Habs1.
        - exists d1, false. split; [reflexivity|]. split; [exact HI1|]. split; [intro k'; apply Habs1 | reflexivity]. }
      destruct Hout as [d2 [s [Heq [HI2 [Habs2 Hs]]]]].
      (* align the model's expression with the one in Hout *)
      assert (Hmodel : (match out with
                | OVersions vs tags => if f_store fl then (d1, false)
                    else (match tags with [] => replace_versions k vs now d1
                          | _ => if f_tags fl then replace_versions k vs now d1 else save_dist_tags k tags now (replace_versions k vs now d1) end, true)
                | ONotFound => (if f_mark fl then d1 else mark_not_found k d1, false)
                | OTransient => (d1, false) end) = (d2, s)).
      { destruct out as [vs tags| |]; try exact Heq. destruct (f_store fl); exact Heq. }
      rewrite Hmodel. cbn [r_db r_requested r_success].
      destruct (f_release fl) eqn:Fr.
      * split; [exact HI2|]. split; [|split; [reflexivity | exact Hs]]. intro k'. rewrite Habs2. destruct out as [vs tags| |]; try reflexivity; destruct (f_store fl); try reflexivity; destruct (f_tags fl); reflexivity.
      * destruct (release_refines T k d2 HI2) as [HI3 Habs3]. split; [exact HI3|]. split; [|split; [reflexivity | exact Hs]].
        intro k'. rewrite Habs3. apply a_step_ext. intro k''. rewrite Habs2.
        destruct out as [vs tags| |]; try reflexivity; destruct (f_store fl); try reflexivity; destruct (f_tags fl); reflexivity.
    + split; [exact HI1|]. split; [intro k'; apply Habs1|]. split; reflexivity.
Qed.

(* ---- consequences, stated on the abstract state of the pipeline's own key ---- *)
Definition claim_col (st : astate) (k : key) : option Z := match st k with Some e => a_claim e | None => None end.
Definition nonexistent (st : astate) (k : key) : bool := match st k with Some e => a_nonexistent e | None => false end.
Definition versions (st : astate) (k : key) : list bytes := match st k with Some e => a_versions e | None => [] end.

(* the claim the pipeline took is released unless the release call itself failed *)
Theorem released_on_return T k now out fl st :
  a_claim_ok T k now st = true -> f_claim fl = false -> f_release fl = false ->
  claim_col (a_fetch_one T k now out fl st) k = None.
Proof.
  intros Hc Fc Fr. unfold a_fetch_one, claim_col. rewrite Fc, Hc, Fr. cbn [negb a_step].
  rewrite key_eqb_refl. match goal with |- context [option_map _ ?y] => destruct y end; reflexivity.
Qed.

(* a pipeline that could not take the claim changes nothing but (at most) nothing: the key keeps its state *)
Theorem not_claimed_no_effect T k now out fl st k' :
  a_claim_ok T k now st = false -> f_claim fl = false ->
  a_fetch_one T k now out fl st k' = st k'.
Proof.
  intros Hc Fc. unfold a_fetch_one. rewrite Fc, Hc. cbn [negb a_step].
  destruct (key_eqb k k') eqn:E; [|reflexivity]. apply key_eqb_eq in E. subst k'.
  unfold a_claim_ok in Hc. destruct (st k) as [e|]; [|discriminate]. destruct (a_claim e); [|discriminate]. rewrite Hc. reflexivity.
Qed.

(* how each abstract step acts on the versions / mark of a key *)
Definition is_known (st : astate) (k : key) : bool := match st k with Some _ => true | None => false end.

Lemma step_versions T o st k :
  versions (a_step T o st) k =
  match o with
  | OStore k' vs _ => if key_eqb k' k then add_new (versions st k) vs else versions st k
  | _ => versions st k
  end.
Proof.
  unfold versions. destruct o as [k0 vs now | k0 m now | k0 | k0 now | k0]; cbn [a_step].
  - destruct (key_eqb k0 k); [|reflexivity]. destruct (st k); reflexivity.
  - destruct m; [reflexivity|]. destruct (key_eqb k0 k); [|reflexivity]. destruct (st k); reflexivity.
  - destruct (key_eqb k0 k); [|reflexivity]. destruct (st k); reflexivity.
  - destruct (key_eqb k0 k); [|reflexivity]. destruct (st k) as [e|]; [|reflexivity].
    destruct (match a_claim e with Some s => (s <? now - T)%Z | None => true end); reflexivity.
  - destruct (key_eqb k0 k); [|reflexivity]. destruct (st k); reflexivity.
Qed.

Lemma step_nonexistent T o st k :
  nonexistent (a_step T o st) k =
  match o with
  | OMark k' => if key_eqb k' k then is_known st k else nonexistent st k
  | _ => nonexistent st k
  end.
Proof.
  unfold nonexistent, is_known. destruct o as [k0 vs now | k0 m now | k0 | k0 now | k0]; cbn [a_step].
  - destruct (key_eqb k0 k); [|reflexivity]. destruct (st k); reflexivity.
  - destruct m; [reflexivity|]. destruct (key_eqb k0 k); [|reflexivity]. destruct (st k); reflexivity.
  - destruct (key_eqb k0 k); [|reflexivity]. destruct (st k); reflexivity.
  - destruct (key_eqb k0 k); [|reflexivity]. destruct (st k) as [e|]; [|reflexivity].
    destruct (match a_claim e with Some s => (s <? now - T)%Z | None => true end); reflexivity.
  - destruct (key_eqb k0 k); [|reflexivity]. destruct (st k); reflexivity.
Qed.

Lemma step_known T o st k : is_known st k = true -> is_known (a_step T o st) k = true.
Proof.
  unfold is_known. destruct o as [k0 vs now | k0 m now | k0 | k0 now | k0]; cbn [a_step]; intro H.
  - destruct (key_eqb k0 k); [reflexivity | exact H].
  - destruct m; [exact H|]. destruct (key_eqb k0 k); [reflexivity | exact H].
  - destruct (key_eqb k0 k); [|exact H]. destruct (st k); [reflexivity | discriminate].
  - destruct (key_eqb k0 k); [reflexivity | exact H].
  - destruct (key_eqb k0 k); [|exact H]. destruct (st k); [reflexivity | discriminate].
Qed.

Lemma claim_makes_known T k now st : is_known (a_step T (OClaim k now) st) k = true.
Proof. unfold is_known. cbn [a_step]. rewrite key_eqb_refl. reflexivity. Qed.

(* the mark is set exactly for a definitive not-found, never for transient failures *)
Theorem marked_iff T k now out fl st :
  a_claim_ok T k now st = true -> f_claim fl = false -> nonexistent st k = false ->
  (nonexistent (a_fetch_one T k now out fl st) k = true <-> out = ONotFound /\ f_mark fl = false).
Proof.
  intros Hc Fc Hn. unfold a_fetch_one. rewrite Fc, Hc. cbn [negb].
  pose proof (claim_makes_known T k now st) as Hk.
  destruct out as [vs tags| |].
  - split; [|intros [H _]; discriminate]. intro H. exfalso.
    destruct (f_store fl), (f_tags fl), (f_release fl); rewrite ?step_nonexistent in H; congruence.
  - destruct (f_mark fl), (f_release fl); rewrite ?step_nonexistent, ?key_eqb_refl, ?Hk, ?Hn;
      split; intro H; try tauto; try congruence; try (destruct H; congruence); try (split; reflexivity).
  - split; [|intros [H _]; discriminate]. intro H. exfalso.
    destruct (f_release fl); rewrite ?step_nonexistent in H; congruence.
Qed.

(* versions are stored exactly when the registry returned them and the store call succeeded *)
Theorem stored_iff T k now out fl st :
  a_claim_ok T k now st = true -> f_claim fl = false ->
  versions (a_fetch_one T k now out fl st) k =
  match out with
  | OVersions vs _ => if f_store fl then versions st k else add_new (versions st k) vs
  | _ => versions st k
  end.
Proof.
  intros Hc Fc. unfold a_fetch_one. rewrite Fc, Hc. cbn [negb].
  destruct out as [vs tags| |].
  - destruct (f_store fl), (f_tags fl), (f_release fl); rewrite ?step_versions, ?key_eqb_refl; reflexivity.
  - destruct (f_mark fl), (f_release fl); rewrite ?step_versions; reflexivity.
  - destruct (f_release fl); rewrite ?step_versions; reflexivity.
Qed.

(* a pipeline touches no other key: failures and outcomes of one package never affect another *)
Theorem fetch_one_isolated T k now out fl st k' : k <> k' -> a_fetch_one T k now out fl st k' = st k'.
Proof.
  intro Hne. unfold a_fetch_one. destruct (f_claim fl); [reflexivity|].
  destruct (negb (a_claim_ok T k now st)); [apply a_step_other; exact Hne|].
  destruct (f_release fl), out as [vs tags| |]; try destruct (f_store fl); try destruct (f_tags fl); try destruct (f_mark fl);
    repeat (rewrite a_step_other by exact Hne); reflexivity.
Qed.

(* the routine reports as fetched exactly the packages whose versions were stored *)
Theorem reports_stored T k now out fl d :
  Inv d -> r_success (fetch_one T k now out fl d) = true <->
           (exists vs tags, out = OVersions vs tags) /\ f_store fl = false /\ r_requested (fetch_one T k now out fl d) = true.
Proof.
  intro HI. destruct (fetch_one_refines T k now out fl d HI) as [_ [_ [Hr Hs]]]. rewrite Hs, Hr.
  destruct (claimed T k now fl d), out as [vs tags| |]; cbn [andb]; split; intro H; try discriminate;
    try (destruct H as [[vs' [tags' E]] _]; discriminate); try (destruct H as [_ [_ E]]; discriminate).
  - apply negb_true_iff in H. eauto.
  - destruct H as [_ [E _]]. rewrite E. reflexivity.
Qed.

(* only missing packages are requested by the on-demand entry point *)
Theorem only_missing_requested T reg now batch d :
  forall n, In n (snd (fst (fetch_missing T reg now false batch d))) -> a_missing (abs d (reg, n)) = true.
Proof.
  intros n Hin. unfold fetch_missing in Hin.
  remember (filter_packages_not_in_cache reg (map (fun e => fst (fst e)) batch) d) as missing eqn:Em.
  assert (Hgen : forall l d0, In n (snd (fst (run_pipelines T reg now l d0))) -> exists e, In e l /\ fst (fst e) = n).
  { induction l as [|[[nm out] fl] l IH]; intros d0 H; cbn [run_pipelines] in H; [destruct H|].
    destruct (run_pipelines T reg now l (r_db (fetch_one T (reg, nm) now out fl d0))) as [[d' req] ok] eqn:E.
    cbn [fst snd] in H. apply in_app_or in H as [H | H].
    - destruct (r_requested _); [destruct H as [<- | []]; eexists; split; [left; reflexivity | reflexivity] | destruct H].
    - destruct (IH (r_db (fetch_one T (reg, nm) now out fl d0))) as [e [He Hn]]; [rewrite E; exact H|]. exists e. split; [right; exact He | exact Hn]. }
  destruct (Hgen _ _ Hin) as [e [He Hn]]. apply filter_In in He as [_ Hex].
  apply existsb_exists in Hex as [x [Hx Hb]]. apply beq_eq in Hb. rewrite Hn in Hb. subst x.
  rewrite Em, filter_missing_abs in Hx. apply filter_In in Hx as [_ Hm]. exact Hm.
Qed.
