(* C07 / C17: bump targets, the edits that carry them, and the hash-pinned variants. *)
From Coq Require Import ZArith Lia.
From VL Require Import Lib.Bytes Lib.SemVer Lib.Text Lib.Cst Model.SemverUtil Model.CodeAction Model.Walks
  Proofs.SemVerOrder Proofs.GoGhaProofs Proofs.OrderProofs Proofs.CstProofs.

(* ---------- maxima ---------- *)
Lemma vmax_in l m : vmax l = Some m -> In m l.
Proof.
  revert m. induction l as [|x t IH]; intros m H; [discriminate|]. cbn [vmax] in H.
  destruct (vmax t) as [m'|]; [|injection H as <-; now left].
  destruct (v_gt x m'); injection H as <-; [now left|right; now apply IH].
Qed.
Lemma vmax_some l : l <> [] -> exists m, vmax l = Some m.
Proof. destruct l as [|x t]; [congruence|]. intros _. cbn. destruct (vmax t) as [m'|]; [destruct (v_gt x m')|]; eauto. Qed.
Lemma vmax_upper l m : vmax l = Some m -> forall x, In x l -> vcmp x m <> Gt.
Proof.
  revert m. induction l as [|y t IH]; intros m H x Hx; [destruct Hx|]. cbn [vmax] in H.
  destruct (vmax t) as [m'|] eqn:E.
  - unfold v_gt in H. destruct (vcmp y m') eqn:C; injection H as <-.
    + destruct Hx as [<-|Hx]; [rewrite C; discriminate|now apply IH].
    + destruct Hx as [<-|Hx]; [rewrite C; discriminate|now apply IH].
    + destruct Hx as [<-|Hx]; [rewrite (o_refl vcmp vcmp_order); discriminate|].
      apply (order_le_trans vcmp x m' y vcmp_order); [now apply IH|].
      intro G. apply (order_gt_lt vcmp _ _ vcmp_order) in G. rewrite (order_gt_lt vcmp _ _ vcmp_order) in C.
      pose proof (o_trans vcmp vcmp_order _ _ _ G C) as T. rewrite (o_refl vcmp vcmp_order) in T. discriminate.
  - injection H as <-. destruct t; [|cbn in E; destruct (vmax t); [destruct (v_gt _ _)|]; discriminate].
    destruct Hx as [<-|[]]. rewrite (o_refl vcmp vcmp_order). discriminate.
Qed.

Lemma filter_parse_in vs m : In m (filter_parse vs) <-> exists v, In v vs /\ parse_version v = Some m.
Proof.
  unfold filter_parse. rewrite in_flat_map. split.
  - intros [v [Hv Hm]]. exists v. split; [exact Hv|]. destruct (parse_version v); [destruct Hm as [<-|[]]; reflexivity|destruct Hm].
  - intros [v [Hv Hp]]. exists v. split; [exact Hv|]. rewrite Hp. now left.
Qed.

(* ---------- bump targets ---------- *)
(* s is the rendering of the highest cached version of the line [keep] that is strictly newer than the current one *)
Definition is_target (keep : version -> version -> bool) (current : bytes) (versions : list bytes) (s : bytes) : Prop :=
  exists cur v m, parse_version current = Some cur /\ In v versions /\ parse_version v = Some m /\ s = show m /\
    keep cur m = true /\ vcmp m cur = Gt /\
    forall v' m', In v' versions -> parse_version v' = Some m' -> keep cur m' = true -> vcmp m' m <> Gt.

Theorem latest_where_sound keep current versions s : latest_where keep current versions = Some s -> is_target keep current versions s.
Proof.
  unfold latest_where. destruct (parse_version current) as [cur|] eqn:Ec; [|discriminate].
  destruct (vmax (filter (keep cur) (filter_parse versions))) as [m|] eqn:Em; [|discriminate].
  unfold v_gt. destruct (vcmp m cur) eqn:Eg; try discriminate. intros [= <-].
  pose proof (vmax_in _ _ Em) as Hin. apply filter_In in Hin as [Hin Hk]. apply filter_parse_in in Hin as [v [Hv Hp]].
  exists cur, v, m. repeat split; try assumption.
  intros v' m' Hv' Hp' Hk'. apply (vmax_upper _ _ Em). apply filter_In. split; [|exact Hk']. apply filter_parse_in. eauto.
Qed.
Theorem latest_where_complete keep current versions cur v m :
  parse_version current = Some cur -> In v versions -> parse_version v = Some m -> keep cur m = true -> vcmp m cur = Gt ->
  exists s, latest_where keep current versions = Some s.
Proof.
  intros Ec Hv Hp Hk Hg. unfold latest_where. rewrite Ec.
  assert (In m (filter (keep cur) (filter_parse versions))) as Hin by (apply filter_In; split; [apply filter_parse_in; eauto|exact Hk]).
  destruct (vmax_some (filter (keep cur) (filter_parse versions))) as [mx Hmx]; [intros E; rewrite E in Hin; destruct Hin|].
  rewrite Hmx. pose proof (vmax_upper _ _ Hmx m Hin) as Hle. unfold v_gt.
  destruct (vcmp mx cur) eqn:E; eauto; exfalso.
  - apply (o_eq vcmp vcmp_order) in E. subst mx. contradiction.
  - apply Hle. apply (order_gt_lt vcmp _ _ vcmp_order). apply (order_gt_lt vcmp _ _ vcmp_order) in Hg.
    exact (o_trans vcmp vcmp_order _ _ _ E Hg).
Qed.
Theorem latest_where_none_iff keep current versions :
  latest_where keep current versions = None <->
  (parse_version current = None \/ exists cur, parse_version current = Some cur /\
     forall v m, In v versions -> parse_version v = Some m -> keep cur m = true -> vcmp m cur <> Gt).
Proof.
  split.
  - intros H. destruct (parse_version current) as [cur|] eqn:Ec; [right|now left]. exists cur. split; [reflexivity|].
    intros v m Hv Hp Hk Hg. destruct (latest_where_complete keep current versions cur v m Ec Hv Hp Hk Hg) as [s Hs]. congruence.
  - intros [H|[cur [Ec H]]]; unfold latest_where; rewrite ?H; [reflexivity|]. rewrite Ec.
    destruct (vmax (filter (keep cur) (filter_parse versions))) as [m|] eqn:Em; [|reflexivity].
    pose proof (vmax_in _ _ Em) as Hin. apply filter_In in Hin as [Hin Hk]. apply filter_parse_in in Hin as [v [Hv Hp]].
    unfold v_gt. destruct (vcmp m cur) eqn:E; try reflexivity. exfalso. exact (H v m Hv Hp Hk E).
Qed.

Definition keep_patch (cur v : version) : bool := (major v =? major cur) && (minor v =? minor cur).
Definition keep_minor (cur v : version) : bool := major v =? major cur.
Definition keep_major (cur v : version) : bool := true.
Definition keep_of (label : bytes) : version -> version -> bool :=
  if beq label l_patch then keep_patch else if beq label l_minor then keep_minor else keep_major.

(* the list of offered targets: each one is the target of its line, no version string twice, and every
   existing target's version string is in the list *)
Definition dstep (acc : list bytes * list (bytes * bytes)) (t : option bytes * bytes) : list bytes * list (bytes * bytes) :=
  match fst t with
  | None => acc
  | Some v => if existsb (beq v) (fst acc) then acc else (v :: fst acc, snd acc ++ [(v, snd t)])
  end.
Lemma existsb_beq_in v l : existsb (beq v) l = true <-> In v l.
Proof.
  rewrite existsb_exists. split.
  - intros [x [Hx He]]. apply beq_eq in He. now subst.
  - intros H. exists v. split; [exact H|apply beq_refl].
Qed.
Lemma NoDup_app_singleton {A} (l : list A) x : NoDup l -> ~ In x l -> NoDup (l ++ [x]).
Proof.
  induction l as [|y t IH]; intros Hn Hx; cbn; [constructor; [intros []|constructor]|].
  inversion Hn as [|? ? Hy Ht]; subst. constructor.
  - intros Hin. apply in_app_or in Hin as [Hin|[Hin|[]]]; [contradiction|]. subst. apply Hx. now left.
  - apply IH; [exact Ht|]. intros Hin. apply Hx. now right.
Qed.
Lemma dedup_fold raw : forall seen out,
  (forall v, In v (map fst out) <-> In v seen) -> NoDup (map fst out) ->
  let r := fold_left dstep raw (seen, out) in
  NoDup (map fst (snd r))
  /\ (forall v l, In (v, l) (snd r) -> In (v, l) out \/ In (Some v, l) raw)
  /\ (forall v l, In (Some v, l) raw -> In v (map fst (snd r)))
  /\ (forall x, In x out -> In x (snd r)).
Proof.
  induction raw as [|[o l] t IH]; intros seen out Hs Hn; cbn [fold_left].
  - repeat split; auto. intros v l [].
  - change (dstep (seen, out) (o, l)) with (match o with None => (seen, out) | Some v => if existsb (beq v) seen then (seen, out) else (v :: seen, out ++ [(v, l)]) end).
    destruct o as [v|].
    + destruct (existsb (beq v) seen) eqn:E.
      * destruct (IH seen out Hs Hn) as [H1 [H2 [H3 H4]]]. repeat split; auto.
        -- intros v' l' Hin. destruct (H2 v' l' Hin); [now left|right; now right].
        -- intros v' l' [Heq|Hin]; [|exact (H3 _ _ Hin)]. injection Heq as <- <-.
           apply existsb_beq_in in E. apply Hs in E. apply in_map_iff in E as [[a b'] [Ha Hb]]. cbn in Ha. subst a.
           apply in_map_iff. exists (v, b'). split; [reflexivity|now apply H4].
      * assert (~ In v seen) as Hv by (intros Hin; apply existsb_beq_in in Hin; congruence).
        destruct (IH (v :: seen) (out ++ [(v, l)])) as [H1 [H2 [H3 H4]]].
        -- intros x. rewrite map_app, in_app_iff. cbn. rewrite Hs. tauto.
        -- rewrite map_app. cbn. apply NoDup_app_singleton; [exact Hn|]. intros Hin. apply Hs in Hin. contradiction.
        -- repeat split; auto.
           ++ intros v' l' Hin. destruct (H2 v' l' Hin) as [Ho|Ho]; [|right; now right].
              apply in_app_or in Ho as [Ho|[Ho|[]]]; [now left|]. injection Ho as <- <-. right. now left.
           ++ intros v' l' [Heq|Hin]; [|exact (H3 _ _ Hin)]. injection Heq as <- <-.
              apply in_map_iff. exists (v, l). split; [reflexivity|]. apply H4. apply in_or_app. right. now left.
           ++ intros x Hx. apply H4. apply in_or_app. now left.
    + destruct (IH seen out Hs Hn) as [H1 [H2 [H3 H4]]]. repeat split; auto.
      * intros v' l' Hin. destruct (H2 v' l' Hin); [now left|right; now right].
      * intros v' l' [Heq|Hin]; [discriminate|exact (H3 _ _ Hin)].
Qed.

Lemma targets_spec current versions :
  let ts := targets current versions in
  (forall v l, In (v, l) ts -> is_target (keep_of l) current versions v)
  /\ NoDup (map fst ts)
  /\ (forall keep s, In keep [keep_patch; keep_minor; keep_major] -> latest_where keep current versions = Some s -> In s (map fst ts)).
Proof.
  cbv zeta. unfold targets.
  set (raw := [(calculate_latest_patch current versions, l_patch); (calculate_latest_minor current versions, l_minor); (calculate_latest_major current versions, l_major)]).
  change (fun (acc : list bytes * list (bytes * bytes)) (t : option bytes * bytes) =>
            match fst t with
            | Some v => if existsb (beq v) (fst acc) then acc else (v :: fst acc, snd acc ++ [(v, snd t)])
            | None => acc
            end) with dstep.
  destruct (dedup_fold raw [] []) as [H1 [H2 [H3 _]]]; [intros v; cbn; tauto|constructor|].
  split; [|split].
  - intros v l Hin. destruct (H2 v l Hin) as [[]|Hr]. unfold raw in Hr.
    destruct Hr as [Hr|[Hr|[Hr|[]]]]; injection Hr as Hr <-; now apply latest_where_sound.
  - exact H1.
  - intros keep s Hk Hs. destruct Hk as [<-|[<-|[<-|[]]]].
    + apply (H3 s l_patch). left. unfold calculate_latest_patch. f_equal. exact Hs.
    + apply (H3 s l_minor). right. left. unfold calculate_latest_minor. f_equal. exact Hs.
    + apply (H3 s l_major). right. right. left. unfold calculate_latest_major. f_equal. exact Hs.
Qed.

(* ---------- the actions ---------- *)
Lemma prefix_is_prefix v : starts_with (extract_version_prefix v) v = true.
Proof.
  unfold extract_version_prefix.
  repeat match goal with |- context [if starts_with ?p v then _ else _] => destruct (starts_with p v) eqn:?; [assumption|] end.
  reflexivity.
Qed.
Lemma prefix_is_operator v : In (extract_version_prefix v) [[62;61]; [60;61]; [62]; [60]; [61]; [94]; [126]; [118]; []].
Proof.
  unfold extract_version_prefix.
  repeat match goal with |- context [if starts_with ?p v then _ else _] => destruct (starts_with p v) end; cbn; tauto.
Qed.

Theorem bump_actions_spec versions p a : In a (bump_actions versions p) ->
  exists vs v l, versions = Some vs /\ vs <> [] /\ In (v, l) (targets (p_version p) vs)
    /\ a_text a = extract_version_prefix (p_version p) ++ v
    /\ a_title a = title_of l (a_text a)
    /\ a_line a = p_line p /\ a_start a = p_col p /\ a_end a = p_col p + blen (p_version p).
Proof.
  unfold bump_actions. destruct versions as [[|x t]|]; try (intros []).
  intros Hin. apply in_map_iff in Hin as [[v l] [<- Hin]].
  exists (x :: t), v, l. repeat split; try discriminate; assumption.
Qed.
Theorem bump_actions_complete vs p v l : vs <> [] -> In (v, l) (targets (p_version p) vs) ->
  In (plain_action p l (extract_version_prefix (p_version p) ++ v)) (bump_actions (Some vs) p).
Proof.
  intros Hne Hin. unfold bump_actions. destruct vs as [|x t]; [congruence|].
  apply in_map_iff. exists (v, l). split; [reflexivity|exact Hin].
Qed.
Theorem bump_actions_none p : bump_actions None p = [] /\ bump_actions (Some []) p = [].
Proof. split; reflexivity. Qed.
Theorem find_at_spec pkgs line char p : find_at pkgs line char = Some p ->
  In p pkgs /\ p_line p = line /\ p_col p <= char /\ char < p_col p + blen (p_version p).
Proof.
  unfold find_at. intros H. apply find_some in H as [Hin Hh]. unfold hit in Hh.
  apply andb_true_iff in Hh as [Hh H3]. apply andb_true_iff in Hh as [H1 H2].
  apply N.eqb_eq in H1. apply N.leb_le in H2. apply N.ltb_lt in H3. tauto.
Qed.
Theorem find_at_none pkgs line char : find_at pkgs line char = None ->
  forall p, In p pkgs -> ~ (p_line p = line /\ p_col p <= char /\ char < p_col p + blen (p_version p)).
Proof.
  unfold find_at. intros H p Hin [H1 [H2 H3]]. pose proof (find_none _ _ H p Hin) as Hn. unfold hit in Hn.
  apply N.eqb_eq in H1. apply N.leb_le in H2. apply N.ltb_lt in H3. rewrite H1, H2, H3 in Hn. discriminate.
Qed.

(* ---------- the rendering of a version cannot close a string or start a comment ---------- *)
Definition safe_char (c : N) : bool := is_alnum c || (c =? 46) || (c =? 45) || (c =? 43).
Lemma show_N_fuel_digits f : forall n acc, forallb is_digit acc = true -> forallb is_digit (show_N_fuel f n acc) = true.
Proof.
  induction f as [|f IH]; intros n acc H; [exact H|]. cbn [show_N_fuel].
  assert (forallb is_digit ((48 + n mod 10) :: acc) = true) as H'.
  { cbn [forallb]. rewrite H, andb_true_r. unfold is_digit. assert (n mod 10 < 10) as Hm by (apply N.mod_upper_bound; discriminate).
    set (d := n mod 10) in *. apply andb_true_iff. split; apply N.leb_le; lia. }
  destruct (n / 10 =? 0); [exact H'|now apply IH].
Qed.
Lemma show_N_digits n : forallb is_digit (show_N n) = true.
Proof. unfold show_N. now apply show_N_fuel_digits. Qed.
Lemma digit_safe c : is_digit c = true -> safe_char c = true.
Proof. intros H. unfold safe_char, is_alnum. rewrite H. now rewrite orb_true_r. Qed.
Lemma forallb_impl {A} (f g : A -> bool) l : (forall x, f x = true -> g x = true) -> forallb f l = true -> forallb g l = true.
Proof. intros H. rewrite !forallb_forall. auto. Qed.
Lemma idents_safe s : wf_idents s = true -> forallb safe_char s = true.
Proof.
  unfold wf_idents. destruct s as [|c t]; [reflexivity|]. intros H.
  rewrite <- (join_split 46 (c :: t)). revert H. generalize (split_char 46 (c :: t)). clear.
  induction l as [|seg rest IH]; [reflexivity|]. cbn [forallb]. intros H. apply andb_true_iff in H as [Hs Hr].
  assert (forallb safe_char seg = true) as Hseg.
  { unfold wf_seg in Hs. destruct seg; [discriminate|]. eapply forallb_impl; [|exact Hs].
    intros x Hx. unfold ident_char in Hx. unfold safe_char. destruct (is_alnum x); [reflexivity|]. cbn in *. now rewrite Hx, orb_true_r. }
  destruct rest as [|seg2 rest']; cbn [join]; [exact Hseg|].
  rewrite forallb_app, Hseg. cbn [forallb andb]. change (safe_char 46) with true. cbn [andb]. now apply IH.
Qed.
Theorem show_safe m : wf_version m = true -> forallb safe_char (show m) = true.
Proof.
  unfold wf_version, show. intros H. apply andb_true_iff in H as [Hp Hb].
  rewrite !forallb_app. cbn [forallb]. change (safe_char 46) with true.
  rewrite !(forallb_impl _ _ _ digit_safe (show_N_digits _)). cbn [andb].
  apply idents_safe in Hp, Hb.
  destruct (pre m) as [|p0 pt]; destruct (build m) as [|b0 bt]; cbn [forallb andb] in *;
    change (safe_char 45) with true; change (safe_char 43) with true; cbn [andb]; rewrite ?Hp, ?Hb; reflexivity.
Qed.

(* ---------- applying the edit ---------- *)
Lemma pos_row_mono s : forall off row col r c, pos_of_aux s off row col = (r, c) -> row <= r.
Proof.
  induction s as [|y t IH]; intros off row col r c H.
  - destruct off; cbn in H; injection H as <- _; lia.
  - destruct off as [|k]; cbn [pos_of_aux] in H; [injection H as <- _; lia|].
    destruct (y =? 10); apply IH in H; lia.
Qed.
Lemma pos_same_row s : forall off row col c, pos_of_aux s off row col = (row, c) -> (off <= length s)%nat -> c = col + N.of_nat off.
Proof.
  induction s as [|y t IH]; intros off row col c H Hl.
  - destruct off; [|cbn in Hl; lia]. cbn in H. injection H as <-. lia.
  - destruct off as [|k]; cbn [pos_of_aux] in H; [injection H as <-; lia|]. cbn [length] in Hl.
    destruct (y =? 10).
    + apply pos_row_mono in H. lia.
    + apply IH in H; lia.
Qed.
Lemma line_offset_later s : forall off row col r c base,
  pos_of_aux s off row col = (r, c) -> (off <= length s)%nat -> row < r ->
  line_offset s (N.to_nat (r - row)) base = Some (base + N.of_nat off - c).
Proof.
  induction s as [|y t IH]; intros off row col r c base H Hl Hr.
  - destruct off; [|cbn in Hl; lia]. cbn in H. injection H as <- _. lia.
  - destruct off as [|k]; cbn [pos_of_aux] in H; [injection H as <- _; lia|]. cbn [length] in Hl.
    replace (N.to_nat (r - row)) with (S (N.to_nat (r - (row + 1)))) by lia. cbn [line_offset].
    destruct (y =? 10) eqn:Ey.
    + destruct (N.eq_dec r (row + 1)) as [->|Hne].
      * rewrite N.sub_diag. cbn [N.to_nat]. destruct t; cbn [line_offset];
          (apply pos_same_row in H; [|lia]; f_equal; lia).
      * pose proof (pos_row_mono _ _ _ _ _ _ H). rewrite (IH k (row + 1) 0 r c (base + 1) H ltac:(lia) ltac:(lia)). f_equal. lia.
    + replace (S (N.to_nat (r - (row + 1)))) with (N.to_nat (r - row)) by lia.
      rewrite (IH k row (col + 1) r c (base + 1) H ltac:(lia) Hr). f_equal. lia.
Qed.
Lemma line_offset_of_pos content off r c : pos_of content off = (r, c) -> off <= blen content ->
  line_offset content (N.to_nat r) 0 = Some (off - c) /\ c <= off.
Proof.
  unfold pos_of, blen. intros H Hl. destruct (N.eq_dec r 0) as [->|Hr].
  - apply pos_same_row in H; [|lia]. cbn [N.to_nat]. destruct content; cbn [line_offset]; split; try f_equal; lia.
  - pose proof (line_offset_later content (N.to_nat off) 0 0 r c 0 H ltac:(lia) ltac:(lia)) as Hlo.
    rewrite N.sub_0_r in Hlo. rewrite Hlo. split; [f_equal; lia|].
    (* the column never exceeds the offset *)
    apply pos_of_aux_bound in H. lia.
Qed.

(* on a structurally sound location whose reported length is the length of its version text, an action's edit
   replaces exactly the bytes [start, end) of the document *)
Theorem plain_edit_local content p label nv :
  structural_ok content p -> p_end p = p_start p + blen (p_version p) ->
  apply_edit content (plain_action p label nv) = firstn_N (p_start p) content ++ nv ++ skipn_N (p_end p) content.
Proof.
  intros [H1 [H2 H3]] He. unfold apply_edit, plain_action. cbn [a_line a_start a_end a_text].
  destruct (line_offset_of_pos content (p_start p) (p_line p) (p_col p) H3 ltac:(lia)) as [Hlo Hc]. rewrite Hlo.
  replace (p_start p - p_col p + p_col p) with (p_start p) by lia.
  replace (p_start p - p_col p + (p_col p + blen (p_version p))) with (p_end p) by lia. reflexivity.
Qed.

(* ---------- hash-pinned actions (C17) ---------- *)
Lemma all_some_in {A} (l : list (option A)) r : all_some l = Some r -> forall a, In a r -> In (Some a) l.
Proof.
  revert r. induction l as [|[x|] t IH]; intros r H a Hin; cbn in H; try discriminate.
  - injection H as <-. destruct Hin.
  - destruct (all_some t) as [rt|]; [|discriminate]. cbn in H. injection H as <-.
    destruct Hin as [<-|Hin]; [now left|right; now apply (IH rt)].
Qed.
Lemma all_some_nil {A} (l : list (option A)) : l = [] -> all_some l = Some [].
Proof. now intros ->. Qed.

Definition sp_hash_sp : bytes := [32; 35; 32].

(* every offered edit of a hash-pinned step carries exactly the commit the source reports for the advertised tag,
   and rewrites the comment to that tag (or, without a comment, replaces the hash only, for the latest release) *)
Theorem sha_actions_spec versions latest sha p h acts :
  p_hash p = Some h -> bump_actions_sha versions latest sha p = Some acts ->
  forall a, In a acts ->
  exists tag s, sha tag = Some s /\ a_line a = p_line p /\ a_start a = p_col p /\
    ( (exists cm cs ce vs v l, p_extra p = Some (cm, cs, ce) /\ versions = Some vs /\ In (v, l) (targets (p_version p) vs)
         /\ tag = extract_version_prefix (p_version p) ++ v /\ a_title a = title_of l tag
         /\ a_text a = s ++ sp_hash_sp ++ tag /\ p_start p <= ce /\ a_end a = p_col p + (ce - p_start p))
      \/ (p_extra p = None /\ latest = Some tag /\ a_title a = t_bump_latest ++ tag /\ a_text a = s /\ a_end a = p_col p + blen h) ).
Proof.
  intros Hh H a Hin. unfold bump_actions_sha in H. destruct versions as [[|x t]|]; try (injection H as <-; destruct Hin).
  rewrite Hh in H. destruct (p_extra p) as [[[cm cs] ce]|] eqn:Ex.
  - pose proof (all_some_in _ _ H a Hin) as Hs. apply in_flat_map in Hs as [[v l] [Ht Hs]]. cbn [fst snd] in Hs.
    destruct (sha (extract_version_prefix (p_version p) ++ v)) as [s|] eqn:Es; [|destruct Hs].
    destruct Hs as [Hs|[]]. unfold hash_action in Hs. rewrite Ex in Hs.
    destruct (ce <? p_start p) eqn:El; [discriminate|]. injection Hs as <-. apply N.ltb_ge in El.
    exists (extract_version_prefix (p_version p) ++ v), s. cbn. repeat split; try assumption.
    left. exists cm, cs, ce, (x :: t), v, l. repeat split; assumption.
  - destruct latest as [l|]; [|injection H as <-; destruct Hin].
    destruct (sha l) as [s|] eqn:Es; [|injection H as <-; destruct Hin].
    unfold hash_action in H. rewrite Ex, Hh in H. cbn in H. injection H as <-. destruct Hin as [<-|[]].
    exists l, s. cbn. repeat split; try assumption. right. repeat split.
Qed.

(* when no commit can be obtained, nothing is offered *)
Theorem no_sha_no_action versions latest sha p h :
  p_hash p = Some h -> (forall tag, sha tag = None) -> (match p_extra p with Some (_, _, ce) => p_start p <= ce | None => True end) ->
  bump_actions_sha versions latest sha p = Some [].
Proof.
  intros Hh Hs Hce. unfold bump_actions_sha. destruct versions as [[|x t]|]; try reflexivity.
  rewrite Hh. destruct (p_extra p) as [[[cm cs] ce]|].
  - apply all_some_nil. induction (targets (p_version p) (x :: t)) as [|[v l] r IH]; [reflexivity|].
    cbn [flat_map fst snd]. now rewrite Hs.
  - destruct latest as [l|]; [|reflexivity]. now rewrite Hs.
Qed.
(* a step pinned to a hash without a version comment gets at most the move to the latest release *)
Theorem hash_only_latest_only versions latest sha p h acts :
  p_hash p = Some h -> p_extra p = None -> bump_actions_sha versions latest sha p = Some acts -> (length acts <= 1)%nat.
Proof.
  intros Hh Hx H. unfold bump_actions_sha in H. destruct versions as [[|x t]|]; try (injection H as <-; cbn; lia).
  rewrite Hh, Hx in H. destruct latest as [l|]; [|injection H as <-; cbn; lia].
  destruct (sha l) as [s0|]; [|injection H as <-; cbn; lia].
  destruct (hash_action p (t_bump_latest ++ l) s0 l); cbn in H; [injection H as <-; cbn; lia|discriminate].
Qed.
