(* C01: the published diagnostic is the decision table applied to the facts. *)
From Coq Require Import ZArith.
From VL Require Import Lib.Bytes Lib.Reg Lib.SemVer Model.SemverUtil Model.CacheDb Model.Checker
  Model.NpmMatcher Model.CratesMatcher Model.GoMatcher Model.GhaMatcher Model.PypiMatcher
  Spec.Verdict Spec.AbsCache Gen.GenChecker
  Proofs.CacheProofs Proofs.LatestProofs Proofs.RangeProofs Proofs.GoGhaProofs Proofs.PypiProofs.

(* the healthy storer over the cache tables *)
Definition storer_of (ign : bool) (k : key) (d : db) : storer :=
  mkStorer (Some (get_latest_version ign k d)) (fun t => Some (get_dist_tag k t d)) (Some (get_versions k d)).

Definition verdict_of (cur : bytes) (o : option (severity * bytes)) (v : verdict) : Prop :=
  match v with
  | VNothing => o = None
  | VUpdate s l => o = Some (SevWarning, s_update_available ++ s ++ s_arrow ++ l)
  | VNotFound s => o = Some (SevError, s_version_ ++ s ++ s_not_found)
  | VInvalid s => o = Some (SevError, s_invalid ++ s)
  end.

(* what a matcher knows about the ecosystem *)
Record matcher_facts (m : matcher) := mkMF {
  mf_wf : bytes -> bool;
  mf_wfv : bytes -> bool;
  mf_invalid : forall s l, m_compare m s l = Invalid <-> mf_wf s = false \/ mf_wfv l = false }.

(* a malformed spec admits nothing (npm, Cargo, GitHub Actions; not go.mod, where every text of the
   pseudo-version shape is accepted as existing before it is parsed - Invalid wins over it anyway) *)
Definition malformed_admits_nothing (m : matcher) (F : matcher_facts m) : Prop :=
  forall s vs, mf_wf m F s = false -> m_exists m s vs = false.

Definition facts_of (ign : bool) (k : key) (d : db) (m : matcher) (F : matcher_facts m) (cur : bytes) : facts :=
  mkFacts (get_latest_version ign k d) (get_dist_tag k cur d) (is_potential_dist_tag cur)
          (mf_wf m F) (mf_wfv m F)
          (fun r => m_exists m r (get_versions k d))
          (fun r l => match m_compare m r l with Latest => true | _ => false end)
          (fun r l => match m_compare m r l with Outdated => true | _ => false end).

Theorem diagnostic_is_table ign k d m (F : matcher_facts m) cur :
  verdict_of cur (diagnostic (storer_of ign k d) m cur) (table (facts_of ign k d m F cur) cur).
Proof.
  unfold diagnostic, compare_version, storer_of, table, facts_of. cbn [s_latest s_tag s_versions f_latest f_tag_target f_known_tag
    f_wf f_wfv f_some_inside f_latest_inside f_anchor_below].
  destruct (get_latest_version ign k d) as [l|]; [|reflexivity].
  set (resolved := match get_dist_tag k cur d with Some v => Some v | None => if is_potential_dist_tag cur then None else Some cur end).
  destruct resolved as [r|]; [|reflexivity].
  destruct (m_compare m r l) eqn:C.
  - assert (Hw : mf_wf m F r = true /\ mf_wfv m F l = true).
    { destruct (mf_wf m F r) eqn:W, (mf_wfv m F l) eqn:V; auto;
        assert (m_compare m r l = Invalid) by (apply (mf_invalid m F); auto); congruence. }
    destruct Hw as [-> ->]. cbn [negb orb]. destruct (m_exists m r (get_versions k d)); reflexivity.
  - assert (Hw : mf_wf m F r = true /\ mf_wfv m F l = true).
    { destruct (mf_wf m F r) eqn:W, (mf_wfv m F l) eqn:V; auto;
        assert (m_compare m r l = Invalid) by (apply (mf_invalid m F); auto); congruence. }
    destruct Hw as [-> ->]. cbn [negb orb]. destruct (m_exists m r (get_versions k d)); reflexivity.
  - assert (Hw : mf_wf m F r = true /\ mf_wfv m F l = true).
    { destruct (mf_wf m F r) eqn:W, (mf_wfv m F l) eqn:V; auto;
        assert (m_compare m r l = Invalid) by (apply (mf_invalid m F); auto); congruence. }
    destruct Hw as [-> ->]. cbn [negb orb]. destruct (m_exists m r (get_versions k d)); reflexivity.
  - apply (mf_invalid m F) in C. destruct C as [-> | ->]; cbn [negb orb]; [reflexivity | rewrite orb_true_r; reflexivity].
Qed.

(* the facts for each ecosystem's matcher *)
Definition npm_matcher : matcher := mkMatcher NpmMatcher.version_exists NpmMatcher.compare_to_latest.
Definition crates_matcher : matcher := mkMatcher CratesMatcher.version_exists CratesMatcher.compare_to_latest.
Definition go_matcher : matcher := mkMatcher GoMatcher.version_exists GoMatcher.compare_to_latest.
Definition gha_matcher : matcher := mkMatcher GhaMatcher.version_exists GhaMatcher.compare_to_latest.

Definition some_b {A} (o : option A) : bool := match o with Some _ => true | None => false end.

Lemma some_b_false {A} (o : option A) : some_b o = false <-> o = None.
Proof. destruct o; cbn; split; intro H; try discriminate; reflexivity. Qed.

Definition npm_facts : matcher_facts npm_matcher.
Proof.
  refine (mkMF npm_matcher (fun s => some_b (spec_parse s)) (fun l => some_b (SemVer.parse l)) _).
  intros s l. cbn [m_compare npm_matcher]. rewrite npm_compare_invalid, !some_b_false. reflexivity.
Defined.
Lemma npm_malformed_admits_nothing : malformed_admits_nothing npm_matcher npm_facts.
Proof. intros s vs H. cbn in H. apply some_b_false in H. cbn. apply npm_invalid_not_exists. exact H. Qed.

Definition crates_facts : matcher_facts crates_matcher.
Proof.
  refine (mkMF crates_matcher (fun s => some_b (cspec_parse s)) (fun l => some_b (SemVer.parse l)) _).
  intros s l. cbn [m_compare crates_matcher]. rewrite crates_compare_invalid, !some_b_false. reflexivity.
Defined.
Lemma crates_malformed_admits_nothing : malformed_admits_nothing crates_matcher crates_facts.
Proof. intros s vs H. cbn in H. apply some_b_false in H. cbn. apply crates_invalid_not_exists. exact H. Qed.

Definition gha_facts : matcher_facts gha_matcher.
Proof.
  refine (mkMF gha_matcher (fun s => some_b (normalize_parse s)) (fun l => some_b (normalize_parse l)) _).
  intros s l. cbn [m_compare gha_matcher]. rewrite gha_compare_invalid, !some_b_false. reflexivity.
Defined.
Lemma gha_malformed_admits_nothing : malformed_admits_nothing gha_matcher gha_facts.
Proof. intros s vs H. cbn in H. apply some_b_false in H. cbn. apply gha_invalid_not_exists. exact H. Qed.

Definition go_facts : matcher_facts go_matcher.
Proof.
  refine (mkMF go_matcher (fun s => some_b (parse_go_version s)) (fun l => some_b (parse_go_version l)) _).
  intros s l. cbn [m_compare go_matcher]. rewrite go_compare_invalid, !some_b_false. reflexivity.
Defined.
(* go.mod: a text of the pseudo-version shape whose base is not a version exists and is malformed at once *)
Lemma go_malformed_admits_refuted :
  let s := [118;120;45;50;48;50;49;48;49;48;49;48;48;48;48;48;48;45;97;98;99] in
  mf_wf go_matcher go_facts s = false /\ m_exists go_matcher s [] = true.
Proof. vm_compute. split; reflexivity. Qed.

(* Invalid beats NotFound; resolution precedes validity; messages quote the spec as written *)
Corollary invalid_beats_not_found ign k d m (F : matcher_facts m) cur l :
  get_latest_version ign k d = Some l -> get_dist_tag k cur d = None -> is_potential_dist_tag cur = false ->
  mf_wf m F cur = false ->
  diagnostic (storer_of ign k d) m cur = Some (SevError, s_invalid ++ cur).
Proof.
  intros HL Ht Hp Hw. pose proof (diagnostic_is_table ign k d m F cur) as H.
  unfold table, facts_of in H. cbn [f_latest f_tag_target f_known_tag f_wf f_wfv] in H.
  rewrite HL, Ht, Hp, Hw in H. cbn in H. exact H.
Qed.

Corollary unresolved_tag_is_silent ign k d m cur :
  get_dist_tag k cur d = None -> is_potential_dist_tag cur = true ->
  diagnostic (storer_of ign k d) m cur = None.
Proof.
  intros Ht Hp. unfold diagnostic, compare_version, storer_of. cbn [s_latest s_tag s_versions].
  destruct (get_latest_version ign k d); [|reflexivity]. rewrite Ht, Hp. reflexivity.
Qed.

Corollary not_cached_is_silent ign k d m cur :
  get_latest_version ign k d = None -> diagnostic (storer_of ign k d) m cur = None.
Proof. intro H. unfold diagnostic, compare_version, storer_of. cbn [s_latest]. rewrite H. reflexivity. Qed.

(* a failing read never produces a diagnostic (shared with C18) *)
Theorem failed_read_no_diagnostic st m cur :
  s_latest st = None \/ (exists l, s_latest st = Some (Some l) /\ s_tag st cur = None) ->
  diagnostic st m cur = None.
Proof.
  intros [H | [l [H1 H2]]]; unfold diagnostic, compare_version; [rewrite H | rewrite H1, H2]; reflexivity.
Qed.

(* no tag name contains the letter k: Unicode and ASCII lower-casing agree on membership *)
Lemma tags_have_no_k : forallb (fun t => negb (existsb (N.eqb 107) t)) known_dist_tags = true.
Proof. reflexivity. Qed.

(* the text of compare_version / create_diagnostic / generate_diagnostics the model was written against *)
Lemma pin_diag_literals :
  diag_literals = [s_update_available ++ [123;125] ++ s_arrow ++ [123;125]; s_unknown;
                   s_version_ ++ [123;125] ++ s_not_found; s_invalid ++ [123;125]].
Proof. reflexivity. Qed.

(* ---------- C18: a diagnostic is always backed by reads that all succeeded ---------- *)
Theorem diagnostic_backed_by_reads st m cur d :
  diagnostic st m cur = Some d ->
  exists l res all,
    s_latest st = Some (Some l) /\ s_tag st cur = Some res /\ s_versions st = Some all /\
    diagnostic (mkStorer (Some (Some l)) (fun _ => Some res) (Some all)) m cur = Some d.
Proof.
  unfold diagnostic, compare_version. cbn [s_latest s_tag s_versions].
  destruct (s_latest st) as [[l|]|]; try discriminate.
  destruct (s_tag st cur) as [res|]; try discriminate.
  destruct (match res with Some v => Some v | None => if is_potential_dist_tag cur then None else Some cur end) as [rv|] eqn:Er; [|discriminate].
  destruct (s_versions st) as [all|]; [|discriminate].
  intro H. exists l, res, all. rewrite Er. auto.
Qed.

(* a failed read of one dependency never affects another dependency: each is computed separately *)
Theorem diagnostics_independent st1 st2 m cur :
  s_latest st1 = s_latest st2 -> s_tag st1 cur = s_tag st2 cur -> s_versions st1 = s_versions st2 ->
  diagnostic st1 m cur = diagnostic st2 m cur.
Proof. intros H1 H2 H3. unfold diagnostic, compare_version. rewrite H1, H2, H3. reflexivity. Qed.

(* ---------- the contract on a class of specs: PEP 440 ---------- *)
(* pypi.rs decides the empty specifier set ("any version") before anything is parsed, so "Invalid iff a side does not
   parse" holds for the non-empty specs only; the empty spec has a verdict of its own below *)
Record matcher_facts_on (m : matcher) (dom : bytes -> bool) := mkMFon {
  mo_wf : bytes -> bool;
  mo_wfv : bytes -> bool;
  mo_invalid : forall s l, dom s = true -> (m_compare m s l = Invalid <-> mo_wf s = false \/ mo_wfv l = false) }.

Definition resolved_spec (k : key) (d : db) (cur : bytes) : option bytes :=
  match get_dist_tag k cur d with Some v => Some v | None => if is_potential_dist_tag cur then None else Some cur end.

Definition facts_on (ign : bool) (k : key) (d : db) (m : matcher) (dom : bytes -> bool) (F : matcher_facts_on m dom) (cur : bytes) : facts :=
  mkFacts (get_latest_version ign k d) (get_dist_tag k cur d) (is_potential_dist_tag cur)
          (mo_wf m dom F) (mo_wfv m dom F)
          (fun r => m_exists m r (get_versions k d))
          (fun r l => match m_compare m r l with Latest => true | _ => false end)
          (fun r l => match m_compare m r l with Outdated => true | _ => false end).

Theorem diagnostic_is_table_on ign k d m dom (F : matcher_facts_on m dom) cur :
  (forall r, resolved_spec k d cur = Some r -> dom r = true) ->
  verdict_of cur (diagnostic (storer_of ign k d) m cur) (table (facts_on ign k d m dom F cur) cur).
Proof.
  intros Hdom. unfold diagnostic, compare_version, storer_of, table, facts_on, resolved_spec in *.
  cbn [s_latest s_tag s_versions f_latest f_tag_target f_known_tag f_wf f_wfv f_some_inside f_latest_inside f_anchor_below].
  destruct (get_latest_version ign k d) as [l|]; [|reflexivity].
  set (resolved := match get_dist_tag k cur d with Some v => Some v | None => if is_potential_dist_tag cur then None else Some cur end) in *.
  destruct resolved as [r|]; [|reflexivity]. specialize (Hdom r eq_refl).
  destruct (m_compare m r l) eqn:C.
  - assert (Hw : mo_wf m dom F r = true /\ mo_wfv m dom F l = true).
    { destruct (mo_wf m dom F r) eqn:W, (mo_wfv m dom F l) eqn:V; auto;
        assert (m_compare m r l = Invalid) by (apply (mo_invalid m dom F _ _ Hdom); auto); congruence. }
    destruct Hw as [-> ->]. cbn [negb orb]. destruct (m_exists m r (get_versions k d)); reflexivity.
  - assert (Hw : mo_wf m dom F r = true /\ mo_wfv m dom F l = true).
    { destruct (mo_wf m dom F r) eqn:W, (mo_wfv m dom F l) eqn:V; auto;
        assert (m_compare m r l = Invalid) by (apply (mo_invalid m dom F _ _ Hdom); auto); congruence. }
    destruct Hw as [-> ->]. cbn [negb orb]. destruct (m_exists m r (get_versions k d)); reflexivity.
  - assert (Hw : mo_wf m dom F r = true /\ mo_wfv m dom F l = true).
    { destruct (mo_wf m dom F r) eqn:W, (mo_wfv m dom F l) eqn:V; auto;
        assert (m_compare m r l = Invalid) by (apply (mo_invalid m dom F _ _ Hdom); auto); congruence. }
    destruct Hw as [-> ->]. cbn [negb orb]. destruct (m_exists m r (get_versions k d)); reflexivity.
  - apply (mo_invalid m dom F _ _ Hdom) in C. destruct C as [-> | ->]; cbn [negb orb]; [reflexivity | rewrite orb_true_r; reflexivity].
Qed.

Section PypiFacts.
  Variable specs_ok : bytes -> bool.
  Variable ver_ok : bytes -> bool.
  Variable contains : bytes -> bytes -> bool.
  Variable ver_le : bytes -> bytes -> bool.
  Definition pypi_matcher : matcher :=
    mkMatcher (PypiMatcher.version_exists specs_ok ver_ok contains) (PypiMatcher.compare_to_latest specs_ok ver_ok contains ver_le).
  Definition nonempty (s : bytes) : bool := negb (beq s []).
  Definition pypi_facts : matcher_facts_on pypi_matcher nonempty.
  Proof.
    refine (mkMFon pypi_matcher nonempty specs_ok ver_ok _).
    intros s l Hs. cbn [m_compare pypi_matcher]. rewrite pypi_compare_invalid.
    assert (s <> []) as Hne by (intros ->; discriminate). split.
    - intros [_ [H|H]]; [now right|now left].
    - intros [H|H]; (split; [exact Hne|]); [now right|now left].
  Defined.
  (* the empty specifier set: nothing is shown as long as anything is cached for the package, whatever the latest is *)
  Lemma pypi_empty_spec ign k d l :
    get_latest_version ign k d = Some l -> resolved_spec k d [] = Some [] ->
    diagnostic (storer_of ign k d) pypi_matcher [] =
      match get_versions k d with [] => Some (SevError, s_version_ ++ s_not_found) | _ => None end.
  Proof.
    intros HL Hr. unfold diagnostic, compare_version, storer_of, resolved_spec in *. cbn [s_latest s_tag s_versions]. rewrite HL.
    destruct (get_dist_tag k [] d) as [v|].
    - injection Hr as ->. cbn. destruct (get_versions k d); reflexivity.
    - destruct (is_potential_dist_tag []); [discriminate|]. cbn. destruct (get_versions k d); reflexivity.
  Qed.
End PypiFacts.
