(* C02 for go.mod versions and GitHub Actions refs. *)
From Coq Require Import Arith.
From VL Require Import Lib.Bytes Lib.SemVer Model.SemverUtil Model.GoMatcher Model.GhaMatcher
  Spec.GoGha Proofs.SemVerOrder.

(* ---------- bytes helpers ---------- *)
Lemma strip_prefix_spec p s r : strip_prefix p s = Some r <-> s = p ++ r.
Proof.
  revert s; induction p as [|x p IH]; intros s; cbn.
  - split; [intros [= ->]; reflexivity | intros ->; reflexivity].
  - destruct s as [|y s]; [split; [discriminate | intros H; discriminate]|].
    destruct (N.eqb_spec x y) as [->|Hne].
    + rewrite IH. split; [intros ->; reflexivity | intros [= ->]; reflexivity].
    + split; [discriminate | intros [= H1 H2]; congruence].
Qed.

Lemma strip_prefix_starts p s : starts_with p s = true <-> exists r, strip_prefix p s = Some r.
Proof.
  rewrite starts_with_spec. split; intros [r H]; exists r; apply strip_prefix_spec; assumption.
Qed.

Lemma strip_prefix_none p s : starts_with p s = false -> strip_prefix p s = None.
Proof.
  intro H. destruct (strip_prefix p s) eqn:E; [|reflexivity].
  assert (starts_with p s = true) by (apply strip_prefix_starts; eauto). congruence.
Qed.

(* ---------- Go ---------- *)
Lemma normalize_is_core s : normalize_go_version s = go_core s.
Proof.
  unfold normalize_go_version, go_core.
  assert (E1 : match strip_prefix [118] s with Some r => r | None => s end =
               match s with 118 :: t => t | _ => s end).
  { destruct s as [|c s]; [reflexivity|]. cbn. destruct (N.eqb_spec 118 c) as [<-|Hne]; [reflexivity|].
    destruct c as [|c]; [reflexivity|]. 
    repeat (destruct c as [c|c|]; try reflexivity); exfalso; apply Hne; reflexivity. }
  rewrite E1. set (s1 := match s with 118 :: t => t | _ => s end).
  unfold strip_suffix, ends_with. change s_incompatible with s_incompat.
  destruct (starts_with (rev s_incompat) (rev s1)) eqn:E.
  - apply strip_prefix_starts in E as [r Hr]. rewrite Hr. apply strip_prefix_spec in Hr.
    apply (f_equal (@rev N)) in Hr. rewrite rev_involutive, rev_app_distr, rev_involutive in Hr.
    rewrite Hr. rewrite app_length. 
    replace (length (rev r) + length s_incompat - length s_incompat)%nat with (length (rev r)) by lia.
    rewrite firstn_app, firstn_all, PeanoNat.Nat.sub_diag. cbn [firstn]. rewrite app_nil_r. reflexivity.
  - rewrite (strip_prefix_none _ _ E). reflexivity.
Qed.

Theorem go_exists_spec s vs :
  GoMatcher.version_exists s vs = true <->
  is_pseudo_version s = true \/ exists v, In v vs /\ go_same s v = true.
Proof.
  unfold GoMatcher.version_exists, go_same. destruct (is_pseudo_version s); [tauto|].
  rewrite existsb_exists. split.
  - intros [v [Hin Hb]]. right. exists v. split; [exact Hin|].
    rewrite <- !normalize_is_core. apply beq_eq in Hb. rewrite Hb. apply beq_refl.
  - intros [H | [v [Hin Hb]]]; [discriminate|]. exists v. split; [exact Hin|].
    rewrite <- !normalize_is_core in Hb. apply beq_eq in Hb. rewrite Hb. apply beq_refl.
Qed.

Theorem go_compare_invalid cur latest :
  GoMatcher.compare_to_latest cur latest = Invalid <->
  parse_go_version cur = None \/ parse_go_version latest = None.
Proof.
  unfold GoMatcher.compare_to_latest.
  destruct (parse_go_version cur) as [[cv ct]|]; [|tauto].
  destruct (parse_go_version latest) as [[lv lt]|]; [|tauto].
  destruct (vcmp cv lv); [destruct ct, lt; [destruct (bcmp b b0)| | |]| |];
    cbn; split; try discriminate; intros [H|H]; discriminate.
Qed.

(* ---------- GitHub Actions ---------- *)
Lemma trim0_zeros x : exists k, x = repeat 48 k ++ trim0 x.
Proof.
  unfold trim0. induction x as [|c x [k IH]]; [exists 0%nat; reflexivity|].
  cbn [drop_while]. destruct (N.eqb_spec 48 c) as [<-|Hne].
  - exists (S k). cbn. rewrite <- IH. reflexivity.
  - exists 0%nat. reflexivity.
Qed.

Lemma cmp_build_segs_eq a b : cmp_build_segs a b = Eq -> a = b.
Proof.
  revert b; induction a as [|x a IH]; intros [|y b]; cbn; intro H; try reflexivity; try discriminate.
  destruct (all_digits x), (all_digits y); try discriminate.
  - apply then_cmp_eq in H as [H1 H2]. apply then_cmp_eq in H1 as [H1 H3].
    apply then_cmp_eq in H1 as [_ H1]. apply bcmp_eq in H1.
    apply N.compare_eq in H3. unfold blen in H3. apply Nat2N.inj in H3.
    destruct (trim0_zeros x) as [k Hx], (trim0_zeros y) as [k' Hy].
    assert (k = k').
    { rewrite Hx, Hy, !app_length, !repeat_length, H1 in H3. lia. }
    subst k'. f_equal; [rewrite Hx, Hy, H1; reflexivity | apply IH; exact H2].
  - apply then_cmp_eq in H as [H1 H2]. apply bcmp_eq in H1. subst. f_equal. apply IH; exact H2.
Qed.

Lemma cmp_build_eq a b : cmp_build a b = Eq -> a = b.
Proof. unfold cmp_build. intro H. apply cmp_build_segs_eq in H. apply split_char_inj in H. exact H. Qed.

Lemma cmp_build_segs_refl l : cmp_build_segs l l = Eq.
Proof.
  induction l as [|x l IH]; cbn; [reflexivity|].
  destruct (all_digits x); rewrite ?N.compare_refl, ?bcmp_refl; cbn; exact IH.
Qed.

Lemma vcmp_eq_iff a b : vcmp a b = Eq <-> v_eq a b = true.
Proof.
  unfold vcmp, prec, v_eq. rewrite !then_cmp_eq, !andb_true_iff, !N.eqb_eq, !beq_eq, !N.compare_eq_iff.
  split.
  - intros [[H1 [H2 [H3 H4]]] H5]. apply cmp_pre_eq in H4. apply cmp_build_eq in H5. tauto.
  - intros [[[[H1 H2] H3] H4] H5]. rewrite H4, H5. 
    repeat split; try assumption; [apply cmp_pre_refl | apply cmp_build_segs_refl].
Qed.

Theorem gha_same_relation cur latest c l :
  normalize_parse cur = Some c -> normalize_parse latest = Some l ->
  (GhaMatcher.compare_to_latest cur latest = Latest <-> GhaMatcher.version_exists cur [latest] = true).
Proof.
  intros Hc Hl. unfold GhaMatcher.compare_to_latest, GhaMatcher.version_exists. rewrite Hc, Hl.
  cbn [existsb]. rewrite Hl, orb_false_r. unfold matches.
  destruct (count_version_parts cur) as [|[|[|n]]].
  - unfold of_cmp. rewrite <- vcmp_eq_iff. destruct (vcmp c l); split; intro H; try discriminate; reflexivity.
  - unfold of_cmp. rewrite N.eqb_eq, <- N.compare_eq_iff.
    destruct (N.compare (major c) (major l)); split; intro H; try discriminate; reflexivity.
  - unfold of_cmp. rewrite andb_true_iff, !N.eqb_eq, <- !N.compare_eq_iff.
    destruct (N.compare (major c) (major l)), (N.compare (minor c) (minor l)); cbn;
      split; intro H; try discriminate; try tauto; destruct H; discriminate.
  - unfold of_cmp. rewrite <- vcmp_eq_iff. destruct (vcmp c l); split; intro H; try discriminate; reflexivity.
Qed.

Theorem gha_compare_invalid cur latest :
  GhaMatcher.compare_to_latest cur latest = Invalid <->
  normalize_parse cur = None \/ normalize_parse latest = None.
Proof.
  unfold GhaMatcher.compare_to_latest.
  destruct (normalize_parse cur) as [c|]; [|tauto].
  destruct (normalize_parse latest) as [l|]; [|tauto].
  destruct (count_version_parts cur) as [|[|[|n]]]; unfold of_cmp.
  - destruct (vcmp c l); split; try discriminate; intros [H|H]; discriminate.
  - destruct (N.compare (major c) (major l)); split; try discriminate; intros [H|H]; discriminate.
  - destruct (then_cmp _ _); split; try discriminate; intros [H|H]; discriminate.
  - destruct (vcmp c l); split; try discriminate; intros [H|H]; discriminate.
Qed.

Theorem gha_invalid_not_exists cur vs : normalize_parse cur = None -> GhaMatcher.version_exists cur vs = false.
Proof. intro H. unfold GhaMatcher.version_exists. rewrite H. reflexivity. Qed.

(* a ref the matcher accepts is version-like (so a ref that is not version-like is reported Invalid, by gha_compare_invalid) *)
Lemma gha_accepts_ref_like s : normalize_parse s <> None -> ref_like s = true.
Proof.
  unfold normalize_parse, ref_like. change (strip_v s) with (strip_vV s). destruct (strip_vV s) as [|x t]; [congruence|].
  destruct (split_once 45 (x :: t)) as [[b p]|].
  - destruct (split_char 46 b) as [|a1 [|a2 [|a3 [|a4 r]]]]; congruence.
  - destruct (split_char 46 (x :: t)) as [|a1 [|a2 [|a3 [|a4 r]]]]; congruence.
Qed.
