(* Rust's str::trim leaves a string alone whose first and last bytes are printable ASCII other than the blank
   (every Unicode White_Space sequence starts and ends with a byte <= 32 or >= 128). *)
From Coq Require Import ZArith Lia.
From VL Require Import Lib.Bytes.

Definition printable (c : N) : bool := (32 <? c) && (c <? 128).
Lemma strip_prefix_head b r c t : (b =? c) = false -> strip_prefix (b :: r) (c :: t) = None.
Proof. intros H. cbn [strip_prefix]. now rewrite H. Qed.
Lemma strip_any_printable c t : printable c = true -> strip_any ws_seqs (c :: t) = None /\ strip_any ws_seqs_rev (c :: t) = None.
Proof.
  unfold printable. intros H. apply andb_true_iff in H as [H1 H2]. apply N.ltb_lt in H1, H2.
  split; cbv [ws_seqs ws_seqs_rev map rev app strip_any];
  repeat (rewrite strip_prefix_head by (apply N.eqb_neq; lia)); reflexivity.
Qed.
Lemma last_printable (s : bytes) : s <> [] -> forallb printable s = true -> exists c t, rev s = c :: t /\ printable c = true.
Proof.
  intros Hne Hall. destruct (rev s) as [|c t] eqn:E.
  - exfalso. apply Hne. rewrite <- (rev_involutive s), E. reflexivity.
  - exists c, t. split; [reflexivity|]. rewrite forallb_forall in Hall. apply Hall. apply in_rev. rewrite E. now left.
Qed.
Lemma trim_printable s : forallb printable s = true -> trim s = s.
Proof.
  intros H. destruct s as [|c t]; [reflexivity|].
  assert (trim_start (c :: t) = c :: t) as Hs.
  { unfold trim_start. cbn [length trim_start_fuel]. cbn [forallb] in H. apply andb_true_iff in H as [Hc _]. now rewrite (proj1 (strip_any_printable c t Hc)). }
  unfold trim. rewrite Hs. unfold trim_end.
  destruct (last_printable (c :: t) ltac:(discriminate) H) as [c' [t' [Er Hc']]]. rewrite Er.
  assert (length (c :: t) = S (length t)) as -> by reflexivity. cbn [trim_start_with].
  rewrite (proj2 (strip_any_printable c' t' Hc')). rewrite <- Er. apply rev_involutive.
Qed.
