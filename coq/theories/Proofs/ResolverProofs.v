(* C16: each ecosystem is parsed, matched and fetched with its own components.
   The table is regenerated from src/lsp/resolver.rs and from what each
   parser / matcher / registry adapter declares about itself. *)
From VL Require Import Lib.Bytes Lib.Reg Gen.GenResolver.

(* the registry an ecosystem's packages are fetched from: pnpm catalogs hold
   npm packages, everything else has its own registry *)
Definition source_of (r : registry) : registry :=
  match r with PnpmCatalog => Npm | _ => r end.

Definition row_ok (row : registry * (registry * registry * registry)) : bool :=
  let '(k, (p, m, g)) := row in
  reg_eqb p k && reg_eqb m k && reg_eqb g (source_of k).

Definition lookup (k : registry) : option (registry * registry * registry) :=
  option_map snd (find (fun row => reg_eqb (fst row) k) resolver_table).

Theorem resolver_consistent :
  forall k, exists p m g, lookup k = Some (p, m, g) /\ p = k /\ m = k /\ g = source_of k.
Proof.
  intro k. destruct k; vm_compute; eexists _, _, _; repeat split.
Qed.

Theorem resolver_no_duplicates : length resolver_table = length all_registries.
Proof. reflexivity. Qed.
