(* C09: at most one fetcher owns a package until release or expiry. *)
From Coq Require Import ZArith Lia.
From VL Require Import Lib.Bytes Model.CacheDb Model.CacheSched Spec.AbsCache Proofs.CacheProofs.

(* the claim column of a key *)
Definition claim_of (d : db) (k : key) : option Z :=
  match abs d k with Some e => a_claim e | None => None end.
Definition known (d : db) (k : key) : bool := match abs d k with Some _ => true | None => false end.

(* ---- the two statements ---- *)
Lemma stmt1_spec T k now d d' ok :
  Inv d -> try_start_fetch_stmt1 T k now d = (d', ok) ->
  Inv d' /\
  (ok = true -> known d k = true /\ (match claim_of d k with None => True | Some s => (s < now - T)%Z end) /\
                claim_of d' k = Some now) /\
  (ok = false -> d' = d) /\
  (forall k', k' <> k -> abs d' k' = abs d k') /\
  (forall k', known d k' = true -> known d' k' = true).
Proof.
  intros HI H. unfold try_start_fetch_stmt1 in H. unfold claim_of, known.
  destruct (find_pkg d k) as [p|] eqn:Hf.
  - assert (Habs : abs d k = Some (mkA (vers_of d (p_id p)) (tags_of d (p_id p)) (p_notfound p) (p_updated p) (p_fetching p)))
      by (unfold abs; rewrite Hf; reflexivity).
    destruct (match p_fetching p with None => true | Some s => (s <? now - T)%Z end) eqn:Efree; inversion H; subst; clear H.
    + set (f := fun q => mkPkg (p_id q) (p_key q) (p_updated q) (Some now) (p_notfound q)).
      split; [apply (Inv_upd d k f (next_id d)); auto; lia|].
      split; [intros _; rewrite Habs; cbn [a_claim]; split; [reflexivity|]; split|].
      * destruct (p_fetching p); [apply Z.ltb_lt; exact Efree | exact I].
      * rewrite (abs_upd_same d k f (next_id d) p); auto.
      * split; [discriminate|]. split.
        -- intros k' Hne. apply (abs_upd_other d k k' f (next_id d)); auto.
        -- intros k' Hk'. destruct (key_eqb k k') eqn:E.
           ++ apply key_eqb_eq in E. subst k'. rewrite (abs_upd_same d k f (next_id d) p); auto.
           ++ apply key_eqb_neq in E. rewrite (abs_upd_other d k k' f (next_id d)); auto.
    + split; [exact HI|]. split; [discriminate|]. split; [reflexivity|]. split; auto.
  - inversion H; subst. split; [exact HI|]. split; [discriminate|]. split; [reflexivity|]. split; auto.
Qed.

Lemma stmt2_spec k now d d' ok :
  Inv d -> try_start_fetch_stmt2 k now d = (d', ok) ->
  Inv d' /\
  (ok = true -> known d k = false /\ claim_of d' k = Some now) /\
  (ok = false -> forall k', abs d' k' = abs d k') /\
  (forall k', k' <> k -> abs d' k' = abs d k') /\
  (forall k', known d k' = true -> known d' k' = true).
Proof.
  intros HI H. unfold try_start_fetch_stmt2 in H. unfold claim_of, known.
  destruct (find_pkg d k) as [p|] eqn:Hf; inversion H; subst; clear H.
  - split; [apply Inv_bump; [lia | exact HI]|]. split; [discriminate|].
    assert (E : forall k', abs (mkDb (pkgs d) (vers d) (tags d) (next_id d + 1)) k' = abs d k')
      by (intro k'; apply abs_frame; reflexivity).
    split; [intros _; exact E|]. split; [intros k' _; apply E|]. intros k' Hk'. rewrite E. exact Hk'.
  - split; [apply (Inv_append_new d k now (Some now) false HI Hf)|].
    assert (Happ := fun k' => abs_append_new d k now (Some now) false k' HI Hf).
    split; [intros _; split; [unfold abs; rewrite Hf; reflexivity | rewrite Happ, key_eqb_refl; reflexivity]|].
    split; [discriminate|]. split.
    + intros k' Hne. rewrite Happ. assert (key_eqb k k' = false) as -> by (apply key_eqb_neq; congruence). reflexivity.
    + intros k' Hk'. rewrite Happ. destruct (key_eqb k k'); [reflexivity | exact Hk'].
Qed.

(* atomic non-claim operations: the claim column changes only by a release; rows are never deleted *)
Lemma atomic_claim_of T o d k :
  Inv d -> is_claim o = false ->
  claim_of (c_step T o d) k = (match o with ORelease k' => if key_eqb k' k then None else claim_of d k | _ => claim_of d k end) /\
  (known d k = true -> known (c_step T o d) k = true).
Proof.
  intros HI Hc. destruct (step_refines T o d HI) as [_ Hs]. unfold claim_of, known. rewrite Hs.
  destruct o as [k0 vs now | k0 m now | k0 | k0 now | k0]; cbn [a_step is_claim] in *; try discriminate.
  - destruct (key_eqb k0 k); [|tauto]. destruct (abs d k); cbn; tauto.
  - destruct m; [tauto|]. destruct (key_eqb k0 k); [|tauto]. destruct (abs d k); cbn; tauto.
  - destruct (key_eqb k0 k); [|tauto]. destruct (abs d k); cbn; tauto.
  - destruct (key_eqb k0 k); [|tauto]. destruct (abs d k); cbn; tauto.
Qed.

(* ---- the invariant linking the event log to the claim column ---- *)
Definition Agree (d : db) (evs : list event) (acc0 : key -> option Z) : Prop :=
  forall k t, holder k evs (acc0 k) = Some t -> claim_of d k = Some t /\ known d k = true.

Lemma holder_app k e1 e2 acc : holder k (e1 ++ e2) acc = holder k e2 (holder k e1 acc).
Proof.
  revert acc; induction e1 as [|e l IH]; intro acc; cbn [app holder]; [reflexivity|].
  destruct e as [h k' now ok | k' | ]; [destruct ok|..]; apply IH.
Qed.

(* a successful claim event finds the previous holder expired *)
Definition claims_exclusive (T : Z) (evs : list event) : Prop :=
  forall pre h k now post, evs = pre ++ EClaim h k now true :: post ->
  match holder k pre None with None => True | Some t => (t < now - T)%Z end.

Theorem sched_exclusive T steps :
  forall st, Inv (s_db st) ->
  forall hold : key -> option Z,
  (forall k t, hold k = Some t -> claim_of (s_db st) k = Some t /\ known (s_db st) k = true) ->
  let '(st', evs) := sched_run T st steps in
  Inv (s_db st') /\
  (forall k t, holder k evs (hold k) = Some t -> claim_of (s_db st') k = Some t /\ known (s_db st') k = true) /\
  (forall pre h k now post, evs = pre ++ EClaim h k now true :: post ->
     match holder k pre (hold k) with None => True | Some t => (t < now - T)%Z end).
Proof.
  induction steps as [|s steps IH]; intros st HI hold Hag; cbn [sched_run].
  - split; [exact HI|]. split; [exact Hag|]. intros pre h k now post E. destruct pre; discriminate.
  - destruct (sched_step T st s) as [st1 e1] eqn:Es.
    (* one step: new invariant, new agreement, and exclusivity of the events it emits *)
    assert (Hstep : Inv (s_db st1) /\
              (forall k t, holder k e1 (hold k) = Some t -> claim_of (s_db st1) k = Some t /\ known (s_db st1) k = true) /\
              (forall pre h k now post, e1 = pre ++ EClaim h k now true :: post ->
                 pre = [] /\ post = [] /\ match hold k with None => True | Some t => (t < now - T)%Z end)).
    { destruct s as [o | h k now | h | h]; cbn [sched_step] in Es.
      - destruct (is_claim o) eqn:Ec; inversion Es; subst; clear Es.
        + split; [exact HI|]. split; [exact Hag|]. intros pre h k now post E. destruct pre; discriminate.
        + cbn [s_db]. destruct (step_refines T o (s_db st) HI) as [HI' _]. split; [exact HI'|]. split.
          * intros k t Ht. destruct (atomic_claim_of T o (s_db st) k HI Ec) as [Hc Hk].
            destruct o as [k0 vs now0 | k0 m now0 | k0 | k0 now0 | k0]; cbn [holder] in Ht; try discriminate Ec.
            -- destruct (Hag k t Ht) as [A B]. rewrite Hc. auto.
            -- destruct (Hag k t Ht) as [A B]. rewrite Hc. auto.
            -- destruct (Hag k t Ht) as [A B]. rewrite Hc. auto.
            -- destruct (key_eqb k0 k) eqn:E; [discriminate|]. destruct (Hag k t Ht) as [A B]. rewrite Hc. auto.
          * intros pre h k now post E. destruct o; destruct pre as [|x [|y pre]]; cbn in E; discriminate.
      - destruct (pending_of h (s_pending st)) eqn:Ep.
        + inversion Es; subst. split; [exact HI|]. split; [exact Hag|]. intros pre h' k' now' post E. destruct pre; discriminate.
        + destruct (try_start_fetch_stmt1 T k now (s_db st)) as [d' ok] eqn:E1.
          destruct (stmt1_spec T k now (s_db st) d' ok HI E1) as [HI' [Hok [Hfail [Hoth Hkn]]]].
          destruct ok; inversion Es; subst; clear Es; cbn [s_db].
          * destruct (Hok eq_refl) as [Hk [Hexp Hnew]]. split; [exact HI'|]. split.
            -- intros k' t Ht. cbn [holder] in Ht. destruct (key_eqb k k') eqn:E.
               ++ apply key_eqb_eq in E. subst k'. inversion Ht; subst t. split; [exact Hnew | apply Hkn; exact Hk].
               ++ apply key_eqb_neq in E. destruct (Hag k' t Ht) as [A B]. unfold claim_of, known in *.
                  rewrite Hoth by congruence. auto.
            -- intros pre h' k' now' post E. destruct pre as [|x pre]; [|destruct pre; discriminate].
               cbn in E. inversion E; subst. split; [reflexivity|]. split; [reflexivity|].
               destruct (hold k') as [t|] eqn:Eh; [|exact I]. destruct (Hag k' t Eh) as [A _]. rewrite A in Hexp. exact Hexp.
          * rewrite (Hfail eq_refl). split; [exact HI|]. split; [exact Hag|].
            intros pre h' k' now' post E. destruct pre; discriminate.
      - destruct (pending_of h (s_pending st)) as [[k now]|] eqn:Ep.
        + destruct (try_start_fetch_stmt2 k now (s_db st)) as [d' ok] eqn:E2.
          destruct (stmt2_spec k now (s_db st) d' ok HI E2) as [HI' [Hok [Hfail [Hoth Hkn]]]].
          inversion Es; subst; clear Es; cbn [s_db]. split; [exact HI'|]. destruct ok.
          * destruct (Hok eq_refl) as [Hunk Hnew]. split.
            -- intros k' t Ht. cbn [holder] in Ht. destruct (key_eqb k k') eqn:E.
               ++ apply key_eqb_eq in E. subst k'. inversion Ht; subst t. split; [exact Hnew|].
                  unfold known, claim_of in *. destruct (abs d' k); [reflexivity | discriminate].
               ++ apply key_eqb_neq in E. destruct (Hag k' t Ht) as [A B]. unfold claim_of, known in *.
                  rewrite Hoth by congruence. auto.
            -- intros pre h' k' now' post E. destruct pre as [|x pre]; [|destruct pre; discriminate].
               cbn in E. inversion E; subst. split; [reflexivity|]. split; [reflexivity|].
               destruct (hold k') as [t|] eqn:Eh; [|exact I]. destruct (Hag k' t Eh) as [_ B]. congruence.
          * split.
            -- intros k' t Ht. cbn [holder] in Ht. destruct (Hag k' t Ht) as [A B]. unfold claim_of, known in *.
               rewrite (Hfail eq_refl). auto.
            -- intros pre h' k' now' post E. destruct pre as [|x pre]; [cbn in E; discriminate | destruct pre; discriminate].
        + inversion Es; subst. split; [exact HI|]. split; [exact Hag|]. intros pre h' k' now' post E. destruct pre; discriminate.
      - inversion Es; subst. cbn [s_db]. split; [exact HI|]. split; [exact Hag|].
        intros pre h' k' now' post E. destruct pre; discriminate. }
    destruct Hstep as [HI1 [Hag1 Hex1]].
    specialize (IH st1 HI1 (fun k => holder k e1 (hold k)) Hag1).
    destruct (sched_run T st1 steps) as [st2 e2]. destruct IH as [HI2 [Hag2 Hex2]].
    split; [exact HI2|]. split.
    + intros k t Ht. rewrite holder_app in Ht. apply Hag2. exact Ht.
    + intros pre h k now post E.
      (* the claim event is either the one of this step or lies in the rest *)
      destruct e1 as [|x e1'].
      * cbn [app] in E. specialize (Hex2 pre h k now post E). cbn [holder] in Hex2. exact Hex2.
      * assert (He1 : e1' = []).
        { destruct s as [o | h0 k0 now0 | h0 | h0]; cbn [sched_step] in Es.
          - destruct (is_claim o); inversion Es; reflexivity.
          - destruct (pending_of h0 (s_pending st)); [inversion Es|].
            destruct (try_start_fetch_stmt1 T k0 now0 (s_db st)) as [d' ok]. destruct ok; inversion Es; reflexivity.
          - destruct (pending_of h0 (s_pending st)) as [[k1 now1]|]; [|inversion Es].
            destruct (try_start_fetch_stmt2 k1 now1 (s_db st)). inversion Es; reflexivity.
          - inversion Es. }
        subst e1'. destruct pre as [|y pre].
        -- cbn [app] in E. inversion E; subst x e2.
           destruct (Hex1 [] h k now [] eq_refl) as [_ [_ H]]. cbn [holder]. exact H.
        -- cbn [app] in E. inversion E; subst y. specialize (Hex2 pre h k now post H1).
           rewrite (holder_app k [x] pre). exact Hex2.
Qed.

(* from the empty cache, with no one holding anything *)
Corollary sched_exclusive_from_empty T steps :
  claims_exclusive T (snd (sched_run T (mkS empty_db []) steps)).
Proof.
  pose proof (sched_exclusive T steps (mkS empty_db []) Inv_empty (fun _ => None)) as H.
  destruct (sched_run T (mkS empty_db []) steps) as [st evs]. cbn [snd].
  destruct H as [_ [_ H]]; [intros k t E; discriminate|]. exact H.
Qed.

(* a failed claim attempt changes nothing observable *)
Theorem failed_claim_no_effect T k now d :
  Inv d -> snd (try_start_fetch T k now d) = false ->
  forall k', abs (fst (try_start_fetch T k now d)) k' = abs d k'.
Proof.
  intros HI Hf k'. unfold try_start_fetch in *.
  destruct (try_start_fetch_stmt1 T k now d) as [d1 ok1] eqn:E1.
  destruct (stmt1_spec T k now d d1 ok1 HI E1) as [HI1 [_ [Hfail1 _]]].
  destruct ok1; [cbn in Hf; discriminate|]. rewrite (Hfail1 eq_refl) in *.
  destruct (try_start_fetch_stmt2 k now d) as [d2 ok2] eqn:E2. cbn [fst snd] in *. subst ok2.
  destruct (stmt2_spec k now d d2 false HI E2) as [_ [_ [Hfail2 _]]]. apply Hfail2. reflexivity.
Qed.

(* expiry is strict: a claim taken at [since] can be taken over exactly when now - since > T *)
Theorem expiry_boundary T k since now d e :
  Inv d -> abs d k = Some e -> a_claim e = Some since ->
  (snd (try_start_fetch T k now d) = true <-> (now - since > T)%Z).
Proof.
  intros HI Ha Hc. destruct (claim_refines T k now d HI) as [_ [_ Hr]]. rewrite Hr.
  unfold a_claim_ok. rewrite Ha, Hc. rewrite Z.ltb_lt. lia.
Qed.

(* claims on other keys (other packages, or the same name in another registry) are independent *)
Theorem claims_independent T k k' now d :
  Inv d -> k <> k' -> abs (fst (try_start_fetch T k now d)) k' = abs d k'.
Proof.
  intros HI Hne. destruct (claim_refines T k now d HI) as [_ [H _]]. rewrite H. apply a_step_other. exact Hne.
Qed.
