(* C05 for GitHub Actions workflows: on every tree-sitter-yaml tree that denotes a YAML value, every
   location the walk of github_actions.rs reports covers exactly the ref text (the tag, or the hash of a
   hash-pinned step) - or it ends in a quote character, which is the listed class
   C05-quoted-uses-range-shifted (the offset of '@' is taken on the unquoted text and added to the start
   of the quoted token). *)
From Coq Require Import ZArith Lia.
From VL Require Import Lib.Bytes Lib.Text Lib.Cst Gen.GenParsers Model.Walks Spec.YamlDoc Spec.GhaLoc
  Proofs.JsonWalkProofs Proofs.CstProofs Proofs.YamlWalkProofs Proofs.GhaWalkProofs.

(* ---------- slices ---------- *)
Lemma skipn_add {A} (l : list A) : forall a b, skipn a (skipn b l) = skipn (b + a) l.
Proof.
  induction l as [|x t IH]; intros a b; [now rewrite !skipn_nil|].
  destruct b as [|b]; [reflexivity|]. cbn [skipn Nat.add]. apply IH.
Qed.
Lemma slice_tail content sb eb t k :
  slice content sb eb = Some t -> k <= blen t -> slice content (sb + k) eb = Some (skipn_N k t).
Proof.
  intros Es Hk. pose proof (slice_length _ _ _ _ Es) as Hlen. unfold slice, firstn_N, skipn_N in *.
  destruct ((sb <=? eb) && (eb <=? blen content)) eqn:Eb; [|discriminate].
  apply andb_true_iff in Eb as [E1 E2]. apply N.leb_le in E1, E2.
  assert ((sb + k <=? eb) && (eb <=? blen content) = true) as ->.
  { apply andb_true_iff. split; apply N.leb_le; lia. }
  injection Es as <-. f_equal. rewrite skipn_firstn_comm, skipn_add. f_equal; [lia|]. f_equal. lia.
Qed.
Lemma find_char_aux_bound c s : forall i a, find_char_aux c s i = Some a -> i <= a /\ a < i + blen s.
Proof.
  induction s as [|x t IH]; intros i a H; [discriminate|]. cbn [find_char_aux] in H.
  assert (blen (x :: t) = blen t + 1) as Hb by (unfold blen; cbn [length]; lia). rewrite Hb.
  destruct (x =? c).
  - injection H as <-. lia.
  - apply IH in H. lia.
Qed.
Lemma find_char_lt c s a : find_char c s = Some a -> a < blen s.
Proof. intros H. apply find_char_aux_bound in H. lia. Qed.
Lemma slice_last content sb eb q inner q' :
  slice content sb eb = Some (q :: inner ++ [q']) -> slice content (eb - 1) eb = Some [q'].
Proof.
  intros Es. pose proof (slice_length _ _ _ _ Es) as Hlen.
  assert (blen (q :: inner ++ [q']) = blen inner + 2) as Hl2.
  { unfold blen. cbn [length]. rewrite app_length. cbn [length]. lia. }
  assert (sb <= eb) as Hle.
  { unfold slice in Es. destruct ((sb <=? eb) && (eb <=? blen content)) eqn:E; [|discriminate]. apply andb_true_iff in E as [E _]. now apply N.leb_le. }
  pose proof (slice_tail content sb eb _ (blen inner + 1) Es) as T. rewrite Hl2 in T, Hlen. specialize (T ltac:(lia)).
  replace (sb + (blen inner + 1)) with (eb - 1) in T by lia. rewrite T. f_equal.
  unfold skipn_N, blen. replace (N.to_nat (N.of_nat (length inner) + 1)) with (length (q :: inner)) by (cbn [length]; lia).
  change (q :: inner ++ [q']) with ((q :: inner) ++ [q']). rewrite skipn_app, skipn_all, Nat.sub_diag. reflexivity.
Qed.

(* ---------- one uses: value ---------- *)
Lemma quoted_first t q r : quoted_test t = true -> t = q :: r -> q = 34 \/ q = 39.
Proof.
  intros H ->. unfold quoted_test in H. cbn [starts_with] in H. apply orb_true_iff in H as [H|H]; apply andb_true_iff in H as [H _].
  - destruct (39 =? q) eqn:E; [apply N.eqb_eq in E; now right|discriminate].
  - destruct (34 =? q) eqn:E; [apply N.eqb_eq in E; now left|discriminate].
Qed.
Lemma parse_uses_loc content s vn t pk :
  node_text content vn = Some t -> scalar_reading t s -> parse_uses_value content s vn = Some pk ->
  Forall (gha_loc_fine content) pk.
Proof.
  intros Tv Rv H. destruct (reading_value _ _ Rv) as [_ [Hs [_ [_ Hshape]]]]. unfold node_text in Tv.
  assert (forall name ver hash ci at_, find_char 64 s = Some at_ -> ref_of (mkPkg name ver hash (n_sb vn + (at_ + 1)) (n_eb vn) (n_row vn) (n_col vn + (at_ + 1)) ci) = skipn_N (at_ + 1) s ->
          gha_loc_fine content (mkPkg name ver hash (n_sb vn + (at_ + 1)) (n_eb vn) (n_row vn) (n_col vn + (at_ + 1)) ci)) as Hone.
  { intros name ver hash ci at_ Hf Href. apply find_char_lt in Hf. destruct (quoted_test t) eqn:Eq.
    - right. destruct (Hshape eq_refl) as [q Ht]. destruct (quoted_first _ _ _ Eq Ht) as [Hq|Hq];
        unfold ends_quoted; cbn [p_end]; rewrite Ht in Tv; rewrite (slice_last _ _ _ _ _ _ Tv); subst q; reflexivity.
    - left. injection Hs as <-. unfold gha_loc_fine. cbn [p_start p_end]. rewrite Href.
      pose proof (slice_length _ _ _ _ Tv) as Hlen.
      assert (n_sb vn <= n_eb vn) as Hle.
      { unfold slice in Tv. destruct ((n_sb vn <=? n_eb vn) && (n_eb vn <=? blen content)) eqn:E; [|discriminate]. apply andb_true_iff in E as [E _]. now apply N.leb_le. }
      split; [apply (slice_tail _ _ _ _ _ Tv); lia|lia]. }
  unfold parse_uses_value in H. destruct (find_char 64 s) as [at_|] eqn:Ef; [|injection H as <-; constructor].
  destruct (split_char 47 (firstn_N at_ s)) as [|owner [|repo rest]]; try (injection H as <-; constructor).
  destruct (is_hash40 (skipn_N (at_ + 1) s)).
  - destruct (line_comment content (n_sb vn)) as [ci|]; [|discriminate]. cbn [bind] in H. injection H as <-.
    constructor; [|constructor]. apply Hone; reflexivity.
  - injection H as <-. constructor; [|constructor]. apply Hone; reflexivity.
Qed.

(* ---------- every uses: below a node ---------- *)
Lemma concat_forall {A} (W : A -> option (list pkg)) (P : pkg -> Prop) l :
  Forall (fun c => forall pc, W c = Some pc -> Forall P pc) l ->
  forall pk, concat_opt W l = Some pk -> Forall P pk.
Proof.
  induction 1 as [|x t Hx _ IH]; intros pk H.
  - cbn in H. injection H as <-. constructor.
  - cbn [concat_opt] in H. destruct (W x) as [a|] eqn:Ea; [|discriminate]. destruct (concat_opt W t) as [b|] eqn:Eb; [|discriminate].
    injection H as <-. apply Forall_app. split; [now apply Hx|now apply IH].
Qed.
Lemma uses_here_loc content n a : Pu content n -> uses_here content n = Some a -> Forall (gha_loc_fine content) a.
Proof.
  intros Hp Eh. unfold Pu, Pn in Hp. pose proof (yden_class content n) as Y.
  destruct (denote_ynode content n) as [v|k v|v| |] eqn:Dn0; try contradiction.
  - assert (kind_is k_block_mapping_pair n = false) as Hk by (apply not_pair_class; intros fl E; rewrite E in Y; exact Y).
    unfold uses_here in Eh. rewrite Hk in Eh. injection Eh as <-. constructor.
  - destruct Y as [fl Hc]. unfold pair_flow in *. rewrite Hc in *.
    unfold uses_here in Eh. destruct (kind_tests n) as [T _]. rewrite T, Hc in Eh. destruct fl; [injection Eh as <-; constructor|].
    destruct (pair_fields _ _ _ _ Dn0) as [kn [Ck [Wk [Dk Hval]]]]. destruct (wrap_scalar _ _ _ Wk Dk) as [tk [Tk Rk]].
    assert (node_plain_text content kn = Some k) as Hname by (unfold node_plain_text; rewrite Tk; cbn [option_map]; now rewrite (reading_name _ _ Rk)).
    rewrite Ck, Hname in Eh. cbn [bind] in Eh. change gha_uses_key with w_uses in Eh.
    destruct (beq k w_uses) eqn:Eu; [|injection Eh as <-; constructor].
    destruct Hp as [Hfine _]. rewrite Eu in Hfine. cbn [orb negb] in Hfine.
    destruct Hval as [[-> Cv]|[vn [Cv [Wv Dv]]]].
    + rewrite Cv in Eh. injection Eh as <-. constructor.
    + rewrite Cv in Eh. destruct v as [s| |fl2 l2|fl2 l2]; try discriminate.
      * destruct (wrap_scalar _ _ _ Wv Dv) as [tv [Tv Rv]]. unfold node_plain_text in Eh. rewrite Tv in Eh. cbn [option_map bind] in Eh.
        rewrite (reading_name _ _ Rv) in Eh. exact (parse_uses_loc content s vn tv a Tv Rv Eh).
      * exfalso. exact (wrapper_not_null _ _ Wv Dv).
  - assert (kind_is k_block_mapping_pair n = false) as Hk by (apply not_pair_class; intros fl E; destruct Y as [Y|Y]; rewrite E in Y; discriminate).
    unfold uses_here in Eh. rewrite Hk in Eh. injection Eh as <-. constructor.
  - assert (kind_is k_block_mapping_pair n = false) as Hk by (apply not_pair_class; intros fl E; rewrite E in Y; discriminate).
    unfold uses_here in Eh. rewrite Hk in Eh. injection Eh as <-. constructor.
Qed.
Theorem in_steps_locs content : forall n, Pu content n -> forall pk, gha_in_steps content n = Some pk -> Forall (gha_loc_fine content) pk.
Proof.
  induction n as [kd f sb eb r c m ch IHch] using node_ind'. intros Hp pk H.
  set (n := Node kd f sb eb r c m ch) in *.
  pose proof (uses_kids_forall content n Hp) as Hkids. change (n_children n) with ch in *.
  rewrite gha_in_steps_eq in H. change (n_children n) with ch in H.
  destruct (uses_here content n) as [a|] eqn:Eh; [|discriminate]. destruct (concat_opt (gha_in_steps content) ch) as [b|] eqn:Eb; [|discriminate].
  injection H as <-. apply Forall_app. split; [exact (uses_here_loc content n a Hp Eh)|].
  apply (concat_forall (gha_in_steps content) (gha_loc_fine content) ch); [|exact Eb].
  apply Forall_forall. intros x Hx pc Hpc. pose proof (proj1 (Forall_forall _ _) IHch x Hx) as IHx. pose proof (proj1 (Forall_forall _ _) Hkids x Hx) as Hkx. exact (IHx Hkx pc Hpc).
Qed.
Theorem walk_gha_locs content : forall n, Ps content n -> forall pk, walk_gha content n = Some pk -> Forall (gha_loc_fine content) pk.
Proof.
  induction n as [kd f sb eb r c m ch IHch] using node_ind'. intros Hp pk H.
  set (n := Node kd f sb eb r c m ch) in *.
  pose proof (steps_kids_forall content n Hp) as Hkids. change (n_children n) with ch in *.
  assert (forall b, concat_opt (walk_gha content) ch = Some b -> Forall (gha_loc_fine content) b) as Hrec.
  { intros b Eb. apply (concat_forall (walk_gha content) (gha_loc_fine content) ch); [|exact Eb].
    apply Forall_forall. intros x Hx pc Hpc. pose proof (proj1 (Forall_forall _ _) IHch x Hx) as IHx. pose proof (proj1 (Forall_forall _ _) Hkids x Hx) as Hkx. exact (IHx Hkx pc Hpc). }
  rewrite walk_gha_eq in H. change (n_children n) with ch in H.
  unfold Ps, Pn in Hp. pose proof (yden_class content n) as Y.
  destruct (denote_ynode content n) as [v|k v|v| |] eqn:Dn0; try contradiction.
  - assert (kind_is k_block_mapping_pair n = false) as Hk by (apply not_pair_class; intros fl E; rewrite E in Y; exact Y).
    rewrite Hk in H. exact (Hrec pk H).
  - destruct Y as [fl Hc]. unfold pair_flow in *. rewrite Hc in *.
    destruct (kind_tests n) as [T _]. rewrite T, Hc in H. destruct fl; [exact (Hrec pk H)|].
    destruct (pair_fields _ _ _ _ Dn0) as [kn [Ck [Wk [Dk Hval]]]]. destruct (wrap_scalar _ _ _ Wk Dk) as [tk [Tk Rk]].
    assert (node_plain_text content kn = Some k) as Hname by (unfold node_plain_text; rewrite Tk; cbn [option_map]; now rewrite (reading_name _ _ Rk)).
    rewrite Ck, Hname in H. cbn [bind] in H. change gha_steps_key with w_steps in H.
    destruct (beq k w_steps) eqn:Es; [|exact (Hrec pk H)].
    destruct Hp as [Hfine _]. cbn [negb andb] in Hfine.
    destruct Hval as [[-> Cv]|[vn [Cv [Wv Dv]]]].
    + rewrite Cv in H. exact (Hrec pk H).
    + rewrite Cv in H. rewrite Es in Hfine. assert (Pu content vn) as Hpu by (unfold Pu, Pn; rewrite Dv; exact Hfine).
      exact (in_steps_locs content vn Hpu pk H).
  - assert (kind_is k_block_mapping_pair n = false) as Hk by (apply not_pair_class; intros fl E; destruct Y as [Y|Y]; rewrite E in Y; discriminate).
    rewrite Hk in H. exact (Hrec pk H).
  - assert (kind_is k_block_mapping_pair n = false) as Hk by (apply not_pair_class; intros fl E; rewrite E in Y; discriminate).
    rewrite Hk in H. exact (Hrec pk H).
Qed.
Theorem gha_locations content root v :
  denote_yaml content root = Some v -> gha_regular v = true -> gha_known v = false ->
  forall pkgs, walk_gha content root = Some pkgs -> Forall (gha_loc_fine content) pkgs.
Proof.
  unfold denote_yaml. intros H Hr Hk pkgs Hw. destruct (denote_ynode content root) eqn:Dr; try discriminate. injection H as ->.
  destruct (gha_value_level v Hr Hk) as [_ Hfine].
  assert (Ps content root) as Hp by (unfold Ps, Pn; rewrite Dr; exact Hfine).
  exact (walk_gha_locs content root Hp pkgs Hw).
Qed.
