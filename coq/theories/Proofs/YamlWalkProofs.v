(* C04 for the YAML manifests: on every tree-sitter-yaml tree that denotes a YAML value (Spec/YamlDoc.v), outside the
   known classes and inside the documented shape, the walks of pnpm_workspace.rs and github_actions.rs report exactly
   the dependencies the value declares. *)
From Coq Require Import ZArith Lia.
From VL Require Import Lib.Bytes Lib.Text Lib.Cst Gen.GenParsers Model.Walks Spec.YamlDoc Proofs.JsonWalkProofs.

(* ---------- unfolding one level ---------- *)
Definition ykids_of (content : bytes) (ch : list node) : list (node * yden) := map (fun c => (c, denote_ynode content c)) ch.
Lemma denote_ynode_eq content kind f sb eb r c missing ch :
  denote_ynode content (Node kind f sb eb r c missing ch) = denote_ystep content kind sb eb missing (ykids_of content ch).
Proof.
  cbn [denote_ynode]. unfold ykids_of.
  assert ((fix go (l : list node) : list (node * yden) :=
             match l with [] => [] | c0 :: t => (c0, denote_ynode content c0) :: go t end) ch
          = map (fun c0 => (c0, denote_ynode content c0)) ch) as ->; [|reflexivity].
  induction ch as [|x t IH]; [reflexivity|]. cbn [map]. now rewrite IH.
Qed.

(* ---------- the kinds, as the denotation tells them apart ---------- *)
Inductive yclass := KTok | KPlain | KDq | KSq | KWrap | KMap (fl : bool) | KPair (fl : bool) | KSeq (fl : bool) | KItem | KDocument | KStream | KOther.
Definition classify (kind : bytes) : yclass :=
  if ytokish kind then KTok
  else if beq kind yk_plain_scalar then KPlain
  else if beq kind yk_dq_scalar then KDq
  else if beq kind yk_sq_scalar then KSq
  else if beq kind yk_flow_node || beq kind yk_block_node then KWrap
  else if beq kind yk_block_mapping || beq kind yk_flow_mapping then KMap (beq kind yk_flow_mapping)
  else if beq kind yk_block_mapping_pair || beq kind yk_flow_pair then KPair (beq kind yk_flow_pair)
  else if beq kind yk_block_sequence || beq kind yk_flow_sequence then KSeq (beq kind yk_flow_sequence)
  else if beq kind yk_block_sequence_item then KItem
  else if beq kind yk_document then KDocument
  else if beq kind yk_stream then KStream
  else KOther.
Lemma ystep_class content kind sb eb kids : denote_ystep content kind sb eb false kids =
  match classify kind with
  | KTok => match kids with [] => YDTok | _ => YDBad end
  | KPlain => match slice content sb eb with Some t => if plain_scalar_ok t && all_ytok kids then YDVal (YStr t) else YDBad | None => YDBad end
  | KDq => match slice content sb eb with
           | Some t => match dq_scalar_inner t with Some s => if all_ytok kids then YDVal (YStr s) else YDBad | None => YDBad end
           | None => YDBad end
  | KSq => match slice content sb eb with
           | Some t => match sq_scalar_inner t with Some s => if all_ytok kids then YDVal (YStr s) else YDBad | None => YDBad end
           | None => YDBad end
  | KWrap => match wrapped sb eb kids with Some v => YDVal v | None => YDBad end
  | KMap fl => match ypairs_of kids with Some l => if ykeys_nodup (map fst l) then YDVal (YMap fl l) else YDBad | None => YDBad end
  | KPair _ => ypair_of kids
  | KSeq fl => match yvals_of kids with Some l => YDVal (YSeq fl l) | None => YDBad end
  | KItem => match yvals_of kids with Some [v] => YDVal v | Some [] => YDVal YNull | _ => YDBad end
  | KDocument => match yvals_of kids with Some [v] => YDDoc v | _ => YDBad end
  | KStream => match ydocs_of kids with Some [v] => YDDoc v | _ => YDBad end
  | KOther => YDBad
  end.
Proof.
  unfold denote_ystep, classify.
  repeat match goal with |- context [if ?b then _ else _] => destruct b; try reflexivity end.
Qed.
(* the two kinds the walks test for *)
Lemma existsb_beq_in' k L : existsb (beq k) L = true -> In k L.
Proof. intros H. apply existsb_exists in H as [x [Hin Hx]]. apply beq_eq in Hx. now subst. Qed.
Lemma class_kinds kind :
  beq kind k_block_mapping_pair = match classify kind with KPair false => true | _ => false end
  /\ beq kind k_block_mapping = match classify kind with KMap false => true | _ => false end.
Proof.
  unfold classify.
  destruct (ytokish kind) eqn:Et.
  { unfold ytokish in Et. assert (In kind (yaml_punct ++ [yk_comment; yk_escape] ++ yaml_scalar_leaves)) as Hin.
    { apply orb_true_iff in Et as [Et|Et]; [apply orb_true_iff in Et as [Et|Et]; [apply orb_true_iff in Et as [Et|Et]|]|].
      - apply in_or_app. left. now apply existsb_beq_in'.
      - apply in_or_app. right. left. apply beq_eq in Et. now subst.
      - apply in_or_app. right. right. left. apply beq_eq in Et. now subst.
      - apply in_or_app. right. apply in_or_app. right. now apply existsb_beq_in'. }
    cbv [yaml_punct yaml_scalar_leaves app] in Hin. repeat (destruct Hin as [<-|Hin]; [split; reflexivity|]). destruct Hin. }
  destruct (beq kind yk_plain_scalar) eqn:E1; [apply beq_eq in E1; subst; split; reflexivity|].
  destruct (beq kind yk_dq_scalar) eqn:E2; [apply beq_eq in E2; subst; split; reflexivity|].
  destruct (beq kind yk_sq_scalar) eqn:E3; [apply beq_eq in E3; subst; split; reflexivity|].
  destruct (beq kind yk_flow_node) eqn:E4; [apply beq_eq in E4; subst; split; reflexivity|].
  destruct (beq kind yk_block_node) eqn:E5; [apply beq_eq in E5; subst; split; reflexivity|]. cbn [orb].
  destruct (beq kind yk_block_mapping) eqn:E6; [apply beq_eq in E6; subst; split; reflexivity|].
  destruct (beq kind yk_flow_mapping) eqn:E7; [apply beq_eq in E7; subst; split; reflexivity|]. cbn [orb].
  destruct (beq kind yk_block_mapping_pair) eqn:E8; [apply beq_eq in E8; subst; split; reflexivity|].
  destruct (beq kind yk_flow_pair) eqn:E9; [apply beq_eq in E9; subst; split; reflexivity|]. cbn [orb].
  change k_block_mapping_pair with yk_block_mapping_pair. change k_block_mapping with yk_block_mapping. rewrite E8, E6.
  repeat match goal with |- context [if ?b then _ else _] => destruct b end; split; reflexivity.
Qed.

(* ---------- scalars as text ---------- *)
From VL Require Import Spec.TomlDoc Proofs.TomlWalkProofs.
Lemma drop_while_absent c s : existsb (N.eqb c) s = false -> drop_while (N.eqb c) s = s.
Proof. destruct s as [|x t]; [reflexivity|]. cbn. intros H. apply orb_false_iff in H as [H _]. now rewrite H. Qed.
Lemma existsb_rev c (s : bytes) : existsb (N.eqb c) (rev s) = existsb (N.eqb c) s.
Proof.
  destruct (existsb (N.eqb c) (rev s)) eqn:E1, (existsb (N.eqb c) s) eqn:E2; try reflexivity.
  - apply existsb_exists in E1 as [x [Hin Hx]]. apply in_rev in Hin. assert (existsb (N.eqb c) s = true) by (apply existsb_exists; eauto). congruence.
  - apply existsb_exists in E2 as [x [Hin Hx]]. apply in_rev in Hin. assert (existsb (N.eqb c) (rev s) = true) by (apply existsb_exists; eauto). congruence.
Qed.
Lemma trim_chars_absent c s : existsb (N.eqb c) s = false -> trim_end_char c (trim_start_char c s) = s.
Proof.
  intros H. unfold trim_start_char, trim_end_char. rewrite (drop_while_absent _ _ H).
  rewrite drop_while_absent by (now rewrite existsb_rev). apply rev_involutive.
Qed.
Lemma strip_c_quoted c inner : existsb (N.eqb c) inner = false -> trim_end_char c (trim_start_char c (c :: inner ++ [c])) = inner.
Proof.
  intros H. unfold trim_start_char, trim_end_char. cbn [drop_while]. rewrite N.eqb_refl.
  destruct inner as [|x t].
  - cbn. rewrite N.eqb_refl. reflexivity.
  - assert (drop_while (N.eqb c) ((x :: t) ++ [c]) = (x :: t) ++ [c]) as ->.
    { cbn. cbn in H. apply orb_false_iff in H as [H _]. now rewrite H. }
    rewrite rev_app_distr. cbn [rev app drop_while]. rewrite N.eqb_refl.
    change (rev t ++ [x]) with (rev (x :: t)). rewrite drop_while_absent by (now rewrite existsb_rev). apply rev_involutive.
Qed.
Definition quoted_test (t : bytes) : bool := (starts_with [39] t && ends_with [39] t) || (starts_with [34] t && ends_with [34] t).
Definition scalar_reading (t s : bytes) : Prop :=
  (plain_scalar_ok t = true /\ s = t) \/ dq_scalar_inner t = Some s \/ sq_scalar_inner t = Some s.
Lemma yquoted_inner_spec q text inner : yquoted_inner q text = Some inner -> text = q :: inner ++ [q].
Proof. exact (quoted_inner_spec q text inner). Qed.
Lemma ends_with_quoted q inner : ends_with [q] (q :: inner ++ [q]) = true.
Proof. unfold ends_with. cbn [rev]. rewrite rev_app_distr. cbn. now rewrite N.eqb_refl. Qed.
Lemma reading_name t s : scalar_reading t s -> strip_dq_sq t = s.
Proof.
  intros [[Hp ->]|[Hd|Hs]].
  - unfold plain_scalar_ok in Hp. repeat (apply andb_true_iff in Hp as [Hp ?]).
    match goal with H : beq (trim t) t = true |- _ => apply beq_eq in H; rename H into Ht end.
    unfold has_byte in *. repeat match goal with H : negb _ = true |- _ => apply negb_true_iff in H end.
    unfold strip_dq_sq, strip_dq. rewrite Ht. rewrite (trim_chars_absent 34 t) by assumption. now apply trim_chars_absent.
  - unfold dq_scalar_inner in Hd. destruct (yquoted_inner 34 t) as [inner|] eqn:Eq; [|discriminate].
    destruct (has_byte 34 inner || has_byte 92 inner || has_byte 10 inner || has_byte 39 inner) eqn:Eb; [discriminate|]. injection Hd as <-.
    apply yquoted_inner_spec in Eq. subst t. repeat (apply orb_false_iff in Eb as [Eb ?]). unfold has_byte in *.
    unfold strip_dq_sq. rewrite (strip_dq_quoted inner Eb). now apply trim_chars_absent.
  - unfold sq_scalar_inner in Hs. destruct (yquoted_inner 39 t) as [inner|] eqn:Eq; [|discriminate].
    destruct (has_byte 39 inner || has_byte 10 inner || has_byte 34 inner) eqn:Eb; [discriminate|]. injection Hs as <-.
    apply yquoted_inner_spec in Eq. subst t. repeat (apply orb_false_iff in Eb as [Eb ?]). unfold has_byte in *.
    unfold strip_dq_sq, strip_dq. rewrite trim_squoted.
    assert (existsb (N.eqb 34) (39 :: inner ++ [39]) = false) as H34.
    { cbn [existsb]. rewrite existsb_app. cbn [existsb]. cbn. match goal with H : existsb (N.eqb 34) inner = false |- _ => now rewrite H end. }
    rewrite (trim_chars_absent 34 _ H34). now apply strip_c_quoted.
Qed.
Lemma reading_value t s : scalar_reading t s ->
  trim t = t /\ (if quoted_test t then slice t 1 (blen t - 1) else Some t) = Some s /\ (quoted_test t = true -> 2 <= blen t) /\ (quoted_test t = false -> s <> []).
Proof.
  intros [[Hp ->]|[Hd|Hs]].
  - unfold plain_scalar_ok in Hp. repeat (apply andb_true_iff in Hp as [Hp ?]).
    match goal with H : beq (trim t) t = true |- _ => apply beq_eq in H; rename H into Ht end.
    unfold has_byte in *. repeat match goal with H : negb _ = true |- _ => apply negb_true_iff in H end.
    assert (quoted_test t = false) as Hq.
    { unfold quoted_test. destruct t as [|x r]; [reflexivity|]. cbn [starts_with].
      match goal with H34 : existsb (N.eqb 34) (x :: r) = false, H39 : existsb (N.eqb 39) (x :: r) = false |- _ =>
        cbn [existsb] in H34, H39; apply orb_false_iff in H34 as [H34 _]; apply orb_false_iff in H39 as [H39 _] end.
      match goal with H : (39 =? x) = false |- _ => rewrite H end.
      match goal with H : (34 =? x) = false |- _ => rewrite H end. reflexivity. }
    rewrite Hq. split; [exact Ht|]. split; [reflexivity|]. split; [discriminate|]. intros _ ->. discriminate.
  - unfold dq_scalar_inner in Hd. destruct (yquoted_inner 34 t) as [inner|] eqn:Eq; [|discriminate].
    destruct (has_byte 34 inner || has_byte 92 inner || has_byte 10 inner || has_byte 39 inner) eqn:Eb; [discriminate|]. injection Hd as <-.
    apply yquoted_inner_spec in Eq. subst t.
    assert (quoted_test (34 :: inner ++ [34]) = true) as Hq.
    { unfold quoted_test. rewrite (ends_with_quoted 34 inner). cbn [starts_with]. cbn. reflexivity. }
    rewrite Hq. split; [apply trim_quoted|]. split.
    + exact (slice_inner _ 0 _ 34 34 inner (slice_whole _)).
    + split; [|discriminate]. intros _. unfold blen. cbn [length]. rewrite app_length. cbn [length]. lia.
  - unfold sq_scalar_inner in Hs. destruct (yquoted_inner 39 t) as [inner|] eqn:Eq; [|discriminate].
    destruct (has_byte 39 inner || has_byte 10 inner || has_byte 34 inner) eqn:Eb; [discriminate|]. injection Hs as <-.
    apply yquoted_inner_spec in Eq. subst t.
    assert (quoted_test (39 :: inner ++ [39]) = true) as Hq.
    { unfold quoted_test. rewrite (ends_with_quoted 39 inner). cbn [starts_with]. cbn. reflexivity. }
    rewrite Hq. split; [apply trim_squoted|]. split.
    + exact (slice_inner _ 0 _ 39 39 inner (slice_whole _)).
    + split; [|discriminate]. intros _. unfold blen. cbn [length]. rewrite app_length. cbn [length]. lia.
Qed.

(* ---------- node level ---------- *)
Definition ytok (content : bytes) (c : node) : Prop := denote_ynode content c = YDTok.
Lemma ytok_node content n : ytok content n -> classify (n_kind n) = KTok /\ n_children n = [].
Proof.
  unfold ytok. destruct n as [k f sb eb r c m ch]. rewrite denote_ynode_eq. cbn [n_kind n_children]. destruct m; [discriminate|].
  rewrite ystep_class. destruct (classify k) eqn:Ec; intros H; try discriminate.
  - destruct ch; [now split|]. discriminate.
  - destruct (slice content sb eb) as [t|]; [|discriminate]. destruct (plain_scalar_ok t && all_ytok (ykids_of content ch)); discriminate.
  - destruct (slice content sb eb) as [t|]; [|discriminate]. destruct (dq_scalar_inner t); [|discriminate]. destruct (all_ytok (ykids_of content ch)); discriminate.
  - destruct (slice content sb eb) as [t|]; [|discriminate]. destruct (sq_scalar_inner t); [|discriminate]. destruct (all_ytok (ykids_of content ch)); discriminate.
  - destruct (wrapped sb eb (ykids_of content ch)); discriminate.
  - destruct (ypairs_of (ykids_of content ch)) as [l|]; [|discriminate]. destruct (ykeys_nodup (map fst l)); discriminate.
  - unfold ypair_of in H. destruct (ykids_of content ch) as [|[kn [[s0| |? ?|? ?]| | | |]] [|[cn [| | | |]] rest]]; try discriminate.
    destruct (_ && _); [|discriminate]. destruct (ypair_rest rest) as [[v|]|]; discriminate.
  - destruct (yvals_of (ykids_of content ch)); discriminate.
  - destruct (yvals_of (ykids_of content ch)) as [[|v [|v2 l]]|]; discriminate.
  - destruct (yvals_of (ykids_of content ch)) as [[|v [|v2 l]]|]; discriminate.
  - destruct (ydocs_of (ykids_of content ch)) as [[|v [|v2 l]]|]; discriminate.
Qed.
Lemma all_ytok_forall content ch : all_ytok (ykids_of content ch) = true -> Forall (ytok content) ch.
Proof.
  induction ch as [|x t IH]; intros H; [constructor|]. cbn in H. apply andb_true_iff in H as [H1 H2].
  constructor; [|now apply IH]. unfold ytok. destruct (denote_ynode content x); try discriminate. reflexivity.
Qed.
(* a scalar node proper *)
Lemma scalar_node content n s : denote_ynode content n = YDVal (YStr s) -> is_wrapper n = false -> kind_is yk_block_sequence_item n = false ->
  (classify (n_kind n) = KPlain \/ classify (n_kind n) = KDq \/ classify (n_kind n) = KSq)
  /\ Forall (ytok content) (n_children n)
  /\ exists t, node_text content n = Some t /\ scalar_reading t s.
Proof.
  destruct n as [k f sb eb r c m ch]. rewrite denote_ynode_eq. unfold is_wrapper, kind_is, node_text. cbn [n_kind n_children n_sb n_eb].
  destruct m; [discriminate|]. rewrite ystep_class. intros H Hw Hi.
  destruct (classify k) eqn:Ec; try discriminate.
  - destruct ch; discriminate.
  - destruct (slice content sb eb) as [t|]; [|discriminate]. destruct (plain_scalar_ok t) eqn:Ep; [|discriminate].
    destruct (all_ytok (ykids_of content ch)) eqn:Ea; [|discriminate]. cbn [andb] in H. injection H as <-.
    split; [now left|]. split; [now apply all_ytok_forall|]. exists t. split; [reflexivity|]. left. now split.
  - destruct (slice content sb eb) as [t|]; [|discriminate]. destruct (dq_scalar_inner t) as [s'|] eqn:Ed; [|discriminate].
    destruct (all_ytok (ykids_of content ch)) eqn:Ea; [|discriminate]. injection H as <-.
    split; [right; now left|]. split; [now apply all_ytok_forall|]. exists t. split; [reflexivity|]. right. now left.
  - destruct (slice content sb eb) as [t|]; [|discriminate]. destruct (sq_scalar_inner t) as [s'|] eqn:Ed; [|discriminate].
    destruct (all_ytok (ykids_of content ch)) eqn:Ea; [|discriminate]. injection H as <-.
    split; [right; now right|]. split; [now apply all_ytok_forall|]. exists t. split; [reflexivity|]. right. now right.
  - exfalso. unfold classify in Ec. destruct (ytokish k); [discriminate|]. destruct (beq k yk_plain_scalar); [discriminate|].
    destruct (beq k yk_dq_scalar); [discriminate|]. destruct (beq k yk_sq_scalar); [discriminate|].
    destruct (beq k yk_flow_node || beq k yk_block_node) eqn:E; [congruence|]. destruct (beq k yk_block_mapping || beq k yk_flow_mapping); [discriminate|].
    destruct (beq k yk_block_mapping_pair || beq k yk_flow_pair); [discriminate|]. destruct (beq k yk_block_sequence || beq k yk_flow_sequence); [discriminate|].
    destruct (beq k yk_block_sequence_item); [discriminate|]. destruct (beq k yk_document); [discriminate|]. destruct (beq k yk_stream); discriminate.
  - destruct (ypairs_of (ykids_of content ch)) as [l|]; [|discriminate]. destruct (ykeys_nodup (map fst l)); discriminate.
  - unfold ypair_of in H. destruct (ykids_of content ch) as [|[kn [[s0| |? ?|? ?]| | | |]] [|[cn [| | | |]] rest]]; try discriminate.
    destruct (_ && _); [|discriminate]. destruct (ypair_rest rest) as [[v|]|]; discriminate.
  - destruct (yvals_of (ykids_of content ch)); discriminate.
  - exfalso. unfold classify in Ec. destruct (ytokish k); [discriminate|]. destruct (beq k yk_plain_scalar); [discriminate|].
    destruct (beq k yk_dq_scalar); [discriminate|]. destruct (beq k yk_sq_scalar); [discriminate|].
    destruct (beq k yk_flow_node || beq k yk_block_node); [discriminate|]. destruct (beq k yk_block_mapping || beq k yk_flow_mapping); [discriminate|].
    destruct (beq k yk_block_mapping_pair || beq k yk_flow_pair); [discriminate|]. destruct (beq k yk_block_sequence || beq k yk_flow_sequence); [discriminate|].
    destruct (beq k yk_block_sequence_item) eqn:E; [congruence|]. destruct (beq k yk_document); [discriminate|]. destruct (beq k yk_stream); discriminate.
  - destruct (yvals_of (ykids_of content ch)) as [[|v [|v2 l]]|]; discriminate.
  - destruct (ydocs_of (ykids_of content ch)) as [[|v [|v2 l]]|]; discriminate.
Qed.
(* what a wrapper wraps *)
Lemma wrapped_inv content sb eb ch : forall v, wrapped sb eb (ykids_of content ch) = Some v ->
  exists pre c post, ch = pre ++ c :: post /\ Forall (ytok content) pre /\ Forall (ytok content) post
  /\ denote_ynode content c = YDVal v /\ is_wrapper c = false /\ kind_is yk_block_sequence_item c = false
  /\ match v with YStr _ => n_sb c = sb /\ n_eb c = eb | _ => True end.
Proof.
  induction ch as [|x t IH]; intros v H; [discriminate|]. cbn [ykids_of map wrapped] in H. fold (ykids_of content t) in H.
  destruct (denote_ynode content x) eqn:Dx; try discriminate.
  - destruct (negb (is_wrapper x)) eqn:E1; [|discriminate]. destruct (negb (kind_is yk_block_sequence_item x)) eqn:E2; [|discriminate].
    destruct (all_ytok (ykids_of content t)) eqn:E3; [|discriminate]. cbn [andb] in H.
    destruct (match v0 with YStr _ => (n_sb x =? sb) && (n_eb x =? eb) | _ => true end) eqn:E4; [|discriminate]. injection H as <-.
    exists [], x, t. split; [reflexivity|]. split; [constructor|]. split; [now apply all_ytok_forall|]. split; [exact Dx|].
    split; [now apply negb_true_iff|]. split; [now apply negb_true_iff|].
    destruct v0; try exact I. apply andb_true_iff in E4 as [A B]. apply N.eqb_eq in A, B. now split.
  - destruct (IH v H) as [pre [c [post [-> [Hp [Hq Hr]]]]]]. exists (x :: pre), c, post. split; [reflexivity|]. split; [constructor; assumption|]. split; assumption.
Qed.
Lemma wrap_scalar content w s : is_wrapper w = true -> denote_ynode content w = YDVal (YStr s) ->
  exists t, node_text content w = Some t /\ scalar_reading t s.
Proof.
  destruct w as [k f sb eb r c m ch]. intros Hw. rewrite denote_ynode_eq. destruct m; [discriminate|]. rewrite ystep_class.
  assert (classify k = KWrap) as ->.
  { unfold is_wrapper, kind_is in Hw. cbn [n_kind] in Hw. apply orb_true_iff in Hw as [Hw|Hw]; apply beq_eq in Hw; subst k; reflexivity. }
  destruct (wrapped sb eb (ykids_of content ch)) as [v|] eqn:Ew; [|discriminate]. intros H. injection H as ->.
  destruct (wrapped_inv _ _ _ _ _ Ew) as [pre [c0 [post [-> [_ [_ [Dc [Hnw [Hni [Hs He]]]]]]]]]].
  destruct (scalar_node _ _ _ Dc Hnw Hni) as [_ [_ [t [Ht Hr]]]]. exists t. split; [|exact Hr].
  unfold node_text in *. cbn [n_sb n_eb]. now rewrite <- Hs, <- He.
Qed.
