(* C04 for the YAML manifests: on every tree-sitter-yaml tree that denotes a YAML value (Spec/YamlDoc.v), outside the
   known classes and inside the documented shape, the walks of pnpm_workspace.rs and github_actions.rs report exactly
   the dependencies the value declares. *)
From Coq Require Import ZArith Lia.
From VL Require Import Lib.Bytes Lib.Text Lib.Cst Gen.GenParsers Model.Walks Spec.YamlDoc Proofs.JsonWalkProofs.

(* ---------- unfolding one level ---------- *)
Definition ykids_of (content : bytes) (ch : list node) : list (node * yden) := map (fun c => (c, denote_ynode content c)) ch.
Lemma denote_ynode_eq content kind f sb eb r c missing ch :
  denote_ynode content (Node kind f sb eb r c missing ch) = denote_ystep content kind sb eb missing (ykids_of content ch).
Proof.
  cbn [denote_ynode]. unfold ykids_of.
  assert ((fix go (l : list node) : list (node * yden) :=
             match l with [] => [] | c0 :: t => (c0, denote_ynode content c0) :: go t end) ch
          = map (fun c0 => (c0, denote_ynode content c0)) ch) as ->; [|reflexivity].
  induction ch as [|x t IH]; [reflexivity|]. cbn [map]. now rewrite IH.
Qed.

(* ---------- the kinds, as the denotation tells them apart ---------- *)
Inductive yclass := KTok | KPlain | KDq | KSq | KWrap | KMap (fl : bool) | KPair (fl : bool) | KSeq (fl : bool) | KItem | KDocument | KStream | KOther.
Definition classify (kind : bytes) : yclass :=
  if ytokish kind then KTok
  else if beq kind yk_plain_scalar then KPlain
  else if beq kind yk_dq_scalar then KDq
  else if beq kind yk_sq_scalar then KSq
  else if beq kind yk_flow_node || beq kind yk_block_node then KWrap
  else if beq kind yk_block_mapping || beq kind yk_flow_mapping then KMap (beq kind yk_flow_mapping)
  else if beq kind yk_block_mapping_pair || beq kind yk_flow_pair then KPair (beq kind yk_flow_pair)
  else if beq kind yk_block_sequence || beq kind yk_flow_sequence then KSeq (beq kind yk_flow_sequence)
  else if beq kind yk_block_sequence_item then KItem
  else if beq kind yk_document then KDocument
  else if beq kind yk_stream then KStream
  else KOther.
Lemma ystep_class content kind sb eb kids : denote_ystep content kind sb eb false kids =
  match classify kind with
  | KTok => match kids with [] => YDTok | _ => YDBad end
  | KPlain => match slice content sb eb with Some t => if plain_scalar_ok t && all_ytok kids then YDVal (YStr t) else YDBad | None => YDBad end
  | KDq => match slice content sb eb with
           | Some t => match dq_scalar_inner t with Some s => if all_ytok kids then YDVal (YStr s) else YDBad | None => YDBad end
           | None => YDBad end
  | KSq => match slice content sb eb with
           | Some t => match sq_scalar_inner t with Some s => if all_ytok kids then YDVal (YStr s) else YDBad | None => YDBad end
           | None => YDBad end
  | KWrap => match wrapped sb eb kids with Some v => YDVal v | None => YDBad end
  | KMap fl => match ypairs_of kids with
               | Some l => if ykeys_nodup (map fst l) && pairs_kind (if fl then yk_flow_pair else yk_block_mapping_pair) kids then YDVal (YMap fl l) else YDBad
               | None => YDBad end
  | KPair _ => ypair_of kids
  | KSeq fl => match yvals_of kids with Some l => YDVal (YSeq fl l) | None => YDBad end
  | KItem => match yvals_of kids with Some [v] => YDVal v | Some [] => YDVal YNull | _ => YDBad end
  | KDocument => match yvals_of kids with Some [v] => YDDoc v | _ => YDBad end
  | KStream => match ydocs_of kids with Some [v] => YDDoc v | _ => YDBad end
  | KOther => YDBad
  end.
Proof.
  unfold denote_ystep, classify.
  repeat match goal with |- context [if ?b then _ else _] => destruct b; try reflexivity end.
Qed.
(* the two kinds the walks test for *)
Lemma existsb_beq_in' k L : existsb (beq k) L = true -> In k L.
Proof. intros H. apply existsb_exists in H as [x [Hin Hx]]. apply beq_eq in Hx. now subst. Qed.
Lemma class_kinds kind :
  beq kind k_block_mapping_pair = match classify kind with KPair false => true | _ => false end
  /\ beq kind k_block_mapping = match classify kind with KMap false => true | _ => false end.
Proof.
  unfold classify.
  destruct (ytokish kind) eqn:Et.
  { unfold ytokish in Et. assert (In kind (yaml_punct ++ [yk_comment; yk_escape] ++ yaml_scalar_leaves)) as Hin.
    { apply orb_true_iff in Et as [Et|Et]; [apply orb_true_iff in Et as [Et|Et]; [apply orb_true_iff in Et as [Et|Et]|]|].
      - apply in_or_app. left. now apply existsb_beq_in'.
      - apply in_or_app. right. left. apply beq_eq in Et. now subst.
      - apply in_or_app. right. right. left. apply beq_eq in Et. now subst.
      - apply in_or_app. right. apply in_or_app. right. now apply existsb_beq_in'. }
    cbv [yaml_punct yaml_scalar_leaves app] in Hin. repeat (destruct Hin as [<-|Hin]; [split; reflexivity|]). destruct Hin. }
  destruct (beq kind yk_plain_scalar) eqn:E1; [apply beq_eq in E1; subst; split; reflexivity|].
  destruct (beq kind yk_dq_scalar) eqn:E2; [apply beq_eq in E2; subst; split; reflexivity|].
  destruct (beq kind yk_sq_scalar) eqn:E3; [apply beq_eq in E3; subst; split; reflexivity|].
  destruct (beq kind yk_flow_node) eqn:E4; [apply beq_eq in E4; subst; split; reflexivity|].
  destruct (beq kind yk_block_node) eqn:E5; [apply beq_eq in E5; subst; split; reflexivity|]. cbn [orb].
  destruct (beq kind yk_block_mapping) eqn:E6; [apply beq_eq in E6; subst; split; reflexivity|].
  destruct (beq kind yk_flow_mapping) eqn:E7; [apply beq_eq in E7; subst; split; reflexivity|]. cbn [orb].
  destruct (beq kind yk_block_mapping_pair) eqn:E8; [apply beq_eq in E8; subst; split; reflexivity|].
  destruct (beq kind yk_flow_pair) eqn:E9; [apply beq_eq in E9; subst; split; reflexivity|]. cbn [orb].
  change k_block_mapping_pair with yk_block_mapping_pair. change k_block_mapping with yk_block_mapping. rewrite E8, E6.
  repeat match goal with |- context [if ?b then _ else _] => destruct b end; split; reflexivity.
Qed.

(* ---------- scalars as text ---------- *)
From VL Require Import Spec.TomlDoc Proofs.TomlWalkProofs.
Lemma drop_while_absent c s : existsb (N.eqb c) s = false -> drop_while (N.eqb c) s = s.
Proof. destruct s as [|x t]; [reflexivity|]. cbn. intros H. apply orb_false_iff in H as [H _]. now rewrite H. Qed.
Lemma existsb_rev c (s : bytes) : existsb (N.eqb c) (rev s) = existsb (N.eqb c) s.
Proof.
  destruct (existsb (N.eqb c) (rev s)) eqn:E1, (existsb (N.eqb c) s) eqn:E2; try reflexivity.
  - apply existsb_exists in E1 as [x [Hin Hx]]. apply in_rev in Hin. assert (existsb (N.eqb c) s = true) by (apply existsb_exists; eauto). congruence.
  - apply existsb_exists in E2 as [x [Hin Hx]]. apply in_rev in Hin. assert (existsb (N.eqb c) (rev s) = true) by (apply existsb_exists; eauto). congruence.
Qed.
Lemma trim_chars_absent c s : existsb (N.eqb c) s = false -> trim_end_char c (trim_start_char c s) = s.
Proof.
  intros H. unfold trim_start_char, trim_end_char. rewrite (drop_while_absent _ _ H).
  rewrite drop_while_absent by (now rewrite existsb_rev). apply rev_involutive.
Qed.
Lemma strip_c_quoted c inner : existsb (N.eqb c) inner = false -> trim_end_char c (trim_start_char c (c :: inner ++ [c])) = inner.
Proof.
  intros H. unfold trim_start_char, trim_end_char. cbn [drop_while]. rewrite N.eqb_refl.
  destruct inner as [|x t].
  - cbn. rewrite N.eqb_refl. reflexivity.
  - assert (drop_while (N.eqb c) ((x :: t) ++ [c]) = (x :: t) ++ [c]) as ->.
    { cbn. cbn in H. apply orb_false_iff in H as [H _]. now rewrite H. }
    rewrite rev_app_distr. cbn [rev app drop_while]. rewrite N.eqb_refl.
    change (rev t ++ [x]) with (rev (x :: t)). rewrite drop_while_absent by (now rewrite existsb_rev). apply rev_involutive.
Qed.
Definition quoted_test (t : bytes) : bool := (starts_with [39] t && ends_with [39] t) || (starts_with [34] t && ends_with [34] t).
Definition scalar_reading (t s : bytes) : Prop :=
  (plain_scalar_ok t = true /\ s = t) \/ dq_scalar_inner t = Some s \/ sq_scalar_inner t = Some s.
Lemma yquoted_inner_spec q text inner : yquoted_inner q text = Some inner -> text = q :: inner ++ [q].
Proof. exact (quoted_inner_spec q text inner). Qed.
Lemma ends_with_quoted q inner : ends_with [q] (q :: inner ++ [q]) = true.
Proof. unfold ends_with. cbn [rev]. rewrite rev_app_distr. cbn. now rewrite N.eqb_refl. Qed.
Lemma reading_name t s : scalar_reading t s -> strip_dq_sq t = s.
Proof.
  intros [[Hp ->]|[Hd|Hs]].
  - unfold plain_scalar_ok in Hp. repeat (apply andb_true_iff in Hp as [Hp ?]).
    match goal with H : beq (trim t) t = true |- _ => apply beq_eq in H; rename H into Ht end.
    unfold has_byte in *. repeat match goal with H : negb _ = true |- _ => apply negb_true_iff in H end.
    unfold strip_dq_sq, strip_dq. rewrite Ht. rewrite (trim_chars_absent 34 t) by assumption. now apply trim_chars_absent.
  - unfold dq_scalar_inner in Hd. destruct (yquoted_inner 34 t) as [inner|] eqn:Eq; [|discriminate].
    destruct (has_byte 34 inner || has_byte 92 inner || has_byte 10 inner || has_byte 39 inner) eqn:Eb; [discriminate|]. injection Hd as <-.
    apply yquoted_inner_spec in Eq. subst t. repeat (apply orb_false_iff in Eb as [Eb ?]). unfold has_byte in *.
    unfold strip_dq_sq. rewrite (strip_dq_quoted inner Eb). now apply trim_chars_absent.
  - unfold sq_scalar_inner in Hs. destruct (yquoted_inner 39 t) as [inner|] eqn:Eq; [|discriminate].
    destruct (has_byte 39 inner || has_byte 10 inner || has_byte 34 inner) eqn:Eb; [discriminate|]. injection Hs as <-.
    apply yquoted_inner_spec in Eq. subst t. repeat (apply orb_false_iff in Eb as [Eb ?]). unfold has_byte in *.
    unfold strip_dq_sq, strip_dq. rewrite trim_squoted.
    assert (existsb (N.eqb 34) (39 :: inner ++ [39]) = false) as H34.
    { cbn [existsb]. rewrite existsb_app. cbn [existsb]. cbn. match goal with H : existsb (N.eqb 34) inner = false |- _ => now rewrite H end. }
    rewrite (trim_chars_absent 34 _ H34). now apply strip_c_quoted.
Qed.
Lemma reading_value t s : scalar_reading t s ->
  trim t = t /\ (if quoted_test t then slice t 1 (blen t - 1) else Some t) = Some s /\ (quoted_test t = true -> 2 <= blen t) /\ (quoted_test t = false -> s <> [])
  /\ (quoted_test t = true -> exists q, t = q :: s ++ [q]).
Proof.
  intros [[Hp ->]|[Hd|Hs]].
  - unfold plain_scalar_ok in Hp. repeat (apply andb_true_iff in Hp as [Hp ?]).
    match goal with H : beq (trim t) t = true |- _ => apply beq_eq in H; rename H into Ht end.
    unfold has_byte in *. repeat match goal with H : negb _ = true |- _ => apply negb_true_iff in H end.
    assert (quoted_test t = false) as Hq.
    { unfold quoted_test. destruct t as [|x r]; [reflexivity|]. cbn [starts_with].
      match goal with H34 : existsb (N.eqb 34) (x :: r) = false, H39 : existsb (N.eqb 39) (x :: r) = false |- _ =>
        cbn [existsb] in H34, H39; apply orb_false_iff in H34 as [H34 _]; apply orb_false_iff in H39 as [H39 _] end.
      match goal with H : (39 =? x) = false |- _ => rewrite H end.
      match goal with H : (34 =? x) = false |- _ => rewrite H end. reflexivity. }
    rewrite Hq. split; [exact Ht|]. split; [reflexivity|]. split; [discriminate|]. split; [intros _ ->; discriminate|discriminate].
  - unfold dq_scalar_inner in Hd. destruct (yquoted_inner 34 t) as [inner|] eqn:Eq; [|discriminate].
    destruct (has_byte 34 inner || has_byte 92 inner || has_byte 10 inner || has_byte 39 inner) eqn:Eb; [discriminate|]. injection Hd as <-.
    apply yquoted_inner_spec in Eq. subst t.
    assert (quoted_test (34 :: inner ++ [34]) = true) as Hq.
    { unfold quoted_test. rewrite (ends_with_quoted 34 inner). cbn [starts_with]. cbn. reflexivity. }
    rewrite Hq. split; [apply trim_quoted|]. split.
    + exact (slice_inner _ 0 _ 34 34 inner (slice_whole _)).
    + split; [|split; [discriminate|intros _; now exists 34]]. intros _. unfold blen. cbn [length]. rewrite app_length. cbn [length]. lia.
  - unfold sq_scalar_inner in Hs. destruct (yquoted_inner 39 t) as [inner|] eqn:Eq; [|discriminate].
    destruct (has_byte 39 inner || has_byte 10 inner || has_byte 34 inner) eqn:Eb; [discriminate|]. injection Hs as <-.
    apply yquoted_inner_spec in Eq. subst t.
    assert (quoted_test (39 :: inner ++ [39]) = true) as Hq.
    { unfold quoted_test. rewrite (ends_with_quoted 39 inner). cbn [starts_with]. cbn. reflexivity. }
    rewrite Hq. split; [apply trim_squoted|]. split.
    + exact (slice_inner _ 0 _ 39 39 inner (slice_whole _)).
    + split; [|split; [discriminate|intros _; now exists 39]]. intros _. unfold blen. cbn [length]. rewrite app_length. cbn [length]. lia.
Qed.

(* ---------- node level ---------- *)
Definition ytok (content : bytes) (c : node) : Prop := denote_ynode content c = YDTok.
Lemma ytok_node content n : ytok content n -> classify (n_kind n) = KTok /\ n_children n = [].
Proof.
  unfold ytok. destruct n as [k f sb eb r c m ch]. rewrite denote_ynode_eq. cbn [n_kind n_children]. destruct m; [discriminate|].
  rewrite ystep_class. destruct (classify k) eqn:Ec; intros H; try discriminate.
  - destruct ch; [now split|]. discriminate.
  - destruct (slice content sb eb) as [t|]; [|discriminate]. destruct (plain_scalar_ok t && all_ytok (ykids_of content ch)); discriminate.
  - destruct (slice content sb eb) as [t|]; [|discriminate]. destruct (dq_scalar_inner t); [|discriminate]. destruct (all_ytok (ykids_of content ch)); discriminate.
  - destruct (slice content sb eb) as [t|]; [|discriminate]. destruct (sq_scalar_inner t); [|discriminate]. destruct (all_ytok (ykids_of content ch)); discriminate.
  - destruct (wrapped sb eb (ykids_of content ch)); discriminate.
  - destruct (ypairs_of (ykids_of content ch)) as [l|]; [|discriminate]. destruct (ykeys_nodup (map fst l) && _); discriminate.
  - unfold ypair_of in H. destruct (ykids_of content ch) as [|[kn [[s0| |? ?|? ?]| | | |]] [|[cn [| | | |]] rest]]; try discriminate.
    destruct (_ && _); [|discriminate]. destruct (ypair_rest rest) as [[v|]|]; discriminate.
  - destruct (yvals_of (ykids_of content ch)); discriminate.
  - destruct (yvals_of (ykids_of content ch)) as [[|v [|v2 l]]|]; discriminate.
  - destruct (yvals_of (ykids_of content ch)) as [[|v [|v2 l]]|]; discriminate.
  - destruct (ydocs_of (ykids_of content ch)) as [[|v [|v2 l]]|]; discriminate.
Qed.
Lemma all_ytok_forall content ch : all_ytok (ykids_of content ch) = true -> Forall (ytok content) ch.
Proof.
  induction ch as [|x t IH]; intros H; [constructor|]. cbn in H. apply andb_true_iff in H as [H1 H2].
  constructor; [|now apply IH]. unfold ytok. destruct (denote_ynode content x); try discriminate. reflexivity.
Qed.
(* a scalar node proper *)
Lemma scalar_node content n s : denote_ynode content n = YDVal (YStr s) -> is_wrapper n = false -> kind_is yk_block_sequence_item n = false ->
  (classify (n_kind n) = KPlain \/ classify (n_kind n) = KDq \/ classify (n_kind n) = KSq)
  /\ Forall (ytok content) (n_children n)
  /\ exists t, node_text content n = Some t /\ scalar_reading t s.
Proof.
  destruct n as [k f sb eb r c m ch]. rewrite denote_ynode_eq. unfold is_wrapper, kind_is, node_text. cbn [n_kind n_children n_sb n_eb].
  destruct m; [discriminate|]. rewrite ystep_class. intros H Hw Hi.
  destruct (classify k) eqn:Ec; try discriminate.
  - destruct ch; discriminate.
  - destruct (slice content sb eb) as [t|]; [|discriminate]. destruct (plain_scalar_ok t) eqn:Ep; [|discriminate].
    destruct (all_ytok (ykids_of content ch)) eqn:Ea; [|discriminate]. cbn [andb] in H. injection H as <-.
    split; [now left|]. split; [now apply all_ytok_forall|]. exists t. split; [reflexivity|]. left. now split.
  - destruct (slice content sb eb) as [t|]; [|discriminate]. destruct (dq_scalar_inner t) as [s'|] eqn:Ed; [|discriminate].
    destruct (all_ytok (ykids_of content ch)) eqn:Ea; [|discriminate]. injection H as <-.
    split; [right; now left|]. split; [now apply all_ytok_forall|]. exists t. split; [reflexivity|]. right. now left.
  - destruct (slice content sb eb) as [t|]; [|discriminate]. destruct (sq_scalar_inner t) as [s'|] eqn:Ed; [|discriminate].
    destruct (all_ytok (ykids_of content ch)) eqn:Ea; [|discriminate]. injection H as <-.
    split; [right; now right|]. split; [now apply all_ytok_forall|]. exists t. split; [reflexivity|]. right. now right.
  - exfalso. unfold classify in Ec. destruct (ytokish k); [discriminate|]. destruct (beq k yk_plain_scalar); [discriminate|].
    destruct (beq k yk_dq_scalar); [discriminate|]. destruct (beq k yk_sq_scalar); [discriminate|].
    destruct (beq k yk_flow_node || beq k yk_block_node) eqn:E; [congruence|]. destruct (beq k yk_block_mapping || beq k yk_flow_mapping); [discriminate|].
    destruct (beq k yk_block_mapping_pair || beq k yk_flow_pair); [discriminate|]. destruct (beq k yk_block_sequence || beq k yk_flow_sequence); [discriminate|].
    destruct (beq k yk_block_sequence_item); [discriminate|]. destruct (beq k yk_document); [discriminate|]. destruct (beq k yk_stream); discriminate.
  - destruct (ypairs_of (ykids_of content ch)) as [l|]; [|discriminate]. destruct (ykeys_nodup (map fst l) && _); discriminate.
  - unfold ypair_of in H. destruct (ykids_of content ch) as [|[kn [[s0| |? ?|? ?]| | | |]] [|[cn [| | | |]] rest]]; try discriminate.
    destruct (_ && _); [|discriminate]. destruct (ypair_rest rest) as [[v|]|]; discriminate.
  - destruct (yvals_of (ykids_of content ch)); discriminate.
  - exfalso. unfold classify in Ec. destruct (ytokish k); [discriminate|]. destruct (beq k yk_plain_scalar); [discriminate|].
    destruct (beq k yk_dq_scalar); [discriminate|]. destruct (beq k yk_sq_scalar); [discriminate|].
    destruct (beq k yk_flow_node || beq k yk_block_node); [discriminate|]. destruct (beq k yk_block_mapping || beq k yk_flow_mapping); [discriminate|].
    destruct (beq k yk_block_mapping_pair || beq k yk_flow_pair); [discriminate|]. destruct (beq k yk_block_sequence || beq k yk_flow_sequence); [discriminate|].
    destruct (beq k yk_block_sequence_item) eqn:E; [congruence|]. destruct (beq k yk_document); [discriminate|]. destruct (beq k yk_stream); discriminate.
  - destruct (yvals_of (ykids_of content ch)) as [[|v [|v2 l]]|]; discriminate.
  - destruct (ydocs_of (ykids_of content ch)) as [[|v [|v2 l]]|]; discriminate.
Qed.
(* what a wrapper wraps *)
Lemma wrapped_inv content sb eb ch : forall v, wrapped sb eb (ykids_of content ch) = Some v ->
  exists pre c post, ch = pre ++ c :: post /\ Forall (ytok content) pre /\ Forall (ytok content) post
  /\ denote_ynode content c = YDVal v /\ is_wrapper c = false /\ kind_is yk_block_sequence_item c = false
  /\ match v with YStr _ => n_sb c = sb /\ n_eb c = eb | _ => True end.
Proof.
  induction ch as [|x t IH]; intros v H; [discriminate|]. cbn [ykids_of map wrapped] in H. fold (ykids_of content t) in H.
  destruct (denote_ynode content x) eqn:Dx; try discriminate.
  - destruct (negb (is_wrapper x)) eqn:E1; [|discriminate]. destruct (negb (kind_is yk_block_sequence_item x)) eqn:E2; [|discriminate].
    destruct (all_ytok (ykids_of content t)) eqn:E3; [|discriminate]. cbn [andb] in H.
    destruct (match v0 with YStr _ => (n_sb x =? sb) && (n_eb x =? eb) | _ => true end) eqn:E4; [|discriminate]. injection H as <-.
    exists [], x, t. split; [reflexivity|]. split; [constructor|]. split; [now apply all_ytok_forall|]. split; [exact Dx|].
    split; [now apply negb_true_iff|]. split; [now apply negb_true_iff|].
    destruct v0; try exact I. apply andb_true_iff in E4 as [A B]. apply N.eqb_eq in A, B. now split.
  - destruct (IH v H) as [pre [c [post [-> [Hp [Hq Hr]]]]]]. exists (x :: pre), c, post. split; [reflexivity|]. split; [constructor; assumption|]. split; assumption.
Qed.
Lemma wrap_scalar content w s : is_wrapper w = true -> denote_ynode content w = YDVal (YStr s) ->
  exists t, node_text content w = Some t /\ scalar_reading t s.
Proof.
  destruct w as [k f sb eb r c m ch]. intros Hw. rewrite denote_ynode_eq. destruct m; [discriminate|]. rewrite ystep_class.
  assert (classify k = KWrap) as ->.
  { unfold is_wrapper, kind_is in Hw. cbn [n_kind] in Hw. apply orb_true_iff in Hw as [Hw|Hw]; apply beq_eq in Hw; subst k; reflexivity. }
  destruct (wrapped sb eb (ykids_of content ch)) as [v|] eqn:Ew; [|discriminate]. intros H. injection H as ->.
  destruct (wrapped_inv _ _ _ _ _ Ew) as [pre [c0 [post [-> [_ [_ [Dc [Hnw [Hni [Hs He]]]]]]]]]].
  destruct (scalar_node _ _ _ Dc Hnw Hni) as [_ [_ [t [Ht Hr]]]]. exists t. split; [|exact Hr].
  unfold node_text in *. cbn [n_sb n_eb]. now rewrite <- Hs, <- He.
Qed.

(* ---------- what a node denotes tells its class ---------- *)
Lemma yden_class content n :
  match denote_ynode content n with
  | YDTok => classify (n_kind n) = KTok
  | YDVal v =>
      match classify (n_kind n) with
      | KPlain | KDq | KSq => exists s, v = YStr s
      | KWrap | KItem => True
      | KMap fl => exists l, v = YMap fl l
      | KSeq fl => exists l, v = YSeq fl l
      | _ => False
      end
  | YDPair _ _ => exists fl, classify (n_kind n) = KPair fl
  | YDDoc _ => classify (n_kind n) = KDocument \/ classify (n_kind n) = KStream
  | YDBad => True
  end.
Proof.
  destruct n as [k f sb eb r c m ch]. rewrite denote_ynode_eq. cbn [n_kind]. destruct m; [exact I|]. rewrite ystep_class.
  destruct (classify k) eqn:Ec.
  - destruct (ykids_of content ch); [reflexivity|exact I].
  - destruct (slice content sb eb) as [t|]; [|exact I]. destruct (plain_scalar_ok t && all_ytok (ykids_of content ch)); [|exact I]. now exists t.
  - destruct (slice content sb eb) as [t|]; [|exact I]. destruct (dq_scalar_inner t) as [s|]; [|exact I]. destruct (all_ytok (ykids_of content ch)); [|exact I]. now exists s.
  - destruct (slice content sb eb) as [t|]; [|exact I]. destruct (sq_scalar_inner t) as [s|]; [|exact I]. destruct (all_ytok (ykids_of content ch)); [|exact I]. now exists s.
  - destruct (wrapped sb eb (ykids_of content ch)); exact I.
  - destruct (ypairs_of (ykids_of content ch)) as [l|]; [|exact I]. destruct (ykeys_nodup (map fst l) && _); [|exact I]. now exists l.
  - unfold ypair_of. destruct (ykids_of content ch) as [|[kn [[s0| |? ?|? ?]| | | |]] [|[cn [| | | |]] rest]]; try exact I.
    destruct (_ && _); [|exact I]. destruct (ypair_rest rest) as [[v|]|]; try exact I; now exists fl.
  - destruct (yvals_of (ykids_of content ch)) as [l|]; [|exact I]. now exists l.
  - destruct (yvals_of (ykids_of content ch)) as [[|v [|v2 l]]|]; exact I.
  - destruct (yvals_of (ykids_of content ch)) as [[|v [|v2 l]]|]; try exact I. now left.
  - destruct (ydocs_of (ykids_of content ch)) as [[|v [|v2 l]]|]; try exact I. now right.
  - exact I.
Qed.
Lemma is_wrapper_class n : is_wrapper n = true <-> classify (n_kind n) = KWrap.
Proof.
  unfold is_wrapper, kind_is. split.
  - intros H. apply orb_true_iff in H as [H|H]; apply beq_eq in H; rewrite H; reflexivity.
  - unfold classify. destruct (ytokish (n_kind n)); [discriminate|]. destruct (beq (n_kind n) yk_plain_scalar); [discriminate|].
    destruct (beq (n_kind n) yk_dq_scalar); [discriminate|]. destruct (beq (n_kind n) yk_sq_scalar); [discriminate|].
    destruct (beq (n_kind n) yk_flow_node || beq (n_kind n) yk_block_node) eqn:E; [intros _; reflexivity|].
    repeat match goal with |- context [if ?b then _ else _] => destruct b end; discriminate.
Qed.
Lemma item_class n : kind_is yk_block_sequence_item n = true -> classify (n_kind n) = KItem.
Proof. unfold kind_is. intros H. apply beq_eq in H. rewrite H. reflexivity. Qed.
Lemma class_item n : classify (n_kind n) = KItem -> kind_is yk_block_sequence_item n = true.
Proof.
  unfold kind_is, classify. repeat match goal with |- context [if ?b then _ else _] => destruct b eqn:? end; try discriminate; intros _; try reflexivity; assumption.
Qed.
(* what a wrapper denotes is what its one value child denotes; that child is a scalar, a mapping or a sequence *)
Lemma wrapper_inv content w v : is_wrapper w = true -> denote_ynode content w = YDVal v ->
  exists pre c post, n_children w = pre ++ c :: post /\ Forall (ytok content) pre /\ Forall (ytok content) post
  /\ denote_ynode content c = YDVal v
  /\ match classify (n_kind c) with
     | KPlain | KDq | KSq => exists s, v = YStr s
     | KMap fl => exists l, v = YMap fl l
     | KSeq fl => exists l, v = YSeq fl l
     | _ => False
     end.
Proof.
  intros Hw. pose proof (proj1 (is_wrapper_class w) Hw) as Hc. destruct w as [k f sb eb r c0 m ch]. cbn [n_kind n_children] in *.
  rewrite denote_ynode_eq. destruct m; [discriminate|]. rewrite ystep_class, Hc.
  destruct (wrapped sb eb (ykids_of content ch)) as [v'|] eqn:Ew; [|discriminate]. intros H. injection H as ->.
  destruct (wrapped_inv _ _ _ _ _ Ew) as [pre [c [post [-> [Hp [Hq [Dc [Hnw [Hni _]]]]]]]]].
  exists pre, c, post. split; [reflexivity|]. split; [exact Hp|]. split; [exact Hq|]. split; [exact Dc|].
  pose proof (yden_class content c) as Y. rewrite Dc in Y.
  destruct (classify (n_kind c)) eqn:Ecl; try exact Y.
  - apply (proj2 (is_wrapper_class c)) in Ecl. congruence.
  - apply class_item in Ecl. congruence.
Qed.

(* ---------- mapping pairs ---------- *)
Definition neutral (content : bytes) (c : node) : Prop :=
  ytok content c /\ beq (n_field c) yf_key = false /\ beq (n_field c) yf_value = false.
Lemma neutral_forall content rest : forallb neutral_tok (ykids_of content rest) = true -> Forall (neutral content) rest.
Proof.
  induction rest as [|x t IH]; intros H; [constructor|]. cbn [ykids_of map forallb] in H. apply andb_true_iff in H as [H1 H2].
  constructor; [|now apply IH]. unfold neutral_tok in H1. cbn [fst snd] in H1. unfold neutral, ytok.
  destruct (denote_ynode content x); try discriminate. apply andb_true_iff in H1 as [A B]. apply negb_true_iff in A, B. now repeat split.
Qed.
Lemma ypair_rest_inv content rest : forall vo, ypair_rest (ykids_of content rest) = Some vo ->
  match vo with
  | None => Forall (neutral content) rest
  | Some v => exists pre vn post, rest = pre ++ vn :: post /\ Forall (neutral content) pre /\ Forall (neutral content) post
              /\ denote_ynode content vn = YDVal v /\ beq (n_field vn) yf_value = true /\ is_wrapper vn = true
  end.
Proof.
  induction rest as [|x t IH]; intros vo H.
  - cbn in H. injection H as <-. constructor.
  - cbn [ykids_of map ypair_rest] in H. fold (ykids_of content t) in H.
    destruct (denote_ynode content x) eqn:Dx.
    + destruct (beq (n_field x) yf_value && is_wrapper x && forallb neutral_tok (ykids_of content t)) eqn:E; [|discriminate].
      injection H as <-. apply andb_true_iff in E as [E E3]. apply andb_true_iff in E as [E1 E2].
      exists [], x, t. split; [reflexivity|]. split; [constructor|]. split; [now apply neutral_forall|]. now repeat split.
    + unfold neutral_tok in H. cbn [fst snd] in H. discriminate.
    + unfold neutral_tok in H. cbn [fst snd] in H. discriminate.
    + unfold neutral_tok in H. cbn [fst snd] in H.
      destruct (negb (beq (n_field x) yf_key) && negb (beq (n_field x) yf_value)) eqn:E; [|discriminate].
      apply andb_true_iff in E as [A B]. apply negb_true_iff in A, B.
      assert (neutral content x) as Nx by (unfold neutral, ytok; now repeat split).
      specialize (IH vo H). destruct vo as [v|].
      * destruct IH as [pre [vn [post [-> [Hp [Hq Hr]]]]]]. exists (x :: pre), vn, post. split; [reflexivity|]. split; [now constructor|]. now split.
      * now constructor.
    + unfold neutral_tok in H. cbn [fst snd] in H. discriminate.
Qed.
Lemma ypair_inv content p k v : denote_ynode content p = YDPair k v ->
  exists kn cn rest, n_children p = kn :: cn :: rest /\ beq (n_field kn) yf_key = true /\ is_wrapper kn = true
  /\ denote_ynode content kn = YDVal (YStr k) /\ neutral content cn
  /\ ((v = YNull /\ Forall (neutral content) rest)
      \/ exists pre vn post, rest = pre ++ vn :: post /\ Forall (neutral content) pre /\ Forall (neutral content) post
                             /\ denote_ynode content vn = YDVal v /\ beq (n_field vn) yf_value = true /\ is_wrapper vn = true).
Proof.
  intros H. pose proof (yden_class content p) as Y. rewrite H in Y. destruct Y as [fl Hc].
  destruct p as [kd f sb eb r c m ch]. cbn [n_kind n_children] in *. rewrite denote_ynode_eq in H. destruct m; [discriminate|].
  rewrite ystep_class, Hc in H. unfold ypair_of in H.
  destruct ch as [|kn ch]; [discriminate|]. cbn [ykids_of map] in H. destruct (denote_ynode content kn) as [[s0| |? ?|? ?]| | | |] eqn:Dk; try discriminate.
  destruct ch as [|cn rest]; [discriminate|]. cbn [map] in H. destruct (denote_ynode content cn) eqn:Dc; try discriminate.
  fold (ykids_of content rest) in H.
  destruct (beq (n_field kn) yf_key && is_wrapper kn && kind_is yk_colon cn && negb (beq (n_field cn) yf_key) && negb (beq (n_field cn) yf_value)) eqn:E; [|discriminate].
  repeat (apply andb_true_iff in E as [E ?]). repeat match goal with Hn : negb _ = true |- _ => apply negb_true_iff in Hn end.
  destruct (ypair_rest (ykids_of content rest)) as [vo|] eqn:Er; [|discriminate].
  pose proof (ypair_rest_inv _ _ _ Er) as R.
  exists kn, cn, rest. split; [reflexivity|]. split; [assumption|]. split; [assumption|].
  destruct vo as [v'|]; injection H as <- <-.
  - split; [exact Dk|]. split; [unfold neutral, ytok; now repeat split|]. right. exact R.
  - split; [exact Dk|]. split; [unfold neutral, ytok; now repeat split|]. left. now split.
Qed.

(* ---------- children by field ---------- *)
Lemma find_skip {A} (f : A -> bool) pre x post : Forall (fun a => f a = false) pre -> f x = true -> find f (pre ++ x :: post) = Some x.
Proof. induction 1 as [|a t Ha _ IH]; intros Hx; cbn [app find]; [now rewrite Hx|]. rewrite Ha. now apply IH. Qed.
Lemma find_none {A} (f : A -> bool) l : Forall (fun a => f a = false) l -> find f l = None.
Proof. induction 1 as [|a t Ha _ IH]; [reflexivity|]. cbn [find]. now rewrite Ha. Qed.
Lemma neutral_not_value content l : Forall (neutral content) l -> Forall (fun c => beq (n_field c) k_value = false) l.
Proof. induction 1 as [|a t [_ [_ Ha]] _ IH]; constructor; assumption. Qed.
Lemma pair_fields content p k v : denote_ynode content p = YDPair k v ->
  exists kn, child_by_field k_key p = Some kn /\ is_wrapper kn = true /\ denote_ynode content kn = YDVal (YStr k)
  /\ ((v = YNull /\ child_by_field k_value p = None)
      \/ exists vn, child_by_field k_value p = Some vn /\ is_wrapper vn = true /\ denote_ynode content vn = YDVal v).
Proof.
  intros H. destruct (ypair_inv _ _ _ _ H) as [kn [cn [rest [Hch [Fk [Wk [Dk [Nc Hv]]]]]]]].
  exists kn. unfold child_by_field. rewrite Hch. split.
  - cbn [find]. change k_key with yf_key. now rewrite Fk.
  - split; [exact Wk|]. split; [exact Dk|].
    assert (beq (n_field kn) k_value = false) as Fkv by (apply beq_eq in Fk; rewrite Fk; reflexivity).
    destruct Nc as [_ [_ Ncv]]. cbn [find]. rewrite Fkv. change (beq (n_field cn) k_value) with (beq (n_field cn) yf_value). rewrite Ncv.
    destruct Hv as [[-> Hr]|[pre [vn [post [-> [Hp [Hq [Dv [Fv Wv]]]]]]]]].
    + left. split; [reflexivity|]. apply find_none. now apply (neutral_not_value content).
    + right. exists vn. split; [|now split]. apply find_skip; [now apply (neutral_not_value content)|exact Fv].
Qed.
Lemma wrapper_not_null content w : is_wrapper w = true -> denote_ynode content w <> YDVal YNull.
Proof.
  intros Hw H. destruct (wrapper_inv _ _ _ Hw H) as [pre [c [post [_ [_ [_ [_ Hc]]]]]]].
  destruct (classify (n_kind c)); try contradiction; destruct Hc as [x Hx]; discriminate.
Qed.

(* ---------- pnpm-workspace.yaml: one catalog entry ---------- *)
Definition nv (p : pkg) : bytes * bytes := (p_name p, p_version p).
(* name, version, and: the bytes [start, end) of the document are the version *)
Definition loc_ok (content : bytes) (p : pkg) : bool :=
  match slice content (p_start p) (p_end p) with Some t => beq t (p_version p) && (p_start p <=? p_end p) | None => false end.
Definition nvc (content : bytes) (p : pkg) : bytes * bytes * bool := (p_name p, p_version p, loc_ok content p).
Definition tagl (l : list (bytes * bytes)) : list (bytes * bytes * bool) := map (fun e => (fst e, snd e, true)) l.
Lemma tagl_app a b : tagl (a ++ b) = tagl a ++ tagl b.
Proof. unfold tagl. apply map_app. Qed.
Lemma pnpm_entry_spec content p k v : denote_ynode content p = YDPair k v -> (v = YNull \/ exists s, v = YStr s) ->
  exists pkgs, pnpm_entry content p = Some pkgs
  /\ map (nvc content) pkgs = tagl (match v with YStr s => if beq s [] then [] else [(k, s)] | _ => [] end).
Proof.
  intros H Hv. destruct (pair_fields _ _ _ _ H) as [kn [Ck [Wk [Dk Hval]]]].
  destruct (wrap_scalar _ _ _ Wk Dk) as [tk [Tk Rk]].
  unfold pnpm_entry. rewrite Ck.
  destruct Hval as [[-> Cv]|[vn [Cv [Wv Dv]]]].
  - rewrite Cv. exists []. split; reflexivity.
  - rewrite Cv. destruct Hv as [->|[s ->]]; [exfalso; exact (wrapper_not_null _ _ Wv Dv)|].
    destruct (wrap_scalar _ _ _ Wv Dv) as [tv [Tv Rv]].
    unfold node_plain_text. rewrite Tk. cbn [option_map bind]. rewrite (reading_name _ _ Rk). rewrite Tv. cbn [bind].
    destruct (reading_value _ _ Rv) as [Ht [Hs [Hq [Hne Hshape]]]]. rewrite Ht. fold (quoted_test tv). cbv zeta.
    rewrite Hs. cbn [bind]. destruct (beq s []) eqn:Es; [exists []; split; reflexivity|].
    destruct (quoted_test tv) eqn:Eq.
    + unfold quoted_pkg, pred_N. unfold node_text in Tv. pose proof (slice_length _ _ _ _ Tv) as Hl. specialize (Hq eq_refl).
      destruct (n_eb vn =? 0) eqn:E0; [apply N.eqb_eq in E0; lia|]. cbn [bind option_map]. eexists. split; [reflexivity|].
      cbn [map tagl fst snd]. unfold nvc, loc_ok. cbn [p_name p_version p_start p_end].
      destruct (Hshape eq_refl) as [q Htv].
      subst tv. rewrite (slice_inner _ _ _ _ _ _ Tv), beq_refl. cbn [andb].
      assert ((n_sb vn + 1 <=? n_eb vn - 1) = true) as -> by (apply N.leb_le; unfold blen in Hl; cbn [length] in Hl; rewrite app_length in Hl; cbn [length] in Hl; lia).
      reflexivity.
    + eexists. split; [reflexivity|]. cbn [map tagl fst snd]. unfold nvc, loc_ok. cbn [p_name p_version p_start p_end].
      unfold node_text in Tv. rewrite Tv. injection Hs as <-. rewrite beq_refl. cbn [andb].
      assert ((n_sb vn <=? n_eb vn) = true) as ->.
      { unfold slice in Tv. destruct ((n_sb vn <=? n_eb vn) && (n_eb vn <=? blen content)) eqn:E; [|discriminate]. now apply andb_true_iff in E as [E _]. }
      reflexivity.
Qed.

(* ---------- pnpm: catalogs ---------- *)
Definition pnpm_mapping_step (content : bytes) (c : node) : option (list pkg) :=
  if kind_is k_block_mapping c then pnpm_mapping content c
  else if kind_is k_block_mapping_pair c then pnpm_entry content c else Some [].
Lemma pnpm_mapping_eq content n : pnpm_mapping content n = concat_opt (pnpm_mapping_step content) (n_children n).
Proof.
  destruct n as [k f sb eb r c m ch]. cbn [pnpm_mapping n_children].
  induction ch as [|x t IH]; [reflexivity|]. cbn [concat_opt]. rewrite <- IH. reflexivity.
Qed.
Lemma kind_tests n : kind_is k_block_mapping_pair n = match classify (n_kind n) with KPair false => true | _ => false end
  /\ kind_is k_block_mapping n = match classify (n_kind n) with KMap false => true | _ => false end.
Proof. exact (class_kinds (n_kind n)). Qed.
Lemma tok_step content c : ytok content c -> pnpm_mapping_step content c = Some [].
Proof.
  intros H. destruct (ytok_node _ _ H) as [Hc _]. unfold pnpm_mapping_step. destruct (kind_tests c) as [-> ->]. now rewrite Hc.
Qed.
Lemma toks_steps content l : Forall (ytok content) l -> concat_opt (pnpm_mapping_step content) l = Some [].
Proof. induction 1 as [|x t Hx _ IH]; [reflexivity|]. cbn [concat_opt]. now rewrite (tok_step _ _ Hx), IH. Qed.
Lemma ypairs_cons content x t l : ypairs_of (ykids_of content (x :: t)) = Some l ->
  (exists k v l', denote_ynode content x = YDPair k v /\ ypairs_of (ykids_of content t) = Some l' /\ l = (k, v) :: l')
  \/ (denote_ynode content x = YDTok /\ ypairs_of (ykids_of content t) = Some l).
Proof.
  cbn [ykids_of map ypairs_of fold_right snd]. fold (ykids_of content t). fold (ypairs_of (ykids_of content t)).
  destruct (denote_ynode content x) eqn:Ex; try discriminate.
  - destruct (ypairs_of (ykids_of content t)) as [l'|]; [|discriminate]. intros H. injection H as <-. left. exists k, v, l'. repeat split.
  - destruct (ypairs_of (ykids_of content t)) as [l'|]; [|discriminate]. intros H. injection H as <-. right. split; reflexivity.
Qed.
(* a block mapping node: its pairs are block pairs *)
Lemma map_node_inv content n fl l : denote_ynode content n = YDVal (YMap fl l) -> (exists fl', classify (n_kind n) = KMap fl') ->
  classify (n_kind n) = KMap fl /\ ypairs_of (ykids_of content (n_children n)) = Some l
  /\ pairs_kind (if fl then yk_flow_pair else yk_block_mapping_pair) (ykids_of content (n_children n)) = true.
Proof.
  destruct n as [kd f sb eb r c m ch]. cbn [n_kind n_children]. rewrite denote_ynode_eq. destruct m; [discriminate|]. rewrite ystep_class.
  intros H [fl' Hc]. rewrite Hc in H |- *.
  destruct (ypairs_of (ykids_of content ch)) as [l'|] eqn:El; [|discriminate].
  destruct (ykeys_nodup (map fst l') && pairs_kind (if fl' then yk_flow_pair else yk_block_mapping_pair) (ykids_of content ch)) eqn:E; [|discriminate].
  injection H as <- <-. apply andb_true_iff in E as [_ E]. now repeat split.
Qed.
Definition entry_decl (e : bytes * yval) : list (bytes * bytes) :=
  match snd e with YStr s => if beq s [] then [] else [(fst e, s)] | _ => [] end.
Lemma block_pairs_entries content ch : forall l, ypairs_of (ykids_of content ch) = Some l ->
  pairs_kind yk_block_mapping_pair (ykids_of content ch) = true ->
  forallb (fun e : bytes * yval => match snd e with YStr _ | YNull => true | _ => false end) l = true ->
  exists pkgs, concat_opt (pnpm_mapping_step content) ch = Some pkgs /\ map (nvc content) pkgs = tagl (flat_map entry_decl l).
Proof.
  induction ch as [|x t IH]; intros l Hl Hk Hs.
  - cbn in Hl. injection Hl as <-. exists []. split; reflexivity.
  - cbn [ykids_of map pairs_kind forallb fst snd] in Hk. fold (ykids_of content t) in Hk. apply andb_true_iff in Hk as [Hkx Hkt].
    destruct (ypairs_cons _ _ _ _ Hl) as [[k [v [l' [Dx [Hl' ->]]]]]|[Dx Hl']].
    + cbn [forallb snd] in Hs. apply andb_true_iff in Hs as [Hsx Hst].
      destruct (IH l' Hl' Hkt Hst) as [p2 [E2 M2]]. rewrite Dx in Hkx.
      assert (v = YNull \/ exists s, v = YStr s) as Hv by (destruct v; try discriminate; [right; eauto|now left]).
      destruct (pnpm_entry_spec _ _ _ _ Dx Hv) as [p1 [E1 M1]].
      cbn [concat_opt]. unfold pnpm_mapping_step at 1. destruct (kind_tests x) as [T1 T2].
      unfold kind_is in Hkx. apply beq_eq in Hkx. assert (classify (n_kind x) = KPair false) as Hc by (rewrite Hkx; reflexivity).
      rewrite T2, T1, Hc, E1, E2. exists (p1 ++ p2). split; [reflexivity|]. cbn [flat_map]. rewrite ?tagl_app, map_app, M1, M2. reflexivity.
    + destruct (IH l Hl' Hkt Hs) as [p2 [E2 M2]]. cbn [concat_opt]. rewrite (tok_step _ _ Dx), E2. exists p2. split; [reflexivity|exact M2].
Qed.
(* the value node of a catalog key *)
Lemma pnpm_mapping_wrapper content vn v : is_wrapper vn = true -> denote_ynode content vn = YDVal v ->
  is_catalog v = true -> is_flow v = false ->
  exists pkgs, pnpm_mapping content vn = Some pkgs /\ map (nvc content) pkgs = tagl (catalog_entries v).
Proof.
  intros Hw Hd Hc Hf. destruct (wrapper_inv _ _ _ Hw Hd) as [pre [c [post [Hch [Hp [Hq [Dc Hcl]]]]]]].
  rewrite pnpm_mapping_eq, Hch.
  assert (forall a b, concat_opt (pnpm_mapping_step content) (pre ++ a :: b) =
                      match pnpm_mapping_step content a with Some x => match concat_opt (pnpm_mapping_step content) b with Some y => Some (x ++ y) | None => None end | None => None end) as Hcat.
  { intros a b. clear -Hp. induction Hp as [|x t Hx _ IH]; [reflexivity|]. cbn [app concat_opt]. rewrite (tok_step _ _ Hx), IH.
    destruct (pnpm_mapping_step content a); [|reflexivity]. destruct (concat_opt (pnpm_mapping_step content) b); reflexivity. }
  rewrite Hcat, (toks_steps _ _ Hq). unfold pnpm_mapping_step. destruct (kind_tests c) as [T1 T2]. rewrite T2, T1.
  destruct (classify (n_kind c)) eqn:Ecl; try contradiction.
  - destruct Hcl as [s ->]. exists []. split; reflexivity.
  - destruct Hcl as [s ->]. exists []. split; reflexivity.
  - destruct Hcl as [s ->]. exists []. split; reflexivity.
  - destruct Hcl as [l ->]. cbn [is_flow] in Hf. subst fl.
    destruct (map_node_inv content c false l Dc (ex_intro _ false Ecl)) as [_ [Hl Hk]].
    rewrite pnpm_mapping_eq. cbn [is_catalog] in Hc.
    destruct (block_pairs_entries content (n_children c) l Hl Hk Hc) as [pkgs [E M]]. rewrite E. exists (pkgs ++ []). split; [reflexivity|].
    rewrite app_nil_r, M. reflexivity.
  - destruct Hcl as [l ->]. cbn [is_flow] in Hf. subst fl. exists []. split; reflexivity.
Qed.

(* ---------- mentions ---------- *)
Lemma mentions_map k fl l : mentions k (YMap fl l) = existsb (fun e : bytes * yval => beq (fst e) k || mentions k (snd e)) l.
Proof. cbn [mentions]. induction l as [|[k' x] t IH]; [reflexivity|]. cbn [existsb fst snd]. rewrite <- IH. reflexivity. Qed.
Lemma mentions_seq k fl l : mentions k (YSeq fl l) = existsb (mentions k) l.
Proof. cbn [mentions]. induction l as [|x t IH]; [reflexivity|]. cbn [existsb]. now rewrite <- IH. Qed.
Definition quiet (K : list bytes) (v : yval) : Prop := forall k, In k K -> mentions k v = false.
Definition quiet_den (K : list bytes) (d : yden) : Prop :=
  match d with
  | YDTok => True
  | YDVal v | YDDoc v => quiet K v
  | YDPair k v => existsb (beq k) K = false /\ quiet K v
  | YDBad => False
  end.
Lemma quiet_map_inv K fl l : quiet K (YMap fl l) -> Forall (fun e : bytes * yval => existsb (beq (fst e)) K = false /\ quiet K (snd e)) l.
Proof.
  intros H. apply Forall_forall. intros e He. split.
  - destruct (existsb (beq (fst e)) K) eqn:E; [|reflexivity]. apply existsb_exists in E as [k [Hk Hb]]. apply beq_eq in Hb. subst k.
    specialize (H _ Hk). rewrite mentions_map in H. assert (existsb (fun e0 : bytes * yval => beq (fst e0) (fst e) || mentions (fst e) (snd e0)) l = true) as C.
    { apply existsb_exists. exists e. split; [exact He|]. now rewrite beq_refl. }
    congruence.
  - intros k Hk. specialize (H _ Hk). rewrite mentions_map in H. destruct (mentions k (snd e)) eqn:E; [|reflexivity].
    assert (existsb (fun e0 : bytes * yval => beq (fst e0) k || mentions k (snd e0)) l = true) as C.
    { apply existsb_exists. exists e. split; [exact He|]. now rewrite E, orb_true_r. }
    congruence.
Qed.
Lemma quiet_seq_inv K fl l : quiet K (YSeq fl l) -> Forall (quiet K) l.
Proof.
  intros H. apply Forall_forall. intros x Hx k Hk. specialize (H _ Hk). rewrite mentions_seq in H.
  destruct (mentions k x) eqn:E; [|reflexivity]. assert (existsb (mentions k) l = true) as C by (apply existsb_exists; eauto). congruence.
Qed.

(* ---------- a walk that only reacts to block pairs with certain keys is silent where those keys do not occur ---------- *)
From VL Require Import Proofs.CstProofs.
Section Quiet.
Variable content : bytes.
Variable K : list bytes.
Variable W : node -> option (list pkg).
Hypothesis W_step : forall n,
  (kind_is k_block_mapping_pair n = false
   \/ exists kn key, child_by_field k_key n = Some kn /\ node_plain_text content kn = Some key /\ existsb (beq key) K = false) ->
  W n = concat_opt W (n_children n).

Lemma concat_quiet l : Forall (fun c => W c = Some []) l -> concat_opt W l = Some [].
Proof. induction 1 as [|x t Hx _ IH]; [reflexivity|]. cbn [concat_opt]. now rewrite Hx, IH. Qed.
Lemma yvals_quiet ch : forall vs, yvals_of (ykids_of content ch) = Some vs -> Forall (quiet K) vs -> Forall (fun c => quiet_den K (denote_ynode content c)) ch.
Proof.
  induction ch as [|x t IH]; intros vs H Hq; [constructor|].
  cbn [ykids_of map yvals_of fold_right snd] in H. fold (ykids_of content t) in H. fold (yvals_of (ykids_of content t)) in H.
  destruct (denote_ynode content x) eqn:Dx; try discriminate; destruct (yvals_of (ykids_of content t)) as [l'|] eqn:El; try discriminate; injection H as <-.
  - inversion Hq; subst. constructor; [rewrite Dx; assumption|]. now apply (IH l').
  - constructor; [rewrite Dx; exact I|]. now apply (IH l').
Qed.
Lemma ypairs_quiet ch : forall l, ypairs_of (ykids_of content ch) = Some l ->
  Forall (fun e : bytes * yval => existsb (beq (fst e)) K = false /\ quiet K (snd e)) l -> Forall (fun c => quiet_den K (denote_ynode content c)) ch.
Proof.
  induction ch as [|x t IH]; intros l H Hq; [constructor|].
  destruct (ypairs_cons _ _ _ _ H) as [[k [v [l' [Dx [Hl' ->]]]]]|[Dx Hl']].
  - inversion Hq; subst. constructor; [rewrite Dx; assumption|]. now apply (IH l').
  - constructor; [rewrite Dx; exact I|]. now apply (IH l).
Qed.
Lemma ydocs_quiet ch : forall vs, ydocs_of (ykids_of content ch) = Some vs -> Forall (quiet K) vs -> Forall (fun c => quiet_den K (denote_ynode content c)) ch.
Proof.
  induction ch as [|x t IH]; intros vs H Hq; [constructor|].
  cbn [ykids_of map ydocs_of fold_right snd] in H. fold (ykids_of content t) in H. fold (ydocs_of (ykids_of content t)) in H.
  destruct (denote_ynode content x) eqn:Dx; try discriminate; destruct (ydocs_of (ykids_of content t)) as [l'|] eqn:El; try discriminate; injection H as <-.
  - inversion Hq; subst. constructor; [rewrite Dx; assumption|]. now apply (IH l').
  - constructor; [rewrite Dx; exact I|]. now apply (IH l').
Qed.
Lemma toks_quiet l : Forall (ytok content) l -> Forall (fun c => quiet_den K (denote_ynode content c)) l.
Proof. induction 1 as [|x t Hx _ IH]; constructor; [unfold ytok in Hx; rewrite Hx; exact I|exact IH]. Qed.
Lemma neutrals_quiet l : Forall (neutral content) l -> Forall (fun c => quiet_den K (denote_ynode content c)) l.
Proof. induction 1 as [|x t [Hx _] _ IH]; constructor; [unfold ytok in Hx; rewrite Hx; exact I|exact IH]. Qed.

Theorem walk_quiet : forall n, quiet_den K (denote_ynode content n) -> W n = Some [].
Proof.
  induction n as [kd f sb eb r c m ch IHch] using node_ind'. intros Hq.
  assert (Forall (fun c => quiet_den K (denote_ynode content c)) ch -> concat_opt W ch = Some []) as Hrec.
  { intros Hall. apply concat_quiet. rewrite Forall_forall in IHch, Hall |- *. intros x Hx. apply IHch; [exact Hx|]. now apply Hall. }
  set (n := Node kd f sb eb r c m ch) in *.
  pose proof (yden_class content n) as Y.
  destruct (denote_ynode content n) as [v|k v|v| |] eqn:Dn; cbn [quiet_den] in Hq; try contradiction.
  - (* a value *)
    assert (kind_is k_block_mapping_pair n = false) as Hk.
    { destruct (kind_tests n) as [T _]. rewrite T. destruct (classify (n_kind n)) as [| | | | |fl|[|]|fl| | | |]; try reflexivity. contradiction. }
    rewrite (W_step n (or_introl Hk)). change (n_children n) with ch. apply Hrec.
    unfold n in Dn. rewrite denote_ynode_eq in Dn. destruct m; [discriminate|]. rewrite ystep_class in Dn. unfold n in Y. cbn [n_kind] in Y.
    revert Y Dn. destruct (classify kd) eqn:Ec; intros Y Dn; cbv beta iota in Y; try contradiction.
    + destruct (slice content sb eb) as [t|]; [|discriminate]. destruct (plain_scalar_ok t); [|discriminate]. cbn [andb] in Dn.
      destruct (all_ytok (ykids_of content ch)) eqn:Ea; [|discriminate]. apply toks_quiet. now apply all_ytok_forall.
    + destruct (slice content sb eb) as [t|]; [|discriminate]. destruct (dq_scalar_inner t); [|discriminate].
      destruct (all_ytok (ykids_of content ch)) eqn:Ea; [|discriminate]. apply toks_quiet. now apply all_ytok_forall.
    + destruct (slice content sb eb) as [t|]; [|discriminate]. destruct (sq_scalar_inner t); [|discriminate].
      destruct (all_ytok (ykids_of content ch)) eqn:Ea; [|discriminate]. apply toks_quiet. now apply all_ytok_forall.
    + destruct (wrapped sb eb (ykids_of content ch)) as [v'|] eqn:Ew; [|discriminate]. injection Dn as ->.
      destruct (wrapped_inv _ _ _ _ _ Ew) as [pre [c0 [post [-> [Hp [Hpo [Dc _]]]]]]].
      apply Forall_app. split; [now apply toks_quiet|]. constructor; [rewrite Dc; exact Hq|now apply toks_quiet].
    + destruct (ypairs_of (ykids_of content ch)) as [l|] eqn:El; [|discriminate]. destruct (ykeys_nodup (map fst l) && _); [|discriminate].
      injection Dn as <-. apply (ypairs_quiet ch l El). now apply (quiet_map_inv K fl).
    + destruct (yvals_of (ykids_of content ch)) as [l|] eqn:El; [|discriminate]. injection Dn as <-.
      apply (yvals_quiet ch l El). now apply (quiet_seq_inv K fl).
    + destruct (yvals_of (ykids_of content ch)) as [[|v1 [|v2 l]]|] eqn:El; try discriminate; injection Dn as <-.
      * apply (yvals_quiet ch [] El). constructor.
      * apply (yvals_quiet ch [v1] El). constructor; [exact Hq|constructor].
  - (* a pair *)
    destruct Hq as [HkK Hqv]. destruct Y as [fl Hc].
    destruct (ypair_inv _ _ _ _ Dn) as [kn [cn [rest [Hch [Fk [Wk [Dk [Nc Hv]]]]]]]].
    assert (W n = concat_opt W (n_children n)) as ->.
    { apply W_step. destruct (kind_tests n) as [T _]. rewrite T, Hc. destruct fl; [now left|]. right.
      destruct (pair_fields _ _ _ _ Dn) as [kn' [Ck [Wk' [Dk' _]]]]. destruct (wrap_scalar _ _ _ Wk' Dk') as [tk [Tk Rk]].
      exists kn', k. split; [exact Ck|]. split; [|exact HkK]. unfold node_plain_text. rewrite Tk. cbn [option_map]. now rewrite (reading_name _ _ Rk). }
    change (n_children n) with ch. apply Hrec. change (n_children n) with ch in Hch. rewrite Hch.
    constructor; [rewrite Dk; intros k0 _; reflexivity|]. constructor; [destruct Nc as [Nc _]; unfold ytok in Nc; rewrite Nc; exact I|].
    destruct Hv as [[-> Hr]|[pre [vn [post [-> [Hp [Hpo [Dv _]]]]]]]].
    + now apply neutrals_quiet.
    + apply Forall_app. split; [now apply neutrals_quiet|]. constructor; [rewrite Dv; exact Hqv|now apply neutrals_quiet].
  - (* a document / stream *)
    assert (kind_is k_block_mapping_pair n = false) as Hk.
    { destruct (kind_tests n) as [T _]. rewrite T. destruct Y as [-> | ->]; reflexivity. }
    rewrite (W_step n (or_introl Hk)). change (n_children n) with ch. apply Hrec.
    unfold n in Dn. rewrite denote_ynode_eq in Dn. destruct m; [discriminate|]. rewrite ystep_class in Dn. unfold n in Y. cbn [n_kind] in Y.
    destruct Y as [Ec|Ec]; rewrite Ec in Dn.
    + destruct (yvals_of (ykids_of content ch)) as [[|v1 [|v2 l]]|] eqn:El; try discriminate. injection Dn as <-.
      apply (yvals_quiet ch [v1] El). constructor; [exact Hq|constructor].
    + destruct (ydocs_of (ykids_of content ch)) as [[|v1 [|v2 l]]|] eqn:El; try discriminate. injection Dn as <-.
      apply (ydocs_quiet ch [v1] El). constructor; [exact Hq|constructor].
  - (* a token: no children *)
    assert (kind_is k_block_mapping_pair n = false) as Hk.
    { destruct (kind_tests n) as [T _]. rewrite T, Y. reflexivity. }
    rewrite (W_step n (or_introl Hk)). destruct (ytok_node content n Dn) as [_ Hnil]. rewrite Hnil. reflexivity.
Qed.
End Quiet.

(* ---------- pnpm: named catalogs ---------- *)
Definition named_pair_step (content : bytes) (cp : node) : option (list pkg) :=
  if kind_is k_block_mapping_pair cp then
    match child_by_field k_value cp with Some v => pnpm_mapping content v | None => Some [] end
  else Some [].
Definition named_step (content : bytes) (c : node) : option (list pkg) :=
  if kind_is k_block_mapping c then concat_opt (named_pair_step content) (n_children c) else Some [].
Lemma pnpm_named_eq content n : pnpm_named content n = concat_opt (named_step content) (n_children n).
Proof. reflexivity. Qed.
Definition group_ok (g : bytes * yval) : bool := is_catalog (snd g) && negb (is_flow (snd g)).
Lemma named_groups content ch : forall groups, ypairs_of (ykids_of content ch) = Some groups ->
  pairs_kind yk_block_mapping_pair (ykids_of content ch) = true -> forallb group_ok groups = true ->
  exists pkgs, concat_opt (named_pair_step content) ch = Some pkgs /\ map (nvc content) pkgs = tagl (flat_map (fun g : bytes * yval => catalog_entries (snd g)) groups).
Proof.
  induction ch as [|x t IH]; intros groups Hl Hk Hs.
  - cbn in Hl. injection Hl as <-. exists []. split; reflexivity.
  - cbn [ykids_of map pairs_kind forallb fst snd] in Hk. fold (ykids_of content t) in Hk. apply andb_true_iff in Hk as [Hkx Hkt].
    destruct (ypairs_cons _ _ _ _ Hl) as [[k [v [l' [Dx [Hl' ->]]]]]|[Dx Hl']].
    + cbn [forallb] in Hs. apply andb_true_iff in Hs as [Hsx Hst]. unfold group_ok in Hsx. cbn [snd] in Hsx. apply andb_true_iff in Hsx as [Hc Hf]. apply negb_true_iff in Hf.
      destruct (IH l' Hl' Hkt Hst) as [p2 [E2 M2]]. rewrite Dx in Hkx. unfold kind_is in Hkx. apply beq_eq in Hkx.
      assert (classify (n_kind x) = KPair false) as Hcl by (rewrite Hkx; reflexivity).
      cbn [concat_opt]. unfold named_pair_step at 1. destruct (kind_tests x) as [T1 _]. rewrite T1, Hcl.
      destruct (pair_fields _ _ _ _ Dx) as [kn [_ [_ [_ Hval]]]].
      destruct Hval as [[-> Cv]|[vn [Cv [Wv Dv]]]].
      * rewrite Cv, E2. exists p2. split; [reflexivity|]. cbn [flat_map snd catalog_entries app]. exact M2.
      * rewrite Cv. destruct (pnpm_mapping_wrapper _ _ _ Wv Dv Hc Hf) as [p1 [E1 M1]]. rewrite E1, E2. exists (p1 ++ p2). split; [reflexivity|].
        cbn [flat_map]. rewrite ?tagl_app, map_app, M1, M2. reflexivity.
    + destruct (IH groups Hl' Hkt Hs) as [p2 [E2 M2]]. cbn [concat_opt]. unfold named_pair_step at 1. destruct (kind_tests x) as [T1 _].
      destruct (ytok_node _ _ Dx) as [Hc _]. rewrite T1, Hc, E2. exists p2. split; [reflexivity|exact M2].
Qed.
Definition groups_decl (v : yval) : list (bytes * bytes) :=
  match v with YMap _ groups => flat_map (fun g : bytes * yval => catalog_entries (snd g)) groups | _ => [] end.
Definition groups_ok (v : yval) : bool := match v with YMap _ groups => forallb group_ok groups | _ => true end.
Lemma named_toks content l : Forall (ytok content) l -> concat_opt (named_step content) l = Some [].
Proof.
  induction 1 as [|x t Hx _ IH]; [reflexivity|]. cbn [concat_opt]. unfold named_step at 1. destruct (kind_tests x) as [_ T2].
  destruct (ytok_node _ _ Hx) as [Hc _]. now rewrite T2, Hc, IH.
Qed.
Lemma pnpm_named_wrapper content vn v : is_wrapper vn = true -> denote_ynode content vn = YDVal v ->
  is_flow v = false -> groups_ok v = true ->
  exists pkgs, pnpm_named content vn = Some pkgs /\ map (nvc content) pkgs = tagl (groups_decl v).
Proof.
  intros Hw Hd Hf Hg. destruct (wrapper_inv _ _ _ Hw Hd) as [pre [c [post [Hch [Hp [Hq [Dc Hcl]]]]]]].
  rewrite pnpm_named_eq, Hch.
  assert (forall a b, concat_opt (named_step content) (pre ++ a :: b) =
                      match named_step content a with Some x => match concat_opt (named_step content) b with Some y => Some (x ++ y) | None => None end | None => None end) as Hcat.
  { intros a b. clear -Hp. induction Hp as [|x t Hx _ IH]; [reflexivity|]. cbn [app concat_opt]. rewrite IH. unfold named_step at 1.
    destruct (kind_tests x) as [_ T2]. destruct (ytok_node _ _ Hx) as [Hc _]. rewrite T2, Hc.
    destruct (named_step content a); [|reflexivity]. destruct (concat_opt (named_step content) b); reflexivity. }
  rewrite Hcat, (named_toks _ _ Hq). unfold named_step. destruct (kind_tests c) as [_ T2]. rewrite T2.
  destruct (classify (n_kind c)) eqn:Ecl; try contradiction.
  - destruct Hcl as [s ->]. exists []. split; reflexivity.
  - destruct Hcl as [s ->]. exists []. split; reflexivity.
  - destruct Hcl as [s ->]. exists []. split; reflexivity.
  - destruct Hcl as [l ->]. cbn [is_flow] in Hf. subst fl.
    destruct (map_node_inv content c false l Dc (ex_intro _ false Ecl)) as [_ [Hl Hk]]. cbn [groups_ok] in Hg.
    destruct (named_groups content (n_children c) l Hl Hk Hg) as [pkgs [E M]]. rewrite E. exists (pkgs ++ []). split; [reflexivity|].
    rewrite app_nil_r, M. reflexivity.
  - destruct Hcl as [l ->]. cbn [is_flow] in Hf. subst fl. exists []. split; reflexivity.
Qed.

(* ---------- pnpm: the walk ---------- *)
Lemma walk_pnpm_eq content n : walk_pnpm content n =
  if kind_is k_block_mapping_pair n then
    match child_by_field k_key n with
    | Some kn => bind (node_plain_text content kn) (fun key =>
          if beq key pnpm_catalog_key then match child_by_field k_value n with Some v => pnpm_mapping content v | None => Some [] end
          else if beq key pnpm_catalogs_key then match child_by_field k_value n with Some v => pnpm_named content v | None => Some [] end
          else concat_opt (walk_pnpm content) (n_children n))
    | None => concat_opt (walk_pnpm content) (n_children n)
    end
  else concat_opt (walk_pnpm content) (n_children n).
Proof.
  destruct n as [k f sb eb r c m ch].
  assert ((fix go (l : list node) : option (list pkg) :=
             match l with
             | [] => Some []
             | c0 :: t => match walk_pnpm content c0, go t with Some a, Some b => Some (a ++ b) | _, _ => None end
             end) ch = concat_opt (walk_pnpm content) ch) as Hgo.
  { induction ch as [|x t IH]; [reflexivity|]. cbn [concat_opt]. now rewrite IH. }
  cbn [walk_pnpm n_children]. rewrite Hgo. reflexivity.
Qed.
Definition pnpm_keys : list bytes := [w_catalog; w_catalogs].
Lemma walk_pnpm_step content n :
  (kind_is k_block_mapping_pair n = false
   \/ exists kn key, child_by_field k_key n = Some kn /\ node_plain_text content kn = Some key /\ existsb (beq key) pnpm_keys = false) ->
  walk_pnpm content n = concat_opt (walk_pnpm content) (n_children n).
Proof.
  intros H. rewrite walk_pnpm_eq. destruct H as [H|[kn [key [Ck [Tk Hk]]]]].
  - now rewrite H.
  - destruct (kind_is k_block_mapping_pair n); [|reflexivity]. rewrite Ck, Tk. cbn [bind].
    unfold pnpm_keys in Hk. cbn [existsb] in Hk. apply orb_false_iff in Hk as [H1 H2]. apply orb_false_iff in H2 as [H2 _].
    change pnpm_catalog_key with w_catalog. change pnpm_catalogs_key with w_catalogs. now rewrite H1, H2.
Qed.
Definition pnpm_quiet content := walk_quiet content pnpm_keys (walk_pnpm content) (walk_pnpm_step content).

(* ---------- pnpm: the top-level mapping ---------- *)
Definition top_decl (e : bytes * yval) : list (bytes * bytes) :=
  if beq (fst e) w_catalog then catalog_entries (snd e)
  else if beq (fst e) w_catalogs then groups_decl (snd e) else [].
Definition top_ok (e : bytes * yval) : bool :=
  if beq (fst e) w_catalog then is_catalog (snd e) && negb (is_flow (snd e))
  else if beq (fst e) w_catalogs then negb (is_flow (snd e)) && groups_ok (snd e)
  else negb (mentions_catalog (snd e)).
Lemma quiet_catalog v : mentions_catalog v = false -> quiet pnpm_keys v.
Proof.
  unfold mentions_catalog. intros H k Hk. apply orb_false_iff in H as [H1 H2]. destruct Hk as [<-|[<-|[]]]; assumption.
Qed.
Lemma top_pairs content ch : forall top, ypairs_of (ykids_of content ch) = Some top ->
  pairs_kind yk_block_mapping_pair (ykids_of content ch) = true -> forallb top_ok top = true ->
  exists pkgs, concat_opt (walk_pnpm content) ch = Some pkgs /\ map (nvc content) pkgs = tagl (flat_map top_decl top).
Proof.
  induction ch as [|x t IH]; intros top Hl Hk Hs.
  - cbn in Hl. injection Hl as <-. exists []. split; reflexivity.
  - cbn [ykids_of map pairs_kind forallb fst snd] in Hk. fold (ykids_of content t) in Hk. apply andb_true_iff in Hk as [Hkx Hkt].
    destruct (ypairs_cons _ _ _ _ Hl) as [[k [v [l' [Dx [Hl' ->]]]]]|[Dx Hl']].
    + cbn [forallb] in Hs. apply andb_true_iff in Hs as [Hsx Hst].
      destruct (IH l' Hl' Hkt Hst) as [p2 [Et M2]]. rewrite Dx in Hkx. unfold kind_is in Hkx. apply beq_eq in Hkx.
      assert (classify (n_kind x) = KPair false) as Hcl by (rewrite Hkx; reflexivity).
      cbn [concat_opt flat_map]. unfold top_decl at 1. unfold top_ok in Hsx. cbn [fst snd] in *.
      destruct (pair_fields _ _ _ _ Dx) as [kn [Ck [Wk [Dk Hval]]]]. destruct (wrap_scalar _ _ _ Wk Dk) as [tk [Tk Rk]].
      assert (node_plain_text content kn = Some k) as Hname by (unfold node_plain_text; rewrite Tk; cbn [option_map]; now rewrite (reading_name _ _ Rk)).
      destruct (beq k w_catalog) eqn:E1; [|destruct (beq k w_catalogs) eqn:E2].
      * apply andb_true_iff in Hsx as [Hc Hf]. apply negb_true_iff in Hf.
        rewrite walk_pnpm_eq. destruct (kind_tests x) as [T1 _]. rewrite T1, Hcl, Ck, Hname. cbn [bind].
        change pnpm_catalog_key with w_catalog. rewrite E1.
        destruct Hval as [[-> Cv]|[vn [Cv [Wv Dv]]]].
        -- rewrite Cv, Et. exists p2. split; [reflexivity|]. cbn [catalog_entries app]. exact M2.
        -- rewrite Cv. destruct (pnpm_mapping_wrapper _ _ _ Wv Dv Hc Hf) as [p1 [Ep Mp]]. rewrite Ep, Et. exists (p1 ++ p2). split; [reflexivity|].
           cbn [flat_map]. rewrite ?tagl_app, map_app, Mp, M2. reflexivity.
      * apply andb_true_iff in Hsx as [Hf Hg]. apply negb_true_iff in Hf.
        rewrite walk_pnpm_eq. destruct (kind_tests x) as [T1 _]. rewrite T1, Hcl, Ck, Hname. cbn [bind].
        change pnpm_catalog_key with w_catalog. change pnpm_catalogs_key with w_catalogs. rewrite E1, E2.
        destruct Hval as [[-> Cv]|[vn [Cv [Wv Dv]]]].
        -- rewrite Cv. match goal with H : concat_opt (walk_pnpm content) t = Some p2 |- _ => rewrite H end. exists p2. split; [reflexivity|]. cbn [groups_decl app]. exact M2.
        -- rewrite Cv. destruct (pnpm_named_wrapper _ _ _ Wv Dv Hf Hg) as [p1 [Ep Mp]]. rewrite Ep.
           match goal with H : concat_opt (walk_pnpm content) t = Some p2 |- _ => rewrite H end. exists (p1 ++ p2). split; [reflexivity|].
           cbn [flat_map]. rewrite ?tagl_app, map_app, Mp, M2. reflexivity.
      * apply negb_true_iff in Hsx.
        assert (walk_pnpm content x = Some []) as ->.
        { apply pnpm_quiet. rewrite Dx. cbn [quiet_den]. split; [|now apply quiet_catalog]. unfold pnpm_keys. cbn [existsb]. now rewrite E1, E2. }
        match goal with H : concat_opt (walk_pnpm content) t = Some p2 |- _ => rewrite H end. exists p2. split; [reflexivity|exact M2].
    + destruct (IH top Hl' Hkt Hs) as [p2 [E2 M2]]. cbn [concat_opt].
      assert (walk_pnpm content x = Some []) as -> by (apply pnpm_quiet; rewrite Dx; exact I).
      rewrite E2. exists p2. split; [reflexivity|exact M2].
Qed.

(* ---------- descending to the top-level mapping ---------- *)
Lemma yvals_single content ch : forall v, yvals_of (ykids_of content ch) = Some [v] ->
  exists pre c post, ch = pre ++ c :: post /\ Forall (ytok content) pre /\ Forall (ytok content) post /\ denote_ynode content c = YDVal v.
Proof.
  induction ch as [|x t IH]; intros v H; [discriminate|].
  cbn [ykids_of map yvals_of fold_right snd] in H. fold (ykids_of content t) in H. fold (yvals_of (ykids_of content t)) in H.
  destruct (denote_ynode content x) eqn:Dx; try discriminate; destruct (yvals_of (ykids_of content t)) as [l'|] eqn:El; try discriminate.
  - injection H as Hv Hl. subst l'. subst. exists [], x, t. split; [reflexivity|]. split; [constructor|]. split; [|exact Dx].
    clear -El. revert El. induction t as [|y t' IHt]; intros El; [constructor|].
    cbn [ykids_of map yvals_of fold_right snd] in El. fold (ykids_of content t') in El. fold (yvals_of (ykids_of content t')) in El.
    destruct (denote_ynode content y) eqn:Dy; try discriminate; destruct (yvals_of (ykids_of content t')) as [l2|] eqn:El2; try discriminate.
    injection El as ->. constructor; [exact Dy|now apply IHt].
  - injection H as Hl. subst l'. destruct (IH v eq_refl) as [pre [c [post [-> [Hp [Hq Dc]]]]]]. exists (x :: pre), c, post. split; [reflexivity|]. split; [constructor; assumption|]. now split.
Qed.
Lemma ydocs_single content ch : forall v, ydocs_of (ykids_of content ch) = Some [v] ->
  exists pre c post, ch = pre ++ c :: post /\ Forall (ytok content) pre /\ Forall (ytok content) post /\ denote_ynode content c = YDDoc v.
Proof.
  induction ch as [|x t IH]; intros v H; [discriminate|].
  cbn [ykids_of map ydocs_of fold_right snd] in H. fold (ykids_of content t) in H. fold (ydocs_of (ykids_of content t)) in H.
  destruct (denote_ynode content x) eqn:Dx; try discriminate; destruct (ydocs_of (ykids_of content t)) as [l'|] eqn:El; try discriminate.
  - injection H as Hv Hl. subst l'. subst. exists [], x, t. split; [reflexivity|]. split; [constructor|]. split; [|exact Dx].
    clear -El. revert El. induction t as [|y t' IHt]; intros El; [constructor|].
    cbn [ykids_of map ydocs_of fold_right snd] in El. fold (ykids_of content t') in El. fold (ydocs_of (ykids_of content t')) in El.
    destruct (denote_ynode content y) eqn:Dy; try discriminate; destruct (ydocs_of (ykids_of content t')) as [l2|] eqn:El2; try discriminate.
    injection El as ->. constructor; [exact Dy|now apply IHt].
  - injection H as Hl. subst l'. destruct (IH v eq_refl) as [pre [c [post [-> [Hp [Hq Dc]]]]]]. exists (x :: pre), c, post. split; [reflexivity|]. split; [constructor; assumption|]. now split.
Qed.
Lemma concat_mid {W : node -> option (list pkg)} pre c post pk :
  Forall (fun x => W x = Some []) pre -> Forall (fun x => W x = Some []) post -> W c = Some pk -> concat_opt W (pre ++ c :: post) = Some pk.
Proof.
  intros Hp Hq Hc. induction Hp as [|x t Hx _ IH]; cbn [app concat_opt].
  - rewrite Hc, (concat_quiet W post Hq). now rewrite app_nil_r.
  - now rewrite Hx, IH.
Qed.
Lemma toks_walk_quiet content (K : list bytes) (W : node -> option (list pkg))
  (step : forall n, (kind_is k_block_mapping_pair n = false
                     \/ exists kn key, child_by_field k_key n = Some kn /\ node_plain_text content kn = Some key /\ existsb (beq key) K = false) ->
                    W n = concat_opt W (n_children n)) l :
  Forall (ytok content) l -> Forall (fun x => W x = Some []) l.
Proof.
  intros H. apply Forall_forall. intros x Hx. rewrite Forall_forall in H. apply (walk_quiet content K W step). specialize (H x Hx). unfold ytok in H. now rewrite H.
Qed.
Lemma not_pair_class n : (forall fl, classify (n_kind n) <> KPair fl) -> kind_is k_block_mapping_pair n = false.
Proof. intros H. destruct (kind_tests n) as [T _]. rewrite T. destruct (classify (n_kind n)) as [| | | | |fl|[|]|fl| | | |]; try reflexivity. exfalso. now apply (H false). Qed.
Lemma pnpm_top content : forall n top, denote_ynode content n = YDVal (YMap false top) -> forallb top_ok top = true ->
  exists pkgs, walk_pnpm content n = Some pkgs /\ map (nvc content) pkgs = tagl (flat_map top_decl top).
Proof.
  induction n as [kd f sb eb r c m ch IHch] using node_ind'. intros top Dn Hok.
  set (n := Node kd f sb eb r c m ch) in *. pose proof (yden_class content n) as Y. rewrite Dn in Y.
  assert (kind_is k_block_mapping_pair n = false) as Hk.
  { apply not_pair_class. intros fl E. rewrite E in Y. exact Y. }
  rewrite (walk_pnpm_step content n (or_introl Hk)). change (n_children n) with ch.
  unfold n in Dn. rewrite denote_ynode_eq in Dn. destruct m; [discriminate|]. rewrite ystep_class in Dn. unfold n in Y. cbn [n_kind] in Y.
  revert Y Dn. destruct (classify kd) eqn:Ec; intros Y Dn; cbv beta iota in Y; try contradiction; try (destruct Y as [s Ys]; discriminate).
  - destruct (wrapped sb eb (ykids_of content ch)) as [v'|] eqn:Ew; [|discriminate]. injection Dn as ->.
    destruct (wrapped_inv _ _ _ _ _ Ew) as [pre [c0 [post [-> [Hp [Hq [Dc _]]]]]]].
    rewrite Forall_forall in IHch. destruct (IHch c0 ltac:(apply in_or_app; right; now left) top Dc Hok) as [pk [E M]].
    exists pk. split; [|exact M]. apply concat_mid; [now apply (toks_walk_quiet content pnpm_keys _ (walk_pnpm_step content))|now apply (toks_walk_quiet content pnpm_keys _ (walk_pnpm_step content))|exact E].
  - destruct Y as [l Yl]. injection Yl as <- <-.
    destruct (ypairs_of (ykids_of content ch)) as [l'|] eqn:El; [|discriminate].
    destruct (ykeys_nodup (map fst l') && pairs_kind yk_block_mapping_pair (ykids_of content ch)) eqn:E; [|discriminate]. injection Dn as <-.
    apply andb_true_iff in E as [_ E]. exact (top_pairs content ch l' El E Hok).
  - destruct (yvals_of (ykids_of content ch)) as [[|v1 [|v2 l]]|] eqn:El; try discriminate. injection Dn as ->.
    destruct (yvals_single _ _ _ El) as [pre [c0 [post [-> [Hp [Hq Dc]]]]]].
    rewrite Forall_forall in IHch. destruct (IHch c0 ltac:(apply in_or_app; right; now left) top Dc Hok) as [pk [E M]].
    exists pk. split; [|exact M]. apply concat_mid; [now apply (toks_walk_quiet content pnpm_keys _ (walk_pnpm_step content))|now apply (toks_walk_quiet content pnpm_keys _ (walk_pnpm_step content))|exact E].
Qed.
Lemma pnpm_doc content : forall n top, denote_ynode content n = YDDoc (YMap false top) -> forallb top_ok top = true ->
  exists pkgs, walk_pnpm content n = Some pkgs /\ map (nvc content) pkgs = tagl (flat_map top_decl top).
Proof.
  induction n as [kd f sb eb r c m ch IHch] using node_ind'. intros top Dn Hok.
  set (n := Node kd f sb eb r c m ch) in *. pose proof (yden_class content n) as Y. rewrite Dn in Y.
  assert (kind_is k_block_mapping_pair n = false) as Hk.
  { apply not_pair_class. intros fl E. destruct Y as [Y|Y]; rewrite E in Y; discriminate. }
  rewrite (walk_pnpm_step content n (or_introl Hk)). change (n_children n) with ch.
  unfold n in Dn. rewrite denote_ynode_eq in Dn. destruct m; [discriminate|]. rewrite ystep_class in Dn. unfold n in Y. cbn [n_kind] in Y.
  destruct Y as [Ec|Ec]; rewrite Ec in Dn.
  - destruct (yvals_of (ykids_of content ch)) as [[|v1 [|v2 l]]|] eqn:El; try discriminate. injection Dn as ->.
    destruct (yvals_single _ _ _ El) as [pre [c0 [post [-> [Hp [Hq Dc]]]]]].
    destruct (pnpm_top content c0 top Dc Hok) as [pk [E M]].
    exists pk. split; [|exact M]. apply concat_mid; [now apply (toks_walk_quiet content pnpm_keys _ (walk_pnpm_step content))|now apply (toks_walk_quiet content pnpm_keys _ (walk_pnpm_step content))|exact E].
  - destruct (ydocs_of (ykids_of content ch)) as [[|v1 [|v2 l]]|] eqn:El; try discriminate. injection Dn as ->.
    destruct (ydocs_single _ _ _ El) as [pre [c0 [post [-> [Hp [Hq Dc]]]]]].
    rewrite Forall_forall in IHch. destruct (IHch c0 ltac:(apply in_or_app; right; now left) top Dc Hok) as [pk [E M]].
    exists pk. split; [|exact M]. apply concat_mid; [now apply (toks_walk_quiet content pnpm_keys _ (walk_pnpm_step content))|now apply (toks_walk_quiet content pnpm_keys _ (walk_pnpm_step content))|exact E].
Qed.
Theorem pnpm_exact content root v :
  denote_yaml content root = Some v -> pnpm_shape_ok v = true -> pnpm_known v = false ->
  exists pkgs, walk_pnpm content root = Some pkgs /\ map (nvc content) pkgs = tagl (declared_pnpm v).
Proof.
  unfold denote_yaml. intros H Hs Hk. destruct (denote_ynode content root) eqn:Dr; try discriminate. injection H as ->.
  destruct v as [s| |fl top|fl l].
  - exists []. split; [|reflexivity]. apply pnpm_quiet. rewrite Dr. intros k _. reflexivity.
  - exists []. split; [|reflexivity]. apply pnpm_quiet. rewrite Dr. intros k _. reflexivity.
  - cbn [pnpm_known] in Hk. apply orb_false_iff in Hk as [-> Hk]. cbn [pnpm_shape_ok] in Hs.
    apply (pnpm_doc content root top Dr). apply forallb_forall. intros e He.
    rewrite forallb_forall in Hs. specialize (Hs e He).
    assert ((if beq (fst e) w_catalog then is_flow (snd e)
             else if beq (fst e) w_catalogs then is_flow (snd e) || match snd e with YMap _ groups => existsb (fun g : bytes * yval => is_flow (snd g)) groups | _ => false end
             else mentions_catalog (snd e)) = false) as Hke.
    { apply not_true_is_false. intros E. match type of Hk with existsb ?f top = false => assert (existsb f top = true) as C by (apply existsb_exists; exists e; split; [exact He|exact E]) end. congruence. }
    unfold top_ok. destruct (beq (fst e) w_catalog); [now rewrite Hs, Hke|]. destruct (beq (fst e) w_catalogs); [|now rewrite Hke].
    apply orb_false_iff in Hke as [Hf Hg]. rewrite Hf. cbn [negb andb]. unfold groups_ok. destruct (snd e) as [s| |fl2 groups|fl2 l2]; try reflexivity.
    apply forallb_forall. intros g Hgin. rewrite forallb_forall in Hs. unfold group_ok. rewrite (Hs g Hgin). cbn [andb].
    destruct (is_flow (snd g)) eqn:Eg; [|reflexivity]. assert (existsb (fun g0 : bytes * yval => is_flow (snd g0)) groups = true) as C by (apply existsb_exists; eauto). congruence.
  - cbn [pnpm_known] in Hk. exists []. split; [|reflexivity]. apply pnpm_quiet. rewrite Dr. now apply quiet_catalog.
Qed.

(* the located projection carries both facts *)
Lemma located_split content pkgs : forall D, map (nvc content) pkgs = tagl D ->
  map nv pkgs = D /\ Forall (fun p => loc_ok content p = true) pkgs.
Proof.
  induction pkgs as [|p t IH]; intros [|d D] H; try discriminate.
  - split; [reflexivity|constructor].
  - cbn [map tagl] in H. injection H as H1 H2 H3 H4. destruct (IH D H4) as [A B]. split.
    + cbn [map]. unfold nv at 1. rewrite H1, H2, A. now destruct d.
    + constructor; assumption.
Qed.
Theorem pnpm_exact_nv content root v :
  denote_yaml content root = Some v -> pnpm_shape_ok v = true -> pnpm_known v = false ->
  exists pkgs, walk_pnpm content root = Some pkgs /\ map nv pkgs = declared_pnpm v.
Proof. intros H1 H2 H3. destruct (pnpm_exact content root v H1 H2 H3) as [pkgs [E M]]. exists pkgs. split; [exact E|]. exact (proj1 (located_split _ _ _ M)). Qed.
Theorem pnpm_locations content root v pkgs :
  denote_yaml content root = Some v -> pnpm_shape_ok v = true -> pnpm_known v = false -> walk_pnpm content root = Some pkgs ->
  forall p, In p pkgs -> slice content (p_start p) (p_end p) = Some (p_version p) /\ p_start p <= p_end p.
Proof.
  intros H1 H2 H3 W p Hin. destruct (pnpm_exact content root v H1 H2 H3) as [q [E M]]. rewrite W in E. injection E as <-.
  destruct (located_split _ _ _ M) as [_ F]. rewrite Forall_forall in F. specialize (F p Hin). unfold loc_ok in F.
  destruct (slice content (p_start p) (p_end p)) as [t|]; [|discriminate]. apply andb_true_iff in F as [F1 F2]. apply beq_eq in F1. apply N.leb_le in F2.
  subst t. now split.
Qed.
