(* What the model's parser makes of the canonical printing of a comparator of
   the grammar (Spec/Ranges.v).  The link  parse (print c) = view c  is not
   proved (it would need the decimal printer); it is evaluated on every
   generated case of the C02 stream (a tested link, named as such in the
   evidence).  The theorems of Props/C02.v are about [view]. *)
From VL Require Import Lib.Bytes Lib.SemVer Model.SemverUtil Model.NpmMatcher Spec.Ranges.

(* parse_version of the printed operand: partial operands are zero-padded,
   x-range spellings are rejected *)
Definition padded (p : partial) : option version :=
  match p with
  | P1 M XBare => Some (ver_new M 0 0)
  | P2 M m XBare => Some (ver_new M m 0)
  | P3 M m q pr bd => Some (mkV M m q pr bd)
  | _ => None
  end.

Definition is_op_none (o : rop) : bool := match o with OpNone => true | _ => false end.

Definition npm_view (c : comp) : option vrange :=
  let p := c_operand c in
  if c_space c && negb (is_op_none (c_op c)) then None else
  match c_op c with
  | OpNone =>
      if c_v c then option_map RExact (padded p) else
      match p with
      | PAny XStar => Some RAny
      | P1 M Xx | P1 M XX => Some (RWildMajor M)
      | P2 M m Xx | P2 M m XX => Some (RWildMinor M m)
      | _ => option_map RExact (padded p)
      end
  | OpEq => option_map RExact (padded p)
  | OpGt => option_map RGt (padded p)
  | OpGe => option_map RGte (padded p)
  | OpLt => option_map RLt (padded p)
  | OpLe => option_map RLte (padded p)
  | OpTilde => option_map RTilde (padded p)
  | OpCaret => option_map RCaret (padded p)
  end.

Definition npm_alt_view (a : nalt) : option vspec :=
  match a with
  | NHyphen f t =>
      match padded f, padded t with
      | Some vf, Some vt => Some (Single (RHyphen vf vt))
      | _, _ => None
      end
  | NAnd [c] => option_map Single (npm_view c)
  | NAnd cs => option_map And (all_some (map npm_view cs))
  end.

Definition npm_range_view (r : nrange) : option vspec :=
  match r with
  | [a] => npm_alt_view a
  | _ => option_map Or (all_some (map npm_alt_view r))
  end.

Definition crates_view (c : comp) : option vrange :=
  let p := c_operand c in
  match c_op c with
  | OpNone =>
      if c_v c then option_map RCaret (padded p) else
      match p with
      | PAny XStar => Some RAny
      | P1 M XStar => Some (RWildMajor M)
      | P2 M m XStar => Some (RWildMinor M m)
      | _ => option_map RCaret (padded p)
      end
  | OpEq => option_map RExact (padded p)
  | OpGt => option_map RGt (padded p)
  | OpGe => option_map RGte (padded p)
  | OpLt => option_map RLt (padded p)
  | OpLe => option_map RLte (padded p)
  | OpTilde => option_map RTilde (padded p)
  | OpCaret => option_map RCaret (padded p)
  end.

Definition crates_req_view (r : creq) : option (list vrange) := all_some (map crates_view r).

(* equality of parser results, for the tested link *)
Definition ver_same (a b : version) : bool := v_eq a b.
Definition vrange_eqb (a b : vrange) : bool :=
  match a, b with
  | RExact x, RExact y | RCaret x, RCaret y | RTilde x, RTilde y | RGte x, RGte y
  | RGt x, RGt y | RLte x, RLte y | RLt x, RLt y => ver_same x y
  | RAny, RAny => true
  | RWildMajor a1, RWildMajor b1 => a1 =? b1
  | RWildMinor a1 a2, RWildMinor b1 b2 => (a1 =? b1) && (a2 =? b2)
  | RHyphen f1 t1, RHyphen f2 t2 => ver_same f1 f2 && ver_same t1 t2
  | _, _ => false
  end.
Fixpoint vspec_eqb (a b : vspec) : bool :=
  match a, b with
  | Single x, Single y => vrange_eqb x y
  | And x, And y => list_eqb vrange_eqb x y
  | Or x, Or y => (fix go (l1 l2 : list vspec) : bool :=
                     match l1, l2 with
                     | [], [] => true
                     | s1 :: t1, s2 :: t2 => vspec_eqb s1 s2 && go t1 t2
                     | _, _ => false
                     end) x y
  | _, _ => false
  end.
