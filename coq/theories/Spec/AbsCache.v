(* The abstract cache of property C08: per (registry, package) key, the union of
   all version lists ever stored, the most recent non-empty tag map, the "does
   not exist" mark, the time of the last version update and the fetch claim.
   A state is a function from keys (no extensionality needed: all statements
   are pointwise). *)
From Coq Require Import ZArith.
From VL Require Import Lib.Bytes Model.CacheDb.

Record aentry := mkA {
  a_versions : list bytes;              (* without duplicates, in order of first arrival *)
  a_tags : list (bytes * bytes);
  a_nonexistent : bool;
  a_updated : Z;
  a_claim : option Z }.

Definition astate := key -> option aentry.
Definition a_empty : astate := fun _ => None.

Fixpoint add_new (old : list bytes) (vs : list bytes) : list bytes :=
  match vs with
  | [] => old
  | v :: t => if existsb (beq v) old then add_new old t else add_new (old ++ [v]) t
  end.

Inductive op :=
| OStore (k : key) (vs : list bytes) (now : Z)
| OTags (k : key) (m : list (bytes * bytes)) (now : Z)
| OMark (k : key)
| OClaim (k : key) (now : Z)
| ORelease (k : key).

Definition a_step (timeout : Z) (o : op) (st : astate) : astate :=
  fun k' =>
  match o with
  | OStore k vs now =>
      if key_eqb k k' then
        Some (match st k' with
              | None => mkA (add_new [] vs) [] false now None
              | Some e => mkA (add_new (a_versions e) vs) (a_tags e) (a_nonexistent e) now (a_claim e)
              end)
      else st k'
  | OTags k m now =>
      match m with
      | [] => st k'
      | _ => if key_eqb k k' then
               Some (match st k' with
                     | None => mkA [] m false now None
                     | Some e => mkA (a_versions e) m (a_nonexistent e) (a_updated e) (a_claim e)
                     end)
             else st k'
      end
  | OMark k =>
      if key_eqb k k' then option_map (fun e => mkA (a_versions e) (a_tags e) true (a_updated e) (a_claim e)) (st k')
      else st k'
  | OClaim k now =>
      if key_eqb k k' then
        Some (match st k' with
              | None => mkA [] [] false now (Some now)
              | Some e =>
                  let free := match a_claim e with None => true | Some s => (s <? now - timeout)%Z end in
                  if free then mkA (a_versions e) (a_tags e) (a_nonexistent e) (a_updated e) (Some now) else e
              end)
      else st k'
  | ORelease k =>
      if key_eqb k k' then option_map (fun e => mkA (a_versions e) (a_tags e) (a_nonexistent e) (a_updated e) None) (st k')
      else st k'
  end.

Definition a_run (timeout : Z) (ops : list op) : astate :=
  fold_left (fun st o => a_step timeout o st) ops a_empty.

(* whether a claim attempt succeeds in an abstract state *)
Definition a_claim_ok (timeout : Z) (k : key) (now : Z) (st : astate) : bool :=
  match st k with
  | None => true
  | Some e => match a_claim e with None => true | Some s => (s <? now - timeout)%Z end
  end.

(* ---- the concrete database run on the same operations ---- *)
Definition c_step (timeout : Z) (o : op) (d : db) : db :=
  match o with
  | OStore k vs now => replace_versions k vs now d
  | OTags k m now => save_dist_tags k m now d
  | OMark k => mark_not_found k d
  | OClaim k now => fst (try_start_fetch timeout k now d)
  | ORelease k => finish_fetch k d
  end.
Definition c_run (timeout : Z) (ops : list op) : db :=
  fold_left (fun d o => c_step timeout o d) ops empty_db.

(* abstraction function *)
Definition abs (d : db) : astate :=
  fun k => match find_pkg d k with
           | None => None
           | Some p => Some (mkA (vers_of d (p_id p)) (tags_of d (p_id p)) (p_notfound p) (p_updated p) (p_fetching p))
           end.
