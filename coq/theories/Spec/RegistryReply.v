(* Reference reading of a registry reply, written from the registries' API documentation and the
   property text - not from the adapters.  A reply is a JSON value (objects as member lists); a
   well-formed reply has the documented shape with distinct member names.  For each protocol:
   which versions the reply advertises (minus yanked ones), which tags it declares, which statuses
   are the registry's definitive "does not exist", and how the registry decodes the requested name. *)
From Coq Require Import ZArith.
From VL Require Import Lib.Bytes Model.Config.

Definition s_versions : bytes := [118;101;114;115;105;111;110;115].
Definition s_dist_tags : bytes := [100;105;115;116;45;116;97;103;115].
Definition s_time : bytes := [116;105;109;101].
Definition s_num : bytes := [110;117;109].
Definition s_yanked : bytes := [121;97;110;107;101;100].
Definition s_created_at : bytes := [99;114;101;97;116;101;100;95;97;116].
Definition s_createdAt : bytes := [99;114;101;97;116;101;100;65;116].
Definition s_tag_name : bytes := [116;97;103;95;110;97;109;101].
Definition s_published_at : bytes := [112;117;98;108;105;115;104;101;100;95;97;116].
Definition s_latest : bytes := [108;97;116;101;115;116].
Definition s_info : bytes := [105;110;102;111].
Definition s_version : bytes := [118;101;114;115;105;111;110].
Definition s_releases : bytes := [114;101;108;101;97;115;101;115].
Definition s_name : bytes := [110;97;109;101].
Definition s_commit : bytes := [99;111;109;109;105;116].
Definition s_sha : bytes := [115;104;97].

Fixpoint distinct (l : list bytes) : bool :=
  match l with [] => true | x :: t => negb (existsb (beq x) t) && distinct t end.

Definition members (j : json) : option (list (bytes * json)) :=
  match j with JObj l => if distinct (map fst l) then Some l else None | _ => None end.
Definition member (k : bytes) (j : json) : option json :=
  match j with JObj l => lookup k l | _ => None end.
Definition is_str (j : json) : bool := match j with JStr _ => true | _ => false end.
Definition is_bool (j : json) : bool := match j with JBool _ => true | _ => false end.
Definition is_obj (j : json) : bool := match members j with Some _ => true | None => false end.
Definition str_of (j : json) : bytes := match j with JStr s => s | _ => [] end.
(* an optional string member: absent, null or a string *)
Definition opt_str_member (k : bytes) (j : json) : bool :=
  match member k j with None => true | Some JNull => true | Some (JStr _) => true | Some _ => false end.
(* an optional member that, when present, is an object of strings *)
Definition str_map_member (k : bytes) (j : json) : bool :=
  match member k j with
  | None => true
  | Some m => match members m with Some l => forallb (fun p => is_str (snd p)) l | None => false end
  end.
Definition str_map_of (k : bytes) (j : json) : list (bytes * bytes) :=
  match member k j with Some (JObj l) => map (fun p => (fst p, str_of (snd p))) l | _ => [] end.
Definition yanked_true (j : json) : bool := match member s_yanked j with Some (JBool true) => true | _ => false end.

(* --- npm: GET /<name> -> { "versions": { "<v>": {...} }, "dist-tags": { "<tag>": "<v>" }, "time": {...} } --- *)
Definition wf_npm (j : json) : bool :=
  is_obj j && match member s_versions j with Some v => is_obj v | None => false end
  && str_map_member s_dist_tags j && str_map_member s_time j.
Definition adv_npm (j : json) : list bytes := match member s_versions j with Some (JObj l) => map fst l | _ => [] end.
Definition tags_npm (j : json) : list (bytes * bytes) := str_map_of s_dist_tags j.

(* --- crates.io: { "versions": [ { "num": "<v>", "yanked": bool, "created_at": "<ts>" } ] } --- *)
Definition wf_crate_version (j : json) : bool :=
  is_obj j && match member s_num j with Some (JStr _) => true | _ => false end
  && match member s_yanked j with Some (JBool _) => true | _ => false end
  && match member s_created_at j with Some (JStr _) => true | _ => false end.
Definition wf_crates (j : json) : bool :=
  is_obj j && match member s_versions j with Some (JArr l) => forallb wf_crate_version l | _ => false end.
Definition adv_crates (j : json) : list bytes :=
  match member s_versions j with
  | Some (JArr l) => map (fun v => match member s_num v with Some n => str_of n | None => [] end) (filter (fun v => negb (yanked_true v)) l)
  | _ => []
  end.

(* --- GitHub releases: one page = [ { "tag_name": "<tag>", "published_at": "<ts>" | null } ] --- *)
Definition wf_release (j : json) : bool :=
  is_obj j && match member s_tag_name j with Some (JStr _) => true | _ => false end && opt_str_member s_published_at j.
Definition wf_github_page (j : json) : bool := match j with JArr l => forallb wf_release l | _ => false end.
Definition adv_github_page (j : json) : list bytes :=
  match j with JArr l => map (fun r => match member s_tag_name r with Some n => str_of n | None => [] end) l | _ => [] end.
(* the answer of the registry is the chain of pages *)
Definition adv_github (pages : list json) : list bytes := flat_map adv_github_page pages.

(* --- JSR: { "latest": .., "versions": { "<v>": { "createdAt": "<ts>", "yanked": bool } } } --- *)
Definition wf_jsr_meta (j : json) : bool :=
  is_obj j && opt_str_member s_createdAt j && match member s_yanked j with None => true | Some (JBool _) => true | Some _ => false end.
Definition wf_jsr (j : json) : bool :=
  is_obj j && opt_str_member s_latest j
  && match member s_versions j with
     | Some v => match members v with Some l => forallb (fun p => wf_jsr_meta (snd p)) l | None => false end
     | None => false
     end.
Definition adv_jsr (j : json) : list bytes :=
  match member s_versions j with Some (JObj l) => map fst (filter (fun p => negb (yanked_true (snd p))) l) | _ => [] end.

(* --- PyPI: { "info": { "version": "<current>" }, "releases": { "<v>": [ {file} ] } } --- *)
Definition wf_pypi (j : json) : bool :=
  is_obj j
  && match member s_info j with Some i => is_obj i && match member s_version i with Some (JStr _) => true | _ => false end | None => false end
  && match member s_releases j with
     | Some r => match members r with
                 | Some l => forallb (fun p => match snd p with JArr fs => forallb is_obj fs | _ => false end) l
                 | None => false
                 end
     | None => false
     end.
Definition adv_pypi (j : json) : list bytes := match member s_releases j with Some (JObj l) => map fst l | _ => [] end.
Definition tags_pypi (j : json) : list (bytes * bytes) :=
  match member s_info j with Some i => match member s_version i with Some v => [(s_latest, str_of v)] | None => [] end | None => [] end.

(* --- Go proxy /@v/list: one version per line, '\n' or "\r\n" terminated --- *)
Fixpoint split_lines_aux (s acc : bytes) : list bytes :=
  match s with
  | [] => [rev acc]
  | c :: t => if c =? 10 then rev acc :: split_lines_aux t [] else split_lines_aux t (c :: acc)
  end.
Definition strip_cr (l : bytes) : bytes := match rev l with c :: r => if c =? 13 then rev r else l | [] => l end.
Definition adv_go (text : bytes) : list bytes :=
  filter (fun l => negb (beq l [])) (map strip_cr (split_lines_aux text [])).
(* a carriage return only ever precedes a line feed *)
Fixpoint wf_go (text : bytes) : bool :=
  match text with
  | [] => true
  | c :: t => if c =? 13 then match t with d :: _ => (d =? 10) && wf_go t | [] => false end else wf_go t
  end.

(* --- statuses --- *)
Inductive reg := RNpm | RCrates | RGo | RGitHub | RJsr | RPypi.
Definition definitive_not_found (r : reg) (status : N) : bool :=
  (status =? 404) || match r with RGo => status =? 410 | _ => false end.
Definition success (status : N) : bool := (200 <=? status) && (status <=? 299).

(* --- names: how the registry reads the request path back --- *)
(* npm routes "/<name>" with "%2F" / "%2f" standing for the '/' of a scoped name *)
Fixpoint pct_decode_slash (s : bytes) : bytes :=
  match s with
  | [] => []
  | c :: t =>
      if c =? 37 then
        match t with
        | a :: b :: t' => if (a =? 50) && ((b =? 70) || (b =? 102)) then 47 :: pct_decode_slash t' else c :: pct_decode_slash t
        | _ => c :: pct_decode_slash t
        end
      else c :: pct_decode_slash t
  end.
(* Go module proxy protocol: "!x" stands for the upper-case letter X; a literal upper-case letter or a
   dangling '!' is rejected *)
Fixpoint go_unescape (s : bytes) : option bytes :=
  match s with
  | [] => Some []
  | c :: t =>
      if c =? 33 then
        match t with
        | x :: t' => if is_lower x then option_map (cons (x - 32)) (go_unescape t') else None
        | [] => None
        end
      else if is_upper c then None else option_map (cons c) (go_unescape t)
  end.
