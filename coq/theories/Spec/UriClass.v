(* Reference classification of document URIs, written from the property text
   (C16), not from the code: a document is checked iff its URI names
   package.json, Cargo.toml, go.mod, pyproject.toml, pnpm-workspace.yaml,
   deno.json or deno.jsonc by file name, or is a *.yml / *.yaml file under a
   directory `.github/workflows/` or `.github/actions/` (either separator). *)
From VL Require Import Lib.Bytes Lib.Reg.

Definition s_package_json : bytes := [112;97;99;107;97;103;101;46;106;115;111;110].
Definition s_cargo_toml : bytes := [67;97;114;103;111;46;116;111;109;108].
Definition s_go_mod : bytes := [103;111;46;109;111;100].
Definition s_pnpm_ws : bytes := [112;110;112;109;45;119;111;114;107;115;112;97;99;101;46;121;97;109;108].
Definition s_deno_json : bytes := [100;101;110;111;46;106;115;111;110].
Definition s_deno_jsonc : bytes := [100;101;110;111;46;106;115;111;110;99].
Definition s_pyproject : bytes := [112;121;112;114;111;106;101;99;116;46;116;111;109;108].
Definition s_dot_github : bytes := [46;103;105;116;104;117;98].
Definition s_workflows : bytes := [119;111;114;107;102;108;111;119;115].
Definition s_actions : bytes := [97;99;116;105;111;110;115].
Definition s_yml : bytes := [46;121;109;108].
Definition s_yaml : bytes := [46;121;97;109;108].

Definition slash : N := 47.
Definition backslash : N := 92.
Definition Sep (c : N) : Prop := c = slash \/ c = backslash.

(* the file name of the URI is [name]: the URI is <something>/<name> *)
Definition names (uri name : bytes) : Prop := exists d, uri = d ++ slash :: name.

(* the URI has the directory components `.github`, then `workflows` or
   `actions`, as whole components: preceded by the start of the URI or a
   separator, and each followed by the same separator *)
Definition under_github_dir (uri : bytes) : Prop :=
  exists a b c sub,
    Sep c /\ (sub = s_workflows \/ sub = s_actions) /\
    uri = a ++ s_dot_github ++ c :: sub ++ c :: b /\
    (a = [] \/ exists a' p, a = a' ++ [p] /\ Sep p).

Definition is_yaml (uri : bytes) : Prop :=
  (exists t, uri = t ++ s_yml) \/ (exists t, uri = t ++ s_yaml).

Definition is_workflow (uri : bytes) : Prop := under_github_dir uri /\ is_yaml uri.

(* which ecosystem a file name belongs to *)
Definition file_table : list (bytes * registry) :=
  [ (s_package_json, Npm); (s_cargo_toml, CratesIo); (s_go_mod, GoProxy);
    (s_pnpm_ws, PnpmCatalog); (s_deno_json, Jsr); (s_deno_jsonc, Jsr);
    (s_pyproject, PyPI) ].

(* The specification.  A workflow file is a GitHub Actions document (also in
   the contrived case of a file called pnpm-workspace.yaml inside a workflow
   directory, the only overlap between the two clauses); otherwise the file
   name decides; everything else is not checked. *)
Definition classified (uri : bytes) (r : option registry) : Prop :=
  (is_workflow uri /\ r = Some GitHubActions) \/
  (~ is_workflow uri /\
   ((exists name reg, In (name, reg) file_table /\ names uri name /\ r = Some reg) \/
    ((forall name reg, In (name, reg) file_table -> ~ names uri name) /\ r = None))).

(* ---- executable rendering of the same specification (used as the run-time
   oracle on the implementation's answers; proved equivalent to [classified]
   in Proofs/DetectProofs.v) ---- *)
Definition sepb (c : N) : bool := N.eqb c slash || N.eqb c backslash.

Definition dir_patterns : list bytes :=
  flat_map (fun c => map (fun sub => s_dot_github ++ c :: sub ++ [c]) [s_workflows; s_actions])
           [slash; backslash].

Fixpoint occurs_at_boundary (p s : bytes) (boundary : bool) : bool :=
  (boundary && starts_with p s) ||
  match s with
  | [] => false
  | c :: t => occurs_at_boundary p t (sepb c)
  end.

Definition is_workflow_b (uri : bytes) : bool :=
  existsb (fun p => occurs_at_boundary p uri true) dir_patterns &&
  (ends_with s_yml uri || ends_with s_yaml uri).

Fixpoint by_name (tbl : list (bytes * registry)) (uri : bytes) : option registry :=
  match tbl with
  | [] => None
  | (name, r) :: t => if ends_with (slash :: name) uri then Some r else by_name t uri
  end.

Definition classify (uri : bytes) : option registry :=
  if is_workflow_b uri then Some GitHubActions else by_name file_table uri.
