(* Reference reading of TOML manifests (Cargo.toml, pyproject.toml), independent of the parsers:
   [denote_toml] is the denotation of a tree-sitter-toml CST as a TOML document (top-level pairs, tables with
   their header path and pairs, arrays of tables; key paths, strings unquoted) - it knows nothing about
   dependencies; [declared_cargo] / [declared_pyproject] read the dependencies off that document the way the
   Cargo reference ("Specifying dependencies") and PEP 621 / PEP 518 document it.  Executable; evaluated on every
   sample of the parse stream (Run/ManifestOracle.v). *)
From Coq Require Import ZArith.
From VL Require Import Lib.Bytes Lib.Text Lib.Cst.

(* ---------- node kinds of the grammar ---------- *)
Definition tk_document : bytes := [100;111;99;117;109;101;110;116].
Definition tk_table : bytes := [116;97;98;108;101].
Definition tk_table_array : bytes := [116;97;98;108;101;95;97;114;114;97;121;95;101;108;101;109;101;110;116].
Definition tk_pair : bytes := [112;97;105;114].
Definition tk_bare_key : bytes := [98;97;114;101;95;107;101;121].
Definition tk_quoted_key : bytes := [113;117;111;116;101;100;95;107;101;121].
Definition tk_dotted_key : bytes := [100;111;116;116;101;100;95;107;101;121].
Definition tk_string : bytes := [115;116;114;105;110;103].
Definition tk_array : bytes := [97;114;114;97;121].
Definition tk_inline_table : bytes := [105;110;108;105;110;101;95;116;97;98;108;101].
Definition tk_comment : bytes := [99;111;109;109;101;110;116].
Definition tk_escape : bytes := [101;115;99;97;112;101;95;115;101;113;117;101;110;99;101].
Definition tk_eq : bytes := [61].
Definition tk_lb : bytes := [91].
Definition tk_lblb : bytes := [91;91].
(* the punctuation tokens: [ ] [[ ]] { } , = . " ' """ ''' *)
Definition toml_punct : list bytes :=
  [ [91]; [93]; [91;91]; [93;93]; [123]; [125]; [44]; [61]; [46]; [34]; [39]; [34;34;34]; [39;39;39] ].
(* scalar kinds other than strings *)
Definition toml_scalars : list bytes :=
  [ [105;110;116;101;103;101;114]; [102;108;111;97;116]; [98;111;111;108;101;97;110];
    [111;102;102;115;101;116;95;100;97;116;101;95;116;105;109;101]; [108;111;99;97;108;95;100;97;116;101;95;116;105;109;101];
    [108;111;99;97;108;95;100;97;116;101]; [108;111;99;97;108;95;116;105;109;101] ].

(* ---------- values ---------- *)
Definition kpath := list bytes.
Inductive tval := TStr (s : bytes) | TOther | TArr (l : list tval) | TInline (l : list (kpath * tval)).
Definition tkv := (kpath * tval)%type.
Inductive titem := IPair (k : kpath) (v : tval) | ITable (h : kpath) (l : list tkv) | IArrTable (h : kpath) (l : list tkv).

Definition path_eqb (a b : kpath) : bool := list_eqb beq a b.
Fixpoint keys_nodup (l : list kpath) : bool :=
  match l with [] => true | k :: t => negb (existsb (path_eqb k) t) && keys_nodup t end.

(* ---------- keys ---------- *)
(* split at every [c]; always at least one piece *)
Fixpoint split_on (c : N) (s : bytes) : list bytes :=
  match s with
  | [] => [[]]
  | x :: t => if x =? c then [] :: split_on c t
              else match split_on c t with h :: r => (x :: h) :: r | [] => [[x]] end
  end.
Definition is_bare_char (c : N) : bool := is_alnum c || (c =? 95) || (c =? 45).
Definition plain_key_text (t : bytes) : bool := forallb (fun c => is_bare_char c || (c =? 46)) t.
(* the general form: components separated by dots, blanks and tabs around them, each a bare key, a basic-quoted
   key without backslash, or a literal-quoted key.  [st]: 0 before a component, 1 inside a bare one, 2 after one *)
Definition is_blank (c : N) : bool := (c =? 32) || (c =? 9).
Fixpoint take_until (q : N) (s : bytes) : option (bytes * bytes) :=
  match s with
  | [] => None
  | x :: t => if x =? q then Some ([], t)
              else if (x =? 92) || (x =? 10) then None
              else match take_until q t with Some (a, r) => Some (x :: a, r) | None => None end
  end.
Fixpoint key_general (fuel : nat) (s : bytes) (cur : bytes) (st : N) (acc : list bytes) : option kpath :=
  match fuel with
  | O => None
  | S f =>
      match s with
      | [] => if st =? 0 then None else Some (rev (if st =? 1 then rev cur :: acc else acc))
      | x :: t =>
          if is_blank x then
            (if st =? 1 then key_general f t [] 2 (rev cur :: acc) else key_general f t cur st acc)
          else if x =? 46 then
            (if st =? 0 then None else key_general f t [] 0 (if st =? 1 then rev cur :: acc else acc))
          else if (x =? 34) || (x =? 39) then
            (if st =? 0 then match take_until x t with
                            | Some (k, r) => key_general f r [] 2 (k :: acc)
                            | None => None
                            end
             else None)
          else if is_bare_char x then
            (if st =? 2 then None else key_general f t (x :: cur) 1 acc)
          else None
      end
  end.
Definition parse_key_text (t : bytes) : option kpath :=
  if plain_key_text t then (let p := split_on 46 t in if existsb (beq []) p then None else Some p)
  else key_general (S (length t)) t [] 0 [].

(* ---------- strings ---------- *)
(* a basic string "..." on one line, or a literal string '...'; multi-line strings are outside this reading *)
Definition toml_esc_char (c : N) : option N :=
  if c =? 34 then Some 34 else if c =? 92 then Some 92 else if c =? 98 then Some 8 else if c =? 102 then Some 12
  else if c =? 110 then Some 10 else if c =? 114 then Some 13 else if c =? 116 then Some 9 else None.
Fixpoint toml_unescape (fuel : nat) (s : bytes) : option bytes :=
  match fuel with
  | O => None
  | S f =>
      match s with
      | [] => Some []
      | c :: t =>
          if c =? 92 then
            match t with
            | e :: t1 => match toml_esc_char e with
                         | Some x => option_map (cons x) (toml_unescape f t1)
                         | None => None                   (* \u, \U: outside this reading *)
                         end
            | [] => None
            end
          else if (c =? 34) || (c =? 10) then None
          else option_map (cons c) (toml_unescape f t)
      end
  end.
Definition quoted_inner (q : N) (text : bytes) : option bytes :=
  match text with
  | x :: r => if x =? q then match rev r with y :: ri => if y =? q then Some (rev ri) else None | [] => None end else None
  | [] => None
  end.
Definition no_byte (c : N) (s : bytes) : bool := negb (existsb (N.eqb c) s).
Definition denote_toml_string (text : bytes) : option bytes :=
  match quoted_inner 34 text with
  | Some inner =>
      if no_byte 34 inner && no_byte 92 inner && no_byte 10 inner then Some inner
      else toml_unescape (S (length inner)) inner
  | None =>
      match quoted_inner 39 text with
      | Some inner => if no_byte 39 inner && no_byte 10 inner then Some inner else None
      | None => None
      end
  end.

(* ---------- denotation ---------- *)
Inductive tden :=
  TDVal (v : tval) | TDKey (k : kpath) | TDPair (k : kpath) (v : tval) | TDItem (i : titem) | TDDoc (d : list titem) | TDTok | TDBad.

Definition tvals_of (kids : list (node * tden)) : option (list tval) :=
  fold_right (fun kd acc => match snd kd, acc with
                            | TDVal v, Some l => Some (v :: l)
                            | TDTok, Some l => Some l
                            | _, _ => None
                            end) (Some []) kids.
Definition tpairs_of (kids : list (node * tden)) : option (list tkv) :=
  fold_right (fun kd acc => match snd kd, acc with
                            | TDPair k v, Some l => Some ((k, v) :: l)
                            | TDTok, Some l => Some l
                            | _, _ => None
                            end) (Some []) kids.
Definition titems_of (kids : list (node * tden)) : option (list titem) :=
  fold_right (fun kd acc => match snd kd, acc with
                            | TDItem i, Some l => Some (i :: l)
                            | TDPair k v, Some l => Some (IPair k v :: l)
                            | TDTok, Some l => Some l
                            | _, _ => None
                            end) (Some []) kids.
Definition all_tok (kids : list (node * tden)) : bool :=
  forallb (fun kd => match snd kd with TDTok => true | _ => false end) kids.
Definition nodup_pairs (l : list tkv) : option (list tkv) := if keys_nodup (map fst l) then Some l else None.

(* one level of the denotation: the node's own data and the denotations of its children *)
Definition denote_tstep (content kind : bytes) (sb eb : N) (missing : bool) (kids : list (node * tden)) : tden :=
  if missing then TDBad
  else if existsb (beq kind) toml_punct || beq kind tk_comment || beq kind tk_escape then TDTok
  else if beq kind tk_bare_key || beq kind tk_quoted_key then
    match slice content sb eb with
    | Some text => match parse_key_text text with Some [k] => TDKey [k] | _ => TDBad end
    | None => TDBad
    end
  else if beq kind tk_dotted_key then
    match slice content sb eb with
    | Some text => match parse_key_text text with Some (a :: b :: r) => TDKey (a :: b :: r) | _ => TDBad end
    | None => TDBad
    end
  else if beq kind tk_string then
    match slice content sb eb with
    | Some text => match denote_toml_string text with Some s => TDVal (TStr s) | None => TDBad end
    | None => TDBad
    end
  else if existsb (beq kind) toml_scalars then TDVal TOther
  else if beq kind tk_array then match tvals_of kids with Some l => TDVal (TArr l) | None => TDBad end
  else if beq kind tk_inline_table then
    match tpairs_of kids with
    | Some l => match nodup_pairs l with Some l' => TDVal (TInline l') | None => TDBad end
    | None => TDBad
    end
  else if beq kind tk_pair then
    (* key, '=', value, then only comments *)
    match kids with
    | (_, TDKey k) :: (en, TDTok) :: (_, TDVal v) :: rest =>
        if kind_is tk_eq en && all_tok rest then TDPair k v else TDBad
    | _ => TDBad
    end
  else if beq kind tk_table || beq kind tk_table_array then
    (* '[' header ']' then pairs and comments *)
    match kids with
    | (lb, TDTok) :: (_, TDKey h) :: (_, TDTok) :: rest =>
        if kind_is (if beq kind tk_table then tk_lb else tk_lblb) lb then
          match tpairs_of rest with
          | Some l => match nodup_pairs l with
                      | Some l' => TDItem (if beq kind tk_table then ITable h l' else IArrTable h l')
                      | None => TDBad
                      end
          | None => TDBad
          end
        else TDBad
    | _ => TDBad
    end
  else if beq kind tk_document then match titems_of kids with Some d => TDDoc d | None => TDBad end
  else TDBad.
Fixpoint denote_tnode (content : bytes) (n : node) {struct n} : tden :=
  let 'Node kind _ sb eb _ _ missing ch := n in
  denote_tstep content kind sb eb missing
    ((fix go (l : list node) : list (node * tden) :=
        match l with [] => [] | c :: t => (c, denote_tnode content c) :: go t end) ch).
Definition denote_toml (content : bytes) (root : node) : option (list titem) :=
  match denote_tnode content root with TDDoc d => Some d | _ => None end.

(* the spellings the parsers are known to misread (KNOWN_FINDINGS: toml-quoted-key, toml-literal-string; keys written
   with blanks around the dot): every key is bare / dotted-bare without blanks, every string is a basic string
   without backslashes *)
Definition plain_here (lit : bool) (content kind : bytes) (sb eb : N) : bool :=
  if beq kind tk_quoted_key then false
  else if beq kind tk_bare_key || beq kind tk_dotted_key then
    match slice content sb eb with Some t => plain_key_text t | None => false end
  else if beq kind tk_string then
    match slice content sb eb with
    | Some t => match quoted_inner 34 t with
                | Some inner => no_byte 34 inner && no_byte 92 inner && no_byte 10 inner
                | None => if lit then match quoted_inner 39 t with Some inner => no_byte 39 inner && no_byte 10 inner | None => false end
                          else false
                end
    | None => false
    end
  else true.
(* [lit]: literal strings '...' count as plain too (pyproject.toml: the parser reads them like basic strings) *)
Fixpoint plain_toml_gen (lit : bool) (content : bytes) (n : node) : bool :=
  let 'Node kind _ sb eb _ _ _ ch := n in
  plain_here lit content kind sb eb
  && (fix go (l : list node) : bool := match l with [] => true | c :: t => plain_toml_gen lit content c && go t end) ch.
(* the same, except that quoted keys are let through (the finding C04-toml-quoted-key: entries below a quoted key are
   not found - which can only make the checked list shorter, see Run.ManifestOracle.pyproject_oracle) *)
Fixpoint plain_toml_nq (lit : bool) (content : bytes) (n : node) : bool :=
  let 'Node kind _ sb eb _ _ _ ch := n in
  (beq kind tk_quoted_key || plain_here lit content kind sb eb)
  && (fix go (l : list node) : bool := match l with [] => true | c :: t => plain_toml_nq lit content c && go t end) ch.
Notation plain_toml := (plain_toml_gen false).
Notation plain_pyproject := (plain_toml_gen true).

(* ---------- Cargo.toml ---------- *)
Definition w_dependencies : bytes := [100;101;112;101;110;100;101;110;99;105;101;115].
Definition w_dev_dependencies : bytes := [100;101;118;45;100;101;112;101;110;100;101;110;99;105;101;115].
Definition w_build_dependencies : bytes := [98;117;105;108;100;45;100;101;112;101;110;100;101;110;99;105;101;115].
Definition w_workspace : bytes := [119;111;114;107;115;112;97;99;101].
Definition w_target : bytes := [116;97;114;103;101;116].
Definition w_version : bytes := [118;101;114;115;105;111;110].
Definition w_package : bytes := [112;97;99;107;97;103;101].
Definition w_path : bytes := [112;97;116;104].
Definition w_registry : bytes := [114;101;103;105;115;116;114;121].
Definition dep_words : list bytes := [w_dependencies; w_dev_dependencies; w_build_dependencies].
(* the tables the Cargo reference documents: [dependencies], [dev-dependencies], [build-dependencies],
   [workspace.dependencies], and [target.<cfg>.<one of the first three>] *)
Definition cargo_plain_tables : list kpath :=
  [ [w_dependencies]; [w_dev_dependencies]; [w_build_dependencies]; [w_workspace; w_dependencies] ].
Definition is_target_table (h : kpath) : bool :=
  match h with [t; _; d] => beq t w_target && existsb (beq d) dep_words | _ => false end.
Definition is_dep_table (h : kpath) : bool := existsb (path_eqb h) cargo_plain_tables || is_target_table h.
(* [<dependency table>.<name>]: the dependency written as a table of its own *)
Definition dep_subtable (h : kpath) : option bytes :=
  match rev h with
  | name :: rh => if is_dep_table (rev rh) then Some name else None
  | [] => None
  end.
(* dependencies that do not come from crates.io: path, workspace inheritance, another registry *)
Definition cargo_nonregistry_keys : list bytes := [w_path; w_workspace; w_registry].
Definition has_key (k : bytes) (m : list tkv) : bool := existsb (fun e => path_eqb (fst e) [k]) m.
Definition lookup_key (k : bytes) (m : list tkv) : option tval := option_map snd (find (fun e => path_eqb (fst e) [k]) m).
(* a dependency given by the members of its (inline) table *)
Definition table_dep (name : bytes) (m : list tkv) : list (bytes * bytes) :=
  if existsb (fun k => has_key k m) cargo_nonregistry_keys then []
  else match lookup_key w_version m with
       | Some (TStr s) => [(match lookup_key w_package m with Some (TStr p) => p | _ => name end, s)]
       | _ => []
       end.
(* the members of dependency [name] written with dotted keys in table [l]: name.k = v *)
Definition dotted_members (name : bytes) (l : list tkv) : list tkv :=
  flat_map (fun e => match fst e with n :: (_ :: _) as rest => if beq n name then [(rest, snd e)] else [] | _ => [] end) l.
Definition dep_entry (l : list tkv) (e : tkv) : list (bytes * bytes) :=
  match e with
  | ([name], TStr s) => [(name, s)]
  | ([name], TInline m) => table_dep name m
  | ([name; k], TStr s) => if beq k w_version then table_dep name (dotted_members name l) else []
  | _ => []
  end.
Definition table_deps (l : list tkv) : list (bytes * bytes) := flat_map (dep_entry l) l.
Definition declared_cargo (d : list titem) : list (bytes * bytes) :=
  flat_map (fun i => match i with
                     | ITable h l => if is_dep_table h then table_deps l
                                     else match dep_subtable h with Some name => table_dep name l | None => [] end
                     | _ => []
                     end) d.

(* the classes of documents on which the parser is known to deviate (KNOWN_FINDINGS.json):
   cargo-renamed-package (a 'package' member), cargo-target-and-sub-tables (sections other than the four literal
   table names: target tables, a dependency as its own table, a section reached through dotted keys),
   and a dependency written with dotted keys that has both a version and a path / workspace / registry member *)
Definition entry_known (l : list tkv) (e : tkv) : bool :=
  match e with
  | ([name], TInline m) => has_key w_package m
  | ([name; k], _) =>
      beq k w_package
      || (beq k w_version && existsb (fun s => has_key s (dotted_members name l)) (w_package :: cargo_nonregistry_keys))
  | _ => false
  end.
Definition dotted_section (h : kpath) (l : list tkv) : bool :=
  (* some proper prefix of a pair's key completes the header to a dependency table (or the table is a parent of one) *)
  existsb (fun e => match fst e with
                    | a :: _ :: _ => is_dep_table (h ++ [a]) || existsb (beq a) (w_target :: dep_words) && existsb (path_eqb h) [[]; [w_workspace]; [w_target]]
                    | _ => false
                    end) l
  || (match h with [t; _] => beq t w_target && existsb (fun e => match fst e with a :: _ => existsb (beq a) dep_words | [] => false end) l | _ => false end).
Definition cargo_known (d : list titem) : bool :=
  existsb (fun i => match i with
                    | ITable h l =>
                        (is_dep_table h && (negb (existsb (path_eqb h) cargo_plain_tables) || existsb (entry_known l) l))
                        || match dep_subtable h with Some _ => true | None => false end
                        || dotted_section h l
                    | IPair k _ => match k with a :: _ :: _ => existsb (beq a) (w_workspace :: w_target :: dep_words) | _ => false end
                    | IArrTable _ _ => false
                    end) d.

(* well-formed as a Cargo manifest, as far as this reading goes: a member of a dependency (x.y = ..) is not a table *)
Definition entry_shape_ok (e : tkv) : bool := match e with (_ :: _ :: _, TInline _) => false | _ => true end.
Definition cargo_shape_ok (d : list titem) : bool :=
  forallb (fun i => match i with ITable h l => negb (is_dep_table h) || forallb entry_shape_ok l | _ => true end) d.

(* ---------- pyproject.toml ---------- *)
(* PEP 621 project.dependencies and project.optional-dependencies.<group>, PEP 518 build-system.requires: arrays of
   PEP 508 requirement strings.  [req] is the reading of one requirement string: the (normalised) project name and the
   version specifiers of a requirement that names a registry release; None for URL requirements and invalid strings. *)
Definition w_project : bytes := [112;114;111;106;101;99;116].
Definition w_build_system : bytes := [98;117;105;108;100;45;115;121;115;116;101;109].
Definition w_requires : bytes := [114;101;113;117;105;114;101;115].
Definition w_optional_dependencies : bytes := [111;112;116;105;111;110;97;108;45;100;101;112;101;110;100;101;110;99;105;101;115].
Section PyprojectRef.
Variable req : bytes -> option (bytes * bytes).
Definition req_of (v : tval) : list (bytes * bytes) :=
  match v with TStr s => match req s with Some p => [p] | None => [] end | _ => [] end.
Definition array_reqs (v : tval) : list (bytes * bytes) := match v with TArr vs => flat_map req_of vs | _ => [] end.
(* the entry at the full key path [full] (table header followed by the pair's key) *)
Definition py_entry_decl (full : kpath) (v : tval) : list (bytes * bytes) :=
  if path_eqb full [w_project; w_dependencies] || path_eqb full [w_build_system; w_requires] then array_reqs v
  else match full with
       | [a; b; _] => if beq a w_project && beq b w_optional_dependencies then array_reqs v else []
       | [a; b] => if beq a w_project && beq b w_optional_dependencies
                   then match v with TInline m => flat_map (fun e => match fst e with [_] => array_reqs (snd e) | _ => [] end) m | _ => [] end
                   else []
       | _ => []
       end.
Definition declared_pyproject (d : list titem) : list (bytes * bytes) :=
  flat_map (fun i => match i with
                     | IPair k v => py_entry_decl k v
                     | ITable h l => flat_map (fun e => py_entry_decl (h ++ fst e) (snd e)) l
                     | IArrTable _ _ => []
                     end) d.
End PyprojectRef.
(* the three (header, key) spellings the parser reads *)
Definition py_literal_form (h k : kpath) : bool :=
  (path_eqb h [w_project] && path_eqb k [w_dependencies]) || (path_eqb h [w_build_system] && path_eqb k [w_requires])
  || (path_eqb h [w_project; w_optional_dependencies] && match k with [_] => true | _ => false end).
Definition py_path_hit (full : kpath) : bool :=
  path_eqb full [w_project; w_dependencies] || path_eqb full [w_build_system; w_requires]
  || match full with
     | [a; b; _] | [a; b] => beq a w_project && beq b w_optional_dependencies
     | _ => false
     end.
(* known class (pyproject-dotted-or-inline-sections): a dependency section reached through dotted keys or written as
   an inline table; and keys with several components inside [project.optional-dependencies] (not a PEP 621 document) *)
Definition pyproject_known (d : list titem) : bool :=
  existsb (fun i => match i with
                    | IPair k _ => py_path_hit k
                    | ITable h l => existsb (fun e => (py_path_hit (h ++ fst e) && negb (py_literal_form h (fst e)))
                                                      || (path_eqb h [w_project; w_optional_dependencies] && match fst e with [_] => false | _ => true end)) l
                    | IArrTable _ _ => false
                    end) d.
