(* The decision table of property C01, as a function of ecosystem-level facts
   about one dependency.  Written from the property text. *)
From VL Require Import Lib.Bytes.

Record facts := mkFacts {
  f_latest : option bytes;            (* cached latest version L of the package, if it is cached *)
  f_tag_target : option bytes;        (* the cached dist-tag the spec names, if it names one *)
  f_known_tag : bool;                 (* the spec is a well-known tag name (latest, next, beta, ...) *)
  f_wf : bytes -> bool;               (* the (resolved) spec is well formed for the ecosystem *)
  f_wfv : bytes -> bool;              (* L is a well-formed version *)
  f_some_inside : bytes -> bool;      (* some cached version lies inside the (resolved) spec *)
  f_latest_inside : bytes -> bytes -> bool;  (* L lies inside the (resolved) spec *)
  f_anchor_below : bytes -> bytes -> bool }. (* the version the spec is anchored at is below L *)

Inductive verdict :=
| VNothing
| VUpdate (s l : bytes)        (* warning  "Update available: S -> L" *)
| VNotFound (s : bytes)        (* error    "Version S not found in registry" *)
| VInvalid (s : bytes).        (* error    "Invalid version format: S" *)

(* [s] is the spec as written; messages always quote it, never the resolved tag target *)
Definition table (f : facts) (s : bytes) : verdict :=
  match f_latest f with
  | None => VNothing                                  (* not cached *)
  | Some l =>
      let resolved := match f_tag_target f with
                      | Some v => Some v
                      | None => if f_known_tag f then None else Some s
                      end in
      match resolved with
      | None => VNothing                              (* unresolved well-known tag *)
      | Some r =>
          if negb (f_wf f r) || negb (f_wfv f l) then VInvalid s
          else if negb (f_some_inside f r) then VNotFound s
          else if f_latest_inside f r l then VNothing
          else if f_anchor_below f r l then VUpdate s l
          else VNothing
      end
  end.
