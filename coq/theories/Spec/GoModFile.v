(* Reference reading of go.mod, independent of the parser: a file is a list of lines of five shapes over
   printable ASCII and tabs; what it declares are the (module path, version) pairs of its single-line
   requires and of the lines of its require blocks.  [render] gives the text, for every choice of
   indentation, separators, trailing blanks and trailing comments. *)
From Coq Require Import ZArith.
From VL Require Import Lib.Bytes Lib.Cst.

Definition is_sp (c : N) : bool := (c =? 32) || (c =? 9).
Definition is_vis (c : N) : bool := (33 <=? c) && (c <=? 126).            (* printable, not blank *)
Definition sp_run (s : bytes) : bool := forallb is_sp s.
Definition vis_run (s : bytes) : bool := forallb is_vis s.
Definition is_tok (s : bytes) : bool := negb (beq s []) && vis_run s.
Definition text_ok (s : bytes) : bool := forallb (fun c => is_sp c || is_vis c) s.
Fixpoint has_slashslash (s : bytes) : bool :=
  match s with
  | a :: ((b :: _) as t) => ((a =? 47) && (b =? 47)) || has_slashslash t
  | _ => false
  end.

(* trailing part of a require / spec line: blanks, then optionally a comment *)
Record tail := mkTail { t_sp : bytes; t_comment : option bytes }.
Definition render_tail (t : tail) : bytes := t_sp t ++ match t_comment t with Some c => [47; 47] ++ c | None => [] end.
(* after a closing parenthesis the comment may follow directly *)
Definition close_tail_ok (t : tail) : bool :=
  sp_run (t_sp t) && match t_comment t with Some c => text_ok c | None => true end.
Definition tail_ok (t : tail) : bool :=
  sp_run (t_sp t) && match t_comment t with Some c => text_ok c && negb (beq (t_sp t) []) | None => true end.

Inductive gline :=
| LRequire (ind sep1 m sep2 v : bytes) (t : tail)         (* <ind>require<sep1><m><sep2><v><tail> *)
| LOpen (ind sep tsp : bytes)                             (* <ind>require<sep>(<tsp> *)
| LSpec (ind m sep v : bytes) (t : tail)                  (* <ind><m><sep><v><tail> *)
| LClose (ind : bytes) (t : tail)                         (* <ind>)<tail> *)
| LOther (text : bytes).                                  (* any other line *)

Definition kw : bytes := [114;101;113;117;105;114;101].
Definition render_line (l : gline) : bytes :=
  match l with
  | LRequire ind sep1 m sep2 v t => ind ++ kw ++ sep1 ++ m ++ sep2 ++ v ++ render_tail t
  | LOpen ind sep tsp => ind ++ kw ++ sep ++ [40] ++ tsp
  | LSpec ind m sep v t => ind ++ m ++ sep ++ v ++ render_tail t
  | LClose ind t => ind ++ [41] ++ render_tail t
  | LOther text => text
  end.
Definition render (f : list gline) : bytes := flat_map (fun l => render_line l ++ [10]) f.

(* a version token: 'v' followed by visible characters, without "//" *)
Definition version_ok (v : bytes) : bool :=
  match v with 118 :: r => is_tok r && negb (has_slashslash v) | _ => false end.
Definition nonempty_sp (s : bytes) : bool := negb (beq s []) && sp_run s.
(* the first visible character of the line, if any *)
Fixpoint first_vis (s : bytes) : bytes := match s with c :: t => if is_sp c then first_vis t else s | [] => [] end.

Definition line_ok (in_block : bool) (l : gline) : bool :=
  match l with
  | LRequire ind sep1 m sep2 v t =>
      negb in_block && sp_run ind && nonempty_sp sep1 && is_tok m && nonempty_sp sep2 && version_ok v && tail_ok t
  | LOpen ind sep tsp => negb in_block && sp_run ind && sp_run sep && sp_run tsp
  | LSpec ind m sep v t =>
      in_block && sp_run ind && is_tok m && nonempty_sp sep && version_ok v && tail_ok t
      && negb (starts_with [47; 47] m) && negb (starts_with [41] m)
  | LClose ind t => in_block && sp_run ind && close_tail_ok t
  | LOther text =>
      text_ok text &&
      (if in_block then (* inside a require block only blank lines and comments *)
         let r := first_vis text in beq r [] || starts_with [47; 47] r
       else negb (starts_with kw (first_vis text)))
  end.
Definition next_block (in_block : bool) (l : gline) : bool :=
  match l with LOpen _ _ _ => true | LClose _ _ => false | _ => in_block end.
Fixpoint file_ok (in_block : bool) (f : list gline) : bool :=
  match f with [] => true | l :: t => line_ok in_block l && file_ok (next_block in_block l) t end.

Definition declared_go_mod (f : list gline) : list (bytes * bytes) :=
  flat_map (fun l => match l with LRequire _ _ m _ v _ => [(m, v)] | LSpec _ m _ v _ => [(m, v)] | _ => [] end) f.

(* where each requirement's version text sits: line number, byte column and byte offsets in [render f] *)
Definition line_len (l : gline) : N := blen (render_line l) + 1.
Definition located_line (l : gline) (num : nat) (off : N) : list pkg :=
  match l with
  | LRequire ind sep1 m sep2 v _ =>
      let c := blen ind + 7 + blen sep1 + blen m + blen sep2 in [mkPkg m v None (off + c) (off + c + blen v) (N.of_nat num) c None]
  | LSpec ind m sep v _ =>
      let c := blen ind + blen m + blen sep in [mkPkg m v None (off + c) (off + c + blen v) (N.of_nat num) c None]
  | _ => []
  end.
Fixpoint located (f : list gline) (num : nat) (off : N) : list pkg :=
  match f with [] => [] | l :: t => located_line l num off ++ located t (S num) (off + line_len l) end.
