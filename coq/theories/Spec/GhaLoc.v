(* What a reported location of a workflow step should cover (C05): the ref text of the uses: value - the tag, or
   the hash of a hash-pinned step.  [ends_quoted] is the listed class C05-quoted-uses-range-shifted: the range ends in
   the closing quote of a quoted value. *)
From VL Require Import Lib.Bytes Lib.Cst Model.Walks.

Definition ref_of (p : pkg) : bytes := match p_hash p with Some h => h | None => p_version p end.
Definition ends_quoted (content : bytes) (p : pkg) : bool :=
  match slice content (p_end p - 1) (p_end p) with
  | Some [q] => (q =? 34) || (q =? 39)
  | _ => false
  end.
Definition gha_loc_fine (content : bytes) (p : pkg) : Prop :=
  (slice content (p_start p) (p_end p) = Some (ref_of p) /\ p_start p <= p_end p) \/ ends_quoted content p = true.

Definition loc_exact_b (content : bytes) (p : pkg) : bool :=
  match slice content (p_start p) (p_end p) with
  | Some t => beq t (ref_of p) && (p_start p <=? p_end p)
  | None => false
  end.
Definition gha_loc_fine_b (content : bytes) (p : pkg) : bool := loc_exact_b content p || ends_quoted content p.
