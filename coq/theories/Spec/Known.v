(* Decidable classes of inputs on which version-lsp is known to deviate from
   the reference semantics (open findings, see /verif/KNOWN_FINDINGS.json).
   The run-time oracle excuses exactly what these predicates accept, and the
   theorems of Props/ exclude exactly the same classes. *)
From VL Require Import Lib.Bytes Lib.SemVer Spec.Ranges.

Definition is_partial (p : partial) : bool :=
  match p with P1 _ _ | P2 _ _ _ => true | _ => false end.
Definition is_bare (p : partial) : bool :=
  match p with P1 _ XBare | P2 _ _ XBare | P3 _ _ _ _ _ => true | _ => false end.
Definition is_xspelled (p : partial) : bool :=
  match p with
  | PAny _ => true
  | P1 _ XBare | P2 _ _ XBare => false
  | P1 _ _ | P2 _ _ _ => true
  | P3 _ _ _ _ _ => false
  end.

(* ---- npm (package.json, pnpm catalog, JSR) ---- *)
(* class ids: 1 partial operand zero-padded (semantic deviation)
              2 accepted grammar reported as malformed (syntactic deviation)
              3 build metadata takes part in comparisons *)
Definition npm_known_comp (c : comp) : N :=
  let p := c_operand c in
  if match c_op c with OpNone => false | _ => c_space c end then 2        (* ">= 16" *)
  else if negb (N.eqb (blen (partial_build p)) 0) then 3
  else match c_op c with
  | OpNone =>
      match p with
      | PAny XStar => if c_v c then 2 else 0
      | PAny _ => 2                                   (* "x", "X", "" *)
      | P1 _ XBare | P2 _ _ XBare => 1                (* "1", "1.2" as exact versions *)
      | P1 _ XStar | P2 _ _ XStar => 2                (* "1.*" *)
      | P1 _ _ | P2 _ _ _ => if c_v c then 2 else 0
      | P3 _ _ _ _ _ => 0
      end
  | OpEq =>
      match p with
      | P3 _ _ _ _ _ => 0
      | P1 _ XBare | P2 _ _ XBare => 1
      | _ => 2
      end
  | OpGt | OpLe | OpLt =>
      match p with
      | P3 _ _ _ _ _ => 0
      | P1 _ XBare | P2 _ _ XBare => 1
      | _ => 2
      end
  | OpGe =>
      match p with
      | P3 _ _ _ _ _ | P1 _ XBare | P2 _ _ XBare => 0
      | _ => 2
      end
  | OpTilde =>
      match p with
      | P3 _ _ _ _ _ | P2 _ _ XBare => 0
      | P1 _ XBare => 1
      | _ => 2
      end
  | OpCaret =>
      match p with
      | P3 _ _ _ _ _ => 0
      | P1 M XBare => if M =? 0 then 1 else 0
      | P2 M m XBare => if (M =? 0) && (m =? 0) then 1 else 0
      | _ => 2
      end
  end.

Definition npm_known_alt (a : nalt) : N :=
  match a with
  | NHyphen f t =>
      if negb (N.eqb (blen (partial_build f)) 0) || negb (N.eqb (blen (partial_build t)) 0) then 3
      else if is_xspelled f || is_xspelled t then 2
      else if is_partial t then 1
      else 0
  | NAnd cs => fold_right (fun c acc => let k := npm_known_comp c in if k =? 0 then acc else k) 0 cs
  end.

Definition npm_known (r : nrange) : N :=
  fold_right (fun a acc => let k := npm_known_alt a in if k =? 0 then acc else k) 0 r.

(* ---- Cargo ---- *)
Definition crates_known_comp (c : comp) : N :=
  let p := c_operand c in
  if negb (N.eqb (blen (partial_build p)) 0) then 3
  else match c_op c with
  | OpNone =>
      match p with
      | PAny XStar => if c_v c then 2 else 0
      | PAny _ => 2
      | P1 M XBare => if M =? 0 then 1 else 0
      | P2 M m XBare => if (M =? 0) && (m =? 0) then 1 else 0
      | P1 _ XStar | P2 _ _ XStar => if c_v c then 2 else 0
      | P1 _ _ | P2 _ _ _ => 2
      | P3 _ _ _ _ _ => 0
      end
  | OpEq | OpGt | OpLe | OpLt =>
      match p with
      | P3 _ _ _ _ _ => 0
      | P1 _ XBare | P2 _ _ XBare => 1
      | _ => 2
      end
  | OpGe =>
      match p with
      | P3 _ _ _ _ _ | P1 _ XBare | P2 _ _ XBare => 0
      | _ => 2
      end
  | OpTilde =>
      match p with
      | P3 _ _ _ _ _ | P2 _ _ XBare => 0
      | P1 _ XBare => 1
      | _ => 2
      end
  | OpCaret =>
      match p with
      | P3 _ _ _ _ _ => 0
      | P1 M XBare => if M =? 0 then 1 else 0
      | P2 M m XBare => if (M =? 0) && (m =? 0) then 1 else 0
      | _ => 2
      end
  end.

Definition crates_known (r : creq) : N :=
  fold_right (fun c acc => let k := crates_known_comp c in if k =? 0 then acc else k) 0 r.
