(* Reference semantics of Cargo version requirements, written from the
   `semver` crate 1.0.27 src/eval.rs (matches_impl and the matches_* functions
   it calls), without pre_is_compatible: the property asks for plain
   precedence without the package manager's prerelease exclusion. *)
From VL Require Import Lib.Bytes Lib.SemVer Spec.Ranges Spec.NodeSemver.

(* a comparator as the semver crate stores it *)
Definition c_major (p : partial) : option N :=
  match p with PAny _ => None | P1 M _ | P2 M _ _ | P3 M _ _ _ _ => Some M end.
Definition c_minor (p : partial) : option N :=
  match p with P2 _ m _ | P3 _ m _ _ _ => Some m | _ => None end.
Definition c_patch (p : partial) : option N :=
  match p with P3 _ _ q _ _ => Some q | _ => None end.
Definition c_pre (p : partial) : bytes := match p with P3 _ _ _ pr _ => pr | _ => [] end.

Definition pre_ge (a b : bytes) : bool := match cmp_pre a b with Lt => false | _ => true end.
Definition pre_gt (a b : bytes) : bool := match cmp_pre a b with Gt => true | _ => false end.
Definition pre_lt (a b : bytes) : bool := match cmp_pre a b with Lt => true | _ => false end.

Definition matches_exact (M : N) (p : partial) (x : version) : bool :=
  (major x =? M) &&
  (match c_minor p with Some m => minor x =? m | None => true end) &&
  (match c_patch p with Some q => patch x =? q | None => true end) &&
  beq (pre x) (c_pre p).

Definition matches_greater (M : N) (p : partial) (x : version) : bool :=
  if negb (major x =? M) then M <? major x else
  match c_minor p with
  | None => false
  | Some m =>
      if negb (minor x =? m) then m <? minor x else
      match c_patch p with
      | None => false
      | Some q => if negb (patch x =? q) then q <? patch x else pre_gt (pre x) (c_pre p)
      end
  end.

Definition matches_less (M : N) (p : partial) (x : version) : bool :=
  if negb (major x =? M) then major x <? M else
  match c_minor p with
  | None => false
  | Some m =>
      if negb (minor x =? m) then minor x <? m else
      match c_patch p with
      | None => false
      | Some q => if negb (patch x =? q) then patch x <? q else pre_lt (pre x) (c_pre p)
      end
  end.

Definition matches_tilde (M : N) (p : partial) (x : version) : bool :=
  if negb (major x =? M) then false else
  match c_minor p with
  | Some m => if negb (minor x =? m) then false else
      match c_patch p with
      | Some q => if negb (patch x =? q) then q <? patch x else pre_ge (pre x) (c_pre p)
      | None => pre_ge (pre x) (c_pre p)
      end
  | None => pre_ge (pre x) (c_pre p)
  end.

Definition matches_caret (M : N) (p : partial) (x : version) : bool :=
  if negb (major x =? M) then false else
  match c_minor p with
  | None => true
  | Some m =>
      match c_patch p with
      | None => if 0 <? M then m <=? minor x else minor x =? m
      | Some q =>
          if 0 <? M then
            if negb (minor x =? m) then m <? minor x
            else if negb (patch x =? q) then q <? patch x
            else pre_ge (pre x) (c_pre p)
          else if 0 <? m then
            if negb (minor x =? m) then false
            else if negb (patch x =? q) then q <? patch x
            else pre_ge (pre x) (c_pre p)
          else if negb (minor x =? m) || negb (patch x =? q) then false
          else pre_ge (pre x) (c_pre p)
      end
  end.

(* matches_impl; a comparator whose operand is a bare wildcard only occurs as
   the whole requirement `*` and admits everything *)
Definition cargo_comp (c : comp) (x : version) : bool :=
  let p := c_operand c in
  match c_major p with
  | None => true
  | Some M =>
      match c_op c with
      | OpEq => matches_exact M p x
      | OpNone => if is_full p then matches_caret M p x
                  else match p with
                       | P1 _ XBare | P2 _ _ XBare => matches_caret M p x   (* bare = caret *)
                       | _ => matches_exact M p x                           (* 1.*, 1.2.x : Op::Wildcard *)
                       end
      | OpGt => matches_greater M p x
      | OpGe => matches_exact M p x || matches_greater M p x
      | OpLt => matches_less M p x
      | OpLe => matches_exact M p x || matches_less M p x
      | OpTilde => matches_tilde M p x
      | OpCaret => matches_caret M p x
      end
  end.

Definition cargo_sat (r : creq) (x : version) : bool := forallb (fun c => cargo_comp c x) r.

(* Second reading (R2) of "plain SemVer precedence" for Cargo: the documented
   desugaring of each comparator into an interval (a bare operand is a caret
   requirement; upper bounds exclude the prereleases of the bound, as both
   tools do), followed by precedence tests.  It coincides with matches_impl on
   every release version; on prerelease versions matches_impl rejects or
   admits them at partial operands in ways an interval reading does not. *)
Definition as_caret (c : comp) : comp :=
  match c_op c, c_operand c with
  | OpNone, P1 _ XBare | OpNone, P2 _ _ XBare | OpNone, P3 _ _ _ _ _ =>
      mkComp OpCaret (c_space c) (c_v c) (c_operand c)
  | _, _ => c
  end.
Definition cargo_comp_r2 (z : bool) (c : comp) (x : version) : bool := node_comp z (as_caret c) x.
Definition cargo_sat_r2 (z : bool) (r : creq) (x : version) : bool := forallb (fun c => cargo_comp_r2 z c x) r.
