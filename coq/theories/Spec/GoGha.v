(* Reference semantics for go.mod versions and GitHub Actions refs (C02),
   from the property text and the tools' documentation. *)
From VL Require Import Lib.Bytes Lib.SemVer.

(* ---- Go: exact identity modulo a leading `v` and a trailing `+incompatible` ---- *)
Definition s_incompat : bytes := [43;105;110;99;111;109;112;97;116;105;98;108;101].
Definition go_core (s : bytes) : bytes :=
  let s1 := match s with 118 :: t => t | _ => s end in
  if ends_with s_incompat s1 then firstn (length s1 - length s_incompat) s1 else s1.
Definition go_same (a b : bytes) : bool := beq (go_core a) (go_core b).

(* go versions as a syntax tree: release, prerelease, and the three pseudo-version forms of
   https://go.dev/ref/mod#pseudo-versions *)
Inductive gover :=
| GRel (M m p : N) (incompat : bool)
| GPre (M m p : N) (pr : bytes)
| GPseudo1 (M : N) (ts hash : bytes)                 (* vM.0.0-TS-HASH *)
| GPseudo2 (M m p : N) (pr : bytes) (ts hash : bytes) (* vM.m.p-PRE.0.TS-HASH *)
| GPseudo3 (M m p : N) (ts hash : bytes).            (* vM.m.(p+1)-0.TS-HASH *)
Definition g_is_pseudo (g : gover) : bool :=
  match g with GRel _ _ _ _ | GPre _ _ _ _ => false | _ => true end.

(* ---- GitHub Actions: version-like tags, prefix matching by specificity ---- *)
(* a version-like tag: optional v/V, 1-3 numeric components, optional -prerelease *)
Record tag := mkTag { t_nums : list N; t_pre : bytes }.
Definition pad3 (l : list N) : list N :=
  match l with
  | [a] => [a; 0; 0]
  | [a; b] => [a; b; 0]
  | _ => l
  end.
Definition nums_eqb := list_eqb N.eqb.
(* spec tag s admits available tag a *)
Definition gha_admits (s a : tag) : bool :=
  match t_nums s with
  | [x] => nums_eqb (firstn 1 (pad3 (t_nums a))) [x]
  | [x; y] => nums_eqb (firstn 2 (pad3 (t_nums a))) [x; y]
  | l => nums_eqb (pad3 (t_nums a)) l && beq (t_pre a) (t_pre s)
  end.

(* a version-like ref, textually: an optional v (then an optional V), then - up to the first '-' - one to three
   dot-separated components.  A ref that is not of this form (a branch name is judged by its components too: 'main'
   has one; 'release/v1.2.3.4' has four) with more than three components is not a version-like tag. *)
Definition strip_vV (v : bytes) : bytes :=
  let v1 := match strip_prefix [118] v with Some r => r | None => v end in
  match strip_prefix [86] v1 with Some r => r | None => v1 end.
Definition ref_like (s : bytes) : bool :=
  match strip_vV s with
  | [] => false
  | v => let base := match split_once 45 v with Some (b, _) => b | None => v end in
         match split_char 46 base with [_] | [_; _] | [_; _; _] => true | _ => false end
  end.
