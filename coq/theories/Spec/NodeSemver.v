(* Reference semantics of node-semver ranges, written from node-semver 7.6.2
   classes/range.js (replaceTilde, replaceCaret, replaceXRange, hyphenReplace)
   and classes/comparator.js - not from version-lsp.  No prerelease exclusion
   filter is applied ("plain SemVer precedence", property C02).  The parameter
   [z] is node's includePrerelease flag as it affects *desugaring*: with [z] a
   lower bound obtained from a partial or x-range operand is M.m.p-0 instead of
   M.m.p.  Both settings are legitimate readings of the property; they agree
   on every release version. *)
From VL Require Import Lib.Bytes Lib.SemVer Spec.Ranges.

Definition zlo (z : bool) (M m p : N) : version := mkV M m p (if z then [48] else []) [].

Definition xrange_sat (z : bool) (p : partial) (x : version) : bool :=
  match p with
  | PAny _ => true
  | P1 M _ => p_ge (zlo z M 0 0) x && below0 (M + 1) 0 0 x
  | P2 M m _ => p_ge (zlo z M m 0) x && below0 M (m + 1) 0 x
  | P3 M m p pr _ => p_eq (mkV M m p pr []) x
  end.

Definition node_comp (z : bool) (c : comp) (x : version) : bool :=
  let p := c_operand c in
  match c_op c with
  | OpNone | OpEq => xrange_sat z p x
  | OpGt =>
      match p with
      | PAny _ => false
      | P1 M _ => p_ge (zlo z (M + 1) 0 0) x
      | P2 M m _ => p_ge (zlo z M (m + 1) 0) x
      | P3 M m p pr _ => p_gt (mkV M m p pr []) x
      end
  | OpGe =>
      match p with
      | PAny _ => true
      | P1 M _ => p_ge (zlo z M 0 0) x
      | P2 M m _ => p_ge (zlo z M m 0) x
      | P3 M m p pr _ => p_ge (mkV M m p pr []) x
      end
  | OpLt =>
      match p with
      | PAny _ => false
      | P1 M _ => below0 M 0 0 x
      | P2 M m _ => below0 M m 0 x
      | P3 M m p pr _ => p_lt (mkV M m p pr []) x
      end
  | OpLe =>
      match p with
      | PAny _ => true
      | P1 M _ => below0 (M + 1) 0 0 x
      | P2 M m _ => below0 M (m + 1) 0 x
      | P3 M m p pr _ => p_le (mkV M m p pr []) x
      end
  | OpTilde =>
      match p with
      | PAny _ => true
      | P1 M _ => p_ge (mkV M 0 0 [] []) x && below0 (M + 1) 0 0 x
      | P2 M m _ => p_ge (mkV M m 0 [] []) x && below0 M (m + 1) 0 x
      | P3 M m p pr _ => p_ge (mkV M m p pr []) x && below0 M (m + 1) 0 x
      end
  | OpCaret =>
      match p with
      | PAny _ => true
      | P1 M _ => p_ge (zlo z M 0 0) x && below0 (M + 1) 0 0 x
      | P2 M m _ =>
          if M =? 0 then p_ge (zlo z 0 m 0) x && below0 0 (m + 1) 0 x
          else p_ge (zlo z M m 0) x && below0 (M + 1) 0 0 x
      | P3 M m p pr _ =>
          let lower := match pr with
                       | [] => if M =? 0 then zlo z M m p else mkV M m p [] []
                       | _ => mkV M m p pr []
                       end in
          p_ge lower x &&
          (if negb (M =? 0) then below0 (M + 1) 0 0 x
           else if negb (m =? 0) then below0 0 (m + 1) 0 x
           else below0 0 0 (p + 1) x)
      end
  end.

Definition hyphen_sat (z : bool) (a b : partial) (x : version) : bool :=
  (match a with
   | PAny _ => true
   | P1 M _ => p_ge (zlo z M 0 0) x
   | P2 M m _ => p_ge (zlo z M m 0) x
   | P3 M m p pr _ => match pr with
                      | [] => p_ge (zlo z M m p) x
                      | _ => p_ge (mkV M m p pr []) x
                      end
   end) &&
  (match b with
   | PAny _ => true
   | P1 M _ => below0 (M + 1) 0 0 x
   | P2 M m _ => below0 M (m + 1) 0 x
   | P3 M m p pr _ => p_le (mkV M m p pr []) x
   end).

Definition nalt_sat (z : bool) (a : nalt) (x : version) : bool :=
  match a with
  | NHyphen f t => hyphen_sat z f t x
  | NAnd cs => forallb (fun c => node_comp z c x) cs
  end.

Definition node_sat (z : bool) (r : nrange) (x : version) : bool :=
  existsb (fun a => nalt_sat z a x) r.
