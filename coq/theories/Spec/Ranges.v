(* Abstract syntax of dependency ranges (npm / Cargo), shared by the two
   reference semantics.  Layout choices that do not change the meaning in the
   ecosystem's grammar (a blank after the operator, a `v` in front of the
   operand, how a missing component is spelled) are part of the syntax tree so
   that the printed form is determined by it. *)
From VL Require Import Lib.Bytes Lib.SemVer.

Inductive rop := OpNone | OpEq | OpGt | OpGe | OpLt | OpLe | OpTilde | OpCaret.

(* how the first missing component of a partial operand is written *)
Inductive xflavor := XBare | Xx | XX | XStar.

Inductive partial :=
| PAny (fl : xflavor)                       (* "", x, X, * *)
| P1 (M : N) (fl : xflavor)                 (* 1, 1.x, 1.X, 1.* *)
| P2 (M m : N) (fl : xflavor)               (* 1.2, 1.2.x, 1.2.X, 1.2.* *)
| P3 (M m p : N) (pr bd : bytes).           (* 1.2.3[-pr][+bd] *)

Record comp := mkComp { c_op : rop; c_space : bool; c_v : bool; c_operand : partial }.

(* npm: alternatives joined by ||, each a hyphen range or a blank-separated
   conjunction of comparators *)
Inductive nalt := NHyphen (a b : partial) | NAnd (cs : list comp).
Definition nrange := list nalt.

(* Cargo: comma-separated conjunction *)
Definition creq := list comp.

Definition is_full (p : partial) : bool := match p with P3 _ _ _ _ _ => true | _ => false end.
Definition partial_build (p : partial) : bytes := match p with P3 _ _ _ _ b => b | _ => [] end.

(* ---- precedence tests (build metadata never matters) ---- *)
Definition p_ge (v x : version) : bool := match prec x v with Lt => false | _ => true end.
Definition p_gt (v x : version) : bool := match prec x v with Gt => true | _ => false end.
Definition p_le (v x : version) : bool := match prec x v with Gt => false | _ => true end.
Definition p_lt (v x : version) : bool := match prec x v with Lt => true | _ => false end.
Definition p_eq (v x : version) : bool := match prec x v with Eq => true | _ => false end.

(* x < M.m.p-0 : below every version, prerelease or not, of the tuple (M,m,p) *)
Definition below0 (M m p : N) (x : version) : bool := p_lt (mkV M m p [48] []) x.
