(* Reference reading of YAML manifests (pnpm-workspace.yaml, GitHub Actions workflows and composite actions),
   independent of the parsers: [denote_yaml] is the denotation of a tree-sitter-yaml CST as a YAML value (mappings as
   member lists, sequences, scalars as their text) - it knows nothing about dependencies; [declared_pnpm] /
   [declared_gha] read the dependencies off that value the way pnpm ("Catalogs") and GitHub ("Workflow syntax":
   jobs.<id>.steps[*].uses, "Metadata syntax": runs.steps[*].uses) document it.  Executable; evaluated on every sample. *)
From Coq Require Import ZArith.
From VL Require Import Lib.Bytes Lib.Text Lib.Cst.

(* ---------- node kinds ---------- *)
Definition yk_stream : bytes := [115;116;114;101;97;109].
Definition yk_document : bytes := [100;111;99;117;109;101;110;116].
Definition yk_block_node : bytes := [98;108;111;99;107;95;110;111;100;101].
Definition yk_flow_node : bytes := [102;108;111;119;95;110;111;100;101].
Definition yk_block_mapping : bytes := [98;108;111;99;107;95;109;97;112;112;105;110;103].
Definition yk_block_mapping_pair : bytes := [98;108;111;99;107;95;109;97;112;112;105;110;103;95;112;97;105;114].
Definition yk_block_sequence : bytes := [98;108;111;99;107;95;115;101;113;117;101;110;99;101].
Definition yk_block_sequence_item : bytes := [98;108;111;99;107;95;115;101;113;117;101;110;99;101;95;105;116;101;109].
Definition yk_flow_mapping : bytes := [102;108;111;119;95;109;97;112;112;105;110;103].
Definition yk_flow_pair : bytes := [102;108;111;119;95;112;97;105;114].
Definition yk_flow_sequence : bytes := [102;108;111;119;95;115;101;113;117;101;110;99;101].
Definition yk_plain_scalar : bytes := [112;108;97;105;110;95;115;99;97;108;97;114].
Definition yk_dq_scalar : bytes := [100;111;117;98;108;101;95;113;117;111;116;101;95;115;99;97;108;97;114].
Definition yk_sq_scalar : bytes := [115;105;110;103;108;101;95;113;117;111;116;101;95;115;99;97;108;97;114].
Definition yk_comment : bytes := [99;111;109;109;101;110;116].
Definition yk_escape : bytes := [101;115;99;97;112;101;95;115;101;113;117;101;110;99;101].
Definition yk_colon : bytes := [58].
Definition yf_key : bytes := [107;101;121].
Definition yf_value : bytes := [118;97;108;117;101].
(* the leaves of a plain scalar *)
Definition yaml_scalar_leaves : list bytes :=
  [ [115;116;114;105;110;103;95;115;99;97;108;97;114]; [105;110;116;101;103;101;114;95;115;99;97;108;97;114];
    [102;108;111;97;116;95;115;99;97;108;97;114]; [98;111;111;108;101;97;110;95;115;99;97;108;97;114];
    [110;117;108;108;95;115;99;97;108;97;114]; [116;105;109;101;115;116;97;109;112;95;115;99;97;108;97;114] ].
(* punctuation: colon, dash, comma, braces, brackets, the two quote characters, question mark, document markers *)
Definition yaml_punct : list bytes :=
  [ [58]; [45]; [44]; [123]; [125]; [91]; [93]; [34]; [39]; [63]; [45;45;45]; [46;46;46] ].

(* ---------- values ---------- *)
(* [fl]: written in flow style ({..} / [..]); the reference readings do not look at it, the known classes do *)
Inductive yval := YStr (s : bytes) | YNull | YMap (fl : bool) (l : list (bytes * yval)) | YSeq (fl : bool) (l : list yval).

(* ---------- scalars ---------- *)
Definition yquoted_inner (q : N) (text : bytes) : option bytes :=
  match text with
  | x :: r => if x =? q then match rev r with y :: ri => if y =? q then Some (rev ri) else None | [] => None end else None
  | [] => None
  end.
Definition has_byte (c : N) (s : bytes) : bool := existsb (N.eqb c) s.
(* a plain scalar on one line: its text, which has no surrounding blanks and contains no quote characters
   (a plain scalar cannot start with one; inner quotes are outside this reading), no ": " / " #" structure is
   re-checked here - the grammar decides where a plain scalar ends *)
Definition plain_scalar_ok (t : bytes) : bool :=
  negb (beq t []) && beq (trim t) t && negb (has_byte 10 t) && negb (has_byte 34 t) && negb (has_byte 39 t).
(* a double-quoted scalar without escapes, a single-quoted scalar without a doubled quote: the text between the quotes
   (scalars containing the other quote character are outside this reading) *)
Definition dq_scalar_inner (t : bytes) : option bytes :=
  match yquoted_inner 34 t with
  | Some inner => if has_byte 34 inner || has_byte 92 inner || has_byte 10 inner || has_byte 39 inner then None else Some inner
  | None => None
  end.
Definition sq_scalar_inner (t : bytes) : option bytes :=
  match yquoted_inner 39 t with
  | Some inner => if has_byte 39 inner || has_byte 10 inner || has_byte 34 inner then None else Some inner
  | None => None
  end.

(* ---------- denotation ---------- *)
Inductive yden := YDVal (v : yval) | YDPair (k : bytes) (v : yval) | YDDoc (v : yval) | YDTok | YDBad.

Definition yvals_of (kids : list (node * yden)) : option (list yval) :=
  fold_right (fun kd acc => match snd kd, acc with
                            | YDVal v, Some l => Some (v :: l)
                            | YDTok, Some l => Some l
                            | _, _ => None
                            end) (Some []) kids.
Definition ypairs_of (kids : list (node * yden)) : option (list (bytes * yval)) :=
  fold_right (fun kd acc => match snd kd, acc with
                            | YDPair k v, Some l => Some ((k, v) :: l)
                            | YDTok, Some l => Some l
                            | _, _ => None
                            end) (Some []) kids.
Definition ydocs_of (kids : list (node * yden)) : option (list yval) :=
  fold_right (fun kd acc => match snd kd, acc with
                            | YDDoc v, Some l => Some (v :: l)
                            | YDTok, Some l => Some l
                            | _, _ => None
                            end) (Some []) kids.
Fixpoint ykeys_nodup (l : list bytes) : bool :=
  match l with [] => true | k :: t => negb (existsb (beq k) t) && ykeys_nodup t end.
(* a mapping pair: the first child (a flow_node / block_node) has field "key" and is a scalar, then the colon; after it comments and at most one
   child with field "value", the value; no other child carries one of the two fields *)
Definition is_wrapper (n : node) : bool := kind_is yk_flow_node n || kind_is yk_block_node n.
Definition neutral_tok (kd : node * yden) : bool :=
  match snd kd with YDTok => negb (beq (n_field (fst kd)) yf_key) && negb (beq (n_field (fst kd)) yf_value) | _ => false end.
Fixpoint ypair_rest (rest : list (node * yden)) : option (option yval) :=
  match rest with
  | [] => Some None
  | (n, YDVal v) :: t => if beq (n_field n) yf_value && is_wrapper n && forallb neutral_tok t then Some (Some v) else None
  | kd :: t => if neutral_tok kd then ypair_rest t else None
  end.
Definition ypair_of (kids : list (node * yden)) : yden :=
  match kids with
  | (kn, YDVal (YStr k)) :: (cn, YDTok) :: rest =>
      if beq (n_field kn) yf_key && is_wrapper kn && kind_is yk_colon cn && negb (beq (n_field cn) yf_key) && negb (beq (n_field cn) yf_value) then
        match ypair_rest rest with
        | Some (Some v) => YDPair k v
        | Some None => YDPair k YNull
        | None => YDBad
        end
      else YDBad
  | _ => YDBad
  end.

(* tokens: punctuation, comments, escape sequences, the leaf of a plain scalar *)
Definition ytokish (kind : bytes) : bool :=
  existsb (beq kind) yaml_punct || beq kind yk_comment || beq kind yk_escape || existsb (beq kind) yaml_scalar_leaves.
Definition all_ytok (kids : list (node * yden)) : bool := forallb (fun kd => match snd kd with YDTok => true | _ => false end) kids.
(* the one child of a flow_node / block_node that carries the value: not itself such a wrapper, and when it is a scalar
   it spans the wrapper exactly *)
Fixpoint wrapped (sb eb : N) (kids : list (node * yden)) : option yval :=
  match kids with
  | [] => None
  | (c, YDVal v) :: t =>
      if negb (is_wrapper c) && negb (kind_is yk_block_sequence_item c) && all_ytok t && match v with YStr _ => (n_sb c =? sb) && (n_eb c =? eb) | _ => true end
      then Some v else None
  | (_, YDTok) :: t => wrapped sb eb t
  | _ => None
  end.
Definition pairs_kind (k : bytes) (kids : list (node * yden)) : bool :=
  forallb (fun kd => match snd kd with YDPair _ _ => kind_is k (fst kd) | _ => true end) kids.
Definition denote_ystep (content kind : bytes) (sb eb : N) (missing : bool) (kids : list (node * yden)) : yden :=
  if missing then YDBad
  else if ytokish kind then
    match kids with [] => YDTok | _ => YDBad end
  else if beq kind yk_plain_scalar then
    match slice content sb eb with
    | Some t => if plain_scalar_ok t && all_ytok kids then YDVal (YStr t) else YDBad
    | None => YDBad
    end
  else if beq kind yk_dq_scalar then
    match slice content sb eb with
    | Some t => match dq_scalar_inner t with Some s => if all_ytok kids then YDVal (YStr s) else YDBad | None => YDBad end
    | None => YDBad
    end
  else if beq kind yk_sq_scalar then
    match slice content sb eb with
    | Some t => match sq_scalar_inner t with Some s => if all_ytok kids then YDVal (YStr s) else YDBad | None => YDBad end
    | None => YDBad
    end
  else if beq kind yk_flow_node || beq kind yk_block_node then
    (* exactly one child carries the value (anchors, tags and block scalars are outside this reading) *)
    match wrapped sb eb kids with Some v => YDVal v | None => YDBad end
  else if beq kind yk_block_mapping || beq kind yk_flow_mapping then
    (* the members of a block mapping are block pairs, those of a flow mapping flow pairs *)
    match ypairs_of kids with
    | Some l => if ykeys_nodup (map fst l) && pairs_kind (if beq kind yk_flow_mapping then yk_flow_pair else yk_block_mapping_pair) kids
                then YDVal (YMap (beq kind yk_flow_mapping) l) else YDBad
    | None => YDBad
    end
  else if beq kind yk_block_mapping_pair || beq kind yk_flow_pair then ypair_of kids
  else if beq kind yk_block_sequence || beq kind yk_flow_sequence then
    match yvals_of kids with Some l => YDVal (YSeq (beq kind yk_flow_sequence) l) | None => YDBad end
  else if beq kind yk_block_sequence_item then
    match yvals_of kids with Some [v] => YDVal v | Some [] => YDVal YNull | _ => YDBad end
  else if beq kind yk_document then
    match yvals_of kids with Some [v] => YDDoc v | _ => YDBad end
  else if beq kind yk_stream then
    match ydocs_of kids with Some [v] => YDDoc v | _ => YDBad end
  else YDBad.
Fixpoint denote_ynode (content : bytes) (n : node) {struct n} : yden :=
  let 'Node kind _ sb eb _ _ missing ch := n in
  denote_ystep content kind sb eb missing
    ((fix go (l : list node) : list (node * yden) :=
        match l with [] => [] | c :: t => (c, denote_ynode content c) :: go t end) ch).
Definition denote_yaml (content : bytes) (root : node) : option yval :=
  match denote_ynode content root with YDDoc v => Some v | _ => None end.

(* ---------- pnpm-workspace.yaml ---------- *)
Definition w_catalog : bytes := [99;97;116;97;108;111;103].
Definition w_catalogs : bytes := [99;97;116;97;108;111;103;115].
Definition catalog_entries (v : yval) : list (bytes * bytes) :=
  match v with
  | YMap _ l => flat_map (fun e => match snd e with YStr s => if beq s [] then [] else [(fst e, s)] | _ => [] end) l
  | _ => []
  end.
Definition declared_pnpm (v : yval) : list (bytes * bytes) :=
  match v with
  | YMap _ top =>
      flat_map (fun e => if beq (fst e) w_catalog then catalog_entries (snd e)
                         else if beq (fst e) w_catalogs then
                           match snd e with YMap _ groups => flat_map (fun g => catalog_entries (snd g)) groups | _ => [] end
                         else []) top
  | _ => []
  end.
(* a key named [k] anywhere in the value *)
Fixpoint mentions (k : bytes) (v : yval) : bool :=
  match v with
  | YMap _ l => (fix go (l : list (bytes * yval)) : bool :=
                   match l with [] => false | (k', x) :: t => beq k' k || mentions k x || go t end) l
  | YSeq _ l => (fix go (l : list yval) : bool := match l with [] => false | x :: t => mentions k x || go t end) l
  | _ => false
  end.
Definition mentions_catalog (v : yval) : bool := mentions w_catalog v || mentions w_catalogs v.
(* well-formed as a pnpm workspace file, as far as this reading goes: the entries of a catalog mapping are scalars
   (a mapping as the value of an entry is not a catalog) *)
Definition is_catalog (v : yval) : bool :=
  match v with YMap _ l => forallb (fun e => match snd e with YStr _ | YNull => true | _ => false end) l | _ => true end.
Definition pnpm_shape_ok (v : yval) : bool :=
  match v with
  | YMap _ top => forallb (fun e => if beq (fst e) w_catalog then is_catalog (snd e)
                                    else if beq (fst e) w_catalogs then match snd e with YMap _ groups => forallb (fun g => is_catalog (snd g)) groups | _ => true end
                                    else true) top
  | _ => true
  end.
(* known classes: the walk takes ANY key named catalog / catalogs, at any depth, for a catalog section
   (pnpm-catalog-key-anywhere); and it does not enter flow collections (yaml-flow-collections): the top-level mapping,
   a catalog, the catalogs mapping or one of its groups written in flow style *)
Definition is_flow (v : yval) : bool := match v with YMap fl _ | YSeq fl _ => fl | _ => false end.
Definition pnpm_known (v : yval) : bool :=
  match v with
  | YMap fl top =>
      fl || existsb (fun e => if beq (fst e) w_catalog then is_flow (snd e)
                              else if beq (fst e) w_catalogs then is_flow (snd e) || match snd e with YMap _ groups => existsb (fun g => is_flow (snd g)) groups | _ => false end
                              else mentions_catalog (snd e)) top
  | _ => mentions_catalog v
  end.

(* ---------- GitHub Actions: workflows (jobs.<id>.steps[*].uses) and composite actions (runs.steps[*].uses) ---------- *)
Definition w_jobs : bytes := [106;111;98;115].
Definition w_runs : bytes := [114;117;110;115].
Definition w_steps : bytes := [115;116;101;112;115].
Definition w_uses : bytes := [117;115;101;115].
Definition p_local : bytes := [46;47].                                    (* ./ *)
Definition p_docker : bytes := [100;111;99;107;101;114;58;47;47].         (* docker:// *)
Fixpoint ysplit_on (c : N) (s : bytes) : list bytes :=
  match s with
  | [] => [[]]
  | x :: t => if x =? c then [] :: ysplit_on c t
              else match ysplit_on c t with h :: r => (x :: h) :: r | [] => [[x]] end
  end.
(* {owner}/{repo}[/path]@{ref}: the repository and the ref; nothing for local (./) and docker:// actions *)
Definition uses_decl (s : bytes) : list (bytes * bytes) :=
  if starts_with p_local s || starts_with p_docker s then []
  else match find_char 64 s with
       | None => []
       | Some at_ =>
           match ysplit_on 47 (firstn_N at_ s) with
           | owner :: repo :: _ => [(owner ++ [47] ++ repo, skipn_N (at_ + 1) s)]
           | _ => []
           end
       end.
Definition step_uses (st : yval) : list (bytes * bytes) :=
  match st with
  | YMap _ sm => flat_map (fun e => if beq (fst e) w_uses then match snd e with YStr s => uses_decl s | _ => [] end else []) sm
  | _ => []
  end.
Definition steps_uses (v : yval) : list (bytes * bytes) := match v with YSeq _ steps => flat_map step_uses steps | _ => [] end.
Definition job_uses (v : yval) : list (bytes * bytes) :=
  match v with YMap _ jm => flat_map (fun e => if beq (fst e) w_steps then steps_uses (snd e) else []) jm | _ => [] end.
Definition declared_gha (v : yval) : list (bytes * bytes) :=
  match v with
  | YMap _ top => flat_map (fun e => if beq (fst e) w_jobs then match snd e with YMap _ jobs => flat_map (fun j => job_uses (snd j)) jobs | _ => [] end
                                   else if beq (fst e) w_runs then job_uses (snd e) else []) top
  | _ => []
  end.

(* the shape the documentation prescribes, as far as the walk can tell the difference: the only keys named "steps" are
   jobs.<id>.steps and runs.steps, their values are sequences of mappings, and inside a step the only key named "uses"
   is the step's own, with a scalar value *)
Definition step_regular (st : yval) : bool :=
  match st with
  | YMap _ sm => forallb (fun e => negb (beq (fst e) w_steps) && negb (mentions w_steps (snd e)) && negb (mentions w_uses (snd e))
                                 && (negb (beq (fst e) w_uses) || match snd e with YStr _ | YNull => true | _ => false end)) sm
  | o => negb (mentions w_steps o) && negb (mentions w_uses o)
  end.
Definition steps_regular (v : yval) : bool :=
  match v with YSeq _ steps => forallb step_regular steps | o => negb (mentions w_steps o) && negb (mentions w_uses o) end.
Definition job_regular (v : yval) : bool :=
  match v with
  | YMap _ jm => forallb (fun e => if beq (fst e) w_steps then steps_regular (snd e) else negb (mentions w_steps (snd e))) jm
  | o => negb (mentions w_steps o)
  end.
Definition gha_regular (v : yval) : bool :=
  match v with
  | YMap _ top => forallb (fun e => if beq (fst e) w_jobs then
                                    match snd e with
                                    | YMap _ jobs => forallb (fun j => negb (beq (fst j) w_steps) && job_regular (snd j)) jobs
                                    | o => negb (mentions w_steps o)
                                    end
                                  else if beq (fst e) w_runs then job_regular (snd e)
                                  else negb (beq (fst e) w_steps) && negb (mentions w_steps (snd e))) top
  | o => negb (mentions w_steps o)
  end.
(* known classes: gha-docker-and-local-refs (a local or docker action whose text contains '/' and '@' is read as
   owner/repo@ref) and yaml-flow-collections (the mapping / sequence on the way to a step written in flow style) *)
Definition uses_known (s : bytes) : bool := (starts_with p_local s || starts_with p_docker s) && has_byte 64 s.
Definition step_known (st : yval) : bool :=
  match st with
  | YMap fl sm => fl || existsb (fun e => beq (fst e) w_uses && match snd e with YStr s => uses_known s | _ => false end) sm
  | _ => false
  end.
Definition job_known (v : yval) : bool :=
  match v with
  | YMap fl jm => fl || existsb (fun e => beq (fst e) w_steps && match snd e with YSeq fl' steps => fl' || existsb step_known steps | _ => false end) jm
  | _ => false
  end.
Definition gha_known (v : yval) : bool :=
  match v with
  | YMap fl top => fl || existsb (fun e => (beq (fst e) w_jobs && match snd e with YMap fl' jobs => fl' || existsb (fun j => job_known (snd j)) jobs | _ => false end)
                                          || (beq (fst e) w_runs && job_known (snd e))) top
  | _ => false
  end.
