(* Reference reading of YAML manifests (pnpm-workspace.yaml, GitHub Actions workflows and composite actions),
   independent of the parsers: [denote_yaml] is the denotation of a tree-sitter-yaml CST as a YAML value (mappings as
   member lists, sequences, scalars as their text) - it knows nothing about dependencies; [declared_pnpm] /
   [declared_gha] read the dependencies off that value the way pnpm ("Catalogs") and GitHub ("Workflow syntax":
   jobs.<id>.steps[*].uses, "Metadata syntax": runs.steps[*].uses) document it.  Executable; evaluated on every sample. *)
From Coq Require Import ZArith.
From VL Require Import Lib.Bytes Lib.Text Lib.Cst.

(* ---------- node kinds ---------- *)
Definition yk_stream : bytes := [115;116;114;101;97;109].
Definition yk_document : bytes := [100;111;99;117;109;101;110;116].
Definition yk_block_node : bytes := [98;108;111;99;107;95;110;111;100;101].
Definition yk_flow_node : bytes := [102;108;111;119;95;110;111;100;101].
Definition yk_block_mapping : bytes := [98;108;111;99;107;95;109;97;112;112;105;110;103].
Definition yk_block_mapping_pair : bytes := [98;108;111;99;107;95;109;97;112;112;105;110;103;95;112;97;105;114].
Definition yk_block_sequence : bytes := [98;108;111;99;107;95;115;101;113;117;101;110;99;101].
Definition yk_block_sequence_item : bytes := [98;108;111;99;107;95;115;101;113;117;101;110;99;101;95;105;116;101;109].
Definition yk_flow_mapping : bytes := [102;108;111;119;95;109;97;112;112;105;110;103].
Definition yk_flow_pair : bytes := [102;108;111;119;95;112;97;105;114].
Definition yk_flow_sequence : bytes := [102;108;111;119;95;115;101;113;117;101;110;99;101].
Definition yk_plain_scalar : bytes := [112;108;97;105;110;95;115;99;97;108;97;114].
Definition yk_dq_scalar : bytes := [100;111;117;98;108;101;95;113;117;111;116;101;95;115;99;97;108;97;114].
Definition yk_sq_scalar : bytes := [115;105;110;103;108;101;95;113;117;111;116;101;95;115;99;97;108;97;114].
Definition yk_comment : bytes := [99;111;109;109;101;110;116].
Definition yk_escape : bytes := [101;115;99;97;112;101;95;115;101;113;117;101;110;99;101].
Definition yk_colon : bytes := [58].
Definition yf_key : bytes := [107;101;121].
Definition yf_value : bytes := [118;97;108;117;101].
(* the leaves of a plain scalar *)
Definition yaml_scalar_leaves : list bytes :=
  [ [115;116;114;105;110;103;95;115;99;97;108;97;114]; [105;110;116;101;103;101;114;95;115;99;97;108;97;114];
    [102;108;111;97;116;95;115;99;97;108;97;114]; [98;111;111;108;101;97;110;95;115;99;97;108;97;114];
    [110;117;108;108;95;115;99;97;108;97;114]; [116;105;109;101;115;116;97;109;112;95;115;99;97;108;97;114] ].
(* punctuation: colon, dash, comma, braces, brackets, the two quote characters, question mark, document markers *)
Definition yaml_punct : list bytes :=
  [ [58]; [45]; [44]; [123]; [125]; [91]; [93]; [34]; [39]; [63]; [45;45;45]; [46;46;46] ].

(* ---------- values ---------- *)
Inductive yval := YStr (s : bytes) | YNull | YMap (l : list (bytes * yval)) | YSeq (l : list yval).

(* ---------- scalars ---------- *)
Definition yquoted_inner (q : N) (text : bytes) : option bytes :=
  match text with
  | x :: r => if x =? q then match rev r with y :: ri => if y =? q then Some (rev ri) else None | [] => None end else None
  | [] => None
  end.
Definition has_byte (c : N) (s : bytes) : bool := existsb (N.eqb c) s.
(* a plain scalar on one line: its text, which has no surrounding blanks and contains no quote characters
   (a plain scalar cannot start with one; inner quotes are outside this reading), no ": " / " #" structure is
   re-checked here - the grammar decides where a plain scalar ends *)
Definition plain_scalar_ok (t : bytes) : bool :=
  negb (beq t []) && beq (trim t) t && negb (has_byte 10 t) && negb (has_byte 34 t) && negb (has_byte 39 t).
(* a double-quoted scalar without escapes, a single-quoted scalar without '' : the text between the quotes *)
Definition dq_scalar_inner (t : bytes) : option bytes :=
  match yquoted_inner 34 t with
  | Some inner => if has_byte 34 inner || has_byte 92 inner || has_byte 10 inner then None else Some inner
  | None => None
  end.
Definition sq_scalar_inner (t : bytes) : option bytes :=
  match yquoted_inner 39 t with
  | Some inner => if has_byte 39 inner || has_byte 10 inner then None else Some inner
  | None => None
  end.

(* ---------- denotation ---------- *)
Inductive yden := YDVal (v : yval) | YDPair (k : bytes) (v : yval) | YDDoc (v : yval) | YDTok | YDBad.

Definition yvals_of (kids : list (node * yden)) : option (list yval) :=
  fold_right (fun kd acc => match snd kd, acc with
                            | YDVal v, Some l => Some (v :: l)
                            | YDTok, Some l => Some l
                            | _, _ => None
                            end) (Some []) kids.
Definition ypairs_of (kids : list (node * yden)) : option (list (bytes * yval)) :=
  fold_right (fun kd acc => match snd kd, acc with
                            | YDPair k v, Some l => Some ((k, v) :: l)
                            | YDTok, Some l => Some l
                            | _, _ => None
                            end) (Some []) kids.
Definition ydocs_of (kids : list (node * yden)) : option (list yval) :=
  fold_right (fun kd acc => match snd kd, acc with
                            | YDDoc v, Some l => Some (v :: l)
                            | YDTok, Some l => Some l
                            | _, _ => None
                            end) (Some []) kids.
Fixpoint ykeys_nodup (l : list bytes) : bool :=
  match l with [] => true | k :: t => negb (existsb (beq k) t) && ykeys_nodup t end.
(* a mapping pair: the child with field "key" is a scalar; the child with field "value", if any, is the value;
   every other child is a token (the colon) or a comment *)
Definition ypair_of (kids : list (node * yden)) : yden :=
  match kids with
  | (kn, YDVal (YStr k)) :: (cn, YDTok) :: rest =>
      if beq (n_field kn) yf_key && kind_is yk_colon cn then
        match rest with
        | [] => YDPair k YNull
        | (vn, YDVal v) :: rest' =>
            if beq (n_field vn) yf_value && forallb (fun kd => match snd kd with YDTok => true | _ => false end) rest'
               && forallb (fun kd => negb (beq (n_field (fst kd)) yf_key) && negb (beq (n_field (fst kd)) yf_value)) rest'
            then YDPair k v else YDBad
        | _ =>
            if forallb (fun kd => match snd kd with YDTok => true | _ => false end) rest
               && forallb (fun kd => negb (beq (n_field (fst kd)) yf_key) && negb (beq (n_field (fst kd)) yf_value)) rest
            then YDPair k YNull else YDBad
        end
      else YDBad
  | _ => YDBad
  end.

Definition denote_ystep (content kind : bytes) (sb eb : N) (missing : bool) (kids : list (node * yden)) : yden :=
  if missing then YDBad
  else if existsb (beq kind) yaml_punct || beq kind yk_comment || beq kind yk_escape || existsb (beq kind) yaml_scalar_leaves then YDTok
  else if beq kind yk_plain_scalar then
    match slice content sb eb with
    | Some t => if plain_scalar_ok t then YDVal (YStr t) else YDBad
    | None => YDBad
    end
  else if beq kind yk_dq_scalar then
    match slice content sb eb with
    | Some t => match dq_scalar_inner t with Some s => YDVal (YStr s) | None => YDBad end
    | None => YDBad
    end
  else if beq kind yk_sq_scalar then
    match slice content sb eb with
    | Some t => match sq_scalar_inner t with Some s => YDVal (YStr s) | None => YDBad end
    | None => YDBad
    end
  else if beq kind yk_flow_node || beq kind yk_block_node then
    (* exactly one child carries the value (anchors, tags and block scalars are outside this reading) *)
    match yvals_of kids with Some [v] => YDVal v | _ => YDBad end
  else if beq kind yk_block_mapping || beq kind yk_flow_mapping then
    match ypairs_of kids with
    | Some l => if ykeys_nodup (map fst l) then YDVal (YMap l) else YDBad
    | None => YDBad
    end
  else if beq kind yk_block_mapping_pair || beq kind yk_flow_pair then ypair_of kids
  else if beq kind yk_block_sequence || beq kind yk_flow_sequence then
    match yvals_of kids with Some l => YDVal (YSeq l) | None => YDBad end
  else if beq kind yk_block_sequence_item then
    match yvals_of kids with Some [v] => YDVal v | Some [] => YDVal YNull | _ => YDBad end
  else if beq kind yk_document then
    match yvals_of kids with Some [v] => YDDoc v | _ => YDBad end
  else if beq kind yk_stream then
    match ydocs_of kids with Some [v] => YDDoc v | _ => YDBad end
  else YDBad.
Fixpoint denote_ynode (content : bytes) (n : node) {struct n} : yden :=
  let 'Node kind _ sb eb _ _ missing ch := n in
  denote_ystep content kind sb eb missing
    ((fix go (l : list node) : list (node * yden) :=
        match l with [] => [] | c :: t => (c, denote_ynode content c) :: go t end) ch).
Definition denote_yaml (content : bytes) (root : node) : option yval :=
  match denote_ynode content root with YDDoc v => Some v | _ => None end.

(* block style only: no flow mappings / flow sequences anywhere (the walks do not enter them: known class yaml-flow) *)
Fixpoint block_style (n : node) : bool :=
  let 'Node kind _ _ _ _ _ _ ch := n in
  negb (beq kind yk_flow_mapping) && negb (beq kind yk_flow_sequence) && negb (beq kind yk_flow_pair)
  && (fix go (l : list node) : bool := match l with [] => true | c :: t => block_style c && go t end) ch.

(* ---------- pnpm-workspace.yaml ---------- *)
Definition w_catalog : bytes := [99;97;116;97;108;111;103].
Definition w_catalogs : bytes := [99;97;116;97;108;111;103;115].
Definition catalog_entries (v : yval) : list (bytes * bytes) :=
  match v with
  | YMap l => flat_map (fun e => match snd e with YStr s => if beq s [] then [] else [(fst e, s)] | _ => [] end) l
  | _ => []
  end.
Definition declared_pnpm (v : yval) : list (bytes * bytes) :=
  match v with
  | YMap top =>
      flat_map (fun e => if beq (fst e) w_catalog then catalog_entries (snd e)
                         else if beq (fst e) w_catalogs then
                           match snd e with YMap groups => flat_map (fun g => catalog_entries (snd g)) groups | _ => [] end
                         else []) top
  | _ => []
  end.
(* a key named catalog / catalogs anywhere in the value *)
Fixpoint mentions_catalog (v : yval) : bool :=
  match v with
  | YMap l => (fix go (l : list (bytes * yval)) : bool :=
                 match l with [] => false | (k, x) :: t => beq k w_catalog || beq k w_catalogs || mentions_catalog x || go t end) l
  | YSeq l => (fix go (l : list yval) : bool := match l with [] => false | x :: t => mentions_catalog x || go t end) l
  | _ => false
  end.
(* well-formed as a pnpm workspace file, as far as this reading goes: the catalog sections are mappings of names to
   scalars (catalogs: of group names to such mappings) *)
Definition is_catalog (v : yval) : bool :=
  match v with YMap l => forallb (fun e => match snd e with YStr _ => true | _ => false end) l | _ => false end.
Definition pnpm_shape_ok (v : yval) : bool :=
  match v with
  | YMap top => forallb (fun e => if beq (fst e) w_catalog then is_catalog (snd e)
                                  else if beq (fst e) w_catalogs then match snd e with YMap groups => forallb (fun g => is_catalog (snd g)) groups | _ => false end
                                  else true) top
  | _ => true
  end.
(* known class: the walk takes ANY key named catalog / catalogs, at any depth, for a catalog section *)
Definition pnpm_known (v : yval) : bool :=
  match v with
  | YMap top => existsb (fun e => negb (beq (fst e) w_catalog) && negb (beq (fst e) w_catalogs) && mentions_catalog (snd e)) top
  | _ => mentions_catalog v
  end.
