(* Reference reading of JSON manifests (package.json, deno.json), independent of the parsers:
   [denote] is the denotation of a tree-sitter-json CST as a JSON value (objects as member lists, strings
   unescaped) - it knows nothing about dependencies; [declared_*] reads the dependencies off that value
   the way the package manager documents it.  Both are executable and evaluated on every sample. *)
From Coq Require Import ZArith.
From VL Require Import Lib.Bytes Lib.Text Lib.Cst Model.Config.

Definition kq_object : bytes := [111;98;106;101;99;116].
Definition kq_array : bytes := [97;114;114;97;121].
Definition kq_pair : bytes := [112;97;105;114].
Definition kq_string : bytes := [115;116;114;105;110;103].
Definition kq_number : bytes := [110;117;109;98;101;114].
Definition kq_true : bytes := [116;114;117;101].
Definition kq_false : bytes := [102;97;108;115;101].
Definition kq_null : bytes := [110;117;108;108].
Definition kq_document : bytes := [100;111;99;117;109;101;110;116].
Definition kq_comment : bytes := [99;111;109;109;101;110;116].
Definition kq_string_content : bytes := [115;116;114;105;110;103;95;99;111;110;116;101;110;116].
Definition kq_escape : bytes := [101;115;99;97;112;101;95;115;101;113;117;101;110;99;101].
Definition kq_key : bytes := [107;101;121].
Definition kq_value : bytes := [118;97;108;117;101].
Definition punct : list bytes := [[123]; [125]; [91]; [93]; [44]; [58]; [34]].     (* the punctuation tokens of the JSON grammar *)

(* --- strings --- *)
Definition hexval (c : N) : option N :=
  if is_digit c then Some (c - 48) else if (97 <=? c) && (c <=? 102) then Some (c - 87) else if (65 <=? c) && (c <=? 70) then Some (c - 55) else None.
Definition utf8_of (cp : N) : bytes :=
  if cp <? 128 then [cp]
  else if cp <? 2048 then [192 + cp / 64; 128 + cp mod 64]
  else [224 + cp / 4096; 128 + (cp / 64) mod 64; 128 + cp mod 64].
Definition esc_char (c : N) : option N :=
  if c =? 34 then Some 34 else if c =? 92 then Some 92 else if c =? 47 then Some 47 else if c =? 98 then Some 8
  else if c =? 102 then Some 12 else if c =? 110 then Some 10 else if c =? 114 then Some 13 else if c =? 116 then Some 9 else None.
Fixpoint unescape_fuel (fuel : nat) (s : bytes) : option bytes :=
  match fuel with
  | O => None
  | S f =>
      match s with
      | [] => Some []
      | c :: t =>
          if c =? 92 then
            match t with
            | [] => None
            | e :: t1 =>
                if e =? 117 then
                  match t1 with
                  | a :: b :: c' :: d :: t' =>
                      match hexval a, hexval b, hexval c', hexval d with
                      | Some x, Some y, Some z, Some w =>
                          let cp := x * 4096 + y * 256 + z * 16 + w in
                          if (55296 <=? cp) && (cp <=? 57343) then None      (* surrogates: outside this reading *)
                          else option_map (app (utf8_of cp)) (unescape_fuel f t')
                      | _, _, _, _ => None
                      end
                  | _ => None
                  end
                else match esc_char e with
                     | Some x => option_map (cons x) (unescape_fuel f t1)
                     | None => None
                     end
            end
          else if (c =? 34) || (c =? 10) then None
          else option_map (cons c) (unescape_fuel f t)
      end
  end.
(* the text of a string node: a quote, the inner text, a quote *)
Definition string_inner (text : bytes) : option bytes :=
  match text with
  | q :: r => if q =? 34 then match rev r with q' :: ri => if q' =? 34 then Some (rev ri) else None | [] => None end else None
  | [] => None
  end.
Definition denote_string_text (text : bytes) : option bytes :=
  match string_inner text with Some inner => unescape_fuel (S (length inner)) inner | None => None end.

(* --- values --- *)
Inductive den := DVal (j : json) | DPair (k : bytes) (v : json) | DDoc (j : json) | DTok | DBad.

Definition vals_of (kids : list (node * den)) : option (list json) :=
  fold_right (fun kd acc => match snd kd, acc with
                            | DVal j, Some l => Some (j :: l)
                            | DTok, Some l => Some l
                            | _, _ => None
                            end) (Some []) kids.
Definition pairs_of (kids : list (node * den)) : option (list (bytes * json)) :=
  fold_right (fun kd acc => match snd kd, acc with
                            | DPair k v, Some l => Some ((k, v) :: l)
                            | DTok, Some l => Some l
                            | _, _ => None
                            end) (Some []) kids.
Definition field_kid (f : bytes) (kids : list (node * den)) : option (node * den) :=
  find (fun kd => beq (n_field (fst kd)) f) kids.

Fixpoint denote_node (content : bytes) (n : node) {struct n} : den :=
  let 'Node kind _ sb eb _ _ missing ch := n in
  let kids := (fix go (l : list node) : list (node * den) :=
                 match l with [] => [] | c :: t => (c, denote_node content c) :: go t end) ch in
  if missing then DBad
  else if existsb (beq kind) punct || beq kind kq_comment || beq kind kq_string_content || beq kind kq_escape then DTok
  else if beq kind kq_string then
    match slice content sb eb with
    | Some text => match denote_string_text text with Some s => DVal (JStr s) | None => DBad end
    | None => DBad
    end
  else if beq kind kq_number then DVal JFloat
  else if beq kind kq_true then DVal (JBool true)
  else if beq kind kq_false then DVal (JBool false)
  else if beq kind kq_null then DVal JNull
  else if beq kind kq_pair then
    match field_kid kq_key kids, field_kid kq_value kids with
    | Some (kn, DVal (JStr k)), Some (vn, DVal v) => if kind_is kq_string kn then DPair k v else DBad
    | _, _ => DBad
    end
  else if beq kind kq_object then match pairs_of kids with Some l => DVal (JObj l) | None => DBad end
  else if beq kind kq_array then match vals_of kids with Some l => DVal (JArr l) | None => DBad end
  else if beq kind kq_document then match vals_of kids with Some [j] => DDoc j | _ => DBad end
  else DBad.
Definition denote (content : bytes) (root : node) : option json :=
  match denote_node content root with DDoc j => Some j | _ => None end.

(* no string of the document uses a backslash escape, and the document starts with its value (not with a comment) *)
Fixpoint plain_strings (content : bytes) (n : node) : bool :=
  let 'Node kind _ sb eb _ _ _ ch := n in
  (if beq kind kq_string then match slice content sb eb with Some t => negb (existsb (N.eqb 92) t) | None => false end else true)
  && (fix go (l : list node) : bool := match l with [] => true | c :: t => plain_strings content c && go t end) ch.
Definition plain_doc (content : bytes) (root : node) : bool :=
  plain_strings content root
  && match n_children root with c :: _ => match denote_node content c with DVal _ => true | _ => false end | [] => false end.

(* --- package.json --- *)
Definition npm_sections : list bytes :=
  [ [100;101;112;101;110;100;101;110;99;105;101;115];                                   (* dependencies *)
    [100;101;118;68;101;112;101;110;100;101;110;99;105;101;115];                        (* devDependencies *)
    [112;101;101;114;68;101;112;101;110;100;101;110;99;105;101;115];                    (* peerDependencies *)
    [111;112;116;105;111;110;97;108;68;101;112;101;110;100;101;110;99;105;101;115];     (* optionalDependencies *)
    [111;118;101;114;114;105;100;101;115] ].                                            (* overrides *)
Definition p_catalog : bytes := [99;97;116;97;108;111;103;58].
Definition p_npm : bytes := [110;112;109;58].
Definition w_latest : bytes := [108;97;116;101;115;116].
(* specifiers that do not name a registry version: catalog:, workspace:, file:, link:, git and URL forms,
   hosted-git shorthands, and user/repo *)
Definition nonregistry_prefixes : list bytes :=
  [ p_catalog; [119;111;114;107;115;112;97;99;101;58]; [102;105;108;101;58]; [108;105;110;107;58];
    [103;105;116;43]; [103;105;116;58]; [103;105;116;64]; [104;116;116;112;58]; [104;116;116;112;115;58];
    [103;105;116;104;117;98;58]; [103;105;116;108;97;98;58]; [98;105;116;98;117;99;107;101;116;58]; [103;105;115;116;58] ].
Definition is_alias (v : bytes) : bool := starts_with p_npm v.
Definition nonregistry (v : bytes) : bool :=
  existsb (fun p => starts_with p v) nonregistry_prefixes || (negb (is_alias v) && existsb (N.eqb 47) v).
(* npm:<target>[@<range>]: target and range are separated by the first '@' that is not the scope marker *)
Definition split_alias (rest : bytes) : bytes * bytes :=
  match rest with
  | [] => ([], w_latest)
  | c :: r => match find_char 64 r with
              | Some i => (firstn_N (i + 1) rest, skipn_N (i + 1) r)
              | None => (rest, w_latest)
              end
  end.
Definition npm_entry_decl (key value : bytes) : list (bytes * bytes) :=
  if nonregistry value then []
  else match strip_prefix p_npm value with
       | Some rest => [split_alias rest]
       | None => [(key, value)]
       end.
Definition entries_decl (f : bytes -> bytes -> list (bytes * bytes)) (v : json) : list (bytes * bytes) :=
  match v with
  | JObj deps => flat_map (fun m => match snd m with JStr s => f (fst m) s | _ => [] end) deps
  | _ => []
  end.
Definition declared_package_json (j : json) : list (bytes * bytes) :=
  match j with
  | JObj l => flat_map (fun m => if existsb (beq (fst m)) npm_sections then entries_decl npm_entry_decl (snd m) else []) l
  | _ => []
  end.

(* --- deno.json: entries of imports of the form jsr:@scope/name[@range][/subpath] --- *)
Definition w_imports : bytes := [105;109;112;111;114;116;115].
Definition p_jsr : bytes := [106;115;114;58].
Definition jsr_entry_decl (key value : bytes) : list (bytes * bytes) :=
  match strip_prefix p_jsr value with
  | None => []
  | Some rest =>
      match find_char 47 rest with
      | None => []
      | Some slash =>
          let after := skipn_N (slash + 1) rest in          (* name[@range][/subpath] *)
          let nv := match find_char 47 after with Some p => firstn_N p after | None => after end in
          match find_char 64 nv with
          | Some a => [(firstn_N (slash + 1 + a) rest, skipn_N (a + 1) nv)]
          | None => [(firstn_N (slash + 1 + blen nv) rest, w_latest)]
          end
      end
  end.
Definition declared_deno_json (j : json) : list (bytes * bytes) :=
  match j with
  | JObj l => flat_map (fun m => if beq (fst m) w_imports then entries_decl jsr_entry_decl (snd m) else []) l
  | _ => []
  end.

(* --- the classes of documents on which the parsers are known to deviate (KNOWN_FINDINGS.json) --- *)
(* a non-registry specifier other than catalog: (checked as a version), or a scoped alias whose scope is not
   of the form @scope/ *)
Definition npm_value_known (v : bytes) : bool :=
  (nonregistry v && negb (starts_with p_catalog v))
  || match strip_prefix p_npm v with
     | Some (64 :: r) => match find_char 47 r with
                         | Some s => existsb (N.eqb 64) (firstn_N s r)
                         | None => true
                         end
     | _ => false
     end.
Definition any_entry (f : bytes -> bool) (v : json) : bool :=
  match v with JObj deps => existsb (fun m => match snd m with JStr s => f s | _ => false end) deps | _ => false end.
Definition npm_known (j : json) : bool :=
  match j with
  | JObj l => existsb (fun m => existsb (beq (fst m)) npm_sections && any_entry npm_value_known (snd m)) l
  | _ => false
  end.
(* a JSR specifier with a sub-path *)
Definition jsr_value_known (v : bytes) : bool :=
  match strip_prefix p_jsr v with
  | Some rest => match find_char 47 rest with
                 | Some slash => existsb (N.eqb 47) (skipn_N (slash + 1) rest)
                 | None => false
                 end
  | None => false
  end.
Definition deno_known (j : json) : bool :=
  match j with
  | JObj l => existsb (fun m => beq (fst m) w_imports && any_entry jsr_value_known (snd m)) l
  | _ => false
  end.
