(* Executable glue for the C02 check (no proofs): verdicts of the run-time
   oracle and of the model/implementation correspondence on one case. *)
From VL Require Import Lib.Bytes Lib.SemVer Model.SemverUtil Model.NpmMatcher Model.CratesMatcher
  Model.GoMatcher Model.GhaMatcher Spec.Ranges Spec.NodeSemver Spec.CargoReq Spec.RangeView Spec.Known.

(* one observed version: (abstract version, printed text, exists([v]), compare(spec, v)) *)
Definition obs := (version * bytes * bool * N)%type.

(* verdict codes: 0 fine; 1 violation; 2 correspondence (model <> implementation);
   3 tested link parse(print c) <> view c; 10 + k: inside known class k.
   The result is code + 100 * (index of the offending version + 1). *)
Fixpoint first_bad (f : obs -> N) (l : list obs) (i : N) (best : N) : N :=
  match l with
  | [] => best
  | o :: t =>
      let v := f o in
      if v =? 0 then first_bad f t (i + 1) best
      else if (v =? 1) || (v =? 2) then v + 100 * (i + 1)
      else first_bad f t (i + 1) (if best =? 0 then v + 100 * (i + 1) else best)
  end.

Definition bool_eqb (a b : bool) : bool := if a then b else negb b.

Section Generic.
  Variable ref_f ref_t ref_3 : version -> bool.   (* reference membership, admissible readings *)
  Variable known : N.                          (* class of the spec, 0 = none *)
  Variable m_exists : bytes -> bool.           (* model: version_exists(spec, [v]) *)
  Variable m_compare : bytes -> N.             (* model: compare_to_latest(spec, v) *)

  Definition oracle_obs (o : obs) : N :=
    let '(x, txt, ex, cmp) := o in
    let impl_ok := (bool_eqb ex (ref_f x) || bool_eqb ex (ref_t x) || bool_eqb ex (ref_3 x)) && negb (cmp =? 3) in
    (* a version carrying build metadata is in class 3 whatever the spec *)
    let k := if negb (blen (build x) =? 0) then 3 else known in
    if impl_ok then 0
    else if negb (k =? 0) && bool_eqb ex (m_exists txt) && (cmp =? m_compare txt) then 10 + k
    else 1.

  Definition corr_obs (o : obs) : N :=
    let '(x, txt, ex, cmp) := o in
    if bool_eqb ex (m_exists txt) && (cmp =? m_compare txt) then 0 else 2.
End Generic.

Definition npm_case := (nrange * bytes * list obs)%type.

Definition npm_oracle (c : npm_case) : N :=
  let '(r, txt, os) := c in
  first_bad (oracle_obs (node_sat false r) (node_sat true r) (node_sat true r) (npm_known r)
               (fun v => NpmMatcher.version_exists txt [v])
               (fun v => cr_code (NpmMatcher.compare_to_latest txt v))) os 0 0.

Definition npm_corr (c : npm_case) : N :=
  let '(r, txt, os) := c in
  first_bad (corr_obs (fun v => NpmMatcher.version_exists txt [v])
               (fun v => cr_code (NpmMatcher.compare_to_latest txt v))) os 0 0.

Definition npm_link (c : npm_case) : N :=
  let '(r, txt, _) := c in
  if opt_eqb vspec_eqb (spec_parse txt) (npm_range_view r) then 0 else 3.

Definition crates_case := (creq * bytes * list obs)%type.

Definition crates_oracle (c : crates_case) : N :=
  let '(r, txt, os) := c in
  first_bad (oracle_obs (cargo_sat r) (cargo_sat_r2 false r) (cargo_sat_r2 true r) (crates_known r)
               (fun v => CratesMatcher.version_exists txt [v])
               (fun v => cr_code (CratesMatcher.compare_to_latest txt v))) os 0 0.

Definition crates_corr (c : crates_case) : N :=
  let '(r, txt, os) := c in
  first_bad (corr_obs (fun v => CratesMatcher.version_exists txt [v])
               (fun v => cr_code (CratesMatcher.compare_to_latest txt v))) os 0 0.

Definition crates_link (c : crates_case) : N :=
  let '(r, txt, _) := c in
  if opt_eqb (list_eqb vrange_eqb) (cspec_parse txt) (crates_req_view r) then 0 else 3.

(* raw string cases (junk, Go, GitHub Actions): model vs implementation only *)
Definition raw_case := (N * bytes * list (bytes * bool * N))%type.   (* ecosystem code, spec, observations *)
Definition raw_corr (c : raw_case) : N :=
  let '(eco, txt, os) := c in
  let ex := match eco with
            | 0 => NpmMatcher.version_exists | 1 => CratesMatcher.version_exists
            | 2 => GoMatcher.version_exists | _ => GhaMatcher.version_exists end in
  let cm := match eco with
            | 0 => NpmMatcher.compare_to_latest | 1 => CratesMatcher.compare_to_latest
            | 2 => GoMatcher.compare_to_latest | _ => GhaMatcher.compare_to_latest end in
  (fix go (l : list (bytes * bool * N)) (i : N) : N :=
     match l with
     | [] => 0
     | (v, e, k) :: t =>
         if bool_eqb e (ex txt [v]) && (k =? cr_code (cm txt v)) then go t (i + 1) else 2 + 100 * (i + 1)
     end) os 0.

(* ---- Go: (spec is a pseudo-version, known class of the spec, spec text, observations) ---- *)
From VL Require Import Spec.GoGha Model.PypiMatcher.
Definition go_case := (bool * N * bytes * list (bytes * bool * N))%type.
Definition go_oracle (c : go_case) : N :=
  let '(pseudo, known, txt, os) := c in
  (fix go (l : list (bytes * bool * N)) (i : N) (best : N) : N :=
     match l with
     | [] => best
     | (a, e, k) :: t =>
         let want := pseudo || go_same txt a in
         if bool_eqb e want && negb (k =? 3) then go t (i + 1) best
         else if negb (known =? 0) && bool_eqb e (GoMatcher.version_exists txt [a])
                 && (k =? cr_code (GoMatcher.compare_to_latest txt a))
              then go t (i + 1) (if best =? 0 then 10 + known + 100 * (i + 1) else best)
              else 1 + 100 * (i + 1)
     end) os 0 0.

(* ---- GitHub Actions: (spec tag, spec text, observations (tag, text, exists, compare)) ---- *)
Definition gha_case := (tag * bytes * list (tag * bytes * bool * N))%type.
Definition gha_oracle (c : gha_case) : N :=
  let '(s, txt, os) := c in
  (fix go (l : list (tag * bytes * bool * N)) (i : N) : N :=
     match l with
     | [] => 0
     | (a, atxt, e, k) :: t =>
         let want := gha_admits s a in
         (* admitted <-> exists; Latest (0) <-> admitted; never Invalid (3) for version-like tags *)
         if bool_eqb e want && bool_eqb (k =? 0) want && negb (k =? 3) then go t (i + 1)
         else 1 + 100 * (i + 1)
     end) os 0.

(* ---- PyPI: oracle answers recorded from pep440_rs ---- *)
(* (spec text, specs_ok, base_ok, observations (v, ver_ok, contains, base_le, exists, compare)) *)
Definition pypi_obs := (bytes * bool * bool * bool * bool * N)%type.
Definition pypi_case := (bytes * bool * bool * list pypi_obs)%type.
Definition pypi_corr (c : pypi_case) : N :=
  let '(txt, sok, bok, os) := c in
  (fix go (l : list pypi_obs) (i : N) : N :=
     match l with
     | [] => 0
     | (v, vok, cont, ble, e, k) :: t =>
         let ver_ok := fun s => if beq s v then vok else bok in
         let ex := PypiMatcher.version_exists (fun _ => sok) ver_ok (fun _ _ => cont) txt [v] in
         let cm := PypiMatcher.compare_to_latest (fun _ => sok) ver_ok (fun _ _ => cont) (fun _ _ => ble) txt v in
         if bool_eqb e ex && (k =? cr_code cm) then go t (i + 1) else 2 + 100 * (i + 1)
     end) os 0.
Definition pypi_base (txt : bytes) : bytes := extract_base_version (trim txt).

(* GitHub Actions refs that are not version-like (Spec.GoGha.ref_like): never admitted, always Invalid (3) *)
Definition gha_ref_oracle (c : raw_case) : N :=
  let '(eco, txt, os) := c in
  if negb (eco =? 3) || ref_like txt then 0 else
  (fix go (l : list (bytes * bool * N)) (i : N) : N :=
     match l with
     | [] => 0
     | (v, e, k) :: t => if negb e && (k =? 3) then go t (i + 1) else 1 + 100 * (i + 1)
     end) os 0.
