(* Case evaluation for C15 / C17 (adapter level): model vs implementation. *)
From Coq Require Import ZArith.
From VL Require Import Lib.Bytes Model.Config Model.Registry Run.RegistryOracle.

Definition adapter_of (n : N) : adapter := match n with 0 => ANpm | 1 => ACrates | 2 => AGo | 3 => AGitHub | 4 => AJsr | _ => APypi end.

(* 0 = agree *)
Definition reg_corr (c : reg_case) : N :=
  let ts := ts_of (rc_tape c) in
  let path_ok :=
    match rc_reply c with
    | None => match rc_requests c with [] => true | _ => false end
    | Some _ => match rc_requests c with
                | [p] => beq p (if rc_adapter c =? 6 then request_path_tags (rc_name c) else request_path (adapter_of (rc_adapter c)) (rc_name c))
                | _ => false
                end
    end in
  if negb path_ok then 9 else
  if rc_adapter c =? 6 then
    match fetch_tag_sha (rc_tag c) (rc_reply c), rc_impl c with
    | SNotFound, INotFound => 0 | SRateLimited, IRate _ => 0 | STransient, ITransient => 0
    | SSha s, ISha s' => if beq s s' then 0 else 2
    | _, _ => 1
    end
  else
    match fetch ts (adapter_of (rc_adapter c)) (rc_reply c), rc_impl c with
    | ONotFound, INotFound => 0
    | ORateLimited r, IRate r' => if opt_eqb N.eqb r r' then 0 else 3
    | OTransient, ITransient => 0
    | OOk vs tags, IOk vs' tags' =>
        if negb (same_tags tags tags') then 4
        else if ordered (rc_adapter c) then (if list_eqb beq vs vs' then 0 else 5)
        else if same_set vs vs' then 0 else 6
    | _, _ => 1
    end.

