(* Executable glue for the C09 check: replay a statement-level schedule on the model. *)
From Coq Require Import ZArith.
From VL Require Import Lib.Bytes Model.CacheDb Model.CacheSched Spec.AbsCache Run.CacheRun Gen.GenCache.

Inductive xop :=
| XClaim1 (h : N) (k : key) (now : Z)
| XClaim2 (h : N)
| XRelease (k : key)
| XStore (k : key) (vs : list bytes) (now : Z)
| XDie (h : N).

(* observed outcome: 0 false, 1 true, 2 parked between the two statements *)
Definition sched_case := list (xop * N * snapshot).

Definition to_step (o : xop) : sstep :=
  match o with
  | XClaim1 h k now => SClaim1 h k now
  | XClaim2 h => SClaim2 h
  | XRelease k => SAtomic (ORelease k)
  | XStore k vs now => SAtomic (OStore k vs now)
  | XDie h => SDie h
  end.

Definition outcome (o : xop) (evs : list event) : N :=
  match o, evs with
  | XClaim1 _ _ _, [] => 2
  | (XClaim1 _ _ _ | XClaim2 _), [EClaim _ _ _ ok] => if ok then 1 else 0
  | (XRelease _ | XStore _ _ _ | XDie _), _ => 1
  | _, _ => 99
  end.

Fixpoint sched_replay (l : sched_case) (st : sstate) (i : N) : N :=
  match l with
  | [] => 0
  | (o, r, s) :: t =>
      let '(st', evs) := sched_step fetch_timeout_ms st (to_step o) in
      if (outcome o evs =? r) && snap_eqb s (snap (s_db st')) then sched_replay t st' (i + 1) else 2 + 100 * (i + 1)
  end.
Definition sched_corr (c : sched_case) : N := sched_replay c (mkS empty_db []) 0.
