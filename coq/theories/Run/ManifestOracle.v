(* C04 oracle for the JSON manifests: the reference reading (denotation of the CST, then the declared
   dependencies) against the generator's abstract list and against the implementation's answer.  Spec only. *)
From Coq Require Import ZArith.
From VL Require Import Lib.Bytes Lib.Text Lib.Cst Model.Config Spec.JsonDoc.

Definition pair_eqb (a b : bytes * bytes) : bool := beq (fst a) (fst b) && beq (snd a) (snd b).
(* 0 = the checked list is the declared list; 4 = the tree does not denote a JSON value; 5 = the reference reading
   differs from what the generator rendered; 6 = property violated; 7 = violated inside a known class *)
Definition json_oracle (c : N * bytes * node * list (bytes * bytes) * list (bytes * bytes)) : N :=
  let '(fmt, content, cst, impl, expected) := c in
  match denote content cst with
  | None => 4
  | Some j =>
      let d := if fmt =? 0 then declared_package_json j else declared_deno_json j in
      let known := (if fmt =? 0 then npm_known j else deno_known j) || negb (plain_doc content cst) in
      if negb (list_eqb pair_eqb d expected) then 5
      else if list_eqb pair_eqb impl d then 0 else if known then 7 else 6
  end.
