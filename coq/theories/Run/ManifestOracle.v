(* C04 oracle for the JSON manifests: the reference reading (denotation of the CST, then the declared
   dependencies) against the generator's abstract list and against the implementation's answer.  Spec only. *)
From Coq Require Import ZArith.
From VL Require Import Lib.Bytes Lib.Text Lib.Cst Model.Config Spec.JsonDoc.

Definition pair_eqb (a b : bytes * bytes) : bool := beq (fst a) (fst b) && beq (snd a) (snd b).
(* 0 = the checked list is the declared list; 4 = the tree does not denote a JSON value; 5 = the reference reading
   differs from what the generator rendered; 6 = property violated; 7 = violated inside a known class *)
Definition json_oracle (c : N * bytes * node * list (bytes * bytes) * list (bytes * bytes)) : N :=
  let '(fmt, content, cst, impl, expected) := c in
  match denote content cst with
  | None => 4
  | Some j =>
      let d := if fmt =? 0 then declared_package_json j else declared_deno_json j in
      let known := (if fmt =? 0 then npm_known j else deno_known j) || negb (plain_doc content cst) in
      if negb (list_eqb pair_eqb d expected) then 5
      else if list_eqb pair_eqb impl d then 0 else if known then 7 else 6
  end.

(* go.mod: the generator's line list against its own rendering and the reference reading; the implementation's list
   against the declared one.  0 = equal; 4 = the rendering differs from the text that was parsed; 5 = the declared list
   differs from the generator's; 6 = property violated on a file of the grammar; 8 = outside the grammar (not judged here) *)
From VL Require Import Spec.GoModFile.
Definition gomod_oracle (c : list gline * bytes * list (bytes * bytes) * list (bytes * bytes)) : N :=
  let '(f, text, impl, expected) := c in
  if negb (file_ok false f) then 8
  else if negb (beq (render f) text) then 4
  else if negb (list_eqb pair_eqb (declared_go_mod f) expected) then 5
  else if list_eqb pair_eqb impl (declared_go_mod f) then 0 else 6.

(* Cargo.toml: the reference reading (denotation of the tree-sitter-toml tree, then the declared dependencies)
   against the generator's list and the implementation's.  0 = the checked list is the declared list; 4 = the tree does
   not denote a TOML document; 5 = the reference reading differs from what the generator rendered; 6 = property violated
   outside every known class; 7 = deviation inside a known class (cargo_known, or a spelling outside plain_toml);
   8 = not a Cargo manifest as far as the reading goes (cargo_shape_ok fails) and the lists differ *)
From VL Require Import Spec.TomlDoc.
Definition cargo_oracle (c : bytes * node * list (bytes * bytes) * list (bytes * bytes)) : N :=
  let '(content, cst, impl, expected) := c in
  match denote_toml content cst with
  | None => 4
  | Some d =>
      let decl := declared_cargo d in
      let known := cargo_known d || negb (plain_toml content cst) in
      if negb (list_eqb pair_eqb decl expected) then 5
      else if list_eqb pair_eqb impl decl then 0 else if known then 7 else if negb (cargo_shape_ok d) then 8 else 6
  end.

(* pyproject.toml: same codes as cargo_oracle; [tape] holds the PEP 508 reading of every requirement string of the
   document (the real answers of pep508_rs, specifiers normalised by the driver) *)
Definition req_of_tape (tape : list (bytes * option (bytes * bytes))) (s : bytes) : option (bytes * bytes) :=
  match find (fun p => beq (fst p) s) tape with Some p => snd p | None => None end.
Fixpoint sublist_b (a b : list (bytes * bytes)) : bool :=
  match a, b with
  | [], _ => true
  | _, [] => false
  | x :: a', y :: b' => if pair_eqb x y then sublist_b a' b' else sublist_b a b'
  end.
Definition pyproject_oracle (c : bytes * node * list (bytes * option (bytes * bytes)) * list (bytes * bytes) * list (bytes * bytes)) : N :=
  let '(content, cst, tape, impl, expected) := c in
  match denote_toml content cst with
  | None => 4
  | Some d =>
      let decl := declared_pyproject (req_of_tape tape) d in
      (* a quoted key hides entries (C04-toml-quoted-key): the checked list may only be shorter; other spellings
         outside plain_pyproject (escapes in strings) change names and specs themselves *)
      let known := pyproject_known d || negb (plain_toml_nq true content cst)
                   || (negb (plain_pyproject content cst) && sublist_b impl decl) in
      if negb (list_eqb pair_eqb decl expected) then 5
      else if list_eqb pair_eqb impl decl then 0 else if known then 7 else 6
  end.

(* pnpm-workspace.yaml and workflows: the reference reading of the real tree-sitter-yaml tree.  Codes as above; 8 = the
   document is outside the documented shape (pnpm_shape_ok / gha_regular fails) and the lists differ.  For workflows the
   implementation's list is (name, hash or version). *)
From VL Require Import Spec.YamlDoc.
Definition pnpm_oracle (c : bytes * node * list (bytes * bytes) * list (bytes * bytes)) : N :=
  let '(content, cst, impl, expected) := c in
  match denote_yaml content cst with
  | None => 4
  | Some v =>
      let decl := declared_pnpm v in
      let known := pnpm_known v in
      if negb (list_eqb pair_eqb decl expected) then 5
      else if list_eqb pair_eqb impl decl then 0 else if known then 7 else if negb (pnpm_shape_ok v) then 8 else 6
  end.
Definition gha_oracle (c : bytes * node * list (bytes * bytes) * list (bytes * bytes)) : N :=
  let '(content, cst, impl, expected) := c in
  match denote_yaml content cst with
  | None => 4
  | Some v =>
      let decl := declared_gha v in
      (* a workflow outside gha_regular is still a well-formed workflow (finding gha-steps-or-uses-key-anywhere) *)
      let known := gha_known v || negb (gha_regular v) in
      if negb (list_eqb pair_eqb decl expected) then 5
      else if list_eqb pair_eqb impl decl then 0 else if known then 7 else 6
  end.

(* C05 for workflows: the conclusion of C05_github_actions_covers_ref observed on the model's walk over a real tree.
   0 = every reported range is exactly the ref text; 7 = some range ends in a closing quote (listed class);
   8 = outside the hypotheses of the theorem; 4 = no denotation; 6 = a range that is neither (contradicts the theorem) *)
From VL Require Import Model.Walks Spec.GhaLoc.
Definition gha_loc_oracle (c : bytes * node) : N :=
  let '(content, cst) := c in
  match denote_yaml content cst with
  | None => 4
  | Some v =>
      if negb (gha_regular v) || gha_known v then 8
      else match walk_gha content cst with
           | None => 6
           | Some pk => if forallb (loc_exact_b content) pk then 0 else if forallb (gha_loc_fine_b content) pk then 7 else 6
           end
  end.

(* C05 for pyproject.toml: hypotheses and conclusion of C05_pyproject_structural on a real tree, with pep508_rs's real
   answers as the oracle.  0 = hypotheses and conclusion hold; 8 = a tree outside the hypotheses (node_safe / quoted
   string tokens); 9 = pep508_rs's answers contradict pep_sane (the assumption about the library is wrong);
   6 = hypotheses hold and a location is unsound (contradicts the theorem) *)
From VL Require Import Proofs.PyLocProofs.
Definition pep_of_tape (tape : list (bytes * option (bytes * bytes))) (s : bytes) : pep :=
  match req_of_tape tape s with Some (n, sp) => PepSpec n sp | None => PepErr end.
Definition loc_sound_b (content : bytes) (p : pkg) : bool := (p_start p <=? p_end p) && (p_end p <=? blen content).
Definition tape_sane (tape : list (bytes * option (bytes * bytes))) : bool :=
  forallb (fun e => match snd e with
                    | Some (n, sp) => pep_sane_at (34 :: fst e ++ [34]) n sp && pep_sane_at (39 :: fst e ++ [39]) n sp
                    | None => true
                    end) tape.
Definition py_loc_oracle (c : bytes * node * list (bytes * option (bytes * bytes))) : N :=
  let '(content, cst, tape) := c in
  if negb (tree_forall (node_safe content) cst) || negb (tree_forall (quoted_token content) cst) then 8
  else if negb (tape_sane tape) then 9
  else match walk_pyproject (pep_of_tape tape) content cst with
       | None => 6
       | Some pk => if forallb (loc_sound_b content) pk then 0 else 6
       end.
