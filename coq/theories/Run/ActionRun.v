(* Case evaluation for C07 / C17: cursor hit-test and bump actions, model vs implementation. *)
From Coq Require Import ZArith.
From VL Require Import Lib.Bytes Lib.Cst Model.CodeAction Run.ParseRun.

Inductive impl_actions := APanic | AActs (hit : option N) (l : list action).
Record action_case := mkAC {
  ac_pkgs : list pkg;
  ac_versions : list (bytes * list bytes);         (* cache: name -> versions *)
  ac_latest : list (bytes * option bytes);         (* get_latest_version per name *)
  ac_sha : list (bytes * option bytes);            (* tag -> commit (None: lookup fails); absent: unknown tag *)
  ac_line : N; ac_char : N;
  ac_gha : bool;
  ac_impl : impl_actions }.

Definition assoc {A} (k : bytes) (l : list (bytes * A)) : option A := option_map snd (find (fun p => beq (fst p) k) l).
Definition action_eqb (a b : action) : bool :=
  beq (a_title a) (a_title b) && (a_line a =? a_line b) && (a_start a =? a_start b) && (a_end a =? a_end b) && beq (a_text a) (a_text b).
Fixpoint index_of (p : pkg) (l : list pkg) (i : N) : option N :=
  match l with [] => None | x :: t => if pkg_eqb x p then Some i else index_of p t (i + 1) end.

Definition model_actions (c : action_case) : option (option N * list action) :=
  match find_at (ac_pkgs c) (ac_line c) (ac_char c) with
  | None => Some (None, [])
  | Some p =>
      let vs := match assoc (p_name p) (ac_versions c) with Some l => Some l | None => Some [] end in
      let idx := index_of p (ac_pkgs c) 0 in
      match p_hash p with
      | Some _ =>
          if ac_gha c then
            let latest := match assoc (p_name p) (ac_latest c) with Some o => o | None => None end in
            let sha := fun tag => match assoc tag (ac_sha c) with Some o => o | None => None end in
            option_map (fun l => (idx, l)) (bump_actions_sha vs latest sha p)
          else Some (idx, bump_actions vs p)
      | None => Some (idx, bump_actions vs p)
      end
  end.
Definition action_corr (c : action_case) : N :=
  match model_actions c, ac_impl c with
  | None, APanic => 0
  | Some (h, l), AActs h' l' => if opt_eqb N.eqb h h' && list_eqb action_eqb l l' then 0 else 1
  | _, _ => 2
  end.
