(* Executable glue for the C01 check. *)
From Coq Require Import ZArith.
From VL Require Import Lib.Bytes Lib.Reg Lib.SemVer Model.SemverUtil Model.CacheDb Model.Checker
  Model.NpmMatcher Model.CratesMatcher Model.GoMatcher Model.GhaMatcher
  Spec.Ranges Spec.NodeSemver Spec.CargoReq Spec.RangeView Spec.Known Spec.Verdict Spec.AbsCache
  Proofs.VerdictProofs Run.CacheRun Gen.GenCache.

Definition diag := option (N * bytes).     (* severity (1 error, 2 warning), message *)
Definition diag_eqb (a b : diag) : bool :=
  opt_eqb (fun x y => (fst x =? fst y) && beq (snd x) (snd y)) a b.
Definition diag_code (o : option (severity * bytes)) : diag :=
  option_map (fun p => (match fst p with SevError => 1 | SevWarning => 2 end, snd p)) o.

Definition eco_matcher (eco : N) : matcher :=
  match eco with 0 => npm_matcher | 1 => crates_matcher | 2 => go_matcher | _ => gha_matcher end.

(* ---- correspondence: the model's diagnostic over the model's tables (with the implementation's
        spelling of latest, which must be a legitimate latest) vs the implementation's diagnostic ---- *)
Definition corr_case := (N * key * bytes * bool * list op * option bytes * diag)%type.
Definition verdict_corr (c : corr_case) : N :=
  let '(eco, k, spec, ign, fills, impl_latest, impl_diag) := c in
  let d := c_run fetch_timeout_ms fills in
  let latest_ok := latest_oracle ign (get_dist_tag k tag_latest d) (get_versions k d) impl_latest in
  let st := mkStorer (Some impl_latest) (fun t => Some (get_dist_tag k t d)) (Some (get_versions k d)) in
  if latest_ok && diag_eqb (diag_code (diagnostic st (eco_matcher eco) spec)) impl_diag then 0 else 2.

(* ---- oracle: the decision table with reference facts (npm / Cargo ranges as syntax trees) ---- *)
Definition anchor_of (p : partial) : option version :=
  match p with
  | PAny _ => None
  | P1 M _ => Some (mkV M 0 0 [] [])
  | P2 M m _ => Some (mkV M m 0 [] [])
  | P3 M m q pr _ => Some (mkV M m q pr [])
  end.
Definition nrange_anchor (r : nrange) : option version :=
  match r with
  | NHyphen a _ :: _ => anchor_of a
  | NAnd (c :: _) :: _ => anchor_of (c_operand c)
  | _ => None
  end.
Definition creq_anchor (r : creq) : option version :=
  match r with c :: _ => anchor_of (c_operand c) | [] => None end.

Definition msg_update (s l : bytes) : diag := Some (2, s_update_available ++ s ++ s_arrow ++ l).
Definition msg_not_found (s : bytes) : diag := Some (1, s_version_ ++ s ++ s_not_found).
Definition msg_invalid (s : bytes) : diag := Some (1, s_invalid ++ s).

(* acceptable diagnostics for a well-formed spec with membership relation [sat] and anchor [a] *)
Definition expected (sat : version -> bool) (a : option version) (s : bytes) (stored : list bytes) (latest : option bytes) : list diag :=
  match latest with
  | None => [None]
  | Some l =>
      match parse l with
      | None => [msg_invalid s]
      | Some lv =>
          if negb (existsb (fun v => match parse v with Some x => sat x | None => false end) stored) then [msg_not_found s]
          else if sat lv then [None]
          else match a with
               | None => [None]
               | Some av => match prec av lv with
                            | Lt => [msg_update s l]
                            | Gt => [None]
                            | Eq => [msg_update s l; None]     (* anchored exactly at an L it excludes: either way *)
                            end
               end
      end
  end.

(* (resolved spec as syntax, spec as written, unresolved well-known tag, stored versions, impl latest, impl diag, resolved text) *)
Definition npm_oracle_case := (nrange * bytes * bool * list bytes * option bytes * diag * bytes)%type.
Definition has_build (vs : list bytes) : bool :=
  existsb (fun v => match parse v with Some x => negb (blen (build x) =? 0) | None => false end) vs.

Definition npm_verdict_oracle (c : npm_oracle_case) : N :=
  let '(r, s, unresolved, stored, latest, impl, rtxt) := c in
  if unresolved then (if diag_eqb impl None then 0 else 1) else
  let acc := expected (node_sat false r) (nrange_anchor r) s stored latest ++
             expected (node_sat true r) (nrange_anchor r) s stored latest in
  if existsb (diag_eqb impl) acc then 0
  else
    let known := if has_build stored || has_build (match latest with Some l => [l] | None => [] end) then 3 else npm_known r in
    if negb (known =? 0) then 10 + known else 1.

Definition crates_oracle_case := (creq * bytes * bool * list bytes * option bytes * diag * bytes)%type.
Definition crates_verdict_oracle (c : crates_oracle_case) : N :=
  let '(r, s, unresolved, stored, latest, impl, rtxt) := c in
  if unresolved then (if diag_eqb impl None then 0 else 1) else
  let acc := expected (cargo_sat r) (creq_anchor r) s stored latest ++
             expected (cargo_sat_r2 false r) (creq_anchor r) s stored latest ++
             expected (cargo_sat_r2 true r) (creq_anchor r) s stored latest in
  if existsb (diag_eqb impl) acc then 0
  else
    let known := if has_build stored || has_build (match latest with Some l => [l] | None => [] end) then 3 else crates_known r in
    if negb (known =? 0) then 10 + known else 1.
