(* Executable glue for the C10 check. *)
From Coq Require Import ZArith.
From VL Require Import Lib.Bytes Model.CacheDb Model.Refresh Spec.AbsCache Run.CacheRun Gen.GenCache.

(* (registry, now, on-demand?, filter fails, prefill history, batch, impl: requested, fetched, final tables) *)
Definition fetch_case := (bytes * Z * bool * bool * list op * list entry * list bytes * list bytes * snapshot)%type.

Definition fetch_corr (c : fetch_case) : N :=
  let '(reg, now, on_demand, ffail, prefill, batch, requested, fetched, final) := c in
  let d0 := c_run fetch_timeout_ms prefill in
  let '(d, req, ok) := if on_demand then fetch_missing fetch_timeout_ms reg now ffail batch d0
                       else refresh fetch_timeout_ms reg now batch d0 in
  if list_eqb beq req requested && (negb on_demand || list_eqb beq ok fetched) && snap_eqb final (snap d) then 0 else 2.
