(* Executable glue for the backend checks (C13, C14, C18). *)
From Coq Require Import ZArith.
From VL Require Import Lib.Bytes Model.Backend Run.CacheRun.

(* per step: the event, then what the implementation showed: uris of publications in order, number of
   "cache not available" warnings, code actions offered (0 none asked, 1 offered, 2 not offered), pending fetches (sorted) *)
Definition bstep_obs := (bevent * list N * N * N * list N)%type.
(* supported uris, enabled uris, has store, revision -> package table, initially cached packages, steps *)
Definition backend_case := (list N * list N * bool * list (N * option N) * list N * list bstep_obs)%type.

Definition cfg_of (sup en : list N) (st : bool) (tbl : list (N * option N)) : bconfig :=
  mkCfg (fun u => mem u sup) (fun u => mem u en) st
        (fun t => match find (fun x => fst x =? t) tbl with Some x => snd x | None => None end).

Definition pubs_of (outs : list output) : list N :=
  flat_map (fun o => match o with OutPublish p => [pb_uri p] | _ => [] end) outs.
Definition warns_of (outs : list output) : N :=
  N.of_nat (length (filter (fun o => match o with OutWarnNoCache => true | _ => false end) outs)).
Definition actions_of (outs : list output) : N :=
  match find (fun o => match o with OutActions _ => true | _ => false end) outs with
  | Some (OutActions true) => 1 | Some (OutActions false) => 2 | _ => 0 end.
Definition nle (a b : N) : bool := a <=? b.

Fixpoint backend_replay (c : bconfig) (s : bstate) (l : list bstep_obs) (i : N) : N :=
  match l with
  | [] => 0
  | (e, pubs, warns, acts, pend) :: t =>
      let '(s', outs) := step c s e in
      if list_eqb N.eqb (pubs_of outs) pubs && (warns_of outs =? warns) && (actions_of outs =? acts) &&
         list_eqb N.eqb (sort_by nle (map fst (fetching s'))) pend
      then backend_replay c s' t (i + 1) else 2 + 100 * (i + 1)
  end.

Definition backend_corr (c : backend_case) : N :=
  let '(sup, en, st, tbl, cached0, steps) := c in
  backend_replay (cfg_of sup en st tbl) (init_state cached0) steps 0.
