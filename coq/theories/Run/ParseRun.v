(* Case evaluation for C04 / C05 / C06 (parser level): the walk models on the real CST against the
   real parsers' output. *)
From Coq Require Import ZArith.
From VL Require Import Lib.Bytes Lib.Text Lib.Cst Model.Walks Model.GoMod.

Inductive impl_parse := IPanic | IPkgs (l : list pkg).
Record parse_case := mkPC {
  pc_fmt : N;            (* 0 package.json, 1 deno.json, 2 Cargo.toml, 3 pyproject.toml, 4 pnpm-workspace.yaml, 5 workflow, 6 go.mod *)
  pc_content : bytes;
  pc_cst : option node;
  pc_pep : list (bytes * pep);
  pc_impl : impl_parse }.

Definition pep_of (tape : list (bytes * pep)) (s : bytes) : pep :=
  match find (fun p => beq (fst p) s) tape with Some p => snd p | None => PepErr end.

Definition extra_eqb (a b : bytes * N * N) : bool :=
  let '(t, s, e) := a in let '(t', s', e') := b in beq t t' && (s =? s') && (e =? e').
Definition pkg_eqb (a b : pkg) : bool :=
  beq (p_name a) (p_name b) && beq (p_version a) (p_version b) && opt_eqb beq (p_hash a) (p_hash b)
  && (p_start a =? p_start b) && (p_end a =? p_end b) && (p_line a =? p_line b) && (p_col a =? p_col b)
  && opt_eqb extra_eqb (p_extra a) (p_extra b).

Definition model_parse (c : parse_case) : option (list pkg) :=
  match pc_fmt c, pc_cst c with
  | 6, _ => Some (parse_go_mod (pc_content c))
  | 0, Some t => walk_package_json (pc_content c) t
  | 1, Some t => walk_deno_json (pc_content c) t
  | 2, Some t => walk_cargo_toml (pc_content c) t
  | 3, Some t => walk_pyproject (pep_of (pc_pep c)) (pc_content c) t
  | 4, Some t => walk_pnpm (pc_content c) t
  | 5, Some t => walk_gha (pc_content c) t
  | _, _ => Some []
  end.

(* 0 = agree; 1 = results differ; 2 = panic on one side only; 3 = the tree violates what tree-sitter guarantees *)
Definition parse_corr (c : parse_case) : N :=
  if match pc_cst c with Some t => negb (wf_cst (pc_content c) t) | None => false end then 3 else
  match model_parse c, pc_impl c with
  | None, IPanic => 0
  | Some l, IPkgs l' => if list_eqb pkg_eqb l l' then 0 else 1
  | _, _ => 2
  end.

(* 1 = the tree is outside the hypothesis of the structural theorems (a string token shorter than its delimiters) *)
Definition parse_strings_contract (c : parse_case) : N :=
  match pc_cst c with Some t => if string_nodes_ok (pc_content c) t then 0 else 1 | None => 0 end.

(* C06: 0 = the tree satisfies the hypotheses of the totality theorems; 1 = node_safe fails somewhere; 2 = a lone quote *)
Definition parse_safe_contract (c : parse_case) : N :=
  match pc_cst c with
  | Some t => if negb (tree_forall (node_safe (pc_content c)) t) then 1
              else if ((pc_fmt c =? 3) || (pc_fmt c =? 4)) && negb (tree_forall (not_lone_quote (pc_content c)) t) then 2 else 0
  | None => 0
  end.
