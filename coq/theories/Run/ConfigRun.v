(* Executable glue for the C14 check: the decoder model against serde. *)
From Coq Require Import ZArith.
From VL Require Import Lib.Bytes Model.Config Run.CacheRun.

(* (answer, implementation: None = error, Some (refresh interval, ignore prerelease, enabled flags in field order)) *)
Definition config_case := (json * option (Z * bool * list bool))%type.
Definition config_corr (c : config_case) : N :=
  let '(j, impl) := c in
  match dec_config j, impl with
  | None, None => 0
  | Some m, Some (ri, ip, en) =>
      if Z.eqb (cf_refresh_interval m) ri && bool_eqb (cf_ignore_prerelease m) ip && list_eqb bool_eqb (map snd (cf_enabled m)) en then 0 else 2
  | _, _ => 2
  end.
