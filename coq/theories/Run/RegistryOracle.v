(* Case evaluation for C15 / C17 (adapter level): the reference reading of a reply (Spec only - no model,
   no regenerated data) against the implementation's answer. *)
From Coq Require Import ZArith.
From VL Require Import Lib.Bytes Model.Config Lib.Http Spec.RegistryReply.

Definition tape := list (bytes * option Z).
Definition ts_of (t : tape) (s : bytes) : option Z :=
  match find (fun p => beq (fst p) s) t with Some p => snd p | None => None end.

Inductive impl_out :=
| INotFound | IRate (retry : option N) | ITransient | IOk (vs : list bytes) (tags : list (bytes * bytes))
| ISha (s : bytes) | IOther.

Record reg_case := mkCase {
  rc_adapter : N;                  (* 0 npm, 1 crates, 2 go, 3 github, 4 jsr, 5 pypi, 6 github tags *)
  rc_name : bytes;
  rc_tag : bytes;
  rc_reply : option reply;         (* what the single request was answered with *)
  rc_pages : list json;            (* github: the whole chain of pages the server holds (well-formed chains only) *)
  rc_tape : tape;
  rc_impl : impl_out;
  rc_requests : list bytes }.

Fixpoint ins_b (x : bytes) (l : list bytes) : list bytes :=
  match l with [] => [x] | y :: t => match bcmp x y with Gt => y :: ins_b x t | _ => x :: l end end.
Definition sortb (l : list bytes) : list bytes := fold_right ins_b [] l.
Definition flat_pair (p : bytes * bytes) : bytes := fst p ++ 256 :: snd p.
Definition same_set (a b : list bytes) : bool := list_eqb beq (sortb a) (sortb b).
Definition same_tags (a b : list (bytes * bytes)) : bool := same_set (map flat_pair a) (map flat_pair b).
(* adapters whose version order is determined by the reply (Vec input); the others iterate a HashMap *)
Definition ordered (n : N) : bool := (n =? 1) || (n =? 2) || (n =? 3).

(* the reference reading against the implementation's answer; 0 = the property holds on this case,
   7 = it fails only because the answer spans several pages (known finding) *)
Definition reg_of_n (n : N) : reg := match n with 0 => RNpm | 1 => RCrates | 2 => RGo | 3 => RGitHub | 4 => RJsr | _ => RPypi end.
Definition strip_both (pre suf s : bytes) : option bytes :=
  match strip_prefix pre s with Some r => strip_suffix suf r | None => None end.
Definition name_ok (c : reg_case) : bool :=
  match rc_requests c with
  | [p] =>
      match rc_adapter c with
      | 0 => match strip_prefix [47] p with Some r => beq (pct_decode_slash r) (rc_name c) && (negb (starts_with [64] (rc_name c)) || negb (existsb (N.eqb 47) r)) | None => false end
      | 1 => opt_eqb beq (strip_prefix [47] p) (Some (rc_name c))
      | 2 => match strip_both [47] [47; 64; 118; 47; 108; 105; 115; 116] p with Some r => opt_eqb beq (go_unescape r) (Some (rc_name c)) | None => false end
      | 3 => opt_eqb beq (strip_both [47; 114; 101; 112; 111; 115; 47] [47; 114; 101; 108; 101; 97; 115; 101; 115] p) (Some (rc_name c))
      | 4 => opt_eqb beq (strip_both [47] [47; 109; 101; 116; 97; 46; 106; 115; 111; 110] p) (Some (rc_name c))
      | 5 => opt_eqb beq (strip_both [47; 112; 121; 112; 105; 47] [47; 106; 115; 111; 110] p) (Some (rc_name c))
      | _ => opt_eqb beq (strip_both [47; 114; 101; 112; 111; 115; 47] [47; 116; 97; 103; 115] p) (Some (rc_name c))
      end
  | _ => false
  end.

Definition reg_oracle (c : reg_case) : N :=
  match rc_reply c with
  | None => match rc_impl c with ITransient => 0 | _ => 10 end
  | Some r =>
      if negb (name_ok c) then 11 else
      let s := r_status r in
      let rg := reg_of_n (if rc_adapter c =? 6 then 3 else rc_adapter c) in
      if definitive_not_found rg s then (match rc_impl c with INotFound => 0 | _ => 12 end)
      else if negb (success s) then (match rc_impl c with ITransient => 0 | IRate _ => if (rc_adapter c =? 3) || (rc_adapter c =? 6) then 0 else 13 | _ => 13 end)
      else if rc_adapter c =? 6 then
        (* the tags listing: the commit of exactly the named tag, or no commit at all *)
        match r_body r, rc_impl c with
        | BJson (JArr l), ISha s =>
            match find (fun t => match member s_name t with Some (JStr n) => beq n (rc_tag c) | _ => false end) l with
            | Some t => match member s_commit t with Some cm => match member s_sha cm with Some (JStr x) => if beq x s then 0 else 14 | _ => 14 end | None => 14 end
            | None => 14
            end
        | _, ISha _ => 14
        | _, _ => 0
        end
      else
        let a := rc_adapter c in
        let wf := match a, r_body r with
                  | 0, BJson j => wf_npm j | 1, BJson j => wf_crates j | 2, BRaw t => wf_go t
                  | 3, BJson _ => forallb wf_github_page (rc_pages c) && negb (match rc_pages c with [] => true | _ => false end)
                  | 4, BJson j => wf_jsr j | 5, BJson j => wf_pypi j | _, _ => false end in
        if negb wf then (match rc_impl c with INotFound => 15 | IRate _ => 15 | _ => 0 end)     (* anything but a verdict of non-existence *)
        else
          let adv := match a, r_body r with
                     | 0, BJson j => adv_npm j | 1, BJson j => adv_crates j | 2, BRaw t => adv_go t
                     | 3, _ => adv_github (rc_pages c) | 4, BJson j => adv_jsr j | 5, BJson j => adv_pypi j | _, _ => [] end in
          let tg := match a, r_body r with 0, BJson j => tags_npm j | 5, BJson j => tags_pypi j | _, _ => [] end in
          match rc_impl c with
          | IOk vs tags =>
              if negb (same_tags tags tg) then 16
              else if same_set vs adv then 0
              else if (a =? 3) && (1 <? N.of_nat (length (rc_pages c))) then 7 else 17
          | _ => 18
          end
  end.
