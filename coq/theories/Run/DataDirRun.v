From VL Require Import Lib.Bytes Model.DataDir Run.CacheRun.
(* (XDG_DATA_HOME, home directory, implementation: data dir, db path) *)
Definition datadir_case := (option bytes * option bytes * bytes * bytes)%type.
Definition datadir_corr (c : datadir_case) : N :=
  let '(x, h, d, p) := c in
  if beq (data_dir_with_env x h) d && beq (db_path x h) p then 0 else 2.
