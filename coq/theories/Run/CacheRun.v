(* Executable glue for the cache checks (C03, C08, C09): replay a history on the
   model and compare every return value and table snapshot with the real file. *)
From VL Require Import Lib.Bytes Lib.Reg Lib.SemVer Model.SemverUtil Model.Detect Model.CacheDb Gen.GenCache.

Inductive cop :=
| CStore (k : key) (vs : list bytes) (now : Z)
| CTags (k : key) (m : list (bytes * bytes)) (now : Z)
| CMark (k : key)
| CClaim (k : key) (now : Z)
| CRelease (k : key)
| CReopen
| CLatest (k : key) (ignore_pre : bool)
| CVersions (k : key)
| CFilter (reg : bytes) (names : list bytes)
| CRefresh (interval now : Z)
| CDistTag (k : key) (t : bytes)
| CExists (k : key) (v : bytes).

Inductive cret :=
| RUnit | RBool (b : bool) | ROpt (o : option bytes) | RList (l : list bytes) | RKeys (l : list key).

Definition snapshot := (list (N * bytes * bytes * Z * option Z * bool) * list (N * bytes) * list (N * bytes * bytes))%type.

(* insertion sort *)
Fixpoint insert_by {A} (le : A -> A -> bool) (x : A) (l : list A) : list A :=
  match l with
  | [] => [x]
  | y :: t => if le x y then x :: l else y :: insert_by le x t
  end.
Definition sort_by {A} (le : A -> A -> bool) (l : list A) : list A := fold_right (insert_by le) [] l.

Definition ble (a b : bytes) : bool := match bcmp a b with Gt => false | _ => true end.
Definition nb_le (a b : N * bytes) : bool :=
  match N.compare (fst a) (fst b) with Lt => true | Gt => false | Eq => ble (snd a) (snd b) end.
Definition nbb_le (a b : N * bytes * bytes) : bool :=
  match N.compare (fst (fst a)) (fst (fst b)) with
  | Lt => true | Gt => false
  | Eq => match bcmp (snd (fst a)) (snd (fst b)) with Lt => true | Gt => false | Eq => ble (snd a) (snd b) end
  end.
Definition key_le (a b : key) : bool :=
  match bcmp (fst a) (fst b) with Lt => true | Gt => false | Eq => ble (snd a) (snd b) end.

Definition snap (d : db) : snapshot :=
  (map (fun p => (p_id p, fst (p_key p), snd (p_key p), p_updated p, p_fetching p, p_notfound p)) (pkgs d),
   sort_by nb_le (vers d),
   sort_by nbb_le (map (fun r => (fst r, fst (snd r), snd (snd r))) (tags d))).

Definition known_reg (s : bytes) : bool := match from_str s with Some _ => true | None => false end.

Definition run_op (o : cop) (d : db) : db * cret :=
  match o with
  | CStore k vs now => (replace_versions k vs now d, RBool true)
  | CTags k m now => (save_dist_tags k m now d, RBool true)
  | CMark k => (mark_not_found k d, RBool true)
  | CClaim k now => let '(d', b) := try_start_fetch fetch_timeout_ms k now d in (d', RBool b)
  | CRelease k => (finish_fetch k d, RBool true)
  | CReopen => (d, RBool true)
  | CLatest k ign => (d, ROpt (get_latest_version ign k d))
  | CVersions k => (d, RList (sort_by ble (get_versions k d)))
  | CFilter reg names => (d, RList (filter_packages_not_in_cache reg names d))
  | CRefresh interval now => (d, RKeys (sort_by key_le (get_packages_needing_refresh known_reg interval now d)))
  | CDistTag k t => (d, ROpt (get_dist_tag k t d))
  | CExists k v => (d, RBool (version_exists k v d))
  end.

Definition z_eqb := Z.eqb.
Definition optz_eqb (a b : option Z) : bool :=
  match a, b with None, None => true | Some x, Some y => Z.eqb x y | _, _ => false end.
Definition bool_eqb (a b : bool) : bool := if a then b else negb b.
Definition key_eq (a b : key) : bool := key_eqb a b.

Definition cret_eqb (a b : cret) : bool :=
  match a, b with
  | RUnit, RUnit => true
  | RBool x, RBool y => bool_eqb x y
  | ROpt x, ROpt y => opt_eqb beq x y
  | RList x, RList y => list_eqb beq x y
  | RKeys x, RKeys y => list_eqb key_eq x y
  | _, _ => false
  end.

Definition snap_eqb (a b : snapshot) : bool :=
  let '(p1, v1, t1) := a in let '(p2, v2, t2) := b in
  list_eqb (fun x y => let '(i1, r1, n1, u1, f1, nf1) := x in let '(i2, r2, n2, u2, f2, nf2) := y in
                       (i1 =? i2) && beq r1 r2 && beq n1 n2 && Z.eqb u1 u2 && optz_eqb f1 f2 && bool_eqb nf1 nf2) p1 p2 &&
  list_eqb (fun x y => (fst x =? fst y) && beq (snd x) (snd y)) v1 v2 &&
  list_eqb (fun x y => (fst (fst x) =? fst (fst y)) && beq (snd (fst x)) (snd (fst y)) && beq (snd x) (snd y)) t1 t2.

(* a case: the history with what the implementation returned and the tables it left *)
Definition cache_case := list (cop * cret * snapshot).

(* SQLite returns the rows of get_versions in an unspecified order and max_by keeps the
   last maximum, so among several spellings of the maximal version ("1.2.3", "v1.2.3") any
   may be reported: the answers must be the same version and a stored string *)
Definition same_version (a b : bytes) : bool :=
  match parse_version a, parse_version b with
  | Some x, Some y => v_eq x y
  | _, _ => false
  end.
Definition ret_ok (o : cop) (d : db) (impl model : cret) : bool :=
  cret_eqb impl model ||
  match o, impl, model with
  | CLatest k _, ROpt (Some a), ROpt (Some b) =>
      match get_dist_tag k tag_latest d with
      | Some _ => false
      | None => same_version a b && existsb (beq a) (get_versions k d)
      end
  | _, _, _ => false
  end.

Fixpoint replay (l : cache_case) (d : db) (i : N) : N :=
  match l with
  | [] => 0
  | (o, r, s) :: t =>
      let '(d', r') := run_op o d in
      if ret_ok o d r r' && snap_eqb s (snap d') then replay t d' (i + 1) else 2 + 100 * (i + 1)
  end.
Definition cache_corr (c : cache_case) : N := replay c empty_db 0.

(* what the model says at a step (for replays) *)
Fixpoint state_at (l : cache_case) (d : db) (i : N) : db * option cret :=
  match l with
  | [] => (d, None)
  | (o, r, s) :: t =>
      let '(d', r') := run_op o d in
      if i =? 0 then (d', Some r') else state_at t d' (i - 1)
  end.

(* ---- C03 oracle: is the implementation's answer a legitimate "latest"? ---- *)
Definition admissible_b (ign : bool) (p : version) : bool :=
  negb ign || match pre p with [] => true | _ => false end.
Definition latest_oracle (ign : bool) (tag : option bytes) (vs : list bytes) (impl : option bytes) : bool :=
  match tag with
  | Some t => opt_eqb beq impl (Some t)
  | None =>
      let cands := candidates ign vs in
      match impl with
      | None => match cands with [] => true | _ => false end
      | Some v =>
          existsb (beq v) vs &&
          match parse_version v with
          | Some pv => admissible_b ign pv &&
                       forallb (fun c => match vcmp (snd c) pv with Gt => false | _ => true end) cands
          | None => false
          end
      end
  end.
Definition latest_case := (bool * option bytes * list bytes * option bytes)%type.
Definition latest_verdict (c : latest_case) : N :=
  let '(ign, tag, vs, impl) := c in if latest_oracle ign tag vs impl then 0 else 1.

(* ---- Lib.SemVer against the semver crate, and the helpers of src/version/semver.rs ---- *)
Definition ver_obs := (N * N * N * bytes * bytes * bytes)%type.   (* major minor patch pre build display *)
Definition ver_obs_eqb (v : version) (o : ver_obs) : bool :=
  let '(a, b, c, p, bd, sh) := o in
  (major v =? a) && (minor v =? b) && (patch v =? c) && beq (pre v) p && beq (build v) bd && beq (show v) sh.
Definition optver_eqb (m : option version) (o : option ver_obs) : bool :=
  match m, o with None, None => true | Some v, Some x => ver_obs_eqb v x | _, _ => false end.
Definition cmp_code (c : comparison) : N := match c with Lt => 0 | Eq => 1 | Gt => 2 end.
(* a, b, available; parse a, lenient a, cmp a b, eq a b, is_prerelease a, bump patch/minor/major *)
Definition semver_case :=
  (bytes * bytes * list bytes * option ver_obs * option ver_obs * option N * option bool * bool *
   option bytes * option bytes * option bytes)%type.
Definition semver_verdict (c : semver_case) : N :=
  let '(a, b, avail, pa, la, cm, eq, ispre, bp, bmi, bma) := c in
  let ok :=
    optver_eqb (parse a) pa && optver_eqb (parse_version a) la &&
    opt_eqb N.eqb (match parse a, parse b with Some x, Some y => Some (cmp_code (vcmp x y)) | _, _ => None end) cm &&
    opt_eqb bool_eqb (match parse a, parse b with Some x, Some y => Some (v_eq x y) | _, _ => None end) eq &&
    bool_eqb (is_prerelease a) ispre &&
    opt_eqb beq (calculate_latest_patch a avail) bp &&
    opt_eqb beq (calculate_latest_minor a avail) bmi &&
    opt_eqb beq (calculate_latest_major a avail) bma in
  if ok then 0 else 2.

(* C12: replay a history on the model started from a given (legacy) database content *)
Definition cache_corr_from (c : db * cache_case) : N := replay (snd c) (fst c) 0.
