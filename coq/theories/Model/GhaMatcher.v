(* Model of src/version/matchers/github_actions.rs *)
From VL Require Import Lib.Bytes Lib.SemVer Model.SemverUtil.

Definition strip_v (v : bytes) : bytes :=
  let v1 := match strip_prefix [118] v with Some r => r | None => v end in
  match strip_prefix [86] v1 with Some r => r | None => v1 end.

(* normalize_version followed by Version::parse of the re-formatted string.
   The model keeps the numbers instead of printing and re-parsing them:
   format!("{}", u64) followed by numeric_identifier is the identity on u64
   (trusted, and exercised by the correspondence stream).  The prerelease /
   build tail is parsed exactly as Version::parse does after the patch number. *)
Definition parse_tail (ma mi pa : N) (tail : option bytes) : option version :=
  match tail with
  | None => Some (ver_new ma mi pa)
  | Some p =>
      (* the re-formatted text is "<ma>.<mi>.<pa>-<p>" *)
      match identifier true p with
      | None => None
      | Some ([], _) => None
      | Some (pr, t7) =>
          match t7 with
          | [] => Some (mkV ma mi pa pr [])
          | 43 :: t8 =>
              match identifier false t8 with
              | None => None
              | Some ([], _) => None
              | Some (b, []) => Some (mkV ma mi pa pr b)
              | Some (_, _ :: _) => None
              end
          | _ => None
          end
      end
  end.

Definition normalize_parse (v0 : bytes) : option version :=
  let v := strip_v v0 in
  match v with
  | [] => None
  | _ =>
      let '(base, tail) := match split_once 45 v with
                           | Some (b, p) => (b, Some p)
                           | None => (v, None)
                           end in
      match split_char 46 base with
      | [a] => match parse_u64 a with Some ma => parse_tail ma 0 0 tail | None => None end
      | [a; b] => match parse_u64 a, parse_u64 b with
                  | Some ma, Some mi => parse_tail ma mi 0 tail | _, _ => None end
      | [a; b; c] => match parse_u64 a, parse_u64 b, parse_u64 c with
                     | Some ma, Some mi, Some pa => parse_tail ma mi pa tail | _, _, _ => None end
      | _ => None
      end
  end.

Definition count_version_parts (v0 : bytes) : nat :=
  let v := strip_v v0 in
  match split_char 45 v with
  | base :: _ => length (split_char 46 base)
  | [] => length (split_char 46 v)
  end.

Definition matches (parts : nat) (c a : version) : bool :=
  match parts with
  | 1%nat => major c =? major a
  | 2%nat => (major c =? major a) && (minor c =? minor a)
  | _ => v_eq c a
  end.

Definition version_exists (spec : bytes) (available : list bytes) : bool :=
  match normalize_parse spec with
  | None => false
  | Some c =>
      let parts := count_version_parts spec in
      existsb (fun v => match normalize_parse v with Some a => matches parts c a | None => false end) available
  end.

Definition of_cmp (c : comparison) : compare_result :=
  match c with Lt => Outdated | Gt => Newer | Eq => Latest end.

Definition compare_to_latest (current latest : bytes) : compare_result :=
  match normalize_parse current with
  | None => Invalid
  | Some c =>
      match normalize_parse latest with
      | None => Invalid
      | Some l =>
          match count_version_parts current with
          | 1%nat => of_cmp (N.compare (major c) (major l))
          | 2%nat => of_cmp (then_cmp (N.compare (major c) (major l)) (N.compare (minor c) (minor l)))
          | _ => of_cmp (vcmp c l)
          end
      end
  end.
