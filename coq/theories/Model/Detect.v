(* Model of src/parser/types.rs: detect_parser_type, as_str, from_str.
   Tables come from the source of the moment (Gen/GenDetect.v). *)
From VL Require Import Lib.Bytes Lib.Reg Gen.GenDetect.

Definition is_sep (c : N) : bool := N.eqb c 47 || N.eqb c 92.

(* uri.match_indices(dir).any(|(i,_)| i == 0 || uri[i-1] is '/' or '\') *)
Fixpoint contains_dir_aux (dir s : bytes) (boundary : bool) : bool :=
  (boundary && starts_with dir s) ||
  match s with
  | [] => false
  | c :: t => contains_dir_aux dir t (is_sep c)
  end.
Definition contains_dir (uri dir : bytes) : bool := contains_dir_aux dir uri true.

Definition is_github_actions_workflow (uri : bytes) : bool :=
  existsb (contains_dir uri) gha_dirs && existsb (fun s => ends_with s uri) yaml_suffixes.

Fixpoint first_suffix (tbl : list (bytes * registry)) (uri : bytes) : option registry :=
  match tbl with
  | [] => None
  | (suf, r) :: t => if ends_with suf uri then Some r else first_suffix t uri
  end.

Definition detect (uri : bytes) : option registry :=
  if is_github_actions_workflow uri then Some GitHubActions
  else first_suffix detect_suffix_table uri.

Definition as_str (r : registry) : bytes :=
  match find (fun p => reg_eqb (fst p) r) as_str_table with
  | Some p => snd p
  | None => []
  end.

Definition from_str (s : bytes) : option registry :=
  match find (fun p => beq (fst p) s) from_str_table with
  | Some p => Some (snd p)
  | None => None
  end.
