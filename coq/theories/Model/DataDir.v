(* Model of src/config.rs: data_dir_with_env / db_path (PathBuf::from, join). *)
From VL Require Import Lib.Bytes.

(* PathBuf::join on Unix: an absolute right-hand side replaces the base; an empty base adds no
   separator; a separator is added unless the base already ends with one *)
Definition path_join (base rel : bytes) : bytes :=
  match rel with
  | 47 :: _ => rel
  | _ => match base with
         | [] => rel
         | _ => if ends_with [47] base then base ++ rel else base ++ 47 :: rel
         end
  end.

Definition s_local_share : bytes := [46;108;111;99;97;108;47;115;104;97;114;101].          (* .local/share *)
Definition s_version_lsp : bytes := [118;101;114;115;105;111;110;45;108;115;112].            (* version-lsp *)
Definition s_versions_db : bytes := [118;101;114;115;105;111;110;115;46;100;98].             (* versions.db *)

Definition data_dir_with_env (xdg home : option bytes) : bytes :=
  let base := match xdg with
              | Some x => x
              | None => match home with Some h => path_join h s_local_share | None => [46] end
              end in
  path_join base s_version_lsp.

Definition db_path (xdg home : option bytes) : bytes := path_join (data_dir_with_env xdg home) s_versions_db.
