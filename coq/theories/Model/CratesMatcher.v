(* Model of src/version/matchers/crates.rs *)
From VL Require Import Lib.Bytes Lib.SemVer Model.SemverUtil Model.NpmMatcher.

(* VersionRequirement has the same constructors as the npm VersionRange minus
   RHyphen; the model reuses [vrange] (RHyphen is never produced here). *)

Definition is_star (s : bytes) : bool := beq s [42].

Definition parse_wildcard_c (spec : bytes) : option vrange :=
  match split_char 46 spec with
  | [ma; x] => if is_star x then option_map RWildMajor (parse_u64 ma) else None
  | [ma; mi; x] =>
      if is_star x then
        match parse_u64 ma, parse_u64 mi with
        | Some a, Some b => Some (RWildMinor a b)
        | _, _ => None
        end
      else None
  | _ => None
  end.

Definition req_parse (spec0 : bytes) : option vrange :=
  let spec := trim spec0 in
  match strip_prefix [62;61] spec with
  | Some rest => option_map RGte (parse_version (trim rest))
  | None =>
  match strip_prefix [62] spec with
  | Some rest => option_map RGt (parse_version (trim rest))
  | None =>
  match strip_prefix [60;61] spec with
  | Some rest => option_map RLte (parse_version (trim rest))
  | None =>
  match strip_prefix [60] spec with
  | Some rest => option_map RLt (parse_version (trim rest))
  | None =>
  match strip_prefix [61] spec with
  | Some rest => option_map RExact (parse_version (trim rest))
  | None =>
  match strip_prefix [94] spec with
  | Some rest => option_map RCaret (parse_version (trim rest))
  | None =>
  match strip_prefix [126] spec with
  | Some rest => option_map RTilde (parse_version (trim rest))
  | None =>
    if beq spec [42] then Some RAny
    else match parse_wildcard_c spec with
         | Some r => Some r
         | None => option_map RCaret (parse_version spec)
         end
  end end end end end end end.

Definition cspec_parse (spec0 : bytes) : option (list vrange) :=
  let spec := trim spec0 in
  match spec with
  | [] => None
  | _ => all_some (map (fun p => req_parse (trim p)) (split_char 44 spec))
  end.

Definition cspec_sat (rs : list vrange) (x : version) : bool := forallb (fun r => range_sat r x) rs.
Definition cspec_base (rs : list vrange) : option version :=
  match rs with r :: _ => range_base r | [] => None end.

Definition version_exists (spec : bytes) (available : list bytes) : bool :=
  match cspec_parse spec with
  | None => false
  | Some s => existsb (fun v => match parse v with Some x => cspec_sat s x | None => false end) available
  end.

Definition compare_to_latest (current latest : bytes) : compare_result :=
  match cspec_parse current with
  | None => Invalid
  | Some s =>
      match parse latest with
      | None => Invalid
      | Some l =>
          if cspec_sat s l then Latest
          else match cspec_base s with
               | None => Latest
               | Some b => if v_lt b l then Outdated else Newer
               end
      end
  end.
