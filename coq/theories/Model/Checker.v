(* Model of src/version/checker.rs (compare_version, is_potential_dist_tag) and of
   the status -> diagnostic mapping of src/lsp/diagnostics.rs (create_diagnostic). *)
From VL Require Import Lib.Bytes Lib.Reg Model.SemverUtil Gen.GenChecker.

Inductive vstatus := SLatest | SOutdated | SNewer | SInvalid | SNotInCache | SNotFound.

Record matcher := mkMatcher {
  m_exists : bytes -> list bytes -> bool;
  m_compare : bytes -> bytes -> compare_result }.

(* version.to_lowercase(): Unicode lower-casing; on the 13 ASCII tag names (none contains
   a 'k', the only ASCII letter that a non-ASCII character - KELVIN SIGN - lower-cases to)
   it agrees with ASCII lower-casing of the bytes *)
Definition is_potential_dist_tag (s : bytes) : bool := existsb (beq (map to_lower s)) known_dist_tags.

(* a storer read may fail (CacheError): None *)
Record storer := mkStorer {
  s_latest : option (option bytes);
  s_tag : bytes -> option (option bytes);
  s_versions : option (list bytes) }.

Definition of_compare (c : compare_result) : vstatus :=
  match c with Latest => SLatest | Outdated => SOutdated | Newer => SNewer | Invalid => SInvalid end.

(* Result<VersionCompareResult, CacheError>: (status, latest_version) *)
Definition compare_version (st : storer) (m : matcher) (cur : bytes) : option (vstatus * option bytes) :=
  match s_latest st with
  | None => None
  | Some None => Some (SNotInCache, None)
  | Some (Some latest) =>
      match s_tag st cur with
      | None => None
      | Some res =>
          let resolved := match res with
                          | Some v => Some v
                          | None => if is_potential_dist_tag cur then None else Some cur
                          end in
          match resolved with
          | None => Some (SNotInCache, Some latest)
          | Some rv =>
              match s_versions st with
              | None => None
              | Some all =>
                  let ex := m_exists m rv all in
                  Some (match m_compare m rv latest with
                        | Invalid => SInvalid
                        | c => if ex then of_compare c else SNotFound
                        end, Some latest)
              end
          end
      end
  end.

Inductive severity := SevError | SevWarning.
Definition s_update_available : bytes := [85;112;100;97;116;101;32;97;118;97;105;108;97;98;108;101;58;32].  (* "Update available: " *)
Definition s_arrow : bytes := [32;45;62;32].                                                               (* " -> " *)
Definition s_version_ : bytes := [86;101;114;115;105;111;110;32].                                         (* "Version " *)
Definition s_not_found : bytes := [32;110;111;116;32;102;111;117;110;100;32;105;110;32;114;101;103;105;115;116;114;121]. (* " not found in registry" *)
Definition s_invalid : bytes := [73;110;118;97;108;105;100;32;118;101;114;115;105;111;110;32;102;111;114;109;97;116;58;32]. (* "Invalid version format: " *)
Definition s_unknown : bytes := [117;110;107;110;111;119;110].

(* create_diagnostic: severity and message; None = no diagnostic *)
Definition diag_of (cur : bytes) (r : vstatus * option bytes) : option (severity * bytes) :=
  match fst r with
  | SNotInCache | SLatest | SNewer => None
  | SOutdated => Some (SevWarning, s_update_available ++ cur ++ s_arrow ++ match snd r with Some l => l | None => s_unknown end)
  | SNotFound => Some (SevError, s_version_ ++ cur ++ s_not_found)
  | SInvalid => Some (SevError, s_invalid ++ cur)
  end.

(* generate_diagnostics for one dependency: a failed storer read drops the diagnostic *)
Definition diagnostic (st : storer) (m : matcher) (cur : bytes) : option (severity * bytes) :=
  match compare_version st m cur with
  | None => None
  | Some r => diag_of cur r
  end.
