(* Model of src/version/registries/*.rs: what each adapter asks for and what it makes of the reply.
   - request path: template (regenerated) applied to the encoded package name;
   - status classification: the early returns in source order (tables regenerated);
   - body decoding: serde-derive semantics of the reply structs on the JSON *value with its object
     members in document order, duplicates kept* (serde_json decodes from text: a repeated struct field
     is an error, a repeated map key overwrites), field tables and missing-field policies regenerated;
   - yanked filtering, stable sort by an optional key (timestamp / semver), tag extraction.
   The timestamp parser (chrono's RFC 3339) is an oracle [ts]; HTTP, TLS and JSON text -> value are outside.
   No proofs in this file. *)
From Coq Require Import ZArith.
From VL Require Import Lib.Bytes Lib.Reg Lib.SemVer Model.Config Lib.Http Gen.GenRegistry.
Export Lib.Http.
From VL Require Export Lib.Text.

Inductive adapter := ANpm | ACrates | AGo | AGitHub | AJsr | APypi.
Definition all_adapters : list adapter := [ANpm; ACrates; AGo; AGitHub; AJsr; APypi].

(* ---------- request ---------- *)
Definition encode_npm (name : bytes) : bytes :=
  match name with
  | 64 :: _ => flat_map (fun c => if c =? 47 then [37; 50; 70] else [c]) name      (* '@..': every '/' -> "%2F" *)
  | _ => name
  end.
Definition encode_go (name : bytes) : bytes :=
  flat_map (fun c => if is_upper c then [33; to_lower c] else [c]) name.            (* 'A' -> "!a" *)
Definition encode_by (e : N) (name : bytes) : bytes :=
  match e with 1 => encode_npm name | 2 => encode_go name | _ => name end.

(* substitute the first "{}" of a template *)
Fixpoint subst1 (t arg : bytes) : bytes :=
  match t with
  | 123 :: 125 :: rest => arg ++ rest
  | c :: rest => c :: subst1 rest arg
  | [] => []
  end.

Definition path_template (a : adapter) : bytes :=
  match a with ANpm => path_npm | ACrates => path_crates | AGo => path_go | AGitHub => path_github | AJsr => path_jsr | APypi => path_pypi end.
Definition encoding (a : adapter) : N :=
  match a with ANpm => enc_npm | ACrates => enc_crates | AGo => enc_go | AGitHub => enc_github | AJsr => enc_jsr | APypi => enc_pypi end.
Definition rules (a : adapter) : list (list N * N) :=
  match a with ANpm => rules_npm | ACrates => rules_crates | AGo => rules_go | AGitHub => rules_github | AJsr => rules_jsr | APypi => rules_pypi end.

Definition request_path (a : adapter) (name : bytes) : bytes := subst1 (path_template a) (encode_by (encoding a) name).
Definition request_path_tags (name : bytes) : bytes := subst1 path_github_tags (encode_by enc_github_tags name).

(* ---------- status ---------- *)
Definition is_success (s : N) : bool := (200 <=? s) && (s <? 300).
(* 0 = go on to the body; 1 NotFound, 2 RateLimited, 3 InvalidResponse *)
Fixpoint classify (rs : list (list N * N)) (s : N) : N :=
  match rs with
  | [] => 0
  | (codes, k) :: t =>
      let hit := match codes with [] => negb (is_success s) | _ => existsb (N.eqb s) codes end in
      if hit then k else classify t s
  end.

(* ---------- serde-derive decoding ---------- *)
Definition count_key (k : bytes) (l : list (bytes * json)) : nat := length (filter (fun p => beq (fst p) k) l).
(* a struct is read from an object (no known field twice; unknown members skipped) or positionally from an
   array (not longer than the field list) *)
Definition struct_ok (tbl : list (bytes * N)) (j : json) : bool :=
  match j with
  | JObj l => forallb (fun f => Nat.leb (count_key (fst f) l) 1) tbl
  | JArr l => Nat.leb (length l) (length tbl)
  | _ => false
  end.
Definition raw_field (tbl : list (bytes * N)) (i : nat) (j : json) : option json :=
  match j with JObj l => lookup (nth_key tbl i) l | JArr l => nth_error l i | _ => None end.
Definition policy_idx (tbl : list (bytes * N)) (i : nat) : N := match nth_error tbl i with Some f => snd f | None => 0 end.
(* [dflt]: the value of a missing field under policy 2 (#[serde(default)]; object or array) or 3 (Option: object only) *)
Definition dec_field {A} (tbl : list (bytes * N)) (i : nat) (dec : json -> option A) (dflt : A) (j : json) : option A :=
  match raw_field tbl i j with
  | Some v => dec v
  | None => match policy_idx tbl i, j with
            | 2, _ => Some dflt
            | 3, JObj _ => Some dflt
            | _, _ => None
            end
  end.

Definition dec_string (j : json) : option bytes := match j with JStr s => Some s | _ => None end.
Definition dec_opt_string (j : json) : option (option bytes) :=
  match j with JNull => Some None | JStr s => Some (Some s) | _ => None end.
Definition dec_any (j : json) : option unit := Some tt.

Fixpoint map_insert {A} (k : bytes) (v : A) (m : list (bytes * A)) : list (bytes * A) :=
  match m with
  | [] => [(k, v)]
  | (k', v') :: t => if beq k k' then (k, v) :: t else (k', v') :: map_insert k v t
  end.
(* HashMap<String, V>: every member is decoded, a repeated key overwrites *)
Definition dec_map {A} (dec : json -> option A) (j : json) : option (list (bytes * A)) :=
  match j with
  | JObj l => fold_left (fun acc p => match acc, dec (snd p) with
                                      | Some m, Some v => Some (map_insert (fst p) v m)
                                      | _, _ => None
                                      end) l (Some [])
  | _ => None
  end.
Definition dec_vec {A} (dec : json -> option A) (j : json) : option (list A) :=
  match j with JArr l => all_some_l (map dec l) | _ => None end.

Definition mlookup {A} (k : bytes) (m : list (bytes * A)) : option A := option_map snd (find (fun p => beq (fst p) k) m).

(* ---------- stable sort by a key ---------- *)
Definition opt_le {A} (le : A -> A -> bool) (a b : option A) : bool :=
  match a, b with None, _ => true | Some _, None => false | Some x, Some y => le x y end.
Fixpoint insert_by {K} (le : K -> K -> bool) (x : K * bytes) (l : list (K * bytes)) : list (K * bytes) :=
  match l with
  | [] => [x]
  | y :: t => if le (fst x) (fst y) then x :: l else y :: insert_by le x t
  end.
Definition sort_by_key {K} (le : K -> K -> bool) (l : list (K * bytes)) : list (K * bytes) := fold_right (insert_by le) [] l.
Definition sorted_names {K} (le : K -> K -> bool) (l : list (K * bytes)) : list bytes := map snd (sort_by_key le l).

(* ---------- outcomes ---------- *)
Inductive outcome :=
| ONotFound | ORateLimited (retry : option N) | OTransient
| OOk (versions : list bytes) (tags : list (bytes * bytes)).


Section WithTimestamps.
Variable ts : bytes -> option Z.           (* chrono::DateTime::parse_from_rfc3339, as an instant *)
Definition ts_le := opt_le Z.leb.
Definition ts_opt (o : option bytes) : option Z := match o with Some s => ts s | None => None end.

(* npm: keys of "versions", sorted by "time"; tags = "dist-tags" *)
Definition dec_npm (j : json) : option (list bytes * list (bytes * bytes)) :=
  let t := fields_NpmPackageResponse in
  if struct_ok t j then
    match dec_field t 0 (dec_map dec_any) [] j, dec_field t 1 (dec_map dec_string) [] j, dec_field t 2 (dec_map dec_string) [] j with
    | Some vs, Some tags, Some time =>
        Some (sorted_names ts_le (map (fun p => (ts_opt (mlookup (fst p) time), fst p)) vs), tags)
    | _, _, _ => None
    end
  else None.

(* crates.io: versions[*] with yanked = false, sorted by created_at *)
Definition dec_crate_version (j : json) : option (bytes * bool * bytes) :=
  let t := fields_CrateVersion in
  if struct_ok t j then
    match dec_field t 0 dec_string [] j, dec_field t 1 dec_bool false j, dec_field t 2 dec_string [] j with
    | Some n, Some y, Some c => Some (n, y, c)
    | _, _, _ => None
    end
  else None.
Definition dec_crates (j : json) : option (list bytes * list (bytes * bytes)) :=
  let t := fields_CratesIoResponse in
  if struct_ok t j then
    match dec_field t 0 (dec_vec dec_crate_version) [] j with
    | Some vs => Some (sorted_names ts_le (map (fun v => (ts (snd v), fst (fst v))) (filter (fun v => negb (snd (fst v))) vs)), [])
    | None => None
    end
  else None.

(* GitHub releases: [*].tag_name sorted by published_at *)
Definition dec_release (j : json) : option (bytes * option bytes) :=
  let t := fields_Release in
  if struct_ok t j then
    match dec_field t 0 dec_string [] j, dec_field t 1 dec_opt_string None j with
    | Some n, Some p => Some (n, p)
    | _, _ => None
    end
  else None.
Definition dec_github (j : json) : option (list bytes * list (bytes * bytes)) :=
  match dec_vec dec_release j with
  | Some rs => Some (sorted_names ts_le (map (fun r => (ts_opt (snd r), fst r)) rs), [])
  | None => None
  end.

(* JSR: keys of "versions" whose meta is not yanked, sorted by createdAt *)
Definition dec_jsr_meta (j : json) : option (option bytes * bool) :=
  let t := fields_JsrVersionMeta in
  if struct_ok t j then
    match dec_field t 0 dec_opt_string None j, dec_field t 1 dec_bool false j with
    | Some c, Some y => Some (c, y)
    | _, _ => None
    end
  else None.
Definition dec_jsr (j : json) : option (list bytes * list (bytes * bytes)) :=
  let t := fields_JsrMetaResponse in
  if struct_ok t j then
    match dec_field t 0 dec_opt_string None j, dec_field t 1 (dec_map dec_jsr_meta) [] j with
    | Some _, Some vs =>
        Some (sorted_names ts_le (map (fun p => (ts_opt (fst (snd p)), fst p)) (filter (fun p => negb (snd (snd p))) vs)), [])
    | _, _ => None
    end
  else None.

(* PyPI: keys of "releases"; "latest" = info.version *)
Definition dec_pypi_file (j : json) : option unit := if struct_ok fields_PypiFile j then Some tt else None.
Definition dec_pypi_info (j : json) : option bytes :=
  let t := fields_PypiInfo in
  if struct_ok t j then dec_field t 0 dec_string [] j else None.
Definition latest_key : bytes := [108; 97; 116; 101; 115; 116].
Definition dec_pypi (j : json) : option (list bytes * list (bytes * bytes)) :=
  let t := fields_PypiResponse in
  if struct_ok t j then
    match dec_field t 0 dec_pypi_info [] j, dec_field t 1 (dec_map (dec_vec dec_pypi_file)) [] j with
    | Some v, Some rel => Some (map fst rel, [(latest_key, v)])
    | _, _ => None
    end
  else None.

(* Go proxy: str::lines (split after each '\n'; "\n" and a preceding '\r' removed), empty lines dropped,
   sorted by Option<semver::Version> of the text after 'v' *)
Definition go_key (line : bytes) : option version :=
  match strip_prefix [118] line with Some v => SemVer.parse v | None => None end.
Definition dec_go (text : bytes) : list bytes :=
  sorted_names (opt_le v_le) (map (fun l => (go_key l, l)) (filter (fun l => negb (beq l [])) (lines text))).

Definition decode (a : adapter) (b : body) : option (list bytes * list (bytes * bytes)) :=
  match a, b with
  | AGo, BRaw t => Some (dec_go t, [])
  | AGo, BJson _ => None                       (* not used: the Go body is always given as text *)
  | _, BRaw _ => None
  | ANpm, BJson j => dec_npm j
  | ACrates, BJson j => dec_crates j
  | AGitHub, BJson j => dec_github j
  | AJsr, BJson j => dec_jsr j
  | APypi, BJson j => dec_pypi j
  end.

(* fetch_all_versions: None = no reply at all (connection error) *)
Definition fetch (a : adapter) (r : option reply) : outcome :=
  match r with
  | None => OTransient
  | Some r =>
      match classify (rules a) (r_status r) with
      | 0 => match decode a (r_body r) with Some (vs, tags) => OOk vs tags | None => OTransient end
      | 1 => ONotFound
      | 2 => ORateLimited (match r_retry_after r with Some h => parse_u64 h | None => None end)
      | _ => OTransient
      end
  end.
End WithTimestamps.

(* ---------- fetch_tag_sha (GitHub tags) ---------- *)
Definition dec_tag_commit (j : json) : option bytes :=
  let t := fields_TagCommit in if struct_ok t j then dec_field t 0 dec_string [] j else None.
Definition dec_tag (j : json) : option (bytes * bytes) :=
  let t := fields_Tag in
  if struct_ok t j then
    match dec_field t 0 dec_string [] j, dec_field t 1 dec_tag_commit [] j with
    | Some n, Some s => Some (n, s)
    | _, _ => None
    end
  else None.
Inductive sha_outcome := SNotFound | SRateLimited | STransient | SSha (sha : bytes).
Definition fetch_tag_sha (tag : bytes) (r : option reply) : sha_outcome :=
  match r with
  | None => STransient
  | Some r =>
      match classify rules_github_tags (r_status r) with
      | 0 => match r_body r with
             | BJson j => match dec_vec dec_tag j with
                          | Some tags => match find (fun t => beq (fst t) tag) tags with Some t => SSha (snd t) | None => SNotFound end
                          | None => STransient
                          end
             | BRaw _ => STransient
             end
      | 1 => SNotFound
      | 2 => SRateLimited
      | _ => STransient
      end
  end.
