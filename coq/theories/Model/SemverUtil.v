(* Model of src/version/semver.rs *)
From VL Require Import Lib.Bytes Lib.SemVer.

Inductive compare_result := Latest | Outdated | Newer | Invalid.
Definition cr_code (c : compare_result) : N :=
  match c with Latest => 0 | Outdated => 1 | Newer => 2 | Invalid => 3 end.

(* the chain of trim_start_matches calls, in source order *)
Definition strip_ops (s : bytes) : bytes :=
  trim_start_char 118          (* 'v' *)
  (trim_start_char 126         (* '~' *)
  (trim_start_char 94          (* '^' *)
  (trim_start_char 61          (* '=' *)
  (trim_start_char 60          (* '<' *)
  (trim_start_char 62          (* '>' *)
  (trim_start_str [60;61]      (* "<=" *)
  (trim_start_str [62;61] s))))))).  (* ">=" *)

Definition pad (stripped : bytes) : bytes :=
  match split_char 46 stripped with
  | [a] => a ++ [46;48;46;48]
  | [a; b] => a ++ [46] ++ b ++ [46;48]
  | _ => stripped
  end.

Definition parse_version (s : bytes) : option version := parse (pad (strip_ops s)).

Fixpoint vmax (l : list version) : option version :=
  (* Iterator::max: the last maximal element *)
  match l with
  | [] => None
  | x :: t => match vmax t with
              | None => Some x
              | Some m => if v_gt x m then Some x else Some m
              end
  end.

Definition filter_parse (vs : list bytes) : list version :=
  flat_map (fun s => match parse_version s with Some v => [v] | None => [] end) vs.

Definition latest_where (keep : version -> version -> bool) (current : bytes) (available : list bytes) : option bytes :=
  match parse_version current with
  | None => None
  | Some cur =>
      match vmax (filter (keep cur) (filter_parse available)) with
      | None => None
      | Some m => if v_gt m cur then Some (show m) else None
      end
  end.

Definition calculate_latest_patch :=
  latest_where (fun cur v => (major v =? major cur) && (minor v =? minor cur)).
Definition calculate_latest_minor := latest_where (fun cur v => major v =? major cur).
Definition calculate_latest_major := latest_where (fun _ _ => true).

Definition is_prerelease (s : bytes) : bool :=
  match parse_version s with
  | Some v => match pre v with [] => false | _ => true end
  | None => false
  end.
