(* Models of the six tree-sitter based parsers (src/parser/{package_json,deno_json,cargo_toml,
   pyproject_toml,pnpm_workspace,github_actions}.rs): the walk over a concrete syntax tree given as data.
   [None] = the Rust code panics (slice out of range, usize underflow in a debug build).
   No proofs in this file. *)
From Coq Require Import ZArith.
From VL Require Import Lib.Bytes Lib.Text Lib.Cst Gen.GenParsers.

Definition k_pair : bytes := [112;97;105;114].
Definition k_object : bytes := [111;98;106;101;99;116].
Definition k_string : bytes := [115;116;114;105;110;103].
Definition k_key : bytes := [107;101;121].
Definition k_value : bytes := [118;97;108;117;101].
Definition k_table : bytes := [116;97;98;108;101].
Definition k_lbracket : bytes := [91].
Definition k_bare_key : bytes := [98;97;114;101;95;107;101;121].
Definition k_dotted_key : bytes := [100;111;116;116;101;100;95;107;101;121].
Definition k_inline_table : bytes := [105;110;108;105;110;101;95;116;97;98;108;101].
Definition k_array : bytes := [97;114;114;97;121].
Definition k_version : bytes := [118;101;114;115;105;111;110].
Definition k_block_mapping_pair : bytes := [98;108;111;99;107;95;109;97;112;112;105;110;103;95;112;97;105;114].
Definition k_block_mapping : bytes := [98;108;111;99;107;95;109;97;112;112;105;110;103].

Definition bind {A B} (o : option A) (f : A -> option B) : option B := match o with Some x => f x | None => None end.
(* run a panicking step over a list, concatenating the results *)
Fixpoint concat_opt {A B} (f : A -> option (list B)) (l : list A) : option (list B) :=
  match l with
  | [] => Some []
  | x :: t => match f x, concat_opt f t with Some a, Some b => Some (a ++ b) | _, _ => None end
  end.
Definition pred_N (n : N) : option N := if n =? 0 then None else Some (n - 1).   (* usize - 1 *)

(* text.trim().trim_start_matches('"').trim_end_matches('"') *)
Definition strip_dq (t : bytes) : bytes := trim_end_char 34 (trim_start_char 34 (trim t)).
(* ... followed by the same with '\'' *)
Definition strip_dq_sq (t : bytes) : bytes := trim_end_char 39 (trim_start_char 39 (strip_dq t)).
Definition string_value (content : bytes) (n : node) : option bytes := option_map strip_dq (node_text content n).
Definition node_plain_text (content : bytes) (n : node) : option bytes := option_map strip_dq_sq (node_text content n).

(* a quoted value: offsets and column move inside the quotes *)
Definition quoted_pkg (name version : bytes) (n : node) : option pkg :=
  bind (pred_N (n_eb n)) (fun e => Some (mkPkg name version None (n_sb n + 1) e (n_row n) (n_col n + 1) None)).

(* ---------- package.json ---------- *)
Definition split_scoped (rest : bytes) : option (option (bytes * bytes)) :=
  (* @scope/name[@range]: outer None = no '/' (the caller's `?`), inner None = no version *)
  match find_char 47 rest with
  | None => None
  | Some slash =>
      let after := skipn_N (slash + 1) rest in
      match find_char 64 after with
      | Some at_ => Some (Some (firstn_N (slash + 1 + at_) rest, skipn_N (at_ + 1) after))
      | None => Some None
      end
  end.
Definition parse_npm_alias (value : bytes) : option (bytes * bytes) :=
  match strip_prefix npm_alias_prefix value with
  | None => None
  | Some rest =>
      if starts_with [64] rest then
        match split_scoped rest with
        | None => None
        | Some (Some nv) => Some nv
        | Some None => Some (rest, latest_word)
        end
      else match find_char 64 rest with
           | Some at_ => Some (firstn_N at_ rest, skipn_N (at_ + 1) rest)
           | None => Some (rest, latest_word)
           end
  end.

Definition npm_entry (content : bytes) (p : node) : option (list pkg) :=
  if negb (kind_is k_pair p) then Some [] else
  match child_by_field k_key p, child_by_field k_value p with
  | Some kn, Some vn =>
      if negb (kind_is k_string vn) then Some [] else
      if n_eb vn - n_sb vn <? 2 then Some [] else          (* a half-typed string: skipped *)
      bind (string_value content kn) (fun key_name =>
      bind (string_value content vn) (fun raw =>
        if starts_with npm_catalog_prefix raw then Some [] else
        let '(name, version) := match parse_npm_alias raw with Some nv => nv | None => (key_name, raw) end in
        option_map (fun x => [x]) (quoted_pkg name version vn)))
  | _, _ => Some []
  end.
Definition npm_section (content : bytes) (p : node) : option (list pkg) :=
  if negb (kind_is k_pair p) then Some [] else
  match child_by_field k_key p with
  | None => Some []
  | Some kn =>
      bind (string_value content kn) (fun key =>
        if negb (existsb (beq key) npm_dependency_fields) then Some [] else
        match child_by_field k_value p with
        | Some vn => if kind_is k_object vn then concat_opt (npm_entry content) (n_children vn) else Some []
        | None => Some []
        end)
  end.
Definition walk_package_json (content : bytes) (root : node) : option (list pkg) :=
  match n_children root with
  | doc :: _ => if kind_is k_object doc then concat_opt (npm_section content) (n_children doc) else Some []
  | [] => Some []
  end.

(* ---------- deno.json ---------- *)
Definition parse_jsr_specifier (value : bytes) : option (bytes * bytes) :=
  match strip_prefix jsr_prefix value with
  | None => None
  | Some rest => match split_scoped rest with
                 | None => None
                 | Some (Some nv) => Some nv
                 | Some None => Some (rest, latest_word)
                 end
  end.
Definition deno_entry (content : bytes) (p : node) : option (list pkg) :=
  if negb (kind_is k_pair p) then Some [] else
  match child_by_field k_value p with
  | None => Some []
  | Some vn =>
      if negb (kind_is k_string vn) then Some [] else
      bind (string_value content vn) (fun raw =>
        match parse_jsr_specifier raw with
        | None => Some []
        | Some (name, version) => option_map (fun x => [x]) (quoted_pkg name version vn)
        end)
  end.
Definition deno_section (content : bytes) (p : node) : option (list pkg) :=
  if negb (kind_is k_pair p) then Some [] else
  match child_by_field k_key p with
  | None => Some []
  | Some kn =>
      bind (string_value content kn) (fun key =>
        if negb (beq key deno_imports_key) then Some [] else
        match child_by_field k_value p with
        | Some vn => if kind_is k_object vn then concat_opt (deno_entry content) (n_children vn) else Some []
        | None => Some []
        end)
  end.
Definition walk_deno_json (content : bytes) (root : node) : option (list pkg) :=
  match n_children root with
  | doc :: _ => if kind_is k_object doc then concat_opt (deno_section content) (n_children doc) else Some []
  | [] => Some []
  end.

(* ---------- Cargo.toml ---------- *)
Definition vinfo := (bytes * N * N * N * N)%type.      (* version, start, end, line, column *)
Definition string_vinfo (content : bytes) (n : node) : option vinfo :=
  bind (node_text content n) (fun t =>
  bind (pred_N (n_eb n)) (fun e => Some (strip_dq t, n_sb n + 1, e, n_row n, n_col n + 1))).

Definition table_name (content : bytes) (t : node) : option (option bytes) :=
  match find (fun c => kind_is k_bare_key c || kind_is k_dotted_key c) (n_children t) with
  | Some c => option_map Some (node_text content c)
  | None => Some None
  end.

(* any pair of the inline table with a bare key among the skip keys *)
Definition should_skip_inline (content : bytes) (tbl : node) : option bool :=
  option_map (existsb (fun b : bool => b))
    (concat_opt (fun p => if negb (kind_is k_pair p) then Some [] else
                          concat_opt (fun c => if kind_is k_bare_key c then option_map (fun k => [existsb (beq k) cargo_skip_keys]) (node_text content c) else Some [])
                                     (n_children p)) (n_children tbl)).
(* first string after a bare key "version" inside a pair of the inline table; the scan stops there *)
Fixpoint scan_version_pair (content : bytes) (cs : list node) (is_version : bool) : option (option vinfo) :=
  match cs with
  | [] => Some None
  | c :: t =>
      if kind_is k_bare_key c then bind (node_text content c) (fun k => scan_version_pair content t (beq k k_version))
      else if kind_is k_string c && is_version then option_map Some (string_vinfo content c)
      else scan_version_pair content t is_version
  end.
Fixpoint inline_version (content : bytes) (pairs : list node) : option (option vinfo) :=
  match pairs with
  | [] => Some None
  | p :: t => if kind_is k_pair p then
                match scan_version_pair content (n_children p) false with
                | None => None
                | Some (Some v) => Some (Some v)
                | Some None => inline_version content t
                end
              else inline_version content t
  end.
Definition inline_table_version (content : bytes) (tbl : node) : option (option vinfo) :=
  bind (should_skip_inline content tbl) (fun skip => if skip then Some None else inline_version content (n_children tbl)).

Record pair_state := mkPS { ps_name : option bytes; ps_ver : option vinfo; ps_dotted : bool; ps_suffix : option bytes }.
Definition split_once_dot (s : bytes) : option (bytes * bytes) := split_once 46 s.
Definition cargo_pair_step (content : bytes) (st : pair_state) (c : node) : option pair_state :=
  if kind_is k_bare_key c then
    bind (node_text content c) (fun t => Some (mkPS (Some t) (ps_ver st) (ps_dotted st) (ps_suffix st)))
  else if kind_is k_dotted_key c then
    bind (node_text content c) (fun t =>
      match split_once_dot t with
      | Some (p, s) => Some (mkPS (Some (trim p)) (ps_ver st) true (Some (trim s)))      (* pkg.trim(), suffix.trim() *)
      | None => Some (mkPS (ps_name st) (ps_ver st) true (ps_suffix st))
      end)
  else if kind_is k_string c then
    if ps_dotted st && negb (opt_eqb beq (ps_suffix st) (Some k_version)) then Some st
    else bind (string_vinfo content c) (fun v => Some (mkPS (ps_name st) (Some v) (ps_dotted st) (ps_suffix st)))
  else if kind_is k_inline_table c then
    bind (inline_table_version content c) (fun v => Some (mkPS (ps_name st) v (ps_dotted st) (ps_suffix st)))
  else Some st.
Fixpoint fold_opt {S A} (f : S -> A -> option S) (l : list A) (s : S) : option S :=
  match l with [] => Some s | x :: t => bind (f s x) (fun s' => fold_opt f t s') end.
Definition cargo_pair (content : bytes) (p : node) : option (list pkg) :=
  if negb (kind_is k_pair p) then Some [] else
  bind (fold_opt (cargo_pair_step content) (n_children p) (mkPS None None false None)) (fun st =>
    match ps_name st, ps_ver st with
    | Some name, Some (v, s, e, l, c) => Some [mkPkg name v None s e l c None]
    | _, _ => Some []
    end).
Definition cargo_table (content : bytes) (t : node) : option (list pkg) :=
  if negb (kind_is k_table t) then Some [] else
  match n_children t with
  | [] => Some []
  | h :: _ =>
      if negb (kind_is k_lbracket h) then Some [] else
      bind (table_name content t) (fun nm =>
        match nm with
        | None => Some []
        | Some name => if existsb (beq name) cargo_dependency_tables then concat_opt (cargo_pair content) (n_children t) else Some []
        end)
  end.
Definition walk_cargo_toml (content : bytes) (root : node) : option (list pkg) := concat_opt (cargo_table content) (n_children root).

(* ---------- pyproject.toml ---------- *)
Inductive pep := PepErr | PepPanic | PepUrl | PepSpec (name spec : bytes).
Section Pyproject.
Variable pep508 : bytes -> pep.          (* pep508_rs::Requirement::from_str, an oracle *)

Definition strip_outer_quotes (trimmed : bytes) : option bytes :=
  if (starts_with [34] trimmed && ends_with [34] trimmed) || (starts_with [39] trimmed && ends_with [39] trimmed)
  then slice trimmed 1 (blen trimmed - 1) else Some trimmed.       (* &trimmed[1..len-1]: panics on a one-byte string *)
Definition min_opt (a : N) (b : option N) : N := match b with Some x => if x <? a then x else a | None => a end.
Definition py_dep (content : bytes) (dep : bytes) (n : node) : option (list pkg) :=
  match pep508 dep with
  | PepPanic => None
  | PepErr | PepUrl => Some []
  | PepSpec name spec =>
      bind (node_text content n) (fun text =>
      bind (pred_N (n_eb n)) (fun eb1 =>
        let sb := n_sb n in
        let '(s, e) :=
          if beq spec [] then (sb + 1, eb1) else
          let inner := trim_end_char 39 (trim_end_char 34 (trim_start_char 39 (trim_start_char 34 text))) in
          let vs := fold_left (fun acc op => min_opt acc (find_str op inner)) pyproject_version_ops (blen inner) in
          if blen inner <=? vs then (sb + 1, sb + 1 + blen name)
          else (sb + 1 + vs, sb + 1 + match find_char 59 inner with Some p => p | None => blen inner end) in
        Some [mkPkg name spec None s e (n_row n) (n_col n + (s - sb)) None]))
  end.
Definition py_array (content : bytes) (arr : node) : option (list pkg) :=
  concat_opt (fun c => if negb (kind_is k_string c) then Some [] else
                       bind (node_text content c) (fun text =>
                       bind (strip_outer_quotes (trim text)) (fun dep => py_dep content dep c))) (n_children arr).
(* pairs whose (last seen) bare key is [key]: the arrays after it *)
Fixpoint py_key_scan (content : bytes) (key : bytes) (cs : list node) (is_target : bool) : option (list pkg) :=
  match cs with
  | [] => Some []
  | c :: t =>
      if kind_is k_bare_key c then bind (node_text content c) (fun k => py_key_scan content key t (beq k key))
      else if kind_is k_array c && is_target then
        match py_array content c, py_key_scan content key t is_target with Some a, Some b => Some (a ++ b) | _, _ => None end
      else py_key_scan content key t is_target
  end.
Definition py_key_array (content key : bytes) (t : node) : option (list pkg) :=
  concat_opt (fun p => if kind_is k_pair p then py_key_scan content key (n_children p) false else Some []) (n_children t).
Definition py_all_arrays (content : bytes) (t : node) : option (list pkg) :=
  concat_opt (fun p => if kind_is k_pair p then
                         concat_opt (fun c => if kind_is k_array c then py_array content c else Some []) (n_children p)
                       else Some []) (n_children t).
Definition py_table (content : bytes) (t : node) : option (list pkg) :=
  if negb (kind_is k_table t) then Some [] else
  match n_children t with
  | [] => Some []
  | h :: _ =>
      if negb (kind_is k_lbracket h) then Some [] else
      bind (table_name content t) (fun nm =>
        match nm with
        | None => Some []
        | Some name =>
            match find (fun r => beq (fst r) name) pyproject_tables with
            | Some (_, []) => py_all_arrays content t
            | Some (_, key) => py_key_array content key t
            | None => Some []
            end
        end)
  end.
Definition walk_pyproject (content : bytes) (root : node) : option (list pkg) := concat_opt (py_table content) (n_children root).
End Pyproject.

(* ---------- pnpm-workspace.yaml ---------- *)
Definition pnpm_entry (content : bytes) (p : node) : option (list pkg) :=
  match child_by_field k_key p, child_by_field k_value p with
  | Some kn, Some vn =>
      bind (node_plain_text content kn) (fun name =>
      bind (node_text content vn) (fun raw =>
        let trimmed := trim raw in
        let quoted := (starts_with [39] trimmed && ends_with [39] trimmed) || (starts_with [34] trimmed && ends_with [34] trimmed) in
        bind (if quoted then slice trimmed 1 (blen trimmed - 1) else Some trimmed) (fun version =>
          if beq version [] then Some [] else
          if quoted then option_map (fun x => [x]) (quoted_pkg name version vn)
          else Some [mkPkg name version None (n_sb vn) (n_eb vn) (n_row vn) (n_col vn) None])))
  | _, _ => Some []
  end.
(* extract_packages_from_mapping: nested block_mappings are entered, pairs are entries *)
Fixpoint pnpm_mapping (content : bytes) (n : node) : option (list pkg) :=
  let 'Node _ _ _ _ _ _ _ ch := n in
  (fix go (l : list node) : option (list pkg) :=
     match l with
     | [] => Some []
     | c :: t =>
         let here := if kind_is k_block_mapping c then pnpm_mapping content c
                     else if kind_is k_block_mapping_pair c then pnpm_entry content c else Some [] in
         match here, go t with Some a, Some b => Some (a ++ b) | _, _ => None end
     end) ch.
Definition pnpm_named (content : bytes) (n : node) : option (list pkg) :=
  concat_opt (fun c => if kind_is k_block_mapping c then
                         concat_opt (fun cp => if kind_is k_block_mapping_pair cp then
                                                 match child_by_field k_value cp with Some v => pnpm_mapping content v | None => Some [] end
                                               else Some []) (n_children c)
                       else Some []) (n_children n).
Fixpoint walk_pnpm (content : bytes) (n : node) : option (list pkg) :=
  let 'Node _ _ _ _ _ _ _ ch := n in
  let recurse := (fix go (l : list node) : option (list pkg) :=
                    match l with
                    | [] => Some []
                    | c :: t => match walk_pnpm content c, go t with Some a, Some b => Some (a ++ b) | _, _ => None end
                    end) ch in
  if kind_is k_block_mapping_pair n then
    match child_by_field k_key n with
    | Some kn =>
        bind (node_plain_text content kn) (fun key =>
          if beq key pnpm_catalog_key then
            match child_by_field k_value n with Some v => pnpm_mapping content v | None => Some [] end
          else if beq key pnpm_catalogs_key then
            match child_by_field k_value n with Some v => pnpm_named content v | None => Some [] end
          else recurse)
    | None => recurse
    end
  else recurse.

(* ---------- GitHub Actions workflows ---------- *)
Fixpoint rfind_char_aux (c : N) (s : bytes) (i : N) (last : option N) : option N :=
  match s with [] => last | x :: t => rfind_char_aux c t (i + 1) (if x =? c then Some i else last) end.
Definition rfind_char (c : N) (s : bytes) : option N := rfind_char_aux c s 0 None.
Definition is_hash40 (v : bytes) : bool := (blen v =? 40) && forallb is_hex v.

(* the comment on the line of the value: text, offset of '#', end offset *)
Definition line_comment (content : bytes) (sb : N) : option (option (bytes * N * N)) :=
  bind (slice content 0 sb) (fun before =>
  bind (slice content sb (blen content)) (fun from =>
    let line_start := match rfind_char 10 before with Some p => p + 1 | None => 0 end in
    let line_end := match find_char 10 from with Some p => sb + p | None => blen content end in
    bind (slice content line_start line_end) (fun line_text =>
      match find_char 35 line_text with
      | None => Some None
      | Some hp =>
          let after := skipn_N (hp + 1) line_text in
          let trimmed := trim after in
          if beq trimmed [] then Some None else
          let comment_start := line_start + hp in
          let trim_start_idx := match find_str trimmed after with Some p => p | None => 0 end in
          let text_start := comment_start + 1 + trim_start_idx in
          Some (Some (trimmed, comment_start, text_start + blen trimmed))
      end))).

Definition parse_uses_value (content : bytes) (value : bytes) (n : node) : option (list pkg) :=
  match find_char 64 value with
  | None => Some []
  | Some at_ =>
      let repo_part := firstn_N at_ value in
      let version := skipn_N (at_ + 1) value in
      match split_char 47 repo_part with
      | owner :: repo :: _ =>
          let name := owner ++ [47] ++ repo in
          let vstart := at_ + 1 in
          if is_hash40 version then
            bind (line_comment content (n_sb n)) (fun ci =>
              let final := match ci with Some (t, _, _) => t | None => version end in
              Some [mkPkg name final (Some version) (n_sb n + vstart) (n_eb n) (n_row n) (n_col n + vstart) ci])
          else Some [mkPkg name version None (n_sb n + vstart) (n_eb n) (n_row n) (n_col n + vstart) None]
      | _ => Some []
      end
  end.

Fixpoint gha_in_steps (content : bytes) (n : node) : option (list pkg) :=
  let 'Node _ _ _ _ _ _ _ ch := n in
  let here :=
    if kind_is k_block_mapping_pair n then
      match child_by_field k_key n with
      | Some kn =>
          bind (node_plain_text content kn) (fun key =>
            if beq key gha_uses_key then
              match child_by_field k_value n with
              | Some vn => bind (node_plain_text content vn) (fun value => parse_uses_value content value vn)
              | None => Some []
              end
            else Some [])
      | None => Some []
      end
    else Some [] in
  let below := (fix go (l : list node) : option (list pkg) :=
                  match l with
                  | [] => Some []
                  | c :: t => match gha_in_steps content c, go t with Some a, Some b => Some (a ++ b) | _, _ => None end
                  end) ch in
  match here, below with Some a, Some b => Some (a ++ b) | _, _ => None end.

Fixpoint walk_gha (content : bytes) (n : node) : option (list pkg) :=
  let 'Node _ _ _ _ _ _ _ ch := n in
  let recurse := (fix go (l : list node) : option (list pkg) :=
                    match l with
                    | [] => Some []
                    | c :: t => match walk_gha content c, go t with Some a, Some b => Some (a ++ b) | _, _ => None end
                    end) ch in
  if kind_is k_block_mapping_pair n then
    match child_by_field k_key n with
    | Some kn =>
        bind (node_plain_text content kn) (fun key =>
          if beq key gha_steps_key then
            match child_by_field k_value n with Some v => gha_in_steps content v | None => recurse end
          else recurse)
    | None => recurse
    end
  else recurse.
