(* Model of src/config.rs: decoding LspConfig from the JSON value a client returns
   (serde derive semantics for the four structs; field tables, missing-field policies and
   defaults regenerated from the source), and is_registry_enabled. *)
From Coq Require Import ZArith.
From VL Require Import Lib.Bytes Lib.Reg Gen.GenConfig.

Inductive json :=
| JNull | JBool (b : bool) | JInt (z : Z) | JFloat | JStr (s : bytes)
| JArr (l : list json) | JObj (l : list (bytes * json)).   (* object keys are distinct (serde_json maps) *)

Definition i64_ok (z : Z) : bool := (-9223372036854775808 <=? z)%Z && (z <=? 9223372036854775807)%Z.

Record config := mkConfig {
  cf_refresh_interval : Z;
  cf_enabled : list (bytes * bool);      (* per registries key, in field order *)
  cf_ignore_prerelease : bool }.

Definition default_enabled_list : list (bytes * bool) := map (fun f => (fst f, cfg_default_enabled)) fields_RegistriesConfig.
Definition default_config : config := mkConfig cfg_default_refresh_interval default_enabled_list cfg_default_ignore_prerelease.

(* a missing field: container default / type default / error *)
Definition missing {A} (policy : N) (container_default type_default : A) : option A :=
  match policy with 1 => Some container_default | 2 => Some type_default | _ => None end.

Definition policy_of (tbl : list (bytes * N)) (k : bytes) : N :=
  match find (fun f => beq (fst f) k) tbl with Some f => snd f | None => 0 end.
Definition nth_key (tbl : list (bytes * N)) (i : nat) : bytes := match nth_error tbl i with Some f => fst f | None => [] end.
Definition lookup (k : bytes) (l : list (bytes * json)) : option json :=
  option_map snd (find (fun p => beq (fst p) k) l).

Definition dec_bool (j : json) : option bool := match j with JBool b => Some b | _ => None end.
Definition dec_i64 (j : json) : option Z := match j with JInt z => if i64_ok z then Some z else None | _ => None end.

(* a struct with one field of type T, from a JSON object or positionally from an array *)
Definition dec_single {A} (tbl : list (bytes * N)) (dec : json -> option A) (cdef tdef : A) (j : json) : option A :=
  let k := nth_key tbl 0 in
  match j with
  | JObj l => match lookup k l with Some v => dec v | None => missing (policy_of tbl k) cdef tdef end
  | JArr [] => missing (policy_of tbl k) cdef tdef
  | JArr [v] => dec v
  | _ => None
  end.

Definition dec_registry (j : json) : option bool := dec_single fields_RegistryConfig dec_bool cfg_default_enabled false j.
Definition dec_cache (j : json) : option Z := dec_single fields_CacheConfig dec_i64 cfg_default_refresh_interval 0%Z j.

Fixpoint all_some_l {A} (l : list (option A)) : option (list A) :=
  match l with
  | [] => Some []
  | Some x :: t => option_map (cons x) (all_some_l t)
  | None :: _ => None
  end.

Definition dec_registries (j : json) : option (list (bytes * bool)) :=
  let keys := map fst fields_RegistriesConfig in
  match j with
  | JObj l =>
      all_some_l (map (fun k => match lookup k l with
                                | Some v => option_map (fun b => (k, b)) (dec_registry v)
                                | None => option_map (fun b => (k, b)) (missing (policy_of fields_RegistriesConfig k) cfg_default_enabled cfg_default_enabled)
                                end) keys)
  | JArr vs =>
      if (length keys <? length vs)%nat then None else
      all_some_l (map (fun i => let k := nth i keys [] in
                                match nth_error vs i with
                                | Some v => option_map (fun b => (k, b)) (dec_registry v)
                                | None => option_map (fun b => (k, b)) (missing (policy_of fields_RegistriesConfig k) cfg_default_enabled cfg_default_enabled)
                                end) (seq 0 (length keys)))
  | _ => None
  end.

Definition dec_config (j : json) : option config :=
  let k_cache := nth_key fields_LspConfig 0 in
  let k_regs := nth_key fields_LspConfig 1 in
  let k_ign := nth_key fields_LspConfig 2 in
  let field {A} (k : bytes) (v : option json) (dec : json -> option A) (cdef tdef : A) : option A :=
    match v with Some x => dec x | None => missing (policy_of fields_LspConfig k) cdef tdef end in
  let build (vc vr vi : option json) : option config :=
    match field k_cache vc dec_cache cfg_default_refresh_interval cfg_default_refresh_interval,
          field k_regs vr dec_registries default_enabled_list default_enabled_list,
          field k_ign vi dec_bool cfg_default_ignore_prerelease false with
    | Some c, Some r, Some i => Some (mkConfig c r i)
    | _, _, _ => None
    end in
  match j with
  | JObj l => build (lookup k_cache l) (lookup k_regs l) (lookup k_ign l)
  | JArr vs => if (3 <? length vs)%nat then None else build (nth_error vs 0) (nth_error vs 1) (nth_error vs 2)
  | _ => None
  end.

(* the configuration handler: null means defaults; a decoding error keeps the previous settings *)
Inductive cfg_effect := CfgSet (c : config) | CfgKeepAndReport | CfgKeep.
Definition on_config_answer (answer : option json) : cfg_effect :=
  match answer with
  | None => CfgKeep                       (* the request failed or is unsupported *)
  | Some JNull => CfgSet default_config
  | Some j => match dec_config j with Some c => CfgSet c | None => CfgKeepAndReport end
  end.

Definition is_registry_enabled (c : config) (r : registry) : bool :=
  match find (fun p => reg_eqb (fst p) r) enabled_key with
  | Some p => match find (fun e => beq (fst e) (snd p)) (cf_enabled c) with Some e => snd e | None => false end
  | None => false
  end.
