(* Model of src/parser/go_mod.rs: the line loop and the three regular expressions, as hand-written scanners
   with the leftmost-first semantics of the `regex` crate for exactly these patterns
   (WS = Unicode White_Space, ANY = anything but a line feed; lines contain no line feed).  No proofs in this file. *)
From Coq Require Import ZArith.
From VL Require Import Lib.Bytes Lib.Text Lib.Cst Gen.GenParsers.

(* maximal run of white-space code points / of other code points *)
Fixpoint span_ws_fuel (fuel : nat) (s acc : bytes) : bytes * bytes :=
  match fuel with
  | O => (acc, s)
  | S f => match strip_any ws_seqs s with
           | Some r => span_ws_fuel f r (acc ++ firstn (length s - length r) s)
           | None => (acc, s)
           end
  end.
Definition span_ws (s : bytes) : bytes * bytes := span_ws_fuel (length s) s [].
Fixpoint span_nonws (s : bytes) : bytes * bytes :=
  match s with
  | [] => ([], [])
  | c :: t => match strip_any ws_seqs s with
              | Some _ => ([], s)
              | None => let '(a, r) := span_nonws t in (c :: a, r)
              end
  end.

(* the tail  v NONWS+ [WS* // ANY*] END  on a text that starts right after the 'v': the captured length of NONWS+ *)
Fixpoint last_slashslash (t : bytes) (i : N) (best : option N) : option N :=
  match t with
  | [] => best
  | c :: r => last_slashslash r (i + 1) (if (1 <=? i) && starts_with [47; 47] t then Some i else best)
  end.
Definition version_tail (s : bytes) : option N :=
  let '(tok, rest) := span_nonws s in
  if beq tok [] then None else
  match rest with
  | [] => Some (blen tok)
  | _ => let '(_, r) := span_ws rest in
         if starts_with [47; 47] r then Some (blen tok)
         else last_slashslash tok 0 None           (* give characters back until "//" follows *)
  end.

(* (NONWS+) WS+ (v NONWS+) [WS* // ANY*] END : module, version, offset of the version in [s] *)
Definition spec_tail (s : bytes) (off : N) : option (bytes * bytes * N) :=
  let '(m, r1) := span_nonws s in
  if beq m [] then None else
  let '(w1, r2) := span_ws r1 in
  if beq w1 [] then None else
  match r2 with
  | 118 :: r3 => match version_tail r3 with
                 | Some k => Some (m, 118 :: firstn_N k r3, off + blen m + blen w1)
                 | None => None
                 end
  | _ => None
  end.
(* require_spec_re: START WS* then the tail above *)
Definition match_require_spec (line : bytes) : option (bytes * bytes * N) :=
  let '(w0, r) := span_ws line in spec_tail r (blen w0).
Definition kw_require : bytes := [114;101;113;117;105;114;101].
(* single_require_re: START require WS+ then the tail above *)
Definition match_single_require (trimmed : bytes) : option (bytes * bytes * N) :=
  match strip_prefix kw_require trimmed with
  | Some r => let '(w0, r') := span_ws r in if beq w0 [] then None else spec_tail r' (7 + blen w0)
  | None => None
  end.
(* block_start_re: START require WS* ( WS* END *)
Definition match_block_start (trimmed : bytes) : bool :=
  match strip_prefix kw_require trimmed with
  | Some r => let '(_, r') := span_ws r in
              match r' with 40 :: r'' => let '(_, e) := span_ws r'' in beq e [] | _ => false end
  | None => false
  end.

(* ")" optionally followed by blanks and a // comment *)
Definition block_close (trimmed : bytes) : bool :=
  match trimmed with
  | 41 :: rest => let r := trim_start rest in beq r [] || starts_with [47; 47] r
  | _ => false
  end.

(* the line loop over the pieces of the document (each piece is a line with its terminator): [off] is the byte
   offset of the piece in the document (the line slices are subslices of the content), [num] its number *)
Fixpoint go_loop (pieces : list bytes) (num : nat) (off : N) (in_block : bool) : list pkg :=
  match pieces with
  | [] => []
  | piece :: rest =>
      let line := chomp piece in
      let next := off + blen piece in
      let trimmed := trim line in
      if beq trimmed [] || starts_with [47; 47] trimmed then go_loop rest (S num) next in_block
      else if in_block && block_close trimmed then go_loop rest (S num) next false
      else if match_block_start trimmed then go_loop rest (S num) next true
      else
        if in_block then
          match match_require_spec (trim_end line) with
          | Some (m, v, o) =>
              mkPkg m v None (off + o) (off + o + blen v) (N.of_nat num) o None :: go_loop rest (S num) next in_block
          | None => go_loop rest (S num) next in_block
          end
        else
          match match_single_require trimmed with
          | Some (m, v, o) =>
              let vpos := blen line - blen (trim_start line) + o in       (* the regex ran on the trimmed line *)
              mkPkg m v None (off + vpos) (off + vpos + blen v) (N.of_nat num) vpos None :: go_loop rest (S num) next in_block
          | None => go_loop rest (S num) next in_block
          end
  end.
Definition parse_go_mod (content : bytes) : list pkg := go_loop (split_inclusive_aux content []) O 0 false.
