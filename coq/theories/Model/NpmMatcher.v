(* Model of src/version/matchers/npm.rs (also used by jsr.rs and pnpm.rs,
   which delegate to npm_version_exists / npm_compare_to_latest). *)
From VL Require Import Lib.Bytes Lib.SemVer Model.SemverUtil.

Inductive vrange :=
| RExact (v : version) | RCaret (v : version) | RTilde (v : version)
| RGte (v : version) | RGt (v : version) | RLte (v : version) | RLt (v : version)
| RAny | RWildMajor (ma : N) | RWildMinor (ma mi : N)
| RHyphen (from to : version).

Inductive vspec := Single (r : vrange) | And (l : list vrange) | Or (l : list vspec).

(* ---- VersionRange ---- *)
Definition parse_hyphen (spec : bytes) : option vrange :=
  match split_str [32;45;32] spec with
  | [a; b] =>
      match parse_version (trim a), parse_version (trim b) with
      | Some f, Some t => Some (RHyphen f t)
      | _, _ => None
      end
  | _ => None
  end.

Definition is_x (s : bytes) : bool := eq_ignore_ascii_case s [120].

Definition parse_wildcard (spec : bytes) : option vrange :=
  match split_char 46 spec with
  | [ma; x] => if is_x x then option_map RWildMajor (parse_u64 ma) else None
  | [ma; mi; x] =>
      if is_x x then
        match parse_u64 ma, parse_u64 mi with
        | Some a, Some b => Some (RWildMinor a b)
        | _, _ => None
        end
      else None
  | _ => None
  end.

Definition range_parse (spec0 : bytes) : option vrange :=
  let spec := trim spec0 in
  match parse_hyphen spec with
  | Some r => Some r
  | None =>
    match strip_prefix [62;61] spec with
    | Some rest => option_map RGte (parse_version (trim rest))
    | None =>
    match strip_prefix [62] spec with
    | Some rest => option_map RGt (parse_version (trim rest))
    | None =>
    match strip_prefix [60;61] spec with
    | Some rest => option_map RLte (parse_version (trim rest))
    | None =>
    match strip_prefix [60] spec with
    | Some rest => option_map RLt (parse_version (trim rest))
    | None =>
    match strip_prefix [94] spec with
    | Some rest => option_map RCaret (parse_version (trim rest))
    | None =>
    match strip_prefix [126] spec with
    | Some rest => option_map RTilde (parse_version (trim rest))
    | None =>
      if beq spec [42] then Some RAny
      else match parse_wildcard spec with
           | Some r => Some r
           | None => option_map RExact (parse_version spec)
           end
    end end end end end end
  end.

Definition caret_sat (v x : version) : bool :=
  if v_lt x v then false
  else if major v =? 0 then
         if minor v =? 0 then (major x =? 0) && (minor x =? 0) && (patch x =? patch v)
         else (major x =? 0) && (minor x =? minor v)
       else major x =? major v.

Definition range_sat (r : vrange) (x : version) : bool :=
  match r with
  | RExact v => v_eq x v
  | RCaret v => caret_sat v x
  | RTilde v => v_ge x v && (major x =? major v) && (minor x =? minor v)
  | RGte v => v_ge x v
  | RGt v => v_gt x v
  | RLte v => v_le x v
  | RLt v => v_lt x v
  | RAny => true
  | RWildMajor ma => major x =? ma
  | RWildMinor ma mi => (major x =? ma) && (minor x =? mi)
  | RHyphen f t => v_ge x f && v_le x t
  end.

Definition range_base (r : vrange) : option version :=
  match r with
  | RExact v | RCaret v | RTilde v | RGte v | RGt v | RLte v | RLt v => Some v
  | RAny => None
  | RWildMajor ma => Some (ver_new ma 0 0)
  | RWildMinor ma mi => Some (ver_new ma mi 0)
  | RHyphen f _ => Some f
  end.

(* ---- VersionSpec ---- *)
Definition nth_b (s : bytes) (i : N) : N := nth (N.to_nat i) s 0.
Definition slice_tot (s : bytes) (a b : N) : bytes := firstn_N (b - a) (skipn_N a s).

(* split_and_parts, on bytes (after the fix that indexes bytes, not chars) *)
Fixpoint sap_loop (fuel : nat) (spec : bytes) (i cs : N) (parts : list bytes) : list bytes * N :=
  match fuel with
  | O => (parts, cs)
  | S f =>
      if i <? blen spec then
        if nth_b spec i =? 32 then
          let before := trim (slice_tot spec cs i) in
          match before with
          | [] => sap_loop f spec (i + 1) cs parts
          | _ =>
              if (i + 2 <? blen spec) && (nth_b spec (i + 1) =? 45) && (nth_b spec (i + 2) =? 32)
              then sap_loop f spec (i + 3) cs parts
              else sap_loop f spec (i + 1) (i + 1) (parts ++ [before])
          end
        else sap_loop f spec (i + 1) cs parts
      else (parts, cs)
  end.

Definition split_and_parts (spec : bytes) : list bytes :=
  let '(parts, cs) := sap_loop (S (length spec)) spec 0 0 [] in
  match trim (skipn_N cs spec) with
  | [] => parts
  | last => parts ++ [last]
  end.

Fixpoint all_some {A} (l : list (option A)) : option (list A) :=
  match l with
  | [] => Some []
  | Some x :: t => option_map (cons x) (all_some t)
  | None :: _ => None
  end.

Definition parse_and_or_single (spec0 : bytes) : option vspec :=
  let spec := trim spec0 in
  match spec with
  | [] => None
  | _ =>
    match parse_hyphen spec with
    | Some _ => option_map Single (range_parse spec)
    | None =>
        match split_and_parts spec with
        | (_ :: _ :: _) as parts => option_map And (all_some (map range_parse parts))
        | _ => option_map Single (range_parse spec)
        end
    end
  end.

Definition spec_parse (spec0 : bytes) : option vspec :=
  let spec := trim spec0 in
  match spec with
  | [] => None
  | _ =>
    if contains [124;124] spec then
      match map trim (split_str [124;124] spec) with
      | (_ :: _ :: _) as parts => option_map Or (all_some (map parse_and_or_single parts))
      | _ => parse_and_or_single spec
      end
    else parse_and_or_single spec
  end.

Fixpoint spec_sat (s : vspec) (x : version) : bool :=
  match s with
  | Single r => range_sat r x
  | And l => forallb (fun r => range_sat r x) l
  | Or l => existsb (fun s' => spec_sat s' x) l
  end.

Definition spec_base (s : vspec) : option version :=
  match s with
  | Single r => range_base r
  | And l => match l with r :: _ => range_base r | [] => None end
  | Or l => match l with
            | Single r :: _ => range_base r
            | And (r :: _) :: _ => range_base r
            | _ => None
            end
  end.

Definition version_exists (spec : bytes) (available : list bytes) : bool :=
  match spec_parse spec with
  | None => false
  | Some s => existsb (fun v => match parse v with Some x => spec_sat s x | None => false end) available
  end.

Definition compare_to_latest (current latest : bytes) : compare_result :=
  match spec_parse current with
  | None => Invalid
  | Some s =>
      match parse latest with
      | None => Invalid
      | Some l =>
          if spec_sat s l then Latest
          else match spec_base s with
               | None => Latest
               | Some b => if v_lt b l then Outdated else Newer
               end
      end
  end.
