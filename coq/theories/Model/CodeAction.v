(* Model of src/lsp/code_action.rs: cursor hit-test, operator prefix, the bump actions and their text edits,
   and the hash-pinned variants with a tag -> commit oracle.  Positions are (line, character) as sent to the
   client; arithmetic is in N (u32 overflow needs documents beyond 4 GiB and is outside the model).
   [None] where the Rust code panics (usize underflow in the comment span).  No proofs in this file. *)
From Coq Require Import ZArith.
From VL Require Import Lib.Bytes Lib.SemVer Lib.Cst Model.SemverUtil.

(* PackageIndex::find_at_position: the first package on that line whose [column, column + len(version)) holds the cursor *)
Definition hit (p : pkg) (line char : N) : bool :=
  (p_line p =? line) && (p_col p <=? char) && (char <? p_col p + blen (p_version p)).
Definition find_at (pkgs : list pkg) (line char : N) : option pkg := find (fun p => hit p line char) pkgs.

Definition extract_version_prefix (v : bytes) : bytes :=
  if starts_with [62;61] v then [62;61] else if starts_with [60;61] v then [60;61]
  else if starts_with [62] v then [62] else if starts_with [60] v then [60] else if starts_with [61] v then [61]
  else if starts_with [94] v then [94] else if starts_with [126] v then [126] else if starts_with [118] v then [118] else [].

Record action := mkAction { a_title : bytes; a_line : N; a_start : N; a_end : N; a_text : bytes }.

Definition t_bump : bytes := [66;117;109;112;32;116;111;32;108;97;116;101;115;116;32].          (* "Bump to latest " *)
Definition t_bump_latest : bytes := [66;117;109;112;32;116;111;32;108;97;116;101;115;116;58;32].  (* "Bump to latest: " *)
Definition l_patch : bytes := [112;97;116;99;104].
Definition l_minor : bytes := [109;105;110;111;114].
Definition l_major : bytes := [109;97;106;111;114].
Definition title_of (label new_version : bytes) : bytes := t_bump ++ label ++ [58; 32] ++ new_version.

(* the three targets in order, an already seen version string is not offered again *)
Definition targets (current : bytes) (versions : list bytes) : list (bytes * bytes) :=
  let raw := [(calculate_latest_patch current versions, l_patch); (calculate_latest_minor current versions, l_minor);
              (calculate_latest_major current versions, l_major)] in
  let step := fun (acc : list bytes * list (bytes * bytes)) (t : option bytes * bytes) =>
                match fst t with
                | None => acc
                | Some v => if existsb (beq v) (fst acc) then acc else (v :: fst acc, snd acc ++ [(v, snd t)])
                end in
  snd (fold_left step raw ([], [])).

Definition plain_action (p : pkg) (label new_version : bytes) : action :=
  mkAction (title_of label new_version) (p_line p) (p_col p) (p_col p + blen (p_version p)) new_version.

(* generate_bump_code_actions; [versions] = None when the cache read fails *)
Definition bump_actions (versions : option (list bytes)) (p : pkg) : list action :=
  match versions with
  | None | Some [] => []
  | Some vs =>
      let prefix := extract_version_prefix (p_version p) in
      map (fun t => plain_action p (snd t) (prefix ++ fst t)) (targets (p_version p) vs)
  end.

(* create_hash_bump_action *)
Definition hash_action (p : pkg) (title new_sha new_version : bytes) : option action :=
  match p_extra p with
  | Some (_, _, comment_end) =>
      if comment_end <? p_start p then None          (* usize underflow *)
      else Some (mkAction title (p_line p) (p_col p) (p_col p + (comment_end - p_start p)) (new_sha ++ [32; 35; 32] ++ new_version))
  | None =>
      let hl := match p_hash p with Some h => blen h | None => 40 end in
      Some (mkAction title (p_line p) (p_col p) (p_col p + hl) new_sha)
  end.

Fixpoint all_some {A} (l : list (option A)) : option (list A) :=
  match l with [] => Some [] | Some x :: t => option_map (cons x) (all_some t) | None :: _ => None end.

(* generate_bump_code_actions_with_sha; [latest] = get_latest_version (None when it fails or is absent);
   [sha tag] = the commit the registry reports for the tag, None when the lookup fails *)
Definition bump_actions_sha (versions : option (list bytes)) (latest : option bytes) (sha : bytes -> option bytes) (p : pkg) : option (list action) :=
  match versions with
  | None | Some [] => Some []
  | Some vs =>
      match p_hash p, p_extra p with
      | Some _, None =>
          match latest with
          | None => Some []
          | Some l => match sha l with
                      | None => Some []
                      | Some s => option_map (fun a => [a]) (hash_action p (t_bump_latest ++ l) s l)
                      end
          end
      | hash, _ =>
          let prefix := extract_version_prefix (p_version p) in
          all_some (flat_map (fun t =>
                      let nv := prefix ++ fst t in
                      match hash with
                      | Some _ => match sha nv with
                                  | None => []
                                  | Some s => [hash_action p (title_of (snd t) nv) s nv]
                                  end
                      | None => [Some (plain_action p (snd t) nv)]
                      end) (targets (p_version p) vs))
      end
  end.

(* what a client does with a TextEdit on a line whose text before the range is ASCII (bytes = UTF-16 units):
   the bytes [line_start + a_start, line_start + a_end) are replaced *)
Fixpoint line_offset (s : bytes) (line : nat) (off : N) {struct s} : option N :=
  match line with
  | O => Some off
  | S k => match s with
           | [] => None
           | c :: t => if c =? 10 then line_offset t k (off + 1) else line_offset t line (off + 1)
           end
  end.
Definition apply_edit (content : bytes) (a : action) : bytes :=
  match line_offset content (N.to_nat (a_line a)) 0 with
  | Some ls => firstn_N (ls + a_start a) content ++ a_text a ++ skipn_N (ls + a_end a) content
  | None => content
  end.
