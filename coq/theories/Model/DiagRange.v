(* The range of a diagnostic (src/lsp/diagnostics.rs, create_diagnostic): positions are cast with `as u32`,
   the end character is column + end_offset - start_offset in usize (None = the subtraction underflows). *)
From Coq Require Import ZArith.
From VL Require Import Lib.Bytes Lib.Cst.

Definition u32 (n : N) : N := n mod 4294967296.
Definition diag_range (p : pkg) : option (N * N * N * N) :=
  if p_col p + p_end p <? p_start p then None
  else Some (u32 (p_line p), u32 (p_col p), u32 (p_line p), u32 (p_col p + p_end p - p_start p)).

(* UTF-16 code units of UTF-8 text (what LSP positions count by default) *)
Definition utf16_units (c : N) : N := if c <? 128 then 1 else if c <? 192 then 0 else if c <? 240 then 1 else 2.
Definition utf16_len (s : bytes) : N := fold_right (fun c acc => utf16_units c + acc) 0 s.
