(* Model of src/version/matchers/go.rs *)
From VL Require Import Lib.Bytes Lib.SemVer Model.SemverUtil.

Definition s_incompatible : bytes := [43;105;110;99;111;109;112;97;116;105;98;108;101].

Definition normalize_go_version (v : bytes) : bytes :=
  let v1 := match strip_prefix [118] v with Some r => r | None => v end in
  match strip_suffix s_incompatible v1 with Some r => r | None => v1 end.

Definition is_pseudo_version (v : bytes) : bool :=
  match split_once 45 (normalize_go_version v) with
  | None => false
  | Some (_, rest) =>
      match split_char 45 rest with
      | ts :: _ :: _ =>
          ((blen ts =? 14) && forallb is_digit ts) ||
          (starts_with [48;46] ts && (blen ts =? 16) && forallb is_digit (skipn 2 ts))
      | _ => false
      end
  end.

(* NB: [chars().all(is_ascii_digit)] on a string whose byte length is 14/16:
   a multi-byte character is never an ASCII digit, so testing bytes is exact;
   [&timestamp[2..]] cannot split a character because the first two bytes
   are ASCII "0.". *)

Definition parse_go_version (v : bytes) : option (version * option bytes) :=
  let n := normalize_go_version v in
  match split_once 45 n with
  | Some (base, rest) =>
      match split_char 45 rest with
      | ts :: _ :: _ =>
          if (blen ts =? 14) && forallb is_digit ts then
            match parse base with Some p => Some (p, Some ts) | None => None end
          else match parse (base ++ [45] ++ rest) with Some p => Some (p, None) | None => None end
      | _ => match parse (base ++ [45] ++ rest) with Some p => Some (p, None) | None => None end
      end
  | None => match parse n with Some p => Some (p, None) | None => None end
  end.

Definition of_cmp (c : comparison) : compare_result :=
  match c with Lt => Outdated | Gt => Newer | Eq => Latest end.

Definition compare_to_latest (current latest : bytes) : compare_result :=
  match parse_go_version current with
  | None => Invalid
  | Some (cv, ct) =>
      match parse_go_version latest with
      | None => Invalid
      | Some (lv, lt) =>
          match vcmp cv lv with
          | Lt => Outdated
          | Gt => Newer
          | Eq => match ct, lt with
                  | Some a, Some b => of_cmp (bcmp a b)
                  | None, Some _ => Newer
                  | Some _, None => Outdated
                  | None, None => Latest
                  end
          end
      end
  end.

Definition version_exists (spec : bytes) (available : list bytes) : bool :=
  if is_pseudo_version spec then true
  else let n := normalize_go_version spec in
       existsb (fun v => beq (normalize_go_version v) n) available.
