(* Model of src/lsp/backend.rs as an event machine (C13, C14, C18): documents, the optional
   store, the configuration, the diagnostics publications and the background fetch tasks.
   Handlers are modelled as run one at a time (DESIGN 3.7).  A document text is an abstract
   revision id; [pkg_of] gives the (at most one) dependency a revision declares - the
   streams use manifests with one dependency per revision, the theorems do not depend on it. *)
From Coq Require Import ZArith.
From VL Require Import Lib.Bytes.

Definition uri := N.  Definition rev := N.  Definition pkgid := N.

Inductive reply := RVersions | RNotFound | RError.

Inductive bevent :=
| EvOpen (u : uri) (t : rev)
| EvChange (u : uri) (t : rev)
| EvClose (u : uri)
| EvReply (p : pkgid) (r : reply)       (* the registry answers the pending request for p *)
| EvAction (u : uri).                   (* a code-action request on a spec of the document *)

Record bconfig := mkCfg {
  c_supported : uri -> bool;            (* detect_parser_type(uri) is Some *)
  c_enabled : uri -> bool;              (* the registry of the uri is enabled *)
  c_has_store : bool;                   (* the cache could be opened *)
  pkg_of : rev -> option pkgid }.

(* one publication: for which uri, computed from which revision and which cache version *)
Record publication := mkPub { pb_uri : uri; pb_rev : rev; pb_cver : N }.

Inductive output := OutPublish (p : publication) | OutWarnNoCache | OutActions (offered : bool).

Record bstate := mkB {
  docs : list (uri * rev);
  cached : list pkgid;                  (* packages with versions in the cache *)
  marked : list pkgid;                  (* packages marked nonexistent *)
  fetching : list (pkgid * uri);        (* claimed packages with the document whose task waits for them *)
  cver : N }.                           (* number of cache changes so far *)

Definition init_state (cached0 : list pkgid) : bstate := mkB [] cached0 [] [] 0.

Definition doc_rev (s : bstate) (u : uri) : option rev := option_map snd (find (fun d => fst d =? u) (docs s)).
Definition set_doc (u : uri) (t : rev) (l : list (uri * rev)) := (u, t) :: filter (fun d => negb (fst d =? u)) l.
Definition mem (x : N) (l : list N) : bool := existsb (N.eqb x) l.

(* did_open / did_change: cache the document, then check_and_publish_diagnostics *)
Definition on_text (c : bconfig) (s : bstate) (u : uri) (t : rev) : bstate * list output :=
  let s1 := mkB (set_doc u t (docs s)) (cached s) (marked s) (fetching s) (cver s) in
  if negb (c_supported c u) || negb (c_enabled c u) then (s1, [])
  else if negb (c_has_store c) then (s1, [OutWarnNoCache])
  else
    let pub := OutPublish (mkPub u t (cver s)) in
    match pkg_of c t with
    | None => (s1, [pub])
    | Some p =>
        (* the task: missing filter, then claim; a cached / marked / already claimed package is not requested *)
        if mem p (cached s) || mem p (marked s) || mem p (map fst (fetching s)) then (s1, [pub])
        else (mkB (docs s1) (cached s) (marked s) ((p, u) :: fetching s) (cver s), [pub])
    end.

Definition step (c : bconfig) (s : bstate) (e : bevent) : bstate * list output :=
  match e with
  | EvOpen u t | EvChange u t => on_text c s u t
  | EvClose u => (mkB (filter (fun d => negb (fst d =? u)) (docs s)) (cached s) (marked s) (fetching s) (cver s), [])
  | EvReply p r =>
      match find (fun f => fst f =? p) (fetching s) with
      | None => (s, [])
      | Some (_, u) =>
          let rest := filter (fun f => negb (fst f =? p)) (fetching s) in
          match r with
          | RVersions =>
              let s1 := mkB (docs s) (p :: cached s) (marked s) rest (cver s + 1) in
              (* re-publish from the document's current text; nothing if it was closed *)
              (s1, match doc_rev s u with Some t => [OutPublish (mkPub u t (cver s + 1))] | None => [] end)
          | RNotFound => (mkB (docs s) (cached s) (p :: marked s) rest (cver s), [])
          | RError => (mkB (docs s) (cached s) (marked s) rest (cver s), [])
          end
      end
  | EvAction u =>
      if negb (c_supported c u) || negb (c_enabled c u) || negb (c_has_store c) then (s, [OutActions false])
      else (s, [OutActions (match doc_rev s u with Some _ => true | None => false end)])
  end.

Fixpoint run (c : bconfig) (s : bstate) (l : list bevent) : bstate * list output :=
  match l with
  | [] => (s, [])
  | e :: t => let '(s1, o1) := step c s e in let '(s2, o2) := run c s1 t in (s2, o1 ++ o2)
  end.

(* the most recent publication for a uri *)
Fixpoint last_pub (u : uri) (outs : list output) (acc : option publication) : option publication :=
  match outs with
  | [] => acc
  | OutPublish p :: t => last_pub u t (if pb_uri p =? u then Some p else acc)
  | _ :: t => last_pub u t acc
  end.
