(* Model of src/lsp/refresh.rs: fetch_and_cache_package, fetch_missing_packages,
   refresh_packages, over a storer whose every call may fail (fault oracle) and a
   registry whose reply is given (outcome).  A failing storer call has no effect on the
   database (each cache method is atomic, C11). *)
From Coq Require Import ZArith.
From VL Require Import Lib.Bytes Model.CacheDb Spec.AbsCache.

Inductive outcome :=
| OVersions (vs : list bytes) (tags : list (bytes * bytes))
| ONotFound
| OTransient.          (* rate limited, network error, invalid response: every other error *)

(* which of the five storer call sites of one pipeline fail *)
Record faults := mkF { f_claim : bool; f_store : bool; f_tags : bool; f_mark : bool; f_release : bool }.
Definition no_faults : faults := mkF false false false false false.

(* what happened, for the call log: did the pipeline request the registry *)
Record fetch_result := mkR { r_db : db; r_requested : bool; r_success : bool }.

Definition fetch_one (T : Z) (k : key) (now : Z) (out : outcome) (fl : faults) (d : db) : fetch_result :=
  (* (1) try_start_fetch; an error or false: return false without a request *)
  let '(d1, can) := if f_claim fl then (d, false) else try_start_fetch T k now d in
  if negb can then mkR d1 false false else
  (* the registry answers *)
  let '(d2, success) :=
    match out with
    | OVersions vs tags =>
        if f_store fl then (d1, false)                       (* (2) replace_versions failed: tags not attempted *)
        else let d2 := replace_versions k vs now d1 in
             let d3 := match tags with
                       | [] => d2
                       | _ => if f_tags fl then d2 else save_dist_tags k tags now d2   (* (3) error ignored *)
                       end in
             (d3, true)
    | ONotFound => ((if f_mark fl then d1 else mark_not_found k d1), false)   (* (4) error ignored *)
    | OTransient => (d1, false)
    end in
  (* (5) finish_fetch, always; error ignored *)
  mkR (if f_release fl then d2 else finish_fetch k d2) true success.

(* one entry of a batch: the package name, what the registry will say, which storer calls fail *)
Definition entry := (bytes * outcome * faults)%type.

(* fetch_missing_packages: one filter query over all names (a failure means "nothing to fetch"),
   then one pipeline per occurrence of a missing name, in batch order.  The pipelines are futures
   joined on one task: with a registry that answers at once they run one after the other. *)
Fixpoint run_pipelines (T : Z) (reg : bytes) (now : Z) (l : list entry) (d : db) : db * list bytes * list bytes :=
  match l with
  | [] => (d, [], [])
  | (name, out, fl) :: t =>
      let r := fetch_one T (reg, name) now out fl d in
      let '(d', req, ok) := run_pipelines T reg now t (r_db r) in
      (d', (if r_requested r then [name] else []) ++ req, (if r_success r then [name] else []) ++ ok)
  end.

Definition fetch_missing (T : Z) (reg : bytes) (now : Z) (filter_fails : bool) (batch : list entry) (d : db)
  : db * list bytes * list bytes :=
  if filter_fails then (d, [], []) else
  let missing := filter_packages_not_in_cache reg (map (fun e => fst (fst e)) batch) d in
  run_pipelines T reg now (filter (fun e => existsb (beq (fst (fst e))) missing) batch) d.

(* refresh_packages: one pipeline per given package *)
Definition refresh (T : Z) (reg : bytes) (now : Z) (batch : list entry) (d : db) : db * list bytes * list bytes :=
  run_pipelines T reg now batch d.
