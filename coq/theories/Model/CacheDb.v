(* Model of src/version/cache.rs: the SQLite database as row-level state and
   each public method as the effect of its SQL statements.  SQLite itself is
   assumed (DESIGN 3.5): statements are atomic, text comparison is bytewise,
   rows of a SELECT without ORDER BY come in an unspecified order (the model
   uses insertion order; every comparison with the real file is on sorted
   lists).  [now] is the value of current_timestamp_ms() captured by the call. *)
From Coq Require Export ZArith.
From VL Require Import Lib.Bytes Lib.SemVer Model.SemverUtil.

Definition key := (bytes * bytes)%type.         (* registry_type text, package_name *)
Definition key_eqb (a b : key) : bool := beq (fst a) (fst b) && beq (snd a) (snd b).

Record pkg := mkPkg {
  p_id : N; p_key : key; p_updated : Z; p_fetching : option Z; p_notfound : bool }.

Record db := mkDb {
  pkgs : list pkg;                       (* table packages, in rowid order *)
  vers : list (N * bytes);               (* table versions: package_id, version *)
  tags : list (N * (bytes * bytes));     (* table dist_tags: package_id, (tag_name, version) *)
  next_id : N }.                         (* AUTOINCREMENT counter of packages *)

Definition empty_db : db := mkDb [] [] [] 1.

Definition find_pkg (d : db) (k : key) : option pkg :=
  find (fun p => key_eqb (p_key p) k) (pkgs d).

Definition upd_pkgs (k : key) (f : pkg -> pkg) (l : list pkg) : list pkg :=
  map (fun p => if key_eqb (p_key p) k then f p else p) l.

Definition vers_of (d : db) (id : N) : list bytes :=
  map snd (filter (fun r => fst r =? id) (vers d)).
Definition tags_of (d : db) (id : N) : list (bytes * bytes) :=
  map snd (filter (fun r => fst r =? id) (tags d)).

(* ---------- statements ---------- *)
(* INSERT INTO packages ... ON CONFLICT DO UPDATE SET updated_at / DO NOTHING *)
Definition upsert_pkg (touch : bool) (k : key) (now : Z) (d : db) : db :=
  match find_pkg d k with
  | Some _ =>
      (* SQLite allocates the AUTOINCREMENT rowid before it detects the conflict: the counter advances *)
      if touch then mkDb (upd_pkgs k (fun p => mkPkg (p_id p) (p_key p) now (p_fetching p) (p_notfound p)) (pkgs d))
                        (vers d) (tags d) (next_id d + 1)
      else mkDb (pkgs d) (vers d) (tags d) (next_id d + 1)
  | None => mkDb (pkgs d ++ [mkPkg (next_id d) k now None false]) (vers d) (tags d) (next_id d + 1)
  end.

(* INSERT OR IGNORE INTO versions (package_id, version) under UNIQUE(package_id, version) *)
Definition insert_version (id : N) (v : bytes) (d : db) : db :=
  if existsb (fun r => (fst r =? id) && beq (snd r) v) (vers d) then d
  else mkDb (pkgs d) (vers d ++ [(id, v)]) (tags d) (next_id d).

Definition delete_tags (id : N) (d : db) : db :=
  mkDb (pkgs d) (vers d) (filter (fun r => negb (fst r =? id)) (tags d)) (next_id d).

Definition insert_tag (id : N) (t : bytes * bytes) (d : db) : db :=
  mkDb (pkgs d) (vers d) (tags d ++ [(id, t)]) (next_id d).

(* ---------- methods ---------- *)
Definition replace_versions (k : key) (vs : list bytes) (now : Z) (d : db) : db :=
  let d1 := upsert_pkg true k now d in
  match find_pkg d1 k with
  | Some p => fold_left (fun acc v => insert_version (p_id p) v acc) vs d1
  | None => d1   (* unreachable: the row was just upserted *)
  end.

(* the tag map of the caller is a HashMap: distinct tag names *)
Definition save_dist_tags (k : key) (m : list (bytes * bytes)) (now : Z) (d : db) : db :=
  match m with
  | [] => d
  | _ =>
      let d1 := upsert_pkg false k now d in
      match find_pkg d1 k with
      | Some p => fold_left (fun acc t => insert_tag (p_id p) t acc) m (delete_tags (p_id p) d1)
      | None => d1
      end
  end.

Definition get_versions (k : key) (d : db) : list bytes :=
  match find_pkg d k with Some p => vers_of d (p_id p) | None => [] end.

Definition get_dist_tag (k : key) (t : bytes) (d : db) : option bytes :=
  match find_pkg d k with
  | Some p => option_map snd (find (fun x => beq (fst x) t) (tags_of d (p_id p)))
  | None => None
  end.

Definition version_exists (k : key) (v : bytes) (d : db) : bool :=
  existsb (beq v) (get_versions k d).

Definition tag_latest : bytes := [108;97;116;101;115;116].

(* Iterator::max_by: the last maximal element *)
Fixpoint max_by_parsed (l : list (bytes * version)) : option (bytes * version) :=
  match l with
  | [] => None
  | x :: t => match max_by_parsed t with
              | None => Some x
              | Some m => match vcmp (snd x) (snd m) with Gt => Some x | _ => Some m end
              end
  end.

Definition candidates (ignore_prerelease : bool) (vs : list bytes) : list (bytes * version) :=
  flat_map (fun v => match parse_version v with
                     | Some p => if ignore_prerelease && negb (match pre p with [] => true | _ => false end) then [] else [(v, p)]
                     | None => []
                     end) vs.

Definition get_latest_version (ignore_prerelease : bool) (k : key) (d : db) : option bytes :=
  match get_dist_tag k tag_latest d with
  | Some v => Some v
  | None => option_map fst (max_by_parsed (candidates ignore_prerelease (get_versions k d)))
  end.

Definition fetch_timeout_ms_model : Z := 30000.

Definition try_start_fetch_stmt1 (timeout : Z) (k : key) (now : Z) (d : db) : db * bool :=
  match find_pkg d k with
  | Some p =>
      let free := match p_fetching p with None => true | Some s => (s <? now - timeout)%Z end in
      if free then (mkDb (upd_pkgs k (fun q => mkPkg (p_id q) (p_key q) (p_updated q) (Some now) (p_notfound q)) (pkgs d))
                         (vers d) (tags d) (next_id d), true)
      else (d, false)
  | None => (d, false)
  end.

Definition try_start_fetch_stmt2 (k : key) (now : Z) (d : db) : db * bool :=
  match find_pkg d k with
  | Some _ => (mkDb (pkgs d) (vers d) (tags d) (next_id d + 1), false)   (* ignored insert still advances the counter *)
  | None => (mkDb (pkgs d ++ [mkPkg (next_id d) k now (Some now) false]) (vers d) (tags d) (next_id d + 1), true)
  end.

Definition try_start_fetch (timeout : Z) (k : key) (now : Z) (d : db) : db * bool :=
  let '(d1, ok) := try_start_fetch_stmt1 timeout k now d in
  if ok then (d1, true) else try_start_fetch_stmt2 k now d1.

Definition finish_fetch (k : key) (d : db) : db :=
  mkDb (upd_pkgs k (fun q => mkPkg (p_id q) (p_key q) (p_updated q) None (p_notfound q)) (pkgs d))
       (vers d) (tags d) (next_id d).

Definition mark_not_found (k : key) (d : db) : db :=
  mkDb (upd_pkgs k (fun q => mkPkg (p_id q) (p_key q) (p_updated q) (p_fetching q) true) (pkgs d))
       (vers d) (tags d) (next_id d).

Definition needs_refresh (interval now : Z) (p : pkg) : bool :=
  (p_updated p <? now - interval)%Z && negb (p_notfound p).

(* rows whose registry_type text is not a known registry are dropped by the caller *)
Definition get_packages_needing_refresh (known_reg : bytes -> bool) (interval now : Z) (d : db) : list key :=
  map p_key (filter (fun p => needs_refresh interval now p && known_reg (fst (p_key p))) (pkgs d)).

Definition is_cached (d : db) (k : key) : bool :=
  match find_pkg d k with
  | Some p => negb (match vers_of d (p_id p) with [] => true | _ => false end) || p_notfound p
  | None => false
  end.

Definition filter_packages_not_in_cache (reg : bytes) (names : list bytes) (d : db) : list bytes :=
  filter (fun n => negb (is_cached d (reg, n))) names.
