(* Crash / error atomicity of the cache write paths (C11) and schema opening (C12).

   A write method is a sequence of database calls (Gen.GenCache.stmt_order, regenerated
   from cache.rs): begin transaction, writes inside it, commit; or bare autocommit writes.
   SQLite is assumed to make each statement atomic, to roll back an uncommitted
   transaction when the connection is dropped or the process dies, and (WAL,
   synchronous=NORMAL) to keep every committed transaction across a process kill. *)
From Coq Require Import ZArith.
From VL Require Import Lib.Bytes Model.CacheDb.

Inductive tok := TBegin | TCommit | TWriteTx | TWriteAuto | TRead.

Definition tok_of (n : N) : option tok :=
  match n with 0 => Some TBegin | 1 => Some TCommit | 2 => Some TWriteTx | 3 => Some TWriteAuto | 4 => Some TRead | _ => None end.

(* execution state: the committed database, and the working copy of an open transaction *)
Record txstate {D} := mkTx { committed : D; working : option D }.
Arguments mkTx {D}. Arguments txstate D : clear implicits.

Section Exec.
  Variable D : Type.
  (* the effect of the i-th write call of the method (in order of execution) *)
  Variable effect : nat -> D -> D.

  (* run the calls one by one; [i] counts the write calls executed so far *)
  Fixpoint exec (l : list tok) (st : txstate D) (i : nat) : txstate D :=
    match l with
    | [] => st
    | TBegin :: t => exec t (mkTx (committed st) (Some (committed st))) i
    | TCommit :: t => exec t (match working st with Some w => mkTx w None | None => st end) i
    | TWriteTx :: t =>
        exec t (match working st with
                | Some w => mkTx (committed st) (Some (effect i w))
                | None => mkTx (effect i (committed st)) None      (* no transaction open: autocommit *)
                end) (S i)
    | TWriteAuto :: t => exec t (mkTx (effect i (committed st)) (working st)) (S i)
    | TRead :: t => exec t st i
    end.

  (* what a fresh process finds after a crash (or what remains after an error return, which
     drops the transaction): the committed database *)
  Definition after_crash_at (l : list tok) (n : nat) (d : D) : D :=
    committed (exec (firstn n l) (mkTx d None) 0).
  Definition after_complete (l : list tok) (d : D) : D := committed (exec l (mkTx d None) 0).

  (* all writes happen between one begin and the final commit *)
  Fixpoint inside_only (l : list tok) : bool :=
    match l with
    | [] => false
    | [TCommit] => true
    | TWriteTx :: t | TRead :: t => inside_only t
    | _ => false
    end.
  Fixpoint well_bracketed (l : list tok) : bool :=
    match l with
    | TRead :: t => well_bracketed t
    | TBegin :: t => inside_only t
    | _ => false
    end.
End Exec.

(* ---------- schema (C12) ---------- *)
Record schema := mkSchema { has_tables : bool; has_fetching : bool; has_notfound : bool; user_version : N }.
Definition fresh_file : schema := mkSchema false false false 0.
Definition full (s : schema) : bool := has_tables s && has_fetching s && has_notfound s.

(* the statements of Cache::new after the pragmas, on the schema (rows are untouched by all of them:
   CREATE ... IF NOT EXISTS, ALTER TABLE ADD COLUMN with a NULL / constant default, PRAGMA user_version) *)
Inductive sstmt :=
| SCreate                      (* the six CREATE TABLE / INDEX IF NOT EXISTS, each idempotent *)
| SAlter (col : N)             (* migration col+1: 0 = fetching_since, 1 = not_found; duplicate column tolerated *)
| SSetVersion (n : N).

Definition schema_step (st : sstmt) (s : schema) : schema :=
  match st with
  | SCreate => mkSchema true (has_fetching s) (has_notfound s) (user_version s)
  | SAlter 0 => mkSchema (has_tables s) true (has_notfound s) (user_version s)
  | SAlter _ => mkSchema (has_tables s) (has_fetching s) true (user_version s)
  | SSetVersion n => mkSchema (has_tables s) (has_fetching s) (has_notfound s) n
  end.

(* the statements an open issues, given the user_version it read *)
Definition n_migrations : N := 2.
Definition migration_stmts (cur : N) : list sstmt :=
  (if cur <? 1 then [SAlter 0] else []) ++ (if cur <? 2 then [SAlter 1] else []) ++
  (if cur <? n_migrations then [SSetVersion n_migrations] else []).
Definition open_stmts (cur : N) : list sstmt := repeat SCreate 6 ++ migration_stmts cur.

Definition run_schema (l : list sstmt) (s : schema) : schema := fold_left (fun acc st => schema_step st acc) l s.

(* an open, uninterrupted: the six creates, then read user_version, then the migrations *)
Definition open_db (s : schema) : schema :=
  let s1 := run_schema (repeat SCreate 6) s in run_schema (migration_stmts (user_version s1)) s1.

(* shapes a released version can have left behind (or a fresh file): columns present imply the
   tables; a recorded version implies its columns *)
Definition legal_shape (s : schema) : bool :=
  (negb (has_fetching s) || has_tables s) && (negb (has_notfound s) || has_tables s) &&
  (negb (1 <=? user_version s) || has_fetching s) && (negb (2 <=? user_version s) || has_notfound s) &&
  (negb (has_notfound s) || has_fetching s).
