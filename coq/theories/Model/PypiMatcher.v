(* Model of src/version/matchers/pypi.rs.  PEP 440 itself (pep440_rs:
   VersionSpecifiers::from_str, Version::from_str, contains, Ord) is an oracle:
   Section variables in the theorems, recorded answers of the real library in
   the correspondence run. *)
From VL Require Import Lib.Bytes Model.SemverUtil.

Definition pypi_operators : list bytes :=
  [[62;61]; [60;61]; [61;61]; [33;61]; [126;61]; [62]; [60]].   (* >= <= == != ~= > < *)

Definition first_comma_part (s : bytes) : bytes :=
  match split_char 44 s with p :: _ => trim p | [] => [] end.

Fixpoint strip_first_op (ops : list bytes) (spec : bytes) : option bytes :=
  match ops with
  | [] => None
  | op :: t => match strip_prefix op spec with Some rest => Some rest | None => strip_first_op t spec end
  end.

Definition extract_base_version (spec0 : bytes) : bytes :=
  let spec := trim spec0 in
  match strip_first_op pypi_operators spec with
  | Some rest => first_comma_part rest
  | None => first_comma_part spec
  end.

Section Pypi.
  Variable specs_ok : bytes -> bool.                (* VersionSpecifiers::from_str succeeds *)
  Variable ver_ok : bytes -> bool.                  (* Version::from_str succeeds *)
  Variable contains : bytes -> bytes -> bool.       (* specifiers.contains(version), both parsable *)
  Variable ver_le : bytes -> bytes -> bool.         (* a <= b on parsable versions *)

  Definition version_exists (spec : bytes) (available : list bytes) : bool :=
    match spec with
    | [] => match available with [] => false | _ => true end
    | _ => if specs_ok spec then existsb (fun v => ver_ok v && contains spec v) available else false
    end.

  Definition compare_to_latest (current latest : bytes) : compare_result :=
    match current with
    | [] => Latest
    | _ =>
        if negb (ver_ok latest) then Invalid
        else if negb (specs_ok current) then Invalid
        else if contains current latest then Latest
        else let b := extract_base_version (trim current) in
             if ver_ok b then (if ver_le b latest then Outdated else Newer) else Outdated
    end.
End Pypi.
