(* Statement-level interleavings of claim attempts (C09).  Same-handle methods are
   serialised by the handle's mutex; different handles (processes) interleave between
   the two autocommit statements of try_start_fetch.  Every other write method is one
   statement or one committed transaction, i.e. one atomic step (SQLite: single writer;
   assumed, DESIGN 3.5).  Each claimant reads the clock once, before its first statement. *)
From Coq Require Import ZArith.
From VL Require Import Lib.Bytes Model.CacheDb Spec.AbsCache.

Inductive sstep :=
| SAtomic (o : op)                        (* store / tags / mark / release: atomic *)
| SClaim1 (h : N) (k : key) (now : Z)     (* handle h: UPDATE ... WHERE free-or-expired *)
| SClaim2 (h : N)                         (* handle h: INSERT OR IGNORE, only after a Claim1 that changed no row *)
| SDie (h : N).                           (* handle h dies between its two statements *)

Inductive event :=
| EClaim (h : N) (k : key) (now : Z) (ok : bool)
| ERelease (k : key)
| EOther.

Record sstate := mkS { s_db : db; s_pending : list (N * (key * Z)) }.

Definition pending_of (h : N) (l : list (N * (key * Z))) : option (key * Z) :=
  option_map snd (find (fun x => fst x =? h) l).
Definition drop_pending (h : N) (l : list (N * (key * Z))) := filter (fun x => negb (fst x =? h)) l.

Definition is_claim (o : op) : bool := match o with OClaim _ _ => true | _ => false end.

Definition sched_step (T : Z) (st : sstate) (s : sstep) : sstate * list event :=
  match s with
  | SAtomic o =>
      if is_claim o then (st, [])      (* claims go through SClaim1/SClaim2 *)
      else (mkS (c_step T o (s_db st)) (s_pending st),
            [match o with ORelease k => ERelease k | _ => EOther end])
  | SClaim1 h k now =>
      match pending_of h (s_pending st) with
      | Some _ => (st, [])             (* the handle is inside a claim already (its mutex is held) *)
      | None =>
          let '(d', ok) := try_start_fetch_stmt1 T k now (s_db st) in
          if ok then (mkS d' (s_pending st), [EClaim h k now true])
          else (mkS d' ((h, (k, now)) :: s_pending st), [])
      end
  | SClaim2 h =>
      match pending_of h (s_pending st) with
      | None => (st, [])
      | Some (k, now) =>
          let '(d', ok) := try_start_fetch_stmt2 k now (s_db st) in
          (mkS d' (drop_pending h (s_pending st)), [EClaim h k now ok])
      end
  | SDie h => (mkS (s_db st) (drop_pending h (s_pending st)), [])
  end.

Fixpoint sched_run (T : Z) (st : sstate) (l : list sstep) : sstate * list event :=
  match l with
  | [] => (st, [])
  | s :: t => let '(st1, e1) := sched_step T st s in
              let '(st2, e2) := sched_run T st1 t in (st2, e1 ++ e2)
  end.

(* who holds the claim on k according to the events so far: the time of the last successful
   claim since the last release *)
Fixpoint holder (k : key) (evs : list event) (acc : option Z) : option Z :=
  match evs with
  | [] => acc
  | EClaim _ k' now true :: t => holder k t (if key_eqb k' k then Some now else acc)
  | ERelease k' :: t => holder k t (if key_eqb k' k then None else acc)
  | _ :: t => holder k t acc
  end.
