(* RegistryType of src/parser/types.rs.  The translator checks that the Rust
   enum has exactly these variants in this order (Gen/GenDetect.v). *)
From VL Require Export Lib.Bytes.

Inductive registry := GitHubActions | Npm | CratesIo | GoProxy | PnpmCatalog | Jsr | PyPI.

Definition all_registries : list registry :=
  [GitHubActions; Npm; CratesIo; GoProxy; PnpmCatalog; Jsr; PyPI].

Definition reg_code (r : registry) : N :=
  match r with
  | GitHubActions => 0 | Npm => 1 | CratesIo => 2 | GoProxy => 3
  | PnpmCatalog => 4 | Jsr => 5 | PyPI => 6
  end.

Definition reg_eqb (a b : registry) : bool := N.eqb (reg_code a) (reg_code b).

Lemma reg_eqb_eq a b : reg_eqb a b = true <-> a = b.
Proof.
  unfold reg_eqb. rewrite N.eqb_eq.
  split; [| intros ->; reflexivity].
  destruct a, b; cbn; intro H; try reflexivity; discriminate.
Qed.

Lemma all_registries_complete r : In r all_registries.
Proof. destruct r; cbn; tauto. Qed.

Definition reg_of_code (n : N) : option registry :=
  find (fun r => N.eqb (reg_code r) n) all_registries.

Definition opt_reg_code (o : option registry) : N :=
  match o with None => 99 | Some r => reg_code r end.
