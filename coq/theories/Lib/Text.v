(* Text helpers shared by the Go-proxy adapter and the go.mod parser: Rust's [str::lines] and positions. *)
From Coq Require Import ZArith.
From VL Require Import Lib.Bytes.

(* split after each '\n' (the terminator stays on its piece) *)
Fixpoint split_inclusive_aux (s acc : bytes) : list bytes :=
  match s with
  | [] => match acc with [] => [] | _ => [rev acc] end
  | c :: t => if c =? 10 then rev (c :: acc) :: split_inclusive_aux t [] else split_inclusive_aux t (c :: acc)
  end.
(* a trailing "\n" is removed, and a '\r' in front of it *)
Definition chomp (line : bytes) : bytes :=
  match strip_suffix [10] line with
  | None => line
  | Some l => match strip_suffix [13] l with Some l' => l' | None => l end
  end.
Definition lines (s : bytes) : list bytes := map chomp (split_inclusive_aux s []).

(* (row, column in bytes) of a byte offset: rows are separated by '\n' *)
Fixpoint pos_of_aux (s : bytes) (off : nat) (row col : N) : N * N :=
  match off, s with
  | O, _ => (row, col)
  | S k, c :: t => if c =? 10 then pos_of_aux t k (row + 1) 0 else pos_of_aux t k row (col + 1)
  | S _, [] => (row, col)
  end.
Definition pos_of (s : bytes) (off : N) : N * N := pos_of_aux s (N.to_nat off) 0 0.

(* a byte offset is a code-point boundary of valid UTF-8 text *)
Definition is_cont (c : N) : bool := (128 <=? c) && (c <? 192).
Definition is_boundary (s : bytes) (off : N) : bool :=
  (off <=? blen s) && match nth_error s (N.to_nat off) with Some c => negb (is_cont c) | None => true end.
