(* What an adapter sees of an HTTP reply: status, the retry-after header, and the body as a JSON value
   (members in document order) or as raw text. *)
From Coq Require Import ZArith.
From VL Require Import Lib.Bytes Model.Config.

Inductive body := BJson (j : json) | BRaw (text : bytes).   (* BRaw: not parsable as JSON (or, for Go, the text itself) *)
Record reply := mkReply { r_status : N; r_retry_after : option bytes; r_body : body }.
