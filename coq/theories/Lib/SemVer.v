(* Model of the `semver` crate (1.0.27): Version::parse, the derived Ord on
   Version (build metadata takes part), Display.  Third-party code, but every
   matcher feeds cached versions through it; tied to the crate by the
   `semver` correspondence stream. *)
From VL Require Import Lib.Bytes.

Record version := mkV { major : N; minor : N; patch : N; pre : bytes; build : bytes }.

Definition ver_new (a b c : N) : version := mkV a b c [] [].

(* ---------- parsing ---------- *)
(* numeric_identifier: at least one digit, no leading zero, u64 range *)
Fixpoint num_loop (s : bytes) (value : N) (len : nat) : option (N * bytes) :=
  match s with
  | c :: t =>
      if is_digit c then
        if (value =? 0) && negb (Nat.eqb len 0) then None (* leading zero *)
        else let v := value * 10 + (c - 48) in
             if v <=? u64_max then num_loop t v (S len) else None
      else (if Nat.eqb len 0 then None else Some (value, s))
  | [] => if Nat.eqb len 0 then None else Some (value, [])
  end.
Definition numeric_identifier (s : bytes) : option (N * bytes) := num_loop s 0 O.

Definition ident_char (c : N) : bool := is_alnum c || (c =? 45).

Fixpoint span (f : N -> bool) (s : bytes) : bytes * bytes :=
  match s with
  | [] => ([], [])
  | c :: t => if f c then let (a, b) := span f t in (c :: a, b) else ([], s)
  end.

(* identifier(input, pos): returns (identifier string, rest) or an error *)
Fixpoint ident_loop (fuel : nat) (is_pre : bool) (s acc : bytes) (first : bool) : option (bytes * bytes) :=
  match fuel with
  | O => None
  | S f =>
      let (seg, rest) := span ident_char s in
      match seg with
      | [] =>
          if first then
            match rest with
            | 46 :: _ => None           (* EmptySegment *)
            | _ => Some ([], s)         (* Ok(("", input)) *)
            end
          else None                     (* EmptySegment *)
      | c0 :: seg' =>
          if is_pre && negb (Nat.eqb (length seg') 0) && forallb is_digit seg && (c0 =? 48)
          then None                     (* LeadingZero *)
          else match rest with
               | 46 :: rest' => ident_loop f is_pre rest' (acc ++ seg ++ [46]) false
               | _ => Some (acc ++ seg, rest)
               end
      end
  end.
Definition identifier (is_pre : bool) (s : bytes) : option (bytes * bytes) :=
  ident_loop (S (length s)) is_pre s [] true.

Definition dot (s : bytes) : option bytes :=
  match s with 46 :: t => Some t | _ => None end.

(* Version::from_str *)
Definition parse (text : bytes) : option version :=
  match text with
  | [] => None
  | _ =>
  match numeric_identifier text with None => None | Some (ma, t1) =>
  match dot t1 with None => None | Some t2 =>
  match numeric_identifier t2 with None => None | Some (mi, t3) =>
  match dot t3 with None => None | Some t4 =>
  match numeric_identifier t4 with None => None | Some (pa, t5) =>
  match t5 with
  | [] => Some (ver_new ma mi pa)
  | _ =>
    let pre_res :=
      match t5 with
      | 45 :: t6 =>
          match identifier true t6 with
          | None => None
          | Some ([], _) => None
          | Some (p, t7) => Some (p, t7)
          end
      | _ => Some ([], t5)
      end in
    match pre_res with None => None | Some (p, t7) =>
    let build_res :=
      match t7 with
      | 43 :: t8 =>
          match identifier false t8 with
          | None => None
          | Some ([], _) => None
          | Some (b, t9) => Some (b, t9)
          end
      | _ => Some ([], t7)
      end in
    match build_res with None => None | Some (b, t9) =>
    match t9 with
    | [] => Some (mkV ma mi pa p b)
    | _ => None
    end end end
  end end end end end end
  end.

(* ---------- ordering ---------- *)
Definition then_cmp (c : comparison) (d : comparison) : comparison :=
  match c with Eq => d | _ => c end.

Definition all_digits (s : bytes) : bool := forallb is_digit s.

Fixpoint cmp_pre_segs (a b : list bytes) : comparison :=
  match a, b with
  | [], [] => Eq
  | [], _ :: _ => Lt
  | _ :: _, [] => Gt
  | x :: a', y :: b' =>
      match all_digits x, all_digits y with
      | true, false => Lt
      | false, true => Gt
      | true, true =>
          then_cmp (then_cmp (N.compare (blen x) (blen y)) (bcmp x y)) (cmp_pre_segs a' b')
      | false, false => then_cmp (bcmp x y) (cmp_pre_segs a' b')
      end
  end.

Definition cmp_pre (a b : bytes) : comparison :=
  match a, b with
  | [], [] => Eq
  | [], _ => Gt
  | _, [] => Lt
  | _, _ => cmp_pre_segs (split_char 46 a) (split_char 46 b)
  end.

Definition trim0 (s : bytes) : bytes := drop_while (N.eqb 48) s.

Fixpoint cmp_build_segs (a b : list bytes) : comparison :=
  match a, b with
  | [], [] => Eq
  | [], _ :: _ => Lt
  | _ :: _, [] => Gt
  | x :: a', y :: b' =>
      match all_digits x, all_digits y with
      | true, false => Lt
      | false, true => Gt
      | true, true =>
          let xv := trim0 x in let yv := trim0 y in
          then_cmp (then_cmp (then_cmp (N.compare (blen xv) (blen yv)) (bcmp xv yv))
                             (N.compare (blen x) (blen y)))
                   (cmp_build_segs a' b')
      | false, false => then_cmp (bcmp x y) (cmp_build_segs a' b')
      end
  end.
Definition cmp_build (a b : bytes) : comparison :=
  cmp_build_segs (split_char 46 a) (split_char 46 b).

(* SemVer precedence (build metadata ignored) *)
Definition prec (a b : version) : comparison :=
  then_cmp (N.compare (major a) (major b))
  (then_cmp (N.compare (minor a) (minor b))
  (then_cmp (N.compare (patch a) (patch b))
            (cmp_pre (pre a) (pre b)))).

(* the derived Ord of semver::Version: precedence, then build metadata *)
Definition vcmp (a b : version) : comparison := then_cmp (prec a b) (cmp_build (build a) (build b)).

Definition v_lt a b := match vcmp a b with Lt => true | _ => false end.
Definition v_le a b := match vcmp a b with Gt => false | _ => true end.
Definition v_gt a b := match vcmp a b with Gt => true | _ => false end.
Definition v_ge a b := match vcmp a b with Lt => false | _ => true end.
(* derived PartialEq: field-wise *)
Definition v_eq (a b : version) : bool :=
  (major a =? major b) && (minor a =? minor b) && (patch a =? patch b) &&
  beq (pre a) (pre b) && beq (build a) (build b).

(* ---------- Display ---------- *)
Definition show (v : version) : bytes :=
  show_N (major v) ++ [46] ++ show_N (minor v) ++ [46] ++ show_N (patch v) ++
  (match pre v with [] => [] | p => 45 :: p end) ++
  (match build v with [] => [] | b => 43 :: b end).

(* ---------- well-formedness of parsed versions ---------- *)
Definition wf_seg (s : bytes) : bool :=
  match s with [] => false | _ => forallb ident_char s end.
Definition wf_idents (s : bytes) : bool :=
  match s with [] => true | _ => forallb wf_seg (split_char 46 s) end.
Definition wf_version (v : version) : bool := wf_idents (pre v) && wf_idents (build v).
