(* Concrete syntax trees as tree-sitter hands them to the parsers: every node (anonymous tokens included)
   with its kind, the field name it has in its parent, byte range, start point and MISSING flag.
   tree-sitter itself is not modelled: trees are data, dumped from the real parser on every document. *)
From Coq Require Import ZArith.
From VL Require Import Lib.Bytes Lib.Text.

Inductive node :=
  Node (kind field : bytes) (sb eb row col : N) (missing : bool) (children : list node).

Definition n_kind (n : node) := let 'Node k _ _ _ _ _ _ _ := n in k.
Definition n_field (n : node) := let 'Node _ f _ _ _ _ _ _ := n in f.
Definition n_sb (n : node) := let 'Node _ _ s _ _ _ _ _ := n in s.
Definition n_eb (n : node) := let 'Node _ _ _ e _ _ _ _ := n in e.
Definition n_row (n : node) := let 'Node _ _ _ _ r _ _ _ := n in r.
Definition n_col (n : node) := let 'Node _ _ _ _ _ c _ _ := n in c.
Definition n_missing (n : node) := let 'Node _ _ _ _ _ _ m _ := n in m.
Definition n_children (n : node) := let 'Node _ _ _ _ _ _ _ c := n in c.

Definition kind_is (k : bytes) (n : node) : bool := beq (n_kind n) k.
Definition child_by_field (f : bytes) (n : node) : option node := find (fun c => beq (n_field c) f) (n_children n).
(* &content[node.byte_range()]: None = the slice panics *)
Definition node_text (content : bytes) (n : node) : option bytes := slice content (n_sb n) (n_eb n).

(* what tree-sitter guarantees for any input: ranges ordered, nested, inside the document, on code-point
   boundaries; the start point is the position of the start byte *)
Fixpoint wf_node (content : bytes) (lo hi : N) (n : node) : bool :=
  let 'Node _ _ sb eb row col _ ch := n in
  (lo <=? sb) && (sb <=? eb) && (eb <=? hi) && is_boundary content sb && is_boundary content eb
  && (let '(r, c) := pos_of content sb in (r =? row) && (c =? col))
  && (fix go (l : list node) (lo' : N) : bool :=
        match l with
        | [] => true
        | c :: t => wf_node content lo' eb c && go t (n_eb c)
        end) ch sb.
Definition wf_cst (content : bytes) (root : node) : bool := wf_node content 0 (blen content) root.

(* a parsed dependency, as PackageInfo (registry type left out: one per parser) *)
Record pkg := mkPkg {
  p_name : bytes; p_version : bytes; p_hash : option bytes;
  p_start : N; p_end : N; p_line : N; p_col : N;
  p_extra : option (bytes * N * N) }.       (* comment text, start (the '#'), end *)

(* beyond [wf_cst]: every node of kind "string" (JSON, TOML) spans at least its two delimiters and does not
   start with a line feed - true of the grammars' string tokens, monitored on every tree *)
Fixpoint string_nodes_ok (content : bytes) (n : node) : bool :=
  let 'Node kind _ sb eb _ _ _ ch := n in
  (if beq kind [115;116;114;105;110;103]
   then (sb + 2 <=? eb) && match nth_error content (N.to_nat sb) with Some x => negb (x =? 10) | None => false end
   else true)
  && (fix go (l : list node) : bool := match l with [] => true | c :: t => string_nodes_ok content c && go t end) ch.

(* a predicate on every node of a tree *)
Fixpoint tree_forall (P : node -> bool) (n : node) : bool :=
  let 'Node _ _ _ _ _ _ _ ch := n in
  P n && (fix go (l : list node) : bool := match l with [] => true | c :: t => tree_forall P c && go t end) ch.
(* what the walks need of a node not to panic: its byte range can be sliced, and a string token does not end at offset 0 *)
Definition node_safe (content : bytes) (n : node) : bool :=
  (n_sb n <=? n_eb n) && (n_eb n <=? blen content)
  && (if beq (n_kind n) [115;116;114;105;110;103] then negb (n_eb n =? 0) else true).

(* no node whose text, trimmed, is a lone quote character (the YAML / TOML walks cut the first and last byte off a
   value that starts and ends with a quote) *)
Definition not_lone_quote (content : bytes) (n : node) : bool :=
  match node_text content n with
  | Some t => let tr := trim t in negb (beq tr [34]) && negb (beq tr [39])
  | None => true
  end.
