(* Byte strings: a Rust &str is modelled as its UTF-8 bytes, [list N].
   Only definitions and small lemmas; no property statements. *)
From Coq Require Export List NArith Bool Lia.
Export ListNotations.
Open Scope N_scope.
Open Scope list_scope.

Definition byte := N.
Definition bytes := list N.

Arguments N.add : simpl never.
Arguments N.sub : simpl never.
Arguments N.mul : simpl never.
Arguments N.eqb : simpl never.
Arguments N.ltb : simpl never.
Arguments N.leb : simpl never.

(* ---------- equality ---------- *)
Fixpoint beq (a b : bytes) : bool :=
  match a, b with
  | [], [] => true
  | x :: a', y :: b' => N.eqb x y && beq a' b'
  | _, _ => false
  end.

Lemma beq_eq a b : beq a b = true <-> a = b.
Proof.
  revert b; induction a as [|x a IH]; intros [|y b]; cbn [beq]; split; intro H;
    try reflexivity; try discriminate.
  - apply andb_true_iff in H as [H1 H2]. apply N.eqb_eq in H1. apply IH in H2. congruence.
  - inversion H; subst. apply andb_true_iff; split; [apply N.eqb_refl | apply IH; reflexivity].
Qed.

Lemma beq_refl a : beq a a = true.
Proof. apply beq_eq; reflexivity. Qed.

Lemma beq_neq a b : beq a b = false <-> a <> b.
Proof.
  split; intro H.
  - intro E. apply beq_eq in E. congruence.
  - destruct (beq a b) eqn:E; [apply beq_eq in E; contradiction | reflexivity].
Qed.

(* lexicographic byte order: Rust's Ord for str *)
Fixpoint bcmp (a b : bytes) : comparison :=
  match a, b with
  | [], [] => Eq
  | [], _ => Lt
  | _, [] => Gt
  | x :: a', y :: b' => match N.compare x y with Eq => bcmp a' b' | c => c end
  end.

(* ---------- prefixes, suffixes, substrings ---------- *)
Fixpoint starts_with (p s : bytes) : bool :=
  match p, s with
  | [], _ => true
  | x :: p', y :: s' => N.eqb x y && starts_with p' s'
  | _ :: _, [] => false
  end.

Fixpoint strip_prefix (p s : bytes) : option bytes :=
  match p, s with
  | [], _ => Some s
  | x :: p', y :: s' => if N.eqb x y then strip_prefix p' s' else None
  | _ :: _, [] => None
  end.

Definition ends_with (suf s : bytes) : bool := starts_with (rev suf) (rev s).

Definition strip_suffix (suf s : bytes) : option bytes :=
  match strip_prefix (rev suf) (rev s) with
  | Some r => Some (rev r)
  | None => None
  end.

Fixpoint contains (p s : bytes) : bool :=
  starts_with p s ||
  match s with
  | [] => false
  | _ :: t => contains p t
  end.

Lemma starts_with_app p s : starts_with p (p ++ s) = true.
Proof. induction p as [|x p IH]; cbn; [reflexivity|]. rewrite N.eqb_refl, IH. reflexivity. Qed.

Lemma starts_with_spec p s : starts_with p s = true <-> exists t, s = p ++ t.
Proof.
  revert s; induction p as [|x p IH]; intros s; cbn [starts_with].
  - split; [intros _; exists s; reflexivity | reflexivity].
  - destruct s as [|y s].
    + split; [discriminate | intros [t Ht]; discriminate].
    + rewrite andb_true_iff, N.eqb_eq, IH. split.
      * intros [-> [t ->]]. exists t. reflexivity.
      * intros [t Ht]. cbn in Ht. inversion Ht; subst. split; [reflexivity | exists t; reflexivity].
Qed.

Lemma ends_with_spec suf s : ends_with suf s = true <-> exists t, s = t ++ suf.
Proof.
  unfold ends_with. rewrite starts_with_spec. split; intros [t Ht].
  - exists (rev t). rewrite <- (rev_involutive s), Ht, rev_app_distr, rev_involutive. reflexivity.
  - exists (rev t). rewrite Ht, rev_app_distr. reflexivity.
Qed.

Lemma contains_spec p s : contains p s = true <-> exists a b, s = a ++ p ++ b.
Proof.
  induction s as [|y s IH]; cbn [contains].
  - rewrite orb_false_r, starts_with_spec. split.
    + intros [t Ht]. exists [], t. exact Ht.
    + intros [a [b H]]. destruct a; [exists b; exact H | discriminate].
  - rewrite orb_true_iff, starts_with_spec, IH. split.
    + intros [[t Ht] | [a [b H]]].
      * exists [], t. exact Ht.
      * exists (y :: a), b. cbn. rewrite H. reflexivity.
    + intros [a [b H]]. destruct a as [|x a].
      * left. exists b. exact H.
      * right. cbn in H. inversion H; subst. exists a, b. reflexivity.
Qed.

(* ---------- splitting ---------- *)
(* Rust [s.split(c)] for a char pattern: always at least one piece. *)
Fixpoint split_char_aux (c : N) (s acc : bytes) : list bytes :=
  match s with
  | [] => [rev acc]
  | x :: t => if N.eqb x c then rev acc :: split_char_aux c t [] else split_char_aux c t (x :: acc)
  end.
Definition split_char (c : N) (s : bytes) : list bytes := split_char_aux c s [].

(* Rust [s.split(sep)] for a non-empty string pattern: leftmost non-overlapping. *)
Fixpoint split_str_aux (sep s acc : bytes) (skip : nat) : list bytes :=
  match s with
  | [] => [rev acc]
  | x :: t =>
      match skip with
      | S k => split_str_aux sep t acc k
      | O => if starts_with sep s
             then rev acc :: split_str_aux sep t [] (length sep - 1)
             else split_str_aux sep t (x :: acc) O
      end
  end.
Definition split_str (sep s : bytes) : list bytes := split_str_aux sep s [] O.

(* Rust [s.split_once(c)] *)
Fixpoint split_once_aux (c : N) (s acc : bytes) : option (bytes * bytes) :=
  match s with
  | [] => None
  | x :: t => if N.eqb x c then Some (rev acc, t) else split_once_aux c t (x :: acc)
  end.
Definition split_once (c : N) (s : bytes) : option (bytes * bytes) := split_once_aux c s [].

(* position of the first occurrence of a byte / of a substring *)
Fixpoint find_char_aux (c : N) (s : bytes) (i : N) : option N :=
  match s with
  | [] => None
  | x :: t => if N.eqb x c then Some i else find_char_aux c t (i + 1)
  end.
Definition find_char c s := find_char_aux c s 0.

Fixpoint find_str_aux (p s : bytes) (i : N) : option N :=
  if starts_with p s then Some i else
  match s with
  | [] => None
  | _ :: t => find_str_aux p t (i + 1)
  end.
Definition find_str p s := find_str_aux p s 0.

(* ---------- slicing ---------- *)
Definition blen (s : bytes) : N := N.of_nat (length s).
Definition skipn_N (n : N) (s : bytes) : bytes := skipn (N.to_nat n) s.
Definition firstn_N (n : N) (s : bytes) : bytes := firstn (N.to_nat n) s.
(* s[a..b] ignoring char-boundary checks; None = out of range (Rust panics) *)
Definition slice (s : bytes) (a b : N) : option bytes :=
  if (a <=? b) && (b <=? blen s) then Some (firstn_N (b - a) (skipn_N a s)) else None.

(* ---------- trimming ---------- *)
(* Unicode White_Space as UTF-8 byte sequences *)
Definition ws_seqs : list bytes :=
  [ [9]; [10]; [11]; [12]; [13]; [32];
    [194;133]; [194;160]; [225;154;128];
    [226;128;128]; [226;128;129]; [226;128;130]; [226;128;131]; [226;128;132];
    [226;128;133]; [226;128;134]; [226;128;135]; [226;128;136]; [226;128;137];
    [226;128;138]; [226;128;168]; [226;128;169]; [226;128;175]; [226;129;159];
    [227;128;128] ].

Fixpoint strip_any (ps : list bytes) (s : bytes) : option bytes :=
  match ps with
  | [] => None
  | p :: ps' => match strip_prefix p s with Some r => Some r | None => strip_any ps' s end
  end.

Fixpoint trim_start_fuel (fuel : nat) (s : bytes) : bytes :=
  match fuel with
  | O => s
  | S f => match strip_any ws_seqs s with
           | Some r => trim_start_fuel f r
           | None => s
           end
  end.
Definition trim_start (s : bytes) : bytes := trim_start_fuel (length s) s.
Definition ws_seqs_rev : list bytes := map (@rev N) ws_seqs.
Fixpoint trim_start_with (ps : list bytes) (fuel : nat) (s : bytes) : bytes :=
  match fuel with
  | O => s
  | S f => match strip_any ps s with
           | Some r => trim_start_with ps f r
           | None => s
           end
  end.
Definition trim_end (s : bytes) : bytes :=
  rev (trim_start_with ws_seqs_rev (length s) (rev s)).
Definition trim (s : bytes) : bytes := trim_end (trim_start s).

(* ASCII-only variants (is_ascii_whitespace / trim_matches(' ')) *)
Fixpoint drop_while (f : N -> bool) (s : bytes) : bytes :=
  match s with
  | [] => []
  | x :: t => if f x then drop_while f t else s
  end.
Definition trim_start_char (c : N) (s : bytes) : bytes := drop_while (N.eqb c) s.
Definition trim_end_char (c : N) (s : bytes) : bytes := rev (drop_while (N.eqb c) (rev s)).
Definition trim_matches_char (c : N) (s : bytes) : bytes := trim_end_char c (trim_start_char c s).

(* Rust [s.trim_start_matches(p)] for a string pattern: strip repeatedly *)
Fixpoint trim_start_str_fuel (fuel : nat) (p s : bytes) : bytes :=
  match fuel with
  | O => s
  | S f => match p with
           | [] => s
           | _ => match strip_prefix p s with
                  | Some r => trim_start_str_fuel f p r
                  | None => s
                  end
           end
  end.
Definition trim_start_str (p s : bytes) : bytes := trim_start_str_fuel (length s) p s.

(* ---------- character classes ---------- *)
Definition is_digit (c : N) : bool := (48 <=? c) && (c <=? 57).
Definition is_upper (c : N) : bool := (65 <=? c) && (c <=? 90).
Definition is_lower (c : N) : bool := (97 <=? c) && (c <=? 122).
Definition is_alpha (c : N) : bool := is_upper c || is_lower c.
Definition is_alnum (c : N) : bool := is_alpha c || is_digit c.
Definition is_hex (c : N) : bool :=
  is_digit c || ((65 <=? c) && (c <=? 70)) || ((97 <=? c) && (c <=? 102)).
Definition to_lower (c : N) : N := if is_upper c then c + 32 else c.
Definition eq_ignore_ascii_case (a b : bytes) : bool := beq (map to_lower a) (map to_lower b).

(* ---------- numbers ---------- *)
Definition u64_max : N := 18446744073709551615.

Fixpoint digits_value (s : bytes) (acc : N) : option N :=
  match s with
  | [] => Some acc
  | c :: t => if is_digit c then
                let v := acc * 10 + (c - 48) in
                if v <=? u64_max then digits_value t v else None
              else None
  end.

(* Rust [str::parse::<u64>]: optional leading '+', at least one digit, overflow is an error *)
Definition parse_u64 (s : bytes) : option N :=
  let s' := match s with 43 :: (_ :: _) as t => t | _ => s end in
  match s' with
  | [] => None
  | _ => digits_value s' 0
  end.

(* decimal rendering, as Display for u64 *)
Fixpoint show_N_fuel (fuel : nat) (n : N) (acc : bytes) : bytes :=
  match fuel with
  | O => acc
  | S f => let acc' := (48 + n mod 10) :: acc in
           if n / 10 =? 0 then acc' else show_N_fuel f (n / 10) acc'
  end.
Definition show_N (n : N) : bytes := show_N_fuel 25 n [].

(* ---------- case-file helpers ---------- *)
Fixpoint mismatches_aux {A} (f : A -> bool) (l : list A) (i : N) : list N :=
  match l with
  | [] => []
  | x :: t => if f x then mismatches_aux f t (i + 1) else i :: mismatches_aux f t (i + 1)
  end.
Definition mismatches {A} (f : A -> bool) (l : list A) : list N := mismatches_aux f l 0.

Definition opt_eqb {A} (e : A -> A -> bool) (a b : option A) : bool :=
  match a, b with
  | None, None => true
  | Some x, Some y => e x y
  | _, _ => false
  end.
Fixpoint list_eqb {A} (e : A -> A -> bool) (a b : list A) : bool :=
  match a, b with
  | [], [] => true
  | x :: a', y :: b' => e x y && list_eqb e a' b'
  | _, _ => false
  end.
