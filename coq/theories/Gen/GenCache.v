(* translator section cache FAILED: replace_versions: execute on unknown statement stmt *)
Definition translator_failed_cache : True := I.
