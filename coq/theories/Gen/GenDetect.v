(* translator section detect FAILED: is_github_actions_workflow: shape changed: let is_yaml = uri.ends_with('.yml') || uri.ends_with('.yaml'); is_yaml && in_github_dir(uri) *)
Definition translator_failed_detect : True := I.
